(* Real-number error bounds for the binary32 weight / rescale computations of the model
   (standard model of rounding to nearest with gradual underflow, Flocq error_N_FLT). *)
From Coq Require Import ZArith Reals List Bool Lia Lra Psatz QArith Qabs Qreals.
From Coq Require Import SpecFloat.
From Flocq Require Import Core BinarySingleNaN Relative.
From LMBase Require Import Res ListX IEEE.
From LMPwm Require Import GenComplement PwmModel PwmCheck.

Local Open Scope R_scope.

Notation fexp32 := (SpecFloat.fexp 24 128).
Notation rnd32 := (round radix2 fexp32 (round_mode mode_NE)).
Notation fin := (@BinarySingleNaN.is_finite 24 128).

Definition u32 : R := bpow radix2 (-24).
Definition eta32 : R := bpow radix2 (-150).

Lemma u32_pos : 0 < u32.
Proof. apply bpow_gt_0. Qed.

Lemma eta32_pos : 0 < eta32.
Proof. apply bpow_gt_0. Qed.

(* ---------- standard model ---------- *)

Lemma rnd32_err (z : R) :
  exists d e, Rabs d <= u32 /\ Rabs e <= eta32 /\ rnd32 z = z * (1 + d) + e.
Proof.
  destruct (error_N_FLT radix2 (-149) 24 ltac:(lia) (fun x => negb (Z.even x)) z)
    as (d & e & Hd & He & _ & Hr).
  exists d, e.
  assert (H2 : / 2 = bpow radix2 (-1)) by (simpl; lra).
  rewrite H2, <- bpow_plus in Hd, He.
  split; [exact Hd|]. split; [exact He|].
  exact Hr.
Qed.

(* ---------- operations that do not overflow ---------- *)

Lemma B2SF_inf_not_finite (r : f32) s : B2SF r = S754_infinity s -> fin r = false.
Proof. destruct r; cbn; intros H; inversion H; reflexivity. Qed.

Lemma div_finite_R (a b : F32.t) :
  0 < B2R b -> fin (F32.div a b) = true ->
  B2R (F32.div a b) = rnd32 (B2R a / B2R b).
Proof.
  intros Hpos Hfin.
  assert (Hne : B2R b <> 0) by lra.
  pose proof (Bdiv_correct 24 128 _ _ mode_NE a b Hne) as H.
  change (Bdiv mode_NE a b) with (F32.div a b) in H.
  destruct (Rlt_bool (Rabs (rnd32 (B2R a / B2R b))) (bpow radix2 128)).
  - destruct H as [HR _]. exact HR.
  - apply B2SF_inf_not_finite in H. rewrite H in Hfin. discriminate.
Qed.

Lemma mul_finite_R (a b : F32.t) :
  fin (F32.mul a b) = true ->
  B2R (F32.mul a b) = rnd32 (B2R a * B2R b).
Proof.
  intros Hfin.
  pose proof (Bmult_correct 24 128 _ _ mode_NE a b) as H.
  change (Bmult mode_NE a b) with (F32.mul a b) in H.
  destruct (Rlt_bool (Rabs (rnd32 (B2R a * B2R b))) (bpow radix2 128)).
  - destruct H as [HR _]. exact HR.
  - apply B2SF_inf_not_finite in H. rewrite H in Hfin. discriminate.
Qed.

(* ---------- real arithmetic ---------- *)

Lemma Rabs_mult_le (a b A B : R) : Rabs a <= A -> Rabs b <= B -> Rabs (a * b) <= A * B.
Proof.
  intros Ha Hb. rewrite Rabs_mult.
  apply Rmult_le_compat; try apply Rabs_pos; assumption.
Qed.

Lemma Rabs_1p (d u : R) : Rabs d <= u -> Rabs (1 + d) <= 1 + u.
Proof.
  intros H. eapply Rle_trans; [apply Rabs_triang|]. rewrite Rabs_R1. lra.
Qed.

Lemma relprod_step (A a d u : R) :
  Rabs (A - 1) <= a -> Rabs d <= u -> Rabs (A * (1 + d) - 1) <= (1 + a) * (1 + u) - 1.
Proof.
  intros HA Hd.
  replace (A * (1 + d) - 1) with ((A - 1) * (1 + d) + d) by ring.
  eapply Rle_trans; [apply Rabs_triang|].
  pose proof (Rabs_mult_le _ _ _ _ HA (Rabs_1p _ _ Hd)). lra.
Qed.

Lemma relprod3 (d1 d2 d3 u : R) :
  Rabs d1 <= u -> Rabs d2 <= u -> Rabs d3 <= u ->
  Rabs ((1 + d1) * (1 + d2) * (1 + d3) - 1) <= (1 + u) ^ 3 - 1.
Proof.
  intros H1 H2 H3.
  assert (Ha : Rabs ((1 + d1) - 1) <= u) by (replace (1 + d1 - 1) with d1 by ring; exact H1).
  pose proof (relprod_step _ _ _ _ Ha H2) as Hb.
  pose proof (relprod_step _ _ _ _ Hb H3) as Hc.
  eapply Rle_trans; [exact Hc|]. right. ring.
Qed.

Lemma weight_real (f o x d e u eta : R) :
  0 < o -> Rabs d <= u -> Rabs e <= eta ->
  x = f / o * (1 + d) + e ->
  Rabs (x * o - f) <= u * Rabs f + o * eta.
Proof.
  intros Ho Hd He Hx.
  replace (x * o - f) with (d * f + o * e) by (subst x; field; lra).
  eapply Rle_trans; [apply Rabs_triang|].
  assert (Hoa : Rabs o <= o) by (rewrite Rabs_pos_eq; lra).
  pose proof (Rabs_mult_le _ _ _ _ Hd (Rle_refl (Rabs f))).
  pose proof (Rabs_mult_le _ _ _ _ Hoa He). lra.
Qed.

Lemma rescale_real (f o n x q w d1 d2 d3 e1 e2 e3 u eta : R) :
  0 < o -> 0 < n ->
  Rabs d1 <= u -> Rabs d2 <= u -> Rabs d3 <= u ->
  Rabs e1 <= eta -> Rabs e2 <= eta -> Rabs e3 <= eta ->
  x = f / o * (1 + d1) + e1 ->
  q = o / n * (1 + d2) + e2 ->
  w = x * q * (1 + d3) + e3 ->
  Rabs (w * n - f)
  <= ((1 + u) ^ 3 - 1) * Rabs f
     + (Rabs x * n * (1 + u) + o * (1 + u) ^ 2 + n) * eta.
Proof.
  intros Ho Hn H1 H2 H3 G1 G2 G3 Hx Hq Hw.
  assert (Hxo : x * o = f * (1 + d1) + o * e1) by (subst x; field; lra).
  assert (Hqn : q * n = o * (1 + d2) + n * e2) by (rewrite Hq; field; lra).
  replace (w * n - f) with
    (((1 + d1) * (1 + d2) * (1 + d3) - 1) * f
     + (o * e1 * ((1 + d2) * (1 + d3)) + (x * n * e2 * (1 + d3) + n * e3))).
  2:{ rewrite Hw.
      replace (((x * q * (1 + d3) + e3) * n - f)) with (x * (q * n) * (1 + d3) + n * e3 - f) by ring.
      rewrite Hqn.
      replace (x * (o * (1 + d2) + n * e2)) with ((x * o) * (1 + d2) + x * n * e2) by ring.
      rewrite Hxo. ring. }
  assert (Hoa : Rabs o <= o) by (rewrite Rabs_pos_eq; lra).
  assert (Hna : Rabs n <= n) by (rewrite Rabs_pos_eq; lra).
  pose proof (Rabs_1p _ _ H2) as P2. pose proof (Rabs_1p _ _ H3) as P3.
  pose proof (Rabs_mult_le _ _ _ _ (relprod3 _ _ _ _ H1 H2 H3) (Rle_refl (Rabs f))) as T1.
  pose proof (Rabs_mult_le _ _ _ _ (Rabs_mult_le _ _ _ _ Hoa G1) (Rabs_mult_le _ _ _ _ P2 P3)) as T2.
  pose proof (Rabs_mult_le _ _ _ _
                (Rabs_mult_le _ _ _ _ (Rabs_mult_le _ _ _ _ (Rle_refl (Rabs x)) Hna) G2) P3) as T3.
  pose proof (Rabs_mult_le _ _ _ _ Hna G3) as T4.
  eapply Rle_trans; [apply Rabs_triang|].
  eapply Rle_trans; [apply Rplus_le_compat_l, Rabs_triang|].
  eapply Rle_trans; [apply Rplus_le_compat_l, Rplus_le_compat_l, Rabs_triang|].
  lra.
Qed.

(* ---------- Goal B ---------- *)

Theorem weight_f32_error (f o : F32.t) :
  fin f = true -> fin o = true -> 0 < B2R o ->
  let x := F32.div f o in
  fin x = true ->
  Rabs (B2R x * B2R o - B2R f) <= u32 * Rabs (B2R f) + B2R o * eta32.
Proof.
  intros _ _ Ho x Fx.
  pose proof (div_finite_R f o Ho Fx) as Hx. fold x in Hx.
  destruct (rnd32_err (B2R f / B2R o)) as (d & e & Hd & He & Hr).
  rewrite Hr in Hx.
  exact (weight_real _ _ _ _ _ _ _ Ho Hd He Hx).
Qed.

(* ---------- Goal A ---------- *)

Theorem rescale_f32_error (f o n : F32.t) :
  fin f = true -> fin o = true -> fin n = true ->
  0 < B2R o -> 0 < B2R n ->
  let x := F32.div f o in let q := F32.div o n in let w := F32.mul x q in
  fin x = true -> fin q = true -> fin w = true ->
  Rabs (B2R w * B2R n - B2R f)
  <= ((1 + u32) ^ 3 - 1) * Rabs (B2R f)
     + (Rabs (B2R x) * B2R n * (1 + u32) + B2R o * (1 + u32) ^ 2 + B2R n) * eta32.
Proof.
  intros _ _ _ Ho Hn x q w Fx Fq Fw.
  pose proof (div_finite_R f o Ho Fx) as Hx. fold x in Hx.
  pose proof (div_finite_R o n Hn Fq) as Hq. fold q in Hq.
  pose proof (mul_finite_R x q Fw) as Hw. fold w in Hw.
  destruct (rnd32_err (B2R f / B2R o)) as (d1 & e1 & Hd1 & He1 & Hr1).
  destruct (rnd32_err (B2R o / B2R n)) as (d2 & e2 & Hd2 & He2 & Hr2).
  destruct (rnd32_err (B2R x * B2R q)) as (d3 & e3 & Hd3 & He3 & Hr3).
  rewrite Hr1 in Hx. rewrite Hr2 in Hq. rewrite Hr3 in Hw.
  exact (rescale_real _ _ _ _ _ _ _ _ _ _ _ _ _ _ Ho Hn Hd1 Hd2 Hd3 He1 He2 He3 Hx Hq Hw).
Qed.

(* ---------- Goal C: the rational reading of a binary32 value ---------- *)

Lemma f32_to_Q_B2R (x : F32.t) (q : Q) :
  f32_to_Q x = Some q -> Q2R q = B2R x /\ fin x = true.
Proof.
  destruct x as [s|s| |s m e He]; cbn [f32_to_Q]; try discriminate.
  - intros H. inversion H. split; [|reflexivity]. cbn [B2R]. unfold Q2R. cbn [Qnum Qden]. lra.
  - intros H. inversion H as [Hq]. clear H Hq. split; [|reflexivity].
    cbn [B2R]. unfold F2R. cbn [Fnum Fexp].
    assert (Hn : (if s then Z.neg m else Z.pos m) = cond_Zopp s (Z.pos m)) by (destruct s; reflexivity).
    rewrite Hn. set (k := cond_Zopp s (Z.pos m)).
    destruct e as [|p|p]; unfold Q2R; cbn [Qnum Qden bpow radix_val radix2].
    + lra.
    + rewrite mult_IZR. lra.
    + rewrite Pos2Z.inj_pow_pos. reflexivity.
Qed.

Lemma f32_to_Q_total (x : F32.t) : fin x = true -> exists q, f32_to_Q x = Some q.
Proof.
  destruct x as [s|s| |s m e He]; try discriminate; intros _; eexists; reflexivity.
Qed.

(* ---------- Goal D: the model passes the extracted rescale check ---------- *)

Lemma Q2R_0' : Q2R 0 = 0.
Proof. unfold Q2R. cbn [Qnum Qden]. lra. Qed.

Lemma Q2R_abs (q : Q) : Q2R (Qabs q) = Rabs (Q2R q).
Proof.
  pattern (Qabs q). apply Qabs_case; intros H; apply Qle_Rle in H; rewrite Q2R_0' in H.
  - rewrite Rabs_pos_eq by exact H. reflexivity.
  - rewrite Q2R_opp. rewrite Rabs_left1 by exact H. reflexivity.
Qed.

Lemma Q2R_inv_pow2 (p : positive) : Q2R (1 # Pos.pow 2 p) = bpow radix2 (Z.neg p).
Proof.
  unfold Q2R. cbn [Qnum Qden bpow radix_val radix2]. rewrite Pos2Z.inj_pow_pos. lra.
Qed.

Lemma Q2R_rescale_tol (rel tiny qf qo qn : Q) :
  Q2R qo <> 0 ->
  Q2R (rescale_tol rel tiny qf qo qn)
  = Q2R rel * Rabs (Q2R qf)
    + Rabs (Q2R qf) / Rabs (Q2R qo) * Rabs (Q2R qn) * Q2R (1 # Pos.pow 2 149) + Q2R tiny.
Proof.
  intros Hne. unfold rescale_tol.
  rewrite !Q2R_plus, !Q2R_mult, Q2R_div, !Q2R_abs; [reflexivity|].
  intros E. apply Qeq_eqR in E. rewrite Q2R_abs, Q2R_0' in E.
  revert E. apply Rabs_no_R0. exact Hne.
Qed.

Lemma feq_zero_false (o : F32.t) : fin o = true -> 0 < B2R o -> F32.eq o F32.zero = false.
Proof.
  intros Fo Ho. unfold F32.eq, feq, fcmp.
  rewrite (Bcompare_correct 24 128 o F32.zero Fo eq_refl).
  change (B2R F32.zero) with 0. rewrite Rcompare_Gt by exact Ho. reflexivity.
Qed.

Lemma div_f32_abs (f o : F32.t) :
  0 < B2R o -> fin (F32.div f o) = true ->
  Rabs (B2R (F32.div f o)) <= Rabs (B2R f) / B2R o * (1 + u32) + eta32.
Proof.
  intros Ho Fx. rewrite (div_finite_R f o Ho Fx).
  destruct (rnd32_err (B2R f / B2R o)) as (d & e & Hd & He & Hr). rewrite Hr.
  eapply Rle_trans; [apply Rabs_triang|].
  assert (Hdiv : Rabs (B2R f / B2R o) <= Rabs (B2R f) / B2R o).
  { unfold Rdiv. rewrite Rabs_mult, Rabs_inv, (Rabs_pos_eq (B2R o)) by lra. lra. }
  pose proof (Rabs_mult_le _ _ _ _ Hdiv (Rabs_1p _ _ Hd)). lra.
Qed.

Lemma u32_val : u32 = / 16777216.
Proof. unfold u32. cbn [bpow radix_val radix2]. let v := eval vm_compute in (Z.pow_pos 2 24) in change (Z.pow_pos 2 24) with v. reflexivity. Qed.

Lemma eta32_val : eta32 = / 1427247692705959881058285969449495136382746624.
Proof. unfold eta32. cbn [bpow radix_val radix2]. let v := eval vm_compute in (Z.pow_pos 2 150) in change (Z.pow_pos 2 150) with v. reflexivity. Qed.

Lemma bpow_m149_val : bpow radix2 (-149) = / 713623846352979940529142984724747568191373312.
Proof. cbn [bpow radix_val radix2]. let v := eval vm_compute in (Z.pow_pos 2 149) in change (Z.pow_pos 2 149) with v. reflexivity. Qed.

Lemma bpow_m60_val : bpow radix2 (-60) = / 1152921504606846976.
Proof. cbn [bpow radix_val radix2]. let v := eval vm_compute in (Z.pow_pos 2 60) in change (Z.pow_pos 2 60) with v. reflexivity. Qed.

(* linear in F, G (= F/o*n), Y (= |x|*n), o, n once the constants are numerals *)
Lemma tol_lin (F G Y o n : R) :
  0 <= F -> 0 <= G -> 0 < o <= 1 -> 0 < n <= 1 ->
  Y <= G * (1 + u32) + eta32 * n ->
  ((1 + u32) ^ 3 - 1) * F + (Y * (1 + u32) + o * (1 + u32) ^ 2 + n) * eta32
  <= / 100000 * F + G * bpow radix2 (-149) + bpow radix2 (-60).
Proof.
  intros HF HG Ho Hn HY.
  rewrite bpow_m149_val, bpow_m60_val. rewrite u32_val, eta32_val in *.
  lra.
Qed.

Theorem rescale_model_passes_check (f o n : F32.t) :
  fin f = true -> fin o = true -> fin n = true ->
  0 < B2R o <= 1 -> 0 < B2R n <= 1 ->
  let x := F32.div f o in let q := F32.div o n in let w := F32.mul x q in
  fin x = true -> fin q = true -> fin w = true ->
  check_rescale_cell (1 # 100000) (1 # Pos.pow 2 60) f o n
    (rescale_cell F32ops (weight_cell F32ops f o) o n) = true.
Proof.
  intros Ff Fo Fn [Ho Ho1] [Hn Hn1] x q w Fx Fq Fw.
  pose proof (feq_zero_false o Fo Ho) as Eo0. pose proof (feq_zero_false n Fn Hn) as En0.
  change (rescale_cell F32ops (weight_cell F32ops f o) o n)
    with (if F32.eq n F32.zero then F32.zero
          else F32.mul (if F32.eq o F32.zero then F32.zero else F32.div f o) (F32.div o n)).
  unfold check_rescale_cell. rewrite En0, Eo0. fold x q w.
  destruct (f32_to_Q_total f Ff) as [qf Ef]. destruct (f32_to_Q_total o Fo) as [qo Eo].
  destruct (f32_to_Q_total n Fn) as [qn En]. destruct (f32_to_Q_total w Fw) as [qw Ew].
  rewrite Ef, Eo, En, Ew.
  apply f32_to_Q_B2R in Ef, Eo, En, Ew.
  destruct Ef as [Rf _], Eo as [Ro _], En as [Rn _], Ew as [Rw _].
  unfold Qleb. apply Qle_bool_iff. apply Rle_Qle.
  rewrite Q2R_abs, Q2R_minus, Q2R_mult.
  rewrite Q2R_rescale_tol by (rewrite Ro; lra).
  rewrite Q2R_inv_pow2, Q2R_inv_pow2, Rf, Ro, Rn, Rw.
  rewrite (Rabs_pos_eq (B2R o)) by lra. rewrite (Rabs_pos_eq (B2R n)) by lra.
  replace (Q2R (1 # 100000)) with (/ 100000) by (unfold Q2R; cbn [Qnum Qden]; lra).
  pose proof (rescale_f32_error f o n Ff Fo Fn Ho Hn Fx Fq Fw) as HA. cbv zeta in HA. fold x q w in HA.
  eapply Rle_trans; [exact HA|].
  pose proof (div_f32_abs f o Ho Fx) as HX. fold x in HX.
  apply tol_lin with (G := Rabs (B2R f) / B2R o * B2R n) (Y := Rabs (B2R x) * B2R n) (F := Rabs (B2R f)).
  - apply Rabs_pos.
  - apply Rmult_le_pos; [|lra]. apply Rmult_le_pos; [apply Rabs_pos|]. left. apply Rinv_0_lt_compat. exact Ho.
  - lra.
  - lra.
  - replace (Rabs (B2R f) / B2R o * B2R n * (1 + u32) + eta32 * B2R n)
      with ((Rabs (B2R f) / B2R o * (1 + u32) + eta32) * B2R n) by ring.
    apply Rmult_le_compat_r; [lra|exact HX].
Qed.

(* the same for the weight check, with the driver's tolerances (1e-6, 2^-60) *)
Theorem weight_model_passes_check (f o : F32.t) :
  fin f = true -> fin o = true -> 0 < B2R o <= 1 ->
  let x := F32.div f o in
  fin x = true ->
  check_weight_cell (1 # 1000000) (1 # Pos.pow 2 60) f o (weight_cell F32ops f o) = true.
Proof.
  intros Ff Fo [Ho Ho1] x Fx.
  pose proof (feq_zero_false o Fo Ho) as Eo0.
  change (weight_cell F32ops f o) with (if F32.eq o F32.zero then F32.zero else F32.div f o).
  unfold check_weight_cell. rewrite Eo0. fold x.
  destruct (f32_to_Q_total f Ff) as [qf Ef]. destruct (f32_to_Q_total o Fo) as [qo Eo].
  destruct (f32_to_Q_total x Fx) as [qx Ex].
  rewrite Ef, Eo, Ex.
  apply f32_to_Q_B2R in Ef, Eo, Ex.
  destruct Ef as [Rf _], Eo as [Ro _], Ex as [Rx _].
  unfold Qleb. apply Qle_bool_iff. apply Rle_Qle.
  rewrite Q2R_abs, Q2R_minus, Q2R_mult, Q2R_plus, Q2R_mult, Q2R_abs, Q2R_inv_pow2, Rf, Ro, Rx.
  replace (Q2R (1 # 1000000)) with (/ 1000000) by (unfold Q2R; cbn [Qnum Qden]; lra).
  pose proof (weight_f32_error f o Ff Fo Ho Fx) as HB. cbv zeta in HB. fold x in HB.
  eapply Rle_trans; [exact HB|].
  pose proof (Rabs_pos (B2R f)) as HF.
  rewrite bpow_m60_val. rewrite u32_val, eta32_val.
  nra.
Qed.

Print Assumptions rescale_f32_error.
Print Assumptions weight_f32_error.
Print Assumptions rescale_model_passes_check.
Print Assumptions weight_model_passes_check.
