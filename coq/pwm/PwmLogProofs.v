(* Soundness of the interval checker of PwmLog.v: a pair accepted by [log_pair_ok] IS a
   logarithm (real-number statement, Coq's [ln]); tables; monotonicity on sampled points. *)
From Coq Require Import List ZArith NArith Bool Arith Lia QArith Qabs Reals Lra Qreals.
From Interval Require Import Specific_stdz Specific_ops Float_full Interval Xreal Basic Sig.
From LMBase Require Import Res ListX IEEE.
From Flocq Require Import Core BinarySingleNaN.
From LMPwm Require Import GenComplement PwmModel PwmCheck PwmCheck2 PwmProofs PwmF32 PwmCheckSound PwmF32Rescale PwmLog.
Import ListNotations.
Local Open Scope R_scope.

(* ln b for the three kinds *)
Definition lnb (kind : nat) : R :=
  if (kind =? 2)%nat then ln 2 else if (kind =? 10)%nat then ln 10 else 1.

Lemma ln_pos_gt1 (x : R) : 1 < x -> 0 < ln x.
Proof. intros H. rewrite <- ln_1. apply ln_increasing; lra. Qed.

Lemma lnb_pos kind : 0 < lnb kind.
Proof.
  unfold lnb. destruct (kind =? 2)%nat; [apply ln_pos_gt1; lra|].
  destruct (kind =? 10)%nat; [apply ln_pos_gt1; lra | lra].
Qed.

(* what "y is the logarithm of x in the base b with ln b = L" means for binary32 numbers
   ([pos] = "b > 1"; for b < 1 the infinities swap) *)
Definition is_log_ofR (L : R) (pos : bool) (x y : F32.t) : Prop :=
  match x with
  | B754_nan => F32.is_nan y = true
  | B754_zero _ => y = (if pos then F32.ninf else F32.inf)
  | B754_infinity false => y = (if pos then F32.inf else F32.ninf)
  | B754_infinity true => F32.is_nan y = true
  | B754_finite true _ _ _ => F32.is_nan y = true
  | B754_finite false _ _ _ =>
      is_finite y = true /\
      Rabs (B2R y - ln (B2R x) / L) <= / 1048576 * Rabs (ln (B2R x) / L)
  end.

(* the libm oracle kinds: log2, log10, ln *)
Definition is_log_of (kind : nat) (x y : F32.t) : Prop := is_log_ofR (lnb kind) true x y.

(* ---------- interval facts ---------- *)

Lemma toX_pt (m e : Z) : SF.toX (Specific_ops.Float m e) = Xreal (F2R (Defs.Float radix2 m e)).
Proof.
  unfold SF.toX, SF.toF.
  destruct m as [|p|p]; cbn.
  - unfold F2R. cbn. now rewrite Rmult_0_l.
  - rewrite FtoR_split. reflexivity.
  - rewrite FtoR_split. reflexivity.
Qed.

Lemma ipt_contains (m e : Z) : contains (I.convert (ipt m e)) (Xreal (F2R (Defs.Float radix2 m e))).
Proof.
  unfold ipt, I.bnd, I.convert. cbn [SF.valid_lb SF.valid_ub andb].
  change I.F.toX with SF.toX. rewrite toX_pt. cbn. split; apply Rle_refl.
Qed.

Lemma Xln_pos (x : R) : 0 < x -> Xln (Xreal x) = Xreal (ln x).
Proof.
  intros H. cbn. unfold Xln'. destruct (is_positive_spec x) as [_|H']; [reflexivity|lra].
Qed.

Lemma ln_base_iv_contains kind : contains (I.convert (ln_base_iv kind)) (Xreal (lnb kind)).
Proof.
  unfold ln_base_iv, lnb. destruct (kind =? 2)%nat.
  - unfold ln2_iv. rewrite <- (Xln_pos 2) by lra. apply I.ln_correct. apply (I.fromZ_correct lprec 2).
  - destruct (kind =? 10)%nat.
    + unfold ln10_iv. rewrite <- (Xln_pos 10) by lra. apply I.ln_correct. apply (I.fromZ_correct lprec 10).
    + apply (I.fromZ_correct lprec 1).
Qed.

Lemma Xdiv_real (a b : R) : b <> 0 -> Xdiv (Xreal a) (Xreal b) = Xreal (a / b).
Proof.
  intros H. cbn. unfold Xdiv'. destruct (is_zero_spec b) as [H'|_]; [contradiction|reflexivity].
Qed.

Lemma ratio_iv_convert :
  I.convert ratio_iv = Ibnd (Xreal (1 - / 1048576)) (Xreal (1 + / 1048576)).
Proof.
  unfold ratio_iv, I.bnd, I.convert. cbn [SF.valid_lb SF.valid_ub andb].
  change I.F.toX with SF.toX. rewrite !toX_pt. unfold F2R. cbn [Fnum Fexp bpow].
  change (Z.pow_pos radix2 20) with 1048576%Z. f_equal; f_equal; field.
Qed.

Lemma ln_iv_f32_contains (m : positive) (e : Z) H :
  contains (I.convert (ln_iv_f32 (B754_finite false m e H)))
           (Xreal (ln (F2R (Defs.Float radix2 (Zpos m) e)))).
Proof.
  cbn [ln_iv_f32].
  assert (Hx : 0 < F2R (Defs.Float radix2 (Zpos m) e)) by (apply F2R_gt_0; reflexivity).
  rewrite <- (Xln_pos _ Hx). apply I.ln_correct. apply ipt_contains.
Qed.

Lemma log_ratio_sound (lnx lb : I.type) (lx L : R) (my ey : Z) :
  contains (I.convert lnx) (Xreal lx) -> contains (I.convert lb) (Xreal L) ->
  let y := F2R (Defs.Float radix2 my ey) in
  I.subset (log_ratio_iv lnx lb my ey) ratio_iv = true ->
  Rabs (y - lx / L) <= / 1048576 * Rabs (lx / L).
Proof.
  intros C1 HL y H.
  pose proof (I.div_correct lprec _ _ _ _ C1 HL) as C2.
  pose proof (I.div_correct lprec _ _ _ _ (ipt_contains my ey) C2) as C3.
  fold y in C3.
  pose proof (I.subset_correct _ _ _ C3 H) as C4. rewrite ratio_iv_convert in C4.
  cbn in C4. unfold Xdiv' in C4.
  destruct (is_zero_spec L) as [HzL|HzL]; [cbn in C4; contradiction|].
  cbn in C4. unfold Xdiv' in C4.
  set (l := lx / L) in *.
  destruct (is_zero_spec l) as [Hz|Hz]; [cbn in C4; contradiction|].
  cbn in C4. destruct C4 as [Lo Hi].
  replace (y - l) with (l * (y / l - 1)) by (field; exact Hz).
  rewrite Rabs_mult, Rmult_comm. apply Rmult_le_compat_r; [apply Rabs_pos|].
  apply Rabs_le. lra.
Qed.

Lemma B2R_finite_F2R (s : bool) (m : positive) (e : Z) H :
  B2R (B754_finite s m e H : F32.t) = F2R (Defs.Float radix2 (if s then Zneg m else Zpos m) e).
Proof. destruct s; reflexivity. Qed.

Lemma is_one_R (x : F32.t) : is_one x = true -> B2R x = 1.
Proof.
  unfold is_one. destruct (f32_to_Q x) as [q|] eqn:E; [|discriminate].
  intros H. apply Qeq_bool_iff in H. apply f32_to_Q_B2R in E. destruct E as [E _].
  rewrite <- E. apply Qeq_eqR in H. rewrite H. unfold Q2R. cbn. lra.
Qed.

(* ---------- the pair checker ---------- *)

Theorem log_pair_ok_iv_sound (lb : I.type) (L : R) (pos : bool) (x y : F32.t) :
  contains (I.convert lb) (Xreal L) ->
  log_pair_ok_iv lb pos x y = true -> is_log_ofR L pos x y.
Proof.
  intros HL. unfold log_pair_ok_iv, log_pair_ok_pre, is_log_ofR.
  destruct x as [sx|sx| |sx mx ex Hx].
  - apply f32_same_eq.
  - destruct sx; [exact (fun H => H) | apply f32_same_eq].
  - exact (fun H => H).
  - destruct sx; [exact (fun H => H)|].
    destruct (is_one (B754_finite false mx ex Hx)) eqn:E1.
    + destruct y as [sy|sy| |sy my ey Hy]; try discriminate. intros _.
      split; [reflexivity|]. rewrite (is_one_R _ E1). rewrite ln_1. cbn [B2R].
      unfold Rdiv. rewrite Rmult_0_l, Rminus_0_r, Rabs_R0. lra.
    + destruct y as [sy|sy| |sy my ey Hy]; try discriminate. intros H.
      split; [reflexivity|].
      rewrite (B2R_finite_F2R sy my ey Hy), (B2R_finite_F2R false mx ex Hx).
      apply (log_ratio_sound (ln_iv_f32 (B754_finite false mx ex Hx)) lb _ L); [|exact HL|exact H].
      apply ln_iv_f32_contains.
Qed.

(* the [*_pre] forms with the memoised enclosure of ln x are the same functions *)
Lemma log_pair_ok_pre_eq lb pos x y : log_pair_ok_pre (ln_iv_f32 x) lb pos x y = log_pair_ok_iv lb pos x y.
Proof. reflexivity. Qed.
Lemma log_pair_ok_k_pre_eq kind x y : log_pair_ok_k_pre (ln_iv_f32 x) kind x y = log_pair_ok kind x y.
Proof. reflexivity. Qed.
Lemma check_score_cell_real_pre_eq lbp bg w o :
  check_score_cell_real_pre (ln_iv_f32 w) lbp bg w o = check_score_cell_real lbp bg w o.
Proof. reflexivity. Qed.

Theorem log_pair_ok_sound (kind : nat) (x y : F32.t) :
  log_pair_ok kind x y = true -> is_log_of kind x y.
Proof. apply log_pair_ok_iv_sound. apply ln_base_iv_contains. Qed.

(* the clause for positive finite arguments, without the match *)
Corollary is_log_ofR_pos (L : R) (pos : bool) (x y : F32.t) :
  is_log_ofR L pos x y -> is_finite x = true -> 0 < B2R x ->
  is_finite y = true /\
  Rabs (B2R y - ln (B2R x) / L) <= / 1048576 * Rabs (ln (B2R x) / L).
Proof.
  unfold is_log_ofR. destruct x as [sx|sx| |sx mx ex Hx]; cbn [is_finite B2R]; try discriminate.
  - intros _ _ H. lra.
  - destruct sx; [|intros H _ _; exact H].
    intros _ _ H. exfalso.
    assert (F2R (Defs.Float radix2 (cond_Zopp true (Z.pos mx)) ex) < 0) by (apply F2R_lt_0; reflexivity).
    lra.
Qed.

Corollary is_log_ofR_zero (L : R) (x y : F32.t) :
  is_log_ofR L true x y -> F32.eq x F32.zero = true -> y = F32.ninf.
Proof.
  unfold is_log_ofR. destruct x as [sx|sx| |sx mx ex Hx]; try (intros _ H; exact (False_ind _ (Bool.diff_false_true H))).
  - intros H _. exact H.
  - destruct sx; intros _ H; discriminate H.
  - intros _ H. destruct sx; discriminate H.
Qed.

(* ---------- tables ---------- *)

Theorem check_log_table_sound (kind : nat) (t : ltab) :
  check_log_table kind t = true -> forall x y, In (x, y) t -> is_log_of kind x y.
Proof.
  unfold check_log_table. rewrite forallb_forall. intros H x y Hin.
  apply log_pair_ok_sound. exact (H (x, y) Hin).
Qed.

Lemma tab_lookup_in (t : ltab) (x : F32.t) :
  tab_has t x = true -> In (x, tab_lookup t x) t.
Proof.
  unfold tab_has, tab_lookup. induction t as [|[a b] t IH]; cbn [existsb find fst snd]; [discriminate|].
  destruct (f32_same a x) eqn:E.
  - intros _. apply f32_same_eq in E. subst a. left. reflexivity.
  - cbn [orb]. intros H. right. exact (IH H).
Qed.

(* the function that a validated table samples is a logarithm on every sampled point *)
Theorem tab_lookup_is_log (kind : nat) (t : ltab) (x : F32.t) :
  check_log_table kind t = true -> tab_has t x = true -> is_log_of kind x (tab_lookup t x).
Proof.
  intros H Hx. exact (check_log_table_sound kind t H x _ (tab_lookup_in t x Hx)).
Qed.

(* monotone on the sampled points *)
Theorem check_log_mono_sound (t : ltab) :
  check_log_mono t = true ->
  forall i j d, (i <= j < length t)%nat ->
    F32.le (fst (nth i t d)) (fst (nth j t d)) = true /\ F32.le (snd (nth i t d)) (snd (nth j t d)) = true
    \/ i = j.
Proof.
  induction t as [|p t IH]; intros H i j d Hij; [cbn in Hij; lia|].
  destruct (Nat.eq_dec i j) as [->|Hne]; [right; reflexivity|left].
  assert (Hstep : forall r q, check_log_mono (q :: r) = true -> forall k, (k < length r)%nat ->
            F32.le (fst q) (fst (nth k r d)) = true /\ F32.le (snd q) (snd (nth k r d)) = true).
  { induction r as [|q' r IHr]; intros q Hq k Hk; [cbn in Hk; lia|].
    cbn [check_log_mono] in Hq. apply andb_true_iff in Hq. destruct Hq as [Hq Hr].
    apply andb_true_iff in Hq. destruct Hq as [Hx Hy].
    destruct k as [|k]; [cbn; split; assumption|].
    cbn [nth]. destruct (IHr q' Hr k ltac:(cbn in Hk; lia)) as [Ha Hb].
    split; [exact (fle_trans _ _ _ Hx Ha) | exact (fle_trans _ _ _ Hy Hb)]. }
  destruct i as [|i].
  - destruct j as [|j]; [lia|]. cbn [nth]. apply (Hstep t p H). cbn in Hij. lia.
  - destruct j as [|j]; [lia|]. cbn [nth].
    assert (Ht : check_log_mono t = true).
    { destruct t as [|q r]; [reflexivity|]. cbn [check_log_mono] in H.
      apply andb_true_iff in H. destruct H as [_ H]. exact H. }
    destruct (IH Ht i j d ltac:(cbn in Hij; lia)) as [HH|HH]; [exact HH|lia].
Qed.

(* ---------- the score check against the real logarithm ---------- *)

Lemma gt_one_b_R (base : F32.t) : gt_one_b base = true -> 1 < B2R base.
Proof.
  unfold gt_one_b. destruct (f32_to_Q base) as [q|] eqn:E; [|discriminate].
  intros H. apply negb_true_iff in H. apply f32_to_Q_B2R in E. destruct E as [E _]. rewrite <- E.
  replace 1 with (Q2R 1) by (unfold Q2R; cbn; lra). apply Qlt_Rlt.
  apply Qnot_le_lt. intros Hle. apply Qle_bool_iff in Hle. rewrite Hle in H. discriminate.
Qed.

Lemma gt_one_b_false_R (base : F32.t) : is_finite base = true -> gt_one_b base = false -> B2R base <= 1.
Proof.
  unfold gt_one_b. intros Hf.
  destruct (f32_to_Q base) as [q|] eqn:E.
  - intros H. apply negb_false_iff in H. apply Qle_bool_iff in H.
    apply f32_to_Q_B2R in E. destruct E as [E _]. rewrite <- E.
    replace 1 with (Q2R 1) by (unfold Q2R; cbn; lra). apply Qle_Rle. exact H.
  - destruct base; cbn in E; try discriminate; cbn in Hf; discriminate.
Qed.

(* [base_iv] answers for the finite bases > 0, and then encloses ln base and knows its sign *)
Theorem base_iv_sound (base : F32.t) (lb : I.type) (pos : bool) :
  base_iv base = Some (lb, pos) ->
  is_finite base = true /\ 0 < B2R base /\
  contains (I.convert lb) (Xreal (ln (B2R base))) /\
  (pos = true -> 1 < B2R base) /\ (pos = false -> B2R base <= 1).
Proof.
  unfold base_iv. destruct base as [s|s| |s m e Hb]; try discriminate.
  destruct s; [discriminate|].
  destruct (is_one (B754_finite false m e Hb)); [discriminate|].
  intros H.
  assert (E1 : lb = ln_iv_f32 (B754_finite false m e Hb)) by (inversion H; reflexivity).
  assert (E2 : pos = gt_one_b (B754_finite false m e Hb)) by (inversion H; reflexivity).
  clear H. subst lb pos.
  assert (Hpos : 0 < B2R (B754_finite false m e Hb : F32.t)).
  { rewrite (B2R_finite_F2R false m e Hb). apply F2R_gt_0. reflexivity. }
  split; [reflexivity|]. split; [exact Hpos|]. split; [|split].
  - rewrite (B2R_finite_F2R false m e Hb). apply ln_iv_f32_contains.
  - apply gt_one_b_R.
  - apply gt_one_b_false_R. reflexivity.
Qed.

(* a passing cell: -inf at a zero background (base > 1); otherwise the observed score is the
   logarithm, in the requested base, of the observed weight *)
Theorem check_score_cell_real_sound (base : F32.t) (lb : I.type) (pos : bool) (bg w o : F32.t) :
  base_iv base = Some (lb, pos) ->
  check_score_cell_real (lb, pos) bg w o = true ->
  (F32.eq bg F32.zero = true -> pos = true -> o = F32.ninf) /\
  (F32.eq bg F32.zero && pos = false -> is_log_ofR (ln (B2R base)) pos w o).
Proof.
  intros Hb. destruct (base_iv_sound base lb pos Hb) as (_ & _ & HL & _ & _).
  unfold check_score_cell_real, check_score_cell_real_pre. cbn [fst snd].
  destruct (F32.eq bg F32.zero && pos) eqn:E.
  - intros H. split; [intros _ _; apply f32_same_eq; exact H | discriminate].
  - intros H. split.
    + intros H1 H2. rewrite H1, H2 in E. discriminate.
    + intros _. exact (log_pair_ok_iv_sound lb _ pos w o HL H).
Qed.

(* ---------- "the score is the logarithm of the weight" for the model ---------- *)

Section ScoreIsLogarithm.
  (* the three libm functions, known to be logarithms on a set [dom] of arguments
     (every argument the oracle table samples: tab_lookup_is_log) *)
  Variables flog2 flog10 fln : F32.t -> F32.t.
  Variable dom : F32.t -> Prop.
  Hypothesis flog2_spec : forall x, dom x -> is_log_of 2 x (flog2 x).
  Hypothesis flog10_spec : forall x, dom x -> is_log_of 10 x (flog10 x).
  Hypothesis fln_spec : forall x, dom x -> is_log_of 0 x (fln x).

  (* every cell of WeightMatrix::to_scoring_with_base is the logarithm of the weight cell:
     log2 / log10 for base == 2.0 / 10.0, the binary32 quotient ln w / ln base of two natural
     logarithms otherwise *)
  Theorem score_is_logarithm (base : F32.t) (m : list (list F32.t)) (i k : nat) :
    (i < length m)%nat -> (k < length (nth i m []))%nat ->
    let w := nth k (nth i m []) F32.zero in
    let s := nth k (nth i (to_scoring_with_base F32ops flog2 flog10 fln base m) []) F32.zero in
    dom w -> dom base ->
    match kind_of_base base with
    | 2%nat => is_log_of 2 w s
    | 10%nat => is_log_of 10 w s
    | _ => is_log_of 0 w (fln w) /\ is_log_of 0 base (fln base) /\ s = F32.div (fln w) (fln base)
    end.
  Proof.
    intros Hi Hk w s Dw Db.
    pose proof (to_scoring_with_base_cell F32ops flog2 flog10 fln base m i k F32.zero Hi Hk) as E.
    fold w in E. fold s in E. unfold flog in E. unfold kind_of_base.
    change (n_eqb F32ops) with F32.eq in E. change (n_two F32ops) with (F32.of_Z 2) in E.
    change (n_ten F32ops) with (F32.of_Z 10) in E. change (n_div F32ops) with F32.div in E.
    destruct (F32.eq base (F32.of_Z 2)); [rewrite E; apply flog2_spec; exact Dw|].
    destruct (F32.eq base (F32.of_Z 10)); [rewrite E; apply flog10_spec; exact Dw|].
    split; [apply fln_spec; exact Dw|]. split; [apply fln_spec; exact Db | exact E].
  Qed.

  (* the hypothesis of C09_one_step_eq_two_step is a consequence *)
  Lemma flog2_zero : dom F32.zero -> flog2 (n_zero F32ops) = n_ninf F32ops.
  Proof. intros D. exact (flog2_spec F32.zero D). Qed.
End ScoreIsLogarithm.

(* closed instance: the functions that validated oracle tables sample *)
Theorem score_is_logarithm_table (t2 t10 t0 : ltab) (base : F32.t) (m : list (list F32.t)) (i k : nat) :
  check_log_table 2 t2 = true -> check_log_table 10 t10 = true -> check_log_table 0 t0 = true ->
  (i < length m)%nat -> (k < length (nth i m []))%nat ->
  let w := nth k (nth i m []) F32.zero in
  let s := nth k (nth i (to_scoring_with_base F32ops (tab_lookup t2) (tab_lookup t10) (tab_lookup t0) base m) [])
               F32.zero in
  match kind_of_base base with
  | 2%nat => tab_has t2 w = true -> is_log_of 2 w s
  | 10%nat => tab_has t10 w = true -> is_log_of 10 w s
  | _ => tab_has t0 w = true -> tab_has t0 base = true ->
         is_log_of 0 w (tab_lookup t0 w) /\ is_log_of 0 base (tab_lookup t0 base) /\
         s = F32.div (tab_lookup t0 w) (tab_lookup t0 base)
  end.
Proof.
  intros H2 H10 H0 Hi Hk w s.
  pose proof (to_scoring_with_base_cell F32ops (tab_lookup t2) (tab_lookup t10) (tab_lookup t0) base m i k
                F32.zero Hi Hk) as E.
  fold w in E. fold s in E. unfold flog in E. unfold kind_of_base.
  change (n_eqb F32ops) with F32.eq in E. change (n_two F32ops) with (F32.of_Z 2) in E.
  change (n_ten F32ops) with (F32.of_Z 10) in E. change (n_div F32ops) with F32.div in E.
  destruct (F32.eq base (F32.of_Z 2)); [intros D; rewrite E; apply tab_lookup_is_log; assumption|].
  destruct (F32.eq base (F32.of_Z 10)); [intros D; rewrite E; apply tab_lookup_is_log; assumption|].
  intros Dw Db. split; [apply tab_lookup_is_log; assumption|].
  split; [apply tab_lookup_is_log; assumption | exact E].
Qed.

(* non-vacuity: a two-entry table that passes (log2 1 = 0, log2 2 = 1), computed in the kernel *)
Example check_log_table_example :
  check_log_table 2 [(F32.of_Z 1, F32.zero); (F32.of_Z 2, F32.of_Z 1); (F32.zero, F32.ninf)] = true /\
  log_pair_ok 2 (F32.of_Z 2) (F32.of_Z 2) = false.
Proof. vm_compute. split; reflexivity. Qed.

(* ln 0 / ln base = -inf for a validated natural logarithm of a finite base > 1 *)
Lemma log_zero_general_base (base lb : F32.t) :
  is_log_of 0 base lb -> is_finite base = true -> 1 < B2R base -> F32.div F32.ninf lb = F32.ninf.
Proof.
  intros H Hf Hb.
  destruct (is_log_ofR_pos _ true base lb H Hf ltac:(lra)) as [Fl Hl].
  unfold lnb in Hl. cbn [Nat.eqb] in Hl.
  assert (Hln : 0 < ln (B2R base)) by (apply ln_pos_gt1; exact Hb).
  replace (ln (B2R base) / 1) with (ln (B2R base)) in Hl by field.
  rewrite (Rabs_pos_eq (ln (B2R base))) in Hl by lra.
  assert (Hpos : 0 < B2R lb).
  { apply Rabs_le_inv in Hl. lra. }
  destruct lb as [s|s| |s m e Hm]; cbn [is_finite] in Fl; try discriminate.
  - cbn [B2R] in Hpos. lra.
  - destruct s; [|reflexivity]. exfalso.
    assert (F2R (Defs.Float radix2 (cond_Zopp true (Z.pos m)) e) < 0) by (apply F2R_lt_0; reflexivity).
    cbn [B2R] in Hpos. lra.
Qed.
