(* Soundness of the second-generation checkers of PwmCheck2.v: what exactly a passing
   check states about the observation, in the form
     [check = true -> skipped = false -> conclusion].
   Pure Q / list / bool reasoning; the binary32 predicates (F32.eq, F32.le, F32.is_nan)
   stay opaque booleans. *)
From Coq Require Import List ZArith NArith Bool Arith Lia QArith Qabs.
From Coq Require Import Lqa.
From LMBase Require Import Res ListX IEEE.
From LMPwm Require Import GenComplement PwmModel PwmCheck PwmCheck2 PwmProofs PwmCheckSound.
Import ListNotations.
Local Open Scope nat_scope.

(* ---------- (1) f32_close ---------- *)

(* Only the statements that conclude an equality of binary32 VALUES ([x = y]) go through
   PwmCheckSound.f32_same_eq, whose proof uses Flocq's bit-pattern round trip and thereby
   the three axioms of the Coq Reals library.  Each of them has a [_bits] companion that
   concludes the equality of the bit patterns instead and is closed under the global
   context. *)

(* both values finite: the tolerance test on the exact values *)
Lemma f32_close_finite abs rel x y X Y : f32_close abs rel x y = true ->
  f32_to_Q x = Some X -> f32_to_Q y = Some Y ->
  (Qabs (X - Y) <= abs + rel * (if Qle_bool (Qabs X) (Qabs Y) then Qabs Y else Qabs X))%Q.
Proof.
  unfold f32_close. intros H EX EY. rewrite EX, EY in H. apply Qleb_le in H. exact H.
Qed.

(* a NaN / infinity on either side: the bit patterns coincide *)
Lemma f32_close_nonfinite_bits abs rel x y : f32_close abs rel x y = true ->
  f32_to_Q x = None \/ f32_to_Q y = None -> F32.to_bits x = F32.to_bits y.
Proof.
  unfold f32_close, f32_same. intros H [E|E]; rewrite E in H.
  - apply Z.eqb_eq. exact H.
  - destruct (f32_to_Q x); apply Z.eqb_eq; exact H.
Qed.

Lemma f32_close_sound abs rel x y : f32_close abs rel x y = true ->
  (forall X Y, f32_to_Q x = Some X -> f32_to_Q y = Some Y ->
     (Qabs (X - Y) <= abs + rel * (if Qle_bool (Qabs X) (Qabs Y) then Qabs Y else Qabs X))%Q) /\
  (f32_to_Q x = None \/ f32_to_Q y = None -> x = y).
Proof.
  intros H. split.
  - intros X Y. apply f32_close_finite. exact H.
  - intros E. apply f32_to_bits_inj. apply (f32_close_nonfinite_bits _ _ _ _ H E).
Qed.

(* without the maximum: the bound holds with one of the two magnitudes *)
Lemma f32_close_sound_or abs rel x y X Y : f32_close abs rel x y = true ->
  f32_to_Q x = Some X -> f32_to_Q y = Some Y ->
  (Qabs (X - Y) <= abs + rel * Qabs X \/ Qabs (X - Y) <= abs + rel * Qabs Y)%Q.
Proof.
  intros H EX EY. pose proof (f32_close_finite _ _ _ _ _ _ H EX EY) as H1.
  destruct (Qle_bool (Qabs X) (Qabs Y)); [right | left]; exact H1.
Qed.

(* for a non-negative relative tolerance: the bound with the sum of the magnitudes *)
Lemma f32_close_sound_sum abs rel x y X Y : (0 <= rel)%Q -> f32_close abs rel x y = true ->
  f32_to_Q x = Some X -> f32_to_Q y = Some Y ->
  (Qabs (X - Y) <= abs + rel * (Qabs X + Qabs Y))%Q.
Proof.
  intros Hr H EX EY. pose proof (f32_close_finite _ _ _ _ _ _ H EX EY) as H1.
  pose proof (Qabs_nonneg X) as PX. pose proof (Qabs_nonneg Y) as PY.
  revert H1 PX PY. generalize (Qabs (X - Y)) (Qabs X) (Qabs Y). intros d ax ay H1 PX PY.
  destruct (Qle_bool ax ay); nra.
Qed.

(* the non-finite case: a NaN / infinity only matches the identical value *)
Lemma f32_close_nonfinite abs rel x y : f32_close abs rel x y = true ->
  f32_to_Q x = None \/ f32_to_Q y = None -> x = y.
Proof. intros H. apply (f32_close_sound _ _ _ _ H). Qed.

(* ---------- (2) list_same / fm_close ---------- *)

Lemma list_same_nth {A} (eq : A -> A -> bool) : forall a b, list_same eq a b = true ->
  length a = length b /\ forall k da db, k < length a -> eq (nth k a da) (nth k b db) = true.
Proof.
  induction a as [|x a IH]; intros [|y b] H; simpl in H; try discriminate.
  - split; [reflexivity|]. intros k da db Hk. simpl in Hk. lia.
  - apply andb_true_iff in H. destruct H as [H1 H2]. destruct (IH b H2) as [L N].
    split; [simpl; lia|]. intros [|k] da db Hk; simpl; [exact H1|]. apply N. simpl in Hk. lia.
Qed.

Lemma fm_close_sound abs rel m1 m2 : fm_close abs rel m1 m2 = true ->
  length m1 = length m2 /\
  forall i, i < length m1 ->
    length (nth i m1 []) = length (nth i m2 []) /\
    forall k, k < length (nth i m1 []) ->
      f32_close abs rel (nth k (nth i m1 []) F32.zero) (nth k (nth i m2 []) F32.zero) = true.
Proof.
  unfold fm_close. intros H. destruct (list_same_nth _ _ _ H) as [L N]. split; [exact L|].
  intros i Hi. specialize (N i [] [] Hi). destruct (list_same_nth _ _ _ N) as [L2 N2].
  split; [exact L2|]. intros k Hk. apply N2. exact Hk.
Qed.

(* ---------- (3) the domain of the frequency check ---------- *)

Lemma forallb_Qleb_Forall p :
  forallb (fun x => Qleb 0 x) p = true <-> Forall (fun x => (0 <= x)%Q) p.
Proof.
  rewrite forallb_forall, Forall_forall.
  split; intros H x Hx; apply Qleb_le; apply H; exact Hx.
Qed.

Lemma forallb_Qleb_false p :
  forallb (fun x => Qleb 0 x) p = false <-> Exists (fun x => (x < 0)%Q) p.
Proof.
  induction p as [|a p IH]; simpl.
  - split; [discriminate | intros H; inversion H].
  - rewrite andb_false_iff, Exists_cons, IH.
    assert (Ha : Qleb 0 a = false <-> (a < 0)%Q).
    { rewrite <- not_true_iff_false, Qleb_le. split; [apply Qnot_le_lt | apply Qlt_not_le]. }
    tauto.
Qed.

Lemma Qleb_false a b : Qleb a b = false <-> (b < a)%Q.
Proof.
  rewrite <- not_true_iff_false, Qleb_le. split; [apply Qnot_le_lt | apply Qlt_not_le].
Qed.

Lemma Qeq_bool_false a b : Qeq_bool a b = false <-> ~ (a == b)%Q.
Proof. rewrite <- not_true_iff_false, Qeq_bool_iff. tauto. Qed.

(* judged (reason 0) exactly when the pseudocounts are finite and >= 0 and the exact
   total of the numerators is in (0, 2^100] (not 0 and <= 2^100; it is >= 0 anyway) *)
Lemma freq_row_skip_reason_spec pseudo counts :
  freq_row_skip_reason pseudo counts = 0 <->
  exists p, all_some (map f32_to_Q pseudo) = Some p /\
            Forall (fun x => (0 <= x)%Q) p /\
            ~ (Qsum (freq_num_Q p counts) == 0)%Q /\
            (Qsum (freq_num_Q p counts) <= 2 ^ 100 # 1)%Q.
Proof.
  unfold freq_row_skip_reason. split.
  - destruct (all_some (map f32_to_Q pseudo)) as [p|]; [|discriminate].
    destruct (forallb (fun x => Qleb 0 x) p) eqn:F; cbn [negb]; [|discriminate]. cbv zeta.
    destruct (Qeq_bool (Qsum (freq_num_Q p counts)) 0) eqn:Z; [discriminate|].
    destruct (Qleb (Qsum (freq_num_Q p counts)) (2 ^ 100 # 1)) eqn:L; cbn [negb]; [|discriminate].
    intros _. exists p. split; [reflexivity|]. split; [apply forallb_Qleb_Forall; exact F|]. split.
    + apply Qeq_bool_false. exact Z.
    + apply Qleb_le. exact L.
  - intros [p [E [F [Z L]]]]. rewrite E. apply forallb_Qleb_Forall in F. rewrite F. cbn [negb]. cbv zeta.
    apply Qeq_bool_false in Z. rewrite Z. apply Qleb_le in L. rewrite L. reflexivity.
Qed.

(* reason 1: a pseudocount is NaN / infinite *)
Lemma freq_row_skip_reason_1 pseudo counts :
  freq_row_skip_reason pseudo counts = 1 <-> all_some (map f32_to_Q pseudo) = None.
Proof.
  unfold freq_row_skip_reason. split.
  - destruct (all_some (map f32_to_Q pseudo)) as [p|]; [|reflexivity].
    destruct (negb (forallb (fun x => Qleb 0 x) p)); [discriminate|]. cbv zeta.
    destruct (Qeq_bool (Qsum (freq_num_Q p counts)) 0); [discriminate|].
    destruct (negb (Qleb (Qsum (freq_num_Q p counts)) (2 ^ 100 # 1))); discriminate.
  - intros ->. reflexivity.
Qed.

(* reason 2: the pseudocounts are finite, one of them is negative *)
Lemma freq_row_skip_reason_2 pseudo counts :
  freq_row_skip_reason pseudo counts = 2 <->
  exists p, all_some (map f32_to_Q pseudo) = Some p /\ Exists (fun x => (x < 0)%Q) p.
Proof.
  unfold freq_row_skip_reason. split.
  - destruct (all_some (map f32_to_Q pseudo)) as [p|]; [|discriminate].
    destruct (forallb (fun x => Qleb 0 x) p) eqn:F; cbn [negb].
    + cbv zeta. destruct (Qeq_bool (Qsum (freq_num_Q p counts)) 0); [discriminate|].
      destruct (negb (Qleb (Qsum (freq_num_Q p counts)) (2 ^ 100 # 1))); discriminate.
    + intros _. exists p. split; [reflexivity|]. apply forallb_Qleb_false. exact F.
  - intros [p [E X]]. rewrite E. apply forallb_Qleb_false in X. rewrite X. reflexivity.
Qed.

(* reason 3: pseudocounts finite and >= 0, the exact total is 0 *)
Lemma freq_row_skip_reason_3 pseudo counts :
  freq_row_skip_reason pseudo counts = 3 <->
  exists p, all_some (map f32_to_Q pseudo) = Some p /\ Forall (fun x => (0 <= x)%Q) p /\
            (Qsum (freq_num_Q p counts) == 0)%Q.
Proof.
  unfold freq_row_skip_reason. split.
  - destruct (all_some (map f32_to_Q pseudo)) as [p|]; [|discriminate].
    destruct (forallb (fun x => Qleb 0 x) p) eqn:F; cbn [negb]; [|discriminate]. cbv zeta.
    destruct (Qeq_bool (Qsum (freq_num_Q p counts)) 0) eqn:Z.
    + intros _. exists p. split; [reflexivity|]. split; [apply forallb_Qleb_Forall; exact F|].
      apply Qeq_bool_iff. exact Z.
    + destruct (negb (Qleb (Qsum (freq_num_Q p counts)) (2 ^ 100 # 1))); discriminate.
  - intros [p [E [F Z]]]. rewrite E. apply forallb_Qleb_Forall in F. rewrite F. cbn [negb]. cbv zeta.
    apply Qeq_bool_iff in Z. rewrite Z. reflexivity.
Qed.

(* reason 4: pseudocounts finite and >= 0, the exact total is not 0 and above 2^100 *)
Lemma freq_row_skip_reason_4 pseudo counts :
  freq_row_skip_reason pseudo counts = 4 <->
  exists p, all_some (map f32_to_Q pseudo) = Some p /\ Forall (fun x => (0 <= x)%Q) p /\
            ~ (Qsum (freq_num_Q p counts) == 0)%Q /\
            (2 ^ 100 # 1 < Qsum (freq_num_Q p counts))%Q.
Proof.
  unfold freq_row_skip_reason. split.
  - destruct (all_some (map f32_to_Q pseudo)) as [p|]; [|discriminate].
    destruct (forallb (fun x => Qleb 0 x) p) eqn:F; cbn [negb]; [|discriminate]. cbv zeta.
    destruct (Qeq_bool (Qsum (freq_num_Q p counts)) 0) eqn:Z; [discriminate|].
    destruct (Qleb (Qsum (freq_num_Q p counts)) (2 ^ 100 # 1)) eqn:L; cbn [negb]; [discriminate|].
    intros _. exists p. split; [reflexivity|]. split; [apply forallb_Qleb_Forall; exact F|]. split.
    + apply Qeq_bool_false. exact Z.
    + apply Qleb_false. exact L.
  - intros [p [E [F [Z L]]]]. rewrite E. apply forallb_Qleb_Forall in F. rewrite F. cbn [negb]. cbv zeta.
    apply Qeq_bool_false in Z. rewrite Z. apply Qleb_false in L. rewrite L. reflexivity.
Qed.

Lemma freq_row_skip_reason_range pseudo counts : freq_row_skip_reason pseudo counts <= 4.
Proof.
  unfold freq_row_skip_reason.
  destruct (all_some (map f32_to_Q pseudo)) as [p|]; [|lia].
  destruct (negb (forallb (fun x => Qleb 0 x) p)); [lia|]. cbv zeta.
  destruct (Qeq_bool (Qsum (freq_num_Q p counts)) 0); [lia|].
  destruct (negb (Qleb (Qsum (freq_num_Q p counts)) (2 ^ 100 # 1))); lia.
Qed.

Lemma freq_row_skipped_false pseudo counts :
  freq_row_skipped pseudo counts = false <-> freq_row_skip_reason pseudo counts = 0.
Proof. unfold freq_row_skipped. rewrite negb_false_iff, Nat.eqb_eq. reflexivity. Qed.

Lemma freq_row_skipped_true pseudo counts :
  freq_row_skipped pseudo counts = true <-> freq_row_skip_reason pseudo counts <> 0.
Proof. unfold freq_row_skipped. rewrite negb_true_iff, Nat.eqb_neq. reflexivity. Qed.

(* ---------- (4) frequencies ---------- *)

Lemma check_freq_row2_sound eps pseudo counts obs :
  check_freq_row2 eps pseudo counts obs = true -> freq_row_skipped pseudo counts = false ->
  exists p o, all_some (map f32_to_Q pseudo) = Some p /\ all_some (map f32_to_Q obs) = Some o /\
    Forall (fun x => (0 <= x)%Q) p /\
    let num := freq_num_Q p counts in let tot := Qsum num in
    ~ (tot == 0)%Q /\ (tot <= 2 ^ 100 # 1)%Q /\ length o = length num /\
    (forall k, k < length o -> (Qabs (nth k o 0 - nth k num 0 / tot) <= eps)%Q) /\
    (Qabs (Qsum o - 1) <= eps * (Z.of_nat (length o) # 1))%Q.
Proof.
  unfold check_freq_row2. intros H S. rewrite S in H.
  apply freq_row_skipped_false in S. apply freq_row_skip_reason_spec in S.
  destruct S as [p [E [F [Z L]]]]. rewrite E in H.
  destruct (all_some (map f32_to_Q obs)) as [o|]; [|discriminate].
  exists p, o. split; [exact E|]. split; [reflexivity|]. split; [exact F|]. cbv zeta in *.
  apply andb_true_iff in H. destruct H as [H H3]. apply andb_true_iff in H. destruct H as [H1 H2].
  apply Nat.eqb_eq in H1.
  split; [exact Z|]. split; [exact L|]. split; [exact H1|]. split.
  - intros k Hk.
    pose proof (forallb_id_map2 _ o (freq_num_Q p counts) 0%Q 0%Q k H2 Hk ltac:(lia)) as Hc.
    cbv beta in Hc. apply Qleb_le. exact Hc.
  - apply Qleb_le. exact H3.
Qed.

Lemma check_freq2_sound eps pseudo cm obs : check_freq2 eps pseudo cm obs = true ->
  length cm = length obs /\
  forall i, i < length cm -> check_freq_row2 eps pseudo (nth i cm []) (nth i obs []) = true.
Proof.
  unfold check_freq2. intros H. apply andb_true_iff in H. destruct H as [Hl H].
  apply Nat.eqb_eq in Hl. split; [exact Hl|]. intros i Hi.
  exact (forallb_id_map2 _ cm obs [] [] i H Hi ltac:(lia)).
Qed.

Lemma freq_skips_0 pseudo cm : freq_skips pseudo cm = 0 ->
  forall i, i < length cm -> freq_row_skipped pseudo (nth i cm []) = false.
Proof.
  unfold freq_skips. intros H i Hi. apply length_zero_iff_nil in H.
  destruct (freq_row_skipped pseudo (nth i cm [])) eqn:S; [|reflexivity].
  assert (HI : In (nth i cm []) (filter (freq_row_skipped pseudo) cm)).
  { apply filter_In. split; [apply nth_In; exact Hi | exact S]. }
  rewrite H in HI. destruct HI.
Qed.

(* a passing matrix check without a skipped row: every row is judged *)
Lemma check_freq2_sound_all eps pseudo cm obs :
  check_freq2 eps pseudo cm obs = true -> freq_skips pseudo cm = 0 ->
  length cm = length obs /\
  forall i, i < length cm ->
  exists p o, all_some (map f32_to_Q pseudo) = Some p /\
    all_some (map f32_to_Q (nth i obs [])) = Some o /\
    Forall (fun x => (0 <= x)%Q) p /\
    let num := freq_num_Q p (nth i cm []) in let tot := Qsum num in
    ~ (tot == 0)%Q /\ (tot <= 2 ^ 100 # 1)%Q /\ length o = length num /\
    (forall k, k < length o -> (Qabs (nth k o 0 - nth k num 0 / tot) <= eps)%Q) /\
    (Qabs (Qsum o - 1) <= eps * (Z.of_nat (length o) # 1))%Q.
Proof.
  intros H S. destruct (check_freq2_sound _ _ _ _ H) as [L R]. split; [exact L|].
  intros i Hi. apply check_freq_row2_sound; [apply R; exact Hi | apply freq_skips_0; assumption].
Qed.

(* the new row checker is stricter than the old one *)
Lemma check_freq_row2_stricter eps pseudo counts obs :
  check_freq_row2 eps pseudo counts obs = true -> check_freq_row eps pseudo counts obs = true.
Proof.
  unfold check_freq_row2, check_freq_row, freq_row_skipped, freq_row_skip_reason, freq_num_Q.
  destruct (all_some (map f32_to_Q pseudo)) as [p|];
    destruct (all_some (map f32_to_Q obs)) as [o|]; try reflexivity.
  destruct (forallb (fun x => Qleb 0 x) p); cbn [negb]; [|reflexivity]. cbv zeta.
  destruct (Qeq_bool (Qsum (map2 (fun c x => (Z.of_N c # 1) + x)%Q counts p)) 0); [reflexivity|].
  destruct (Qleb (Qsum (map2 (fun c x => (Z.of_N c # 1) + x)%Q counts p)) (2 ^ 100 # 1));
    cbn [negb orb Nat.eqb]; [|reflexivity].
  intros H. exact H.
Qed.

Lemma check_freq2_stricter eps pseudo cm obs :
  check_freq2 eps pseudo cm obs = true -> check_freq eps pseudo cm obs = true.
Proof.
  unfold check_freq2, check_freq. intros H. apply andb_true_iff in H. destruct H as [Hl H].
  rewrite Hl. cbn [andb]. clear Hl. revert obs H.
  induction cm as [|r cm IH]; intros [|o obs] H; simpl in *; try reflexivity.
  apply andb_true_iff in H. destruct H as [H1 H2].
  rewrite (check_freq_row2_stricter _ _ _ _ H1). apply IH. exact H2.
Qed.

(* ---------- (5) scores ---------- *)

Lemma check_score_cell2_sound_bits abs rel niz e bg o :
  check_score_cell2 abs rel niz e bg o = true -> score_cell_skipped niz e bg = false ->
  (F32.eq bg F32.zero = true -> niz = true -> F32.to_bits o = F32.to_bits F32.ninf) /\
  (F32.eq bg F32.zero && niz = false -> F32.is_nan e = false /\ f32_close abs rel e o = true).
Proof.
  unfold check_score_cell2, score_cell_skipped, f32_same. intros H S.
  destruct (F32.eq bg F32.zero && niz) eqn:B.
  - split; [|discriminate]. intros _ _. apply Z.eqb_eq. exact H.
  - rewrite S in H. split.
    + intros B1 B2. rewrite B1, B2 in B. discriminate.
    + intros _. split; [exact S | exact H].
Qed.

Lemma check_score_cell2_sound abs rel niz e bg o :
  check_score_cell2 abs rel niz e bg o = true -> score_cell_skipped niz e bg = false ->
  (F32.eq bg F32.zero = true -> niz = true -> o = F32.ninf) /\
  (F32.eq bg F32.zero && niz = false -> F32.is_nan e = false /\ f32_close abs rel e o = true).
Proof.
  intros H S. destruct (check_score_cell2_sound_bits _ _ _ _ _ _ H S) as [A B].
  split; [|exact B]. intros B1 B2. apply f32_to_bits_inj. apply A; assumption.
Qed.

(* ---------- (6) weights / rescale ---------- *)

Lemma check_weight_cell_sound2 rel tiny f bg w :
  check_weight_cell rel tiny f bg w = true -> weight_cell_skipped f bg w = false ->
  (F32.eq bg F32.zero = true /\ F32.eq w F32.zero = true) \/
  (F32.eq bg F32.zero = false /\
   exists qf qb qw, f32_to_Q f = Some qf /\ f32_to_Q bg = Some qb /\ f32_to_Q w = Some qw /\
                    (Qabs (qw * qb - qf) <= rel * Qabs qf + tiny)%Q).
Proof.
  unfold check_weight_cell, weight_cell_skipped, is_fin. intros H S.
  destruct (F32.eq bg F32.zero).
  - left. split; [reflexivity | exact H].
  - right. split; [reflexivity|].
    destruct (f32_to_Q f) as [qf|]; [|discriminate].
    destruct (f32_to_Q bg) as [qb|]; [|discriminate].
    destruct (f32_to_Q w) as [qw|]; [|discriminate].
    exists qf, qb, qw. repeat split. apply Qleb_le. exact H.
Qed.

Lemma check_rescale_cell_sound2 rel tiny f old new w :
  check_rescale_cell rel tiny f old new w = true -> rescale_cell_skipped f old new w = false ->
  (F32.eq new F32.zero = true /\ F32.eq w F32.zero = true) \/
  (F32.eq new F32.zero = false /\ F32.eq old F32.zero = false /\
   exists qf qo qn qw, f32_to_Q f = Some qf /\ f32_to_Q old = Some qo /\ f32_to_Q new = Some qn /\
                       f32_to_Q w = Some qw /\
                       (Qabs (qw * qn - qf) <= rescale_tol rel tiny qf qo qn)%Q).
Proof.
  unfold check_rescale_cell, rescale_cell_skipped, is_fin. intros H S.
  destruct (F32.eq new F32.zero).
  - left. split; [reflexivity | exact H].
  - right. split; [reflexivity|].
    destruct (F32.eq old F32.zero); [discriminate|]. split; [reflexivity|].
    destruct (f32_to_Q f) as [qf|]; [|discriminate].
    destruct (f32_to_Q old) as [qo|]; [|discriminate].
    destruct (f32_to_Q new) as [qn|]; [|discriminate].
    destruct (f32_to_Q w) as [qw|]; [|discriminate].
    exists qf, qo, qn, qw. repeat split. apply Qleb_le. exact H.
Qed.

(* ---------- (7) window ---------- *)

Lemma check_window_sound2 mn mx w :
  check_window mn mx w = true -> window_skipped mn mx w = false ->
  F32.le mn w = true /\ F32.le w mx = true.
Proof.
  unfold check_window, window_skipped. intros H S. rewrite S in H.
  apply andb_true_iff in H. exact H.
Qed.

(* ---------- (8) mirrored scores ---------- *)

Lemma check_mirror_sound2_bits terms a b :
  check_mirror terms a b = true -> mirror_skipped terms a b = false ->
  (exists t x y, all_some (map f32_to_Q terms) = Some t /\ f32_to_Q a = Some x /\ f32_to_Q b = Some y /\
                 (Qabs (x - y) <= (Z.of_nat (length t) # 8388608) * Qsum (map Qabs t))%Q)
  \/ (all_some (map f32_to_Q terms) = None /\ existsb F32.is_nan terms = false /\
      existsb (fun t => F32.eq t F32.inf) terms = false /\ F32.to_bits a = F32.to_bits b).
Proof.
  unfold check_mirror, mirror_skipped, is_fin, f32_same. intros H S.
  destruct (existsb F32.is_nan terms || F32.is_nan a || F32.is_nan b) eqn:N; [discriminate|].
  apply orb_false_iff in N. destruct N as [N N3]. apply orb_false_iff in N. destruct N as [N1 N2].
  destruct (all_some (map f32_to_Q terms)) as [t|].
  - left. destruct (f32_to_Q a) as [x|]; [|discriminate]. destruct (f32_to_Q b) as [y|]; [|discriminate].
    exists t, x, y. repeat split. apply Qleb_le. exact H.
  - right. rewrite S in H. apply Z.eqb_eq in H. repeat split; assumption.
Qed.

Lemma check_mirror_sound2 terms a b :
  check_mirror terms a b = true -> mirror_skipped terms a b = false ->
  (exists t x y, all_some (map f32_to_Q terms) = Some t /\ f32_to_Q a = Some x /\ f32_to_Q b = Some y /\
                 (Qabs (x - y) <= (Z.of_nat (length t) # 8388608) * Qsum (map Qabs t))%Q)
  \/ (all_some (map f32_to_Q terms) = None /\ existsb F32.is_nan terms = false /\
      existsb (fun t => F32.eq t F32.inf) terms = false /\ a = b).
Proof.
  intros H S. destruct (check_mirror_sound2_bits _ _ _ H S) as [A|[A [B [C D]]]]; [left; exact A|].
  right. repeat split; try assumption. apply f32_to_bits_inj. exact D.
Qed.

(* what "not skipped" states about the NaN tests, for completeness *)
Lemma mirror_skipped_false_nan terms a b : mirror_skipped terms a b = false ->
  existsb F32.is_nan terms = false /\ F32.is_nan a = false /\ F32.is_nan b = false.
Proof.
  unfold mirror_skipped. intros S.
  destruct (existsb F32.is_nan terms || F32.is_nan a || F32.is_nan b) eqn:N; [discriminate|].
  apply orb_false_iff in N. destruct N as [N N3]. apply orb_false_iff in N. destruct N as [N1 N2].
  repeat split; assumption.
Qed.

(* ---------- (9) one step = two steps ---------- *)

Lemma check_one_step_two_step_sound s1 s2 : check_one_step_two_step s1 s2 = true <-> s1 = s2.
Proof. unfold check_one_step_two_step. apply fm_same_eq. Qed.

Lemma check_one_step_two_step_bits s1 s2 : check_one_step_two_step s1 s2 = true ->
  length s1 = length s2 /\
  forall i, i < length s1 ->
    length (nth i s1 []) = length (nth i s2 []) /\
    forall k, k < length (nth i s1 []) ->
      F32.to_bits (nth k (nth i s1 []) F32.zero) = F32.to_bits (nth k (nth i s2 []) F32.zero).
Proof.
  unfold check_one_step_two_step, fm_same, row_same. intros H.
  destruct (list_same_nth _ _ _ H) as [L N]. split; [exact L|].
  intros i Hi. specialize (N i [] [] Hi). destruct (list_same_nth _ _ _ N) as [L2 N2].
  split; [exact L2|]. intros k Hk. apply Z.eqb_eq. apply (N2 k F32.zero F32.zero Hk).
Qed.

(* ---------- assumptions ---------- *)
Print Assumptions f32_close_finite.
Print Assumptions f32_close_nonfinite_bits.
Print Assumptions f32_close_sound.
Print Assumptions f32_close_sound_or.
Print Assumptions f32_close_sound_sum.
Print Assumptions f32_close_nonfinite.
Print Assumptions list_same_nth.
Print Assumptions fm_close_sound.
Print Assumptions freq_row_skip_reason_spec.
Print Assumptions freq_row_skip_reason_1.
Print Assumptions freq_row_skip_reason_2.
Print Assumptions freq_row_skip_reason_3.
Print Assumptions freq_row_skip_reason_4.
Print Assumptions freq_row_skip_reason_range.
Print Assumptions freq_row_skipped_false.
Print Assumptions freq_row_skipped_true.
Print Assumptions check_freq_row2_sound.
Print Assumptions check_freq2_sound.
Print Assumptions freq_skips_0.
Print Assumptions check_freq2_sound_all.
Print Assumptions check_freq_row2_stricter.
Print Assumptions check_freq2_stricter.
Print Assumptions check_score_cell2_sound_bits.
Print Assumptions check_score_cell2_sound.
Print Assumptions check_weight_cell_sound2.
Print Assumptions check_rescale_cell_sound2.
Print Assumptions check_window_sound2.
Print Assumptions check_mirror_sound2_bits.
Print Assumptions check_mirror_sound2.
Print Assumptions mirror_skipped_false_nan.
Print Assumptions check_one_step_two_step_sound.
Print Assumptions check_one_step_two_step_bits.
