(* Theorems over the reals about the Gallina model of CountMatrix::row_entropy,
   WeightMatrix::information_content, ScoringMatrix::information_content and
   From<ScoringMatrix> for WeightMatrix (PwmStat.v / PwmModel.v, instance Rops of PwmReal.v).

     E1 row_entropy_bounds, row_entropy_bounds_nnz   0 <= H <= log2 (#non-zero cells) <= log2 K
     E2 row_entropy_overflow_panics                  u32 overflow of the row total: Panic 14
     E3 row_entropy_single_symbol, row_entropy_uniform2
     I1 sic_is_relative_entropy                      ScoringMatrix::information_content = sum x log2 (x/b)
     I2 sic_nonneg                                   Gibbs' inequality
     I3 weight_of_scoring_roundtrip, to_scoring_of_weight_of_scoring
     I4 wic_formula                                  what WeightMatrix::information_content computes
     I5 weight_information_content_refuted           ... which is not the relative entropy *)
From Coq Require Import List ZArith NArith Bool Arith Reals Lra Lia.
From LMBase Require Import Res ListX.
From LMPwm Require Import PwmModel PwmStat.
From LMPwm Require Import PwmReal.
Import ListNotations.
Local Open Scope R_scope.

(* ---------- logarithm / power of two ---------- *)

Lemma ln2_pos : 0 < ln 2.
Proof. rewrite <- ln_1. apply ln_increasing; lra. Qed.

Lemma ln_nonpos_arg x : x <= 0 -> ln x = 0.
Proof.
  intros Hx. unfold ln. destruct (Rlt_dec 0 x) as [Hlt|Hnlt]; [exfalso; lra|reflexivity].
Qed.

(* ln x <= x - 1 *)
Lemma ln_le_sub1 x : 0 < x -> ln x <= x - 1.
Proof.
  intros Hx.
  destruct (Rle_or_lt (ln x) (x - 1)) as [Hle|Hgt]; [exact Hle|exfalso].
  pose proof (exp_ineq1_le (ln x)) as Hexp.
  rewrite (exp_ln x Hx) in Hexp. lra.
Qed.

Lemma Rlog2_1 : Rlog2 1 = 0.
Proof. unfold Rlog2. rewrite ln_1. unfold Rdiv. apply Rmult_0_l. Qed.

Lemma Rlog2_2 : Rlog2 2 = 1.
Proof. unfold Rlog2. pose proof ln2_pos. field. lra. Qed.

Lemma Rlog2_half : Rlog2 (/ 2) = -1.
Proof.
  unfold Rlog2. rewrite ln_Rinv by lra. pose proof ln2_pos. field. lra.
Qed.

Lemma Rpow2_Rlog2 x : 0 < x -> Rpow2 (Rlog2 x) = x.
Proof.
  intros Hx. unfold Rpow2, Rlog2. pose proof ln2_pos as H2.
  replace (ln x / ln 2 * ln 2) with (ln x) by (field; lra).
  apply exp_ln, Hx.
Qed.

Lemma Rlog2_Rpow2 x : Rlog2 (Rpow2 x) = x.
Proof.
  unfold Rpow2, Rlog2. rewrite ln_exp. pose proof ln2_pos as H2. field. lra.
Qed.

Lemma R_eqb_refl a : R_eqb a a = true.
Proof. apply R_eqb_true. reflexivity. Qed.

Lemma R_eqb_false a b : a <> b -> R_eqb a b = false.
Proof.
  intros Hne. destruct (R_eqb a b) eqn:E; [|reflexivity].
  apply R_eqb_true in E. contradiction.
Qed.

Lemma R_ltb_false a b : ~ a < b -> R_ltb a b = false.
Proof.
  intros Hn. destruct (R_ltb a b) eqn:E; [|reflexivity].
  apply R_ltb_true in E. contradiction.
Qed.

(* ---------- lists ---------- *)

Lemma map2_map2_l {A B C D : Type} (g : C -> B -> D) (h : A -> B -> C) (l : list A) (bg : list B) :
  map2 g (map2 h l bg) bg = map2 (fun x b => g (h x b) b) l bg.
Proof.
  revert bg. induction l as [|x l IH]; intros [|b bg]; cbn [map2]; try reflexivity.
  rewrite IH. reflexivity.
Qed.

Lemma map2_ext_pos {C : Type} (g1 g2 : R -> R -> C) (P Q : R -> Prop) (l bg : list R) :
  (forall x b, P x -> Q b -> g1 x b = g2 x b) ->
  Forall P l -> Forall Q bg -> map2 g1 l bg = map2 g2 l bg.
Proof.
  intros Hg Hl. revert bg. induction Hl as [|x l Hx Hl IH]; intros [|b bg] Hbg; cbn [map2]; try reflexivity.
  inversion Hbg as [|b' bg' Hb Hbg']; subst.
  rewrite (Hg x b Hx Hb), (IH bg Hbg'). reflexivity.
Qed.

Lemma map_ext_Forall {A B : Type} (g1 g2 : A -> B) (P : A -> Prop) (l : list A) :
  (forall x, P x -> g1 x = g2 x) -> Forall P l -> map g1 l = map g2 l.
Proof.
  intros Hg Hl. induction Hl as [|x l Hx Hl IH]; cbn [map]; [reflexivity|].
  rewrite (Hg x Hx), IH. reflexivity.
Qed.

Lemma Rsum_cons x l : Rsum (x :: l) = x + Rsum l.
Proof. reflexivity. Qed.

Lemma Rsum_nil : Rsum [] = 0.
Proof. reflexivity. Qed.

Lemma Rsum_nonneg l : Forall (fun x => 0 <= x) l -> 0 <= Rsum l.
Proof.
  intros Hl. induction Hl as [|x l Hx Hl IH]; [rewrite Rsum_nil; lra|].
  rewrite Rsum_cons. lra.
Qed.

Lemma Rsum_app l1 l2 : Rsum (l1 ++ l2) = Rsum l1 + Rsum l2.
Proof.
  induction l1 as [|x l1 IH]; cbn [app]; [rewrite Rsum_nil; lra|].
  rewrite !Rsum_cons, IH. lra.
Qed.

(* ---------- E2: the u32 overflow of the row total (any carrier) ---------- *)

Theorem row_entropy_overflow_panics {T : Type} (O : NumOps T) (fneg flog2 : T -> T) (row : list N) :
  (4294967296 <= fold_left N.add row 0)%N ->
  row_entropy O fneg flog2 false row = Panic 14.
Proof.
  intros Hov. unfold row_entropy, sum_u32, u32_mod.
  destruct (N.ltb_spec (fold_left N.add row 0%N) 4294967296%N) as [Hlt|Hge]; [lia|].
  reflexivity.
Qed.

(* in the release profile the total wraps and a value is returned *)
Lemma sum_u32_in_range wrap row :
  (fold_left N.add row 0 < 4294967296)%N -> sum_u32 wrap row = Ok (fold_left N.add row 0%N).
Proof.
  intros Hlt. unfold sum_u32, u32_mod.
  destruct (N.ltb_spec (fold_left N.add row 0%N) 4294967296%N) as [_|Hge]; [reflexivity|lia].
Qed.

(* ---------- I1: ScoringMatrix::information_content is the relative entropy ---------- *)

Lemma sic_into_scoring_cell x b :
  0 < x -> 0 < b ->
  sic_cell Rops Rpow2 (into_scoring_cell Rops Rlog2 x b) b = x * Rlog2 (x / b).
Proof.
  intros Hx Hb. unfold sic_cell, into_scoring_cell. cbn [n_eqb n_zero n_ninf n_mul n_div Rops].
  rewrite (R_eqb_false b 0) by lra. cbn [orb].
  destruct (R_eqb (Rlog2 (x / b)) 0) eqn:E.
  - apply R_eqb_true in E. rewrite E. lra.
  - rewrite Rpow2_Rlog2 by (apply Rdiv_lt_0_compat; assumption).
    field. lra.
Qed.

Definition all_pos (l : list R) : Prop := Forall (fun x => 0 < x) l.

Lemma sic_row_relative_entropy bg row :
  all_pos bg -> all_pos row ->
  fsum Rops (map2 (sic_cell Rops Rpow2) (map2 (into_scoring_cell Rops Rlog2) row bg) bg)
  = Rsum (map2 (fun x b => x * Rlog2 (x / b)) row bg).
Proof.
  intros Hbg Hrow. rewrite fsum_Rsum, map2_map2_l. f_equal.
  apply (map2_ext_pos _ _ (fun x => 0 < x) (fun b => 0 < b)); [|exact Hrow|exact Hbg].
  intros x b Hx Hb. apply sic_into_scoring_cell; assumption.
Qed.

(* the lengths play no role here (zip truncates both sides in the same way) *)
Theorem sic_is_relative_entropy_nolen (bg : list R) (f : list (list R)) :
  all_pos bg -> Forall all_pos f ->
  scoring_information_content Rops Rpow2 bg (into_scoring Rops Rlog2 bg f)
  = Rsum (map (fun row => Rsum (map2 (fun x b => x * Rlog2 (x / b)) row bg)) f).
Proof.
  intros Hbg Hf. unfold scoring_information_content, into_scoring.
  rewrite fsum_Rsum, map_map. f_equal.
  apply (map_ext_Forall _ _ all_pos); [|exact Hf].
  intros row Hrow. apply sic_row_relative_entropy; assumption.
Qed.

Theorem sic_is_relative_entropy (bg : list R) (f : list (list R)) :
  all_pos bg -> Forall all_pos f -> Forall (fun row => length row = length bg) f ->
  scoring_information_content Rops Rpow2 bg (into_scoring Rops Rlog2 bg f)
  = Rsum (map (fun row => Rsum (map2 (fun x b => x * Rlog2 (x / b)) row bg)) f).
Proof. intros Hbg Hf _. apply sic_is_relative_entropy_nolen; assumption. Qed.

(* ---------- I2: Gibbs' inequality ---------- *)

Lemma gibbs_cell x b : 0 < x -> 0 < b -> x - b <= x * ln (x / b).
Proof.
  intros Hx Hb.
  assert (Hq : 0 < b / x) by (apply Rdiv_lt_0_compat; assumption).
  pose proof (ln_le_sub1 (b / x) Hq) as Hln.
  assert (Hinv : ln (x / b) = - ln (b / x)).
  { rewrite <- ln_Rinv by exact Hq. f_equal. field. lra. }
  rewrite Hinv.
  assert (Hmul : x * ln (b / x) <= x * (b / x - 1)) by (apply Rmult_le_compat_l; lra).
  replace (x * (b / x - 1)) with (b - x) in Hmul by (field; lra).
  lra.
Qed.

Lemma gibbs_row_ln row : forall bg,
  all_pos row -> all_pos bg -> length row = length bg ->
  Rsum row - Rsum bg <= Rsum (map2 (fun x b => x * ln (x / b)) row bg).
Proof.
  induction row as [|x row IH]; intros [|b bg] Hrow Hbg Hlen; cbn [length] in Hlen; try discriminate.
  - cbn [map2]. rewrite Rsum_nil. lra.
  - inversion Hrow as [|x' row' Hx Hrow']; subst.
    inversion Hbg as [|b' bg' Hb Hbg']; subst.
    cbn [map2]. rewrite !Rsum_cons.
    pose proof (gibbs_cell x b Hx Hb) as Hc.
    assert (Hl : length row = length bg) by congruence.
    pose proof (IH bg Hrow' Hbg' Hl) as Hr. lra.
Qed.

Lemma Rsum_map2_log2 row : forall bg,
  Rsum (map2 (fun x b => x * Rlog2 (x / b)) row bg)
  = Rsum (map2 (fun x b => x * ln (x / b)) row bg) / ln 2.
Proof.
  pose proof ln2_pos as H2.
  induction row as [|x row IH]; intros [|b bg]; cbn [map2]; rewrite ?Rsum_nil; try (field; lra).
  rewrite !Rsum_cons, IH. unfold Rlog2. field. lra.
Qed.

Lemma gibbs_row row bg :
  all_pos row -> all_pos bg -> length row = length bg ->
  Rsum row = 1 -> Rsum bg <= 1 ->
  0 <= Rsum (map2 (fun x b => x * Rlog2 (x / b)) row bg).
Proof.
  intros Hrow Hbg Hlen Hs1 Hsb.
  rewrite Rsum_map2_log2.
  pose proof (gibbs_row_ln row bg Hrow Hbg Hlen) as Hg.
  pose proof ln2_pos as H2.
  apply Rmult_le_pos; [lra|]. left. apply Rinv_0_lt_compat. exact H2.
Qed.

Theorem sic_nonneg (bg : list R) (f : list (list R)) :
  all_pos bg -> Forall all_pos f -> Forall (fun row => length row = length bg) f ->
  Forall (fun row => Rsum row = 1) f -> Rsum bg <= 1 ->
  0 <= scoring_information_content Rops Rpow2 bg (into_scoring Rops Rlog2 bg f).
Proof.
  intros Hbg Hf Hlen Hsum Hsb.
  rewrite sic_is_relative_entropy_nolen by assumption.
  apply Rsum_nonneg. apply Forall_forall. intros v Hv.
  apply in_map_iff in Hv. destruct Hv as [row [Hv Hin]]. subst v.
  rewrite Forall_forall in Hf, Hlen, Hsum.
  apply gibbs_row; auto.
Qed.

(* ---------- I3: From<ScoringMatrix> for WeightMatrix inverts to_scoring ---------- *)

Lemma flog_base2 (flog10 fln : R -> R) x : flog Rops Rlog2 flog10 fln (n_two Rops) x = Rlog2 x.
Proof. unfold flog. cbn [n_eqb n_two Rops]. rewrite R_eqb_refl. reflexivity. Qed.

Lemma map_id_Forall {A : Type} (g : A -> A) (P : A -> Prop) (l : list A) :
  (forall x, P x -> g x = x) -> Forall P l -> map g l = l.
Proof.
  intros Hg Hl. induction Hl as [|x l Hx Hl IH]; cbn [map]; [reflexivity|].
  rewrite (Hg x Hx), IH. reflexivity.
Qed.

Theorem weight_of_scoring_roundtrip (flog10 fln : R -> R) (w : list (list R)) :
  Forall all_pos w ->
  weight_of_scoring Rpow2 (to_scoring Rops Rlog2 flog10 fln w) = w.
Proof.
  intros Hw. unfold weight_of_scoring, to_scoring, to_scoring_with_base.
  rewrite map_map. apply (map_id_Forall _ all_pos); [|exact Hw].
  intros row Hrow. rewrite map_map. apply (map_id_Forall _ (fun x => 0 < x)); [|exact Hrow].
  intros x Hx. rewrite flog_base2. apply Rpow2_Rlog2, Hx.
Qed.

Theorem to_scoring_of_weight_of_scoring (flog10 fln : R -> R) (s : list (list R)) :
  to_scoring Rops Rlog2 flog10 fln (weight_of_scoring Rpow2 s) = s.
Proof.
  unfold weight_of_scoring, to_scoring, to_scoring_with_base.
  rewrite map_map. rewrite <- (map_id s) at 2. apply map_ext. intros row.
  rewrite map_map. rewrite <- (map_id row) at 2. apply map_ext. intros x.
  rewrite flog_base2. apply Rlog2_Rpow2.
Qed.

(* ---------- I4: what WeightMatrix::information_content computes ---------- *)

Lemma wic_weight_cell x b :
  0 < b ->
  wic_cell Rops Rlog2 (weight_cell Rops x b) b = (x / b) * Rlog2 (x / (b * b)).
Proof.
  intros Hb. unfold wic_cell, weight_cell. cbn [n_eqb n_zero n_mul n_div Rops].
  rewrite (R_eqb_false b 0) by lra.
  replace (x / b / b) with (x / (b * b)) by (field; lra). reflexivity.
Qed.

Theorem wic_formula_nolen (bg : list R) (f : list (list R)) :
  all_pos bg ->
  weight_information_content Rops Rlog2 bg (to_weight Rops bg f)
  = Rsum (map (fun row => Rsum (map2 (fun x b => (x / b) * Rlog2 (x / (b * b))) row bg)) f).
Proof.
  intros Hbg. unfold weight_information_content, to_weight.
  rewrite fsum_Rsum, map_map. f_equal. apply map_ext. intros row.
  rewrite fsum_Rsum, map2_map2_l. f_equal.
  apply (map2_ext_pos _ _ (fun _ => True) (fun b => 0 < b)); [| |exact Hbg].
  - intros x b _ Hb. apply wic_weight_cell, Hb.
  - apply Forall_forall. intros; exact I.
Qed.

Theorem wic_formula (bg : list R) (f : list (list R)) :
  all_pos bg -> Forall (fun row => length row = length bg) f ->
  weight_information_content Rops Rlog2 bg (to_weight Rops bg f)
  = Rsum (map (fun row => Rsum (map2 (fun x b => (x / b) * Rlog2 (x / (b * b))) row bg)) f).
Proof. intros Hbg _. apply wic_formula_nolen, Hbg. Qed.

(* ---------- I5: WeightMatrix::information_content is not the relative entropy ---------- *)

Theorem weight_information_content_refuted :
  exists (bg : list R) (f : list (list R)),
    (all_pos bg /\ Forall all_pos f) /\
    Rsum bg = 1 /\
    Forall (fun row => Rsum row = 1) f /\
    Forall (fun row => length row = length bg) f /\
    scoring_information_content Rops Rpow2 bg (into_scoring Rops Rlog2 bg f) = 0 /\
    weight_information_content Rops Rlog2 bg (to_weight Rops bg f) = 2.
Proof.
  exists [/ 2; / 2], [[/ 2; / 2]].
  assert (Hbg : all_pos [/ 2; / 2]) by (repeat constructor; lra).
  assert (Hf : Forall all_pos [[/ 2; / 2]]) by (repeat constructor; lra).
  split; [split; assumption|].
  split; [unfold Rsum; cbn [fold_right]; lra|].
  split; [repeat constructor; unfold Rsum; cbn [fold_right]; lra|].
  split; [repeat constructor|].
  split.
  - rewrite sic_is_relative_entropy_nolen by assumption.
    cbn [map map2]. unfold Rsum. cbn [fold_right].
    replace (/ 2 / / 2) with 1 by (field; lra). rewrite Rlog2_1. lra.
  - rewrite wic_formula_nolen by assumption.
    cbn [map map2]. unfold Rsum. cbn [fold_right].
    replace (/ 2 / (/ 2 * / 2)) with 2 by (field; lra).
    replace (/ 2 / / 2) with 1 by (field; lra). rewrite Rlog2_2. lra.
Qed.

(* ---------- row_entropy over the reals ---------- *)

Local Notation NR n := (IZR (Z.of_N n)).
Definition Ntot (row : list N) : N := fold_left N.add row 0%N.

Lemma fold_left_Nadd (l : list N) : forall a, fold_left N.add l a = (a + Ntot l)%N.
Proof.
  unfold Ntot. induction l as [|x l IH]; intros a; cbn [fold_left]; [lia|].
  rewrite (IH (a + x)%N), (IH (0 + x)%N). lia.
Qed.

Lemma Ntot_nil : Ntot [] = 0%N.
Proof. reflexivity. Qed.

Lemma Ntot_cons x l : Ntot (x :: l) = (x + Ntot l)%N.
Proof. unfold Ntot at 1. cbn [fold_left]. rewrite fold_left_Nadd. lia. Qed.

Lemma Ntot_app l1 l2 : Ntot (l1 ++ l2) = (Ntot l1 + Ntot l2)%N.
Proof.
  induction l1 as [|x l1 IH]; cbn [app]; [rewrite Ntot_nil; lia|].
  rewrite !Ntot_cons, IH. lia.
Qed.

Lemma Ntot_repeat0 k : Ntot (repeat 0%N k) = 0%N.
Proof.
  induction k as [|k IH]; cbn [repeat]; [reflexivity|]. rewrite Ntot_cons, IH. reflexivity.
Qed.

Lemma In_le_Ntot n row : In n row -> (n <= Ntot row)%N.
Proof.
  induction row as [|x row IH]; intros Hin; [contradiction|].
  rewrite Ntot_cons. destruct Hin as [->|Hin]; [lia|]. specialize (IH Hin). lia.
Qed.

Lemma NR_add a b : NR (a + b) = NR a + NR b.
Proof. rewrite N2Z.inj_add, plus_IZR. reflexivity. Qed.

Lemma NR_nonneg n : 0 <= NR n.
Proof. apply IZR_le. lia. Qed.

Lemma NR_pos n : (0 < n)%N -> 0 < NR n.
Proof. intros Hn. apply IZR_lt. lia. Qed.

Lemma NR_le a b : (a <= b)%N -> NR a <= NR b.
Proof. intros Hab. apply IZR_le. lia. Qed.

Lemma Rsum_map_NR row : Rsum (map (fun n => NR n) row) = NR (Ntot row).
Proof.
  induction row as [|x row IH]; cbn [map]; [reflexivity|].
  rewrite Rsum_cons, Ntot_cons, NR_add, IH. reflexivity.
Qed.

Lemma Rsum_map_div {A : Type} (g : A -> R) (c : R) (l : list A) :
  Rsum (map (fun x => g x / c) l) = Rsum (map g l) / c.
Proof.
  induction l as [|x l IH]; cbn [map]; [rewrite Rsum_nil; unfold Rdiv; lra|].
  rewrite !Rsum_cons, IH. unfold Rdiv. lra.
Qed.

(* p * ln p, which is 0 at p = 0 with Coq's ln *)
Definition plnp (p : R) : R := p * ln p.

(* the guard `if p > 0.0` is invisible over R because Coq's ln is 0 on the non-positive reals *)
Lemma entropy_term_R (s n : N) :
  entropy_term Rops Rlog2 s n = plnp (NR n / NR s) / ln 2.
Proof.
  unfold entropy_term, plnp. cbn [n_ltb n_zero n_mul n_div n_of_N Rops].
  destruct (R_ltb 0 (NR n / NR s)) eqn:E.
  - unfold Rlog2, Rdiv. ring.
  - assert (Hle : NR n / NR s <= 0).
    { destruct (Rle_or_lt (NR n / NR s) 0) as [H|H]; [exact H|].
      apply R_ltb_true in H. congruence. }
    rewrite (ln_nonpos_arg _ Hle). unfold Rdiv. ring.
Qed.

Lemma row_entropy_R wrap row :
  (Ntot row < 4294967296)%N ->
  row_entropy Rops Ropp Rlog2 wrap row
  = Ok (- (Rsum (map (fun n => plnp (NR n / NR (Ntot row))) row) / ln 2)).
Proof.
  intros Hlt. unfold row_entropy. rewrite sum_u32_in_range by exact Hlt.
  cbn [rbind]. fold (Ntot row). rewrite fsum_Rsum. do 2 f_equal.
  rewrite <- Rsum_map_div. f_equal. apply map_ext. intros n. apply entropy_term_R.
Qed.

Lemma plnp_0 : plnp 0 = 0.
Proof. unfold plnp. ring. Qed.

Lemma plnp_1 : plnp 1 = 0.
Proof. unfold plnp. rewrite ln_1. ring. Qed.

Lemma plnp_nonpos p : 0 <= p <= 1 -> plnp p <= 0.
Proof.
  intros [H0 H1]. unfold plnp. destruct H0 as [Hpos|<-]; [|lra].
  pose proof (ln_le_sub1 p Hpos) as Hln.
  assert (Hl : ln p <= 0) by lra.
  replace 0 with (p * 0) by ring. apply Rmult_le_compat_l; lra.
Qed.

(* - p ln p <= p ln K + 1/K - p : from ln y <= y - 1 at y = 1 / (K p) *)
Lemma plnp_upper p K' : 0 < p -> 0 < K' -> - plnp p <= p * ln K' + / K' - p.
Proof.
  intros Hp HK. unfold plnp.
  assert (Hkp : 0 < K' * p) by (apply Rmult_lt_0_compat; assumption).
  assert (Hinv : 0 < / (K' * p)) by (apply Rinv_0_lt_compat; exact Hkp).
  pose proof (ln_le_sub1 _ Hinv) as Hln.
  rewrite ln_Rinv in Hln by exact Hkp. rewrite ln_mult in Hln by assumption.
  assert (Hmul : p * (- (ln K' + ln p)) <= p * (/ (K' * p) - 1)) by (apply Rmult_le_compat_l; lra).
  replace (p * (/ (K' * p) - 1)) with (/ K' - p) in Hmul by (field; lra).
  lra.
Qed.

(* number of non-zero cells *)
Definition nnz (row : list N) : nat := length (filter (fun n => negb (n =? 0)%N) row).

Lemma nnz_le_length row : (nnz row <= length row)%nat.
Proof.
  unfold nnz. induction row as [|x row IH]; cbn [filter length]; [lia|].
  destruct (negb (x =? 0)%N); cbn [length]; lia.
Qed.

Lemma nnz_0_Ntot row : nnz row = 0%nat -> Ntot row = 0%N.
Proof.
  unfold nnz. induction row as [|x row IH]; cbn [filter]; intros Hz; [reflexivity|].
  rewrite Ntot_cons. destruct (N.eqb_spec x 0) as [->|Hne]; cbn [negb] in Hz.
  - rewrite (IH Hz). reflexivity.
  - cbn [length] in Hz. discriminate.
Qed.

Lemma nnz_cons x row : nnz (x :: row) = if (x =? 0)%N then nnz row else S (nnz row).
Proof. unfold nnz. cbn [filter]. destruct (x =? 0)%N; reflexivity. Qed.

Lemma entropy_sum_lower (tot : R) row :
  0 < tot ->
  Forall (fun n => NR n <= tot) row ->
  Rsum (map (fun n => plnp (NR n / tot)) row) <= 0.
Proof.
  intros tot_pos Hrow. induction Hrow as [|n row Hn Hrow IH]; cbn [map]; [rewrite Rsum_nil; lra|].
  rewrite Rsum_cons.
  assert (Hp : 0 <= NR n / tot <= 1).
  { pose proof (NR_nonneg n) as H0. split.
    - apply Rmult_le_pos; [exact H0|]. left. apply Rinv_0_lt_compat, tot_pos.
    - apply Rmult_le_reg_r with tot; [exact tot_pos|].
      replace (NR n / tot * tot) with (NR n) by (field; lra). lra. }
  pose proof (plnp_nonpos _ Hp). lra.
Qed.

Lemma entropy_sum_upper (tot K' : R) row :
  0 < tot -> 0 < K' ->
  - Rsum (map (fun n => plnp (NR n / tot)) row)
  <= Rsum (map (fun n => NR n / tot) row) * ln K' + INR (nnz row) / K'
     - Rsum (map (fun n => NR n / tot) row).
Proof.
  intros tot_pos HK. induction row as [|n row IH]; cbn [map].
  - rewrite !Rsum_nil. unfold nnz. cbn [filter length INR]. unfold Rdiv. lra.
  - rewrite !Rsum_cons, nnz_cons. destruct (N.eqb_spec n 0) as [->|Hne].
    + replace (NR 0 / tot) with 0 by (cbn [Z.of_N]; unfold Rdiv; ring).
      rewrite plnp_0. lra.
    + assert (Hn : 0 < NR n) by (apply NR_pos; lia).
      assert (Hp : 0 < NR n / tot) by (apply Rdiv_lt_0_compat; assumption).
      pose proof (plnp_upper _ K' Hp HK) as Hc.
      rewrite S_INR. unfold Rdiv at 4. rewrite Rmult_plus_distr_r.
      fold (Rdiv (INR (nnz row)) K'). lra.
Qed.

Lemma Rlog2_le a b : 0 < a -> a <= b -> Rlog2 a <= Rlog2 b.
Proof.
  intros Ha [Hlt| ->]; [|lra]. unfold Rlog2. pose proof ln2_pos as H2.
  pose proof (ln_increasing a b Ha Hlt) as Hln.
  apply Rmult_le_compat_r; [left; apply Rinv_0_lt_compat; exact H2|lra].
Qed.

(* ---------- E1 ---------- *)

Theorem row_entropy_bounds_nnz (wrap : bool) (row : list N) :
  let s := fold_left N.add row 0%N in
  (0 < s)%N -> (s < 4294967296)%N ->
  exists e, row_entropy Rops Ropp Rlog2 wrap row = Ok e /\
            0 <= e <= Rlog2 (INR (nnz row)) /\
            (1 <= nnz row <= length row)%nat.
Proof.
  intros s Hs0 Hs1. fold (Ntot row) in s. subst s.
  eexists. split; [apply row_entropy_R; exact Hs1|].
  pose proof ln2_pos as H2.
  assert (HS : 0 < NR (Ntot row)) by (apply NR_pos; exact Hs0).
  assert (Hnz : (1 <= nnz row)%nat).
  { destruct (nnz row) eqn:E; [|lia]. apply nnz_0_Ntot in E. lia. }
  assert (HK : 0 < INR (nnz row)) by (apply lt_0_INR; lia).
  assert (Hinv : 0 < / ln 2) by (apply Rinv_0_lt_compat; exact H2).
  split; [split|split; [exact Hnz|apply nnz_le_length]].
  - assert (Hlow : Rsum (map (fun n => plnp (NR n / NR (Ntot row))) row) <= 0).
    { apply entropy_sum_lower; [exact HS|]. apply Forall_forall. intros n Hin.
      apply NR_le, In_le_Ntot, Hin. }
    rewrite <- Ropp_div. apply Rmult_le_pos; lra.
  - pose proof (entropy_sum_upper (NR (Ntot row)) (INR (nnz row)) row HS HK) as Hup.
    rewrite (Rsum_map_div (fun n => NR n) (NR (Ntot row)) row), Rsum_map_NR in Hup.
    replace (NR (Ntot row) / NR (Ntot row)) with 1 in Hup by (field; lra).
    replace (INR (nnz row) / INR (nnz row)) with 1 in Hup by (field; lra).
    rewrite <- Ropp_div. unfold Rlog2. apply Rmult_le_compat_r; lra.
Qed.

Theorem row_entropy_bounds (wrap : bool) (row : list N) :
  let s := fold_left N.add row 0%N in
  (0 < s)%N -> (s < 4294967296)%N ->
  exists e, row_entropy Rops Ropp Rlog2 wrap row = Ok e /\ 0 <= e <= Rlog2 (INR (length row)).
Proof.
  intros s Hs0 Hs1.
  destruct (row_entropy_bounds_nnz wrap row Hs0 Hs1) as [e [He [[He0 He1] [Hn1 Hn2]]]].
  exists e. split; [exact He|]. split; [exact He0|].
  apply Rle_trans with (1 := He1). apply Rlog2_le; [apply lt_0_INR; lia|apply le_INR; exact Hn2].
Qed.

(* ---------- E3 ---------- *)

(* every cell is 0 or the whole total: entropy 0 *)
Theorem row_entropy_concentrated (wrap : bool) (row : list N) :
  let s := fold_left N.add row 0%N in
  (0 < s)%N -> (s < 4294967296)%N ->
  Forall (fun n => n = 0%N \/ n = s) row ->
  row_entropy Rops Ropp Rlog2 wrap row = Ok 0.
Proof.
  intros s Hs0 Hs1 Hrow. fold (Ntot row) in s. subst s.
  rewrite row_entropy_R by exact Hs1. f_equal.
  assert (HS : 0 < NR (Ntot row)) by (apply NR_pos; exact Hs0).
  assert (Hz : Rsum (map (fun n => plnp (NR n / NR (Ntot row))) row) = 0).
  { generalize dependent (Ntot row). intros s _ _ Hrow HS.
    induction Hrow as [|n row Hn Hrow IH]; cbn [map]; [reflexivity|].
    rewrite Rsum_cons, IH. destruct Hn as [-> | ->].
    - replace (NR 0 / NR s) with 0 by (cbn [Z.of_N]; unfold Rdiv; ring). rewrite plnp_0. ring.
    - replace (NR s / NR s) with 1 by (field; lra). rewrite plnp_1. ring. }
  rewrite Hz. unfold Rdiv. ring.
Qed.

Theorem row_entropy_single_symbol (wrap : bool) (s : N) (i j : nat) :
  (0 < s)%N -> (s < 4294967296)%N ->
  row_entropy Rops Ropp Rlog2 wrap (repeat 0%N i ++ s :: repeat 0%N j) = Ok 0.
Proof.
  intros Hs0 Hs1.
  assert (Htot : fold_left N.add (repeat 0%N i ++ s :: repeat 0%N j) 0%N = s).
  { fold (Ntot (repeat 0%N i ++ s :: repeat 0%N j)).
    rewrite Ntot_app, Ntot_cons, !Ntot_repeat0. lia. }
  apply row_entropy_concentrated; cbv zeta; rewrite Htot; try assumption.
  apply Forall_app. split; [|constructor; [right; reflexivity|]];
    apply Forall_forall; intros n Hin; apply repeat_spec in Hin; left; exact Hin.
Qed.

(* two equally frequent symbols: exactly one bit, the threshold at which `consensus`
   switches to lowercase *)
Theorem row_entropy_uniform2 (wrap : bool) (c : N) (k : nat) :
  (0 < 2 * c)%N -> (2 * c < 4294967296)%N ->
  row_entropy Rops Ropp Rlog2 wrap (c :: c :: repeat 0%N k) = Ok 1.
Proof.
  intros Hc0 Hc1.
  assert (Htot : Ntot (c :: c :: repeat 0%N k) = (2 * c)%N).
  { rewrite !Ntot_cons, Ntot_repeat0. lia. }
  rewrite row_entropy_R by (rewrite Htot; exact Hc1). rewrite Htot. f_equal.
  assert (Hc : 0 < NR c) by (apply NR_pos; lia).
  assert (H2c : NR (2 * c) = 2 * NR c).
  { replace (2 * c)%N with (c + c)%N by lia. rewrite NR_add. ring. }
  assert (Hz : Rsum (map (fun n => plnp (NR n / NR (2 * c))) (repeat 0%N k)) = 0).
  { clear Htot. induction k as [|k IH]; cbn [repeat map]; [reflexivity|].
    rewrite Rsum_cons, IH.
    replace (NR 0 / NR (2 * c)) with 0 by (cbn [Z.of_N]; unfold Rdiv; ring).
    rewrite plnp_0. ring. }
  cbn [map]. rewrite !Rsum_cons, Hz, H2c.
  replace (NR c / (2 * NR c)) with (/ 2) by (field; lra).
  unfold plnp. rewrite ln_Rinv by lra. pose proof ln2_pos as H2. field. lra.
Qed.

Corollary row_entropy_uniform2_lowercase (wrap : bool) (c : N) (k : nat) :
  (0 < 2 * c)%N -> (2 * c < 4294967296)%N ->
  exists e, row_entropy Rops Ropp Rlog2 wrap (c :: c :: repeat 0%N k) = Ok e /\
            n_leb Rops (n_one Rops) e = true.
Proof.
  intros Hc0 Hc1. exists 1. split; [apply row_entropy_uniform2; assumption|].
  cbn [n_leb n_one Rops]. apply R_leb_true. lra.
Qed.

