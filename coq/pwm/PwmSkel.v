(* PINNED copy of the skeletons against which PwmStat.v was written (translate/pwm_skel.py --pin). *)
From Coq Require Import List String.
Import ListNotations.
Local Open Scope string_scope.

Definition model_freq_tol : string := "0.01".
Definition model_consensus_op : string := ">=".
Definition model_consensus_threshold : string := "1.0".
Definition model_entropy_guard : string := "p>0.0".
Definition model_norm_sqrt : nat := 1.
Definition model_pow_base : string := "2f32".

Definition model_skel_num_rows : list string := [
    "self.matrix().rows()"
  ].

Definition model_skel_dot : list string := [
    "self.data[i].iter().zip(&other.data[j]).map(|(&x,&y)|(xasf32)*(yasf32)).sum()"
  ].

Definition model_skel_norm : list string := [
    "self.dot(self,i,i).sqrt()"
  ].

Definition model_skel_auto_correlation : list string := [
    "ifdelay>=self.num_rows(){";
    "return0.0;";
    "}";
    "letnorms=(0..self.num_rows()).map(|i|self.norm(i)).collect::<Vec<_>>();";
    "letmutc=0.0;";
    "for(i,j)in(delay..self.num_rows()).enumerate(){";
    "letdot=self.dot(self,i,j);";
    "c+=dot/(norms[i]*norms[j]);";
    "}";
    "c/(self.num_rows()-delay)asf32"
  ].

Definition model_skel_cross_correlation : list string := [
    "letrows=self.num_rows().min(other.num_rows());";
    "letmutc=0.0;";
    "foriin0..rows{";
    "letdot=self.dot(other,i,i);";
    "c+=dot/(self.norm(i)*other.norm(i));";
    "}";
    "c/(rowsasf32)"
  ].

Definition model_skel_count_new : list string := [
    "ifdata.rows()==0{";
    "returnOk(Self::new_unchecked(data,0));";
    "}";
    "letn=data.iter().map(|row|row.iter().map(|i|*iasusize).sum()).max().unwrap();";
    "Ok(Self::new_unchecked(data,n))"
  ].

Definition model_skel_row_entropy : list string := [
    "letsum=row.iter().sum::<u32>();";
    "-row.iter().map(|&n|nasf32/sumasf32).map(|p|ifp>0.0{";
    "p*p.log2()}";
    "else{";
    "0.0}";
    ").sum::<f32>()"
  ].

Definition model_skel_entropy : list string := [
    "self.matrix().iter().map(|row|Self::row_entropy(row)).collect()"
  ].

Definition model_skel_consensus : list string := [
    "letmutconsensus=String::with_capacity(self.matrix().rows());";
    "self.matrix().iter().for_each(|row|{";
    "letentropy=Self::row_entropy(row);";
    "letsymbol=row.iter().zip(A::symbols()).max_by_key(|(count,_)|**count).unwrap().1;";
    "ifentropy>=1.0{";
    "consensus.push(symbol.as_char().to_ascii_lowercase());";
    "}";
    "else{";
    "consensus.push(symbol.as_char().to_ascii_uppercase());";
    "}";
    "}";
    ");";
    "consensus"
  ].

Definition model_skel_weight_ic : list string := [
    "self.matrix().iter().map(|row|{";
    "row.iter().zip(self.background.frequencies()).map(|(x,b)|if*b==0.0{";
    "0.0}";
    "else{";
    "x*(x/b).log2()}";
    ").sum::<f32>()}";
    ").sum()"
  ].

Definition model_skel_scoring_ic : list string := [
    "self.matrix().iter().map(|row|{";
    "row.iter().zip(self.background.frequencies()).map(|(x,b)|{";
    "if*b==0.0||*x==f32::NEG_INFINITY{";
    "0.0}";
    "else{";
    "(2f32.powf(*x)*b)*x}";
    "}";
    ").sum::<f32>()}";
    ").sum()"
  ].

Definition model_skel_weight_from_scoring : list string := [
    "letbackground=pwm.background;";
    "letmutdata=pwm.data;";
    "forrowindata.iter_mut(){";
    "foriteminrow.iter_mut(){";
    "*item=2f32.powf(*item);";
    "}";
    "}";
    "WeightMatrix{";
    "background,data}"
  ].

Definition model_skeletons : list (list string) := [model_skel_num_rows; model_skel_dot; model_skel_norm; model_skel_auto_correlation; model_skel_cross_correlation; model_skel_count_new; model_skel_row_entropy; model_skel_entropy; model_skel_consensus; model_skel_weight_ic; model_skel_scoring_ic; model_skel_weight_from_scoring].
Definition model_params : list string := [model_freq_tol; model_consensus_op; model_consensus_threshold; model_entropy_guard; model_pow_base].

