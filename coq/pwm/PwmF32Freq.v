(* "Every frequency row sums to one", in binary32: the real sum of the computed cells of
   to_freq_row differs from 1 by at most E n (n = row length), of order n * 2^-24. *)
From Coq Require Import ZArith Reals List Bool Lia Lra Psatz.
From Coq Require Import SpecFloat.
From Flocq Require Import Core BinarySingleNaN Relative Plus_error.
From LMBase Require Import Res ListX IEEE.
From LMPwm Require Import GenComplement PwmModel PwmCheck PwmF32Rescale.
Import ListNotations.

Local Open Scope R_scope.

Definition Rsum (l : list R) : R := fold_right Rplus 0 l.

(* the bound *)
Definition E (n : nat) : R := / (1 - u32) ^ n - 1 + INR n * eta32.

(* ---------- addition ---------- *)

Lemma add_fin_inv (a b : F32.t) : fin (F32.add a b) = true -> fin a = true /\ fin b = true.
Proof.
  destruct a as [sa|sa| |sa ma ea Ha]; destruct b as [sb|sb| |sb mb eb Hb];
    try (intros _; split; reflexivity);
    try (unfold F32.add, fadd; cbn [Bplus]; try destruct (Bool.eqb sa sb); cbn; discriminate).
Qed.

Lemma add_finite_R (a b : F32.t) :
  fin (F32.add a b) = true ->
  fin a = true /\ fin b = true /\ B2R (F32.add a b) = rnd32 (B2R a + B2R b).
Proof.
  intros Hfin. destruct (add_fin_inv a b Hfin) as [Ha Hb].
  split; [exact Ha|]. split; [exact Hb|].
  pose proof (Bplus_correct 24 128 _ _ mode_NE a b Ha Hb) as H.
  change (Bplus mode_NE a b) with (F32.add a b) in H.
  destruct (Rlt_bool (Rabs (rnd32 (B2R a + B2R b))) (bpow radix2 128)).
  - destruct H as [HR _]. exact HR.
  - destruct H as [H _]. apply B2SF_inf_not_finite in H. rewrite H in Hfin. discriminate.
Qed.

Lemma u_ro_u32 : u_ro radix2 24 = u32.
Proof.
  unfold u_ro, u32.
  assert (H2 : / 2 = bpow radix2 (-1)) by (simpl; lra).
  rewrite H2, <- bpow_plus. reflexivity.
Qed.

(* no underflow error in an addition *)
Lemma add_rel_err (a b : F32.t) :
  fin (F32.add a b) = true ->
  exists d, Rabs d <= u32 /\ B2R (F32.add a b) = (B2R a + B2R b) * (1 + d).
Proof.
  intros Hfin. destruct (add_finite_R a b Hfin) as (Ha & Hb & HR).
  pose proof (generic_format_B2R 24 128 a) as Fa.
  pose proof (generic_format_B2R 24 128 b) as Fb.
  destruct (FLT_plus_error_N_ex radix2 (-149) 24 (fun x => negb (Z.even x)) (B2R a) (B2R b) Fa Fb)
    as (d & Hd & Hr).
  exists d. split.
  - eapply Rle_trans; [exact Hd|]. rewrite <- u_ro_u32. apply u_rod1pu_ro_le_u_ro.
  - rewrite HR. exact Hr.
Qed.

Lemma fold_add_fin (l : list F32.t) (acc : F32.t) :
  fin (fold_left F32.add l acc) = true -> fin acc = true.
Proof.
  revert acc. induction l as [|x r IH]; intros acc H; [exact H|].
  cbn [fold_left] in H. apply IH in H. apply add_fin_inv in H. tauto.
Qed.

(* ---------- real lemmas ---------- *)

Lemma u32_lt_1 : u32 < 1.
Proof. rewrite u32_val. lra. Qed.

Lemma Rsum_nonneg (l : list R) : Forall (fun x => 0 <= x) l -> 0 <= Rsum l.
Proof.
  induction 1 as [|x r Hx _ IH]; cbn [Rsum fold_right]; [lra|]. fold (Rsum r). lra.
Qed.

Lemma step_bounds (t x r d u : R) :
  0 <= t -> 0 <= r -> 0 <= u -> Rabs d <= u ->
  x = t * (1 + d) ->
  (t + r) * (1 - u) <= x + r <= (t + r) * (1 + u).
Proof.
  intros Ht Hr Hu Hd Hx. apply Rabs_le_inv in Hd. subst x.
  assert (0 <= t * (d + u)) by (apply Rmult_le_pos; lra).
  assert (0 <= t * (u - d)) by (apply Rmult_le_pos; lra).
  assert (0 <= r * u) by (apply Rmult_le_pos; lra).
  split; lra.
Qed.

(* ---------- summation ---------- *)

Definition okcell (x : F32.t) : Prop := fin x = true /\ 0 <= B2R x.

Lemma fold_add_bounds (cells : list F32.t) : forall acc : F32.t,
  Forall okcell cells -> 0 <= B2R acc ->
  fin (fold_left F32.add cells acc) = true ->
  let S := B2R acc + Rsum (map B2R cells) in
  let n := length cells in
  S * (1 - u32) ^ n <= B2R (fold_left F32.add cells acc) <= S * (1 + u32) ^ n.
Proof.
  pose proof u32_pos as Hu. pose proof u32_lt_1 as Hu1.
  induction cells as [|x r IH]; intros acc Hc Hacc Hfin; cbn zeta.
  - cbn [fold_left map Rsum fold_right length pow]. lra.
  - cbn [fold_left map length] in *.
    inversion Hc as [|x' r' [Fx Hx] Hr]; subst x' r'.
    pose proof (fold_add_fin _ _ Hfin) as Fa.
    destruct (add_rel_err acc x Fa) as (d & Hd & HR).
    set (acc' := F32.add acc x) in *.
    assert (Hr0 : 0 <= Rsum (map B2R r)).
    { apply Rsum_nonneg. apply Forall_map. eapply Forall_impl; [|exact Hr]. intros y [_ Hy]. exact Hy. }
    assert (Ht : 0 <= B2R acc + B2R x) by lra.
    destruct (step_bounds _ _ _ _ _ Ht Hr0 (Rlt_le _ _ Hu) Hd HR) as [L U].
    assert (Hacc' : 0 <= B2R acc').
    { rewrite HR. apply Rmult_le_pos; [exact Ht|]. apply Rabs_le_inv in Hd. lra. }
    specialize (IH acc' Hr Hacc' Hfin). cbn zeta in IH. destruct IH as [IL IU].
    change (Rsum (B2R x :: map B2R r)) with (B2R x + Rsum (map B2R r)).
    set (Sr := Rsum (map B2R r)) in *.
    assert (P1 : 0 <= (1 - u32) ^ length r) by (apply pow_le; lra).
    assert (P2 : 0 <= (1 + u32) ^ length r) by (apply pow_le; lra).
    split.
    + eapply Rle_trans; [|exact IL].
      replace ((B2R acc + (B2R x + Sr)) * (1 - u32) ^ S (length r))
        with (((B2R acc + B2R x + Sr) * (1 - u32)) * (1 - u32) ^ length r) by (simpl; ring).
      apply Rmult_le_compat_r; [exact P1|exact L].
    + eapply Rle_trans; [exact IU|].
      replace ((B2R acc + (B2R x + Sr)) * (1 + u32) ^ S (length r))
        with (((B2R acc + B2R x + Sr) * (1 + u32)) * (1 + u32) ^ length r) by (simpl; ring).
      apply Rmult_le_compat_r; [exact P2|exact U].
Qed.

(* the first addition, -0.0 + x, is exact *)
Lemma add_nzero_exact (x : F32.t) :
  fin (F32.add F32.nzero x) = true -> B2R (F32.add F32.nzero x) = B2R x.
Proof.
  intros Hfin. destruct (add_finite_R _ _ Hfin) as (_ & _ & HR).
  rewrite HR. change (B2R F32.nzero) with 0. rewrite Rplus_0_l.
  apply round_generic; [apply valid_rnd_N|]. apply (generic_format_B2R 24 128 x).
Qed.

(* ---------- division ---------- *)

Lemma div_cells_bounds (s : F32.t) (cells : list F32.t) :
  0 < B2R s ->
  Forall (fun x => 0 <= B2R x) cells ->
  Forall (fun x => fin (F32.div x s) = true) cells ->
  let S := Rsum (map B2R cells) in
  let T := Rsum (map (fun x => B2R (F32.div x s)) cells) in
  let n := length cells in
  S / B2R s * (1 - u32) - INR n * eta32 <= T <= S / B2R s * (1 + u32) + INR n * eta32.
Proof.
  intros Hs Hc Hf. cbn zeta. pose proof u32_pos as Hu.
  induction cells as [|x r IH].
  - cbn [map Rsum fold_right length INR]. unfold Rdiv. split; lra.
  - inversion Hc as [|x' r' Hx Hr]; subst x' r'.
    inversion Hf as [|x' r' Fx Fr]; subst x' r'.
    specialize (IH Hr Fr). destruct IH as [IL IU].
    cbn [map length].
    change (Rsum (B2R x :: map B2R r)) with (B2R x + Rsum (map B2R r)).
    change (Rsum (B2R (F32.div x s) :: map (fun x0 => B2R (F32.div x0 s)) r))
      with (B2R (F32.div x s) + Rsum (map (fun x0 => B2R (F32.div x0 s)) r)).
    set (Sr := Rsum (map B2R r)) in *.
    set (Tr := Rsum (map (fun x0 => B2R (F32.div x0 s)) r)) in *.
    rewrite S_INR.
    rewrite (div_finite_R x s Hs Fx).
    destruct (rnd32_err (B2R x / B2R s)) as (d & e & Hd & He & Hre). rewrite Hre.
    apply Rabs_le_inv in Hd. apply Rabs_le_inv in He.
    assert (Hq : 0 <= B2R x / B2R s).
    { unfold Rdiv. apply Rmult_le_pos; [exact Hx|]. left. apply Rinv_0_lt_compat. exact Hs. }
    set (q := B2R x / B2R s) in *.
    replace ((B2R x + Sr) / B2R s) with (q + Sr / B2R s) by (unfold q; field; lra).
    assert (0 <= q * (d + u32)) by (apply Rmult_le_pos; lra).
    assert (0 <= q * (u32 - d)) by (apply Rmult_le_pos; lra).
    split; lra.
Qed.

(* ---------- combination ---------- *)

Lemma pow_1mu_pos (n : nat) : 0 < (1 - u32) ^ n.
Proof. apply pow_lt. pose proof u32_lt_1. lra. Qed.

Lemma pow_prod_le_1 (n : nat) : (1 - u32) ^ n * (1 + u32) ^ n <= 1.
Proof.
  pose proof u32_pos. pose proof u32_lt_1.
  rewrite <- Rpow_mult_distr.
  replace ((1 - u32) * (1 + u32)) with (1 - u32 * u32) by ring.
  assert (0 <= u32 * u32) by (apply Rmult_le_pos; lra).
  assert (u32 * u32 <= 1 * 1) by (apply Rmult_le_compat; lra).
  assert (Hq : (1 - u32 * u32) ^ n <= 1 ^ n) by (apply pow_incr; lra).
  rewrite pow1 in Hq. exact Hq.
Qed.

Lemma inv_sym_bound (t : R) : 0 < t -> 1 - t <= / t - 1.
Proof.
  intros Ht.
  apply (Rmult_le_reg_r t); [exact Ht|].
  replace ((/ t - 1) * t) with (1 - t) by (field; lra).
  pose proof (Rle_0_sqr (1 - t)) as Hq. unfold Rsqr in Hq. lra.
Qed.

Lemma combine_real (S s T p1 p2 u N : R) :
  0 < s -> 0 <= S -> 0 < u < 1 -> 0 <= N ->
  0 < p1 -> 0 < p2 -> p1 * p2 <= 1 ->
  S * p1 <= s <= S * p2 ->
  S / s * (1 - u) - N <= T <= S / s * (1 + u) + N ->
  Rabs (T - 1) <= / (p1 * (1 - u)) - 1 + N.
Proof.
  intros Hs HS [Hu Hu1] HN Hp1 Hp2 Hp [HL HU] [TL TU].
  assert (His : 0 < / s) by (apply Rinv_0_lt_compat; exact Hs).
  (* S/s <= / p1 *)
  assert (Q1 : S / s <= / p1).
  { apply (Rmult_le_reg_r (p1 * s)); [apply Rmult_lt_0_compat; assumption|].
    replace (S / s * (p1 * s)) with (S * p1) by (field; lra).
    replace (/ p1 * (p1 * s)) with s by (field; lra). exact HL. }
  (* p1 <= / p2 <= S/s *)
  assert (Q2 : / p2 <= S / s).
  { apply (Rmult_le_reg_r (p2 * s)); [apply Rmult_lt_0_compat; assumption|].
    replace (S / s * (p2 * s)) with (S * p2) by (field; lra).
    replace (/ p2 * (p2 * s)) with s by (field; lra). exact HU. }
  assert (Q3 : p1 <= / p2).
  { apply (Rmult_le_reg_r p2); [exact Hp2|].
    replace (/ p2 * p2) with 1 by (field; lra). exact Hp. }
  set (q := S / s) in *.
  set (t := p1 * (1 - u)).
  assert (Ht : 0 < t) by (apply Rmult_lt_0_compat; lra).
  assert (Hit : / t = / p1 * / (1 - u)) by (unfold t; field; lra).
  assert (Hiu : 1 + u <= / (1 - u)).
  { apply (Rmult_le_reg_r (1 - u)); [lra|].
    replace (/ (1 - u) * (1 - u)) with 1 by (field; lra). nra. }
  assert (Hip1 : 0 < / p1) by (apply Rinv_0_lt_compat; exact Hp1).
  assert (U1 : q * (1 + u) <= / t).
  { rewrite Hit. apply Rmult_le_compat; lra. }
  assert (L1 : t <= q * (1 - u)).
  { unfold t. apply Rmult_le_compat_r; lra. }
  pose proof (inv_sym_bound t Ht) as Hsym.
  apply Rabs_le. split; lra.
Qed.

Theorem freq_cells_sum_f32 (cells : list F32.t) :
  Forall (fun x => fin x = true /\ 0 <= B2R x) cells ->
  let s := fold_left F32.add cells F32.nzero in
  fin s = true -> 0 < B2R s ->
  Forall (fun x => fin (F32.div x s) = true) cells ->
  Rabs (Rsum (map (fun x => B2R (F32.div x s)) cells) - 1) <= E (length cells).
Proof.
  intros Hc s Fs Hs Hf.
  pose proof u32_pos as Hu. pose proof u32_lt_1 as Hu1.
  destruct cells as [|x r].
  { exfalso. cbn in Hs. lra. }
  assert (Hc0 : Forall (fun x => 0 <= B2R x) (x :: r)).
  { eapply Forall_impl; [|exact Hc]. intros y [_ Hy]. exact Hy. }
  pose proof (div_cells_bounds s (x :: r) Hs Hc0 Hf) as HT. cbn zeta in HT.
  inversion Hc as [|x' r' [Fx Hx] Hr]; subst x' r'.
  unfold s in Fs. cbn [fold_left] in Fs.
  pose proof (fold_add_fin _ _ Fs) as F1.
  pose proof (add_nzero_exact x F1) as E1.
  assert (H1 : 0 <= B2R (F32.add F32.nzero x)) by (rewrite E1; exact Hx).
  pose proof (fold_add_bounds r _ Hr H1 Fs) as HB. cbn zeta in HB.
  rewrite E1 in HB.
  change (fold_left F32.add r (F32.add F32.nzero x)) with s in HB.
  change (B2R x + Rsum (map B2R r)) with (Rsum (map B2R (x :: r))) in HB.
  set (S := Rsum (map B2R (x :: r))) in *.
  set (T := Rsum (map (fun x0 => B2R (F32.div x0 s)) (x :: r))) in *.
  assert (HS : 0 <= S).
  { unfold S. apply Rsum_nonneg. apply Forall_map. exact Hc0. }
  unfold E. cbn [length] in *.
  replace ((1 - u32) ^ Datatypes.S (length r)) with ((1 - u32) ^ length r * (1 - u32)) by (simpl; ring).
  apply (combine_real S (B2R s) T ((1 - u32) ^ length r) ((1 + u32) ^ length r) u32
           (INR (Datatypes.S (length r)) * eta32)).
  - exact Hs.
  - exact HS.
  - lra.
  - apply Rmult_le_pos; [apply pos_INR|]. left. apply eta32_pos.
  - apply pow_1mu_pos.
  - apply pow_lt. lra.
  - apply pow_prod_le_1.
  - exact HB.
  - exact HT.
Qed.

(* ---------- Corollary 2: the model function ---------- *)

Theorem to_freq_row_sum_f32 (pseudo : list F32.t) (row : list N) :
  let dst := map2 (fun x p => F32.add (F32.of_Z (Z.of_N x)) p) row pseudo in
  let s := fsum F32ops dst in
  Forall (fun x => fin x = true /\ 0 <= B2R x) dst -> fin s = true -> 0 < B2R s ->
  Forall (fun x => fin x = true) (to_freq_row F32ops pseudo row) ->
  Rabs (Rsum (map B2R (to_freq_row F32ops pseudo row)) - 1) <= E (length dst).
Proof.
  intros dst s Hc Fs Hs Hf.
  change (to_freq_row F32ops pseudo row) with (map (fun x => F32.div x s) dst) in *.
  rewrite map_map.
  apply (freq_cells_sum_f32 dst Hc Fs Hs).
  apply Forall_map in Hf. exact Hf.
Qed.

(* ---------- Corollary 1: numeric bound for the alphabets in use ---------- *)

Lemma E_mono (n m : nat) : (n <= m)%nat -> E n <= E m.
Proof.
  intros Hnm. unfold E.
  pose proof u32_pos as Hu. pose proof u32_lt_1 as Hu1. pose proof eta32_pos as He.
  assert (Hp : (1 - u32) ^ m <= (1 - u32) ^ n).
  { replace m with (n + (m - n))%nat by lia. rewrite pow_add.
    rewrite <- (Rmult_1_r ((1 - u32) ^ n)) at 2.
    apply Rmult_le_compat_l; [left; apply pow_1mu_pos|].
    assert (Hq : (1 - u32) ^ (m - n) <= 1 ^ (m - n)) by (apply pow_incr; lra).
    rewrite pow1 in Hq. exact Hq. }
  assert (Hi : / (1 - u32) ^ n <= / (1 - u32) ^ m).
  { apply Rinv_le_contravar; [apply pow_1mu_pos|exact Hp]. }
  assert (Hn : INR n * eta32 <= INR m * eta32).
  { apply Rmult_le_compat_r; [lra|]. apply le_INR. exact Hnm. }
  lra.
Qed.

Lemma bpow_m19_val : bpow radix2 (-19) = / 524288.
Proof. cbn [bpow radix_val radix2]. let v := eval vm_compute in (Z.pow_pos 2 19) in change (Z.pow_pos 2 19) with v. reflexivity. Qed.

Lemma bernoulli_1mu (n : nat) : 1 - INR n * u32 <= (1 - u32) ^ n.
Proof.
  pose proof u32_pos as Hu. pose proof u32_lt_1 as Hu1.
  induction n as [|n IH].
  - simpl. lra.
  - rewrite S_INR. cbn [pow].
    assert (0 <= INR n) by apply pos_INR.
    assert (0 <= INR n * u32 * u32) by (repeat apply Rmult_le_pos; lra).
    assert ((1 - u32) * (1 - INR n * u32) <= (1 - u32) * (1 - u32) ^ n)
      by (apply Rmult_le_compat_l; lra).
    lra.
Qed.

Lemma E_21 : E 21 <= bpow radix2 (-19).
Proof.
  unfold E.
  pose proof (bernoulli_1mu 21) as HB.
  replace (INR 21) with 21 in * by (simpl; lra).
  assert (Hpos : 0 < 1 - 21 * u32) by (rewrite u32_val; lra).
  assert (Hi : / (1 - u32) ^ 21 <= / (1 - 21 * u32)).
  { apply Rinv_le_contravar; [exact Hpos|exact HB]. }
  eapply Rle_trans; [apply Rplus_le_compat_r, Rplus_le_compat_r, Hi|].
  rewrite bpow_m19_val, u32_val, eta32_val.
  apply (Rmult_le_reg_r (1 - 21 * / 16777216)); [lra|].
  rewrite !Rmult_plus_distr_r, Rinv_l by lra.
  lra.
Qed.

Corollary E_small (n : nat) : (n <= 21)%nat -> E n <= bpow radix2 (-19).
Proof.
  intros H. eapply Rle_trans; [apply E_mono; exact H|apply E_21].
Qed.

Corollary freq_cells_sum_f32_small (cells : list F32.t) :
  (length cells <= 21)%nat ->
  Forall (fun x => fin x = true /\ 0 <= B2R x) cells ->
  let s := fold_left F32.add cells F32.nzero in
  fin s = true -> 0 < B2R s ->
  Forall (fun x => fin (F32.div x s) = true) cells ->
  Rabs (Rsum (map (fun x => B2R (F32.div x s)) cells) - 1) <= bpow radix2 (-19).
Proof.
  intros Hn Hc s Fs Hs Hf.
  eapply Rle_trans; [apply (freq_cells_sum_f32 cells Hc Fs Hs Hf)|apply E_small; exact Hn].
Qed.

Print Assumptions freq_cells_sum_f32.
Print Assumptions to_freq_row_sum_f32.
Print Assumptions freq_cells_sum_f32_small.
