(* The binary32 model of to_freq_row is finite on the whole judged domain of
   check_freq_row2 (pseudocounts finite and >= 0, exact total in (0, 2^100]), hence the
   model passes check_freq_row2 WITHOUT any finiteness hypothesis; and 0/0 gives NaN. *)
From Coq Require Import ZArith NArith Reals List Bool Arith Lia Lra Psatz QArith Qabs Qreals.
From Coq Require Import SpecFloat.
From Flocq Require Import Core BinarySingleNaN Relative Plus_error.
From LMBase Require Import Res ListX IEEE.
From LMPwm Require Import GenComplement PwmModel PwmCheck PwmCheck2 PwmProofs PwmF32 PwmCheckSound
  PwmF32Rescale PwmF32Freq PwmF32FreqCell.
Import ListNotations.

Local Open Scope R_scope.

Local Instance vexp32' : Valid_exp fexp32 := fexp_correct 24 128 Hprec32.
Local Instance vrnd32' : Valid_rnd (round_mode mode_NE) := valid_rnd_round_mode mode_NE.

(* ---------- (1) every cell is below the computed total; the quotients are finite ---------- *)

Lemma rnd32_id (x : F32.t) : rnd32 (B2R x) = B2R x.
Proof. apply round_generic; [apply valid_rnd_N|]. apply (generic_format_B2R 24 128 x). Qed.

(* a left-to-right rounded sum of non-negative cells dominates its start value and every cell *)
Lemma fold_add_ge (cells : list F32.t) : forall acc : F32.t,
  Forall okcell cells -> 0 <= B2R acc ->
  fin (fold_left F32.add cells acc) = true ->
  B2R acc <= B2R (fold_left F32.add cells acc) /\
  Forall (fun x => B2R x <= B2R (fold_left F32.add cells acc)) cells.
Proof.
  induction cells as [|x r IH]; intros acc Hc Hacc Hfin; cbn [fold_left] in *.
  - split; [lra|constructor].
  - inversion Hc as [|x' r' [Fx Hx] Hr]; subst x' r'.
    pose proof (fold_add_fin _ _ Hfin) as Fa.
    destruct (add_finite_R acc x Fa) as (Facc & _ & HR).
    assert (G1 : B2R acc <= B2R (F32.add acc x)).
    { rewrite HR. apply Rle_trans with (rnd32 (B2R acc)); [rewrite rnd32_id; lra|].
      apply rnd32_le. lra. }
    assert (G2 : B2R x <= B2R (F32.add acc x)).
    { rewrite HR. apply Rle_trans with (rnd32 (B2R x)); [rewrite rnd32_id; lra|].
      apply rnd32_le. lra. }
    assert (H0 : 0 <= B2R (F32.add acc x)) by lra.
    destruct (IH (F32.add acc x) Hr H0 Hfin) as [I1 I2].
    split; [lra|]. constructor; [lra|exact I2].
Qed.

Lemma format_1 : generic_format radix2 fexp32 1.
Proof.
  change 1 with (bpow radix2 0). apply generic_format_bpow. unfold fexp, FLT_exp, emin. lia.
Qed.

Lemma div_fin_le (x s : F32.t) :
  fin x = true -> 0 <= B2R x <= B2R s -> 0 < B2R s -> fin (F32.div x s) = true.
Proof.
  intros Fx [Hx0 Hxs] Hs.
  assert (Hne : B2R s <> 0) by lra.
  pose proof (Bdiv_correct 24 128 _ _ mode_NE x s Hne) as H.
  change (Bdiv mode_NE x s) with (F32.div x s) in H.
  assert (Hq : Rabs (B2R x / B2R s) <= 1).
  { assert (His : 0 < / B2R s) by (apply Rinv_0_lt_compat; exact Hs).
    assert (H0 : 0 <= B2R x / B2R s) by (unfold Rdiv; apply Rmult_le_pos; lra).
    rewrite Rabs_pos_eq by exact H0.
    apply (Rmult_le_reg_r (B2R s)); [exact Hs|].
    unfold Rdiv. rewrite Rmult_assoc, Rinv_l by exact Hne. lra. }
  rewrite Rlt_bool_true in H.
  - destruct H as (_ & HF & _). rewrite HF. exact Fx.
  - apply Rle_lt_trans with 1.
    + apply abs_round_le_generic; [exact vexp32'|exact vrnd32'|exact format_1|exact Hq].
    + change 1 with (bpow radix2 0). apply bpow_lt. lia.
Qed.

Lemma to_freq_row_finite (pseudo : list F32.t) (row : list N) :
  Forall (fun c => (c < 2 ^ 32)%N) row ->
  Forall (fun p => fin p = true /\ (0 <= B2R p)%R) pseudo ->
  let dst := map2 (fun x p => F32.add (F32.of_Z (Z.of_N x)) p) row pseudo in
  let s := fsum F32ops dst in
  fin s = true -> (0 < B2R s)%R ->
  Forall (fun x => fin x = true) (to_freq_row F32ops pseudo row).
Proof.
  intros Hrow Hps dst s Fs Hs.
  change (Forall u32count row) in Hrow. change (Forall okcell pseudo) in Hps.
  change (fin (fsum F32ops (map2 cellf row pseudo)) = true) in Fs.
  pose proof (dst_ok pseudo row Hrow Hps Fs) as Hok.
  change (map2 cellf row pseudo) with dst in Hok.
  assert (H0 : 0 <= B2R F32.nzero) by (cbn; lra).
  destruct (fold_add_ge dst F32.nzero Hok H0 Fs) as [_ Hle].
  change (fold_left F32.add dst F32.nzero) with s in Hle.
  change (to_freq_row F32ops pseudo row) with (map (fun x => F32.div x s) dst).
  apply Forall_map.
  rewrite Forall_forall in *. intros x Hx.
  destruct (Hok x Hx) as [Fx Hx0]. specialize (Hle x Hx).
  apply div_fin_le; [exact Fx|lra|exact Hs].
Qed.

(* ---------- (4) 0 / 0: a row of zero counts with zero pseudocounts gives NaN ---------- *)

Definition iszero (x : F32.t) : Prop := exists b, x = B754_zero b.

Lemma feq_zero_inv (p : F32.t) : F32.eq p F32.zero = true -> iszero p.
Proof.
  destruct p as [s|[|]| |[|] m e H]; unfold F32.eq, feq, fcmp; cbn; try discriminate;
    intros _; eexists; reflexivity.
Qed.

Lemma add_zero_zero (a b : bool) : iszero (F32.add (B754_zero a) (B754_zero b)).
Proof. destruct a, b; eexists; reflexivity. Qed.

Lemma fold_add_zeros : forall (l : list F32.t) (acc : F32.t),
  Forall iszero l -> iszero acc -> iszero (fold_left F32.add l acc).
Proof.
  induction l as [|x r IH]; intros acc Hl Ha; cbn [fold_left]; [exact Ha|].
  inversion Hl as [|x' r' [b Hx] Hr]; subst x' r'. destruct Ha as [a Ha]. subst x acc.
  apply IH; [exact Hr|apply add_zero_zero].
Qed.

Lemma zero_cells : forall (row : list N) (pseudo : list F32.t),
  Forall (fun c => c = 0%N) row -> Forall iszero pseudo ->
  Forall iszero (map2 (fun x p => F32.add (F32.of_Z (Z.of_N x)) p) row pseudo).
Proof.
  induction row as [|c row IH]; intros [|p pseudo] Hr Hp; cbn [map2]; try constructor.
  - inversion Hr as [|c' r' Hc Hr']; subst c' r'. inversion Hp as [|p' r' [b Hb] Hp']; subst p' r'.
    subst c p. change (F32.of_Z (Z.of_N 0)) with (B754_zero false : F32.t). apply add_zero_zero.
  - apply IH; [exact (Forall_inv_tail Hr)|exact (Forall_inv_tail Hp)].
Qed.

Lemma to_freq_row_zero_total_nan (pseudo : list F32.t) (row : list N) :
  length pseudo = length row -> row <> [] ->
  Forall (fun c => c = 0%N) row -> Forall (fun p => F32.eq p F32.zero = true) pseudo ->
  Forall (fun x => F32.is_nan x = true) (to_freq_row F32ops pseudo row).
Proof.
  intros _ _ Hr Hp.
  assert (Hp' : Forall iszero pseudo).
  { eapply Forall_impl; [|exact Hp]. intros a Ha. apply feq_zero_inv. exact Ha. }
  pose proof (zero_cells row pseudo Hr Hp') as Hc.
  set (dst := map2 (fun x p => F32.add (F32.of_Z (Z.of_N x)) p) row pseudo) in *.
  assert (Hs : iszero (fsum F32ops dst)).
  { apply fold_add_zeros; [exact Hc|exists true; reflexivity]. }
  change (to_freq_row F32ops pseudo row) with (map (fun x => F32.div x (fsum F32ops dst)) dst).
  apply Forall_map. destruct Hs as [b Hs]. rewrite Hs.
  eapply Forall_impl; [|exact Hc]. intros a [c Ha]. subst a. reflexivity.
Qed.

(* ---------- (2) an exact total <= 2^100 gives a finite binary32 total ---------- *)

Lemma format_bpow127 : generic_format radix2 fexp32 (bpow radix2 127).
Proof. apply generic_format_bpow. unfold fexp, FLT_exp, emin. lia. Qed.

(* a rounded sum of two finite numbers whose exact sum is at most 2^127 in magnitude is finite *)
Lemma add_fin_of_bound (a b : F32.t) :
  fin a = true -> fin b = true -> Rabs (B2R a + B2R b) <= bpow radix2 127 ->
  fin (F32.add a b) = true.
Proof.
  intros Fa Fb Hb.
  pose proof (Bplus_correct 24 128 _ _ mode_NE a b Fa Fb) as H.
  change (Bplus mode_NE a b) with (F32.add a b) in H.
  rewrite Rlt_bool_true in H.
  - destruct H as (_ & HF & _). exact HF.
  - apply Rle_lt_trans with (bpow radix2 127).
    + apply abs_round_le_generic; [exact vexp32'|exact vrnd32'|exact format_bpow127|exact Hb].
    + apply bpow_lt. lia.
Qed.

Lemma cellX_nonneg (c : N) (p : F32.t) : 0 <= B2R p -> 0 <= cellX c p.
Proof. intros Hp. unfold cellX. pose proof (cnt_nonneg c). lra. Qed.

Lemma Rsum_cellX_nonneg : forall (row : list N) (pseudo : list F32.t),
  Forall okcell pseudo -> 0 <= Rsum (map2 cellX row pseudo).
Proof.
  induction row as [|c row IH]; intros [|p pseudo] Hp; cbn [map2 Rsum fold_right]; try lra.
  inversion Hp as [|p' r' [_ Hp1] Hp2]; subst p' r'.
  fold (Rsum (map2 cellX row pseudo)).
  pose proof (IH pseudo Hp2). pose proof (cellX_nonneg c p Hp1). lra.
Qed.

(* real arithmetic of one step: B = 1 + u32 *)
Lemma step_real (A X R B P M : R) :
  0 <= A -> 0 <= X -> 0 <= R -> 1 <= B -> 1 <= P ->
  (A + (X + R)) * (B ^ 3 * P) <= M ->
  X * B <= M /\ (A + X) * B ^ 2 <= M /\ ((A + X) * B ^ 3 + R) * P <= M.
Proof.
  intros HA HX HR HB HP HM.
  assert (B1 : 1 <= B ^ 2) by nra.
  assert (B2 : B ^ 2 <= B ^ 3) by nra.
  assert (B3 : 1 <= B ^ 3) by lra.
  assert (S0 : 0 <= A + X) by lra.
  assert (E1 : (A + X) * B ^ 3 + R <= (A + (X + R)) * B ^ 3) by nra.
  assert (E2 : ((A + X) * B ^ 3 + R) * P <= (A + (X + R)) * B ^ 3 * P).
  { apply Rmult_le_compat_r; lra. }
  assert (E3 : (A + X) * B ^ 3 <= ((A + X) * B ^ 3 + R) * P).
  { assert (0 <= (A + X) * B ^ 3) by (apply Rmult_le_pos; lra). nra. }
  assert (E4 : (A + X) * B ^ 2 <= (A + X) * B ^ 3) by (apply Rmult_le_compat_l; lra).
  assert (E5 : X * B <= (A + X) * B ^ 2) by nra.
  rewrite <- Rmult_assoc in HM.
  repeat split; lra.
Qed.

Lemma fold_cells_fin : forall (row : list N) (pseudo : list F32.t) (acc : F32.t) (A : R),
  Forall u32count row -> Forall okcell pseudo ->
  fin acc = true -> 0 <= B2R acc <= A ->
  (A + Rsum (map2 cellX row pseudo)) * (1 + u32) ^ (3 * length row) <= bpow radix2 127 ->
  fin (fold_left F32.add (map2 cellf row pseudo) acc) = true.
Proof.
  pose proof u32_pos as Hu. pose proof u32_lt_1 as Hu1.
  induction row as [|c row IH]; intros [|p pseudo] acc A Hc Hp Fa [Ha0 HaA] HM;
    cbn [map2 fold_left]; try exact Fa.
  inversion Hc as [|c' r' Hc1 Hc2]; subst c' r'.
  inversion Hp as [|p' r' [Fp Hp1] Hp2]; subst p' r'.
  cbn [map2 Rsum fold_right length] in HM. fold (Rsum (map2 cellX row pseudo)) in HM.
  replace (3 * S (length row))%nat with (3 + 3 * length row)%nat in HM by lia.
  rewrite pow_add in HM.
  set (B := 1 + u32) in *. set (Rr := Rsum (map2 cellX row pseudo)) in *.
  set (X := cellX c p) in *.
  assert (HX : 0 <= X) by (apply cellX_nonneg; exact Hp1).
  assert (HR : 0 <= Rr) by (apply Rsum_cellX_nonneg; exact Hp2).
  assert (HB : 1 <= B) by (unfold B; lra).
  assert (HP : 1 <= B ^ (3 * length row)) by (apply pow_R1_Rle; exact HB).
  destruct (step_real A X Rr B _ _ ltac:(lra) HX HR HB HP HM) as (S1 & S2 & S3).
  (* the cell is finite *)
  destruct (of_Z_count c Hc1) as (Fz & d & Hd & Hz).
  assert (Fcell : fin (cellf c p) = true).
  { unfold cellf. apply add_fin_of_bound; [exact Fz|exact Fp|].
    apply Rabs_le_inv in Hd. pose proof (cnt_nonneg c) as Hcn.
    assert (Hz0 : 0 <= B2R (F32.of_Z (Z.of_N c))) by (rewrite Hz; apply Rmult_le_pos; lra).
    rewrite Rabs_pos_eq by lra.
    eapply Rle_trans; [|exact S1]. rewrite Hz. unfold X, cellX, B.
    assert (cnt c * (1 + d) <= cnt c * (1 + u32)) by (apply Rmult_le_compat_l; lra).
    assert (B2R p * 1 <= B2R p * (1 + u32)) by (apply Rmult_le_compat_l; lra).
    lra. }
  destruct (cell_bounds c p Hc1 Hp1 Fcell) as [_ CU]. fold X in CU. fold B in CU.
  pose proof (cell_nonneg c p Hc1 Hp1 Fcell) as C0.
  (* the new partial sum is finite *)
  assert (Hsum : B2R acc + B2R (cellf c p) <= (A + X) * B ^ 2).
  { assert (1 <= B ^ 2) by nra. assert (A * 1 <= A * B ^ 2) by (apply Rmult_le_compat_l; lra). lra. }
  assert (Facc' : fin (F32.add acc (cellf c p)) = true).
  { apply add_fin_of_bound; [exact Fa|exact Fcell|]. rewrite Rabs_pos_eq by lra. lra. }
  destruct (add_rel_err acc (cellf c p) Facc') as (d2 & Hd2 & HR2).
  apply Rabs_le_inv in Hd2.
  apply (IH pseudo (F32.add acc (cellf c p)) ((A + X) * B ^ 3) Hc2 Hp2 Facc').
  - rewrite HR2. split.
    + apply Rmult_le_pos; lra.
    + replace ((A + X) * B ^ 3) with ((A + X) * B ^ 2 * B) by ring.
      assert (HBe : B = 1 + u32) by reflexivity.
      apply Rmult_le_compat; lra.
  - fold Rr. fold B. exact S3.
Qed.

Lemma pow_1pu_63 (n : nat) : (n <= 63)%nat -> (1 + u32) ^ n <= 2.
Proof.
  intros Hn. pose proof u32_pos as Hu. pose proof u32_lt_1 as Hu1.
  apply Rle_trans with ((1 + u32) ^ 63); [apply Rle_pow; [lra|exact Hn]|].
  pose proof (pow_prod_le_1 63) as HP. pose proof (bernoulli_1mu 63) as HB.
  replace (INR 63) with 63 in HB by (simpl; lra).
  assert (Hh : / 2 <= (1 - u32) ^ 63) by (rewrite u32_val in *; lra).
  assert (H0 : 0 <= (1 + u32) ^ 63) by (apply pow_le; lra).
  assert (/ 2 * (1 + u32) ^ 63 <= (1 - u32) ^ 63 * (1 + u32) ^ 63)
    by (apply Rmult_le_compat_r; assumption).
  lra.
Qed.

Lemma fsum_finite_of_total (pseudo : list F32.t) (row : list N) :
  (length row <= 21)%nat -> Forall u32count row -> Forall okcell pseudo ->
  (Rsum (map2 cellX row pseudo) <= bpow radix2 100)%R ->
  fin (fsum F32ops (map2 cellf row pseudo)) = true.
Proof.
  intros Hn Hc Hp HT.
  change (fsum F32ops (map2 cellf row pseudo)) with (fold_left F32.add (map2 cellf row pseudo) F32.nzero).
  apply (fold_cells_fin row pseudo F32.nzero 0 Hc Hp eq_refl).
  - change (B2R F32.nzero) with 0. lra.
  - rewrite Rplus_0_l.
    pose proof (Rsum_cellX_nonneg row pseudo Hp) as H0.
    pose proof (pow_1pu_63 (3 * length row) ltac:(lia)) as HP.
    assert (H1 : 0 <= (1 + u32) ^ (3 * length row)) by (apply pow_le; pose proof u32_pos; lra).
    apply Rle_trans with (bpow radix2 100 * 2).
    + apply Rmult_le_compat; assumption.
    + change 2 with (bpow radix2 1). rewrite <- bpow_plus. apply bpow_le. lia.
Qed.

(* ---------- (3) the model passes check_freq_row2, unconditionally ---------- *)

Lemma all_some_f32_inv : forall (l : list F32.t) (p : list Q),
  all_some (map f32_to_Q l) = Some p ->
  Forall (fun x => fin x = true) l /\ map Q2R p = map B2R l.
Proof.
  induction l as [|x r IH]; intros p H; cbn [map all_some] in H.
  - inversion H. split; [constructor|reflexivity].
  - destruct (f32_to_Q x) as [q|] eqn:Ex; [|discriminate].
    destruct (all_some (map f32_to_Q r)) as [r'|] eqn:Er; [|discriminate].
    inversion H; subst p. destruct (IH r' eq_refl) as [I1 I2].
    apply f32_to_Q_B2R in Ex. destruct Ex as [E1 E2].
    split; [constructor; assumption|]. cbn [map]. rewrite E1, I2. reflexivity.
Qed.

Lemma nonneg_transfer : forall (p : list Q) (l : list F32.t),
  map Q2R p = map B2R l -> forallb (fun x => Qleb 0 x) p = true ->
  Forall (fun x => 0 <= B2R x) l.
Proof.
  induction p as [|q p IH]; intros [|x l] H Hb; cbn [map forallb] in *; try discriminate;
    constructor.
  - injection H as H1 H2. apply andb_true_iff in Hb. destruct Hb as [Hb _].
    unfold Qleb in Hb. apply Qle_bool_iff in Hb. apply Qle_Rle in Hb.
    rewrite Q2R_0' in Hb. rewrite <- H1. exact Hb.
  - injection H as H1 H2. apply andb_true_iff in Hb. destruct Hb as [_ Hb].
    apply IH; assumption.
Qed.

(* what "judged" (skip reason 0) says of the input *)
Lemma freq_row_judged (pseudo : list F32.t) (row : list N) :
  freq_row_skipped pseudo row = false ->
  exists p, all_some (map f32_to_Q pseudo) = Some p /\
    forallb (fun x => Qleb 0 x) p = true /\
    Qeq_bool (Qsum (freq_num_Q p row)) 0 = false /\
    Qleb (Qsum (freq_num_Q p row)) (Z.pow 2 100 # 1) = true /\
    Forall okcell pseudo /\
    Q2R (Qsum (freq_num_Q p row)) = Rsum (map2 cellX row pseudo).
Proof.
  intros Esk. unfold freq_row_skipped in Esk.
  apply negb_false_iff, Nat.eqb_eq in Esk. unfold freq_row_skip_reason in Esk.
  destruct (all_some (map f32_to_Q pseudo)) as [p|] eqn:Ep; [|discriminate].
  destruct (forallb (fun x => Qleb 0 x) p) eqn:Enn; cbn [negb] in Esk; [|discriminate].
  cbv zeta in Esk.
  destruct (Qeq_bool (Qsum (freq_num_Q p row)) 0) eqn:Ez; [discriminate|].
  destruct (Qleb (Qsum (freq_num_Q p row)) (Z.pow 2 100 # 1)) eqn:El; cbn [negb] in Esk; [|discriminate].
  exists p. split; [reflexivity|]. split; [exact Enn|]. split; [exact Ez|]. split; [exact El|].
  destruct (all_some_f32_inv pseudo p Ep) as [Hf Rp].
  pose proof (nonneg_transfer p pseudo Rp Enn) as Hnn.
  split.
  - apply Forall_forall. intros x Hx. rewrite Forall_forall in Hf, Hnn.
    split; [apply Hf|apply Hnn]; exact Hx.
  - rewrite Q2R_Qsum. unfold freq_num_Q. rewrite (Q2R_num row p pseudo Rp). reflexivity.
Qed.

(* on a judged row the binary32 total is finite and positive and every quotient is finite *)
Lemma judged_row_finite (pseudo : list F32.t) (row : list N) :
  (length row <= 21)%nat -> Forall (fun c => (c < 2 ^ 32)%N) row ->
  freq_row_skipped pseudo row = false ->
  Forall okcell pseudo /\
  fin (fsum F32ops (map2 cellf row pseudo)) = true /\
  0 < B2R (fsum F32ops (map2 cellf row pseudo)) /\
  Forall (fun x => fin x = true) (to_freq_row F32ops pseudo row).
Proof.
  intros Hn Hrow Esk.
  destruct (freq_row_judged pseudo row Esk) as (p & Ep & Enn & Ez & El & Hps & Rtot).
  change (Forall u32count row) in Hrow.
  assert (HT : Rsum (map2 cellX row pseudo) <= bpow radix2 100).
  { rewrite <- Rtot. unfold Qleb in El. apply Qle_bool_iff in El. apply Qle_Rle in El.
    rewrite Q2R_int in El. change (bpow radix2 100) with (IZR (2 ^ 100)). exact El. }
  pose proof (fsum_finite_of_total pseudo row Hn Hrow Hps HT) as Fs.
  assert (Tne : ~ (Qsum (freq_num_Q p row) == 0)%Q).
  { intros H. apply Qeq_bool_iff in H. rewrite H in Ez. discriminate. }
  assert (Tpos : 0 < Rsum (map2 cellX row pseudo)).
  { pose proof (T_nonneg pseudo row Hrow Hps Fs) as H0.
    destruct H0 as [H0|H0]; [exact H0|]. exfalso. apply Tne. apply eqR_Qeq.
    rewrite Rtot, Q2R_0'. symmetry. exact H0. }
  assert (Hs : 0 < B2R (fsum F32ops (map2 cellf row pseudo))).
  { apply (fsum_dst_pos_iff pseudo row Hrow Hps Fs). exact Tpos. }
  split; [exact Hps|]. split; [exact Fs|]. split; [exact Hs|].
  exact (to_freq_row_finite pseudo row Hrow Hps Fs Hs).
Qed.

Theorem freq_row_model_passes_check2 (pseudo : list F32.t) (row : list N) :
  length pseudo = length row -> (length row <= 21)%nat ->
  Forall (fun c => (c < 2 ^ 32)%N) row ->
  check_freq_row2 (1 # 100000) pseudo row (to_freq_row F32ops pseudo row) = true.
Proof.
  intros Hlen Hn Hrow.
  unfold check_freq_row2.
  destruct (freq_row_skipped pseudo row) eqn:Esk; [reflexivity|].
  destruct (judged_row_finite pseudo row Hn Hrow Esk) as (Hps & Fs & Hs & Fq).
  destruct (freq_row_judged pseudo row Esk) as (p & Ep & Enn & Ez & El & _ & _).
  pose proof (freq_row_model_passes_check pseudo row Hlen Hn Hrow Hps Fs Fq) as HC.
  destruct (all_some_f32 _ Fq) as (o & Eo & _).
  unfold check_freq_row in HC. rewrite Ep, Eo in HC. rewrite Ep, Eo.
  rewrite Enn in HC. cbv zeta in HC. unfold freq_num_Q in *.
  rewrite Ez, El in HC. cbn [negb orb] in HC. exact HC.
Qed.

Print Assumptions to_freq_row_finite.
Print Assumptions to_freq_row_zero_total_nan.
Print Assumptions fsum_finite_of_total.
Print Assumptions judged_row_finite.
Print Assumptions freq_row_model_passes_check2.

(* the two binary32 frequency theorems (row sum, cell) with the finiteness of the cells derived *)
Theorem freq_f32_total (pseudo : list F32.t) (row : list N) :
  Forall (fun c => (c < 2 ^ 32)%N) row ->
  Forall (fun p => fin p = true /\ (0 <= B2R p)%R) pseudo ->
  let dst := map2 (fun x p => F32.add (F32.of_Z (Z.of_N x)) p) row pseudo in
  let s := fsum F32ops dst in
  fin s = true -> (0 < B2R s)%R ->
  let T := Rsum (map2 (fun c p => (IZR (Z.of_N c) + B2R p)%R) row pseudo) in
  (Rabs (Rsum (map B2R (to_freq_row F32ops pseudo row)) - 1) <= E (length dst))%R /\
  (0 < T)%R /\
  forall k, (k < length row)%nat -> (k < length pseudo)%nat ->
    let X := (IZR (Z.of_N (nth k row 0%N)) + B2R (nth k pseudo F32.zero))%R in
    fin (nth k (to_freq_row F32ops pseudo row) F32.zero) = true /\
    (Rabs (B2R (nth k (to_freq_row F32ops pseudo row) F32.zero) - X / T) <= G (length dst) * (X / T) + eta32)%R.
Proof.
  intros Hrow Hps dst s Fs Hs T.
  pose proof (to_freq_row_finite pseudo row Hrow Hps Fs Hs) as Fq.
  split.
  - apply (to_freq_row_sum_f32 pseudo row); [|exact Fs|exact Hs|exact Fq].
    exact (dst_ok pseudo row Hrow Hps Fs).
  - destruct (freq_cell_error_unfolded pseudo row Hrow Hps Fs Hs Fq) as [HT HC].
    split; [exact HT|]. intros k Hk1 Hk2. split; [|exact (HC k Hk1 Hk2)].
    rewrite Forall_forall in Fq. apply Fq. apply nth_In.
    change (to_freq_row F32ops pseudo row) with (map (fun x => F32.div x s) dst).
    rewrite map_length. unfold dst. rewrite map2_length'. lia.
Qed.
Print Assumptions freq_f32_total.
