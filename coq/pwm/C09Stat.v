(* Round 3 (gap 8): property theorems about the public numerics of pwm/mod.rs outside the
   count -> frequency -> weight -> score chain: Correlation (dot, norm, auto_correlation,
   cross_correlation), CountMatrix::{new, entropy, consensus}, information_content (both),
   From<ScoringMatrix> for WeightMatrix, Background::from_counts overflow.
   Statements only, closed by the lemmas of PwmStatProofs.v (integers, checkers),
   PwmStatCorr.v / PwmStatInfo.v (the functions as coded, interpreted over the real numbers
   with the true sqrt / log2 / 2^x: [Rops], [Rlog2], [Rpow2] of PwmReal.v) and PwmStatNaN.v
   (binary32: the 0/0 cases).  Audited on every run (SPEC more_props). *)
From Coq Require Import List ZArith NArith Bool Arith Reals QArith.
From LMBase Require Import Res ListX IEEE.
From LMPwm Require Import GenComplement GenPwmSkel PwmSkel PwmModel PwmCheck PwmStat PwmStatCheck PwmStatProofs
                          PwmReal PwmStatCorr PwmStatSymF32 PwmStatInfo PwmStatInfo2 PwmStatNaN.
Import ListNotations.

(* ================= the source the model was written against ================= *)

(* the statement skeletons of Correlation::{num_rows, dot, norm, auto_correlation, cross_correlation},
   CountMatrix::{new, row_entropy, entropy, consensus}, both information_content methods and
   From<ScoringMatrix> for WeightMatrix, regenerated from pwm/mod.rs on every run (GenPwmSkel.v), are the ones
   PwmStat.v was written against (PwmSkel.v); so are the literals read out of them (0.01 tolerance of
   FrequencyMatrix::new, `entropy >= 1.0`, `p > 0.0`, one `.sqrt()` in norm, base `2f32` of powf) *)
Theorem C09_source_skeleton :
  gen_skeletons = model_skeletons /\ gen_params = model_params /\ gen_norm_sqrt = model_norm_sqrt.
Proof. repeat split; reflexivity. Qed.

(* ================= consensus: the arg-max convention as coded ================= *)

(* `max_by_key` keeps the LAST of several maximal counts: position j is chosen iff it is a
   maximum and every later column is strictly smaller.  (A first-maximum implementation, or
   one that skips the wildcard column, violates this.) *)
Theorem C09_consensus_last_maximum (l : list N) (j : nat) :
  argmax_last l = Some j <->
  (j < length l
   /\ (forall k, k < length l -> (nth k l 0 <= nth j l 0)%N)
   /\ (forall k, j < k < length l -> (nth k l 0 < nth j l 0)%N))%nat.
Proof. exact (argmax_last_iff l j). Qed.

(* consequence for ties: a row of equal counts - in particular the all-zero row of a
   position nobody observed - yields the LAST symbol, which is the wildcard N / X: the k-th
   entry of A::symbols() is the symbol of column k and the default symbol is column K-1
   (constants regenerated from abc.rs on every run) *)
Theorem C09_consensus_ties_and_symbol_order :
  (forall (c : N) (n : nat), argmax_last (repeat c (S n)) = Some n)
  /\ dna_symbols = seq 0 dna_K /\ protein_symbols = seq 0 protein_K
  /\ dna_default = (dna_K - 1)%nat /\ protein_default = (protein_K - 1)%nat.
Proof. split; [exact argmax_last_repeat | repeat split; reflexivity]. Qed.

(* one row of consensus(): last maximum of the K columns, lowercase iff 1.0 <= entropy;
   the only panic is the u32 overflow of the row sum (dev profile) *)
Theorem C09_consensus_row_spec {T} (O : NumOps T) (K : nat) (fneg flog2 : T -> T) (row : list N) :
  (forall wrap j lower,
      consensus_row O K fneg flog2 wrap row = Ok (j, lower) ->
      is_last_max (firstn K row) j
      /\ exists e, row_entropy O fneg flog2 wrap row = Ok e /\ lower = n_leb O (n_one O) e)
  /\ ((0 < K)%nat -> row <> [] ->
      (consensus_row O K fneg flog2 false row = Panic 14
       <-> (4294967296 <= fold_left N.add row 0)%N)).
Proof.
  split; [intros wrap j lower; exact (consensus_row_spec O K fneg flog2 wrap row j lower)
         | exact (consensus_row_panics_iff_overflow O K fneg flog2 row)].
Qed.

(* the extracted checker: `true` means the printed symbol is a row maximum, and the model's
   own choice always passes (a PROPFAIL cannot come from the tie convention) *)
Theorem C09_check_consensus_row_sound (K : nat) (row : list N) (j : nat) :
  (check_consensus_row K row j = true ->
   (j < K /\ j < length row
    /\ forall k, k < K -> k < length row -> (nth k row 0 <= nth j row 0)%N)%nat)
  /\ (argmax_last (firstn K row) = Some j -> check_consensus_row K row j = true).
Proof. split; [exact (check_consensus_row_sound K row j) | exact (model_passes_check_consensus_row K row j)]. Qed.

(* ================= CountMatrix::new ================= *)

(* never rejects; the recorded sequence count is the largest row sum (0 for no rows), hence
   the common sum when all rows agree (the documented use) *)
Theorem C09_count_new_accepts_everything (m : cmatrix) :
  (exists n, count_new m = Ok (m, n)
             /\ (forall r, In r m -> (row_total r <= n)%N)
             /\ (m <> [] -> exists r, In r m /\ row_total r = n)
             /\ (m = [] -> n = 0%N))
  /\ (forall s, m <> [] -> Forall (fun r => row_total r = s) m -> count_new m = Ok (m, s)).
Proof. split; [exact (count_new_accepts_everything m) | intros s; exact (count_new_equal_sums m s)]. Qed.

(* "accepts iff all rows have equal sums" (the documentation) is REFUTED for the code: the
   row-sum check is commented out in CountMatrix::new *)
Theorem C09_count_new_accepts_iff_equal_sums_refuted :
  exists m : cmatrix, (exists r1 r2, In r1 m /\ In r2 m /\ row_total r1 <> row_total r2)
                      /\ count_new m = Ok (m, 8%N).
Proof. exact count_new_unequal_sums_accepted. Qed.

(* ================= Correlation ================= *)

(* no panic site of the model (row index out of bounds) is reachable from the two entry
   points, for any carrier; a delay >= rows gives 0.0 *)
Theorem C09_correlation_total {T} (O : NumOps T) (fsqrt : T -> T) {C} (conv : C -> T) :
  (forall m1 m2, exists c, cross_correlation O fsqrt conv m1 m2 = Ok c)
  /\ (forall m delay, exists c, auto_correlation O fsqrt conv m delay = Ok c)
  /\ (forall m delay, (length m <= delay)%nat -> auto_correlation O fsqrt conv m delay = Ok (n_zero O)).
Proof.
  split; [exact (cross_correlation_total O fsqrt conv)|].
  split; [exact (auto_correlation_total O fsqrt conv) | exact (auto_correlation_large_delay O fsqrt conv)].
Qed.

Section CorrelationOverR.
  Context {C : Type}.
  Variable conv : C -> R.
  Local Open Scope R_scope.

  (* Cauchy-Schwarz for the dot product as coded (zip truncates to the shorter row) *)
  Theorem C09_cauchy_schwarz (r1 r2 : list C) :
    (dotr conv r1 r2) ^ 2 <= dotr conv r1 r1 * dotr conv r2 r2.
  Proof. exact (cauchy_schwarz conv r1 r2). Qed.

  Theorem C09_cross_correlation_symmetric (m1 m2 : list (list C)) :
    cross_correlation Rops sqrt conv m1 m2 = cross_correlation Rops sqrt conv m2 m1.
  Proof. exact (cross_correlation_sym conv m1 m2). Qed.

  (* rows without a zero norm: the result lies in [-1, 1]; a matrix against itself gives 1 *)
  Theorem C09_cross_correlation_in_unit_interval (m1 m2 : list (list C)) :
    (let n := Nat.min (length m1) (length m2) in
     (0 < n)%nat ->
     Forall (nonzero_row conv) (firstn n m1) -> Forall (nonzero_row conv) (firstn n m2) ->
     exists c, cross_correlation Rops sqrt conv m1 m2 = Ok c /\ -1 <= c <= 1)
    /\ (m1 <> [] -> Forall (nonzero_row conv) m1 -> cross_correlation Rops sqrt conv m1 m1 = Ok 1).
  Proof. split; [exact (cross_correlation_bounds conv m1 m2) | exact (cross_correlation_self conv m1)]. Qed.

  (* the same for auto_correlation; on a matrix of period `delay` it is exactly 1 (the crate's
     own unit test, auto_correlation(0) = auto_correlation(4) = 1.0, as a theorem) *)
  Theorem C09_auto_correlation_in_unit_interval (m : list (list C)) (delay : nat) :
    (delay < length m)%nat -> Forall (nonzero_row conv) m ->
    (exists c, auto_correlation Rops sqrt conv m delay = Ok c /\ -1 <= c <= 1)
    /\ ((forall i, (i + delay < length m)%nat -> nth_error m (i + delay) = nth_error m i) ->
        auto_correlation Rops sqrt conv m delay = Ok 1).
  Proof.
    intros Hd Hnz. split; [exact (auto_correlation_bounds conv m delay Hd Hnz)
                          | exact (auto_correlation_periodic conv m delay Hd Hnz)].
  Qed.
End CorrelationOverR.

(* binary32, bit for bit (IEEE multiplication is commutative; one NaN): the symmetry check of
   the driver can never reject the binary32 model *)
Theorem C09_cross_correlation_symmetric_f32 {C : Type} (conv : C -> F32.t) (m1 m2 : list (list C)) :
  cross_correlation F32ops f32_sqrt conv m1 m2 = cross_correlation F32ops f32_sqrt conv m2 m1
  /\ (forall c1 c2, cross_correlation F32ops f32_sqrt conv m1 m2 = Ok c1 ->
                    cross_correlation F32ops f32_sqrt conv m2 m1 = Ok c2 -> check_corr_sym c1 c2 = true).
Proof.
  pose proof (cross_correlation_sym_f32 conv m1 m2) as H. split; [exact H|].
  intros c1 c2 H1 H2. rewrite H, H2 in H1. injection H1 as ->.
  unfold check_corr_sym, f32_same. apply Z.eqb_refl.
Qed.

(* the 0/0 cases, binary32, count matrices: no common row, or an all-zero row taking part
   in a term, make the result NaN - whatever the other cells hold *)
Theorem C09_correlation_zero_over_zero_is_nan :
  (forall m : list (list N),
      cross_correlation F32ops f32_sqrt conv_N [] m = Ok F32.nan
      /\ cross_correlation F32ops f32_sqrt conv_N m [] = Ok F32.nan)
  /\ (forall (m1 m2 : list (list N)) (i : nat) (r : list N),
         (i < Nat.min (length m1) (length m2))%nat ->
         nth_error m1 i = Some r \/ nth_error m2 i = Some r ->
         Forall (fun c => c = 0%N) r ->
         cross_correlation F32ops f32_sqrt conv_N m1 m2 = Ok F32.nan)
  /\ (forall (m : list (list N)) (delay i : nat) (r : list N),
         (delay < length m)%nat -> nth_error m i = Some r -> Forall (fun c => c = 0%N) r ->
         (i < length m - delay \/ delay <= i)%nat ->
         exists c, auto_correlation F32ops f32_sqrt conv_N m delay = Ok c /\ F32.is_nan c = true).
Proof.
  split; [exact cross_correlation_empty_nan|].
  split; [exact cross_correlation_zero_row_eq | exact auto_correlation_zero_row_nan].
Qed.

(* the two range checkers of the driver *)
Theorem C09_stat_range_checkers_sound (slack : Q) (x : F32.t) :
  (check_corr_range slack x = true ->
   F32.is_nan x = true \/ exists q, f32_to_Q x = Some q /\ (Qabs.Qabs q <= 1 + slack)%Q)
  /\ (forall K num den,
         check_entropy_range K num den slack x = true ->
         (Z.of_nat K ^ Zpos den <= 2 ^ Zpos num)%Z
         /\ (F32.is_nan x = true
             \/ exists q, f32_to_Q x = Some q /\ (- slack <= q)%Q /\ (q <= (Zpos num # den) + slack)%Q)).
Proof.
  split; [exact (check_corr_range_sound slack x)
         | intros K num den; exact (check_entropy_range_sound K num den slack x)].
Qed.

(* the stricter per-row entropy check (no NaN when the u32 sum does not overflow) and the
   periodic-matrix check of the driver *)
Theorem C09_stat_row_checkers_sound (slack : Q) :
  (forall K num den (row : list N) (e : F32.t),
      check_entropy_row K num den slack row e = true ->
      (fold_left N.add row 0 < 4294967296)%N ->
      (Z.of_nat K ^ Zpos den <= 2 ^ Zpos num)%Z
      /\ exists q, f32_to_Q e = Some q /\ (- slack <= q)%Q /\ (q <= (Zpos num # den) + slack)%Q)
  /\ (forall (m : list (list N)) (delay : nat) (c : F32.t),
         check_auto_periodic slack m delay c = true ->
         (delay < length m)%nat ->
         (forall i, (i + delay < length m)%nat -> nth_error m (i + delay) = nth_error m i) ->
         Forall (fun r => exists x, In x r /\ x <> 0%N) m ->
         exists q, f32_to_Q c = Some q /\ (Qabs.Qabs (q - 1) <= slack)%Q).
Proof.
  split; [intros K num den row e; exact (check_entropy_row_sound K num den slack row e)
         | intros m delay c; exact (check_auto_periodic_sound slack m delay c)].
Qed.

(* ================= entropy ================= *)

(* Shannon entropy of the empirical distribution of a row whose u32 sum does not overflow:
   between 0 and log2 of the number of non-zero cells, hence <= log2 K, over the reals *)
Theorem C09_row_entropy_bounds (wrap : bool) (row : list N) :
  let s := fold_left N.add row 0%N in
  (0 < s)%N -> (s < 4294967296)%N ->
  exists e, row_entropy Rops Ropp Rlog2 wrap row = Ok e
            /\ (0 <= e <= Rlog2 (INR (nnz row)))%R /\ (1 <= nnz row <= length row)%nat
            /\ (e <= Rlog2 (INR (length row)))%R.
Proof.
  intros s H0 H1.
  destruct (row_entropy_bounds_nnz wrap row H0 H1) as (e & He & Hb & Hn).
  destruct (row_entropy_bounds wrap row H0 H1) as (e' & He' & Hb').
  exists e. rewrite He in He'. injection He' as <-.
  split; [exact He|]. split; [exact Hb|]. split; [exact Hn|]. exact (proj2 Hb').
Qed.

(* the dev-profile panic: `row.iter().sum::<u32>()` *)
Theorem C09_row_entropy_overflow_panics {T} (O : NumOps T) (fneg flog2 : T -> T) (row : list N) :
  (4294967296 <= fold_left N.add row 0)%N -> row_entropy O fneg flog2 false row = Panic 14.
Proof. exact (row_entropy_overflow_panics O fneg flog2 row). Qed.

(* exact values: one symbol only = 0 bits; two equal counts = exactly 1 bit, the lowercase
   threshold of consensus() *)
Theorem C09_row_entropy_exact_values (wrap : bool) :
  (forall (s : N) (i j : nat), (0 < s)%N -> (s < 4294967296)%N ->
      row_entropy Rops Ropp Rlog2 wrap (repeat 0%N i ++ s :: repeat 0%N j) = Ok 0%R)
  /\ (forall (c : N) (k : nat), (0 < 2 * c)%N -> (2 * c < 4294967296)%N ->
      row_entropy Rops Ropp Rlog2 wrap (c :: c :: repeat 0%N k) = Ok 1%R).
Proof. split; [exact (row_entropy_single_symbol wrap) | exact (row_entropy_uniform2 wrap)]. Qed.

(* ... wherever the non-zero cells are: zero cells contribute nothing *)
Theorem C09_row_entropy_exact_values_anywhere (wrap : bool) (row : list N) :
  (forall s, nonzeros row = [s] -> (s < 4294967296)%N ->
             row_entropy Rops Ropp Rlog2 wrap row = Ok 0%R)
  /\ (forall c, nonzeros row = [c; c] -> (2 * c < 4294967296)%N ->
                row_entropy Rops Ropp Rlog2 wrap row = Ok 1%R).
Proof.
  split; [intros s; exact (row_entropy_one_nonzero_anywhere wrap row s)
         | intros c; exact (row_entropy_two_equal_anywhere wrap row c)].
Qed.

(* the checkers for these exact values and for "information content = sum frequency * score" *)
Theorem C09_stat_value_checkers_sound (slack : Q) :
  (forall (row : list N) (e : F32.t),
      check_entropy_exact slack row e = true ->
      (fold_left N.add row 0 < 4294967296)%N ->
      (forall s, nonzeros row = [s] -> exists q, f32_to_Q e = Some q /\ (Qabs.Qabs q <= slack)%Q)
      /\ (forall c, nonzeros row = [c; c] ->
                    exists q, f32_to_Q e = Some q /\ (Qabs.Qabs (q - 1) <= slack)%Q))
  /\ (forall (tiny : Q) (bg : list F32.t) (fq sm : list (list F32.t)) (ic : F32.t) (rows : list (list Q)) (q : Q),
         check_sic slack tiny bg fq sm ic = true ->
         all_some (map2 (fun f s => sic_terms_row f s bg) fq sm) = Some rows ->
         f32_to_Q ic = Some q ->
         (Qabs.Qabs (q - Qsum (concat rows)) <= slack * Qsum (map Qabs.Qabs (concat rows)) + tiny)%Q).
Proof.
  split; [intros row e; exact (check_entropy_exact_sound slack row e)
         | intros tiny bg fq sm ic rows q; exact (check_sic_sound slack tiny bg fq sm ic rows q)].
Qed.

(* ================= information content, 2^x ================= *)

(* ScoringMatrix::information_content of the scores log2(f/b) is the relative entropy
   sum f log2(f/b) (positive cells), and it is >= 0 (Gibbs) *)
Theorem C09_scoring_information_content_is_relative_entropy (bg : list R) (f : list (list R)) :
  all_pos bg -> Forall all_pos f ->
  scoring_information_content Rops Rpow2 bg (into_scoring Rops Rlog2 bg f)
  = Rsum (map (fun row => Rsum (map2 (fun x b => x * Rlog2 (x / b))%R row bg)) f)
  /\ (Forall (fun row => length row = length bg) f ->
      Forall (fun row => Rsum row = 1%R) f -> (Rsum bg <= 1)%R ->
      (0 <= scoring_information_content Rops Rpow2 bg (into_scoring Rops Rlog2 bg f))%R).
Proof.
  intros Hb Hf. split; [exact (sic_is_relative_entropy_nolen bg f Hb Hf) | exact (sic_nonneg bg f Hb Hf)].
Qed.

(* WeightMatrix::information_content as coded: sum (f/b) log2 (f/b^2) - it treats the odds
   ratio as if it were the frequency ... *)
Theorem C09_weight_information_content_formula (bg : list R) (f : list (list R)) :
  all_pos bg ->
  weight_information_content Rops Rlog2 bg (to_weight Rops bg f)
  = Rsum (map (fun row => Rsum (map2 (fun x b => (x / b) * Rlog2 (x / (b * b)))%R row bg)) f).
Proof. exact (wic_formula_nolen bg f). Qed.

(* ... so it is NOT the information content of the motif: for a motif identical to the
   background the scoring-matrix method gives 0 bits, the weight-matrix method 2 *)
Theorem C09_weight_information_content_is_relative_entropy_refuted :
  exists (bg : list R) (f : list (list R)),
    (all_pos bg /\ Forall all_pos f) /\ Rsum bg = 1%R /\ Forall (fun row => Rsum row = 1%R) f
    /\ Forall (fun row => length row = length bg) f
    /\ scoring_information_content Rops Rpow2 bg (into_scoring Rops Rlog2 bg f) = 0%R
    /\ weight_information_content Rops Rlog2 bg (to_weight Rops bg f) = 2%R.
Proof. exact weight_information_content_refuted. Qed.

(* From<ScoringMatrix> for WeightMatrix inverts WeightMatrix::to_scoring, both ways *)
Theorem C09_weight_of_scoring_inverts_to_scoring (flog10 fln : R -> R) (m : list (list R)) :
  (Forall all_pos m -> weight_of_scoring Rpow2 (to_scoring Rops Rlog2 flog10 fln m) = m)
  /\ to_scoring Rops Rlog2 flog10 fln (weight_of_scoring Rpow2 m) = m.
Proof.
  split; [exact (weight_of_scoring_roundtrip flog10 fln m) | exact (to_scoring_of_weight_of_scoring flog10 fln m)].
Qed.

(* ================= Background::from_counts: usize overflow ================= *)

Theorem C09_bg_from_counts_overflow {T} (O : NumOps T) (counts : list N) :
  ((18446744073709551616 <= fold_left N.add counts 0)%N -> bg_from_counts_ovf O false counts = Panic 16)
  /\ (forall wrap, (fold_left N.add counts 0 < 18446744073709551616)%N ->
                   bg_from_counts_ovf O wrap counts = bg_from_counts O counts).
Proof.
  split; [exact (bg_from_counts_ovf_panics O counts) | intros wrap; exact (bg_from_counts_ovf_agrees O wrap counts)].
Qed.

(* ================= pins and non-vacuity ================= *)

Check C09_consensus_last_maximum.
Check C09_cross_correlation_in_unit_interval.
Check C09_row_entropy_bounds.
Check C09_weight_information_content_is_relative_entropy_refuted.

Open Scope N_scope.
(* the crate's test matrix: row [1,3,3,1,0] -> T (last of the two 3s), [3,2,2,1,0] -> A *)
Example ex_consensus_ties : argmax_last [1;3;3;1;0] = Some 2%nat /\ argmax_last [3;2;2;1;0] = Some 0%nat
                            /\ argmax_last [0;0;0;0;0] = Some 4%nat.
Proof. repeat split; reflexivity. Qed.

(* binary32 model on the crate's own test: auto_correlation(0) = auto_correlation(4) = 1.0 *)
Definition crate_test_matrix : list (list N) :=
  [[1;3;3;1;0];[8;0;0;0;0];[1;7;0;0;0];[3;2;2;1;0];[1;3;3;1;0];[8;0;0;0;0];[1;7;0;0;0];[3;2;2;1;0]].
Example ex_auto_correlation_crate_test :
  match auto_correlation F32ops f32_sqrt conv_N crate_test_matrix 0,
        auto_correlation F32ops f32_sqrt conv_N crate_test_matrix 4 with
  | Ok a, Ok b => (F32.to_bits a =? 1065353216)%Z && (F32.to_bits b =? 1065353216)%Z
  | _, _ => false
  end = true.
Proof. vm_compute. reflexivity. Qed.

(* the hypotheses of the interval theorems are satisfiable: the crate's matrix has no zero row *)
Example ex_nonzero_rows : Forall (nonzero_row (fun n : N => IZR (Z.of_N n))) crate_test_matrix.
Proof.
  unfold crate_test_matrix.
  repeat constructor; unfold nonzero_row, dotr, dot_rows; rewrite fsum_Rsum;
    cbn [map map2 Rsum fold_right n_mul Rops Z.of_N]; Lra.lra.
Qed.

Example ex_log2_ub : log2_ub_ok 5 233 100 = true /\ log2_ub_ok 21 440 100 = true.
Proof. split; vm_compute; reflexivity. Qed.

Example ex_count_new : count_new [[1;2;0;0;0];[8;0;0;0;0]] = Ok ([[1;2;0;0;0];[8;0;0;0;0]], 8).
Proof. reflexivity. Qed.
