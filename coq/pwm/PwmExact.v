(* Exact-arithmetic instances of NumOps used by the value theorems:
     Qcops : canonical rationals Qc (Leibniz equality, field);
     XQops : Qc extended with -oo ([None]) for score sums with -oo cells.
   These instances are used in proofs only (never extracted). *)
From Coq Require Import List ZArith NArith Bool Arith Lia QArith Qcanon Qcabs.
From LMBase Require Import Res ListX.
From LMPwm Require Import GenComplement PwmModel PwmProofs.
Import ListNotations.
Local Open Scope Qc_scope.

Definition Qc_ltb (a b : Qc) : bool := match a ?= b with Lt => true | _ => false end.
Definition Qc_leb (a b : Qc) : bool := match a ?= b with Gt => false | _ => true end.

(* [n_ninf] has no counterpart in Qc: it is set to 0 and no theorem stated over Qcops
   mentions a score; theorems about scores use an arbitrary carrier or XQops. *)
Definition Qcops : NumOps Qc := {|
  n_zero := 0; n_szero := 0; n_one := 1; n_two := Q2Qc 2; n_ten := Q2Qc 10;
  n_tol := Q2Qc (1 # 100); n_ninf := 0;
  n_add := Qcplus; n_sub := Qcminus; n_mul := Qcmult; n_div := Qcdiv; n_abs := Qcabs;
  n_eqb := Qc_eq_bool; n_ltb := Qc_ltb; n_leb := Qc_leb;
  n_cmp := fun a b => Some (a ?= b);
  n_of_N := fun n => Q2Qc (inject_Z (Z.of_N n))
|}.

Lemma Qc_eqb_true a b : Qc_eq_bool a b = true <-> a = b.
Proof. split; [apply Qc_eq_bool_correct|]. intros ->. unfold Qc_eq_bool. destruct (Qc_eq_dec b b) as [_|n]; [reflexivity | exfalso; apply n; reflexivity]. Qed.

Lemma Qc_eqb_false a b : Qc_eq_bool a b = false <-> a <> b.
Proof.
  split.
  - intros H E. apply Qc_eqb_true in E. congruence.
  - intros H. destruct (Qc_eq_bool a b) eqn:E; auto. apply Qc_eqb_true in E. contradiction.
Qed.

Lemma Qc_ltb_lt a b : Qc_ltb a b = true <-> a < b.
Proof. unfold Qc_ltb. rewrite Qclt_alt. destruct (a ?= b); split; intros; congruence. Qed.

Lemma Qc_leb_le a b : Qc_leb a b = true <-> a <= b.
Proof. unfold Qc_leb. rewrite Qcle_alt. destruct (a ?= b); split; intros; congruence. Qed.

(* ---------- Qc + -oo ---------- *)

Definition xq := option Qc.     (* None = -oo *)

Definition xlift2 (f : Qc -> Qc -> Qc) (a b : xq) : xq :=
  match a, b with Some x, Some y => Some (f x y) | _, _ => None end.

Definition xq_le (a b : xq) : Prop :=
  match a, b with
  | None, _ => True
  | Some _, None => False
  | Some x, Some y => x <= y
  end.

Definition xq_cmp (a b : xq) : comparison :=
  match a, b with
  | None, None => Eq
  | None, Some _ => Lt
  | Some _, None => Gt
  | Some x, Some y => x ?= y
  end.

(* only [n_add], [n_cmp], the zeros and [n_ninf] carry the intended meaning (sums of
   scores with -oo absorbing); the other fields propagate -oo and are not used by the
   theorems stated over XQops *)
Definition XQops : NumOps xq := {|
  n_zero := Some 0; n_szero := Some 0; n_one := Some 1; n_two := Some (Q2Qc 2); n_ten := Some (Q2Qc 10);
  n_tol := Some (Q2Qc (1 # 100)); n_ninf := None;
  n_add := xlift2 Qcplus; n_sub := xlift2 Qcminus; n_mul := xlift2 Qcmult; n_div := xlift2 Qcdiv;
  n_abs := option_map Qcabs;
  n_eqb := fun a b => match xq_cmp a b with Eq => true | _ => false end;
  n_ltb := fun a b => match xq_cmp a b with Lt => true | _ => false end;
  n_leb := fun a b => match xq_cmp a b with Gt => false | _ => true end;
  n_cmp := fun a b => Some (xq_cmp a b);
  n_of_N := fun n => Some (Q2Qc (inject_Z (Z.of_N n)))
|}.

(* ---------- frequencies in exact arithmetic ---------- *)

Definition Qcsum (l : list Qc) : Qc := fold_left Qcplus l 0.

Lemma fsum_Qc l : fsum Qcops l = Qcsum l.
Proof. reflexivity. Qed.

Lemma Qcsum_div_gen s : forall l a,
  fold_left Qcplus (map (fun x => x / s) l) (a / s) = (fold_left Qcplus l a) / s.
Proof.
  induction l as [|x r IH]; intros a; simpl; auto.
  rewrite <- IH. f_equal. unfold Qcdiv. ring.
Qed.

Lemma Qcsum_div s l : Qcsum (map (fun x => x / s) l) = Qcsum l / s.
Proof.
  unfold Qcsum. rewrite <- Qcsum_div_gen. f_equal. unfold Qcdiv. ring.
Qed.

(* the numerators count + pseudocount of a row *)
Definition freq_num (pseudo : list Qc) (row : list N) : list Qc :=
  map2 (fun x p => n_of_N Qcops x + p) row pseudo.

Lemma to_freq_row_Qc pseudo row :
  to_freq_row Qcops pseudo row = map (fun x => x / Qcsum (freq_num pseudo row)) (freq_num pseudo row).
Proof. reflexivity. Qed.

Lemma freq_row_sum pseudo row : Qcsum (freq_num pseudo row) <> 0 ->
  Qcsum (to_freq_row Qcops pseudo row) = 1.
Proof.
  intros Hs. rewrite to_freq_row_Qc, Qcsum_div. unfold Qcdiv. apply Qcmult_inv_r. exact Hs.
Qed.

Lemma freq_row_cell pseudo row k : (k < length row)%nat -> (k < length pseudo)%nat ->
  nth k (to_freq_row Qcops pseudo row) 0
  = (n_of_N Qcops (nth k row 0%N) + nth k pseudo 0) / Qcsum (freq_num pseudo row).
Proof.
  intros Hr Hp. rewrite to_freq_row_Qc.
  set (s := Qcsum (freq_num pseudo row)).
  rewrite (nth_indep _ 0 (0 / s)) by (rewrite map_length; unfold freq_num; rewrite map2_length; lia).
  rewrite (map_nth (fun x => x / s)). f_equal.
  unfold freq_num. exact (nth_map2 (fun x p => n_of_N Qcops x + p) row pseudo k 0 0%N 0 Hr Hp).
Qed.

(* ---------- weights and rescaling in exact arithmetic ---------- *)

Lemma weight_cell_Qc x f : weight_cell Qcops x f = if Qc_eq_bool f 0 then 0 else x / f.
Proof. reflexivity. Qed.

Lemma rescale_cell_Qc x o n :
  rescale_cell Qcops (weight_cell Qcops x o) o n
  = if Qc_eq_bool n 0 then 0 else if Qc_eq_bool o 0 then 0 else x / n.
Proof.
  unfold rescale_cell, weight_cell. simpl.
  destruct (Qc_eq_bool n 0) eqn:En; [reflexivity|].
  destruct (Qc_eq_bool o 0) eqn:Eo.
  - ring.
  - apply Qc_eqb_false in En. apply Qc_eqb_false in Eo. field. split; assumption.
Qed.

Lemma list_neqb_Qc_false : forall a b, list_neqb Qcops a b = false -> a = b.
Proof.
  induction a as [|x a IH]; intros [|y b] H; simpl in H; try discriminate; auto.
  apply orb_false_elim in H. destruct H as [H1 H2].
  apply negb_false_iff in H1. apply Qc_eqb_true in H1. subst. f_equal. apply IH. exact H2.
Qed.

Lemma rescale_row_Qc : forall row b1 b2,
  length row = length b1 -> length row = length b2 -> Forall (fun o => o <> 0) b1 ->
  map3 (rescale_cell Qcops) (map2 (weight_cell Qcops) row b1) b1 b2 = map2 (weight_cell Qcops) row b2.
Proof.
  induction row as [|x r IH]; intros [|o b1] [|n b2] H1 H2 Hnz; simpl in *; try lia; auto.
  inversion Hnz as [|? ? Ho Hnz']; subst.
  rewrite IH by (try lia; assumption). f_equal.
  rewrite rescale_cell_Qc, weight_cell_Qc.
  destruct (Qc_eq_bool n 0); [reflexivity|].
  apply Qc_eqb_false in Ho. rewrite Ho. reflexivity.
Qed.

Lemma rescale_Qc b1 b2 m :
  Forall (fun row => length row = length b1) m -> length b2 = length b1 ->
  Forall (fun o => o <> 0) b1 ->
  rescale Qcops b1 (to_weight Qcops b1 m) b2 = (b2, to_weight Qcops b2 m).
Proof.
  intros Hm Hl Hnz. unfold rescale.
  destruct (list_neqb Qcops b2 b1) eqn:E.
  - apply f_equal. unfold to_weight. rewrite map_map. apply map_ext_in. intros row Hr.
    rewrite Forall_forall in Hm. apply rescale_row_Qc; auto. rewrite (Hm row Hr). auto.
  - apply list_neqb_Qc_false in E. subst. reflexivity.
Qed.

(* ---------- acceptance in exact arithmetic ---------- *)

Lemma in01_Qc f : in01 Qcops f = true <-> 0 <= f /\ f <= 1.
Proof.
  unfold in01. simpl. rewrite andb_true_iff, !Qc_leb_le. reflexivity.
Qed.

Lemma bg_new_Qc l :
  (exists l', bg_new Qcops l = Ok l') <-> (Forall (fun f => 0 <= f /\ f <= 1) l /\ Qcsum l = 1).
Proof.
  rewrite bg_new_spec. split.
  - intros [l' H].
    destruct (forallb (in01 Qcops) l) eqn:E1; simpl in H; try discriminate.
    destruct (Qc_eq_bool (fold_left Qcplus l 0) 1) eqn:E2; try discriminate.
    split.
    + rewrite forallb_forall in E1. apply Forall_forall. intros f Hf. apply in01_Qc. apply E1, Hf.
    + apply Qc_eqb_true. exact E2.
  - intros [H1 H2]. exists l.
    assert (E1 : forallb (in01 Qcops) l = true).
    { apply forallb_forall. intros f Hf. apply in01_Qc. rewrite Forall_forall in H1. apply H1, Hf. }
    rewrite E1. simpl. unfold Qcsum in H2. rewrite H2. reflexivity.
Qed.

Lemma freq_row_ok_Qc row : freq_row_ok Qcops row = true <-> Qcabs (Qcsum row - 1) < Q2Qc (1 # 100).
Proof. unfold freq_row_ok. simpl. rewrite Qc_ltb_lt. reflexivity. Qed.

Lemma freq_new_Qc m :
  (exists m', freq_new Qcops m = Ok m') <-> Forall (fun row => Qcabs (Qcsum row - 1) < Q2Qc (1 # 100)) m.
Proof.
  rewrite freq_new_spec. split.
  - intros [m' H]. destruct (forallb (freq_row_ok Qcops) m) eqn:E; try discriminate.
    rewrite forallb_forall in E. apply Forall_forall. intros r Hr. apply freq_row_ok_Qc, E, Hr.
  - intros H. exists m.
    assert (E : forallb (freq_row_ok Qcops) m = true).
    { apply forallb_forall. intros r Hr. apply freq_row_ok_Qc. rewrite Forall_forall in H. apply H, Hr. }
    rewrite E. reflexivity.
Qed.

(* ---------- ordered-monoid facts for the min/max theorem ---------- *)

Lemma Qc_cmp_le (a b : Qc) :
  match n_cmp Qcops a b with
  | Some Lt => a <= b
  | Some Eq => a <= b /\ b <= a
  | Some Gt => b <= a
  | None => True
  end.
Proof.
  simpl. destruct (a ?= b) eqn:E.
  - apply Qceq_alt in E. subst. split; apply Qcle_refl.
  - apply Qclt_alt in E. apply Qclt_le_weak. exact E.
  - apply Qcgt_alt in E. apply Qclt_le_weak. exact E.
Qed.

Lemma xq_le_refl a : xq_le a a.
Proof. destruct a; simpl; auto. apply Qcle_refl. Qed.

Lemma xq_le_trans a b c : xq_le a b -> xq_le b c -> xq_le a c.
Proof. destruct a, b, c; simpl; auto; try tauto. apply Qcle_trans. Qed.

Lemma xq_add_mono a b c d : xq_le a b -> xq_le c d -> xq_le (n_add XQops a c) (n_add XQops b d).
Proof.
  destruct a, b, c, d; simpl; auto; try tauto. apply Qcplus_le_compat.
Qed.

Lemma xq_cmp_le (a b : xq) :
  match n_cmp XQops a b with
  | Some Lt => xq_le a b
  | Some Eq => xq_le a b /\ xq_le b a
  | Some Gt => xq_le b a
  | None => True
  end.
Proof.
  destruct a as [a|], b as [b|]; simpl; auto.
  exact (Qc_cmp_le a b).
Qed.
