(* Model of the public numerics of lightmotif/src/pwm/mod.rs that PwmModel.v does not
   cover (round 3, gap 8): the [Correlation] trait ([dot], [norm], [auto_correlation],
   [cross_correlation], implemented by [matrix_traits!] for all five matrix types),
   [CountMatrix::{row_entropy, entropy, consensus}], [WeightMatrix::information_content],
   [ScoringMatrix::information_content], [From<ScoringMatrix> for WeightMatrix] and the
   usize overflow of [Background::from_counts].  Executable definitions only (no proofs).

   As in PwmModel.v everything numeric is written once over a carrier [T] with [NumOps T];
   the operations NumOps does not have are Section variables:
     [fneg]   unary minus (sign flip)
     [fsqrt]  f32::sqrt  (binary32 instance: Flocq's correctly rounded Bsqrt = sqrtss)
     [flog2]  f32::log2  (libm, replayed through the oracle table of the harness)
     [fpow2]  2f32.powf(x) (libm powf, oracle table)
   New panic sites:
     site 14  `row.iter().sum::<u32>()` overflows in row_entropy (dev profile; the release
              profile wraps: [wrap = true])
     site 15  max_by_key(..).unwrap() on an empty zip (K = 0; not reachable for Dna/Protein)
     site 16  `counts.iter().sum::<usize>()` overflows in Background::from_counts (dev profile)
     site 20  Correlation::dot: `self.data[i]` with i >= rows
     site 21  Correlation::dot: `other.data[j]` with j >= rows *)
From Coq Require Import List ZArith NArith Bool Arith.
From LMBase Require Import Res ListX.
From LMPwm Require Import PwmModel.
Import ListNotations.

Section Stat.
  Context {T : Type}.
  Variable O : NumOps T.
  Variable K : nat.
  Variables fneg fsqrt flog2 fpow2 : T -> T.

  Local Notation fsum := (fsum O).

  (* ---------- Correlation (cell type [C], `x as f32` = [conv]) ---------- *)
  Section Corr.
    Context {C : Type}.
    Variable conv : C -> T.

    (* self.data[i].iter().zip(&other.data[j]).map(|(&x, &y)| (x as f32) * (y as f32)).sum() *)
    Definition dot_rows (r1 r2 : list C) : T :=
      fsum (map2 (fun x y => n_mul O (conv x) (conv y)) r1 r2).

    Definition dot (m1 m2 : list (list C)) (i j : nat) : res T :=
      match nth_error m1 i with
      | None => Panic 20
      | Some r1 => match nth_error m2 j with
                   | None => Panic 21
                   | Some r2 => Ok (dot_rows r1 r2)
                   end
      end.

    (* self.dot(self, i, i).sqrt() *)
    Definition norm (m : list (list C)) (i : nat) : res T :=
      d <- dot m m i i ;; Ok (fsqrt d).

    (* for (i, j) in (delay..rows).enumerate() { c += self.dot(self, i, j) / (norms[i] * norms[j]) } *)
    Fixpoint auto_loop (m : list (list C)) (norms : list T) (c : T) (ijs : list (nat * nat)) : res T :=
      match ijs with
      | [] => Ok c
      | (i, j) :: r =>
          d <- dot m m i j ;;
          match nth_error norms i, nth_error norms j with
          | Some ni, Some nj => auto_loop m norms (n_add O c (n_div O d (n_mul O ni nj))) r
          | _, _ => Panic 22        (* norms[i]: not reachable, norms has `rows` entries *)
          end
      end.

    Definition auto_correlation (m : list (list C)) (delay : nat) : res T :=
      let rows := length m in
      if rows <=? delay then Ok (n_zero O)
      else
        norms <- map_res (norm m) (seq 0 rows) ;;
        c <- auto_loop m norms (n_zero O) (combine (seq 0 (rows - delay)) (seq delay (rows - delay))) ;;
        Ok (n_div O c (n_of_N O (N.of_nat (rows - delay)))).

    (* for i in 0..rows { c += self.dot(other, i, i) / (self.norm(i) * other.norm(i)) } *)
    Fixpoint cross_loop (m1 m2 : list (list C)) (c : T) (is : list nat) : res T :=
      match is with
      | [] => Ok c
      | i :: r =>
          d <- dot m1 m2 i i ;;
          n1 <- norm m1 i ;;
          n2 <- norm m2 i ;;
          cross_loop m1 m2 (n_add O c (n_div O d (n_mul O n1 n2))) r
      end.

    Definition cross_correlation (m1 m2 : list (list C)) : res T :=
      let rows := Nat.min (length m1) (length m2) in
      c <- cross_loop m1 m2 (n_zero O) (seq 0 rows) ;;
      Ok (n_div O c (n_of_N O (N.of_nat rows))).
  End Corr.

  (* ---------- CountMatrix::row_entropy / entropy / consensus ---------- *)

  Definition u32_mod : N := 4294967296%N.

  (* row.iter().sum::<u32>() : overflow check in the dev profile, wrapping in release *)
  Definition sum_u32 (wrap : bool) (row : list N) : res N :=
    let s := fold_left N.add row 0%N in
    if (s <? u32_mod)%N then Ok s
    else if wrap then Ok (s mod u32_mod)%N else Panic 14.

  (* .map(|&n| n as f32 / sum as f32).map(|p| if p > 0.0 { p * p.log2() } else { 0.0 }) *)
  Definition entropy_term (sum : N) (n : N) : T :=
    let p := n_div O (n_of_N O n) (n_of_N O sum) in
    if n_ltb O (n_zero O) p then n_mul O p (flog2 p) else n_zero O.

  Definition row_entropy (wrap : bool) (row : list N) : res T :=
    s <- sum_u32 wrap row ;;
    Ok (fneg (fsum (map (entropy_term s) row))).

  Definition entropy (wrap : bool) (m : list (list N)) : res (list T) :=
    map_res (row_entropy wrap) m.

  (* Iterator::max_by_key on (count, symbol) pairs: the LAST maximal element
     (reduce with `match compare(x, y) { Greater => x, _ => y }`); returns the position *)
  Fixpoint argmax_last_from (bi : nat) (bv : N) (i : nat) (l : list N) : nat :=
    match l with
    | [] => bi
    | y :: r => if (y <? bv)%N then argmax_last_from bi bv (S i) r
                else argmax_last_from i y (S i) r
    end.
  Definition argmax_last (l : list N) : option nat :=
    match l with
    | [] => None
    | x :: r => Some (argmax_last_from 0 x 1 r)
    end.

  (* one row of consensus(): (position in A::symbols() of the chosen symbol, lowercase?).
     `row.iter().zip(A::symbols())` stops after K cells; the entropy is computed first *)
  Definition consensus_row (wrap : bool) (row : list N) : res (nat * bool) :=
    e <- row_entropy wrap row ;;
    match argmax_last (firstn K row) with
    | None => Panic 15
    | Some j => Ok (j, n_leb O (n_one O) e)
    end.

  Definition consensus (wrap : bool) (m : list (list N)) : res (list (nat * bool)) :=
    map_res (consensus_row wrap) m.

  (* ---------- information content ---------- *)

  (* WeightMatrix::information_content:
     rows.map(|row| zip(row, bg).map(|(x, b)| if b == 0.0 { 0.0 } else { x * (x / b).log2() }).sum()).sum() *)
  Definition wic_cell (x b : T) : T :=
    if n_eqb O b (n_zero O) then n_zero O else n_mul O x (flog2 (n_div O x b)).
  Definition weight_information_content (bg : list T) (m : list (list T)) : T :=
    fsum (map (fun row => fsum (map2 wic_cell row bg)) m).

  (* ScoringMatrix::information_content:
     if b == 0.0 || x == -inf { 0.0 } else { (2f32.powf(x) * b) * x } *)
  Definition sic_cell (x b : T) : T :=
    if n_eqb O b (n_zero O) || n_eqb O x (n_ninf O) then n_zero O
    else n_mul O (n_mul O (fpow2 x) b) x.
  Definition scoring_information_content (bg : list T) (m : list (list T)) : T :=
    fsum (map (fun row => fsum (map2 sic_cell row bg)) m).

  (* From<ScoringMatrix> for WeightMatrix: every cell 2^x, background kept *)
  Definition weight_of_scoring (m : list (list T)) : list (list T) := map (map fpow2) m.

  (* ---------- Background::from_counts with the usize overflow made explicit ---------- *)

  Definition usize_mod : N := 18446744073709551616%N.

  Definition bg_from_counts_ovf (wrap : bool) (counts : list N) : res (list T) :=
    let s := fold_left N.add counts 0%N in
    if (s <? usize_mod)%N then bg_from_counts O counts
    else if wrap then
      let total := (s mod usize_mod)%N in
      if (total =? 0)%N then Err 1
      else Ok (map (fun c => n_div O (n_of_N O c) (n_of_N O total)) counts)
    else Panic 16.
End Stat.

(* ---------- the binary32 instance ---------- *)

From Flocq Require Import BinarySingleNaN.
From LMBase Require Import IEEE.

(* f32::sqrt: IEEE 754 correctly rounded square root (sqrtss) *)
Definition f32_sqrt (x : F32.t) : F32.t := Bsqrt mode_NE x.

(* `x as f32` of the three cell types *)
Definition conv_N : N -> F32.t := n_of_N F32ops.
Definition conv_id : F32.t -> F32.t := fun x => x.
