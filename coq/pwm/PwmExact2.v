(* More exact-arithmetic facts for C09: backgrounds built from counts are valid
   distributions (Background::new would accept them), and the counts that
   from_sequence(s) accumulates are the occurrence counts the checker compares with. *)
From Coq Require Import List ZArith NArith Bool Arith Lia QArith Qcanon Qcabs.
From LMBase Require Import Res ListX.
From LMPwm Require Import GenComplement PwmModel PwmProofs PwmExact PwmCheck.
Import ListNotations.

(* ---------- from_sequence(s): the accumulated counts are the occurrence counts ---------- *)

Lemma map2_map_seq {A B} (f : A -> nat -> B) (g : nat -> A) : forall n s,
  map2 f (map g (seq s n)) (seq s n) = map (fun k => f (g k) k) (seq s n).
Proof.
  induction n as [|n IH]; intros s; simpl; [reflexivity|]. rewrite IH. reflexivity.
Qed.

Lemma bg_base_counts_gen (K : nat) (unknown : bool) : forall seqs (g : nat -> N),
  fold_left (fun acc s =>
               map2 (fun a k => if unknown || negb (k =? wildcard K) then (a + count_symbol s k)%N else a)
                    acc (seq 0 K))
            seqs (map g (seq 0 K))
  = map (fun k => if unknown || negb (k =? wildcard K)
                  then (g k + N.of_nat (length (filter (fun x => Nat.eqb x k) (concat seqs))))%N else g k)
        (seq 0 K).
Proof.
  induction seqs as [|s r IH]; intros g; simpl.
  - apply map_ext. intros k. destruct (unknown || negb (k =? wildcard K)); [|reflexivity].
    simpl. rewrite N.add_0_r. reflexivity.
  - rewrite (map2_map_seq (fun a k => if unknown || negb (k =? wildcard K) then (a + count_symbol s k)%N else a) g K 0).
    rewrite (IH (fun k => if unknown || negb (k =? wildcard K) then (g k + count_symbol s k)%N else g k)).
    apply map_ext. intros k. destruct (unknown || negb (k =? wildcard K)); [|reflexivity].
    unfold count_symbol. rewrite filter_app, app_length, Nat2N.inj_add. lia.
Qed.

Lemma repeat_map_seq {A} (a : A) : forall n s, repeat a n = map (fun _ => a) (seq s n).
Proof. induction n as [|n IH]; intros s; simpl; [reflexivity|]. rewrite (IH (S s)). reflexivity. Qed.

(* the model's accumulation = the specification used by the extracted checker *)
Lemma bg_base_counts_spec (K : nat) (seqs : list (list nat)) (unknown : bool) :
  bg_base_counts K seqs unknown = bg_counts_spec K seqs unknown.
Proof.
  unfold bg_base_counts, bg_counts_spec. rewrite (repeat_map_seq 0%N K 0).
  rewrite (bg_base_counts_gen K unknown seqs (fun _ => 0%N)).
  apply map_ext. intros k. unfold wildcard.
  destruct (unknown || negb (k =? K - 1)); reflexivity.
Qed.

(* ---------- from_counts in exact arithmetic: a valid distribution ---------- *)

Local Open Scope Qc_scope.

Definition ofN (n : N) : Qc := Q2Qc (inject_Z (Z.of_N n)).

Lemma ofN_add a b : ofN (a + b) = ofN a + ofN b.
Proof.
  unfold ofN, Qcplus. apply Q2Qc_eq_iff. rewrite N2Z.inj_add, inject_Z_plus.
  unfold Q2Qc, this. rewrite !Qred_correct. reflexivity.
Qed.

Lemma ofN_le a b : (a <= b)%N -> ofN a <= ofN b.
Proof.
  intros H. unfold ofN, Qcle, Q2Qc, this. rewrite !Qred_correct. rewrite <- Zle_Qle. lia.
Qed.

Lemma ofN_pos a : (0 < a)%N -> 0 < ofN a.
Proof.
  intros H. unfold ofN, Qclt, Q2Qc, this. rewrite !Qred_correct.
  change (inject_Z 0 < inject_Z (Z.of_N a))%Q. rewrite <- Zlt_Qlt. lia.
Qed.

Lemma fold_ofN : forall l a, fold_left Qcplus (map ofN l) (ofN a) = ofN (fold_left N.add l a).
Proof.
  induction l as [|x r IH]; intros a; simpl; [reflexivity|]. rewrite <- ofN_add. apply IH.
Qed.

Lemma fold_add_ge : forall l a x, In x l -> (x <= fold_left N.add l a)%N.
Proof.
  induction l as [|y r IH]; intros a x Hin; simpl in *; [contradiction|].
  assert (Hmono : forall l b c, (b <= c)%N -> (fold_left N.add l b <= fold_left N.add l c)%N).
  { induction l as [|z l IHl]; intros b c Hbc; simpl; [exact Hbc|]. apply IHl. lia. }
  destruct Hin as [<-|Hin].
  - apply N.le_trans with (fold_left N.add r y); [|apply Hmono; lia].
    clear. revert y. induction r as [|z r IHr]; intros y; simpl; [lia|].
    apply N.le_trans with (fold_left N.add r y); [apply IHr|].
    assert (Hmono : forall l b c, (b <= c)%N -> (fold_left N.add l b <= fold_left N.add l c)%N).
    { induction l as [|w l IHl]; intros b c Hbc; simpl; [exact Hbc|]. apply IHl. lia. }
    apply Hmono. lia.
  - apply IH. exact Hin.
Qed.

Lemma Qc_div_le_1 a t : 0 <= a -> a <= t -> 0 < t -> 0 <= a / t /\ a / t <= 1.
Proof.
  intros Ha Hat Ht.
  assert (Hne : t <> 0) by (intro H0; exact (Qclt_not_eq _ _ Ht (eq_sym H0))).
  assert (Hdt : a / t * t = a).
  { unfold Qcdiv. rewrite <- Qcmult_assoc, (Qcmult_comm (/ t)), Qcmult_inv_r by exact Hne. ring. }
  split.
  - apply (Qcmult_lt_0_le_reg_r _ _ t Ht). rewrite Hdt. replace (0 * t) with 0 by ring. exact Ha.
  - apply (Qcmult_lt_0_le_reg_r _ _ t Ht). rewrite Hdt. replace (1 * t) with t by ring. exact Hat.
Qed.

(* Background::from_counts over exact rationals: rejected iff the total is 0, otherwise
   every entry is in [0,1] and the entries sum to exactly one — so Background::new
   accepts the result *)
Theorem bg_from_counts_valid (counts : list N) :
  let total := fold_left N.add counts 0%N in
  if (total =? 0)%N then bg_from_counts Qcops counts = Err 1
  else exists l, bg_from_counts Qcops counts = Ok l /\
                 l = map (fun c => ofN c / ofN total) counts /\
                 Forall (fun f => 0 <= f /\ f <= 1) l /\ Qcsum l = 1 /\
                 bg_new Qcops l = Ok l.
Proof.
  cbv zeta. unfold bg_from_counts. destruct (fold_left N.add counts 0 =? 0)%N eqn:E; [reflexivity|].
  apply N.eqb_neq in E. set (total := fold_left N.add counts 0%N) in *.
  eexists. split; [reflexivity|]. split; [reflexivity|].
  assert (Hpos : 0 < ofN total) by (apply ofN_pos; lia).
  assert (HF : Forall (fun f => 0 <= f /\ f <= 1) (map (fun c => ofN c / ofN total) counts)).
  { apply Forall_forall. intros f Hf. apply in_map_iff in Hf. destruct Hf as [c [<- Hc]].
    apply Qc_div_le_1; [| |exact Hpos].
    - change 0 with (ofN 0). apply ofN_le. lia.
    - apply ofN_le. apply fold_add_ge. exact Hc. }
  assert (HS : Qcsum (map (fun c => ofN c / ofN total) counts) = 1).
  { rewrite <- (map_map ofN (fun x => x / ofN total)). rewrite Qcsum_div.
    unfold Qcsum. change 0 with (ofN 0). rewrite fold_ofN. fold total.
    unfold Qcdiv. apply Qcmult_inv_r. intro H0. exact (Qclt_not_eq _ _ Hpos (eq_sym H0)). }
  split; [exact HF|]. split; [exact HS|].
  destruct (proj2 (bg_new_Qc _) (conj HF HS)) as [l' Hl'].
  pose proof Hl' as Hl2. rewrite bg_new_spec in Hl2.
  destruct (forallb _ _ && _) in Hl2; [|discriminate]. inversion Hl2; subst l'. exact Hl'.
Qed.
