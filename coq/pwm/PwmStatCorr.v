(* Theorems about the model of the Rust [Correlation] trait (PwmStat.v, Section Corr):
   Part A  totality of [cross_correlation] / [auto_correlation] over any carrier
           (the panic sites 20/21/22 are unreachable from the two entry points);
   Part B  the real-number reading (Rops, sqrt): symmetry, Cauchy-Schwarz (no length
           hypothesis: map2 truncates), every correlation is in [-1, 1], the self /
           zero-delay / periodic correlations are exactly 1. *)
From Coq Require Import List ZArith NArith Bool Arith Reals Lra Lia Psatz.
From LMBase Require Import Res ListX.
From LMPwm Require Import PwmModel PwmStat.
From LMPwm Require Import PwmReal.
Import ListNotations.

(* ====================================================================== *)
(* Part A: any carrier                                                    *)
(* ====================================================================== *)

Section Total.
  Context {T : Type}.
  Variable O : NumOps T.
  Variable fsqrt : T -> T.
  Context {C : Type}.
  Variable conv : C -> T.

  (* total row access (the empty row outside the matrix; never used out of range below) *)
  Definition row (m : list (list C)) (i : nat) : list C := nth i m [].

  Definition gdot (m1 m2 : list (list C)) (i j : nat) : T :=
    dot_rows O conv (row m1 i) (row m2 j).
  Definition gnorm (m : list (list C)) (i : nat) : T := fsqrt (gdot m m i i).
  Definition gterm (m1 m2 : list (list C)) (i j : nat) : T :=
    n_div O (gdot m1 m2 i j) (n_mul O (gnorm m1 i) (gnorm m2 j)).

  Lemma nth_error_row (m : list (list C)) i : i < length m -> nth_error m i = Some (row m i).
  Proof. intros Hi. unfold row. apply nth_error_nth'. exact Hi. Qed.

  Lemma dot_ok m1 m2 i j :
    i < length m1 -> j < length m2 -> dot O conv m1 m2 i j = Ok (gdot m1 m2 i j).
  Proof.
    intros Hi Hj. unfold dot. rewrite (nth_error_row m1 i Hi), (nth_error_row m2 j Hj).
    reflexivity.
  Qed.

  Lemma norm_ok m i : i < length m -> norm O fsqrt conv m i = Ok (gnorm m i).
  Proof. intros Hi. unfold norm. rewrite (dot_ok m m i i Hi Hi). reflexivity. Qed.

  Lemma cross_loop_ok m1 m2 l :
    Forall (fun i => i < length m1 /\ i < length m2) l ->
    forall c, cross_loop O fsqrt conv m1 m2 c l
              = Ok (fold_left (fun c i => n_add O c (gterm m1 m2 i i)) l c).
  Proof.
    induction 1 as [|i l [Hi1 Hi2] _ IH]; intros c; cbn [cross_loop fold_left].
    - reflexivity.
    - rewrite (dot_ok m1 m2 i i Hi1 Hi2), (norm_ok m1 i Hi1), (norm_ok m2 i Hi2).
      cbn [rbind]. rewrite IH. reflexivity.
  Qed.

  Lemma seq_lt_Forall n : Forall (fun i => i < n) (seq 0 n).
  Proof. apply Forall_forall. intros i Hi. apply in_seq in Hi. lia. Qed.

  Lemma cross_correlation_eq m1 m2 :
    cross_correlation O fsqrt conv m1 m2
    = let rows := Nat.min (length m1) (length m2) in
      Ok (n_div O (fold_left (fun c i => n_add O c (gterm m1 m2 i i)) (seq 0 rows) (n_zero O))
                  (n_of_N O (N.of_nat rows))).
  Proof.
    unfold cross_correlation. cbv zeta. rewrite cross_loop_ok.
    - reflexivity.
    - eapply Forall_impl; [|apply seq_lt_Forall]. cbv beta. intros i Hi. lia.
  Qed.

  Theorem cross_correlation_total m1 m2 :
    exists c, cross_correlation O fsqrt conv m1 m2 = Ok c.
  Proof. rewrite cross_correlation_eq. eexists. reflexivity. Qed.

  Lemma map_res_norm_ok m l :
    Forall (fun i => i < length m) l ->
    map_res (norm O fsqrt conv m) l = Ok (map (gnorm m) l).
  Proof.
    induction 1 as [|i l Hi _ IH]; cbn [map_res map].
    - reflexivity.
    - rewrite (norm_ok m i Hi), IH. reflexivity.
  Qed.

  Lemma nth_error_map_seq {A} (f : nat -> A) n i :
    i < n -> nth_error (map f (seq 0 n)) i = Some (f i).
  Proof.
    intros Hi. rewrite nth_error_map.
    rewrite (nth_error_nth' (seq 0 n) 0) by (rewrite seq_length; exact Hi).
    rewrite seq_nth by exact Hi. reflexivity.
  Qed.

  Lemma auto_loop_ok m ijs :
    Forall (fun p => fst p < length m /\ snd p < length m) ijs ->
    forall c, auto_loop O conv m (map (gnorm m) (seq 0 (length m))) c ijs
              = Ok (fold_left (fun c p => n_add O c (gterm m m (fst p) (snd p))) ijs c).
  Proof.
    induction 1 as [|[i j] l [Hi Hj] _ IH]; intros c; cbn [auto_loop fold_left].
    - reflexivity.
    - cbn [fst snd] in Hi, Hj. rewrite (dot_ok m m i j Hi Hj). cbn [rbind].
      rewrite (nth_error_map_seq (gnorm m) _ i Hi), (nth_error_map_seq (gnorm m) _ j Hj).
      rewrite IH. reflexivity.
  Qed.

  (* the (i, j) pairs of the loop: (i, i + delay) for i < rows - delay *)
  Lemma combine_seq_shift delay k a :
    combine (seq a k) (seq (a + delay) k) = map (fun i => (i, i + delay)) (seq a k).
  Proof.
    revert a. induction k as [|k IH]; intros a; cbn [seq combine map].
    - reflexivity.
    - f_equal. exact (IH (S a)).
  Qed.

  Definition auto_pairs (rows delay : nat) : list (nat * nat) :=
    map (fun i => (i, i + delay)) (seq 0 (rows - delay)).

  Lemma auto_pairs_in_range rows delay :
    Forall (fun p => fst p < rows /\ snd p < rows) (auto_pairs rows delay).
  Proof.
    unfold auto_pairs. apply Forall_forall. intros p Hp.
    apply in_map_iff in Hp. destruct Hp as [i [<- Hi]]. apply in_seq in Hi.
    cbn [fst snd]. lia.
  Qed.

  Lemma auto_correlation_eq m delay :
    delay < length m ->
    auto_correlation O fsqrt conv m delay
    = Ok (n_div O (fold_left (fun c p => n_add O c (gterm m m (fst p) (snd p)))
                             (auto_pairs (length m) delay) (n_zero O))
                  (n_of_N O (N.of_nat (length m - delay)))).
  Proof.
    intros Hd. unfold auto_correlation. cbv zeta.
    destruct (Nat.leb_spec (length m) delay) as [Hle|_]; [lia|].
    rewrite (map_res_norm_ok m _ (seq_lt_Forall (length m))). cbn [rbind].
    pose proof (combine_seq_shift delay (length m - delay) 0) as Hcs.
    rewrite Nat.add_0_l in Hcs. rewrite Hcs. fold (auto_pairs (length m) delay).
    rewrite (auto_loop_ok m _ (auto_pairs_in_range (length m) delay)). reflexivity.
  Qed.

  Theorem auto_correlation_large_delay m delay :
    length m <= delay -> auto_correlation O fsqrt conv m delay = Ok (n_zero O).
  Proof.
    intros Hd. unfold auto_correlation. cbv zeta.
    destruct (Nat.leb_spec (length m) delay) as [_|Hlt]; [reflexivity|lia].
  Qed.

  Theorem auto_correlation_total m delay :
    exists c, auto_correlation O fsqrt conv m delay = Ok c.
  Proof.
    destruct (Nat.le_gt_cases (length m) delay) as [Hle|Hlt].
    - eexists. apply auto_correlation_large_delay. exact Hle.
    - rewrite (auto_correlation_eq m delay Hlt). eexists. reflexivity.
  Qed.
End Total.

(* ====================================================================== *)
(* Part B: over the real numbers                                          *)
(* ====================================================================== *)

Local Open Scope R_scope.

(* ---------- pure real-number facts ---------- *)

Lemma fold_add_Rsum {A} (f : A -> R) (l : list A) (c : R) :
  fold_left (fun c i => n_add Rops c (f i)) l c = c + Rsum (map f l).
Proof.
  revert c. induction l as [|a l IH]; intros c; cbn [fold_left map].
  - unfold Rsum. cbn [fold_right]. lra.
  - rewrite IH. cbn [n_add Rops]. unfold Rsum. cbn [fold_right]. lra.
Qed.

Lemma Rsum_bounds (l : list R) :
  Forall (fun x => -1 <= x <= 1) l -> - INR (length l) <= Rsum l <= INR (length l).
Proof.
  induction 1 as [|x l Hx _ IH].
  - unfold Rsum. cbn. lra.
  - change (Rsum (x :: l)) with (x + Rsum l). cbn [length]. rewrite S_INR. lra.
Qed.

Lemma Rsum_all_one (l : list R) :
  Forall (fun x => x = 1) l -> Rsum l = INR (length l).
Proof.
  induction 1 as [|x l Hx _ IH].
  - reflexivity.
  - change (Rsum (x :: l)) with (x + Rsum l). cbn [length]. rewrite S_INR. lra.
Qed.

Lemma mean_bounds (s n : R) : 0 < n -> - n <= s <= n -> -1 <= s / n <= 1.
Proof.
  intros Hn Hs. unfold Rdiv.
  assert (Hi : 0 < / n) by (apply Rinv_0_lt_compat; exact Hn).
  assert (H1 : n * / n = 1) by (apply Rinv_r; lra).
  split; nra.
Qed.

Lemma of_N_of_nat (k : nat) : n_of_N Rops (N.of_nat k) = INR k.
Proof. cbn [n_of_N Rops]. rewrite nat_N_Z. symmetry. apply INR_IZR_INZ. Qed.

(* the inductive step of Cauchy-Schwarz *)
Lemma cs_step (x y a b d : R) :
  0 <= a -> 0 <= b -> d ^ 2 <= a * b -> (x * y + d) ^ 2 <= (x * x + a) * (y * y + b).
Proof.
  intros Ha Hb Hd.
  assert (Hk : 2 * (x * y * d) <= x * x * b + y * y * a).
  { destruct (Req_dec a 0) as [Ha0|Ha0].
    - subst a. assert (Hd0 : d = 0) by nra. subst d.
      assert (0 <= x * x * b) by (apply Rmult_le_pos; [nra|exact Hb]). lra.
    - assert (Hap : 0 < a) by lra.
      assert (Hq : 0 <= a * (x * x * b + y * y * a - 2 * (x * y * d))).
      { assert (H1 : 0 <= (x * d - y * a) ^ 2) by apply pow2_ge_0.
        assert (H2 : 0 <= (x * x) * (a * b - d ^ 2)) by (apply Rmult_le_pos; nra).
        nra. }
      assert (Hr : 0 <= x * x * b + y * y * a - 2 * (x * y * d)).
      { apply (Rmult_le_reg_l a); [exact Hap|]. lra. }
      lra. }
  nra.
Qed.

Lemma corr_quot_bounds (d a b : R) :
  0 < a -> 0 < b -> d ^ 2 <= a * b -> -1 <= d / (sqrt a * sqrt b) <= 1.
Proof.
  intros Ha Hb Hd.
  assert (Hsa : 0 < sqrt a) by (apply sqrt_lt_R0; exact Ha).
  assert (Hsb : 0 < sqrt b) by (apply sqrt_lt_R0; exact Hb).
  assert (Hqa : sqrt a * sqrt a = a) by (apply sqrt_sqrt; lra).
  assert (Hqb : sqrt b * sqrt b = b) by (apply sqrt_sqrt; lra).
  set (s := sqrt a * sqrt b).
  assert (Hs : 0 < s) by (apply Rmult_lt_0_compat; assumption).
  assert (Hss : s * s = a * b).
  { unfold s. replace (sqrt a * sqrt b * (sqrt a * sqrt b))
      with ((sqrt a * sqrt a) * (sqrt b * sqrt b)) by ring.
    rewrite Hqa, Hqb. reflexivity. }
  apply mean_bounds; [exact Hs|]. split; nra.
Qed.

Lemma self_quot_one (a : R) : 0 < a -> a / (sqrt a * sqrt a) = 1.
Proof.
  intros Ha. rewrite sqrt_sqrt by lra. unfold Rdiv. apply Rinv_r. lra.
Qed.

Lemma In_nth_firstn {A} (d : A) (m : list A) n i :
  (i < n)%nat -> (i < length m)%nat -> In (nth i m d) (firstn n m).
Proof.
  revert n i. induction m as [|a m IH]; intros n i Hn Hl; cbn [length] in Hl; [lia|].
  destruct n as [|n]; [lia|]. cbn [firstn]. destruct i as [|i]; cbn [nth].
  - left. reflexivity.
  - right. apply IH; lia.
Qed.

Section CorrR.
  Context {C : Type}.
  Variable conv : C -> R.

  Definition dotr (r1 r2 : list C) : R := dot_rows Rops conv r1 r2.
  Definition nonzero_row (r : list C) : Prop := dotr r r <> 0.

  (* one term of either correlation sum *)
  Definition cterm (r1 r2 : list C) : R :=
    dotr r1 r2 / (sqrt (dotr r1 r1) * sqrt (dotr r2 r2)).

  Lemma dotr_nil_l r : dotr [] r = 0.
  Proof. unfold dotr, dot_rows. rewrite fsum_Rsum. reflexivity. Qed.

  Lemma dotr_nil_r r : dotr r [] = 0.
  Proof. unfold dotr, dot_rows. rewrite fsum_Rsum. destruct r; reflexivity. Qed.

  Lemma dotr_cons x r1 y r2 : dotr (x :: r1) (y :: r2) = conv x * conv y + dotr r1 r2.
  Proof. unfold dotr, dot_rows. rewrite !fsum_Rsum. reflexivity. Qed.

  (* B1 *)
  Theorem dot_rows_sym r1 r2 : dotr r1 r2 = dotr r2 r1.
  Proof.
    revert r2. induction r1 as [|x r1 IH]; intros r2.
    - rewrite dotr_nil_l, dotr_nil_r. reflexivity.
    - destruct r2 as [|y r2].
      + rewrite dotr_nil_l, dotr_nil_r. reflexivity.
      + rewrite !dotr_cons, IH. ring.
  Qed.

  (* B2 *)
  Theorem dot_rows_self_nonneg r : 0 <= dotr r r.
  Proof.
    induction r as [|x r IH].
    - rewrite dotr_nil_l. lra.
    - rewrite dotr_cons. nra.
  Qed.

  (* B3: no length hypothesis *)
  Theorem cauchy_schwarz r1 r2 : (dotr r1 r2) ^ 2 <= dotr r1 r1 * dotr r2 r2.
  Proof.
    revert r2. induction r1 as [|x r1 IH]; intros r2.
    - rewrite !dotr_nil_l. lra.
    - destruct r2 as [|y r2].
      + rewrite !dotr_nil_r. lra.
      + rewrite !dotr_cons. apply cs_step.
        * apply dot_rows_self_nonneg.
        * apply dot_rows_self_nonneg.
        * apply IH.
  Qed.

  Lemma nonzero_row_pos r : nonzero_row r -> 0 < dotr r r.
  Proof. unfold nonzero_row. intros Hr. pose proof (dot_rows_self_nonneg r). lra. Qed.

  (* B4 *)
  Theorem corr_term_bounds r1 r2 :
    nonzero_row r1 -> nonzero_row r2 ->
    -1 <= dotr r1 r2 / (sqrt (dotr r1 r1) * sqrt (dotr r2 r2)) <= 1.
  Proof.
    intros H1 H2. apply corr_quot_bounds.
    - apply nonzero_row_pos; exact H1.
    - apply nonzero_row_pos; exact H2.
    - apply cauchy_schwarz.
  Qed.

  Lemma cterm_sym r1 r2 : cterm r1 r2 = cterm r2 r1.
  Proof. unfold cterm. rewrite (dot_rows_sym r1 r2). f_equal. apply Rmult_comm. Qed.

  Lemma cterm_self r : nonzero_row r -> cterm r r = 1.
  Proof. intros Hr. unfold cterm. apply self_quot_one. apply nonzero_row_pos; exact Hr. Qed.

  Lemma gterm_cterm m1 m2 i j :
    gterm Rops sqrt conv m1 m2 i j = cterm (row m1 i) (row m2 j).
  Proof. reflexivity. Qed.

  (* ---------- cross_correlation ---------- *)

  Lemma cross_correlation_R m1 m2 :
    cross_correlation Rops sqrt conv m1 m2
    = Ok (Rsum (map (fun i => cterm (row m1 i) (row m2 i))
                    (seq 0 (Nat.min (length m1) (length m2))))
          / INR (Nat.min (length m1) (length m2))).
  Proof.
    rewrite cross_correlation_eq. cbv zeta.
    rewrite (fold_add_Rsum (fun i => gterm Rops sqrt conv m1 m2 i i)).
    rewrite of_N_of_nat. cbn [n_div n_zero Rops]. rewrite Rplus_0_l. reflexivity.
  Qed.

  (* B5 *)
  Theorem cross_correlation_sym m1 m2 :
    cross_correlation Rops sqrt conv m1 m2 = cross_correlation Rops sqrt conv m2 m1.
  Proof.
    rewrite !cross_correlation_R. rewrite (Nat.min_comm (length m2) (length m1)).
    do 3 f_equal. apply map_ext. intros i. apply cterm_sym.
  Qed.

  Lemma mean_in_range (l : list R) :
    l <> [] -> Forall (fun x => -1 <= x <= 1) l -> -1 <= Rsum l / INR (length l) <= 1.
  Proof.
    intros Hne Hl. apply mean_bounds.
    - apply lt_0_INR. destruct l; [congruence|cbn [length]; lia].
    - apply Rsum_bounds; exact Hl.
  Qed.

  Lemma mean_all_one (l : list R) :
    l <> [] -> Forall (fun x => x = 1) l -> Rsum l / INR (length l) = 1.
  Proof.
    intros Hne Hl. rewrite (Rsum_all_one l Hl). unfold Rdiv. apply Rinv_r.
    apply not_0_INR. destruct l; [congruence|cbn [length]; lia].
  Qed.

  (* B6 *)
  Theorem cross_correlation_bounds m1 m2 :
    let n := Nat.min (length m1) (length m2) in
    (0 < n)%nat ->
    Forall nonzero_row (firstn n m1) -> Forall nonzero_row (firstn n m2) ->
    exists c, cross_correlation Rops sqrt conv m1 m2 = Ok c /\ -1 <= c <= 1.
  Proof.
    intros n Hn H1 H2. rewrite cross_correlation_R. fold n.
    eexists. split; [reflexivity|].
    set (l := map (fun i => cterm (row m1 i) (row m2 i)) (seq 0 n)).
    assert (Hlen : length l = n) by (unfold l; rewrite map_length, seq_length; reflexivity).
    rewrite <- Hlen. apply mean_in_range.
    - intros Hnil. rewrite Hnil in Hlen. cbn [length] in Hlen. lia.
    - unfold l. apply Forall_forall. intros x Hx. apply in_map_iff in Hx.
      destruct Hx as [i [<- Hi]]. apply in_seq in Hi.
      assert (Hi1 : (i < length m1)%nat) by (unfold n in Hi; lia).
      assert (Hi2 : (i < length m2)%nat) by (unfold n in Hi; lia).
      apply corr_term_bounds.
      + rewrite Forall_forall in H1. apply H1. unfold row. apply In_nth_firstn; lia.
      + rewrite Forall_forall in H2. apply H2. unfold row. apply In_nth_firstn; lia.
  Qed.

  (* B7 *)
  Theorem cross_correlation_self m :
    m <> [] -> Forall nonzero_row m -> cross_correlation Rops sqrt conv m m = Ok 1.
  Proof.
    intros Hne Hm. rewrite cross_correlation_R. rewrite Nat.min_id. f_equal.
    set (l := map (fun i => cterm (row m i) (row m i)) (seq 0 (length m))).
    assert (Hlen : length l = length m)
      by (unfold l; rewrite map_length, seq_length; reflexivity).
    rewrite <- Hlen. apply mean_all_one.
    - intros Hnil. rewrite Hnil in Hlen. cbn [length] in Hlen.
      destruct m; [congruence|discriminate].
    - unfold l. apply Forall_forall. intros x Hx. apply in_map_iff in Hx.
      destruct Hx as [i [<- Hi]]. apply in_seq in Hi. apply cterm_self.
      rewrite Forall_forall in Hm. apply Hm. unfold row. apply nth_In. lia.
  Qed.

  (* ---------- auto_correlation ---------- *)

  Lemma auto_correlation_R m delay :
    (delay < length m)%nat ->
    auto_correlation Rops sqrt conv m delay
    = Ok (Rsum (map (fun i => cterm (row m i) (row m (i + delay)))
                    (seq 0 (length m - delay)))
          / INR (length m - delay)).
  Proof.
    intros Hd. rewrite (auto_correlation_eq Rops sqrt conv m delay Hd).
    rewrite (fold_add_Rsum (fun p => gterm Rops sqrt conv m m (fst p) (snd p))).
    rewrite of_N_of_nat. cbn [n_div n_zero Rops]. rewrite Rplus_0_l.
    unfold auto_pairs. rewrite map_map. reflexivity.
  Qed.

  (* B8 *)
  Theorem auto_correlation_bounds m delay :
    (delay < length m)%nat -> Forall nonzero_row m ->
    exists c, auto_correlation Rops sqrt conv m delay = Ok c /\ -1 <= c <= 1.
  Proof.
    intros Hd Hm. rewrite (auto_correlation_R m delay Hd).
    eexists. split; [reflexivity|].
    set (l := map (fun i => cterm (row m i) (row m (i + delay))) (seq 0 (length m - delay))).
    assert (Hlen : length l = (length m - delay)%nat)
      by (unfold l; rewrite map_length, seq_length; reflexivity).
    rewrite <- Hlen. apply mean_in_range.
    - intros Hnil. rewrite Hnil in Hlen. cbn [length] in Hlen. lia.
    - unfold l. apply Forall_forall. intros x Hx. apply in_map_iff in Hx.
      destruct Hx as [i [<- Hi]]. apply in_seq in Hi.
      rewrite Forall_forall in Hm.
      apply corr_term_bounds; apply Hm; unfold row; apply nth_In; lia.
  Qed.

  (* B10: the crate's unit test (auto_correlation(4) = 1.0 on a period-4 matrix) as a theorem *)
  Theorem auto_correlation_periodic m delay :
    (delay < length m)%nat -> Forall nonzero_row m ->
    (forall i, (i + delay < length m)%nat -> nth_error m (i + delay) = nth_error m i) ->
    auto_correlation Rops sqrt conv m delay = Ok 1.
  Proof.
    intros Hd Hm Hper. rewrite (auto_correlation_R m delay Hd). f_equal.
    set (l := map (fun i => cterm (row m i) (row m (i + delay))) (seq 0 (length m - delay))).
    assert (Hlen : length l = (length m - delay)%nat)
      by (unfold l; rewrite map_length, seq_length; reflexivity).
    rewrite <- Hlen. apply mean_all_one.
    - intros Hnil. rewrite Hnil in Hlen. cbn [length] in Hlen. lia.
    - unfold l. apply Forall_forall. intros x Hx. apply in_map_iff in Hx.
      destruct Hx as [i [<- Hi]]. apply in_seq in Hi.
      assert (Hid : (i + delay < length m)%nat) by lia.
      assert (Hrow : row m (i + delay) = row m i).
      { pose proof (Hper i Hid) as He.
        rewrite (nth_error_row m (i + delay) Hid) in He.
        rewrite (nth_error_row m i) in He by lia. congruence. }
      rewrite Hrow. apply cterm_self.
      rewrite Forall_forall in Hm. apply Hm. unfold row. apply nth_In. lia.
  Qed.

  (* B9 *)
  Theorem auto_correlation_zero_delay m :
    m <> [] -> Forall nonzero_row m -> auto_correlation Rops sqrt conv m 0 = Ok 1.
  Proof.
    intros Hne Hm. apply auto_correlation_periodic.
    - destruct m; [congruence|cbn [length]; lia].
    - exact Hm.
    - intros i _. rewrite Nat.add_0_r. reflexivity.
  Qed.
End CorrR.

