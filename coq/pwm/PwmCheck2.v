(* Round 3, wave 3 (review findings C09/2, C09/5, C10/3, X4, X5): second generation of the
   extracted checkers.  Definitions only (soundness: PwmCheck2Sound.v).

   Every checker of PwmCheck.v that answers [true] on inputs it cannot judge gets a
   companion [*_skipped] that says exactly when that happens; the driver counts the
   skipped comparisons and prints them behind the verdict (`OK skipped=...`), so that a
   comparison that was not made is never a silent OK.  The soundness lemmas have the form
   [check = true -> skipped = false -> conclusion].

   [check_freq_row2] replaces [check_freq_row]: the decision to skip depends on the INPUT
   only (pseudocounts finite and >= 0, exact total in (0, 2^100]); when the input is in
   that domain a non-finite observed cell is a failure (the binary32 model is finite there:
   PwmF32FreqFinite.v), not an escape. *)
From Coq Require Import List ZArith NArith Bool Arith QArith Qabs.
From Flocq Require Import BinarySingleNaN.
From LMBase Require Import Res ListX IEEE.
From LMPwm Require Import GenComplement PwmModel PwmCheck.
Import ListNotations.
Local Open Scope nat_scope.

(* ---------- frequencies ---------- *)

(* exact numerators count + pseudocount and their exact total *)
Definition freq_num_Q (p : list Q) (counts : list N) : list Q :=
  map2 (fun c x => (Z.of_N c # 1) + x)%Q counts p.

(* the domain on which "frequency = (count+pseudocount)/total" is judged: a function of
   the input alone.  0 = judged; 1 = a pseudocount is NaN/infinite; 2 = a pseudocount is
   negative; 3 = the exact total is 0 (the code computes 0/0); 4 = the exact total is above
   2^100 (binary32 overflow of the total is possible) *)
Definition freq_row_skip_reason (pseudo : list F32.t) (counts : list N) : nat :=
  match all_some (map f32_to_Q pseudo) with
  | None => 1
  | Some p =>
      if negb (forallb (fun x => Qleb 0 x) p) then 2
      else let tot := Qsum (freq_num_Q p counts) in
           if Qeq_bool tot 0 then 3
           else if negb (Qleb tot (Z.pow 2 100 # 1)) then 4 else 0
  end.

Definition freq_row_skipped (pseudo : list F32.t) (counts : list N) : bool :=
  negb (freq_row_skip_reason pseudo counts =? 0).

Definition check_freq_row2 (eps : Q) (pseudo : list F32.t) (counts : list N) (obs : list F32.t) : bool :=
  if freq_row_skipped pseudo counts then true
  else match all_some (map f32_to_Q pseudo), all_some (map f32_to_Q obs) with
       | Some p, Some o =>
           let num := freq_num_Q p counts in
           let tot := Qsum num in
           (length o =? length num)
           && forallb (fun b => b) (map2 (fun x y => Qleb (Qabs (x - y / tot)) eps) o num)
           && Qleb (Qabs (Qsum o - 1)) (eps * (Z.of_nat (length o) # 1))
       | _, _ => false                        (* a NaN / infinite observed cell on a judged row *)
       end.

Definition check_freq2 (eps : Q) (pseudo : list F32.t) (cm : cmatrix) (obs : list (list F32.t)) : bool :=
  (length cm =? length obs) && forallb (fun b => b) (map2 (check_freq_row2 eps pseudo) cm obs).

(* number of rows that were not judged *)
Definition freq_skips (pseudo : list F32.t) (cm : cmatrix) : nat :=
  length (filter (freq_row_skipped pseudo) cm).

(* ---------- weights / rescale: which cells were not judged ---------- *)

Definition is_fin (x : F32.t) : bool := match f32_to_Q x with Some _ => true | None => false end.

(* judged: background == 0 (weight must be 0), or all three values finite *)
Definition weight_cell_skipped (f bg w : F32.t) : bool :=
  if F32.eq bg F32.zero then false else negb (is_fin f && is_fin bg && is_fin w).

Definition rescale_cell_skipped (f old new w : F32.t) : bool :=
  if F32.eq new F32.zero then false
  else if F32.eq old F32.zero then true
  else negb (is_fin f && is_fin old && is_fin new && is_fin w).

Definition count_true (l : list bool) : nat := length (filter (fun b => b) l).

Definition weight_skips (bg : list F32.t) (fq wm : list (list F32.t)) : nat :=
  fold_left Nat.add (map2 (fun fr wr => count_true (map3 weight_cell_skipped fr bg wr)) fq wm) 0.

Definition rescale_skips (old new : list F32.t) (fq rs : list (list F32.t)) : nat :=
  fold_left Nat.add (map2 (fun fr wr => count_true (map4 rescale_cell_skipped fr old new wr)) fq rs) 0.

(* ---------- scores against the oracle value ---------- *)

(* The whole decision the driver used to make by hand (review C09/1, driver.ml:303):
   [neg_inf_at_zero] = the base is finite and > 1 (log_b 0 = -inf); [e] = the oracle's
   logarithm of the weight cell.
   - background == 0 and [neg_inf_at_zero]: the score must be -inf (bit pattern);
   - otherwise the score must be close to [e]; only a NaN [e] (logarithm of a negative
     weight, NaN base ...) cannot be judged.  (A NaN score against a non-NaN [e] is a
     failure; check_score_cell of PwmCheck.v let it pass.) *)
Definition score_cell_skipped (neg_inf_at_zero : bool) (e bg : F32.t) : bool :=
  if F32.eq bg F32.zero && neg_inf_at_zero then false else F32.is_nan e.

Definition check_score_cell2 (abs rel : Q) (neg_inf_at_zero : bool) (e bg o : F32.t) : bool :=
  if F32.eq bg F32.zero && neg_inf_at_zero then f32_same o F32.ninf
  else if F32.is_nan e then true
  else f32_close abs rel e o.

(* ---------- window / mirror: not judged ---------- *)

Definition window_skipped (mn mx w : F32.t) : bool :=
  F32.is_nan mn || F32.is_nan mx || F32.is_nan w.

(* mirrored scores: judged when no term is NaN / +inf, both scores are not NaN, and either
   a term is -inf (scores must be bit-identical) or all terms and both scores are finite *)
Definition mirror_skipped (terms : list F32.t) (a b : F32.t) : bool :=
  if existsb F32.is_nan terms || F32.is_nan a || F32.is_nan b then true
  else match all_some (map f32_to_Q terms) with
       | Some _ => negb (is_fin a && is_fin b)
       | None => existsb (fun t => F32.eq t F32.inf) terms
       end.

(* ---------- one-step = two-step, exactly ---------- *)
Definition check_one_step_two_step (s1 s2 : list (list F32.t)) : bool := fm_same s1 s2.
