(* binary32 (bit-exact model) symmetry of [cross_correlation]:
   BinarySingleNaN has a single NaN, so [Bmult mode_NE] is commutative on the nose, and
   symmetry of the correlation needs nothing else (commutativity of the product used in
   [dot_rows] and in the product of the two norms). *)
From Coq Require Import List ZArith NArith Bool Arith Lia.
From Flocq Require Import Core BinarySingleNaN.
From LMBase Require Import Res ListX IEEE.
From LMPwm Require Import PwmModel PwmStat PwmStatCorr.
Import ListNotations.

(* ---------- commutativity of the binary32 product ---------- *)

Lemma Bmult_comm_gen (prec emax : Z) (Hp : Prec_gt_0 prec) (Hm : Prec_lt_emax prec emax)
      (m : mode) (x y : binary_float prec emax) :
  Bmult m x y = Bmult m y x.
Proof.
  destruct x as [sx|sx| |sx mx ex Hx]; destruct y as [sy|sy| |sy my ey Hy];
    cbn [Bmult]; try reflexivity; try (rewrite (xorb_comm sx sy); reflexivity).
  apply B2SF_inj. rewrite !B2SF_SF2B.
  rewrite (xorb_comm sx sy), (Pos.mul_comm mx my), (Z.add_comm ex ey). reflexivity.
Qed.

Lemma f32_mul_comm (x y : F32.t) : F32.mul x y = F32.mul y x.
Proof. unfold F32.mul, fmul. apply Bmult_comm_gen. Qed.

(* ---------- symmetry over any carrier with a commutative product ---------- *)

Section SymGen.
  Context {T : Type}.
  Variable O : NumOps T.
  Variable fsqrt : T -> T.
  Context {C : Type}.
  Variable conv : C -> T.
  Hypothesis Hmul : forall x y : T, n_mul O x y = n_mul O y x.

  Lemma map2_comm_gen (r1 r2 : list C) :
    map2 (fun x y => n_mul O (conv x) (conv y)) r1 r2
    = map2 (fun x y => n_mul O (conv x) (conv y)) r2 r1.
  Proof.
    revert r2. induction r1 as [|x r1 IH]; intros [|y r2]; cbn [map2]; try reflexivity.
    rewrite (Hmul (conv x) (conv y)), (IH r2). reflexivity.
  Qed.

  Lemma dot_rows_comm_gen (r1 r2 : list C) : dot_rows O conv r1 r2 = dot_rows O conv r2 r1.
  Proof. unfold dot_rows. rewrite map2_comm_gen. reflexivity. Qed.

  Lemma gterm_comm_gen (m1 m2 : list (list C)) (i j : nat) :
    gterm O fsqrt conv m1 m2 i j = gterm O fsqrt conv m2 m1 j i.
  Proof.
    unfold gterm, gdot.
    rewrite (dot_rows_comm_gen (row m1 i) (row m2 j)).
    rewrite (Hmul (gnorm O fsqrt conv m1 i) (gnorm O fsqrt conv m2 j)). reflexivity.
  Qed.

  Lemma fold_gterm_comm_gen (m1 m2 : list (list C)) (l : list nat) (c : T) :
    fold_left (fun c i => n_add O c (gterm O fsqrt conv m1 m2 i i)) l c
    = fold_left (fun c i => n_add O c (gterm O fsqrt conv m2 m1 i i)) l c.
  Proof.
    revert c. induction l as [|i l IH]; intros c; cbn [fold_left].
    - reflexivity.
    - rewrite (gterm_comm_gen m1 m2 i i). apply IH.
  Qed.

  Theorem cross_correlation_sym_gen (m1 m2 : list (list C)) :
    cross_correlation O fsqrt conv m1 m2 = cross_correlation O fsqrt conv m2 m1.
  Proof.
    rewrite !cross_correlation_eq. cbv zeta.
    rewrite (Nat.min_comm (length m2) (length m1)).
    rewrite (fold_gterm_comm_gen m1 m2). reflexivity.
  Qed.
End SymGen.

(* ---------- binary32 ---------- *)

Theorem cross_correlation_sym_f32 {C : Type} (conv : C -> F32.t) (m1 m2 : list (list C)) :
  cross_correlation F32ops f32_sqrt conv m1 m2 = cross_correlation F32ops f32_sqrt conv m2 m1.
Proof.
  apply cross_correlation_sym_gen. intros x y. exact (f32_mul_comm x y).
Qed.

