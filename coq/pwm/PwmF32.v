(* binary32 (Flocq) facts for C09: min_score <= window <= max_score holds EXACTLY in
   IEEE arithmetic (no tolerance), whenever the three values are not NaN.

   Reason: min_score, max_score and score_position add one cell per row in the same
   (row) order, rounded addition is monotone in both arguments, and a NaN propagates
   to the end of a sum, so "the result is not NaN" rules out every inf - inf on the way.
   The generic ordered-monoid theorem of PwmProofs.v cannot be instantiated with
   binary32 (<= is not reflexive on NaN, and with NaN as top/bottom element addition is
   not monotone: -inf + inf vs finite + inf); this file redoes it relative to a
   predicate [good] (= not NaN) that addition reflects. *)
From Coq Require Import List ZArith NArith Bool Arith Lia Reals Lra.
From Coq Require Import SpecFloat.
From Flocq Require Import Core BinarySingleNaN.
From LMBase Require Import Res ListX IEEE.
From LMPwm Require Import GenComplement PwmModel PwmProofs PwmCheck.
Import ListNotations.

Section MinMaxGood.
  Context {T : Type}.
  Variable O : NumOps T.
  Variable K : nat.
  Variable le : T -> T -> Prop.
  Variable good : T -> Prop.
  Hypothesis le_refl : forall a, good a -> le a a.
  Hypothesis le_trans : forall a b c, le a b -> le b c -> le a c.
  Hypothesis add_mono : forall a b c d, le a b -> le c d ->
    good (n_add O a c) -> good (n_add O b d) -> le (n_add O a c) (n_add O b d).
  Hypothesis add_good : forall a b, good (n_add O a b) -> good a /\ good b.
  Hypothesis cmp_le : forall a b,
    match n_cmp O a b with
    | Some Lt => le a b
    | Some Eq => le a b /\ le b a
    | Some Gt => le b a
    | None => True
    end.
  Hypothesis zeros : le (n_szero O) (n_zero O) /\ le (n_zero O) (n_szero O).

  Lemma min_by_from_le_g : forall l best v, good v -> min_by_from O best l = Ok v ->
    le v best /\ Forall (fun y => le v y) l.
  Proof.
    induction l as [|y r IH]; intros best v Hg H; simpl in H.
    - inversion H; subst. split; [apply le_refl; exact Hg | constructor].
    - pose proof (cmp_le best y) as Hc.
      destruct (n_cmp O best y) as [[| |]|]; try discriminate.
      + destruct (IH best v Hg H) as [H1 H2]. destruct Hc as [Hby _].
        split; [exact H1|]. constructor; [eapply le_trans; eauto | exact H2].
      + destruct (IH best v Hg H) as [H1 H2].
        split; [exact H1|]. constructor; [eapply le_trans; eauto | exact H2].
      + destruct (IH y v Hg H) as [H1 H2].
        split; [eapply le_trans; eauto|]. constructor; [exact H1 | exact H2].
  Qed.

  Lemma max_by_from_le_g : forall l best v, good v -> max_by_from O best l = Ok v ->
    le best v /\ Forall (fun y => le y v) l.
  Proof.
    induction l as [|y r IH]; intros best v Hg H; simpl in H.
    - inversion H; subst. split; [apply le_refl; exact Hg | constructor].
    - pose proof (cmp_le best y) as Hc.
      destruct (n_cmp O best y) as [[| |]|]; try discriminate.
      + destruct (IH y v Hg H) as [H1 H2]. destruct Hc as [Hby _].
        split; [eapply le_trans; eauto|]. constructor; [exact H1 | exact H2].
      + destruct (IH y v Hg H) as [H1 H2].
        split; [eapply le_trans; eauto|]. constructor; [exact H1 | exact H2].
      + destruct (IH best v Hg H) as [H1 H2].
        split; [exact H1|]. constructor; [eapply le_trans; eauto | exact H2].
  Qed.

  Lemma row_min_le_g row v x d : good v -> row_min O K row = Ok v -> x < K - 1 -> x < length row ->
    le v (nth x row d).
  Proof.
    intros Hg H Hx Hl. unfold row_min in H.
    assert (Hn : nth x row d = nth x (firstn (K - 1) row) d).
    { rewrite <- (firstn_skipn (K - 1) row) at 1. apply app_nth1. rewrite firstn_length. lia. }
    assert (Hlen : x < length (firstn (K - 1) row)) by (rewrite firstn_length; lia).
    rewrite Hn. destruct (firstn (K - 1) row) as [|y r]; [simpl in Hlen; lia|].
    destruct (min_by_from_le_g r y v Hg H) as [H1 H2].
    destruct x as [|x]; simpl; [exact H1|].
    rewrite Forall_forall in H2. apply H2. apply nth_In. simpl in Hlen. lia.
  Qed.

  Lemma row_max_le_g row v x d : good v -> row_max O K row = Ok v -> x < K - 1 -> x < length row ->
    le (nth x row d) v.
  Proof.
    intros Hg H Hx Hl. unfold row_max in H.
    assert (Hn : nth x row d = nth x (firstn (K - 1) row) d).
    { rewrite <- (firstn_skipn (K - 1) row) at 1. apply app_nth1. rewrite firstn_length. lia. }
    assert (Hlen : x < length (firstn (K - 1) row)) by (rewrite firstn_length; lia).
    rewrite Hn. destruct (firstn (K - 1) row) as [|y r]; [simpl in Hlen; lia|].
    destruct (max_by_from_le_g r y v Hg H) as [H1 H2].
    destruct x as [|x]; simpl; [exact H1|].
    rewrite Forall_forall in H2. apply H2. apply nth_In. simpl in Hlen. lia.
  Qed.

  (* a good sum has a good start and good terms (NaN propagates) *)
  Lemma fold_good : forall l a, good (fold_left (n_add O) l a) -> good a /\ Forall good l.
  Proof.
    induction l as [|x r IH]; intros a H; simpl in H.
    - split; [exact H | constructor].
    - destruct (IH _ H) as [H1 H2]. destruct (add_good _ _ H1) as [Ha Hx].
      split; [exact Ha | constructor; assumption].
  Qed.

  Lemma fold_add_mono_g : forall l1 l2 a b, Forall2 le l1 l2 -> le a b ->
    good (fold_left (n_add O) l1 a) -> good (fold_left (n_add O) l2 b) ->
    le (fold_left (n_add O) l1 a) (fold_left (n_add O) l2 b).
  Proof.
    induction l1 as [|x r IH]; intros l2 a b H Hab G1 G2; inversion H; subst; simpl in *; auto.
    apply IH; auto. apply add_mono; auto.
    - exact (proj1 (fold_good _ _ G1)).
    - exact (proj1 (fold_good _ _ G2)).
  Qed.

  Lemma window_lower_terms : forall m s mins,
    Forall (fun row => length row = K) m ->
    Forall2 (fun row v => row_min O K row = Ok v) m mins -> Forall good mins ->
    length m <= length s -> Forall (fun x => x < K - 1) (firstn (length m) s) ->
    Forall2 le mins (map2 (fun row x => nth x row (n_zero O)) m s).
  Proof.
    induction m as [|row m IH]; intros s mins Hrows Hmin Hg Hlen Hclean.
    - inversion Hmin; subst. simpl. constructor.
    - destruct s as [|x s]; [simpl in Hlen; lia|].
      pose proof (Forall_inv Hrows) as Hrow. pose proof (Forall_inv_tail Hrows) as Hrows'. clear Hrows.
      simpl in Hclean.
      pose proof (Forall_inv Hclean) as Hx. pose proof (Forall_inv_tail Hclean) as Hclean'. clear Hclean.
      revert Hrow Hx Hg.
      inversion Hmin as [|? vmin ? mins' Hv Hmin']; subst.
      intros Hrow Hx Hg.
      pose proof (Forall_inv Hg) as Hg1. pose proof (Forall_inv_tail Hg) as Hg'.
      simpl. constructor.
      + apply row_min_le_g; [exact Hg1 | exact Hv | exact Hx | lia].
      + apply IH; auto. simpl in Hlen; lia.
  Qed.

  Lemma window_upper_terms : forall m s maxs,
    Forall (fun row => length row = K) m ->
    Forall2 (fun row v => row_max O K row = Ok v) m maxs -> Forall good maxs ->
    length m <= length s -> Forall (fun x => x < K - 1) (firstn (length m) s) ->
    Forall2 le (map2 (fun row x => nth x row (n_zero O)) m s) maxs.
  Proof.
    induction m as [|row m IH]; intros s maxs Hrows Hmax Hg Hlen Hclean.
    - inversion Hmax; subst. simpl. constructor.
    - destruct s as [|x s]; [simpl in Hlen; lia|].
      pose proof (Forall_inv Hrows) as Hrow. pose proof (Forall_inv_tail Hrows) as Hrows'. clear Hrows.
      simpl in Hclean.
      pose proof (Forall_inv Hclean) as Hx. pose proof (Forall_inv_tail Hclean) as Hclean'. clear Hclean.
      revert Hrow Hx Hg.
      inversion Hmax as [|? vmax ? maxs' Hv Hmax']; subst.
      intros Hrow Hx Hg.
      pose proof (Forall_inv Hg) as Hg1. pose proof (Forall_inv_tail Hg) as Hg'.
      simpl. constructor.
      + apply row_max_le_g; [exact Hg1 | exact Hv | exact Hx | lia].
      + apply IH; auto. simpl in Hlen; lia.
  Qed.

  Lemma window_between_min_max_good C m s pos mn mx :
    0 < C -> Forall (fun row => length row = K) m ->
    pos + length m <= length s ->
    Forall (fun x => x < K - 1) (firstn (length m) (skipn pos s)) ->
    min_score O K m = Ok mn -> max_score O K m = Ok mx ->
    exists w, score_position O K C m s pos = Ok w /\
              (good mn -> good w -> le mn w) /\ (good w -> good mx -> le w mx).
  Proof.
    intros HC Hrows Hpos Hclean Hmn Hmx.
    rewrite (score_position_in O K C m s pos HC Hpos).
    eexists; split; [reflexivity|].
    unfold min_score in Hmn. unfold max_score in Hmx.
    destruct (map_res (row_min O K) m) as [mins| | |] eqn:Emin; simpl in Hmn; try discriminate.
    destruct (map_res (row_max O K) m) as [maxs| | |] eqn:Emax; simpl in Hmx; try discriminate.
    inversion Hmn; inversion Hmx; subst.
    assert (Hl : length m <= length (skipn pos s)) by (rewrite skipn_length; lia).
    unfold fsum, window_terms. split.
    - intros G1 G2. apply fold_add_mono_g; auto; [|apply zeros].
      apply window_lower_terms; auto.
      + exact (map_res_ok _ _ _ Emin).
      + exact (proj2 (fold_good _ _ G1)).
    - intros G1 G2. apply fold_add_mono_g; auto; [|apply zeros].
      apply window_upper_terms; auto.
      + exact (map_res_ok _ _ _ Emax).
      + exact (proj2 (fold_good _ _ G2)).
  Qed.
End MinMaxGood.

(* ---------- the binary32 instance ---------- *)

Local Open Scope R_scope.

Notation fexp32 := (SpecFloat.fexp 24 128).
Notation rnd32 := (round radix2 fexp32 (round_mode mode_NE)).
Notation fin := (@BinarySingleNaN.is_finite 24 128).
Notation big := (bpow radix2 128).

Local Instance vexp32 : Valid_exp fexp32 := fexp_correct 24 128 Hprec32.
Local Instance vrnd32 : Valid_rnd (round_mode mode_NE) := valid_rnd_round_mode mode_NE.

Definition fle (x y : f32) : Prop := F32.le x y = true.
Definition notnan (x : f32) : Prop := F32.is_nan x = false.

Lemma fle_finite (x y : f32) : fin x = true -> fin y = true -> (fle x y <-> B2R x <= B2R y).
Proof.
  intros Hx Hy. unfold fle, F32.le, IEEE.fle, fcmp.
  rewrite (Bcompare_correct 24 128 x y Hx Hy).
  destruct (Rcompare_spec (B2R x) (B2R y)); split; intros H'; try reflexivity; try discriminate; lra.
Qed.

Lemma fle_notnan (a b : f32) : fle a b -> notnan a /\ notnan b.
Proof.
  unfold fle, notnan.
  destruct a as [sa|sa| |sa ma ea Ha]; destruct b as [sb|sb| |sb mb eb Hb];
    try (intros _; split; reflexivity); intros H; try discriminate H;
    try (destruct sa; discriminate H); try (destruct sb; discriminate H).
Qed.

Lemma fle_ninf_any (v : f32) : notnan v -> fle (B754_infinity true) v.
Proof. destruct v as [s|s| |s m e H]; try discriminate; intros _; try destruct s; reflexivity. Qed.

Lemma fle_any_pinf (u : f32) : notnan u -> fle u (B754_infinity false).
Proof. destruct u as [s|s| |s m e H]; try discriminate; intros _; try destruct s; reflexivity. Qed.

Lemma fle_pinf_l (b : f32) : fle (B754_infinity false) b -> b = B754_infinity false.
Proof. destruct b as [s|s| |s m e H]; try destruct s; try discriminate; reflexivity. Qed.

Lemma fle_ninf_r (a : f32) : fle a (B754_infinity true) -> a = B754_infinity true.
Proof. destruct a as [s|s| |s m e H]; try destruct s; try discriminate; reflexivity. Qed.

(* a non-NaN value is -inf, +inf or finite *)
Lemma notnan_cases (a : f32) : notnan a ->
  a = B754_infinity true \/ a = B754_infinity false \/ fin a = true.
Proof. destruct a as [s|[|]| |s m e H]; try discriminate; auto. Qed.

Lemma fle_refl (a : f32) : notnan a -> fle a a.
Proof.
  intros H. destruct (notnan_cases a H) as [E|[E|F]]; try (subst a; reflexivity).
  apply fle_finite; auto. lra.
Qed.

Lemma fle_trans (a b c : f32) : fle a b -> fle b c -> fle a c.
Proof.
  intros Hab Hbc.
  destruct (fle_notnan _ _ Hab) as [Na Nb]. destruct (fle_notnan _ _ Hbc) as [_ Nc].
  destruct (notnan_cases a Na) as [Ea|[Ea|Fa]].
  - subst a. apply fle_ninf_any; exact Nc.
  - subst a. rewrite (fle_pinf_l b Hab) in Hbc. rewrite (fle_pinf_l c Hbc). reflexivity.
  - destruct (notnan_cases c Nc) as [Ec|[Ec|Fc]].
    + subst c. rewrite (fle_ninf_r b Hbc) in Hab. rewrite (fle_ninf_r a Hab). reflexivity.
    + subst c. apply fle_any_pinf; exact Na.
    + destruct (notnan_cases b Nb) as [Eb|[Eb|Fb]].
      * subst b. rewrite (fle_ninf_r a Hab) in Fa. discriminate.
      * subst b. rewrite (fle_pinf_l c Hbc) in Fc. discriminate.
      * apply fle_finite; auto.
        apply (fle_finite a b Fa Fb) in Hab. apply (fle_finite b c Fb Fc) in Hbc. lra.
Qed.

(* NaN propagates through an addition *)
Lemma add_notnan (a b : f32) : notnan (F32.add a b) -> notnan a /\ notnan b.
Proof.
  unfold notnan.
  destruct a as [sa|sa| |sa ma ea Ha]; destruct b as [sb|sb| |sb mb eb Hb];
    intros H; split; try reflexivity; try exact H; discriminate H.
Qed.

Lemma add_ninf_l (c : f32) : notnan (F32.add (B754_infinity true) c) ->
  F32.add (B754_infinity true) c = B754_infinity true.
Proof. destruct c as [s|[|]| |s m e H]; try discriminate; intros _; reflexivity. Qed.
Lemma add_ninf_r (c : f32) : notnan (F32.add c (B754_infinity true)) ->
  F32.add c (B754_infinity true) = B754_infinity true.
Proof. destruct c as [s|[|]| |s m e H]; try discriminate; intros _; reflexivity. Qed.
Lemma add_pinf_l (c : f32) : notnan (F32.add (B754_infinity false) c) ->
  F32.add (B754_infinity false) c = B754_infinity false.
Proof. destruct c as [s|[|]| |s m e H]; try discriminate; intros _; reflexivity. Qed.
Lemma add_pinf_r (c : f32) : notnan (F32.add c (B754_infinity false)) ->
  F32.add c (B754_infinity false) = B754_infinity false.
Proof. destruct c as [s|[|]| |s m e H]; try discriminate; intros _; reflexivity. Qed.

Lemma Bsign_true_R (x : f32) : fin x = true -> Bsign x = true -> B2R x <= 0.
Proof.
  destruct x as [s|s| |s m e H]; try discriminate; cbn [Bsign B2R]; intros _ Hs.
  - lra.
  - subst s. left. apply F2R_lt_0. cbn. lia.
Qed.

Lemma Bsign_false_R (x : f32) : fin x = true -> Bsign x = false -> 0 <= B2R x.
Proof.
  destruct x as [s|s| |s m e H]; try discriminate; cbn [Bsign B2R]; intros _ Hs.
  - lra.
  - subst s. left. apply F2R_gt_0. cbn. lia.
Qed.

Lemma B2SF_inf (r : f32) s : B2SF r = S754_infinity s -> r = B754_infinity s.
Proof. destruct r; cbn; intros H; inversion H; reflexivity. Qed.

(* what Flocq's correctness theorems say of a rounded operation whose exact result is x:
   the rounding of x, or the infinity of the sign of x on overflow *)
Definition rspec (x : R) (a : f32) (sx : bool) : Prop :=
  if Rlt_bool (Rabs (rnd32 x)) big
  then B2R a = rnd32 x /\ fin a = true
  else a = B754_infinity sx /\ (sx = true -> x <= 0) /\ (sx = false -> 0 <= x).

Lemma rnd32_le x y : x <= y -> rnd32 x <= rnd32 y.
Proof. intros H. apply round_le; auto with typeclass_instances. Qed.

Lemma rnd32_0 : rnd32 0 = 0.
Proof. apply round_0. auto with typeclass_instances. Qed.

Lemma big_pos : 0 < big.
Proof. apply bpow_gt_0. Qed.

Lemma rspec_mono x y a b sx sy : x <= y -> rspec x a sx -> rspec y b sy -> fle a b.
Proof.
  intros Hxy. unfold rspec.
  pose proof (rnd32_le x y Hxy) as Hr. pose proof big_pos as Hbig.
  destruct (Rlt_bool_spec (Rabs (rnd32 x)) big) as [Hx|Hx];
    destruct (Rlt_bool_spec (Rabs (rnd32 y)) big) as [Hy|Hy].
  - intros [Ha Fa] [Hb Fb]. apply fle_finite; try assumption. rewrite Ha, Hb. exact Hr.
  - intros [Ha Fa] [Hb [Hs1 Hs2]]. subst b. destruct sy.
    + exfalso. specialize (Hs1 eq_refl).
      pose proof (rnd32_le y 0 Hs1) as H0. rewrite rnd32_0 in H0.
      rewrite Rabs_left1 in Hy by exact H0.
      assert (Hx0 : rnd32 x <= 0) by lra. rewrite Rabs_left1 in Hx by exact Hx0. lra.
    + apply fle_any_pinf. destruct a; try discriminate; reflexivity.
  - intros [Ha [Hs1 Hs2]] [Hb Fb]. subst a. destruct sx.
    + apply fle_ninf_any. destruct b; try discriminate; reflexivity.
    + exfalso. specialize (Hs2 eq_refl).
      pose proof (rnd32_le 0 x Hs2) as H0. rewrite rnd32_0 in H0.
      rewrite Rabs_pos_eq in Hx by exact H0.
      assert (Hy0 : 0 <= rnd32 y) by lra. rewrite Rabs_pos_eq in Hy by exact Hy0. lra.
  - intros [Ha [Hs1 Hs2]] [Hb [Ht1 Ht2]]. subst a b. destruct sx; [destruct sy; reflexivity|].
    destruct sy; [|reflexivity]. exfalso.
    specialize (Hs2 eq_refl). specialize (Ht1 eq_refl).
    assert (x = 0) by lra. subst x. rewrite rnd32_0, Rabs_R0 in Hx. lra.
Qed.

Lemma add_rspec (a b : f32) : fin a = true -> fin b = true ->
  rspec (B2R a + B2R b) (F32.add a b) (Bsign a).
Proof.
  intros Ha Hb. unfold rspec.
  pose proof (Bplus_correct 24 128 _ _ mode_NE a b Ha Hb) as H.
  change (Bplus mode_NE a b) with (F32.add a b) in H.
  destruct (Rlt_bool (Rabs (rnd32 (B2R a + B2R b))) big).
  - destruct H as [HR [HF _]]. split; assumption.
  - destruct H as [HB Hsg]. split; [apply B2SF_inf; exact HB|]. split; intros E.
    + pose proof (Bsign_true_R a Ha E). rewrite E in Hsg.
      pose proof (Bsign_true_R b Hb (eq_sym Hsg)). lra.
    + pose proof (Bsign_false_R a Ha E). rewrite E in Hsg.
      pose proof (Bsign_false_R b Hb (eq_sym Hsg)). lra.
Qed.

(* rounded addition is monotone in both arguments whenever neither result is NaN *)
Lemma add_mono_f32 (a b c d : f32) : fle a b -> fle c d ->
  notnan (F32.add a c) -> notnan (F32.add b d) -> fle (F32.add a c) (F32.add b d).
Proof.
  intros Hab Hcd N1 N2.
  destruct (fle_notnan _ _ Hab) as [Na Nb]. destruct (fle_notnan _ _ Hcd) as [Nc Nd].
  destruct (notnan_cases a Na) as [Ea|[Ea|Fa]].
  { subst a. rewrite (add_ninf_l c N1). apply fle_ninf_any; exact N2. }
  { subst a. pose proof (fle_pinf_l b Hab); subst b. rewrite (add_pinf_l d N2). apply fle_any_pinf; exact N1. }
  destruct (notnan_cases c Nc) as [Ec|[Ec|Fc]].
  { subst c. rewrite (add_ninf_r a N1). apply fle_ninf_any; exact N2. }
  { subst c. pose proof (fle_pinf_l d Hcd); subst d. rewrite (add_pinf_r b N2). apply fle_any_pinf; exact N1. }
  destruct (notnan_cases b Nb) as [Eb|[Eb|Fb]].
  { subst b. rewrite (fle_ninf_r a Hab) in Fa. discriminate. }
  { subst b. rewrite (add_pinf_l d N2). apply fle_any_pinf; exact N1. }
  destruct (notnan_cases d Nd) as [Ed|[Ed|Fd]].
  { subst d. rewrite (fle_ninf_r c Hcd) in Fc. discriminate. }
  { subst d. rewrite (add_pinf_r b N2). apply fle_any_pinf; exact N1. }
  apply (fle_finite a b Fa Fb) in Hab. apply (fle_finite c d Fc Fd) in Hcd.
  apply (rspec_mono (B2R a + B2R c) (B2R b + B2R d) _ _ (Bsign a) (Bsign b)); [lra | |];
    apply add_rspec; assumption.
Qed.

Lemma cmp_le_f32 (a b : f32) :
  match n_cmp F32ops a b with
  | Some Lt => fle a b
  | Some Eq => fle a b /\ fle b a
  | Some Gt => fle b a
  | None => True
  end.
Proof.
  change (n_cmp F32ops a b) with (Bcompare a b).
  pose proof (Bcompare_swap 24 128 a b) as Hs.
  unfold fle, F32.le, IEEE.fle, fcmp.
  destruct (Bcompare a b) as [[| |]|] eqn:E; auto.
  - rewrite Hs. split; reflexivity.
  - rewrite Hs. reflexivity.
Qed.

Lemma zeros_f32 : fle (n_szero F32ops) (n_zero F32ops) /\ fle (n_zero F32ops) (n_szero F32ops).
Proof. split; reflexivity. Qed.

(* min_score <= window <= max_score in binary32, exactly, whenever the values are not NaN *)
Theorem window_between_min_max_f32 (K C : nat) (m : list (list F32.t)) (s : list nat) (pos : nat) (mn mx : F32.t) :
  (0 < C)%nat -> Forall (fun row => length row = K) m -> (pos + length m <= length s)%nat ->
  Forall (fun x => (x < K - 1)%nat) (firstn (length m) (skipn pos s)) ->
  min_score F32ops K m = Ok mn -> max_score F32ops K m = Ok mx ->
  exists w, score_position F32ops K C m s pos = Ok w /\
    (F32.is_nan mn = false -> F32.is_nan w = false -> F32.le mn w = true) /\
    (F32.is_nan w = false -> F32.is_nan mx = false -> F32.le w mx = true).
Proof.
  exact (window_between_min_max_good F32ops K fle notnan fle_refl fle_trans add_mono_f32 add_notnan
           cmp_le_f32 zeros_f32 C m s pos mn mx).
Qed.

Lemma Forall_skipn' {A} (P : A -> Prop) : forall n l, Forall P l -> Forall P (skipn n l).
Proof.
  induction n as [|n IH]; intros l H; [exact H|].
  destruct l as [|x l]; [constructor|]. simpl. apply IH. exact (Forall_inv_tail H).
Qed.

(* hence the binary32 model always passes the extracted window check: a PROPFAIL
   "window-outside-min-max" can only come from the implementation *)
Theorem model_passes_check_window (K C : nat) (m : list (list F32.t)) (s : list nat) (pos : nat) (mn mx : F32.t) :
  (0 < C)%nat -> Forall (fun row => length row = K) m -> (pos + length m <= length s)%nat ->
  Forall (fun x => (x < K)%nat) s ->
  window_clean K (length m) s pos = true ->
  min_score F32ops K m = Ok mn -> max_score F32ops K m = Ok mx ->
  exists w, score_position F32ops K C m s pos = Ok w /\ check_window mn mx w = true.
Proof.
  intros HC Hrows Hpos Hs Hclean Hmn Hmx.
  assert (Hc : Forall (fun x => (x < K - 1)%nat) (firstn (length m) (skipn pos s))).
  { pose proof (Forall_firstn _ (length m) _ (Forall_skipn' _ pos s Hs)) as Hlt.
    unfold window_clean in Hclean. rewrite forallb_forall in Hclean.
    rewrite Forall_forall in *. intros x Hx. specialize (Hclean x Hx). specialize (Hlt x Hx).
    apply negb_true_iff, Nat.eqb_neq in Hclean. lia. }
  destruct (window_between_min_max_f32 K C m s pos mn mx HC Hrows Hpos Hc Hmn Hmx) as [w [Hw [H1 H2]]].
  exists w. split; [exact Hw|]. unfold check_window.
  destruct (F32.is_nan mn) eqn:E1; [reflexivity|].
  destruct (F32.is_nan mx) eqn:E2; [reflexivity|].
  destruct (F32.is_nan w) eqn:E3; [reflexivity|]. simpl.
  rewrite (H1 eq_refl eq_refl), (H2 eq_refl eq_refl). reflexivity.
Qed.

(* ---------- reverse complement and to_freq on ANY carrier (binary32 included) ----------
   The re-association that really happens: both sides divide the same cells
   (count + pseudocount, in complement order) by the left-to-right sum of those cells —
   one side sums them in the original column order, the other in the complement order.
   No commutativity / associativity assumed. *)
Local Close Scope R_scope.
From Coq Require Import Permutation.

Section RcFreqAny.
  Context {T : Type}.
  Variable O : NumOps T.
  Variable K : nat.
  Variable comp : nat -> nat.
  Hypothesis comp_lt : forall k, k < K -> comp k < K.
  Hypothesis comp_inv : forall k, k < K -> comp (comp k) = k.
  Let z := n_zero O.

  Definition freq_cells (p : list T) (r : list N) : list T :=
    map2 (fun x q => n_add O (n_of_N O x) q) r p.

  Lemma rc_to_freq_row_any p r : length p = K -> length r = K ->
    let cells := freq_cells p r in
    let cells' := rc_row_spec z K comp cells in
    rc_row_spec z K comp (to_freq_row O p r) = map (fun x => n_div O x (fsum O cells)) cells' /\
    to_freq_row O (rc_row_spec z K comp p) (rc_row_spec 0%N K comp r)
      = map (fun x => n_div O x (fsum O cells')) cells' /\
    Permutation cells' cells.
  Proof.
    intros Hp Hr cells cells'. unfold cells', cells, freq_cells.
    assert (Hd : length (map2 (fun x q => n_add O (n_of_N O x) q) r p) = K)
      by (rewrite map2_length, Hp, Hr; apply Nat.min_id).
    split; [|split].
    - unfold to_freq_row. rewrite (rc_row_spec_map z z K comp comp_lt) by exact Hd. reflexivity.
    - unfold to_freq_row.
      rewrite <- (rc_row_spec_map2_both 0%N z z K comp comp_lt) by assumption. reflexivity.
    - apply rc_row_spec_perm; assumption.
  Qed.
End RcFreqAny.
