(* Executable property checkers for the round-3 functions of PwmStat.v (no proofs here;
   soundness lemmas are in PwmStatProofs.v).  Extracted and applied by ocaml/pwm/driver.ml
   to the implementation's observations; [false] is reported as PROPFAIL.

   check_consensus_row : the symbol printed by CountMatrix::consensus for a row is one with
                         the highest count among the K columns (which one among tied columns
                         is a convention, compared with the model only);
   check_corr_range    : a correlation is NaN (0/0: a zero row, no common row) or in [-1, 1]
                         up to a slack for the binary32 rounding of norms and quotients;
   check_corr_sym      : cross_correlation(a, b) and cross_correlation(b, a) are the same bits;
   check_entropy_range : a row entropy is NaN or in [0, ub] (+ slack), ub >= log2 K being
                         certified by K^den <= 2^num. *)
From Coq Require Import List ZArith NArith Bool Arith QArith Qabs.
From LMBase Require Import Res ListX IEEE.
From LMPwm Require Import PwmModel PwmCheck PwmStat.
Import ListNotations.
Local Open Scope nat_scope.

Definition check_consensus_row (K : nat) (row : list N) (j : nat) : bool :=
  (j <? K) && (j <? length row)
  && forallb (fun c => (c <=? nth j row 0%N)%N) (firstn K row).

Definition check_consensus (K : nat) (m : list (list N)) (js : list nat) : bool :=
  (length m =? length js) && forallb (fun b => b) (map2 (check_consensus_row K) m js).

Definition check_corr_range (slack : Q) (c : F32.t) : bool :=
  match f32_to_Q c with
  | Some q => Qleb (Qabs q) (1 + slack)
  | None => F32.is_nan c        (* +-inf is not a correlation *)
  end.

Definition check_corr_sym (a b : F32.t) : bool := f32_same a b.

(* ub = num/den with K^den <= 2^num, i.e. ub >= log2 K *)
Definition log2_ub_ok (K : nat) (num den : positive) : bool :=
  (Z.pow (Z.of_nat K) (Zpos den) <=? Z.pow 2 (Zpos num))%Z.

Definition check_entropy_range (K : nat) (num den : positive) (slack : Q) (e : F32.t) : bool :=
  log2_ub_ok K num den &&
  match f32_to_Q e with
  | Some q => Qleb (- slack) q && Qleb q ((Zpos num # den) + slack)
  | None => F32.is_nan e
  end.

(* the range clause applies to rows whose u32 sum does not overflow (the hypothesis of
   row_entropy_bounds); rows with a total >= 2^32 panic in the dev profile and give a
   meaningless value in release builds (notes/pwm.md, finding R3-2): compared with the model only *)
Definition check_entropy_row (K : nat) (num den : positive) (slack : Q) (row : list N) (e : F32.t) : bool :=
  if (fold_left N.add row 0 <? u32_mod)%N
  then negb (F32.is_nan e) && check_entropy_range K num den slack e     (* never NaN: 0/0 terms are skipped by `p > 0.0` *)
  else true.

Definition check_entropy (K : nat) (num den : positive) (slack : Q) (m : list (list N)) (es : list F32.t) : bool :=
  (length m =? length es) && forallb (fun b => b) (map2 (check_entropy_row K num den slack) m es).

(* auto_correlation of a count matrix of period [delay] without an all-zero row is 1
   (C09_auto_correlation_in_unit_interval, second part), up to the binary32 slack *)
Definition rows_eqb (a b : list N) : bool := list_same N.eqb a b.
Definition periodic_b (m : list (list N)) (delay : nat) : bool :=
  forallb (fun i => match nth_error m (i + delay), nth_error m i with
                    | Some a, Some b => rows_eqb a b
                    | _, _ => false
                    end) (seq 0 (length m - delay)).
Definition no_zero_row (m : list (list N)) : bool :=
  forallb (fun r => existsb (fun c => negb (c =? 0)%N) r) m.
Definition check_auto_periodic (slack : Q) (m : list (list N)) (delay : nat) (c : F32.t) : bool :=
  if (delay <? length m) && periodic_b m delay && no_zero_row m
  then match f32_to_Q c with
       | Some q => Qleb (Qabs (q - 1)) slack
       | None => false
       end
  else true.

(* exact entropy values (C09_row_entropy_exact_values / _anywhere): a row whose only non-zero
   cell holds everything has entropy 0, a row with exactly two non-zero cells holding the same
   count has entropy 1; rows whose u32 sum overflows are exempt *)
Definition nonzeros (row : list N) : list N := filter (fun c => negb (c =? 0)%N) row.
Definition check_entropy_exact (slack : Q) (row : list N) (e : F32.t) : bool :=
  if (fold_left N.add row 0 <? u32_mod)%N then
    match nonzeros row with
    | [_] => match f32_to_Q e with Some q => Qleb (Qabs q) slack | None => false end
    | [a; b] => if (a =? b)%N
                then match f32_to_Q e with Some q => Qleb (Qabs (q - 1)) slack | None => false end
                else true
    | _ => true
    end
  else true.

(* ScoringMatrix::information_content against its definition on the observed matrices:
   sum over the cells with background <> 0 and score <> -inf of frequency * score, the
   frequency being the one the scores were computed from (2^score * background = frequency).
   |ic - sum f*s| <= rel * sum |f*s| + tiny; skipped when a value involved is NaN / +-inf
   (other than the -inf scores the code skips) or a frequency is negative *)
Definition sic_terms_row (f s bg : list F32.t) : option (list Q) :=
  all_some (map3 (fun x y b =>
                    if F32.eq b F32.zero || f32_same y F32.ninf then Some 0%Q
                    else match f32_to_Q x, f32_to_Q y with
                         | Some qx, Some qy => if Qleb 0 qx then Some (qx * qy)%Q else None
                         | _, _ => None
                         end) f s bg).
Definition check_sic (rel tiny : Q) (bg : list F32.t) (fq sm : list (list F32.t)) (ic : F32.t) : bool :=
  match all_some (map2 (fun f s => sic_terms_row f s bg) fq sm), f32_to_Q ic with
  | Some rows, Some q =>
      let terms := concat rows in
      Qleb (Qabs (q - Qsum terms)) (rel * Qsum (map Qabs terms) + tiny)
  | None, _ => true          (* ill-conditioned input *)
  | Some _, None => true     (* non-finite result: compared with the model only *)
  end.
