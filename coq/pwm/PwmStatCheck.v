(* Executable property checkers for the round-3 functions of PwmStat.v (no proofs here;
   soundness lemmas are in PwmStatProofs.v).  Extracted and applied by ocaml/pwm/driver.ml
   to the implementation's observations; [false] is reported as PROPFAIL.

   check_consensus_row : the symbol printed by CountMatrix::consensus for a row is one with
                         the highest count among the K columns (which one among tied columns
                         is a convention, compared with the model only);
   check_corr_range    : a correlation is NaN (0/0: a zero row, no common row) or in [-1, 1]
                         up to a slack for the binary32 rounding of norms and quotients;
   check_corr_sym      : cross_correlation(a, b) and cross_correlation(b, a) are the same bits;
   check_entropy_range : a row entropy is NaN or in [0, ub] (+ slack), ub >= log2 K being
                         certified by K^den <= 2^num. *)
From Coq Require Import List ZArith NArith Bool Arith QArith Qabs.
From LMBase Require Import Res ListX IEEE.
From LMPwm Require Import PwmModel PwmCheck PwmStat.
Import ListNotations.
Local Open Scope nat_scope.

Definition check_consensus_row (K : nat) (row : list N) (j : nat) : bool :=
  (j <? K) && (j <? length row)
  && forallb (fun c => (c <=? nth j row 0%N)%N) (firstn K row).

Definition check_consensus (K : nat) (m : list (list N)) (js : list nat) : bool :=
  (length m =? length js) && forallb (fun b => b) (map2 (check_consensus_row K) m js).

Definition check_corr_range (slack : Q) (c : F32.t) : bool :=
  match f32_to_Q c with
  | Some q => Qleb (Qabs q) (1 + slack)
  | None => F32.is_nan c        (* +-inf is not a correlation *)
  end.

Definition check_corr_sym (a b : F32.t) : bool := f32_same a b.

(* ub = num/den with K^den <= 2^num, i.e. ub >= log2 K *)
Definition log2_ub_ok (K : nat) (num den : positive) : bool :=
  (Z.pow (Z.of_nat K) (Zpos den) <=? Z.pow 2 (Zpos num))%Z.

Definition check_entropy_range (K : nat) (num den : positive) (slack : Q) (e : F32.t) : bool :=
  log2_ub_ok K num den &&
  match f32_to_Q e with
  | Some q => Qleb (- slack) q && Qleb q ((Zpos num # den) + slack)
  | None => F32.is_nan e
  end.
