(* The 0/0 cases of the [Correlation] trait (lightmotif/src/pwm/mod.rs) made explicit for
   the binary32 instance of PwmStat.v:

     N1  cross_correlation of two matrices without a common row is NaN (0.0 / (0 as f32));
     N2  cross_correlation is NaN as soon as one of the common rows of either matrix is an
         all-zero count row (its norm is sqrt(+-0) = +-0 and dot/(norm*norm) is 0/0);
     N3  auto_correlation is NaN as soon as an all-zero row takes part in one of the terms.

   No hypothesis on the size of the other cells is needed: writing "zn" for "a zero or NaN",
   zn * y is zn for EVERY y (0 * inf = NaN), zn + zn is zn, sqrt zn is zn and zn / zn = NaN. *)
From Coq Require Import List ZArith NArith Bool Arith Lia.
From Flocq Require Import BinarySingleNaN.
From LMBase Require Import Res ListX IEEE.
From LMPwm Require Import PwmModel PwmStat PwmF32.
Import ListNotations.

(* ---------- binary32: NaN propagation and "zero or NaN" ---------- *)

Definition zn (x : F32.t) : bool :=
  match x with B754_zero _ | B754_nan => true | _ => false end.

Lemma f32_add_nan_l (x : F32.t) : F32.add F32.nan x = F32.nan.
Proof. reflexivity. Qed.

Lemma f32_add_nan_r (x : F32.t) : F32.add x F32.nan = F32.nan.
Proof. destruct x; reflexivity. Qed.

Lemma f32_mul_nan_l (x : F32.t) : F32.mul F32.nan x = F32.nan.
Proof. reflexivity. Qed.

Lemma f32_mul_nan_r (x : F32.t) : F32.mul x F32.nan = F32.nan.
Proof. destruct x; reflexivity. Qed.

Lemma f32_div_nan_l (x : F32.t) : F32.div F32.nan x = F32.nan.
Proof. reflexivity. Qed.

Lemma f32_div_nan_r (x : F32.t) : F32.div x F32.nan = F32.nan.
Proof. destruct x; reflexivity. Qed.

Lemma zn_nan : zn F32.nan = true.
Proof. reflexivity. Qed.

Lemma zn_zero : zn F32.zero = true.
Proof. reflexivity. Qed.

Lemma zn_nzero : zn F32.nzero = true.
Proof. reflexivity. Qed.

Lemma zn_add (a b : F32.t) : zn a = true -> zn b = true -> zn (F32.add a b) = true.
Proof.
  destruct a as [sa| | |]; destruct b as [sb| | |]; simpl; intros Ha Hb; try discriminate; try reflexivity.
  destruct sa, sb; reflexivity.
Qed.

Lemma zn_mul_l (a y : F32.t) : zn a = true -> zn (F32.mul a y) = true.
Proof.
  destruct a; destruct y; simpl; intros Ha; try discriminate; reflexivity.
Qed.

Lemma zn_mul_r (y a : F32.t) : zn a = true -> zn (F32.mul y a) = true.
Proof.
  destruct a; destruct y; simpl; intros Ha; try discriminate; reflexivity.
Qed.

Lemma zn_sqrt (a : F32.t) : zn a = true -> zn (f32_sqrt a) = true.
Proof.
  destruct a; simpl; intros Ha; try discriminate; reflexivity.
Qed.

(* +-0 / +-0, +-0 / NaN, NaN / x : all NaN *)
Lemma zn_div_nan (a b : F32.t) : zn a = true -> zn b = true -> F32.div a b = F32.nan.
Proof.
  destruct a; destruct b; simpl; intros Ha Hb; try discriminate; reflexivity.
Qed.

Lemma conv_N_0 : conv_N 0%N = F32.zero.
Proof. reflexivity. Qed.

Definition zero_row (r : list N) : Prop := Forall (fun c => c = 0%N) r.

(* ---------- dot_rows with an all-zero row ---------- *)

Lemma fold_add_zn : forall (l : list F32.t) (a : F32.t),
  zn a = true -> Forall (fun x => zn x = true) l -> zn (fold_left F32.add l a) = true.
Proof.
  induction l as [|x l IH]; intros a Ha Hl; simpl; [exact Ha|].
  inversion Hl as [|x' l' Hx Hl']; subst.
  apply IH; [apply zn_add; assumption | assumption].
Qed.

Lemma map2_zero_l : forall (r r2 : list N), zero_row r ->
  Forall (fun x => zn x = true) (map2 (fun x y => F32.mul (conv_N x) (conv_N y)) r r2).
Proof.
  induction r as [|c r IH]; intros r2 Hr; simpl; [constructor|].
  inversion Hr as [|c' r' Hc Hr']; subst.
  destruct r2 as [|y r2]; constructor.
  - rewrite conv_N_0. apply zn_mul_l, zn_zero.
  - apply IH; assumption.
Qed.

Lemma map2_zero_r : forall (r r1 : list N), zero_row r ->
  Forall (fun x => zn x = true) (map2 (fun x y => F32.mul (conv_N x) (conv_N y)) r1 r).
Proof.
  induction r as [|c r IH]; intros r1 Hr; destruct r1 as [|y r1]; simpl; try constructor.
  - inversion Hr as [|c' r' Hc Hr']; subst. rewrite conv_N_0. apply zn_mul_r, zn_zero.
  - inversion Hr as [|c' r' Hc Hr']; subst. apply IH; assumption.
Qed.

Lemma dot_rows_unfold (r1 r2 : list N) :
  dot_rows F32ops conv_N r1 r2 =
  fold_left F32.add (map2 (fun x y => F32.mul (conv_N x) (conv_N y)) r1 r2) F32.nzero.
Proof. reflexivity. Qed.

Lemma dot_rows_zero_l (r r2 : list N) : zero_row r -> zn (dot_rows F32ops conv_N r r2) = true.
Proof.
  intros Hr. rewrite dot_rows_unfold. apply fold_add_zn; [apply zn_nzero | apply map2_zero_l, Hr].
Qed.

Lemma dot_rows_zero_r (r1 r : list N) : zero_row r -> zn (dot_rows F32ops conv_N r1 r) = true.
Proof.
  intros Hr. rewrite dot_rows_unfold. apply fold_add_zn; [apply zn_nzero | apply map2_zero_r, Hr].
Qed.

(* the general term  dot(r1, r2) / (sqrt(dot(r1, r1)) * sqrt(dot(r2, r2)))  *)
Definition corr_term (r1 r2 : list N) : F32.t :=
  F32.div (dot_rows F32ops conv_N r1 r2)
          (F32.mul (f32_sqrt (dot_rows F32ops conv_N r1 r1)) (f32_sqrt (dot_rows F32ops conv_N r2 r2))).

Lemma corr_term_zero_l (r r2 : list N) : zero_row r -> corr_term r r2 = F32.nan.
Proof.
  intros Hr. unfold corr_term. apply zn_div_nan.
  - apply dot_rows_zero_l, Hr.
  - apply zn_mul_l, zn_sqrt, dot_rows_zero_l, Hr.
Qed.

Lemma corr_term_zero_r (r1 r : list N) : zero_row r -> corr_term r1 r = F32.nan.
Proof.
  intros Hr. unfold corr_term. apply zn_div_nan.
  - apply dot_rows_zero_r, Hr.
  - apply zn_mul_r, zn_sqrt, dot_rows_zero_l, Hr.
Qed.

Lemma corr_term_zero (r1 r2 : list N) : zero_row r1 \/ zero_row r2 -> corr_term r1 r2 = F32.nan.
Proof. intros [H|H]; [apply corr_term_zero_l | apply corr_term_zero_r]; exact H. Qed.

(* ---------- dot / norm on in-range indices ---------- *)

Lemma dot_in_range (m1 m2 : list (list N)) i j r1 r2 :
  nth_error m1 i = Some r1 -> nth_error m2 j = Some r2 ->
  dot F32ops conv_N m1 m2 i j = Ok (dot_rows F32ops conv_N r1 r2).
Proof. intros H1 H2. unfold dot. rewrite H1, H2. reflexivity. Qed.

Lemma norm_in_range (m : list (list N)) i r :
  nth_error m i = Some r ->
  norm F32ops f32_sqrt conv_N m i = Ok (f32_sqrt (dot_rows F32ops conv_N r r)).
Proof. intros H. unfold norm. rewrite (dot_in_range m m i i r r H H). reflexivity. Qed.

Lemma nth_error_in_range {A} (l : list A) i : i < length l -> exists x, nth_error l i = Some x.
Proof.
  intros H. destruct (nth_error l i) as [x|] eqn:E; [eauto|].
  apply nth_error_None in E. lia.
Qed.

(* ---------- cross_correlation ---------- *)

(* one iteration of the loop on an in-range index *)
Lemma cross_loop_step (m1 m2 : list (list N)) c i is r1 r2 :
  nth_error m1 i = Some r1 -> nth_error m2 i = Some r2 ->
  cross_loop F32ops f32_sqrt conv_N m1 m2 c (i :: is) =
  cross_loop F32ops f32_sqrt conv_N m1 m2 (F32.add c (corr_term r1 r2)) is.
Proof.
  intros H1 H2. simpl.
  rewrite (dot_in_range m1 m2 i i r1 r2 H1 H2), (norm_in_range m1 i r1 H1), (norm_in_range m2 i r2 H2).
  reflexivity.
Qed.

(* row [i] of m1 or of m2 is an all-zero row *)
Definition zero_at (m1 m2 : list (list N)) (i : nat) : Prop :=
  (exists r, nth_error m1 i = Some r /\ zero_row r) \/ (exists r, nth_error m2 i = Some r /\ zero_row r).

Lemma cross_loop_nan (m1 m2 : list (list N)) (i : nat) :
  zero_at m1 m2 i ->
  forall (is : list nat) (c : F32.t),
    Forall (fun k => k < length m1 /\ k < length m2) is ->
    c = F32.nan \/ In i is ->
    cross_loop F32ops f32_sqrt conv_N m1 m2 c is = Ok F32.nan.
Proof.
  intros Hz. induction is as [|k is IH]; intros c Hrange Hc.
  - destruct Hc as [Hc|Hin]; [subst c; reflexivity | destruct Hin].
  - inversion Hrange as [|k' is' [Hk1 Hk2] Hrange']; subst.
    destruct (nth_error_in_range m1 k Hk1) as [r1 E1].
    destruct (nth_error_in_range m2 k Hk2) as [r2 E2].
    rewrite (cross_loop_step m1 m2 c k is r1 r2 E1 E2).
    apply IH; [exact Hrange'|].
    destruct Hc as [Hc|[Hik|Hin]].
    + left. subst c. apply f32_add_nan_l.
    + left. subst k. rewrite corr_term_zero; [apply f32_add_nan_r|].
      destruct Hz as [[r [Er Hr]]|[r [Er Hr]]].
      * left. rewrite E1 in Er. injection Er as <-. exact Hr.
      * right. rewrite E2 in Er. injection Er as <-. exact Hr.
    + right. exact Hin.
Qed.

Lemma cross_correlation_zero_at (m1 m2 : list (list N)) (i : nat) :
  i < Nat.min (length m1) (length m2) -> zero_at m1 m2 i ->
  cross_correlation F32ops f32_sqrt conv_N m1 m2 = Ok F32.nan.
Proof.
  intros Hi Hz. unfold cross_correlation.
  rewrite (cross_loop_nan m1 m2 i Hz (seq 0 (Nat.min (length m1) (length m2))) (n_zero F32ops)).
  - reflexivity.
  - apply Forall_forall. intros k Hk. apply in_seq in Hk. lia.
  - right. apply in_seq. lia.
Qed.

(* N1: no common row *)
Theorem cross_correlation_empty_nan_l (m2 : list (list N)) :
  cross_correlation F32ops f32_sqrt conv_N [] m2 = Ok F32.nan.
Proof. reflexivity. Qed.

Theorem cross_correlation_empty_nan_r (m1 : list (list N)) :
  cross_correlation F32ops f32_sqrt conv_N m1 [] = Ok F32.nan.
Proof. unfold cross_correlation. simpl length. rewrite Nat.min_0_r. reflexivity. Qed.

Theorem cross_correlation_empty_nan (m : list (list N)) :
  cross_correlation F32ops f32_sqrt conv_N [] m = Ok F32.nan /\
  cross_correlation F32ops f32_sqrt conv_N m [] = Ok F32.nan.
Proof. split; [apply cross_correlation_empty_nan_l | apply cross_correlation_empty_nan_r]. Qed.

(* N2: an all-zero row among the common rows, in the first matrix ... *)
Theorem cross_correlation_zero_row_nan (m1 m2 : list (list N)) (i : nat) (r : list N) :
  i < Nat.min (length m1) (length m2) ->
  nth_error m1 i = Some r -> Forall (fun c => c = 0%N) r ->
  exists c, cross_correlation F32ops f32_sqrt conv_N m1 m2 = Ok c /\ F32.is_nan c = true.
Proof.
  intros Hi Er Hr. exists F32.nan. split; [|reflexivity].
  apply (cross_correlation_zero_at m1 m2 i Hi). left. exists r. split; assumption.
Qed.

(* ... or in the second *)
Theorem cross_correlation_zero_row_nan_r (m1 m2 : list (list N)) (i : nat) (r : list N) :
  i < Nat.min (length m1) (length m2) ->
  nth_error m2 i = Some r -> Forall (fun c => c = 0%N) r ->
  exists c, cross_correlation F32ops f32_sqrt conv_N m1 m2 = Ok c /\ F32.is_nan c = true.
Proof.
  intros Hi Er Hr. exists F32.nan. split; [|reflexivity].
  apply (cross_correlation_zero_at m1 m2 i Hi). right. exists r. split; assumption.
Qed.

(* ---------- auto_correlation ---------- *)

Definition norm_of (m : list (list N)) (k : nat) : F32.t :=
  let r := nth k m [] in f32_sqrt (dot_rows F32ops conv_N r r).

Lemma map_res_ok {A B} (f : A -> res B) (g : A -> B) : forall (l : list A),
  (forall x, In x l -> f x = Ok (g x)) -> map_res f l = Ok (map g l).
Proof.
  induction l as [|a l IH]; intros H; simpl; [reflexivity|].
  rewrite (H a (or_introl eq_refl)). simpl.
  rewrite IH; [reflexivity|]. intros x Hx. apply H. right. exact Hx.
Qed.

Lemma nth_error_nth_default {A} (l : list A) k x d : nth_error l k = Some x -> nth k l d = x.
Proof. intros H. apply nth_error_nth. exact H. Qed.

Lemma norms_ok (m : list (list N)) :
  map_res (norm F32ops f32_sqrt conv_N m) (seq 0 (length m)) = Ok (map (norm_of m) (seq 0 (length m))).
Proof.
  apply map_res_ok. intros k Hk. apply in_seq in Hk.
  destruct (nth_error_in_range m k) as [r Er]; [lia|].
  rewrite (norm_in_range m k r Er). unfold norm_of.
  rewrite (nth_error_nth_default m k r [] Er). reflexivity.
Qed.

Lemma nth_error_norms (m : list (list N)) k r :
  nth_error m k = Some r ->
  nth_error (map (norm_of m) (seq 0 (length m))) k = Some (f32_sqrt (dot_rows F32ops conv_N r r)).
Proof.
  intros Er.
  assert (Hk : k < length m) by (apply nth_error_Some; rewrite Er; discriminate).
  rewrite nth_error_map.
  assert (Es : nth_error (seq 0 (length m)) k = Some k).
  { rewrite (nth_error_nth' (seq 0 (length m)) 0) by (rewrite seq_length; exact Hk).
    rewrite seq_nth by exact Hk. reflexivity. }
  rewrite Es. simpl. unfold norm_of. rewrite (nth_error_nth_default m k r [] Er). reflexivity.
Qed.

Lemma auto_loop_step (m : list (list N)) c a b ijs ra rb :
  nth_error m a = Some ra -> nth_error m b = Some rb ->
  auto_loop F32ops conv_N m (map (norm_of m) (seq 0 (length m))) c ((a, b) :: ijs) =
  auto_loop F32ops conv_N m (map (norm_of m) (seq 0 (length m))) (F32.add c (corr_term ra rb)) ijs.
Proof.
  intros Ha Hb. simpl.
  rewrite (dot_in_range m m a b ra rb Ha Hb). simpl.
  rewrite (nth_error_norms m a ra Ha), (nth_error_norms m b rb Hb). reflexivity.
Qed.

Lemma auto_loop_nan (m : list (list N)) (i : nat) (r : list N) :
  nth_error m i = Some r -> zero_row r ->
  forall (ijs : list (nat * nat)) (c : F32.t),
    Forall (fun p => fst p < length m /\ snd p < length m) ijs ->
    c = F32.nan \/ (exists p, In p ijs /\ (fst p = i \/ snd p = i)) ->
    auto_loop F32ops conv_N m (map (norm_of m) (seq 0 (length m))) c ijs = Ok F32.nan.
Proof.
  intros Er Hr. induction ijs as [|[a b] ijs IH]; intros c Hrange Hc.
  - destruct Hc as [Hc|[p [Hin _]]]; [subst c; reflexivity | destruct Hin].
  - inversion Hrange as [|p' ijs' [Ha Hb] Hrange']; subst. simpl in Ha, Hb.
    destruct (nth_error_in_range m a Ha) as [ra Ea].
    destruct (nth_error_in_range m b Hb) as [rb Eb].
    rewrite (auto_loop_step m c a b ijs ra rb Ea Eb).
    apply IH; [exact Hrange'|].
    destruct Hc as [Hc|[p [[Hp|Hin] Hpi]]].
    + left. subst c. apply f32_add_nan_l.
    + left. subst p. simpl in Hpi. rewrite corr_term_zero; [apply f32_add_nan_r|].
      destruct Hpi as [Hai|Hbi]; subst.
      * left. rewrite Ea in Er. injection Er as ->. exact Hr.
      * right. rewrite Eb in Er. injection Er as ->. exact Hr.
    + right. exists p. split; assumption.
Qed.

Lemma in_combine_seq : forall n a b k, k < n -> In (a + k, b + k) (combine (seq a n) (seq b n)).
Proof.
  induction n as [|n IH]; intros a b k Hk; [lia|].
  simpl. destruct k as [|k].
  - left. rewrite !Nat.add_0_r. reflexivity.
  - right. replace (a + S k) with (S a + k) by lia. replace (b + S k) with (S b + k) by lia.
    apply IH. lia.
Qed.

(* N3 *)
Theorem auto_correlation_zero_row_nan (m : list (list N)) (delay i : nat) (r : list N) :
  delay < length m ->
  nth_error m i = Some r -> Forall (fun c => c = 0%N) r ->
  i < length m - delay \/ delay <= i ->
  exists c, auto_correlation F32ops f32_sqrt conv_N m delay = Ok c /\ F32.is_nan c = true.
Proof.
  intros Hd Er Hr Hi. exists F32.nan. split; [|reflexivity].
  assert (Hil : i < length m) by (apply nth_error_Some; rewrite Er; discriminate).
  unfold auto_correlation.
  assert (E : (length m <=? delay) = false) by (apply Nat.leb_gt; exact Hd).
  rewrite E. rewrite norms_ok. simpl rbind.
  rewrite (auto_loop_nan m i r Er Hr).
  - reflexivity.
  - apply Forall_forall. intros [a b] Hp. simpl.
    pose proof (in_combine_l _ _ _ _ Hp) as Hpa. pose proof (in_combine_r _ _ _ _ Hp) as Hpb.
    apply in_seq in Hpa. apply in_seq in Hpb. lia.
  - right. destruct Hi as [Hi|Hi].
    + exists (0 + i, delay + i). split; [apply in_combine_seq; exact Hi | left; reflexivity].
    + exists (0 + (i - delay), delay + (i - delay)). split; [apply in_combine_seq; lia | right; simpl; lia].
Qed.

(* the same results with the value spelled out *)
Theorem cross_correlation_zero_row_eq (m1 m2 : list (list N)) (i : nat) (r : list N) :
  i < Nat.min (length m1) (length m2) ->
  nth_error m1 i = Some r \/ nth_error m2 i = Some r -> Forall (fun c => c = 0%N) r ->
  cross_correlation F32ops f32_sqrt conv_N m1 m2 = Ok F32.nan.
Proof.
  intros Hi [Er|Er] Hr; apply (cross_correlation_zero_at m1 m2 i Hi); [left|right]; exists r; split; assumption.
Qed.

(* sanity checks against the executable model *)
Example ex_cross_zero :
  cross_correlation F32ops f32_sqrt conv_N [[0;0;0;0;0]%N] [[0;0;0;0;0]%N] = Ok F32.nan.
Proof. vm_compute. reflexivity. Qed.
Example ex_nan_bits : F32.to_bits F32.nan = 2143289344%Z.
Proof. vm_compute. reflexivity. Qed.
(* the disjunction of N3 is needed: row 1 of 3 rows with delay 2 takes part in no term *)
Example ex_auto_not_nan :
  match auto_correlation F32ops f32_sqrt conv_N [[1;2;3]%N;[0;0;0]%N;[1;1;1]%N] 2 with
  | Ok c => F32.is_nan c
  | _ => true
  end = false.
Proof. vm_compute. reflexivity. Qed.
(* no bound on the other cells is needed: 0 * inf = NaN *)
Example ex_cross_huge :
  cross_correlation F32ops f32_sqrt conv_N [[1;2;3]%N;[0;0;0]%N] [[1;2;3]%N;[1;5;2^200]%N] = Ok F32.nan.
Proof. vm_compute. reflexivity. Qed.

