(* Lemmas about the pwm model (PwmModel.v).  The property theorems of C09.v / C10.v
   are closed by [exact] of lemmas proved here. *)
From Coq Require Import List ZArith NArith Bool Arith Lia.
From LMBase Require Import Res ListX.
From LMPwm Require Import GenComplement PwmModel.
Import ListNotations.

(* ---------- list helpers ---------- *)

Lemma map2_length {A B C} (f : A -> B -> C) l1 l2 :
  length (map2 f l1 l2) = Nat.min (length l1) (length l2).
Proof. revert l2; induction l1 as [|a r IH]; intros [|b r2]; simpl; auto. Qed.

Lemma nth_map2 {A B C} (f : A -> B -> C) l1 l2 j d d1 d2 :
  j < length l1 -> j < length l2 ->
  nth j (map2 f l1 l2) d = f (nth j l1 d1) (nth j l2 d2).
Proof.
  revert l2 j; induction l1 as [|a r IH]; intros [|b r2] [|j] H1 H2; simpl in *; try lia; auto.
  apply IH; lia.
Qed.

Lemma nth_skipn_plus {A} (l : list A) n j d : nth j (skipn n l) d = nth (n + j) l d.
Proof.
  revert l; induction n as [|n IH]; intros [|a l]; simpl; auto. destruct j; reflexivity.
Qed.

Lemma map3_length {A B C D} (f : A -> B -> C -> D) l1 l2 l3 :
  length l1 = length l2 -> length l1 = length l3 -> length (map3 f l1 l2 l3) = length l1.
Proof.
  revert l2 l3; induction l1 as [|a r IH]; intros [|b r2] [|c r3] H1 H2; simpl in *; try lia; auto.
Qed.

Lemma fold_upd_length {A} (g : nat -> A) : forall n a (l : list A),
  length (fold_left (fun dst s => upd s (g s) dst) (seq a n) l) = length l.
Proof. induction n; intros a l; simpl; auto. rewrite IHn, upd_length. reflexivity. Qed.

Lemma fold_left_map_upd {A} (f : nat -> A) (n : nat) : forall (l : list A),
  n <= length l ->
  forall i d, nth i (fold_left (fun dst s => upd s (f s) dst) (seq 0 n) l) d
              = if i <? n then f i else nth i l d.
Proof.
  induction n as [|n IH]; intros l Hn i d.
  - simpl. reflexivity.
  - rewrite seq_S, fold_left_app. simpl.
    rewrite nth_upd.
    rewrite fold_upd_length.
    destruct (Nat.eqb_spec n i) as [->|Hne].
    + assert (Hlt : (i <? length l) = true) by (apply Nat.ltb_lt; lia). rewrite Hlt.
      assert (H2 : (i <? S i) = true) by (apply Nat.ltb_lt; lia). rewrite H2. reflexivity.
    + rewrite IH by lia.
      destruct (Nat.ltb_spec i n); destruct (Nat.ltb_spec i (S n)); try lia; reflexivity.
Qed.

(* ---------- reverse complement ---------- *)

Section RevCompProofs.
  Context {A : Type}.
  Variable dflt : A.
  Variable K : nat.
  Variable comp : nat -> nat.
  Hypothesis comp_lt : forall k, k < K -> comp k < K.
  Hypothesis comp_inv : forall k, k < K -> comp (comp k) = k.

  Lemma rc_row_spec_length row : length (rc_row_spec dflt K comp row) = K.
  Proof. unfold rc_row_spec. rewrite map_length, seq_length. reflexivity. Qed.

  Lemma nth_rc_row_spec row k d : k < K ->
    nth k (rc_row_spec dflt K comp row) d = nth (comp k) row dflt.
  Proof.
    intros Hk. unfold rc_row_spec.
    rewrite (nth_indep _ d (nth (comp 0) row dflt)) by (rewrite map_length, seq_length; exact Hk).
    rewrite (map_nth (fun k => nth (comp k) row dflt) (seq 0 K) 0 k).
    rewrite seq_nth by exact Hk. reflexivity.
  Qed.

  (* the loop of the code computes the closed form (symbols() lists every index once, in order) *)
  Lemma rc_row_eq_spec row : rc_row dflt K (seq 0 K) comp row = rc_row_spec dflt K comp row.
  Proof.
    apply (nth_ext _ _ dflt dflt).
    - unfold rc_row. rewrite rc_row_spec_length.
      rewrite (fold_upd_length (fun s => nth (comp s) row dflt)). apply repeat_length.
    - intros i Hi.
      assert (HiK : i < K).
      { revert Hi. unfold rc_row.
        rewrite (fold_upd_length (fun s => nth (comp s) row dflt)), repeat_length. auto. }
      unfold rc_row.
      rewrite (fold_left_map_upd (fun s => nth (comp s) row dflt) K (repeat dflt K)) by (rewrite repeat_length; lia).
      assert (Hlt : (i <? K) = true) by (apply Nat.ltb_lt; exact HiK). rewrite Hlt.
      rewrite nth_rc_row_spec by exact HiK. reflexivity.
  Qed.

  Lemma rc_eq_spec m : rc dflt K (seq 0 K) comp m = rc_spec dflt K comp m.
  Proof. unfold rc, rc_spec. apply map_ext. exact rc_row_eq_spec. Qed.

  Lemma rc_row_spec_involutive row : length row = K ->
    rc_row_spec dflt K comp (rc_row_spec dflt K comp row) = row.
  Proof.
    intros Hl. apply (nth_ext _ _ dflt dflt).
    - rewrite rc_row_spec_length. symmetry; exact Hl.
    - intros i Hi. rewrite rc_row_spec_length in Hi.
      rewrite nth_rc_row_spec by exact Hi.
      rewrite nth_rc_row_spec by (apply comp_lt; exact Hi).
      rewrite comp_inv by exact Hi. reflexivity.
  Qed.

  Lemma rc_spec_involutive m : Forall (fun row => length row = K) m ->
    rc_spec dflt K comp (rc_spec dflt K comp m) = m.
  Proof.
    intros Hm. unfold rc_spec. rewrite <- map_rev, rev_involutive, map_map.
    induction Hm as [|row m Hrow Hm IH]; simpl; auto.
    rewrite rc_row_spec_involutive by exact Hrow. rewrite IH. reflexivity.
  Qed.

  Lemma rc_spec_length m : length (rc_spec dflt K comp m) = length m.
  Proof. unfold rc_spec. rewrite map_length, rev_length. reflexivity. Qed.

  Lemma rc_spec_rows m : Forall (fun row => length row = K) (rc_spec dflt K comp m).
  Proof. unfold rc_spec. apply Forall_forall. intros r Hr. apply in_map_iff in Hr.
    destruct Hr as [x [<- _]]. apply rc_row_spec_length. Qed.

  (* cell (i,k) of the reverse complement = cell (M-1-i, comp k) of the original *)
  Lemma rc_spec_cell m i k d : i < length m -> k < K ->
    nth k (nth i (rc_spec dflt K comp m) []) d = nth (comp k) (nth (length m - S i) m []) dflt.
  Proof.
    intros Hi Hk. unfold rc_spec.
    rewrite (nth_indep _ [] (rc_row_spec dflt K comp [])) by (rewrite map_length, rev_length; exact Hi).
    rewrite map_nth. rewrite rev_nth by exact Hi.
    apply nth_rc_row_spec. exact Hk.
  Qed.
End RevCompProofs.

(* ---------- mirrored scores ---------- *)

Lemma fold_left_rev_comm {T} (add : T -> T -> T)
  (add_comm : forall a b, add a b = add b a)
  (add_assoc : forall a b c, add (add a b) c = add a (add b c)) :
  forall l z, fold_left add (rev l) z = fold_left add l z.
Proof.
  assert (Hpush : forall l z x, fold_left add l (add z x) = add (fold_left add l z) x).
  { induction l as [|a l IH]; intros z x; simpl; auto.
    rewrite <- IH. f_equal. rewrite !add_assoc. f_equal. apply add_comm. }
  induction l as [|a l IH]; intros z; simpl; auto.
  rewrite fold_left_app. simpl. rewrite IH. rewrite <- Hpush. reflexivity.
Qed.

Section Mirror.
  Context {T : Type}.
  Variable O : NumOps T.
  Variable K : nat.
  Variable comp : nat -> nat.
  Hypothesis comp_lt : forall k, k < K -> comp k < K.
  Hypothesis comp_inv : forall k, k < K -> comp (comp k) = k.

  Lemma window_terms_length m s pos : pos + length m <= length s ->
    length (window_terms O m s pos) = length m.
  Proof. intros H. unfold window_terms. rewrite map2_length, skipn_length. lia. Qed.

  Lemma nth_window_terms m s pos j d : pos + length m <= length s -> j < length m ->
    nth j (window_terms O m s pos) d = nth (nth (pos + j) s 0) (nth j m []) (n_zero O).
  Proof.
    intros H Hj. unfold window_terms.
    rewrite (nth_map2 _ m (skipn pos s) j d [] 0) by (try rewrite skipn_length; lia).
    rewrite nth_skipn_plus. reflexivity.
  Qed.

  (* the cells summed on the opposite strand are the same cells, in reverse order *)
  Lemma window_terms_rc m s i :
    Forall (fun x => x < K) s -> i + length m <= length s ->
    window_terms O (rc_spec (n_zero O) K comp m) (rc_seq comp s) (length s - length m - i)
    = rev (window_terms O m s i).
  Proof.
    intros Hs Hi.
    assert (HLr : length (rc_seq comp s) = length s) by (unfold rc_seq; rewrite map_length, rev_length; reflexivity).
    assert (HMr : length (rc_spec (n_zero O) K comp m) = length m) by apply rc_spec_length.
    assert (Hpos : (length s - length m - i) + length (rc_spec (n_zero O) K comp m) <= length (rc_seq comp s))
      by (rewrite HMr, HLr; lia).
    apply (nth_ext _ _ (n_zero O) (n_zero O)).
    - rewrite rev_length. rewrite (window_terms_length _ _ _ Hpos). rewrite (window_terms_length _ _ _ Hi). exact HMr.
    - intros j Hj. rewrite (window_terms_length _ _ _ Hpos) in Hj. rewrite HMr in Hj.
      rewrite (nth_window_terms _ _ _ j _ Hpos) by (rewrite HMr; exact Hj).
      rewrite rev_nth by (rewrite (window_terms_length _ _ _ Hi); exact Hj).
      rewrite (window_terms_length _ _ _ Hi).
      rewrite (nth_window_terms m s i _ _ Hi) by lia.
      (* the symbol read on the reverse strand *)
      unfold rc_seq at 1.
      rewrite (nth_indep _ 0 (comp 0)) by (rewrite map_length, rev_length; lia).
      rewrite map_nth. rewrite rev_nth by lia.
      replace (length s - S (length s - length m - i + j)) with (i + (length m - S j)) by lia.
      assert (Hx : nth (i + (length m - S j)) s 0 < K).
      { apply Forall_nth_default; [exact Hs|].
        destruct s as [|x s']; [simpl in *; lia|]. inversion Hs; subst. lia. }
      rewrite (rc_spec_cell (n_zero O) K comp m j _ (n_zero O)) by (try lia; apply comp_lt; exact Hx).
      rewrite comp_inv by exact Hx. reflexivity.
  Qed.

  (* score_position on a window inside the sequence is the left-to-right sum of its cells *)
  Lemma striped_at_in C s p : 0 < C -> p < length s -> striped_at K C s p = Ok (nth p s (wildcard K)).
  Proof.
    intros HC Hp. unfold striped_at.
    assert (Hrows : (length s + (C - 1)) / C <> 0).
    { intro H0. apply Nat.div_small_iff in H0; lia. }
    apply Nat.eqb_neq in Hrows. rewrite Hrows.
    apply Nat.ltb_lt in Hp. rewrite Hp. reflexivity.
  Qed.

  Lemma score_from_in C rows : forall s p acc, 0 < C -> p + length rows <= length s ->
    score_from O K C acc rows s p
    = Ok (fold_left (n_add O) (map2 (fun row x => nth x row (n_zero O)) rows (skipn p s)) acc).
  Proof.
    induction rows as [|row rest IH]; intros s p acc HC Hp; simpl in *.
    - reflexivity.
    - rewrite striped_at_in by lia. simpl.
      rewrite IH by lia.
      assert (Hsk : skipn p s = nth p s (wildcard K) :: skipn (S p) s).
      { clear - Hp. revert s Hp. induction p; intros [|x s] Hp; simpl in *; try lia; auto.
        apply IHp. lia. }
      rewrite Hsk. simpl. reflexivity.
  Qed.

  Lemma score_position_in C m s p : 0 < C -> p + length m <= length s ->
    score_position O K C m s p = Ok (fold_left (n_add O) (window_terms O m s p) (n_zero O)).
  Proof. intros HC Hp. unfold score_position, window_terms. apply score_from_in; assumption. Qed.

  Hypothesis add_comm : forall a b, n_add O a b = n_add O b a.
  Hypothesis add_assoc : forall a b c, n_add O (n_add O a b) c = n_add O a (n_add O b c).

  Lemma mirror_scores C m s i :
    0 < C -> Forall (fun x => x < K) s -> i + length m <= length s ->
    score_position O K C (rc_spec (n_zero O) K comp m) (rc_seq comp s) (length s - length m - i)
    = score_position O K C m s i.
  Proof.
    intros HC Hs Hi.
    rewrite !score_position_in; try assumption.
    - rewrite window_terms_rc by assumption.
      rewrite (fold_left_rev_comm (n_add O) add_comm add_assoc). reflexivity.
    - rewrite rc_spec_length. unfold rc_seq. rewrite map_length, rev_length. lia.
  Qed.
End Mirror.

(* ---------- the Dna instance of the tables ---------- *)

Lemma dna_symbols_seq : dna_symbols = seq 0 dna_K.
Proof. reflexivity. Qed.

Lemma dna_comp_lt : forall k, k < dna_K -> dna_comp k < dna_K.
Proof.
  intros k Hk. unfold dna_K in *.
  do 5 (destruct k as [|k]; [vm_compute; lia|]). lia.
Qed.

Lemma dna_comp_inv : forall k, k < dna_K -> dna_comp (dna_comp k) = k.
Proof.
  intros k Hk. unfold dna_K in *.
  do 5 (destruct k as [|k]; [reflexivity|]). lia.
Qed.

(* ---------- reverse complement commutes with the cell-wise conversions ---------- *)

Section RcCommute.
  Context {A B : Type}.
  Variables (da : A) (db : B).
  Variable K : nat.
  Variable comp : nat -> nat.
  Hypothesis comp_lt : forall k, k < K -> comp k < K.

  Lemma rc_row_spec_map (f : A -> B) row : length row = K ->
    rc_row_spec db K comp (map f row) = map f (rc_row_spec da K comp row).
  Proof.
    intros Hl. unfold rc_row_spec. rewrite map_map. apply map_ext_in.
    intros k Hk. apply in_seq in Hk.
    rewrite (nth_indep _ db (f da)) by (rewrite map_length, Hl; apply comp_lt; lia).
    apply map_nth.
  Qed.

  Lemma rc_spec_map (f : A -> B) m : Forall (fun row => length row = K) m ->
    rc_spec db K comp (map (map f) m) = map (map f) (rc_spec da K comp m).
  Proof.
    intros Hm. unfold rc_spec. rewrite <- map_rev, !map_map.
    apply map_ext_in. intros row Hr. apply rc_row_spec_map.
    rewrite Forall_forall in Hm. apply Hm. apply in_rev. exact Hr.
  Qed.

  (* cell-wise combination with a strand-symmetric vector (the background) *)
  Lemma rc_row_spec_map2 {C : Type} (dc : C) (g : A -> C -> B) row v :
    length row = K -> length v = K -> rc_row_spec dc K comp v = v ->
    rc_row_spec db K comp (map2 g row v) = map2 g (rc_row_spec da K comp row) v.
  Proof.
    intros Hl Hv Hsym.
    apply (nth_ext _ _ db db).
    - rewrite rc_row_spec_length, map2_length, rc_row_spec_length, Hv. symmetry; apply Nat.min_id.
    - intros k Hk. rewrite rc_row_spec_length in Hk.
      rewrite nth_rc_row_spec by exact Hk.
      rewrite (nth_map2 g row v (comp k) db da dc) by (rewrite ?Hl, ?Hv; apply comp_lt; exact Hk).
      rewrite (nth_map2 g _ v k db da dc) by (rewrite ?rc_row_spec_length, ?Hv; exact Hk).
      rewrite nth_rc_row_spec by exact Hk.
      f_equal. rewrite <- Hsym at 2. rewrite nth_rc_row_spec by exact Hk. reflexivity.
  Qed.
End RcCommute.

Section RcCommuteNum.
  Context {T : Type}.
  Variable O : NumOps T.
  Variable K : nat.
  Variable comp : nat -> nat.
  Hypothesis comp_lt : forall k, k < K -> comp k < K.
  Variables flog2 flog10 fln : T -> T.
  Let z := n_zero O.

  Lemma rc_to_scoring_with_base base m : Forall (fun row => length row = K) m ->
    rc_spec z K comp (to_scoring_with_base O flog2 flog10 fln base m)
    = to_scoring_with_base O flog2 flog10 fln base (rc_spec z K comp m).
  Proof. intros Hm. unfold to_scoring_with_base. apply (rc_spec_map z z K comp comp_lt). exact Hm. Qed.

  Lemma rc_rowwise_map2 (g : T -> T -> T) bg m :
    Forall (fun row => length row = K) m -> length bg = K -> rc_row_spec z K comp bg = bg ->
    rc_spec z K comp (map (fun row => map2 g row bg) m)
    = map (fun row => map2 g row bg) (rc_spec z K comp m).
  Proof.
    intros Hm Hb Hsym. unfold rc_spec. rewrite <- map_rev, !map_map.
    apply map_ext_in. intros row Hr.
    apply (rc_row_spec_map2 z z K comp comp_lt z g); auto.
    rewrite Forall_forall in Hm. apply Hm. apply in_rev. exact Hr.
  Qed.

  Lemma rc_to_weight bg m :
    Forall (fun row => length row = K) m -> length bg = K -> rc_row_spec z K comp bg = bg ->
    rc_spec z K comp (to_weight O bg m) = to_weight O bg (rc_spec z K comp m).
  Proof. intros. unfold to_weight. apply rc_rowwise_map2; assumption. Qed.

  Lemma rc_into_scoring bg m :
    Forall (fun row => length row = K) m -> length bg = K -> rc_row_spec z K comp bg = bg ->
    rc_spec z K comp (into_scoring O flog2 bg m) = into_scoring O flog2 bg (rc_spec z K comp m).
  Proof. intros. unfold into_scoring. apply rc_rowwise_map2; assumption. Qed.
End RcCommuteNum.
