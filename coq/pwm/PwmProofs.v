(* Lemmas about the pwm model (PwmModel.v).  The property theorems of C09.v / C10.v
   are closed by [exact] of lemmas proved here. *)
From Coq Require Import List ZArith NArith Bool Arith Lia.
From LMBase Require Import Res ListX.
From LMPwm Require Import GenComplement PwmModel.
Import ListNotations.

(* ---------- list helpers ---------- *)

Lemma map2_length {A B C} (f : A -> B -> C) l1 l2 :
  length (map2 f l1 l2) = Nat.min (length l1) (length l2).
Proof. revert l2; induction l1 as [|a r IH]; intros [|b r2]; simpl; auto. Qed.

Lemma nth_map2 {A B C} (f : A -> B -> C) l1 l2 j d d1 d2 :
  j < length l1 -> j < length l2 ->
  nth j (map2 f l1 l2) d = f (nth j l1 d1) (nth j l2 d2).
Proof.
  revert l2 j; induction l1 as [|a r IH]; intros [|b r2] [|j] H1 H2; simpl in *; try lia; auto.
  apply IH; lia.
Qed.

Lemma nth_skipn_plus {A} (l : list A) n j d : nth j (skipn n l) d = nth (n + j) l d.
Proof.
  revert l; induction n as [|n IH]; intros [|a l]; simpl; auto. destruct j; reflexivity.
Qed.

Lemma map3_length {A B C D} (f : A -> B -> C -> D) l1 l2 l3 :
  length l1 = length l2 -> length l1 = length l3 -> length (map3 f l1 l2 l3) = length l1.
Proof.
  revert l2 l3; induction l1 as [|a r IH]; intros [|b r2] [|c r3] H1 H2; simpl in *; try lia; auto.
Qed.

Lemma fold_upd_length {A} (g : nat -> A) : forall n a (l : list A),
  length (fold_left (fun dst s => upd s (g s) dst) (seq a n) l) = length l.
Proof. induction n; intros a l; simpl; auto. rewrite IHn, upd_length. reflexivity. Qed.

Lemma fold_left_map_upd {A} (f : nat -> A) (n : nat) : forall (l : list A),
  n <= length l ->
  forall i d, nth i (fold_left (fun dst s => upd s (f s) dst) (seq 0 n) l) d
              = if i <? n then f i else nth i l d.
Proof.
  induction n as [|n IH]; intros l Hn i d.
  - simpl. reflexivity.
  - rewrite seq_S, fold_left_app. simpl.
    rewrite nth_upd.
    rewrite fold_upd_length.
    destruct (Nat.eqb_spec n i) as [->|Hne].
    + assert (Hlt : (i <? length l) = true) by (apply Nat.ltb_lt; lia). rewrite Hlt.
      assert (H2 : (i <? S i) = true) by (apply Nat.ltb_lt; lia). rewrite H2. reflexivity.
    + rewrite IH by lia.
      destruct (Nat.ltb_spec i n); destruct (Nat.ltb_spec i (S n)); try lia; reflexivity.
Qed.

(* ---------- reverse complement ---------- *)

Section RevCompProofs.
  Context {A : Type}.
  Variable dflt : A.
  Variable K : nat.
  Variable comp : nat -> nat.
  Hypothesis comp_lt : forall k, k < K -> comp k < K.
  Hypothesis comp_inv : forall k, k < K -> comp (comp k) = k.

  Lemma rc_row_spec_length row : length (rc_row_spec dflt K comp row) = K.
  Proof. unfold rc_row_spec. rewrite map_length, seq_length. reflexivity. Qed.

  Lemma nth_rc_row_spec row k d : k < K ->
    nth k (rc_row_spec dflt K comp row) d = nth (comp k) row dflt.
  Proof.
    intros Hk. unfold rc_row_spec.
    rewrite (nth_indep _ d (nth (comp 0) row dflt)) by (rewrite map_length, seq_length; exact Hk).
    rewrite (map_nth (fun k => nth (comp k) row dflt) (seq 0 K) 0 k).
    rewrite seq_nth by exact Hk. reflexivity.
  Qed.

  (* the loop of the code computes the closed form (symbols() lists every index once, in order) *)
  Lemma rc_row_eq_spec row : rc_row dflt K (seq 0 K) comp row = rc_row_spec dflt K comp row.
  Proof.
    apply (nth_ext _ _ dflt dflt).
    - unfold rc_row. rewrite rc_row_spec_length.
      rewrite (fold_upd_length (fun s => nth (comp s) row dflt)). apply repeat_length.
    - intros i Hi.
      assert (HiK : i < K).
      { revert Hi. unfold rc_row.
        rewrite (fold_upd_length (fun s => nth (comp s) row dflt)), repeat_length. auto. }
      unfold rc_row.
      rewrite (fold_left_map_upd (fun s => nth (comp s) row dflt) K (repeat dflt K)) by (rewrite repeat_length; lia).
      assert (Hlt : (i <? K) = true) by (apply Nat.ltb_lt; exact HiK). rewrite Hlt.
      rewrite nth_rc_row_spec by exact HiK. reflexivity.
  Qed.

  Lemma rc_eq_spec m : rc dflt K (seq 0 K) comp m = rc_spec dflt K comp m.
  Proof. unfold rc, rc_spec. apply map_ext. exact rc_row_eq_spec. Qed.

  Lemma rc_row_spec_involutive row : length row = K ->
    rc_row_spec dflt K comp (rc_row_spec dflt K comp row) = row.
  Proof.
    intros Hl. apply (nth_ext _ _ dflt dflt).
    - rewrite rc_row_spec_length. symmetry; exact Hl.
    - intros i Hi. rewrite rc_row_spec_length in Hi.
      rewrite nth_rc_row_spec by exact Hi.
      rewrite nth_rc_row_spec by (apply comp_lt; exact Hi).
      rewrite comp_inv by exact Hi. reflexivity.
  Qed.

  Lemma rc_spec_involutive m : Forall (fun row => length row = K) m ->
    rc_spec dflt K comp (rc_spec dflt K comp m) = m.
  Proof.
    intros Hm. unfold rc_spec. rewrite <- map_rev, rev_involutive, map_map.
    induction Hm as [|row m Hrow Hm IH]; simpl; auto.
    rewrite rc_row_spec_involutive by exact Hrow. rewrite IH. reflexivity.
  Qed.

  Lemma rc_spec_length m : length (rc_spec dflt K comp m) = length m.
  Proof. unfold rc_spec. rewrite map_length, rev_length. reflexivity. Qed.

  Lemma rc_spec_rows m : Forall (fun row => length row = K) (rc_spec dflt K comp m).
  Proof. unfold rc_spec. apply Forall_forall. intros r Hr. apply in_map_iff in Hr.
    destruct Hr as [x [<- _]]. apply rc_row_spec_length. Qed.

  (* cell (i,k) of the reverse complement = cell (M-1-i, comp k) of the original *)
  Lemma rc_spec_cell m i k d : i < length m -> k < K ->
    nth k (nth i (rc_spec dflt K comp m) []) d = nth (comp k) (nth (length m - S i) m []) dflt.
  Proof.
    intros Hi Hk. unfold rc_spec.
    rewrite (nth_indep _ [] (rc_row_spec dflt K comp [])) by (rewrite map_length, rev_length; exact Hi).
    rewrite map_nth. rewrite rev_nth by exact Hi.
    apply nth_rc_row_spec. exact Hk.
  Qed.
End RevCompProofs.

(* ---------- mirrored scores ---------- *)

Lemma fold_left_rev_comm {T} (add : T -> T -> T)
  (add_comm : forall a b, add a b = add b a)
  (add_assoc : forall a b c, add (add a b) c = add a (add b c)) :
  forall l z, fold_left add (rev l) z = fold_left add l z.
Proof.
  assert (Hpush : forall l z x, fold_left add l (add z x) = add (fold_left add l z) x).
  { induction l as [|a l IH]; intros z x; simpl; auto.
    rewrite <- IH. f_equal. rewrite !add_assoc. f_equal. apply add_comm. }
  induction l as [|a l IH]; intros z; simpl; auto.
  rewrite fold_left_app. simpl. rewrite IH. rewrite <- Hpush. reflexivity.
Qed.

Section Mirror.
  Context {T : Type}.
  Variable O : NumOps T.
  Variable K : nat.
  Variable comp : nat -> nat.
  Hypothesis comp_lt : forall k, k < K -> comp k < K.
  Hypothesis comp_inv : forall k, k < K -> comp (comp k) = k.

  Lemma window_terms_length m s pos : pos + length m <= length s ->
    length (window_terms O m s pos) = length m.
  Proof. intros H. unfold window_terms. rewrite map2_length, skipn_length. lia. Qed.

  Lemma nth_window_terms m s pos j d : pos + length m <= length s -> j < length m ->
    nth j (window_terms O m s pos) d = nth (nth (pos + j) s 0) (nth j m []) (n_zero O).
  Proof.
    intros H Hj. unfold window_terms.
    rewrite (nth_map2 _ m (skipn pos s) j d [] 0) by (try rewrite skipn_length; lia).
    rewrite nth_skipn_plus. reflexivity.
  Qed.

  (* the cells summed on the opposite strand are the same cells, in reverse order *)
  Lemma window_terms_rc m s i :
    Forall (fun x => x < K) s -> i + length m <= length s ->
    window_terms O (rc_spec (n_zero O) K comp m) (rc_seq comp s) (length s - length m - i)
    = rev (window_terms O m s i).
  Proof.
    intros Hs Hi.
    assert (HLr : length (rc_seq comp s) = length s) by (unfold rc_seq; rewrite map_length, rev_length; reflexivity).
    assert (HMr : length (rc_spec (n_zero O) K comp m) = length m) by apply rc_spec_length.
    assert (Hpos : (length s - length m - i) + length (rc_spec (n_zero O) K comp m) <= length (rc_seq comp s))
      by (rewrite HMr, HLr; lia).
    apply (nth_ext _ _ (n_zero O) (n_zero O)).
    - rewrite rev_length. rewrite (window_terms_length _ _ _ Hpos). rewrite (window_terms_length _ _ _ Hi). exact HMr.
    - intros j Hj. rewrite (window_terms_length _ _ _ Hpos) in Hj. rewrite HMr in Hj.
      rewrite (nth_window_terms _ _ _ j _ Hpos) by (rewrite HMr; exact Hj).
      rewrite rev_nth by (rewrite (window_terms_length _ _ _ Hi); exact Hj).
      rewrite (window_terms_length _ _ _ Hi).
      rewrite (nth_window_terms m s i _ _ Hi) by lia.
      (* the symbol read on the reverse strand *)
      unfold rc_seq at 1.
      rewrite (nth_indep _ 0 (comp 0)) by (rewrite map_length, rev_length; lia).
      rewrite map_nth. rewrite rev_nth by lia.
      replace (length s - S (length s - length m - i + j)) with (i + (length m - S j)) by lia.
      assert (Hx : nth (i + (length m - S j)) s 0 < K).
      { apply Forall_nth_default; [exact Hs|].
        destruct s as [|x s']; [simpl in *; lia|]. inversion Hs; subst. lia. }
      rewrite (rc_spec_cell (n_zero O) K comp m j _ (n_zero O)) by (try lia; apply comp_lt; exact Hx).
      rewrite comp_inv by exact Hx. reflexivity.
  Qed.

  (* score_position on a window inside the sequence is the left-to-right sum of its cells *)
  Lemma striped_at_in C s p : 0 < C -> p < length s -> striped_at K C s p = Ok (nth p s (wildcard K)).
  Proof.
    intros HC Hp. unfold striped_at.
    assert (Hrows : (length s + (C - 1)) / C <> 0).
    { intro H0. apply Nat.div_small_iff in H0; lia. }
    apply Nat.eqb_neq in Hrows. rewrite Hrows.
    apply Nat.ltb_lt in Hp. rewrite Hp. reflexivity.
  Qed.

  Lemma score_from_in C rows : forall s p acc, 0 < C -> p + length rows <= length s ->
    score_from O K C acc rows s p
    = Ok (fold_left (n_add O) (map2 (fun row x => nth x row (n_zero O)) rows (skipn p s)) acc).
  Proof.
    induction rows as [|row rest IH]; intros s p acc HC Hp; simpl in *.
    - reflexivity.
    - rewrite striped_at_in by lia. simpl.
      rewrite IH by lia.
      assert (Hsk : skipn p s = nth p s (wildcard K) :: skipn (S p) s).
      { clear - Hp. revert s Hp. induction p; intros [|x s] Hp; simpl in *; try lia; auto.
        apply IHp. lia. }
      rewrite Hsk. simpl. reflexivity.
  Qed.

  Lemma score_position_in C m s p : 0 < C -> p + length m <= length s ->
    score_position O K C m s p = Ok (fold_left (n_add O) (window_terms O m s p) (n_zero O)).
  Proof. intros HC Hp. unfold score_position, window_terms. apply score_from_in; assumption. Qed.

  Hypothesis add_comm : forall a b, n_add O a b = n_add O b a.
  Hypothesis add_assoc : forall a b c, n_add O (n_add O a b) c = n_add O a (n_add O b c).

  Lemma mirror_scores C m s i :
    0 < C -> Forall (fun x => x < K) s -> i + length m <= length s ->
    score_position O K C (rc_spec (n_zero O) K comp m) (rc_seq comp s) (length s - length m - i)
    = score_position O K C m s i.
  Proof.
    intros HC Hs Hi.
    rewrite !score_position_in; try assumption.
    - rewrite window_terms_rc by assumption.
      rewrite (fold_left_rev_comm (n_add O) add_comm add_assoc). reflexivity.
    - rewrite rc_spec_length. unfold rc_seq. rewrite map_length, rev_length. lia.
  Qed.
End Mirror.

(* ---------- the Dna instance of the tables ---------- *)

Lemma dna_symbols_seq : dna_symbols = seq 0 dna_K.
Proof. reflexivity. Qed.

Lemma dna_comp_lt : forall k, k < dna_K -> dna_comp k < dna_K.
Proof.
  intros k Hk. unfold dna_K in *.
  do 5 (destruct k as [|k]; [vm_compute; lia|]). lia.
Qed.

Lemma dna_comp_inv : forall k, k < dna_K -> dna_comp (dna_comp k) = k.
Proof.
  intros k Hk. unfold dna_K in *.
  do 5 (destruct k as [|k]; [reflexivity|]). lia.
Qed.

(* ---------- reverse complement commutes with the cell-wise conversions ---------- *)

Section RcCommute.
  Context {A B : Type}.
  Variables (da : A) (db : B).
  Variable K : nat.
  Variable comp : nat -> nat.
  Hypothesis comp_lt : forall k, k < K -> comp k < K.

  Lemma rc_row_spec_map (f : A -> B) row : length row = K ->
    rc_row_spec db K comp (map f row) = map f (rc_row_spec da K comp row).
  Proof.
    intros Hl. unfold rc_row_spec. rewrite map_map. apply map_ext_in.
    intros k Hk. apply in_seq in Hk.
    rewrite (nth_indep _ db (f da)) by (rewrite map_length, Hl; apply comp_lt; lia).
    apply map_nth.
  Qed.

  Lemma rc_spec_map (f : A -> B) m : Forall (fun row => length row = K) m ->
    rc_spec db K comp (map (map f) m) = map (map f) (rc_spec da K comp m).
  Proof.
    intros Hm. unfold rc_spec. rewrite <- map_rev, !map_map.
    apply map_ext_in. intros row Hr. apply rc_row_spec_map.
    rewrite Forall_forall in Hm. apply Hm. apply in_rev. exact Hr.
  Qed.

  (* cell-wise combination with a strand-symmetric vector (the background) *)
  Lemma rc_row_spec_map2 {C : Type} (dc : C) (g : A -> C -> B) row v :
    length row = K -> length v = K -> rc_row_spec dc K comp v = v ->
    rc_row_spec db K comp (map2 g row v) = map2 g (rc_row_spec da K comp row) v.
  Proof.
    intros Hl Hv Hsym.
    apply (nth_ext _ _ db db).
    - rewrite rc_row_spec_length, map2_length, rc_row_spec_length, Hv. symmetry; apply Nat.min_id.
    - intros k Hk. rewrite rc_row_spec_length in Hk.
      rewrite nth_rc_row_spec by exact Hk.
      rewrite (nth_map2 g row v (comp k) db da dc) by (rewrite ?Hl, ?Hv; apply comp_lt; exact Hk).
      rewrite (nth_map2 g _ v k db da dc) by (rewrite ?rc_row_spec_length, ?Hv; exact Hk).
      rewrite nth_rc_row_spec by exact Hk.
      f_equal. rewrite <- Hsym at 2. rewrite nth_rc_row_spec by exact Hk. reflexivity.
  Qed.
End RcCommute.

Section RcCommuteNum.
  Context {T : Type}.
  Variable O : NumOps T.
  Variable K : nat.
  Variable comp : nat -> nat.
  Hypothesis comp_lt : forall k, k < K -> comp k < K.
  Variables flog2 flog10 fln : T -> T.
  Let z := n_zero O.

  Lemma rc_to_scoring_with_base base m : Forall (fun row => length row = K) m ->
    rc_spec z K comp (to_scoring_with_base O flog2 flog10 fln base m)
    = to_scoring_with_base O flog2 flog10 fln base (rc_spec z K comp m).
  Proof. intros Hm. unfold to_scoring_with_base. apply (rc_spec_map z z K comp comp_lt). exact Hm. Qed.

  Lemma rc_rowwise_map2 (g : T -> T -> T) bg m :
    Forall (fun row => length row = K) m -> length bg = K -> rc_row_spec z K comp bg = bg ->
    rc_spec z K comp (map (fun row => map2 g row bg) m)
    = map (fun row => map2 g row bg) (rc_spec z K comp m).
  Proof.
    intros Hm Hb Hsym. unfold rc_spec. rewrite <- map_rev, !map_map.
    apply map_ext_in. intros row Hr.
    apply (rc_row_spec_map2 z z K comp comp_lt z g); auto.
    rewrite Forall_forall in Hm. apply Hm. apply in_rev. exact Hr.
  Qed.

  Lemma rc_to_weight bg m :
    Forall (fun row => length row = K) m -> length bg = K -> rc_row_spec z K comp bg = bg ->
    rc_spec z K comp (to_weight O bg m) = to_weight O bg (rc_spec z K comp m).
  Proof. intros. unfold to_weight. apply rc_rowwise_map2; assumption. Qed.

  Lemma rc_into_scoring bg m :
    Forall (fun row => length row = K) m -> length bg = K -> rc_row_spec z K comp bg = bg ->
    rc_spec z K comp (into_scoring O flog2 bg m) = into_scoring O flog2 bg (rc_spec z K comp m).
  Proof. intros. unfold into_scoring. apply rc_rowwise_map2; assumption. Qed.
End RcCommuteNum.

(* ---------- reverse complement commutes with to_freq (order-insensitive addition) ---------- *)

From Coq Require Import Permutation.

Lemma fold_left_perm {T} (add : T -> T -> T)
  (add_comm : forall a b, add a b = add b a)
  (add_assoc : forall a b c, add (add a b) c = add a (add b c)) :
  forall l l', Permutation l l' -> forall z, fold_left add l z = fold_left add l' z.
Proof.
  induction 1; intros z; simpl; auto.
  - f_equal. rewrite !add_assoc. f_equal. apply add_comm.
  - rewrite IHPermutation1. apply IHPermutation2.
Qed.

Lemma NoDup_map_inj_on {A B} (f : A -> B) l :
  NoDup l -> (forall x y, In x l -> In y l -> f x = f y -> x = y) -> NoDup (map f l).
Proof.
  induction 1 as [|a l Hna Hnd IH]; intros Hinj; simpl; constructor.
  - intro Hin. apply in_map_iff in Hin. destruct Hin as [y [Hy Hyl]].
    assert (y = a) by (apply Hinj; simpl; auto). subst. contradiction.
  - apply IH. intros x y Hx Hy. apply Hinj; simpl; auto.
Qed.

Lemma map_nth_seq {A} (row : list A) d : map (fun k => nth k row d) (seq 0 (length row)) = row.
Proof.
  apply (nth_ext _ _ d d).
  - rewrite map_length, seq_length. reflexivity.
  - intros i Hi. rewrite map_length, seq_length in Hi.
    rewrite (nth_indep _ d (nth 0 row d)) by (rewrite map_length, seq_length; exact Hi).
    rewrite (map_nth (fun k => nth k row d) (seq 0 (length row)) 0 i). rewrite seq_nth by exact Hi. reflexivity.
Qed.

Section RcPerm.
  Context {A : Type}.
  Variable dflt : A.
  Variable K : nat.
  Variable comp : nat -> nat.
  Hypothesis comp_lt : forall k, k < K -> comp k < K.
  Hypothesis comp_inv : forall k, k < K -> comp (comp k) = k.

  Lemma comp_seq_perm : Permutation (map comp (seq 0 K)) (seq 0 K).
  Proof.
    apply NoDup_Permutation_bis.
    - apply NoDup_map_inj_on; [apply seq_NoDup|].
      intros x y Hx Hy Hxy. apply in_seq in Hx. apply in_seq in Hy.
      rewrite <- (comp_inv x), <- (comp_inv y) by lia. rewrite Hxy. reflexivity.
    - rewrite map_length. apply le_n.
    - intros x Hx. apply in_map_iff in Hx. destruct Hx as [y [<- Hy]].
      apply in_seq in Hy. apply in_seq. split; [lia|]. simpl. apply comp_lt. lia.
  Qed.

  Lemma rc_row_spec_perm row : length row = K -> Permutation (rc_row_spec dflt K comp row) row.
  Proof.
    intros Hl. unfold rc_row_spec.
    rewrite <- (map_map comp (fun k => nth k row dflt)).
    pose proof (map_nth_seq row dflt) as E. rewrite Hl in E.
    apply (Permutation_trans (l' := map (fun k => nth k row dflt) (seq 0 K))).
    - apply Permutation_map. exact comp_seq_perm.
    - rewrite E. apply Permutation_refl.
  Qed.
End RcPerm.

Lemma rc_row_spec_map2_both {A B C} (da : A) (db : B) (dc : C) K comp
  (comp_lt : forall k, k < K -> comp k < K) (g : A -> B -> C) a b :
  length a = K -> length b = K ->
  rc_row_spec dc K comp (map2 g a b) = map2 g (rc_row_spec da K comp a) (rc_row_spec db K comp b).
Proof.
  intros Ha Hb. apply (nth_ext _ _ dc dc).
  - rewrite rc_row_spec_length, map2_length, !rc_row_spec_length. symmetry; apply Nat.min_id.
  - intros k Hk. rewrite rc_row_spec_length in Hk.
    rewrite nth_rc_row_spec by exact Hk.
    rewrite (nth_map2 g a b (comp k) dc da db) by (rewrite ?Ha, ?Hb; apply comp_lt; exact Hk).
    rewrite (nth_map2 g _ _ k dc da db) by (rewrite rc_row_spec_length; exact Hk).
    rewrite !nth_rc_row_spec by exact Hk. reflexivity.
Qed.

Section RcFreq.
  Context {T : Type}.
  Variable O : NumOps T.
  Variable K : nat.
  Variable comp : nat -> nat.
  Hypothesis comp_lt : forall k, k < K -> comp k < K.
  Hypothesis comp_inv : forall k, k < K -> comp (comp k) = k.
  Hypothesis add_comm : forall a b, n_add O a b = n_add O b a.
  Hypothesis add_assoc : forall a b c, n_add O (n_add O a b) c = n_add O a (n_add O b c).
  Let z := n_zero O.

  Lemma rc_to_freq_row p r : length p = K -> length r = K ->
    rc_row_spec z K comp (to_freq_row O p r)
    = to_freq_row O (rc_row_spec z K comp p) (rc_row_spec 0%N K comp r).
  Proof.
    intros Hp Hr. unfold to_freq_row.
    assert (Hd : length (map2 (fun x q => n_add O (n_of_N O x) q) r p) = K)
      by (rewrite map2_length, Hp, Hr; apply Nat.min_id).
    rewrite (rc_row_spec_map z z K comp comp_lt) by exact Hd.
    rewrite (rc_row_spec_map2_both 0%N z z K comp comp_lt) by assumption.
    set (dst' := map2 _ (rc_row_spec 0%N K comp r) (rc_row_spec z K comp p)).
    set (dst := map2 _ r p).
    assert (Hs : fsum O dst' = fsum O dst).
    { unfold fsum. apply (fold_left_perm (n_add O) add_comm add_assoc).
      unfold dst', dst. rewrite <- (rc_row_spec_map2_both 0%N z z K comp comp_lt) by assumption.
      apply rc_row_spec_perm; assumption. }
    rewrite Hs. reflexivity.
  Qed.

  Lemma rc_to_freq p m :
    length p = K -> Forall (fun row => length row = K) m ->
    rc_spec z K comp (to_freq O p m)
    = to_freq O (rc_row_spec z K comp p) (rc_spec 0%N K comp m).
  Proof.
    intros Hp Hm. unfold to_freq, rc_spec. rewrite <- !map_rev, !map_map.
    apply map_ext_in. intros row Hr. apply rc_to_freq_row; [exact Hp|].
    rewrite Forall_forall in Hm. apply Hm. apply in_rev. exact Hr.
  Qed.

  Lemma to_freq_rows p m : length p = K -> Forall (fun row => length row = K) m ->
    Forall (fun row => length row = K) (to_freq O p m).
  Proof.
    intros Hp Hm. unfold to_freq. apply Forall_forall. intros r Hr.
    apply in_map_iff in Hr. destruct Hr as [x [<- Hx]].
    unfold to_freq_row. rewrite map_length, map2_length, Hp.
    rewrite Forall_forall in Hm. rewrite (Hm x Hx). apply Nat.min_id.
  Qed.
End RcFreq.

(* ---------- counting ---------- *)

Section CountProofs.
  Variable K : nat.

  Definition cwf (L : nat) (d : cmatrix) : Prop := length d = L /\ Forall (fun r => length r = K) d.
  Definition cell (d : cmatrix) (i k : nat) : N := nth k (nth i d []) 0%N.
  Definition seq_wf (s : list nat) : Prop := Forall (fun x => x < K) s.

  Lemma czero_wf L : cwf L (czero K L).
  Proof. split; [apply repeat_length|]. apply Forall_repeat. apply repeat_length. Qed.

  Lemma czero_cell L i k : cell (czero K L) i k = 0%N.
  Proof.
    unfold cell, czero.
    destruct (Nat.ltb_spec i L).
    - rewrite nth_repeat_lt by assumption.
      destruct (Nat.ltb_spec k K); [apply nth_repeat_lt; assumption|].
      apply nth_overflow. rewrite repeat_length. assumption.
    - rewrite (nth_overflow (repeat (repeat 0%N K) L) []) by (rewrite repeat_length; assumption). destruct k; reflexivity.
  Qed.

  Lemma incr_cell_wf L d i x : i < L -> cwf L d -> cwf L (incr_cell d i x).
  Proof.
    intros Hi [Hl Hr]. unfold incr_cell. split; [rewrite upd_length; exact Hl|].
    apply Forall_upd; [exact Hr|]. rewrite upd_length.
    rewrite Forall_forall in Hr. apply Hr. apply nth_In. lia.
  Qed.

  Lemma incr_cell_cell L d i x i' k' : i < L -> x < K -> cwf L d ->
    cell (incr_cell d i x) i' k' = (cell d i' k' + (if ((i' =? i) && (k' =? x))%nat then 1 else 0))%N.
  Proof.
    intros Hi Hx [Hl Hr]. unfold cell, incr_cell.
    assert (Hrow : length (nth i d []) = K).
    { rewrite Forall_forall in Hr. apply Hr. apply nth_In. lia. }
    destruct (Nat.eqb_spec i' i) as [->|Hne]; simpl.
    - rewrite nth_upd_same by lia.
      destruct (Nat.eqb_spec k' x) as [->|Hk].
      + rewrite nth_upd_same by lia. reflexivity.
      + rewrite nth_upd_other by auto. lia.
    - rewrite nth_upd_other by auto. lia.
  Qed.

  Lemma add_seq_from_spec L : forall s d i0, cwf L d -> seq_wf s -> i0 + length s <= L ->
    cwf L (add_seq_from d i0 s) /\
    forall i k, cell (add_seq_from d i0 s) i k
                = (cell d i k + (if ((i0 <=? i) && (match nth_error s (i - i0) with Some x => x =? k | None => false end))%nat
                                 then 1 else 0))%N.
  Proof.
    induction s as [|x r IH]; intros d i0 Hd Hs Hlen; simpl in *.
    - split; [exact Hd|]. intros i k. destruct (i - i0); rewrite andb_false_r; lia.
    - inversion Hs as [|? ? Hx Hr]; subst.
      assert (Hd' : cwf L (incr_cell d i0 x)) by (apply incr_cell_wf; [lia | exact Hd]).
      destruct (IH (incr_cell d i0 x) (S i0) Hd' Hr ltac:(lia)) as [Hwf Hc].
      split; [exact Hwf|]. intros i k. rewrite Hc.
      rewrite (incr_cell_cell L) by (try lia; assumption).
      destruct (Nat.leb_spec (S i0) i) as [Hlt|Hge].
      + assert (Hle : (i0 <=? i) = true) by (apply Nat.leb_le; lia). rewrite Hle.
        assert (Hne : (i =? i0) = false) by (apply Nat.eqb_neq; lia). rewrite Hne. simpl.
        replace (i - i0) with (S (i - S i0)) by lia. simpl. lia.
      + simpl. destruct (Nat.eqb_spec i i0) as [->|Hne].
        * rewrite Nat.leb_refl, Nat.sub_diag. simpl.
          rewrite (Nat.eqb_sym k x). destruct (x =? k); lia.
        * assert (Hle : (i0 <=? i) = false) by (apply Nat.leb_gt; lia). rewrite Hle. simpl. lia.
  Qed.

  Lemma count_at_app seqs s i k :
    count_at (seqs ++ [s]) i k
    = (count_at seqs i k + (if match nth_error s i with Some x => (x =? k)%nat | None => false end then 1 else 0))%N.
  Proof.
    unfold count_at. rewrite filter_app, app_length. simpl.
    destruct (match nth_error s i with Some x => x =? k | None => false end); simpl; lia.
  Qed.

  (* the loop invariant: after the sequences [done] the matrix holds their counts *)
  Lemma from_seqs_loop_ok L : forall seqs d n done,
    cwf L d -> (forall i k, cell d i k = count_at done i k) ->
    Forall (fun s => length s = L /\ seq_wf s) seqs ->
    exists d', from_seqs_loop K (Some d) n seqs = Ok (d', (n + N.of_nat (length seqs))%N) /\
               cwf L d' /\ forall i k, cell d' i k = count_at (done ++ seqs) i k.
  Proof.
    induction seqs as [|s rest IH]; intros d n done Hd Hc Hs; simpl.
    - exists d. rewrite N.add_0_r, app_nil_r. auto.
    - inversion Hs as [|? ? [Hl Hw] Hrest]; subst.
      destruct Hd as [Hdl Hdr].
      rewrite Hdl, Nat.eqb_refl.
      destruct (add_seq_from_spec (length s) s d 0 (conj Hdl Hdr) Hw ltac:(lia)) as [Hwf Hcell].
      destruct (IH (add_seq_from d 0 s) (n + 1)%N (done ++ [s]) Hwf) as [d' [Hrun [Hwf' Hc']]].
      + intros i k. rewrite Hcell, Hc, count_at_app. simpl. rewrite Nat.sub_0_r. reflexivity.
      + exact Hrest.
      + exists d'. split; [|split; [exact Hwf'|]].
        * rewrite Hrun. f_equal. f_equal. lia.
        * intros i k. rewrite Hc'. rewrite <- app_assoc. reflexivity.
  Qed.

  Lemma add_seq_from_length : forall s d i0, length (add_seq_from d i0 s) = length d.
  Proof.
    induction s as [|x r IH]; intros d i0; simpl; auto.
    rewrite IH. unfold incr_cell. apply upd_length.
  Qed.

  Lemma from_seqs_loop_err L : forall seqs d n,
    length d = L -> forallb (fun s => length s =? L) seqs = false ->
    from_seqs_loop K (Some d) n seqs = Err 1.
  Proof.
    induction seqs as [|s rest IH]; intros d n Hd Hall; simpl in *; [discriminate|].
    rewrite Hd. destruct (Nat.eqb_spec (length s) L) as [Hl|Hl]; simpl in *; [|reflexivity].
    apply IH; [rewrite add_seq_from_length; exact Hd | exact Hall].
  Qed.

  Lemma count_at_nil i k : count_at [] i k = 0%N.
  Proof. reflexivity. Qed.

  (* CountMatrix::from_sequences *)
  Lemma from_sequences_spec seqs :
    Forall seq_wf seqs ->
    let L := match seqs with [] => 0 | s :: _ => length s end in
    if forallb (fun s => length s =? L) seqs
    then exists d, from_sequences K seqs = Ok (d, N.of_nat (length seqs)) /\ cwf L d /\
                   forall i k, cell d i k = count_at seqs i k
    else from_sequences K seqs = Err 1.
  Proof.
    intros Hw L. unfold from_sequences.
    destruct seqs as [|s rest].
    - simpl. exists []. repeat split; auto. intros i k. destruct i, k; reflexivity.
    - assert (E : from_seqs_loop K None 0%N (s :: rest) = from_seqs_loop K (Some (czero K (length s))) 0%N (s :: rest))
        by reflexivity.
      rewrite E. subst L.
      destruct (forallb (fun s0 => length s0 =? length s) (s :: rest)) eqn:Hall.
      + destruct (from_seqs_loop_ok (length s) (s :: rest) (czero K (length s)) 0%N [] (czero_wf _)) as [d [Hrun [Hwf Hc]]].
        * intros i k. rewrite czero_cell. reflexivity.
        * rewrite forallb_forall in Hall. rewrite Forall_forall in *. intros x Hx.
          split; [apply Nat.eqb_eq, Hall, Hx | apply Hw, Hx].
        * exists d. rewrite Hrun. simpl app in Hc. auto.
      + apply (from_seqs_loop_err (length s)); [apply repeat_length | exact Hall].
  Qed.

  (* the counts as one matrix equality *)
  Lemma cwf_cells_eq L d : cwf L d -> forall seqs, (forall i k, cell d i k = count_at seqs i k) ->
    d = counts_spec_matrix K L seqs.
  Proof.
    intros [Hl Hr] seqs Hc. unfold counts_spec_matrix.
    apply (nth_ext _ _ [] []).
    - rewrite map_length, seq_length. exact Hl.
    - intros i Hi. rewrite Hl in Hi.
      rewrite (nth_indep (map (fun i => map (fun k => count_at seqs i k) (seq 0 K)) (seq 0 L)) [] (map (fun k => count_at seqs 0 k) (seq 0 K))) by (rewrite map_length, seq_length; exact Hi).
      rewrite (map_nth (fun i => map (fun k => count_at seqs i k) (seq 0 K)) (seq 0 L) 0 i).
      rewrite seq_nth by exact Hi. simpl.
      assert (Hrow : length (nth i d []) = K).
      { rewrite Forall_forall in Hr. apply Hr, nth_In. lia. }
      apply (nth_ext _ _ 0%N 0%N).
      + rewrite map_length, seq_length. exact Hrow.
      + intros k Hk. rewrite Hrow in Hk.
        rewrite (nth_indep (map (fun k => count_at seqs i k) (seq 0 K)) 0%N (count_at seqs i 0)) by (rewrite map_length, seq_length; exact Hk).
        rewrite (map_nth (fun k => count_at seqs i k) (seq 0 K) 0 k). rewrite seq_nth by exact Hk.
        apply Hc.
  Qed.
End CountProofs.

(* ---------- conversions, any carrier ---------- *)

Section ConvProofs.
  Context {T : Type}.
  Variable O : NumOps T.
  Variable K : nat.
  Variables flog2 flog10 fln : T -> T.

  (* one step (into_scoring) = two steps (to_weight, then to_scoring): same operations in
     the same order; the zero-background convention needs log2(0.0) = -inf *)
  Lemma one_step_two_step bg m :
    flog2 (n_zero O) = n_ninf O -> n_eqb O (n_two O) (n_two O) = true ->
    into_scoring O flog2 bg m = to_scoring O flog2 flog10 fln (to_weight O bg m).
  Proof.
    intros Hz H2. unfold into_scoring, to_scoring, to_scoring_with_base, to_weight.
    rewrite map_map. apply map_ext. intros row.
    revert bg. induction row as [|x r IH]; intros [|f bg]; simpl; auto.
    rewrite IH. f_equal.
    unfold into_scoring_cell, weight_cell, flog. rewrite H2.
    destruct (n_eqb O f (n_zero O)); [symmetry; exact Hz | reflexivity].
  Qed.

  (* cells *)
  Lemma to_weight_cell bg m i k d : i < length m -> k < length (nth i m []) -> k < length bg ->
    nth k (nth i (to_weight O bg m) []) d
    = if n_eqb O (nth k bg d) (n_zero O) then n_zero O else n_div O (nth k (nth i m []) d) (nth k bg d).
  Proof.
    intros Hi Hk Hb. unfold to_weight.
    rewrite (nth_indep _ [] (map2 (weight_cell O) [] bg)) by (rewrite map_length; exact Hi).
    rewrite (map_nth (fun row => map2 (weight_cell O) row bg) m [] i).
    rewrite (nth_map2 (weight_cell O) _ bg k d d d) by assumption. reflexivity.
  Qed.

  Lemma into_scoring_cell_spec bg m i k d : i < length m -> k < length (nth i m []) -> k < length bg ->
    nth k (nth i (into_scoring O flog2 bg m) []) d
    = if n_eqb O (nth k bg d) (n_zero O) then n_ninf O
      else flog2 (n_div O (nth k (nth i m []) d) (nth k bg d)).
  Proof.
    intros Hi Hk Hb. unfold into_scoring.
    rewrite (nth_indep _ [] (map2 (into_scoring_cell O flog2) [] bg)) by (rewrite map_length; exact Hi).
    rewrite (map_nth (fun row => map2 (into_scoring_cell O flog2) row bg) m [] i).
    rewrite (nth_map2 (into_scoring_cell O flog2) _ bg k d d d) by assumption. reflexivity.
  Qed.

  Lemma to_scoring_with_base_cell base m i k d : i < length m -> k < length (nth i m []) ->
    nth k (nth i (to_scoring_with_base O flog2 flog10 fln base m) []) d
    = flog O flog2 flog10 fln base (nth k (nth i m []) d).
  Proof.
    intros Hi Hk. unfold to_scoring_with_base.
    rewrite (nth_indep _ [] (map (flog O flog2 flog10 fln base) [])) by (rewrite map_length; exact Hi).
    rewrite (map_nth (map (flog O flog2 flog10 fln base)) m [] i).
    rewrite (nth_indep _ d (flog O flog2 flog10 fln base d)) by (rewrite map_length; exact Hk).
    apply map_nth.
  Qed.

  (* acceptance: Background::new *)
  Definition in01 (f : T) : bool := n_leb O (n_zero O) f && n_leb O f (n_one O).

  Lemma bg_new_loop_spec : forall l sum,
    if forallb in01 l then bg_new_loop O sum l = Ok (fold_left (n_add O) l sum)
    else bg_new_loop O sum l = Err 1.
  Proof.
    induction l as [|f r IH]; intros sum; simpl; auto.
    fold (in01 f). destruct (in01 f); simpl; [apply IH | reflexivity].
  Qed.

  Lemma bg_new_spec l :
    bg_new O l = if forallb in01 l && n_eqb O (fold_left (n_add O) l (n_zero O)) (n_one O)
                 then Ok l else Err 1.
  Proof.
    unfold bg_new. pose proof (bg_new_loop_spec l (n_zero O)) as H.
    destruct (forallb in01 l); rewrite H; simpl; reflexivity.
  Qed.

  (* acceptance: FrequencyMatrix::new *)
  Lemma freq_new_spec m :
    freq_new O m = if forallb (freq_row_ok O) m then Ok m else Err 1.
  Proof. reflexivity. Qed.

  (* Background::from_counts *)
  Lemma bg_from_counts_spec counts :
    let total := fold_left N.add counts 0%N in
    bg_from_counts O counts
    = if (total =? 0)%N then Err 1
      else Ok (map (fun c => n_div O (n_of_N O c) (n_of_N O total)) counts).
  Proof. reflexivity. Qed.
End ConvProofs.

(* ---------- min_score <= window <= max_score over an ordered monoid ---------- *)

Section MinMax.
  Context {T : Type}.
  Variable O : NumOps T.
  Variable K : nat.
  Variable le : T -> T -> Prop.
  Hypothesis le_refl : forall a, le a a.
  Hypothesis le_trans : forall a b c, le a b -> le b c -> le a c.
  Hypothesis add_mono : forall a b c d, le a b -> le c d -> le (n_add O a c) (n_add O b d).
  Hypothesis cmp_le : forall a b,
    match n_cmp O a b with
    | Some Lt => le a b
    | Some Eq => le a b /\ le b a
    | Some Gt => le b a
    | None => True
    end.
  Hypothesis zeros : le (n_szero O) (n_zero O) /\ le (n_zero O) (n_szero O).

  Lemma min_by_from_le : forall l best v, min_by_from O best l = Ok v ->
    le v best /\ Forall (fun y => le v y) l.
  Proof.
    induction l as [|y r IH]; intros best v H; simpl in H.
    - inversion H; subst. split; [apply le_refl | constructor].
    - pose proof (cmp_le best y) as Hc.
      destruct (n_cmp O best y) as [[| |]|]; try discriminate.
      + destruct (IH best v H) as [H1 H2]. destruct Hc as [Hby _].
        split; [exact H1|]. constructor; [eapply le_trans; eauto | exact H2].
      + destruct (IH best v H) as [H1 H2].
        split; [exact H1|]. constructor; [eapply le_trans; eauto | exact H2].
      + destruct (IH y v H) as [H1 H2].
        split; [eapply le_trans; eauto|]. constructor; [exact H1 | exact H2].
  Qed.

  Lemma max_by_from_le : forall l best v, max_by_from O best l = Ok v ->
    le best v /\ Forall (fun y => le y v) l.
  Proof.
    induction l as [|y r IH]; intros best v H; simpl in H.
    - inversion H; subst. split; [apply le_refl | constructor].
    - pose proof (cmp_le best y) as Hc.
      destruct (n_cmp O best y) as [[| |]|]; try discriminate.
      + destruct (IH y v H) as [H1 H2]. destruct Hc as [Hby _].
        split; [eapply le_trans; eauto|]. constructor; [exact H1 | exact H2].
      + destruct (IH y v H) as [H1 H2].
        split; [eapply le_trans; eauto|]. constructor; [exact H1 | exact H2].
      + destruct (IH best v H) as [H1 H2].
        split; [exact H1|]. constructor; [eapply le_trans; eauto | exact H2].
  Qed.

  Lemma row_min_le row v x d : row_min O K row = Ok v -> x < K - 1 -> x < length row ->
    le v (nth x row d).
  Proof.
    intros H Hx Hl. unfold row_min in H.
    assert (Hn : nth x row d = nth x (firstn (K - 1) row) d).
    { rewrite <- (firstn_skipn (K - 1) row) at 1. apply app_nth1. rewrite firstn_length. lia. }
    assert (Hlen : x < length (firstn (K - 1) row)) by (rewrite firstn_length; lia).
    rewrite Hn. destruct (firstn (K - 1) row) as [|y r]; [simpl in Hlen; lia|].
    destruct (min_by_from_le r y v H) as [H1 H2].
    destruct x as [|x]; simpl; [exact H1|].
    rewrite Forall_forall in H2. apply H2. apply nth_In. simpl in Hlen. lia.
  Qed.

  Lemma row_max_le row v x d : row_max O K row = Ok v -> x < K - 1 -> x < length row ->
    le (nth x row d) v.
  Proof.
    intros H Hx Hl. unfold row_max in H.
    assert (Hn : nth x row d = nth x (firstn (K - 1) row) d).
    { rewrite <- (firstn_skipn (K - 1) row) at 1. apply app_nth1. rewrite firstn_length. lia. }
    assert (Hlen : x < length (firstn (K - 1) row)) by (rewrite firstn_length; lia).
    rewrite Hn. destruct (firstn (K - 1) row) as [|y r]; [simpl in Hlen; lia|].
    destruct (max_by_from_le r y v H) as [H1 H2].
    destruct x as [|x]; simpl; [exact H1|].
    rewrite Forall_forall in H2. apply H2. apply nth_In. simpl in Hlen. lia.
  Qed.

  Lemma fold_add_mono : forall l1 l2 a b, Forall2 le l1 l2 -> le a b ->
    le (fold_left (n_add O) l1 a) (fold_left (n_add O) l2 b).
  Proof.
    induction l1 as [|x r IH]; intros l2 a b H Hab; inversion H; subst; simpl; auto.
  Qed.

  Lemma map_res_ok {A B} (f : A -> res B) : forall l vs, map_res f l = Ok vs -> Forall2 (fun a v => f a = Ok v) l vs.
  Proof.
    induction l as [|a r IH]; intros vs H; simpl in H.
    - inversion H. constructor.
    - destruct (f a) eqn:Ea; simpl in H; try discriminate.
      destruct (map_res f r) eqn:Er; simpl in H; try discriminate.
      inversion H; subst. constructor; auto.
  Qed.

  (* the cells of a wildcard-free window, row by row *)
  Lemma window_bounds : forall m s mins maxs,
    Forall (fun row => length row = K) m ->
    Forall2 (fun row v => row_min O K row = Ok v) m mins ->
    Forall2 (fun row v => row_max O K row = Ok v) m maxs ->
    length m <= length s -> Forall (fun x => x < K - 1) (firstn (length m) s) ->
    Forall2 le mins (map2 (fun row x => nth x row (n_zero O)) m s) /\
    Forall2 le (map2 (fun row x => nth x row (n_zero O)) m s) maxs.
  Proof.
    induction m as [|row m IH]; intros s mins maxs Hrows Hmin Hmax Hlen Hclean.
    - inversion Hmin; inversion Hmax; subst. simpl. split; constructor.
    - destruct s as [|x s]; [simpl in Hlen; lia|].
      pose proof (Forall_inv Hrows) as Hrow. pose proof (Forall_inv_tail Hrows) as Hrows'. clear Hrows.
      simpl in Hclean.
      pose proof (Forall_inv Hclean) as Hx. pose proof (Forall_inv_tail Hclean) as Hclean'. clear Hclean.
      revert Hrow Hx.
      inversion Hmin as [|? vmin ? mins' Hv Hmin']; inversion Hmax as [|? vmax ? maxs' Hw Hmax']; subst.
      intros Hrow Hx.
      destruct (IH s mins' maxs' Hrows' Hmin' Hmax' ltac:(simpl in Hlen; lia) Hclean') as [H1 H2].
      simpl. split; constructor; auto.
      + apply row_min_le; [exact Hv | exact Hx | lia].
      + apply row_max_le; [exact Hw | exact Hx | lia].
  Qed.

  Lemma window_between_min_max_gen C m s pos mn mx :
    0 < C -> Forall (fun row => length row = K) m ->
    pos + length m <= length s ->
    Forall (fun x => x < K - 1) (firstn (length m) (skipn pos s)) ->
    min_score O K m = Ok mn -> max_score O K m = Ok mx ->
    exists w, score_position O K C m s pos = Ok w /\ le mn w /\ le w mx.
  Proof.
    intros HC Hrows Hpos Hclean Hmn Hmx.
    rewrite (score_position_in O K C m s pos HC Hpos).
    eexists; split; [reflexivity|].
    unfold min_score in Hmn. unfold max_score in Hmx.
    destruct (map_res (row_min O K) m) as [mins| | |] eqn:Emin; simpl in Hmn; try discriminate.
    destruct (map_res (row_max O K) m) as [maxs| | |] eqn:Emax; simpl in Hmx; try discriminate.
    inversion Hmn; inversion Hmx; subst.
    destruct (window_bounds m (skipn pos s) mins maxs Hrows (map_res_ok _ _ _ Emin) (map_res_ok _ _ _ Emax)) as [H1 H2].
    - rewrite skipn_length. lia.
    - exact Hclean.
    - unfold fsum, window_terms. split; apply fold_add_mono; auto; apply zeros.
  Qed.
End MinMax.

(* ---------- the counts checker is the counts property ---------- *)

From LMPwm Require Import PwmCheck.

Lemma list_same_eq {A} (eqb : A -> A -> bool) (Heq : forall a b, eqb a b = true <-> a = b) :
  forall l1 l2, list_same eqb l1 l2 = true <-> l1 = l2.
Proof.
  induction l1 as [|a l1 IH]; intros [|b l2]; simpl; split; intros H; try discriminate; auto.
  - apply andb_true_iff in H. destruct H as [H1 H2]. apply Heq in H1. apply IH in H2. congruence.
  - inversion H; subst. apply andb_true_iff. split; [apply Heq; reflexivity | apply IH; reflexivity].
Qed.

Lemma cm_same_eq m1 m2 : cm_same m1 m2 = true <-> m1 = m2.
Proof. apply list_same_eq. intros a b. apply list_same_eq. intros x y. apply N.eqb_eq. Qed.

Lemma check_counts_sound K seqs obs :
  check_counts K seqs obs = true ->
  let L := match seqs with [] => 0 | s :: _ => length s end in
  if all_len L seqs
  then obs = Ok (counts_spec_matrix K L seqs, N.of_nat (length seqs))
  else exists c, obs = Err c.
Proof.
  intros H. cbv zeta. unfold check_counts in H.
  set (L := match seqs with [] => 0 | s :: _ => length s end) in *.
  destruct (all_len L seqs).
  - destruct obs as [[m n]| | |]; try discriminate.
    apply andb_true_iff in H. destruct H as [H1 H2].
    apply cm_same_eq in H1. apply N.eqb_eq in H2. subst. reflexivity.
  - destruct obs; try discriminate. eexists; reflexivity.
Qed.

Lemma model_passes_check_counts K seqs :
  Forall (seq_wf K) seqs -> check_counts K seqs (from_sequences K seqs) = true.
Proof.
  intros Hw. pose proof (from_sequences_spec K seqs Hw) as H. simpl in H.
  unfold check_counts, all_len.
  destruct (forallb _ seqs).
  - destruct H as [d [Hrun [Hwf Hc]]]. rewrite Hrun.
    rewrite (cwf_cells_eq K _ d Hwf seqs Hc).
    apply andb_true_iff. split; [apply cm_same_eq; reflexivity | apply N.eqb_refl].
  - rewrite H. reflexivity.
Qed.
