(* The real-number instance of NumOps (proofs only, never extracted): the functions of
   PwmModel.v / PwmStat.v "as coded", interpreted over R with the true square root,
   base-2 logarithm and power of two.  Boolean comparisons come from the (classical)
   decidability of the order on R; [n_ninf] has no counterpart (set to 0; theorems over
   Rops that involve scores assume the cells concerned are not -inf). *)
From Coq Require Import List ZArith NArith Bool Arith Reals Lra.
From Flocq Require Import Core.
From LMBase Require Import Res ListX.
From LMPwm Require Import PwmModel PwmStat.
Import ListNotations.
Local Open Scope R_scope.

Definition R_eqb (a b : R) : bool := if Req_EM_T a b then true else false.
Definition R_ltb (a b : R) : bool := if Rlt_dec a b then true else false.
Definition R_leb (a b : R) : bool := if Rle_dec a b then true else false.

Definition Rops : NumOps R := {|
  n_zero := 0; n_szero := 0; n_one := 1; n_two := 2; n_ten := 10;
  n_tol := 1 / 100; n_ninf := 0;
  n_add := Rplus; n_sub := Rminus; n_mul := Rmult; n_div := Rdiv; n_abs := Rabs;
  n_eqb := R_eqb; n_ltb := R_ltb; n_leb := R_leb;
  n_cmp := fun a b => Some (Rcompare a b);
  n_of_N := fun n => IZR (Z.of_N n)
|}.

Definition Rlog2 (x : R) : R := ln x / ln 2.
Definition Rpow2 (x : R) : R := exp (x * ln 2).

Lemma R_eqb_true a b : R_eqb a b = true <-> a = b.
Proof. unfold R_eqb. destruct (Req_EM_T a b); split; intros; congruence. Qed.
Lemma R_ltb_true a b : R_ltb a b = true <-> a < b.
Proof. unfold R_ltb. destruct (Rlt_dec a b); split; intros; try congruence; contradiction. Qed.
Lemma R_leb_true a b : R_leb a b = true <-> a <= b.
Proof. unfold R_leb. destruct (Rle_dec a b); split; intros; try congruence; contradiction. Qed.

(* real sum of a list, and the model's fsum over Rops *)
Definition Rsum (l : list R) : R := fold_right Rplus 0 l.
Lemma fsum_Rsum (l : list R) : fsum Rops l = Rsum l.
Proof.
  unfold fsum. cbn [n_add n_szero Rops].
  assert (H : forall acc, fold_left Rplus l acc = acc + Rsum l).
  { induction l as [|x l IH]; intros acc; cbn [fold_left]; unfold Rsum; cbn [fold_right]; [lra|].
    rewrite IH. unfold Rsum. lra. }
  rewrite H. lra.
Qed.
