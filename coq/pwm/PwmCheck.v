(* Executable property checkers for C09 / C10 (no proofs here; soundness lemmas are
   in PwmProofs.v).  They are extracted and applied by ocaml/pwm/driver.ml to the
   *implementation's* observations; a [false] is reported as PROPFAIL.

   Exact clauses (counts, reverse complement, acceptance, min <= window <= max) are
   checked exactly.  Clauses that the property states in real arithmetic while the
   code computes in binary32 (frequency = (count+pseudo)/total, weight = f/bg, "up to
   floating-point summation order") are checked in exact rational arithmetic on the
   observed binary32 values with an explicit tolerance; they are skipped (true) when a
   value involved is NaN/infinite or a pseudocount is negative (ill-conditioned
   inputs), where only the bit-exact comparison with the binary32 model applies. *)
From Coq Require Import List ZArith NArith Bool Arith QArith Qabs.
From Flocq Require Import BinarySingleNaN.
From LMBase Require Import Res ListX IEEE.
From LMPwm Require Import GenComplement PwmModel.
Import ListNotations.
Local Open Scope nat_scope.

(* ---------- binary32 -> Q ---------- *)

Definition f32_to_Q (x : F32.t) : option Q :=
  match x with
  | B754_zero _ => Some 0%Q
  | B754_finite s m e _ =>
      let n := if s then Zneg m else Zpos m in
      Some (match e with
            | Z0 => n # 1
            | Zpos p => (n * Z.pow_pos 2 p) # 1
            | Zneg p => n # (Pos.pow 2 p)
            end)
  | _ => None
  end.

Definition Qleb (a b : Q) : bool := Qle_bool a b.

(* same bit pattern (NaN compared as the canonical NaN) *)
Definition f32_same (a b : F32.t) : bool := Z.eqb (F32.to_bits a) (F32.to_bits b).

Fixpoint list_same {A} (eq : A -> A -> bool) (a b : list A) : bool :=
  match a, b with
  | [], [] => true
  | x :: a', y :: b' => eq x y && list_same eq a' b'
  | _, _ => false
  end.

Definition row_same := list_same f32_same.
Definition fm_same := list_same row_same.
Definition cm_same := list_same (list_same N.eqb).

(* |a - b| <= abs + rel * max(|a|,|b|); infinities must coincide; NaN only matches NaN *)
Definition f32_close (abs rel : Q) (a b : F32.t) : bool :=
  match f32_to_Q a, f32_to_Q b with
  | Some x, Some y =>
      Qleb (Qabs (x - y)) (abs + rel * (if Qleb (Qabs x) (Qabs y) then Qabs y else Qabs x))
  | _, _ => f32_same a b
  end.

Definition fm_close (abs rel : Q) := list_same (list_same (f32_close abs rel)).

(* ---------- C09: counts ---------- *)

Definition all_len (L : nat) (seqs : list (list nat)) : bool := forallb (fun s => length s =? L) seqs.

(* the property: equal lengths -> cell (i,k) = number of sequences with symbol k at i
   (and the sequence count); unequal lengths -> rejected; no sequence -> empty matrix *)
Definition check_counts (K : nat) (seqs : list (list nat)) (obs : res (cmatrix * N)) : bool :=
  let L := match seqs with [] => 0 | s :: _ => length s end in
  if all_len L seqs then
    match obs with
    | Ok (m, n) => cm_same m (counts_spec_matrix K L seqs) && N.eqb n (N.of_nat (length seqs))
    | _ => false
    end
  else match obs with Err _ => true | _ => false end.

(* ---------- C09: frequencies ---------- *)

Fixpoint all_some {A} (l : list (option A)) : option (list A) :=
  match l with
  | [] => Some []
  | Some a :: r => match all_some r with Some r' => Some (a :: r') | None => None end
  | None :: _ => None
  end.

Definition Qsum (l : list Q) : Q := fold_left Qplus l 0%Q.

(* row: |obs_k - (c_k + p_k)/total| <= eps and |sum obs - 1| <= K*eps, provided the
   total is not 0 and below 2^100, the pseudocounts are finite and >= 0 and the observation is finite *)
Definition check_freq_row (eps : Q) (pseudo : list F32.t) (counts : list N) (obs : list F32.t) : bool :=
  match all_some (map f32_to_Q pseudo), all_some (map f32_to_Q obs) with
  | Some p, Some o =>
      if forallb (fun x => Qleb 0 x) p then
        let num := map2 (fun c x => (Z.of_N c # 1) + x)%Q counts p in
        let tot := Qsum num in
        if Qeq_bool tot 0 || negb (Qleb tot (Z.pow 2 100 # 1)) then true   (* 0/0, or binary32 overflow of the total *)
        else (length o =? length num)
             && forallb (fun b => b) (map2 (fun x y => Qleb (Qabs (x - y / tot)) eps) o num)
             && Qleb (Qabs (Qsum o - 1)) (eps * (Z.of_nat (length o) # 1))
      else true
  | _, _ => true
  end.

Definition check_freq (eps : Q) (pseudo : list F32.t) (cm : cmatrix) (obs : list (list F32.t)) : bool :=
  (length cm =? length obs) && forallb (fun b => b) (map2 (check_freq_row eps pseudo) cm obs).

(* ---------- C09: weights ---------- *)

(* background 0 -> weight 0; otherwise |w * bg - f| <= rel*|f| + tiny *)
Definition check_weight_cell (rel tiny : Q) (f bg w : F32.t) : bool :=
  if F32.eq bg F32.zero then F32.eq w F32.zero
  else match f32_to_Q f, f32_to_Q bg, f32_to_Q w with
       | Some qf, Some qb, Some qw => Qleb (Qabs (qw * qb - qf)) (rel * Qabs qf + tiny)
       | _, _, _ => true
       end.

Definition check_weight (rel tiny : Q) (bg : list F32.t) (fq wm : list (list F32.t)) : bool :=
  (length fq =? length wm)
  && forallb (fun b => b)
       (map2 (fun fr wr => (length fr =? length wr) && (length fr =? length bg)
                           && forallb (fun b => b) (map3 (check_weight_cell rel tiny) fr bg wr)) fq wm).

(* rescale: the result is the weight matrix for the new background wherever the old
   background was not 0, and 0 wherever the new background is 0.

   Tolerance = a function of the three binary32 operations the code performs,
     x = RN(f / old),  q = RN(old / new),  w = RN(x * q),
   in the standard model RN(z) = z (1 + d) + e with |d| <= 2^-24, |e| <= 2^-150
   (e <> 0 only when the result is subnormal):
     |w * new - f| <= ((1+2^-24)^3 - 1) |f|            (three roundings)
                      + |x| * new * 2^-150 (1+2^-24)   (gradual underflow of q = old/new)
                      + (old + new) * 2^-150 (1+..)    (underflow of x and of w)
   With [rel] >= 2^-22 and [tiny] >= 2^-148 the bound below dominates it.  The second
   term matters only when old/new < 2^-126 (a subnormal old background, e.g. the
   smallest denormal 2^-149, which Background::new accepts): there q keeps fewer than
   24 significant bits, and the relative error of the result is bounded by
   2^-149 * new / old instead of 2^-22.  For old/new >= 2^-126 that term is <= 2^-23 |f|. *)
Definition rescale_tol (rel tiny qf qo qn : Q) : Q :=
  rel * Qabs qf + (Qabs qf / Qabs qo) * Qabs qn * (1 # (Pos.pow 2 149)) + tiny.

Definition check_rescale_cell (rel tiny : Q) (f old new w : F32.t) : bool :=
  if F32.eq new F32.zero then F32.eq w F32.zero
  else if F32.eq old F32.zero then true
  else match f32_to_Q f, f32_to_Q old, f32_to_Q new, f32_to_Q w with
       | Some qf, Some qo, Some qn, Some qw =>
           Qleb (Qabs (qw * qn - qf)) (rescale_tol rel tiny qf qo qn)
       | _, _, _, _ => true
       end.

Fixpoint map4 {A B C D E : Type} (f : A -> B -> C -> D -> E) (l1 : list A) (l2 : list B)
  (l3 : list C) (l4 : list D) : list E :=
  match l1, l2, l3, l4 with
  | a :: r1, b :: r2, c :: r3, d :: r4 => f a b c d :: map4 f r1 r2 r3 r4
  | _, _, _, _ => []
  end.

Definition check_rescale (rel tiny : Q) (old new : list F32.t) (fq rs : list (list F32.t)) : bool :=
  (length fq =? length rs)
  && forallb (fun b => b)
       (map2 (fun fr wr => (length fr =? length wr) && (length fr =? length old) && (length fr =? length new)
                           && forallb (fun b => b) (map4 (check_rescale_cell rel tiny) fr old new wr)) fq rs).

(* ---------- C09: scores ---------- *)

(* score = log_base(weight) through the libm oracle, -inf where the background is 0 *)
Definition check_score_cell (abs rel : Q) (expected : F32.t) (bg : F32.t) (obs : F32.t) : bool :=
  if F32.eq bg F32.zero then f32_same obs F32.ninf
  else if F32.is_nan expected || F32.is_nan obs then true
  else f32_close abs rel expected obs.

(* min_score <= window <= max_score (IEEE comparison); skipped when a value is NaN *)
Definition check_window (mn mx w : F32.t) : bool :=
  if F32.is_nan mn || F32.is_nan mx || F32.is_nan w then true
  else F32.le mn w && F32.le w mx.

(* a window without wildcard *)
Definition window_clean (K M : nat) (s : list nat) (pos : nat) : bool :=
  forallb (fun x => negb (x =? K - 1)) (firstn M (skipn pos s)).

(* ---------- C09: acceptance ---------- *)

(* Background::new: must be rejected when an entry is outside [0,1] / NaN or when the
   exact sum differs from 1 by more than [slack] *)
Definition bg_must_reject (slack : Q) (l : list F32.t) : bool :=
  match all_some (map f32_to_Q l) with
  | None => true
  | Some q => negb (forallb (fun x => Qleb 0 x && Qleb x 1) q) || negb (Qleb (Qabs (Qsum q - 1)) slack)
  end.

(* FrequencyMatrix::new: must be rejected when some row's exact sum is further than
   0.01 + slack from 1 (or is not a number) *)
Definition freq_must_reject (slack : Q) (m : list (list F32.t)) : bool :=
  existsb (fun row => match all_some (map f32_to_Q row) with
                      | None => existsb F32.is_nan row
                      | Some q => negb (Qleb (Qabs (Qsum q - 1)) ((1 # 100) + slack))
                      end) m.


(* Background::from_counts / from_sequence(s): frequency k = counts k / total (within
   [eps], absolute); a zero total must be rejected; never a panic *)
Definition check_bg_counts (eps : Q) (counts : list N) (obs : res (list F32.t)) : bool :=
  let total := fold_left N.add counts 0%N in
  if (total =? 0)%N then match obs with Err _ => true | _ => false end
  else match obs with
       | Ok l => (length l =? length counts)
                 && forallb (fun b => b)
                      (map2 (fun c x => match f32_to_Q x with
                                        | Some q => Qleb (Qabs (q - (Z.of_N c # 1) / (Z.of_N total # 1))) eps
                                        | None => false
                                        end) counts l)
       | _ => false
       end.

(* the counts that from_sequence(s) must use: occurrences of every symbol, the
   wildcard only when [unknown] *)
Definition bg_counts_spec (K : nat) (seqs : list (list nat)) (unknown : bool) : list N :=
  map (fun k => if unknown || negb (k =? K - 1)
                then N.of_nat (length (filter (fun x => x =? k) (concat seqs))) else 0%N) (seq 0 K).

(* ---------- C10 ---------- *)

(* the reverse complement is the row reversal combined with the column permutation *)
Definition check_rc_f32 (m obs : list (list F32.t)) : bool :=
  fm_same obs (rc_spec F32.zero dna_K dna_comp m).
Definition check_rc_N (m obs : cmatrix) : bool :=
  cm_same obs (rc_spec 0%N dna_K dna_comp m).

Definition complement_involutive_b : bool :=
  forallb (fun k => (dna_comp (dna_comp k) =? k) && (dna_comp k <? dna_K)) (seq 0 dna_K).

Definition strand_symmetric (l : list F32.t) : bool :=
  row_same (rc_row_spec F32.zero dna_K dna_comp l) l.

(* mirrored window scores agree up to the summation order:
   |a - b| <= M * 2^-23 * sum |terms| ; equal when a term is -inf; skipped on NaN/+inf *)
Definition check_mirror (terms : list F32.t) (a b : F32.t) : bool :=
  if existsb F32.is_nan terms || F32.is_nan a || F32.is_nan b then true
  else match all_some (map f32_to_Q terms), f32_to_Q a, f32_to_Q b with
       | Some t, Some x, Some y =>
           Qleb (Qabs (x - y))
                ((Z.of_nat (length t) # 8388608) * Qsum (map Qabs t))
       | None, _, _ => if existsb (fun t => F32.eq t F32.inf) terms then true else f32_same a b
       | _, _, _ => true
       end.
