(* Property C09 — count -> frequency -> weight -> log-odds conversions obey their
   definitions.  Only the property theorems (closed by lemmas of PwmProofs.v /
   PwmExact.v), statement pins and non-vacuity examples.

   Carriers: theorems about the order of operations hold for ANY carrier [T] with
   operations [O : NumOps T] (hence for binary32 as it is); theorems about values are
   stated over exact rationals (Qcops; XQops = Qc + -oo for sums of scores).
   Logarithms are the abstract functions flog2 / flog10 / fln. *)
From Coq Require Import List ZArith NArith Bool Arith Lia QArith Qcanon Qcabs.
From LMBase Require Import Res ListX IEEE.
From Coq Require Import Reals Qreals Qabs.
From Flocq Require Import Core BinarySingleNaN.
From LMPwm Require Import GenComplement PwmModel PwmCheck PwmProofs PwmExact PwmExact2 PwmF32 PwmCheckSound PwmF32Rescale PwmF32Freq PwmF32FreqCell.
Import ListNotations.
Local Open Scope nat_scope.

(* ---- counts ---- *)

(* from_sequences: with equal lengths L the result is the L x K matrix whose cell (i,k)
   is the number of sequences whose i-th symbol is k (and the sequence count);
   with unequal lengths it is Err(InvalidData); without sequences the empty matrix. *)
Theorem C09_counts_spec :
  forall (K : nat) (seqs : list (list nat)),
    Forall (Forall (fun x => x < K)) seqs ->
    let L := match seqs with [] => 0 | s :: _ => length s end in
    if forallb (fun s => length s =? L) seqs
    then from_sequences K seqs = Ok (counts_spec_matrix K L seqs, N.of_nat (length seqs)) /\
         forall i k, i < L -> k < K ->
           nth k (nth i (counts_spec_matrix K L seqs) []) 0%N
           = N.of_nat (length (filter (fun s => match nth_error s i with Some x => x =? k | None => false end) seqs))
    else from_sequences K seqs = Err 1.
Proof.
  intros K seqs Hw L. pose proof (from_sequences_spec K seqs Hw) as H. simpl in H. fold L in H.
  destruct (forallb (fun s => length s =? L) seqs); [|exact H].
  destruct H as [d [Hrun [Hwf Hc]]].
  rewrite <- (cwf_cells_eq K L d Hwf seqs Hc). split; [exact Hrun|].
  intros i k _ _. exact (Hc i k).
Qed.

Theorem C09_counts_empty : forall K, from_sequences K [] = Ok ([], 0%N).
Proof. reflexivity. Qed.

(* the extracted checker used on the implementation's observations is this property *)
Theorem C09_check_counts_sound :
  forall K seqs obs, check_counts K seqs obs = true ->
    let L := match seqs with [] => 0 | s :: _ => length s end in
    if all_len L seqs
    then obs = Ok (counts_spec_matrix K L seqs, N.of_nat (length seqs))
    else exists c, obs = Err c.
Proof. exact check_counts_sound. Qed.

Theorem C09_model_passes_check_counts :
  forall K seqs, Forall (Forall (fun x => x < K)) seqs -> check_counts K seqs (from_sequences K seqs) = true.
Proof. exact model_passes_check_counts. Qed.

(* ---- frequencies (exact arithmetic; a row whose count+pseudocount total is 0 is
        0/0 = NaN in the code and is excluded) ---- *)

Theorem C09_freq_rows_sum_to_one :
  forall (pseudo : list Qc) (row : list N),
    Qcsum (freq_num pseudo row) <> Q2Qc 0 ->
    Qcsum (to_freq_row Qcops pseudo row) = Q2Qc 1.
Proof. exact freq_row_sum. Qed.

Theorem C09_freq_cell :
  forall (pseudo : list Qc) (row : list N) (k : nat),
    k < length row -> k < length pseudo ->
    nth k (to_freq_row Qcops pseudo row) (Q2Qc 0)
    = ((Q2Qc (inject_Z (Z.of_N (nth k row 0%N))) + nth k pseudo (Q2Qc 0)) / Qcsum (freq_num pseudo row))%Qc.
Proof. exact freq_row_cell. Qed.

(* to_freq is row-wise, and the scalar pseudocount is [c] on every symbol but the wildcard *)
Theorem C09_to_freq_rowwise :
  forall (T : Type) (O : NumOps T) (pseudo : list T) (m : list (list N)) (K : nat) (c : T),
    to_freq O pseudo m = map (to_freq_row O pseudo) m /\
    length (pseudo_scalar O K c) = K /\
    forall k, k < K -> nth k (pseudo_scalar O K c) c = if k =? K - 1 then n_zero O else c.
Proof.
  intros T O pseudo m K c. split; [reflexivity|]. split.
  - unfold pseudo_scalar. rewrite map_length, seq_length. reflexivity.
  - intros k Hk. unfold pseudo_scalar, wildcard.
    rewrite (nth_indep _ c ((fun i => if i =? K - 1 then n_zero O else c) 0)) by (rewrite map_length, seq_length; exact Hk).
    rewrite (map_nth (fun i => if i =? K - 1 then n_zero O else c) (seq 0 K) 0 k).
    rewrite seq_nth by exact Hk. reflexivity.
Qed.

(* binary32 (Flocq): the REAL sum of the computed cells of a frequency row is within
   E n = 1/(1-u)^n - 1 + n*eta of one (n = K cells, u = 2^-24, eta = 2^-150; at most
   2^-19 for the 21 protein columns), for nonnegative count+pseudocount cells with a finite
   positive total.  (Addition has no underflow error: FLT_plus_error_N_ex; the n*eta
   term comes from the n divisions.) *)
Theorem C09_freq_rows_sum_to_one_f32 :
  forall (pseudo : list F32.t) (row : list N),
    let dst := map2 (fun x p => F32.add (F32.of_Z (Z.of_N x)) p) row pseudo in
    let s := fsum F32ops dst in
    Forall (fun x => is_finite x = true /\ (0 <= B2R x)%R) dst -> is_finite s = true -> (0 < B2R s)%R ->
    Forall (fun x => is_finite x = true) (to_freq_row F32ops pseudo row) ->
    (Rabs (Rsum (map B2R (to_freq_row F32ops pseudo row)) - 1) <= E (length dst))%R /\
    (length dst <= 21 -> (E (length dst) <= bpow radix2 (-19))%R).
Proof.
  intros pseudo row dst s H1 H2 H3 H4. split.
  - exact (to_freq_row_sum_f32 pseudo row H1 H2 H3 H4).
  - intros Hn. exact (E_small _ Hn).
Qed.

(* binary32 (Flocq): every computed frequency cell is within G K * X/T + eta of the exact
   X/T = (count + pseudocount) / exact row total, G K = 1/(1-u)^(K+5) - 1 (u32 counts,
   finite nonnegative pseudocounts, finite positive binary32 total, finite quotients) ... *)
Theorem C09_freq_cell_f32 :
  forall (pseudo : list F32.t) (row : list N),
    Forall (fun c => (c < 2 ^ 32)%N) row ->
    Forall (fun p => is_finite p = true /\ (0 <= B2R p)%R) pseudo ->
    let dst := map2 (fun x p => F32.add (F32.of_Z (Z.of_N x)) p) row pseudo in
    let s := fsum F32ops dst in
    is_finite s = true -> (0 < B2R s)%R ->
    Forall (fun x => is_finite x = true) (to_freq_row F32ops pseudo row) ->
    let T := Rsum (map2 (fun c p => (IZR (Z.of_N c) + B2R p)%R) row pseudo) in
    (0 < T)%R /\
    forall k, k < length row -> k < length pseudo ->
      let X := (IZR (Z.of_N (nth k row 0%N)) + B2R (nth k pseudo F32.zero))%R in
      (Rabs (B2R (nth k (to_freq_row F32ops pseudo row) F32.zero) - X / T) <= G (length dst) * (X / T) + eta32)%R.
Proof. exact freq_cell_error_unfolded. Qed.

(* ... hence (G 21 + eta <= 1e-5, row sum within 2^-19) the binary32 model passes the
   extracted frequency check with the driver's eps = 1e-5 for every row of at most 21
   u32 counts and finite nonnegative pseudocounts whose total does not overflow: a
   PROPFAIL "frequency-not-(count+pseudo)/total" cannot be caused by rounding *)
Theorem C09_freq_row_model_passes_check :
  forall (pseudo : list F32.t) (row : list N),
    length pseudo = length row -> length row <= 21 ->
    Forall (fun c => (c < 2 ^ 32)%N) row ->
    Forall (fun p => is_finite p = true /\ (0 <= B2R p)%R) pseudo ->
    let dst := map2 (fun x p => F32.add (F32.of_Z (Z.of_N x)) p) row pseudo in
    let s := fsum F32ops dst in
    is_finite s = true ->
    Forall (fun x => is_finite x = true) (to_freq_row F32ops pseudo row) ->
    check_freq_row (1 # 100000) pseudo row (to_freq_row F32ops pseudo row) = true.
Proof. exact freq_row_model_passes_check. Qed.

(* ---- weights ---- *)

(* any carrier: cell = 0.0 where the background compares equal to 0.0, frequency / background otherwise *)
Theorem C09_weight_cell :
  forall (T : Type) (O : NumOps T) (bg : list T) (m : list (list T)) (i k : nat) (d : T),
    i < length m -> k < length (nth i m []) -> k < length bg ->
    nth k (nth i (to_weight O bg m) []) d
    = if n_eqb O (nth k bg d) (n_zero O) then n_zero O else n_div O (nth k (nth i m []) d) (nth k bg d).
Proof. intros T O. exact (to_weight_cell O). Qed.

(* ---- scores ---- *)

(* the score is the logarithm of the weight in the requested base:
   log2 for base == 2.0, log10 for base == 10.0, ln x / ln base otherwise *)
Theorem C09_scoring_cell :
  forall (T : Type) (O : NumOps T) (flog2 flog10 fln : T -> T) (base : T) (m : list (list T)) (i k : nat) (d : T),
    i < length m -> k < length (nth i m []) ->
    nth k (nth i (to_scoring_with_base O flog2 flog10 fln base m) []) d
    = flog O flog2 flog10 fln base (nth k (nth i m []) d) /\
    flog O flog2 flog10 fln base (nth k (nth i m []) d)
    = (if n_eqb O base (n_two O) then flog2 (nth k (nth i m []) d)
       else if n_eqb O base (n_ten O) then flog10 (nth k (nth i m []) d)
       else n_div O (fln (nth k (nth i m []) d)) (fln base)).
Proof.
  intros T O f2 f10 fl base m i k d Hi Hk. split; [|reflexivity].
  exact (to_scoring_with_base_cell O f2 f10 fl base m i k d Hi Hk).
Qed.

(* one-step route: -inf where the background is 0, log2(frequency/background) otherwise *)
Theorem C09_into_scoring_cell :
  forall (T : Type) (O : NumOps T) (flog2 : T -> T) (bg : list T) (m : list (list T)) (i k : nat) (d : T),
    i < length m -> k < length (nth i m []) -> k < length bg ->
    nth k (nth i (into_scoring O flog2 bg m) []) d
    = if n_eqb O (nth k bg d) (n_zero O) then n_ninf O
      else flog2 (n_div O (nth k (nth i m []) d) (nth k bg d)).
Proof. intros T O f2. exact (into_scoring_cell_spec O f2). Qed.

(* the one-step and the two-step routes perform the same operations in the same order;
   where the background is 0 one writes -inf and the other log2(0.0) *)
Theorem C09_one_step_eq_two_step :
  forall (T : Type) (O : NumOps T) (flog2 flog10 fln : T -> T) (bg : list T) (m : list (list T)),
    flog2 (n_zero O) = n_ninf O -> n_eqb O (n_two O) (n_two O) = true ->
    into_scoring O flog2 bg m = to_scoring O flog2 flog10 fln (to_weight O bg m).
Proof. intros T O f2 f10 fl bg m. exact (one_step_two_step O f2 f10 fl bg m). Qed.

(* ---- rescale (exact arithmetic) ---- *)

Theorem C09_rescale_spec :
  forall (b1 b2 : list Qc) (f : list (list Qc)),
    Forall (fun row => length row = length b1) f -> length b2 = length b1 ->
    Forall (fun o => o <> Q2Qc 0) b1 ->
    rescale Qcops b1 (to_weight Qcops b1 f) b2 = (b2, to_weight Qcops b2 f).
Proof. exact rescale_Qc. Qed.

(* cell-wise, including columns whose old background is 0 (the information is lost there)
   and the repaired case: 0 where the new background is 0 *)
Theorem C09_rescale_cell :
  forall x o n : Qc,
    rescale_cell Qcops (weight_cell Qcops x o) o n
    = if Qc_eq_bool n (Q2Qc 0) then Q2Qc 0 else if Qc_eq_bool o (Q2Qc 0) then Q2Qc 0 else (x / n)%Qc.
Proof. exact rescale_cell_Qc. Qed.

(* ---- min_score <= window <= max_score ---- *)

(* ordered commutative monoid formulation: any carrier with a preorder that addition
   respects and that partial_cmp decides *)
Theorem C09_window_between_min_max_ordered :
  forall (T : Type) (O : NumOps T) (K : nat) (le : T -> T -> Prop),
    (forall a, le a a) -> (forall a b c, le a b -> le b c -> le a c) ->
    (forall a b c d, le a b -> le c d -> le (n_add O a c) (n_add O b d)) ->
    (forall a b, match n_cmp O a b with
                 | Some Lt => le a b | Some Eq => le a b /\ le b a | Some Gt => le b a | None => True end) ->
    le (n_szero O) (n_zero O) /\ le (n_zero O) (n_szero O) ->
    forall (C : nat) (m : list (list T)) (s : list nat) (pos : nat) (mn mx : T),
      0 < C -> Forall (fun row => length row = K) m -> pos + length m <= length s ->
      Forall (fun x => x < K - 1) (firstn (length m) (skipn pos s)) ->
      min_score O K m = Ok mn -> max_score O K m = Ok mx ->
      exists w, score_position O K C m s pos = Ok w /\ le mn w /\ le w mx.
Proof.
  intros T O K le H1 H2 H3 H4 H5 C m s pos mn mx.
  exact (window_between_min_max_gen O K le H1 H2 H3 H4 H5 C m s pos mn mx).
Qed.

(* exact arithmetic with -oo cells (zero-background columns): min_score and max_score never
   panic, and every window without wildcard scores between them *)
Theorem C09_window_between_min_max :
  forall (K C : nat) (m : list (list xq)) (s : list nat) (pos : nat) (mn mx : xq),
    0 < C -> Forall (fun row => length row = K) m -> pos + length m <= length s ->
    Forall (fun x => x < K - 1) (firstn (length m) (skipn pos s)) ->
    min_score XQops K m = Ok mn -> max_score XQops K m = Ok mx ->
    exists w, score_position XQops K C m s pos = Ok w /\ xq_le mn w /\ xq_le w mx.
Proof.
  intros K C m s pos mn mx.
  apply (window_between_min_max_gen XQops K xq_le xq_le_refl xq_le_trans xq_add_mono xq_cmp_le).
  split; apply xq_le_refl.
Qed.

Theorem C09_window_between_min_max_Qc :
  forall (K C : nat) (m : list (list Qc)) (s : list nat) (pos : nat) (mn mx : Qc),
    0 < C -> Forall (fun row => length row = K) m -> pos + length m <= length s ->
    Forall (fun x => x < K - 1) (firstn (length m) (skipn pos s)) ->
    min_score Qcops K m = Ok mn -> max_score Qcops K m = Ok mx ->
    exists w, score_position Qcops K C m s pos = Ok w /\ (mn <= w)%Qc /\ (w <= mx)%Qc.
Proof.
  intros K C m s pos mn mx.
  apply (window_between_min_max_gen Qcops K Qcle Qcle_refl Qcle_trans Qcplus_le_compat Qc_cmp_le).
  split; apply Qcle_refl.
Qed.

(* binary32 (Flocq), EXACT: min_score, max_score and score_position add one cell per row
   in the same order and rounded addition is monotone, so the bounds hold without any
   tolerance whenever the three values are not NaN (a NaN can only come from inf - inf
   and propagates to the result).  min_score / max_score returning Ok already excludes
   NaN cells (partial_cmp(..).unwrap() panics on them: Panic 10). *)
Theorem C09_window_between_min_max_f32 :
  forall (K C : nat) (m : list (list F32.t)) (s : list nat) (pos : nat) (mn mx : F32.t),
    0 < C -> Forall (fun row => length row = K) m -> pos + length m <= length s ->
    Forall (fun x => x < K - 1) (firstn (length m) (skipn pos s)) ->
    min_score F32ops K m = Ok mn -> max_score F32ops K m = Ok mx ->
    exists w, score_position F32ops K C m s pos = Ok w /\
      (F32.is_nan mn = false -> F32.is_nan w = false -> F32.le mn w = true) /\
      (F32.is_nan w = false -> F32.is_nan mx = false -> F32.le w mx = true).
Proof. exact window_between_min_max_f32. Qed.

(* the extracted window check never rejects the binary32 model: a PROPFAIL
   "window-outside-min-max" can only come from the implementation *)
Theorem C09_model_passes_check_window :
  forall (K C : nat) (m : list (list F32.t)) (s : list nat) (pos : nat) (mn mx : F32.t),
    0 < C -> Forall (fun row => length row = K) m -> pos + length m <= length s ->
    Forall (fun x => x < K) s -> window_clean K (length m) s pos = true ->
    min_score F32ops K m = Ok mn -> max_score F32ops K m = Ok mx ->
    exists w, score_position F32ops K C m s pos = Ok w /\ check_window mn mx w = true.
Proof. exact model_passes_check_window. Qed.

Theorem C09_check_window_sound :
  forall mn mx w, check_window mn mx w = true ->
    F32.is_nan mn = false -> F32.is_nan mx = false -> F32.is_nan w = false ->
    F32.le mn w = true /\ F32.le w mx = true.
Proof. exact check_window_sound. Qed.

(* ---- binary32 weights and rescaled weights: error bounds from the operations performed
        (standard model of round-to-nearest with gradual underflow: RN(z) = z(1+d)+e,
        |d| <= u = 2^-24, |e| <= eta = 2^-150), and what the extracted checkers state ---- *)

(* the rational value the checkers compute with is the real value of the binary32 number *)
Theorem C09_f32_to_Q_is_real_value :
  forall (x : F32.t) (q : Q), f32_to_Q x = Some q -> Q2R q = B2R x /\ is_finite x = true.
Proof. exact f32_to_Q_B2R. Qed.

(* weight = RN(f / bg): one rounding *)
Theorem C09_weight_f32_error :
  forall f o : F32.t,
    is_finite f = true -> is_finite o = true -> (0 < B2R o)%R ->
    let x := F32.div f o in
    is_finite x = true ->
    (Rabs (B2R x * B2R o - B2R f) <= u32 * Rabs (B2R f) + B2R o * eta32)%R.
Proof. exact weight_f32_error. Qed.

(* rescaled weight = RN(RN(f/old) * RN(old/new)): three roundings; the eta term carries
   the weight x = f/old when old/new underflows gradually (subnormal old background) *)
Theorem C09_rescale_f32_error :
  forall f o n : F32.t,
    is_finite f = true -> is_finite o = true -> is_finite n = true ->
    (0 < B2R o)%R -> (0 < B2R n)%R ->
    let x := F32.div f o in let q := F32.div o n in let w := F32.mul x q in
    is_finite x = true -> is_finite q = true -> is_finite w = true ->
    (Rabs (B2R w * B2R n - B2R f)
     <= ((1 + u32) ^ 3 - 1) * Rabs (B2R f)
        + (Rabs (B2R x) * B2R n * (1 + u32) + B2R o * (1 + u32) ^ 2 + B2R n) * eta32)%R.
Proof. exact rescale_f32_error. Qed.

(* hence the binary32 model passes the extracted checks with the driver's tolerances
   (weights: 1e-6 relative + 2^-60; rescale: 1e-5 relative + underflow term + 2^-60) for
   every background entry in (0,1] and every frequency, unless a value overflows:
   a PROPFAIL of these checks cannot be caused by binary32 rounding *)
Theorem C09_weight_model_passes_check :
  forall f o : F32.t,
    is_finite f = true -> is_finite o = true -> (0 < B2R o <= 1)%R ->
    let x := F32.div f o in
    is_finite x = true ->
    check_weight_cell (1 # 1000000) (1 # Pos.pow 2 60) f o (weight_cell F32ops f o) = true.
Proof. exact weight_model_passes_check. Qed.

Theorem C09_rescale_model_passes_check :
  forall f o n : F32.t,
    is_finite f = true -> is_finite o = true -> is_finite n = true ->
    (0 < B2R o <= 1)%R -> (0 < B2R n <= 1)%R ->
    let x := F32.div f o in let q := F32.div o n in let w := F32.mul x q in
    is_finite x = true -> is_finite q = true -> is_finite w = true ->
    check_rescale_cell (1 # 100000) (1 # Pos.pow 2 60) f o n
      (rescale_cell F32ops (weight_cell F32ops f o) o n) = true.
Proof. exact rescale_model_passes_check. Qed.

(* what a [true] of the extracted weight / rescale / background checkers states *)
Theorem C09_check_weight_cell_sound :
  forall rel tiny f bg w, check_weight_cell rel tiny f bg w = true ->
    (F32.eq bg F32.zero = true -> F32.eq w F32.zero = true) /\
    (F32.eq bg F32.zero = false -> forall qf qb qw,
       f32_to_Q f = Some qf -> f32_to_Q bg = Some qb -> f32_to_Q w = Some qw ->
       (Qabs (qw * qb - qf) <= rel * Qabs qf + tiny)%Q).
Proof. exact check_weight_cell_sound. Qed.

Theorem C09_check_rescale_cell_sound :
  forall rel tiny f old new w, check_rescale_cell rel tiny f old new w = true ->
    (F32.eq new F32.zero = true -> F32.eq w F32.zero = true) /\
    (F32.eq new F32.zero = false -> F32.eq old F32.zero = false -> forall qf qo qn qw,
       f32_to_Q f = Some qf -> f32_to_Q old = Some qo -> f32_to_Q new = Some qn -> f32_to_Q w = Some qw ->
       (Qabs (qw * qn - qf) <= rel * Qabs qf + (Qabs qf / Qabs qo) * Qabs qn * (1 # (2 ^ 149)) + tiny)%Q).
Proof. exact check_rescale_cell_sound. Qed.

Theorem C09_check_bg_counts_sound :
  forall eps counts obs, check_bg_counts eps counts obs = true ->
    let total := fold_left N.add counts 0%N in
    if (total =? 0)%N then exists c, obs = Err c
    else exists l, obs = Ok l /\ length l = length counts /\
         forall k, k < length counts -> exists q,
           f32_to_Q (nth k l F32.zero) = Some q /\
           (Qabs (q - (Z.of_N (nth k counts 0%N) # 1) / (Z.of_N total # 1)) <= eps)%Q.
Proof. exact check_bg_counts_sound. Qed.

(* an accepted background / frequency matrix that the checkers do not flag is valid on
   its exact values (up to the slack) *)
Theorem C09_bg_must_reject_sound :
  forall slack l, bg_must_reject slack l = false ->
    exists q, all_some (map f32_to_Q l) = Some q /\
              Forall (fun x => (0 <= x)%Q /\ (x <= 1)%Q) q /\ (Qabs (Qsum q - 1) <= slack)%Q.
Proof. exact bg_must_reject_sound. Qed.

Theorem C09_freq_must_reject_sound :
  forall slack m, freq_must_reject slack m = false ->
    Forall (fun row => match all_some (map f32_to_Q row) with
                       | Some q => (Qabs (Qsum q - 1) <= (1 # 100) + slack)%Q
                       | None => existsb F32.is_nan row = false
                       end) m.
Proof. exact freq_must_reject_sound. Qed.

(* ---- acceptance ---- *)

(* Background::new as coded (any carrier, hence binary32): accepted iff every entry
   satisfies 0.0 <= f && f <= 1.0 and the left-to-right sum from 0.0 compares == 1.0;
   the accepted array is returned unchanged; it never panics *)
Theorem C09_background_new_accepts_iff :
  forall (T : Type) (O : NumOps T) (l : list T),
    bg_new O l = (if forallb (fun f => n_leb O (n_zero O) f && n_leb O f (n_one O)) l
                     && n_eqb O (fold_left (n_add O) l (n_zero O)) (n_one O)
                  then Ok l else Err 1).
Proof. intros T O l. exact (bg_new_spec O l). Qed.

(* ... and in exact arithmetic: entries in [0,1] summing to one *)
Theorem C09_background_new_accepts_iff_exact :
  forall l : list Qc,
    (exists l', bg_new Qcops l = Ok l') <->
    (Forall (fun f => (Q2Qc 0 <= f)%Qc /\ (f <= Q2Qc 1)%Qc) l /\ Qcsum l = Q2Qc 1).
Proof. exact bg_new_Qc. Qed.

(* FrequencyMatrix::new as coded: every row r has |sum(r) - 1.0| < 0.01 *)
Theorem C09_frequency_new_accepts_iff :
  forall (T : Type) (O : NumOps T) (m : list (list T)),
    freq_new O m = (if forallb (fun row => n_ltb O (n_abs O (n_sub O (fsum O row) (n_one O))) (n_tol O)) m
                    then Ok m else Err 1).
Proof. intros T O m. reflexivity. Qed.

Theorem C09_frequency_new_accepts_iff_exact :
  forall m : list (list Qc),
    (exists m', freq_new Qcops m = Ok m') <->
    Forall (fun row => (Qcabs (Qcsum row - Q2Qc 1) < Q2Qc (1 # 100))%Qc) m.
Proof. exact freq_new_Qc. Qed.

(* Background::from_counts / from_sequence(s) *)
Theorem C09_background_from_counts_spec :
  forall (T : Type) (O : NumOps T) (K : nat) (counts : list N) (seqs : list (list nat)) (unknown : bool),
    let total := fold_left N.add counts 0%N in
    bg_from_counts O counts
    = (if (total =? 0)%N then Err 1
       else Ok (map (fun c => n_div O (n_of_N O c) (n_of_N O total)) counts)) /\
    bg_from_sequences O K seqs unknown = bg_from_counts O (bg_base_counts K seqs unknown).
Proof. intros. split; reflexivity. Qed.

(* from_counts in exact arithmetic: rejected iff the total is 0; otherwise entry k is
   counts k / total, every entry is in [0,1], the entries sum to exactly one, and
   Background::new accepts the result (a background built from counts is valid) *)
Theorem C09_background_from_counts_valid :
  forall counts : list N,
    let total := fold_left N.add counts 0%N in
    if (total =? 0)%N then bg_from_counts Qcops counts = Err 1
    else exists l, bg_from_counts Qcops counts = Ok l /\
                   l = map (fun c => (ofN c / ofN total)%Qc) counts /\
                   Forall (fun f => (Q2Qc 0 <= f)%Qc /\ (f <= Q2Qc 1)%Qc) l /\ Qcsum l = Q2Qc 1 /\
                   bg_new Qcops l = Ok l.
Proof. exact bg_from_counts_valid. Qed.

(* from_sequence(s), any carrier: the counts handed to from_counts are the numbers of
   occurrences of every symbol over all sequences, the wildcard only with [unknown] —
   the specification the extracted checker check_bg_counts compares with *)
Theorem C09_background_from_sequences_counts :
  forall (T : Type) (O : NumOps T) (K : nat) (seqs : list (list nat)) (unknown : bool),
    bg_from_sequences O K seqs unknown = bg_from_counts O (bg_counts_spec K seqs unknown) /\
    forall k, k < K ->
      nth k (bg_counts_spec K seqs unknown) 0%N
      = if unknown || negb (k =? K - 1)
        then N.of_nat (length (filter (fun x => x =? k) (concat seqs))) else 0%N.
Proof.
  intros T O K seqs unknown. split.
  - unfold bg_from_sequences. rewrite bg_base_counts_spec. reflexivity.
  - intros k Hk. unfold bg_counts_spec.
    rewrite (nth_indep _ 0%N ((fun k => if unknown || negb (k =? K - 1)
       then N.of_nat (length (filter (fun x => x =? k) (concat seqs))) else 0%N) 0))
      by (rewrite map_length, seq_length; exact Hk).
    rewrite (map_nth (fun k => if unknown || negb (k =? K - 1)
       then N.of_nat (length (filter (fun x => x =? k) (concat seqs))) else 0%N) (seq 0 K) 0 k).
    rewrite seq_nth by exact Hk. reflexivity.
Qed.

(* exact arithmetic: weight * background gives the frequency back (non-zero background) *)
Theorem C09_weight_times_background :
  forall x bg : Qc, bg <> Q2Qc 0 -> (weight_cell Qcops x bg * bg)%Qc = x.
Proof.
  intros x bg Hb. rewrite weight_cell_Qc.
  destruct (Qc_eq_bool bg (Q2Qc 0)) eqn:E; [apply Qc_eqb_true in E; contradiction|].
  unfold Qcdiv. rewrite <- Qcmult_assoc, (Qcmult_comm (/ bg)), Qcmult_inv_r by exact Hb. ring.
Qed.

(* ---- binary32 facts replayed in the kernel / non-vacuity ---- *)

(* the doc-test backgrounds of abc.rs, in the binary32 model *)
Example C09_example_background_new_f32 :
  bg_new F32ops (map F32.of_bits [1050253722; 1045220557; 1045220557; 1050253722; 0]%Z)   (* 0.3 0.2 0.2 0.3 0 *)
  = Ok (map F32.of_bits [1050253722; 1045220557; 1045220557; 1050253722; 0]%Z) /\
  bg_new F32ops (map F32.of_bits [1036831949; 1036831949; 1036831949; 1036831949; 0]%Z) = Err 1.  (* 0.1 x 4 *)
Proof. vm_compute. split; reflexivity. Qed.

Example C09_example_uniform_f32 :
  map F32.to_bits (bg_uniform F32ops 5) = [1048576000; 1048576000; 1048576000; 1048576000; 0]%Z /\
  F32.to_bits (n_tol F32ops) = F32.to_bits (F32.div (F32.of_Z 1) (F32.of_Z 100)).
Proof. vm_compute. split; reflexivity. Qed.

(* hypotheses of one_step_eq_two_step are satisfiable (and hold for binary32's 2.0 == 2.0) *)
Example C09_example_one_step_hyps :
  n_eqb F32ops (n_two F32ops) (n_two F32ops) = true /\
  (fun _ : xq => (None : xq)) (n_zero XQops) = n_ninf XQops.
Proof. split; reflexivity. Qed.

(* a matrix with a -oo cell, its min/max and a window *)
Example C09_example_window :
  let q (z : Z) : xq := Some (Q2Qc (inject_Z z)) in
  let m := [[q 1; q (-2); q 0; None; None]; [q 3; q 3; None; q (-1); None]]%Z in
  min_score XQops 5 m = Ok None /\ max_score XQops 5 m = Ok (q 4%Z) /\
  score_position XQops 5 32 m [0; 1; 3] 1 = Ok (q (-3)%Z).
Proof. vm_compute. repeat split; reflexivity. Qed.

Check C09_counts_spec :
  forall (K : nat) (seqs : list (list nat)),
    Forall (Forall (fun x => x < K)) seqs ->
    let L := match seqs with [] => 0 | s :: _ => length s end in
    if forallb (fun s => length s =? L) seqs
    then from_sequences K seqs = Ok (counts_spec_matrix K L seqs, N.of_nat (length seqs)) /\
         forall i k, i < L -> k < K ->
           nth k (nth i (counts_spec_matrix K L seqs) []) 0%N
           = N.of_nat (length (filter (fun s => match nth_error s i with Some x => x =? k | None => false end) seqs))
    else from_sequences K seqs = Err 1.
Check C09_one_step_eq_two_step :
  forall (T : Type) (O : NumOps T) (flog2 flog10 fln : T -> T) (bg : list T) (m : list (list T)),
    flog2 (n_zero O) = n_ninf O -> n_eqb O (n_two O) (n_two O) = true ->
    into_scoring O flog2 bg m = to_scoring O flog2 flog10 fln (to_weight O bg m).
Check C09_window_between_min_max_f32 :
  forall (K C : nat) (m : list (list F32.t)) (s : list nat) (pos : nat) (mn mx : F32.t),
    0 < C -> Forall (fun row => length row = K) m -> pos + length m <= length s ->
    Forall (fun x => x < K - 1) (firstn (length m) (skipn pos s)) ->
    min_score F32ops K m = Ok mn -> max_score F32ops K m = Ok mx ->
    exists w, score_position F32ops K C m s pos = Ok w /\
      (F32.is_nan mn = false -> F32.is_nan w = false -> F32.le mn w = true) /\
      (F32.is_nan w = false -> F32.is_nan mx = false -> F32.le w mx = true).
Check C09_rescale_model_passes_check :
  forall f o n : F32.t,
    is_finite f = true -> is_finite o = true -> is_finite n = true ->
    (0 < B2R o <= 1)%R -> (0 < B2R n <= 1)%R ->
    let x := F32.div f o in let q := F32.div o n in let w := F32.mul x q in
    is_finite x = true -> is_finite q = true -> is_finite w = true ->
    check_rescale_cell (1 # 100000) (1 # Pos.pow 2 60) f o n
      (rescale_cell F32ops (weight_cell F32ops f o) o n) = true.
