(* Property C09 — count -> frequency -> weight -> log-odds conversions obey their
   definitions.  Only the property theorems (closed by lemmas of PwmProofs.v /
   PwmExact.v), statement pins and non-vacuity examples.

   Carriers: theorems about the order of operations hold for ANY carrier [T] with
   operations [O : NumOps T] (hence for binary32 as it is); theorems about values are
   stated over exact rationals (Qcops; XQops = Qc + -oo for sums of scores).
   Logarithms are the abstract functions flog2 / flog10 / fln. *)
From Coq Require Import List ZArith NArith Bool Arith Lia QArith Qcanon Qcabs.
From LMBase Require Import Res ListX IEEE.
From LMPwm Require Import GenComplement PwmModel PwmCheck PwmProofs PwmExact.
Import ListNotations.
Local Open Scope nat_scope.

(* ---- counts ---- *)

(* from_sequences: with equal lengths L the result is the L x K matrix whose cell (i,k)
   is the number of sequences whose i-th symbol is k (and the sequence count);
   with unequal lengths it is Err(InvalidData); without sequences the empty matrix. *)
Theorem C09_counts_spec :
  forall (K : nat) (seqs : list (list nat)),
    Forall (Forall (fun x => x < K)) seqs ->
    let L := match seqs with [] => 0 | s :: _ => length s end in
    if forallb (fun s => length s =? L) seqs
    then from_sequences K seqs = Ok (counts_spec_matrix K L seqs, N.of_nat (length seqs)) /\
         forall i k, i < L -> k < K ->
           nth k (nth i (counts_spec_matrix K L seqs) []) 0%N
           = N.of_nat (length (filter (fun s => match nth_error s i with Some x => x =? k | None => false end) seqs))
    else from_sequences K seqs = Err 1.
Proof.
  intros K seqs Hw L. pose proof (from_sequences_spec K seqs Hw) as H. simpl in H. fold L in H.
  destruct (forallb (fun s => length s =? L) seqs); [|exact H].
  destruct H as [d [Hrun [Hwf Hc]]].
  rewrite <- (cwf_cells_eq K L d Hwf seqs Hc). split; [exact Hrun|].
  intros i k _ _. exact (Hc i k).
Qed.

Theorem C09_counts_empty : forall K, from_sequences K [] = Ok ([], 0%N).
Proof. reflexivity. Qed.

(* the extracted checker used on the implementation's observations is this property *)
Theorem C09_check_counts_sound :
  forall K seqs obs, check_counts K seqs obs = true ->
    let L := match seqs with [] => 0 | s :: _ => length s end in
    if all_len L seqs
    then obs = Ok (counts_spec_matrix K L seqs, N.of_nat (length seqs))
    else exists c, obs = Err c.
Proof. exact check_counts_sound. Qed.

Theorem C09_model_passes_check_counts :
  forall K seqs, Forall (Forall (fun x => x < K)) seqs -> check_counts K seqs (from_sequences K seqs) = true.
Proof. exact model_passes_check_counts. Qed.

(* ---- frequencies (exact arithmetic; a row whose count+pseudocount total is 0 is
        0/0 = NaN in the code and is excluded) ---- *)

Theorem C09_freq_rows_sum_to_one :
  forall (pseudo : list Qc) (row : list N),
    Qcsum (freq_num pseudo row) <> Q2Qc 0 ->
    Qcsum (to_freq_row Qcops pseudo row) = Q2Qc 1.
Proof. exact freq_row_sum. Qed.

Theorem C09_freq_cell :
  forall (pseudo : list Qc) (row : list N) (k : nat),
    k < length row -> k < length pseudo ->
    nth k (to_freq_row Qcops pseudo row) (Q2Qc 0)
    = ((Q2Qc (inject_Z (Z.of_N (nth k row 0%N))) + nth k pseudo (Q2Qc 0)) / Qcsum (freq_num pseudo row))%Qc.
Proof. exact freq_row_cell. Qed.

(* to_freq is row-wise, and the scalar pseudocount is [c] on every symbol but the wildcard *)
Theorem C09_to_freq_rowwise :
  forall (T : Type) (O : NumOps T) (pseudo : list T) (m : list (list N)) (K : nat) (c : T),
    to_freq O pseudo m = map (to_freq_row O pseudo) m /\
    length (pseudo_scalar O K c) = K /\
    forall k, k < K -> nth k (pseudo_scalar O K c) c = if k =? K - 1 then n_zero O else c.
Proof.
  intros T O pseudo m K c. split; [reflexivity|]. split.
  - unfold pseudo_scalar. rewrite map_length, seq_length. reflexivity.
  - intros k Hk. unfold pseudo_scalar, wildcard.
    rewrite (nth_indep _ c ((fun i => if i =? K - 1 then n_zero O else c) 0)) by (rewrite map_length, seq_length; exact Hk).
    rewrite (map_nth (fun i => if i =? K - 1 then n_zero O else c) (seq 0 K) 0 k).
    rewrite seq_nth by exact Hk. reflexivity.
Qed.

(* ---- weights ---- *)

(* any carrier: cell = 0.0 where the background compares equal to 0.0, frequency / background otherwise *)
Theorem C09_weight_cell :
  forall (T : Type) (O : NumOps T) (bg : list T) (m : list (list T)) (i k : nat) (d : T),
    i < length m -> k < length (nth i m []) -> k < length bg ->
    nth k (nth i (to_weight O bg m) []) d
    = if n_eqb O (nth k bg d) (n_zero O) then n_zero O else n_div O (nth k (nth i m []) d) (nth k bg d).
Proof. intros T O. exact (to_weight_cell O). Qed.

(* ---- scores ---- *)

(* the score is the logarithm of the weight in the requested base:
   log2 for base == 2.0, log10 for base == 10.0, ln x / ln base otherwise *)
Theorem C09_scoring_cell :
  forall (T : Type) (O : NumOps T) (flog2 flog10 fln : T -> T) (base : T) (m : list (list T)) (i k : nat) (d : T),
    i < length m -> k < length (nth i m []) ->
    nth k (nth i (to_scoring_with_base O flog2 flog10 fln base m) []) d
    = flog O flog2 flog10 fln base (nth k (nth i m []) d) /\
    flog O flog2 flog10 fln base (nth k (nth i m []) d)
    = (if n_eqb O base (n_two O) then flog2 (nth k (nth i m []) d)
       else if n_eqb O base (n_ten O) then flog10 (nth k (nth i m []) d)
       else n_div O (fln (nth k (nth i m []) d)) (fln base)).
Proof.
  intros T O f2 f10 fl base m i k d Hi Hk. split; [|reflexivity].
  exact (to_scoring_with_base_cell O f2 f10 fl base m i k d Hi Hk).
Qed.

(* one-step route: -inf where the background is 0, log2(frequency/background) otherwise *)
Theorem C09_into_scoring_cell :
  forall (T : Type) (O : NumOps T) (flog2 : T -> T) (bg : list T) (m : list (list T)) (i k : nat) (d : T),
    i < length m -> k < length (nth i m []) -> k < length bg ->
    nth k (nth i (into_scoring O flog2 bg m) []) d
    = if n_eqb O (nth k bg d) (n_zero O) then n_ninf O
      else flog2 (n_div O (nth k (nth i m []) d) (nth k bg d)).
Proof. intros T O f2. exact (into_scoring_cell_spec O f2). Qed.

(* the one-step and the two-step routes perform the same operations in the same order;
   where the background is 0 one writes -inf and the other log2(0.0) *)
Theorem C09_one_step_eq_two_step :
  forall (T : Type) (O : NumOps T) (flog2 flog10 fln : T -> T) (bg : list T) (m : list (list T)),
    flog2 (n_zero O) = n_ninf O -> n_eqb O (n_two O) (n_two O) = true ->
    into_scoring O flog2 bg m = to_scoring O flog2 flog10 fln (to_weight O bg m).
Proof. intros T O f2 f10 fl bg m. exact (one_step_two_step O f2 f10 fl bg m). Qed.

(* ---- rescale (exact arithmetic) ---- *)

Theorem C09_rescale_spec :
  forall (b1 b2 : list Qc) (f : list (list Qc)),
    Forall (fun row => length row = length b1) f -> length b2 = length b1 ->
    Forall (fun o => o <> Q2Qc 0) b1 ->
    rescale Qcops b1 (to_weight Qcops b1 f) b2 = (b2, to_weight Qcops b2 f).
Proof. exact rescale_Qc. Qed.

(* cell-wise, including columns whose old background is 0 (the information is lost there)
   and the repaired case: 0 where the new background is 0 *)
Theorem C09_rescale_cell :
  forall x o n : Qc,
    rescale_cell Qcops (weight_cell Qcops x o) o n
    = if Qc_eq_bool n (Q2Qc 0) then Q2Qc 0 else if Qc_eq_bool o (Q2Qc 0) then Q2Qc 0 else (x / n)%Qc.
Proof. exact rescale_cell_Qc. Qed.

(* ---- min_score <= window <= max_score ---- *)

(* ordered commutative monoid formulation: any carrier with a preorder that addition
   respects and that partial_cmp decides *)
Theorem C09_window_between_min_max_ordered :
  forall (T : Type) (O : NumOps T) (K : nat) (le : T -> T -> Prop),
    (forall a, le a a) -> (forall a b c, le a b -> le b c -> le a c) ->
    (forall a b c d, le a b -> le c d -> le (n_add O a c) (n_add O b d)) ->
    (forall a b, match n_cmp O a b with
                 | Some Lt => le a b | Some Eq => le a b /\ le b a | Some Gt => le b a | None => True end) ->
    le (n_szero O) (n_zero O) /\ le (n_zero O) (n_szero O) ->
    forall (C : nat) (m : list (list T)) (s : list nat) (pos : nat) (mn mx : T),
      0 < C -> Forall (fun row => length row = K) m -> pos + length m <= length s ->
      Forall (fun x => x < K - 1) (firstn (length m) (skipn pos s)) ->
      min_score O K m = Ok mn -> max_score O K m = Ok mx ->
      exists w, score_position O K C m s pos = Ok w /\ le mn w /\ le w mx.
Proof.
  intros T O K le H1 H2 H3 H4 H5 C m s pos mn mx.
  exact (window_between_min_max_gen O K le H1 H2 H3 H4 H5 C m s pos mn mx).
Qed.

(* exact arithmetic with -oo cells (zero-background columns): min_score and max_score never
   panic, and every window without wildcard scores between them *)
Theorem C09_window_between_min_max :
  forall (K C : nat) (m : list (list xq)) (s : list nat) (pos : nat) (mn mx : xq),
    0 < C -> Forall (fun row => length row = K) m -> pos + length m <= length s ->
    Forall (fun x => x < K - 1) (firstn (length m) (skipn pos s)) ->
    min_score XQops K m = Ok mn -> max_score XQops K m = Ok mx ->
    exists w, score_position XQops K C m s pos = Ok w /\ xq_le mn w /\ xq_le w mx.
Proof.
  intros K C m s pos mn mx.
  apply (window_between_min_max_gen XQops K xq_le xq_le_refl xq_le_trans xq_add_mono xq_cmp_le).
  split; apply xq_le_refl.
Qed.

Theorem C09_window_between_min_max_Qc :
  forall (K C : nat) (m : list (list Qc)) (s : list nat) (pos : nat) (mn mx : Qc),
    0 < C -> Forall (fun row => length row = K) m -> pos + length m <= length s ->
    Forall (fun x => x < K - 1) (firstn (length m) (skipn pos s)) ->
    min_score Qcops K m = Ok mn -> max_score Qcops K m = Ok mx ->
    exists w, score_position Qcops K C m s pos = Ok w /\ (mn <= w)%Qc /\ (w <= mx)%Qc.
Proof.
  intros K C m s pos mn mx.
  apply (window_between_min_max_gen Qcops K Qcle Qcle_refl Qcle_trans Qcplus_le_compat Qc_cmp_le).
  split; apply Qcle_refl.
Qed.

(* ---- acceptance ---- *)

(* Background::new as coded (any carrier, hence binary32): accepted iff every entry
   satisfies 0.0 <= f && f <= 1.0 and the left-to-right sum from 0.0 compares == 1.0;
   the accepted array is returned unchanged; it never panics *)
Theorem C09_background_new_accepts_iff :
  forall (T : Type) (O : NumOps T) (l : list T),
    bg_new O l = (if forallb (fun f => n_leb O (n_zero O) f && n_leb O f (n_one O)) l
                     && n_eqb O (fold_left (n_add O) l (n_zero O)) (n_one O)
                  then Ok l else Err 1).
Proof. intros T O l. exact (bg_new_spec O l). Qed.

(* ... and in exact arithmetic: entries in [0,1] summing to one *)
Theorem C09_background_new_accepts_iff_exact :
  forall l : list Qc,
    (exists l', bg_new Qcops l = Ok l') <->
    (Forall (fun f => (Q2Qc 0 <= f)%Qc /\ (f <= Q2Qc 1)%Qc) l /\ Qcsum l = Q2Qc 1).
Proof. exact bg_new_Qc. Qed.

(* FrequencyMatrix::new as coded: every row r has |sum(r) - 1.0| < 0.01 *)
Theorem C09_frequency_new_accepts_iff :
  forall (T : Type) (O : NumOps T) (m : list (list T)),
    freq_new O m = (if forallb (fun row => n_ltb O (n_abs O (n_sub O (fsum O row) (n_one O))) (n_tol O)) m
                    then Ok m else Err 1).
Proof. intros T O m. reflexivity. Qed.

Theorem C09_frequency_new_accepts_iff_exact :
  forall m : list (list Qc),
    (exists m', freq_new Qcops m = Ok m') <->
    Forall (fun row => (Qcabs (Qcsum row - Q2Qc 1) < Q2Qc (1 # 100))%Qc) m.
Proof. exact freq_new_Qc. Qed.

(* Background::from_counts / from_sequence(s) *)
Theorem C09_background_from_counts_spec :
  forall (T : Type) (O : NumOps T) (K : nat) (counts : list N) (seqs : list (list nat)) (unknown : bool),
    let total := fold_left N.add counts 0%N in
    bg_from_counts O counts
    = (if (total =? 0)%N then Err 1
       else Ok (map (fun c => n_div O (n_of_N O c) (n_of_N O total)) counts)) /\
    bg_from_sequences O K seqs unknown = bg_from_counts O (bg_base_counts K seqs unknown).
Proof. intros. split; reflexivity. Qed.

(* ---- binary32 facts replayed in the kernel / non-vacuity ---- *)

(* the doc-test backgrounds of abc.rs, in the binary32 model *)
Example C09_example_background_new_f32 :
  bg_new F32ops (map F32.of_bits [1050253722; 1045220557; 1045220557; 1050253722; 0]%Z)   (* 0.3 0.2 0.2 0.3 0 *)
  = Ok (map F32.of_bits [1050253722; 1045220557; 1045220557; 1050253722; 0]%Z) /\
  bg_new F32ops (map F32.of_bits [1036831949; 1036831949; 1036831949; 1036831949; 0]%Z) = Err 1.  (* 0.1 x 4 *)
Proof. vm_compute. split; reflexivity. Qed.

Example C09_example_uniform_f32 :
  map F32.to_bits (bg_uniform F32ops 5) = [1048576000; 1048576000; 1048576000; 1048576000; 0]%Z /\
  F32.to_bits (n_tol F32ops) = F32.to_bits (F32.div (F32.of_Z 1) (F32.of_Z 100)).
Proof. vm_compute. split; reflexivity. Qed.

(* hypotheses of one_step_eq_two_step are satisfiable (and hold for binary32's 2.0 == 2.0) *)
Example C09_example_one_step_hyps :
  n_eqb F32ops (n_two F32ops) (n_two F32ops) = true /\
  (fun _ : xq => (None : xq)) (n_zero XQops) = n_ninf XQops.
Proof. split; reflexivity. Qed.

(* a matrix with a -oo cell, its min/max and a window *)
Example C09_example_window :
  let q (z : Z) : xq := Some (Q2Qc (inject_Z z)) in
  let m := [[q 1; q (-2); q 0; None; None]; [q 3; q 3; None; q (-1); None]]%Z in
  min_score XQops 5 m = Ok None /\ max_score XQops 5 m = Ok (q 4%Z) /\
  score_position XQops 5 32 m [0; 1; 3] 1 = Ok (q (-3)%Z).
Proof. vm_compute. repeat split; reflexivity. Qed.

Check C09_counts_spec :
  forall (K : nat) (seqs : list (list nat)),
    Forall (Forall (fun x => x < K)) seqs ->
    let L := match seqs with [] => 0 | s :: _ => length s end in
    if forallb (fun s => length s =? L) seqs
    then from_sequences K seqs = Ok (counts_spec_matrix K L seqs, N.of_nat (length seqs)) /\
         forall i k, i < L -> k < K ->
           nth k (nth i (counts_spec_matrix K L seqs) []) 0%N
           = N.of_nat (length (filter (fun s => match nth_error s i with Some x => x =? k | None => false end) seqs))
    else from_sequences K seqs = Err 1.
Check C09_one_step_eq_two_step :
  forall (T : Type) (O : NumOps T) (flog2 flog10 fln : T -> T) (bg : list T) (m : list (list T)),
    flog2 (n_zero O) = n_ninf O -> n_eqb O (n_two O) (n_two O) = true ->
    into_scoring O flog2 bg m = to_scoring O flog2 flog10 fln (to_weight O bg m).
