(* Extraction of the executable pwm model (binary32 instance) and of the property
   checkers for the correspondence check.  ExtrOcamlBasic only: nat, N, Z, positive
   stay the extracted inductive types. *)
From Coq Require Import List ZArith NArith QArith Extraction ExtrOcamlBasic.
From LMBase Require Import Res ListX IEEE.
From LMPwm Require Import GenComplement PwmModel PwmCheck PwmCheck2 PwmLog PwmStat PwmStatCheck.

Definition xf_of_bits := F32.of_bits.
Definition xf_to_bits := F32.to_bits.
Definition f32_div := F32.div.
Definition f32_is_nan := F32.is_nan.
Definition f32_le := F32.le.
Definition f32_zero := F32.zero.
Definition f32_ninf := F32.ninf.
Definition f32_neg := F32.neg.

Definition rc_f32 := @rc F32.t F32.zero dna_K dna_symbols dna_comp.
Definition rc_N := @rc N 0%N dna_K dna_symbols dna_comp.
Definition rc_seq_dna := rc_seq dna_comp.

Extraction Language OCaml.
(* PwmLog.v instantiates coq-interval's functors (SpecificFloat StdZRadix2, FloatIntervalFull); module
   extraction also emits their specification-side fields over Coq's real numbers, which rest on this axiom of
   the Reals library.  The executable checkers never reach it (they compute on Z mantissas only); realised by
   a function that raises, so that reaching it would be a driver exception (DIFF), never a wrong verdict. *)
Extract Constant ClassicalDedekindReals.sig_forall_dec => "(fun _ -> failwith ""real-number computation reached"")".
Extraction "pwm_model.ml"
  F32ops xf_of_bits xf_to_bits f32_div f32_is_nan f32_le f32_zero f32_ninf
  from_sequences count_new counts_spec_matrix
  pseudo_scalar bg_uniform bg_new bg_from_counts bg_from_sequences
  to_freq freq_new to_weight into_scoring to_scoring_with_base to_scoring flog rescale
  min_score max_score score_position window_terms
  rc_f32 rc_N rc_seq_dna
  dna_K dna_symbols dna_str dna_default dna_comp protein_K protein_symbols protein_str protein_default
  f32_to_Q f32_same f32_close fm_same fm_close cm_same row_same
  check_counts check_freq check_weight check_rescale check_score_cell check_window window_clean
  bg_must_reject freq_must_reject check_bg_counts bg_counts_spec check_rc_f32 check_rc_N complement_involutive_b
  strand_symmetric check_mirror
  f32_neg f32_sqrt conv_N conv_id dot norm auto_correlation cross_correlation
  entropy consensus weight_information_content scoring_information_content weight_of_scoring
  check_freq2 freq_skips weight_skips rescale_skips score_cell_skipped check_score_cell2
  window_skipped mirror_skipped check_one_step_two_step
  log_pair_ok check_log_table check_log_mono base_iv check_score_cell_real base_gt_one kind_of_base
  ln_iv_f32 log_pair_ok_k_pre check_score_cell_real_pre
  bg_from_counts_ovf check_consensus check_corr_range check_corr_sym check_entropy_range check_entropy check_auto_periodic check_entropy_exact check_sic.
