(* Model of lightmotif/src/pwm/mod.rs (Count/Frequency/Weight/ScoringMatrix) and of
   the Background / Pseudocounts parts of lightmotif/src/abc.rs.  Executable
   definitions only (no proofs): this file must still build and extract when a proof
   of PwmProofs.v breaks.

   Numbers.  Every numeric function is written once, in a Section over a carrier [T]
   with operations [NumOps T] (DESIGN.md 2.2) and is instantiated
     - with binary32 ([F32ops], Flocq through LMBase.IEEE) for bit-exact replay, and
     - with exact rationals ([Qcops], canonical rationals Qc; [XQops] = Qc + -oo) for
       the theorems about values.
   Logarithms are Section variables [flog2 flog10 fln] (libm's log2f/log10f/logf as
   reached through f32::log2 / log10 / ln); [f32::log(self, base)] is
   [self.ln() / base.ln()] exactly as in std.

   Matrices are lists of rows, every row a list of K cells (K = 5 for Dna, 21 for
   Protein, the wildcard being column K-1); sequences are lists of symbol indices.
   Where the Rust code can panic the model returns [Panic site]:
     site 10  partial_cmp(..).unwrap() on a NaN cell in min_score/max_score
     site 11  min_by(..).unwrap() on an empty slice (K = 1; not reachable for Dna/Protein)
     site 12  StripedSequence::index with an empty sequence (division by zero rows)
     site 13  StripedSequence::index beyond rows*C (row index out of bounds) *)
From Coq Require Import List ZArith NArith Bool Arith.
From LMBase Require Import Res ListX.
Import ListNotations.

Record NumOps (T : Type) : Type := mkNumOps {
  n_zero : T;                      (* the literal 0.0 *)
  n_szero : T;                     (* start value of Iterator::sum::<f32>() : -0.0 on this toolchain *)
  n_one : T;                       (* 1.0 *)
  n_two : T;                       (* 2.0 *)
  n_ten : T;                       (* 10.0 *)
  n_tol : T;                       (* the literal 0.01 *)
  n_ninf : T;                      (* f32::NEG_INFINITY *)
  n_add : T -> T -> T;
  n_sub : T -> T -> T;
  n_mul : T -> T -> T;
  n_div : T -> T -> T;
  n_abs : T -> T;
  n_eqb : T -> T -> bool;          (* == *)
  n_ltb : T -> T -> bool;          (* <  *)
  n_leb : T -> T -> bool;          (* <= *)
  n_cmp : T -> T -> option comparison;   (* partial_cmp *)
  n_of_N : N -> T                  (* u32 as f32 / usize as f32 *)
}.

Arguments n_zero {T}. Arguments n_szero {T}. Arguments n_one {T}. Arguments n_two {T}.
Arguments n_ten {T}. Arguments n_tol {T}. Arguments n_ninf {T}. Arguments n_add {T}.
Arguments n_sub {T}. Arguments n_mul {T}. Arguments n_div {T}. Arguments n_abs {T}.
Arguments n_eqb {T}. Arguments n_ltb {T}. Arguments n_leb {T}. Arguments n_cmp {T}.
Arguments n_of_N {T}.

(* zip-with, truncating to the shorter list like Iterator::zip *)
Fixpoint map2 {A B C : Type} (f : A -> B -> C) (l1 : list A) (l2 : list B) : list C :=
  match l1, l2 with
  | a :: r1, b :: r2 => f a b :: map2 f r1 r2
  | _, _ => []
  end.

Fixpoint map3 {A B C D : Type} (f : A -> B -> C -> D) (l1 : list A) (l2 : list B) (l3 : list C) : list D :=
  match l1, l2, l3 with
  | a :: r1, b :: r2, c :: r3 => f a b c :: map3 f r1 r2 r3
  | _, _, _ => []
  end.

(* ---------- counting (no floating point) ---------- *)

Section Counts.
  Variable K : nat.

  Definition cmatrix := list (list N).

  (* d[i][x] += 1 *)
  Definition incr_cell (d : cmatrix) (i x : nat) : cmatrix :=
    upd i (upd x (nth x (nth i d []) 0%N + 1)%N (nth i d [])) d.

  (* for (i, x) in seq.into_iter().enumerate() { d[i][x.as_index()] += 1 } *)
  Fixpoint add_seq_from (d : cmatrix) (i : nat) (s : list nat) : cmatrix :=
    match s with
    | [] => d
    | x :: r => add_seq_from (incr_cell d i x) (S i) r
    end.

  Definition czero (rows : nat) : cmatrix := repeat (repeat 0%N K) rows.

  (* CountMatrix::from_sequences: the loop over the sequences; [data] is the
     Option<DenseMatrix>, [n] the number of sequences seen.  Err 1 = InvalidData. *)
  Fixpoint from_seqs_loop (data : option cmatrix) (n : N) (seqs : list (list nat)) : res (cmatrix * N) :=
    match seqs with
    | [] => Ok (match data with None => [] | Some d => d end, n)
    | s :: rest =>
        let d := match data with Some d => d | None => czero (length s) end in
        if length s =? length d
        then from_seqs_loop (Some (add_seq_from d 0 s)) (n + 1)%N rest
        else Err 1
    end.

  Definition from_sequences (seqs : list (list nat)) : res (cmatrix * N) :=
    from_seqs_loop None 0%N seqs.

  (* the specification: number of sequences whose i-th symbol is k *)
  Definition count_at (seqs : list (list nat)) (i k : nat) : N :=
    N.of_nat (length (filter (fun s => match nth_error s i with Some x => x =? k | None => false end) seqs)).

  Definition counts_spec_matrix (L : nat) (seqs : list (list nat)) : cmatrix :=
    map (fun i => map (fun k => count_at seqs i k) (seq 0 K)) (seq 0 L).

  (* CountMatrix::new: never fails; n = largest row sum (0 for the empty matrix) *)
  Definition row_total (r : list N) : N := fold_left N.add r 0%N.
  Definition count_new (m : cmatrix) : res (cmatrix * N) :=
    Ok (m, fold_left N.max (map row_total m) 0%N).

  (* SymbolCount::count_symbol on a plain sequence *)
  Definition count_symbol (s : list nat) (k : nat) : N :=
    N.of_nat (length (filter (fun x => x =? k) s)).
End Counts.

(* ---------- reverse complement (any cell type) ---------- *)

Section RevComp.
  Context {A : Type}.
  Variable dflt : A.                 (* Default::default() of the cell type *)
  Variable K : nat.
  Variable symbols : list nat.       (* as_index of A::symbols(), in order *)
  Variable comp : nat -> nat.        (* complement on indices *)

  (* for &s in A::symbols() { data[i][s.as_index()] = row[A::complement(s).as_index()] }
     on a fresh (default-filled) row *)
  Definition rc_row (row : list A) : list A :=
    fold_left (fun dst s => upd s (nth (comp s) row dflt) dst) symbols (repeat dflt K).

  (* for (i, row) in self.data.iter().rev().enumerate() *)
  Definition rc (m : list (list A)) : list (list A) := map rc_row (rev m).

  (* closed form used by the theorems and by the property checker *)
  Definition rc_row_spec (row : list A) : list A := map (fun k => nth (comp k) row dflt) (seq 0 K).
  Definition rc_spec (m : list (list A)) : list (list A) := map rc_row_spec (rev m).
End RevComp.

(* reverse complement of a sequence (built by the harness from A::complement) *)
Definition rc_seq (comp : nat -> nat) (s : list nat) : list nat := map comp (rev s).

(* ---------- numeric part ---------- *)

Section Pwm.
  Context {T : Type}.
  Variable O : NumOps T.
  Variable K : nat.
  Variables flog2 flog10 fln : T -> T.

  Definition fmatrix := list (list T).

  (* Iterator::sum::<f32>() : fold(-0.0, |a, b| a + b) *)
  Definition fsum (l : list T) : T := fold_left (n_add O) l (n_szero O).

  Definition wildcard : nat := K - 1.

  (* Pseudocounts::from(f32): [count] everywhere but 0.0 for the default symbol *)
  Definition pseudo_scalar (c : T) : list T :=
    map (fun i => if i =? wildcard then n_zero O else c) (seq 0 K).

  (* Background::uniform() *)
  Definition bg_uniform : list T :=
    map (fun i => if i =? wildcard then n_zero O
                  else n_div O (n_one O) (n_of_N O (N.of_nat (K - 1)))) (seq 0 K).

  (* Background::new : Err 1 = InvalidData *)
  Fixpoint bg_new_loop (sum : T) (l : list T) : res T :=
    match l with
    | [] => Ok sum
    | f :: r => if n_leb O (n_zero O) f && n_leb O f (n_one O)
                then bg_new_loop (n_add O sum f) r else Err 1
    end.
  Definition bg_new (l : list T) : res (list T) :=
    sum <- bg_new_loop (n_zero O) l ;;
    if n_eqb O sum (n_one O) then Ok l else Err 1.

  (* Background::from_counts (usize counts; total = 0 is rejected) *)
  Definition bg_from_counts (counts : list N) : res (list T) :=
    let total := fold_left N.add counts 0%N in
    if (total =? 0)%N then Err 1
    else Ok (map (fun c => n_div O (n_of_N O c) (n_of_N O total)) counts).

  (* Background::from_sequences (from_sequence = the one-sequence case) *)
  Definition bg_base_counts (seqs : list (list nat)) (unknown : bool) : list N :=
    fold_left (fun acc s =>
                 map2 (fun a k => if unknown || negb (k =? wildcard) then (a + count_symbol s k)%N else a)
                      acc (seq 0 K))
              seqs (repeat 0%N K).
  Definition bg_from_sequences (seqs : list (list nat)) (unknown : bool) : res (list T) :=
    bg_from_counts (bg_base_counts seqs unknown).

  (* CountMatrix::to_freq, one row *)
  Definition to_freq_row (pseudo : list T) (row : list N) : list T :=
    let dst := map2 (fun x p => n_add O (n_of_N O x) p) row pseudo in
    let s := fsum dst in
    map (fun x => n_div O x s) dst.
  Definition to_freq (pseudo : list T) (m : list (list N)) : fmatrix := map (to_freq_row pseudo) m.

  (* FrequencyMatrix::new : all rows |sum - 1| < 0.01 *)
  Definition freq_row_ok (row : list T) : bool :=
    n_ltb O (n_abs O (n_sub O (fsum row) (n_one O))) (n_tol O).
  Definition freq_new (m : fmatrix) : res fmatrix :=
    if forallb freq_row_ok m then Ok m else Err 1.

  (* FrequencyMatrix::to_weight *)
  Definition weight_cell (x f : T) : T := if n_eqb O f (n_zero O) then n_zero O else n_div O x f.
  Definition to_weight (bg : list T) (m : fmatrix) : fmatrix := map (fun row => map2 weight_cell row bg) m.

  (* FrequencyMatrix::into_scoring (to_scoring = clone + into_scoring) *)
  Definition into_scoring_cell (x f : T) : T :=
    if n_eqb O f (n_zero O) then n_ninf O else flog2 (n_div O x f).
  Definition into_scoring (bg : list T) (m : fmatrix) : fmatrix :=
    map (fun row => map2 into_scoring_cell row bg) m.

  (* WeightMatrix::to_scoring_with_base: match base { 2.0 => log2, 10.0 => log10, _ => log(base) } *)
  Definition flog (base x : T) : T :=
    if n_eqb O base (n_two O) then flog2 x
    else if n_eqb O base (n_ten O) then flog10 x
    else n_div O (fln x) (fln base).
  Definition to_scoring_with_base (base : T) (m : fmatrix) : fmatrix := map (map (flog base)) m.
  Definition to_scoring (m : fmatrix) : fmatrix := to_scoring_with_base (n_two O) m.

  (* slice != slice *)
  Fixpoint list_neqb (a b : list T) : bool :=
    match a, b with
    | [], [] => false
    | x :: a', y :: b' => negb (n_eqb O x y) || list_neqb a' b'
    | _, _ => true
    end.

  (* WeightMatrix::rescale (repaired): returns (background of the result, data) *)
  Definition rescale_cell (x o n : T) : T :=
    if n_eqb O n (n_zero O) then n_zero O else n_mul O x (n_div O o n).
  Definition rescale (old_bg : list T) (m : fmatrix) (new_bg : list T) : list T * fmatrix :=
    if list_neqb new_bg old_bg
    then (new_bg, map (fun row => map3 rescale_cell row old_bg new_bg) m)
    else (old_bg, m).

  (* min_by(|a, b| a.partial_cmp(b).unwrap()): first minimum; max_by: last maximum *)
  Fixpoint min_by_from (best : T) (l : list T) : res T :=
    match l with
    | [] => Ok best
    | y :: r => match n_cmp O best y with
                | None => Panic 10
                | Some Gt => min_by_from y r
                | Some _ => min_by_from best r
                end
    end.
  Fixpoint max_by_from (best : T) (l : list T) : res T :=
    match l with
    | [] => Ok best
    | y :: r => match n_cmp O best y with
                | None => Panic 10
                | Some Gt => max_by_from best r
                | Some _ => max_by_from y r
                end
    end.
  Definition row_min (row : list T) : res T :=
    match firstn (K - 1) row with [] => Panic 11 | x :: r => min_by_from x r end.
  Definition row_max (row : list T) : res T :=
    match firstn (K - 1) row with [] => Panic 11 | x :: r => max_by_from x r end.

  Fixpoint map_res {A B : Type} (f : A -> res B) (l : list A) : res (list B) :=
    match l with
    | [] => Ok []
    | a :: r => b <- f a ;; bs <- map_res f r ;; Ok (b :: bs)
    end.

  Definition min_score (m : fmatrix) : res T := mins <- map_res row_min m ;; Ok (fsum mins).
  Definition max_score (m : fmatrix) : res T := maxs <- map_res row_max m ;; Ok (fsum maxs).

  (* StripedSequence::index on a sequence striped by the generic pipeline with C
     columns and no wrap rows: cells past the end hold the wildcard *)
  Definition striped_at (C : nat) (s : list nat) (i : nat) : res nat :=
    let L := length s in
    let rows := (L + (C - 1)) / C in
    if rows =? 0 then Panic 12
    else if i <? L then Ok (nth i s wildcard)
    else if i / rows <? C then Ok wildcard
    else Panic 13.

  (* ScoringMatrix::score_position: score = 0.0; for (j,row): score += row[s[pos+j]] *)
  Fixpoint score_from (C : nat) (acc : T) (rows : fmatrix) (s : list nat) (p : nat) : res T :=
    match rows with
    | [] => Ok acc
    | row :: rest =>
        x <- striped_at C s p ;;
        score_from C (n_add O acc (nth x row (n_zero O))) rest s (S p)
    end.
  Definition score_position (C : nat) (m : fmatrix) (s : list nat) (pos : nat) : res T :=
    score_from C (n_zero O) m s pos.

  (* the cells summed for a window that lies inside the sequence *)
  Definition window_terms (m : fmatrix) (s : list nat) (pos : nat) : list T :=
    map2 (fun row x => nth x row (n_zero O)) m (skipn pos s).
End Pwm.

(* ---------- the binary32 instance (bit-exact replay) ---------- *)

From LMBase Require Import IEEE.

Definition F32ops : NumOps F32.t := {|
  n_zero := F32.zero;
  n_szero := F32.nzero;                       (* observed: [].iter().sum::<f32>() is -0.0 (rustc 1.95) *)
  n_one := F32.of_Z 1;
  n_two := F32.of_Z 2;
  n_ten := F32.of_Z 10;
  n_tol := F32.of_bits 1008981770;            (* 0.01f32 = 0x3C23D70A *)
  n_ninf := F32.ninf;
  n_add := F32.add; n_sub := F32.sub; n_mul := F32.mul; n_div := F32.div; n_abs := F32.abs;
  n_eqb := F32.eq; n_ltb := F32.lt; n_leb := F32.le; n_cmp := F32.cmp;
  n_of_N := fun n => F32.of_Z (Z.of_N n)
|}.
