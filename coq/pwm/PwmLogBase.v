(* The score for a general base, s = RN(lw / lb) with lw, lb validated natural logarithms
   (is_log_of 0: within 2^-20 relative of ln w, ln base), is within 2^-18 relative (plus the
   underflow quantum eta32 = 2^-150) of the real logarithm of w in that base. *)
From Coq Require Import List ZArith NArith Bool Arith Lia QArith Qabs Reals Lra Psatz Qreals.
From Interval Require Import Specific_stdz Specific_ops Float_full Interval Xreal Basic Sig.
From LMBase Require Import Res ListX IEEE.
From Flocq Require Import Core BinarySingleNaN.
From LMPwm Require Import GenComplement PwmModel PwmCheck PwmCheck2 PwmProofs PwmF32 PwmCheckSound PwmF32Rescale PwmLog PwmLogProofs.
Import ListNotations.
Local Open Scope R_scope.

(* ---------- real arithmetic ---------- *)

(* (a) the quotient of two approximations, each within 2^-20 relative *)
Lemma quot_rel_err (a b A B : R) :
  B <> 0 ->
  Rabs (a - A) <= / 1048576 * Rabs A ->
  Rabs (b - B) <= / 1048576 * Rabs B ->
  b <> 0 /\ Rabs (a / b - A / B) <= 2 / 1048575 * Rabs (A / B).
Proof.
  intros HB Ha Hb.
  assert (HBp : 0 < Rabs B) by (apply Rabs_pos_lt; exact HB).
  assert (Hbb : (1 - / 1048576) * Rabs B <= Rabs b).
  { pose proof (Rabs_triang b (B - b)) as T.
    replace (b + (B - b)) with B in T by ring.
    rewrite (Rabs_minus_sym B b) in T. lra. }
  assert (Hbp : 0 < Rabs b) by lra.
  assert (Hbne : b <> 0).
  { intros E. rewrite E, Rabs_R0 in Hbp. lra. }
  split; [exact Hbne|].
  replace (a / b - A / B) with (((a - A) + - (A / B * (b - B))) * / b) by (field; split; assumption).
  rewrite Rabs_mult, Rabs_inv by assumption.
  assert (EQ : Rabs A = Rabs (A / B) * Rabs B).
  { rewrite <- Rabs_mult. f_equal. field. exact HB. }
  set (Q := Rabs (A / B)) in *.
  assert (HQ : 0 <= Q) by apply Rabs_pos.
  set (N := Rabs (a - A + - (A / B * (b - B)))).
  assert (HN : N <= 2 * / 1048576 * (Q * Rabs B)).
  { unfold N. eapply Rle_trans; [apply Rabs_triang|].
    rewrite Rabs_Ropp, Rabs_mult. fold Q.
    pose proof (Rmult_le_compat_l Q _ _ HQ Hb) as T.
    rewrite EQ in Ha. lra. }
  clearbody N Q. clear EQ Ha Hb.
  set (bb := Rabs b) in *. set (BB := Rabs B) in *. clearbody bb BB.
  apply Rmult_le_reg_r with bb; [exact Hbp|].
  replace (N * / bb * bb) with N by (field; lra).
  assert (P : 0 <= Q * (bb - (1 - / 1048576) * BB)) by (apply Rmult_le_pos; lra).
  lra.
Qed.

(* (c) rounding error of the quotient on top of the error of its operands *)
Lemma combine_err (s t q eta : R) :
  Rabs (s - t) <= / 16777216 * Rabs t + eta ->
  Rabs (t - q) <= 2 / 1048575 * Rabs q ->
  Rabs (s - q) <= / 262144 * Rabs q + eta.
Proof.
  intros H1 H2.
  pose proof (Rabs_pos q) as Hq.
  assert (T1 : Rabs (s - q) <= Rabs (s - t) + Rabs (t - q)).
  { replace (s - q) with ((s - t) + (t - q)) by ring. apply Rabs_triang. }
  assert (T2 : Rabs t <= Rabs q + Rabs (t - q)).
  { replace t with (q + (t - q)) at 1 by ring. apply Rabs_triang. }
  lra.
Qed.

Lemma ln_neq_0 (x : R) : 0 < x -> x <> 1 -> ln x <> 0.
Proof.
  intros Hx Hne E. apply Hne. apply ln_inv; [exact Hx|lra|]. rewrite ln_1. exact E.
Qed.

(* ---------- binary32 division, standard model, any nonzero divisor ---------- *)

Lemma div_finite_R_ne (a b : F32.t) :
  B2R b <> 0 -> fin (F32.div a b) = true ->
  B2R (F32.div a b) = rnd32 (B2R a / B2R b).
Proof.
  intros Hne Hfin.
  pose proof (Bdiv_correct 24 128 _ _ mode_NE a b Hne) as H.
  change (Bdiv mode_NE a b) with (F32.div a b) in H.
  destruct (Rlt_bool (Rabs (rnd32 (B2R a / B2R b))) (bpow radix2 128)).
  - destruct H as [HR _]. exact HR.
  - apply B2SF_inf_not_finite in H. rewrite H in Hfin. discriminate.
Qed.

(* (b) *)
Lemma div_f32_std_model (a b : F32.t) :
  B2R b <> 0 -> fin (F32.div a b) = true ->
  Rabs (B2R (F32.div a b) - B2R a / B2R b) <= u32 * Rabs (B2R a / B2R b) + eta32.
Proof.
  intros Hne Hfin. rewrite (div_finite_R_ne a b Hne Hfin).
  set (t := B2R a / B2R b).
  destruct (rnd32_err t) as (d & e & Hd & He & Hr). rewrite Hr.
  replace (t * (1 + d) + e - t) with (t * d + e) by ring.
  eapply Rle_trans; [apply Rabs_triang|]. rewrite Rabs_mult.
  pose proof (Rmult_le_compat_l (Rabs t) _ _ (Rabs_pos t) Hd). lra.
Qed.

(* ---------- the theorem ---------- *)

(* any finite base > 0 other than 1 *)
Theorem general_base_score_error_any (w base lw lb : F32.t) :
  is_log_of 0 w lw -> is_log_of 0 base lb ->
  is_finite w = true -> 0 < B2R w -> is_finite base = true -> 0 < B2R base -> B2R base <> 1 ->
  let s := F32.div lw lb in
  is_finite s = true ->
  Rabs (B2R s - ln (B2R w) / ln (B2R base)) <= / 262144 * Rabs (ln (B2R w) / ln (B2R base)) + eta32.
Proof.
  intros Hw Hb Fw Pw Fb Pb Nb s Fs.
  destruct (is_log_ofR_pos _ true w lw Hw Fw Pw) as [_ Ew].
  destruct (is_log_ofR_pos _ true base lb Hb Fb Pb) as [_ Eb].
  unfold lnb in Ew, Eb. cbn [Nat.eqb] in Ew, Eb.
  pose proof (ln_neq_0 _ Pb Nb) as HB.
  set (A := ln (B2R w)) in *. set (B := ln (B2R base)) in *. clearbody A B.
  replace (A / 1) with A in Ew by field.
  replace (B / 1) with B in Eb by field.
  destruct (quot_rel_err _ _ _ _ HB Ew Eb) as [Hne Hq].
  pose proof (div_f32_std_model lw lb Hne Fs) as Hs. fold s in Hs.
  rewrite u32_val in Hs.
  exact (combine_err _ _ _ _ Hs Hq).
Qed.

(* base > 1 *)
Theorem general_base_score_error (w base lw lb : F32.t) :
  is_log_of 0 w lw -> is_log_of 0 base lb ->
  is_finite w = true -> (0 < B2R w)%R -> is_finite base = true -> (1 < B2R base)%R ->
  let s := F32.div lw lb in
  is_finite s = true ->
  (Rabs (B2R s - ln (B2R w) / ln (B2R base)) <= / 262144 * Rabs (ln (B2R w) / ln (B2R base)) + eta32)%R.
Proof.
  intros Hw Hb Fw Pw Fb Pb.
  apply general_base_score_error_any; try assumption; lra.
Qed.

(* base in (0, 1) *)
Theorem general_base_score_error_lt1 (w base lw lb : F32.t) :
  is_log_of 0 w lw -> is_log_of 0 base lb ->
  is_finite w = true -> (0 < B2R w)%R -> is_finite base = true -> (0 < B2R base < 1)%R ->
  let s := F32.div lw lb in
  is_finite s = true ->
  (Rabs (B2R s - ln (B2R w) / ln (B2R base)) <= / 262144 * Rabs (ln (B2R w) / ln (B2R base)) + eta32)%R.
Proof.
  intros Hw Hb Fw Pw Fb Pb.
  apply general_base_score_error_any; try assumption; lra.
Qed.

Print Assumptions general_base_score_error.
Print Assumptions general_base_score_error_lt1.
