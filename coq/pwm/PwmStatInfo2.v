(* Zero cells contribute nothing to CountMatrix::row_entropy (real-number instance):
     row_entropy_nonzeros               row_entropy row = row_entropy (nonzeros row)
     row_entropy_two_equal_anywhere     two equal non-zero cells anywhere in the row: exactly 1 bit
     row_entropy_one_nonzero_anywhere   a single non-zero cell anywhere in the row: 0 bits *)
From Coq Require Import List ZArith NArith Bool Arith Reals Lra Lia.
From LMBase Require Import Res ListX.
From LMPwm Require Import PwmModel PwmCheck PwmStat PwmStatCheck PwmReal PwmStatInfo.
Import ListNotations.
Local Open Scope R_scope.

Local Notation NR n := (IZR (Z.of_N n)).


Lemma nonzeros_cons x row :
  nonzeros (x :: row) = if (x =? 0)%N then nonzeros row else x :: nonzeros row.
Proof. unfold nonzeros. cbn [filter]. destruct (x =? 0)%N; reflexivity. Qed.

Lemma In_nonzeros x row : In x (nonzeros row) -> In x row /\ x <> 0%N.
Proof.
  unfold nonzeros. intros Hin. apply filter_In in Hin. destruct Hin as [Hin Hnz].
  split; [exact Hin|]. intros ->. cbn in Hnz. discriminate.
Qed.

Lemma Ntot_nonzeros row : Ntot (nonzeros row) = Ntot row.
Proof.
  induction row as [|x row IH]; [reflexivity|].
  rewrite nonzeros_cons, Ntot_cons. destruct (N.eqb_spec x 0) as [->|Hne].
  - rewrite IH. lia.
  - rewrite Ntot_cons, IH. reflexivity.
Qed.

Lemma entropy_sum_nonzeros (tot : R) row :
  Rsum (map (fun n => plnp (NR n / tot)) (nonzeros row))
  = Rsum (map (fun n => plnp (NR n / tot)) row).
Proof.
  induction row as [|x row IH]; [reflexivity|].
  rewrite nonzeros_cons. cbn [map]. rewrite Rsum_cons.
  destruct (N.eqb_spec x 0) as [->|Hne].
  - rewrite IH. replace (NR 0 / tot) with 0 by (cbn [Z.of_N]; unfold Rdiv; ring).
    rewrite plnp_0. ring.
  - cbn [map]. rewrite Rsum_cons, IH. reflexivity.
Qed.

(* zero cells contribute nothing *)
Theorem row_entropy_nonzeros (wrap : bool) (row : list N) :
  (fold_left N.add row 0 < 4294967296)%N ->
  row_entropy Rops Ropp Rlog2 wrap row = row_entropy Rops Ropp Rlog2 wrap (nonzeros row).
Proof.
  intros Hlt. fold (Ntot row) in Hlt.
  rewrite (row_entropy_R wrap row) by exact Hlt.
  rewrite (row_entropy_R wrap (nonzeros row)) by (rewrite Ntot_nonzeros; exact Hlt).
  rewrite Ntot_nonzeros, entropy_sum_nonzeros. reflexivity.
Qed.

Theorem row_entropy_two_equal_anywhere (wrap : bool) (row : list N) (c : N) :
  nonzeros row = [c; c] -> (2 * c < 4294967296)%N ->
  row_entropy Rops Ropp Rlog2 wrap row = Ok 1%R.
Proof.
  intros Hnz Hc1.
  assert (Hc0 : c <> 0%N).
  { apply (In_nonzeros c row). rewrite Hnz. left. reflexivity. }
  assert (Htot : Ntot row = (2 * c)%N).
  { rewrite <- Ntot_nonzeros, Hnz, !Ntot_cons, Ntot_nil. lia. }
  rewrite row_entropy_nonzeros by (fold (Ntot row); rewrite Htot; exact Hc1).
  rewrite Hnz. apply (row_entropy_uniform2 wrap c 0%nat); [lia|exact Hc1].
Qed.

Theorem row_entropy_one_nonzero_anywhere (wrap : bool) (row : list N) (s : N) :
  nonzeros row = [s] -> (s < 4294967296)%N ->
  row_entropy Rops Ropp Rlog2 wrap row = Ok 0%R.
Proof.
  intros Hnz Hs1.
  assert (Hs0 : s <> 0%N).
  { apply (In_nonzeros s row). rewrite Hnz. left. reflexivity. }
  assert (Htot : Ntot row = s).
  { rewrite <- Ntot_nonzeros, Hnz, Ntot_cons, Ntot_nil. lia. }
  rewrite row_entropy_nonzeros by (fold (Ntot row); rewrite Htot; exact Hs1).
  rewrite Hnz. apply (row_entropy_single_symbol wrap s 0%nat 0%nat); [lia|exact Hs1].
Qed.

