(* Property C10 — reverse-complementing a motif mirrors its scores on the opposite
   strand.  Only the property theorems (closed by lemmas of PwmProofs.v), statement
   pins and non-vacuity examples.

   The complement table, the order of Dna::symbols() and K are re-extracted from
   abc.rs on every run (GenComplement.v); the four reverse_complement functions of
   pwm/mod.rs are the same loop over different cell types and are modelled by the
   single polymorphic [rc] (cell types: N for counts, the numeric carrier otherwise). *)
From Coq Require Import List ZArith NArith Bool Arith Lia QArith Qcanon.
From LMBase Require Import Res ListX.
From Coq Require Import Qabs Permutation.
From LMBase Require Import IEEE.
From Coq Require Import Reals.
From Flocq Require Import Core BinarySingleNaN.
From LMPwm Require Import GenComplement PwmModel PwmCheck PwmProofs PwmExact PwmF32 PwmCheckSound PwmF32Rescale PwmF32Mirror PwmF32Freq PwmF32Commute.
From LMPwm Require Import PwmCheck2 PwmCheck2Sound.
Import ListNotations.
Local Open Scope nat_scope.

(* the Dna model of X::reverse_complement, X in Count/Frequency/Weight/ScoringMatrix *)
Definition dna_rc {A} (dflt : A) := rc dflt dna_K dna_symbols dna_comp.
Definition dna_rc_spec {A} (dflt : A) := rc_spec dflt dna_K dna_comp.
Definition dna_rows {A} (m : list (list A)) := Forall (fun row => length row = dna_K) m.

(* ---- the complement table (finite sweep over the translated table) ---- *)

Theorem C10_complement_involutive :
  forall k, k < dna_K -> dna_comp (dna_comp k) = k /\ dna_comp k < dna_K.
Proof. intros k Hk. split; [exact (dna_comp_inv k Hk) | exact (dna_comp_lt k Hk)]. Qed.

(* A<->T, C<->G, N<->N on the letters of Dna::as_str(), symbols() being in as_index order *)
Theorem C10_complement_table :
  dna_str = [65; 67; 84; 71; 78] (* "ACTGN" *) /\
  dna_symbols = seq 0 dna_K /\
  map (fun k => nth (dna_comp k) dna_str 0) (seq 0 dna_K) = [84; 71; 65; 67; 78] (* "TGACN" *) /\
  dna_comp dna_default = dna_default.
Proof. repeat split. Qed.

(* ---- the loop of the code computes: cell (i,k) of rc m = cell (M-1-i, complement k) of m ---- *)

Theorem C10_revcomp_is_reversal_and_complement :
  forall (A : Type) (dflt : A) (m : list (list A)),
    dna_rc dflt m = dna_rc_spec dflt m /\
    length (dna_rc dflt m) = length m /\
    forall i k d, i < length m -> k < dna_K ->
      nth k (nth i (dna_rc dflt m) []) d = nth (dna_comp k) (nth (length m - S i) m []) dflt.
Proof.
  intros A dflt m. unfold dna_rc, dna_rc_spec. rewrite dna_symbols_seq.
  rewrite (rc_eq_spec dflt dna_K dna_comp m). repeat split.
  - apply rc_spec_length.
  - intros i k d Hi Hk. exact (rc_spec_cell dflt dna_K dna_comp m i k d Hi Hk).
Qed.

(* ---- twice = identity, for every cell type (counts, frequencies, weights, scores) ---- *)

Theorem C10_revcomp_involutive :
  forall (A : Type) (dflt : A) (m : list (list A)),
    dna_rows m -> dna_rc dflt (dna_rc dflt m) = m.
Proof.
  intros A dflt m Hm. unfold dna_rc. rewrite dna_symbols_seq.
  rewrite !(rc_eq_spec dflt dna_K dna_comp).
  exact (rc_spec_involutive dflt dna_K dna_comp dna_comp_lt dna_comp_inv m Hm).
Qed.

(* ---- commutation with the conversions ---- *)

(* weight -> score (any carrier, any logarithm, any base, any background) *)
Theorem C10_revcomp_commutes_to_scoring :
  forall (T : Type) (O : NumOps T) (flog2 flog10 fln : T -> T) (base : T) (w : list (list T)),
    dna_rows w ->
    dna_rc (n_zero O) (to_scoring_with_base O flog2 flog10 fln base w)
    = to_scoring_with_base O flog2 flog10 fln base (dna_rc (n_zero O) w).
Proof.
  intros T O f2 f10 fl base w Hw. unfold dna_rc. rewrite dna_symbols_seq.
  rewrite !(rc_eq_spec (n_zero O) dna_K dna_comp).
  exact (rc_to_scoring_with_base O dna_K dna_comp dna_comp_lt f2 f10 fl base w Hw).
Qed.

(* frequency -> weight and frequency -> score under a strand-symmetric background
   (any carrier: the operations are cell-wise, so this holds bit for bit in binary32) *)
Theorem C10_revcomp_commutes_to_weight :
  forall (T : Type) (O : NumOps T) (flog2 : T -> T) (bg : list T) (f : list (list T)),
    dna_rows f -> length bg = dna_K -> rc_row_spec (n_zero O) dna_K dna_comp bg = bg ->
    dna_rc (n_zero O) (to_weight O bg f) = to_weight O bg (dna_rc (n_zero O) f) /\
    dna_rc (n_zero O) (into_scoring O flog2 bg f) = into_scoring O flog2 bg (dna_rc (n_zero O) f).
Proof.
  intros T O f2 bg f Hf Hb Hsym. unfold dna_rc. rewrite dna_symbols_seq.
  rewrite !(rc_eq_spec (n_zero O) dna_K dna_comp). split.
  - exact (rc_to_weight O dna_K dna_comp dna_comp_lt bg f Hf Hb Hsym).
  - exact (rc_into_scoring O dna_K dna_comp dna_comp_lt f2 bg f Hf Hb Hsym).
Qed.

(* count -> frequency: needs an order-insensitive (commutative, associative) addition,
   i.e. exact arithmetic; in binary32 the row total is summed in a different column
   order and the two sides agree only up to rounding (checked by the driver with a
   tolerance, and bit-exactly against the binary32 model). *)
Theorem C10_revcomp_commutes_to_freq :
  forall (T : Type) (O : NumOps T),
    (forall a b, n_add O a b = n_add O b a) ->
    (forall a b c, n_add O (n_add O a b) c = n_add O a (n_add O b c)) ->
    forall (pseudo : list T) (c : list (list N)),
      length pseudo = dna_K -> dna_rows c ->
      dna_rc (n_zero O) (to_freq O pseudo c)
      = to_freq O (rc_row_spec (n_zero O) dna_K dna_comp pseudo) (dna_rc 0%N c).
Proof.
  intros T O Hc Ha pseudo c Hp Hcm. unfold dna_rc. rewrite dna_symbols_seq.
  rewrite (rc_eq_spec (n_zero O) dna_K dna_comp), (rc_eq_spec 0%N dna_K dna_comp).
  exact (rc_to_freq O dna_K dna_comp dna_comp_lt dna_comp_inv Hc Ha pseudo c Hp Hcm).
Qed.

(* the whole chain count -> frequency -> score in exact arithmetic (Qc), strand-symmetric
   pseudocounts and background, abstract logarithm *)
Theorem C10_revcomp_commutes :
  forall (flog2 : Qc -> Qc) (pseudo bg : list Qc) (c : list (list N)),
    length pseudo = dna_K -> length bg = dna_K -> dna_rows c ->
    rc_row_spec (n_zero Qcops) dna_K dna_comp pseudo = pseudo ->
    rc_row_spec (n_zero Qcops) dna_K dna_comp bg = bg ->
    dna_rc (n_zero Qcops) (into_scoring Qcops flog2 bg (to_freq Qcops pseudo c))
    = into_scoring Qcops flog2 bg (to_freq Qcops pseudo (dna_rc 0%N c)) /\
    dna_rc (n_zero Qcops) (to_weight Qcops bg (to_freq Qcops pseudo c))
    = to_weight Qcops bg (to_freq Qcops pseudo (dna_rc 0%N c)).
Proof.
  intros f2 pseudo bg c Hp Hb Hc Hps Hbs.
  assert (Hrows : dna_rows (to_freq Qcops pseudo c))
    by (exact (to_freq_rows Qcops dna_K pseudo c Hp Hc)).
  destruct (C10_revcomp_commutes_to_weight Qc Qcops f2 bg _ Hrows Hb Hbs) as [Hw Hs].
  rewrite Hw, Hs.
  rewrite (C10_revcomp_commutes_to_freq Qc Qcops Qcplus_comm (fun a b c => eq_sym (Qcplus_assoc a b c)) pseudo c Hp Hc).
  rewrite Hps. split; reflexivity.
Qed.

(* ---- mirrored scores ---- *)

(* any carrier: the opposite strand sums the same cells in reverse order *)
Theorem C10_revcomp_mirror_terms :
  forall (T : Type) (O : NumOps T) (m : list (list T)) (s : list nat) (i : nat),
    Forall (fun x => x < dna_K) s -> i + length m <= length s ->
    window_terms O (dna_rc (n_zero O) m) (rc_seq dna_comp s) (length s - length m - i)
    = rev (window_terms O m s i).
Proof.
  intros T O m s i Hs Hi. unfold dna_rc. rewrite dna_symbols_seq.
  rewrite (rc_eq_spec (n_zero O) dna_K dna_comp).
  exact (window_terms_rc O dna_K dna_comp dna_comp_lt dna_comp_inv m s i Hs Hi).
Qed.

(* commutative monoid (exact arithmetic): score (rc m) (rc s) (L-M-i) = score m s i *)
Theorem C10_revcomp_mirrors_scores :
  forall (T : Type) (O : NumOps T),
    (forall a b, n_add O a b = n_add O b a) ->
    (forall a b c, n_add O (n_add O a b) c = n_add O a (n_add O b c)) ->
    forall (C : nat) (m : list (list T)) (s : list nat) (i : nat),
      0 < C -> Forall (fun x => x < dna_K) s -> i + length m <= length s ->
      score_position O dna_K C (dna_rc (n_zero O) m) (rc_seq dna_comp s) (length s - length m - i)
      = score_position O dna_K C m s i.
Proof.
  intros T O Hc Ha C m s i HC Hs Hi. unfold dna_rc. rewrite dna_symbols_seq.
  rewrite (rc_eq_spec (n_zero O) dna_K dna_comp).
  exact (mirror_scores O dna_K dna_comp dna_comp_lt dna_comp_inv Hc Ha C m s i HC Hs Hi).
Qed.

(* binary32: both strands are the left-to-right sums of the same cells, one in reverse
   order ("up to floating-point summation order"), for every carrier *)
Theorem C10_revcomp_scores_sum_reversed :
  forall (T : Type) (O : NumOps T) (C : nat) (m : list (list T)) (s : list nat) (i : nat),
    0 < C -> Forall (fun x => x < dna_K) s -> i + length m <= length s ->
    score_position O dna_K C m s i = Ok (fold_left (n_add O) (window_terms O m s i) (n_zero O)) /\
    score_position O dna_K C (dna_rc (n_zero O) m) (rc_seq dna_comp s) (length s - length m - i)
    = Ok (fold_left (n_add O) (rev (window_terms O m s i)) (n_zero O)).
Proof.
  intros T O C m s i HC Hs Hi. split.
  - exact (score_position_in O dna_K C m s i HC Hi).
  - rewrite <- (C10_revcomp_mirror_terms T O m s i Hs Hi).
    apply score_position_in; [exact HC|].
    unfold dna_rc. rewrite dna_symbols_seq, (rc_eq_spec (n_zero O) dna_K dna_comp).
    rewrite rc_spec_length. unfold rc_seq. rewrite map_length, rev_length. lia.
Qed.

(* count -> frequency on ANY carrier (binary32 as it is; no commutativity assumed): the
   re-association that really happens.  Both sides divide the same cells (count +
   pseudocount, in complement order) by the left-to-right sum of these cells; one sums
   them in the original column order, the other in complement order (a permutation). *)
Theorem C10_revcomp_to_freq_reassociation :
  forall (T : Type) (O : NumOps T) (p : list T) (r : list N),
    length p = dna_K -> length r = dna_K ->
    let cells := freq_cells O p r in
    let cells' := rc_row_spec (n_zero O) dna_K dna_comp cells in
    rc_row_spec (n_zero O) dna_K dna_comp (to_freq_row O p r)
      = map (fun x => n_div O x (fsum O cells)) cells' /\
    to_freq_row O (rc_row_spec (n_zero O) dna_K dna_comp p) (rc_row_spec 0%N dna_K dna_comp r)
      = map (fun x => n_div O x (fsum O cells')) cells' /\
    Permutation cells' cells.
Proof.
  intros T O p r Hp Hr.
  exact (rc_to_freq_row_any O dna_K dna_comp dna_comp_lt dna_comp_inv p r Hp Hr).
Qed.

(* binary32 (Flocq): the size of that re-association.  Cell k of rc(to_freq p r) and of
   to_freq (rc p) (rc r) is the same count+pseudocount cell divided by two left-to-right
   sums of the same K = 5 nonnegative cells; the sums are within (1 +- u)^4 of the exact
   total, the quotients (when not subnormal) carry one more relative rounding each, so
   they agree within 1e-6 relative: the extracted closeness check of the driver
   (f32_close 0 1e-6) never rejects the binary32 model.  Subnormal quotients are excluded
   here and skipped by the driver (fewer significant bits). *)
Theorem C10_revcomp_commutes_to_freq_f32 :
  forall (p : list F32.t) (r : list N) (k : nat),
    length p = dna_K -> length r = dna_K -> k < dna_K ->
    let cells := freq_cells F32ops p r in
    let cells' := rc_row_spec F32.zero dna_K dna_comp cells in
    Forall okcell cells ->
    let s := fsum F32ops cells in let s' := fsum F32ops cells' in
    is_finite s = true -> is_finite s' = true -> (0 < B2R s)%R -> (0 < B2R s')%R ->
    let a := nth k (rc_row_spec F32.zero dna_K dna_comp (to_freq_row F32ops p r)) F32.zero in
    let b := nth k (to_freq_row F32ops (rc_row_spec F32.zero dna_K dna_comp p)
                                       (rc_row_spec 0%N dna_K dna_comp r)) F32.zero in
    is_finite a = true -> is_finite b = true -> normal_or_zero a -> normal_or_zero b ->
    f32_close 0 (1 # 1000000) a b = true.
Proof.
  intros p r k Hp Hr Hk cells cells' Hok s s' Fs Fs' Ps Ps'.
  destruct (C10_revcomp_to_freq_reassociation F32.t F32ops p r Hp Hr) as [E1 [E2 HP]].
  change (n_zero F32ops) with F32.zero in *. fold cells in E1, E2, HP. fold cells' in E1, E2, HP.
  rewrite E1, E2.
  assert (Hl : length cells' = dna_K) by (unfold cells'; apply rc_row_spec_length).
  assert (Hn : forall t : F32.t,
             nth k (map (fun x => n_div F32ops x t) cells') F32.zero = F32.div (nth k cells' F32.zero) t).
  { intros t. rewrite (nth_indep _ F32.zero ((fun x => n_div F32ops x t) F32.zero))
      by (rewrite map_length, Hl; exact Hk).
    apply (map_nth (fun x => n_div F32ops x t)). }
  rewrite !Hn. intros Fa Fb Na Nb.
  assert (Hok' : Forall okcell cells') by (eapply Permutation_Forall; [apply Permutation_sym; exact HP | exact Hok]).
  apply (commute_check_accepts cells cells' (nth k cells' F32.zero)); auto.
  - apply Permutation_sym. exact HP.
  - unfold cells, freq_cells. rewrite map2_length, Hp, Hr. apply Nat.eq_le_incl. reflexivity.
  - rewrite Forall_forall in Hok'. apply (Hok' (nth k cells' F32.zero)). apply nth_In. rewrite Hl. exact Hk.
Qed.

(* what a [true] of the extracted C10 checkers states: the observed matrix IS the row
   reversal combined with the complement permutation (bit patterns identify binary32
   values), and mirrored scores differ by at most M * 2^-23 * sum |cells| *)
Theorem C10_check_rc_sound :
  (forall m obs, check_rc_f32 m obs = true -> obs = dna_rc_spec F32.zero m) /\
  (forall m obs, check_rc_N m obs = true -> obs = dna_rc_spec 0%N m) /\
  (forall l, strand_symmetric l = true -> rc_row_spec F32.zero dna_K dna_comp l = l) /\
  (forall a b : F32.t, f32_same a b = true <-> a = b).
Proof.
  split; [exact check_rc_f32_sound|]. split; [exact check_rc_N_sound|].
  split; [exact strand_symmetric_sound | exact f32_same_eq].
Qed.

Theorem C10_check_mirror_sound :
  forall terms a b t x y, check_mirror terms a b = true ->
    existsb F32.is_nan terms = false -> F32.is_nan a = false -> F32.is_nan b = false ->
    all_some (map f32_to_Q terms) = Some t -> f32_to_Q a = Some x -> f32_to_Q b = Some y ->
    (Qabs (x - y) <= (Z.of_nat (length t) # 8388608) * Qsum (map Qabs t))%Q.
Proof. exact check_mirror_sound. Qed.

(* binary32 (Flocq): "up to floating-point summation order" with an explicit bound.  The
   two strands sum the same M cells in opposite orders; each left-to-right sum from +0.0
   has M-1 rounded additions (the first one is exact, additions have no underflow error),
   so the two scores differ by at most 2((1+u)^(M-1) - 1) * sum |cells|, u = 2^-24, which
   is below the M * 2^-23 * sum |cells| of the extracted checker for M <= 4096 rows:
   check_mirror never rejects the binary32 model (when both scores are finite). *)
Theorem C10_revcomp_mirrors_scores_f32 :
  forall (C : nat) (m : list (list F32.t)) (s : list nat) (i : nat) (a b : F32.t),
    0 < C -> Forall (fun x => x < dna_K) s -> i + length m <= length s -> length m <= 4096 ->
    score_position F32ops dna_K C m s i = Ok a ->
    score_position F32ops dna_K C (dna_rc F32.zero m) (rc_seq dna_comp s) (length s - length m - i) = Ok b ->
    is_finite a = true -> is_finite b = true ->
    let terms := window_terms F32ops m s i in
    (Rabs (B2R a - B2R b) <= 2 * ((1 + u32) ^ (length terms - 1) - 1) * Rabsum terms)%R /\
    check_mirror terms a b = true.
Proof.
  intros C m s i a b HC Hs Hi Hm Ha Hb Fa Fb terms.
  destruct (C10_revcomp_scores_sum_reversed F32.t F32ops C m s i HC Hs Hi) as [E1 E2].
  change (n_zero F32ops) with F32.zero in *. change (n_add F32ops) with F32.add in *.
  fold terms in E1, E2. rewrite E1 in Ha. rewrite E2 in Hb.
  inversion Ha; subst a. inversion Hb; subst b. split.
  - exact (mirror_error terms Fa Fb).
  - apply mirror_model_passes_check; [|exact Fa | exact Fb].
    unfold terms, window_terms. rewrite map2_length. lia.
Qed.

(* ---- round 3, wave 3 (review C10/1-3) ---- *)

(* the pseudocounts the property text does not mention: the scalar pseudocount of
   Pseudocounts::from(f32) ([c] on A, C, T, G and 0 on N) is strand-symmetric for every
   carrier, so the hypothesis [rc_row_spec pseudo = pseudo] of C10_revcomp_commutes is met
   by every scalar pseudocount; a per-symbol pseudocount vector must be strand-symmetric
   itself (p_A = p_T, p_C = p_G), like the background *)
Theorem C10_pseudo_scalar_symmetric :
  forall (T : Type) (O : NumOps T) (c : T),
    rc_row_spec (n_zero O) dna_K dna_comp (pseudo_scalar O dna_K c) = pseudo_scalar O dna_K c /\
    length (pseudo_scalar O dna_K c) = dna_K.
Proof. intros T O c. split; reflexivity. Qed.

Theorem C10_revcomp_commutes_scalar_pseudo :
  forall (flog2 : Qc -> Qc) (c : Qc) (bg : list Qc) (cm : list (list N)),
    length bg = dna_K -> dna_rows cm ->
    rc_row_spec (n_zero Qcops) dna_K dna_comp bg = bg ->
    let pseudo := pseudo_scalar Qcops dna_K c in
    dna_rc (n_zero Qcops) (into_scoring Qcops flog2 bg (to_freq Qcops pseudo cm))
    = into_scoring Qcops flog2 bg (to_freq Qcops pseudo (dna_rc 0%N cm)) /\
    dna_rc (n_zero Qcops) (to_weight Qcops bg (to_freq Qcops pseudo cm))
    = to_weight Qcops bg (to_freq Qcops pseudo (dna_rc 0%N cm)).
Proof.
  intros f2 c bg cm Hb Hc Hs pseudo.
  destruct (C10_pseudo_scalar_symmetric Qc Qcops c) as [Hp Hl].
  exact (C10_revcomp_commutes f2 pseudo bg cm Hl Hb Hc Hp Hs).
Qed.

(* what a passing mirrored-score check states, with the cases that are NOT judged named by
   the extracted [mirror_skipped] (counted and reported by the driver): a NaN term or score, a
   +inf term, or finite terms with an overflowed score -- in the last case the two strands may
   legitimately differ (3e38 + 3e38 - 3e38 is +inf in one order and 3e38 in the other), so
   bit equality cannot be demanded there (review C10/3) *)
Theorem C10_check_mirror_sound2 :
  forall (terms : list F32.t) (a b : F32.t),
    check_mirror terms a b = true -> mirror_skipped terms a b = false ->
    (exists t x y, all_some (map f32_to_Q terms) = Some t /\ f32_to_Q a = Some x /\ f32_to_Q b = Some y /\
                   (Qabs (x - y) <= (Z.of_nat (length t) # 8388608) * Qsum (map Qabs t))%Q)
    \/ (all_some (map f32_to_Q terms) = None /\ existsb F32.is_nan terms = false /\
        existsb (fun t => F32.eq t F32.inf) terms = false /\ a = b).
Proof. exact check_mirror_sound2. Qed.

(* binary32: the overflow example, computed in the kernel: same terms, the two summation
   orders give +inf and a finite score; the checker does not judge it *)
Example C10_mirror_overflow_example :
  let M := F32.of_bits 2130706432 in    (* 1.7e38 *)
  let terms := [M; M; F32.neg M] in
  F32.to_bits (fold_left F32.add terms F32.zero) = 2139095040%Z /\           (* +inf *)
  F32.to_bits (fold_left F32.add (rev terms) F32.zero) = 2130706432%Z /\     (* 1.7e38 *)
  mirror_skipped terms (fold_left F32.add terms F32.zero) (fold_left F32.add (rev terms) F32.zero) = true.
Proof. vm_compute. repeat split; reflexivity. Qed.

(* what a passing commutation check (fm_close 0 1e-6 / 1e-5 on frequencies, weights, scores)
   states about the two observed matrices *)
Theorem C10_commutation_check_sound :
  forall (abs rel : Q) (m1 m2 : list (list F32.t)), fm_close abs rel m1 m2 = true ->
    length m1 = length m2 /\
    forall i, i < length m1 -> length (nth i m1 []) = length (nth i m2 []) /\
      forall k, k < length (nth i m1 []) ->
        let x := nth k (nth i m1 []) F32.zero in let y := nth k (nth i m2 []) F32.zero in
        (forall X Y, f32_to_Q x = Some X -> f32_to_Q y = Some Y ->
           (Qabs (X - Y) <= abs + rel * (if Qle_bool (Qabs X) (Qabs Y) then Qabs Y else Qabs X))%Q) /\
        (f32_to_Q x = None \/ f32_to_Q y = None -> x = y).
Proof.
  intros abs rel m1 m2 H. destruct (fm_close_sound abs rel m1 m2 H) as [H1 H2].
  split; [exact H1|]. intros i Hi. destruct (H2 i Hi) as [H3 H4]. split; [exact H3|].
  intros k Hk x y. exact (f32_close_sound abs rel x y (H4 k Hk)).
Qed.

(* ---- non-vacuity / examples ---- *)

Example C10_example_rc :
  dna_rc 0%N [[1;2;3;4;5]; [6;7;8;9;10]]%N = [[8;9;6;7;10]; [3;4;1;2;5]]%N.
Proof. reflexivity. Qed.

Example C10_example_hyps :
  dna_rows [[1;2;3;4;5]; [6;7;8;9;10]]%N /\
  rc_row_spec (n_zero Qcops) dna_K dna_comp [Q2Qc (1#4); Q2Qc (1#4); Q2Qc (1#4); Q2Qc (1#4); Q2Qc 0]
  = [Q2Qc (1#4); Q2Qc (1#4); Q2Qc (1#4); Q2Qc (1#4); Q2Qc 0] /\
  Forall (fun x => x < dna_K) [0;3;2;1;4].
Proof. split; [repeat constructor | split; [reflexivity | repeat constructor]]. Qed.

Check C10_revcomp_involutive :
  forall (A : Type) (dflt : A) (m : list (list A)), dna_rows m -> dna_rc dflt (dna_rc dflt m) = m.
Check C10_revcomp_mirrors_scores :
  forall (T : Type) (O : NumOps T),
    (forall a b, n_add O a b = n_add O b a) ->
    (forall a b c, n_add O (n_add O a b) c = n_add O a (n_add O b c)) ->
    forall (C : nat) (m : list (list T)) (s : list nat) (i : nat),
      0 < C -> Forall (fun x => x < dna_K) s -> i + length m <= length s ->
      score_position O dna_K C (dna_rc (n_zero O) m) (rc_seq dna_comp s) (length s - length m - i)
      = score_position O dna_K C m s i.
