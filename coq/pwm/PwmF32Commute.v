(* to_freq commutes with reverse-complement up to rounding: the two quotients x/s and x/s'
   (s, s' = binary32 left-to-right sums of the same nonnegative cells in two orders) are within
   relative 1e-6 of each other whenever neither quotient is subnormal. *)
From Coq Require Import ZArith Reals List Bool Lia Lra Psatz QArith Qabs Qreals Permutation.
From Coq Require Import SpecFloat.
From Flocq Require Import Core BinarySingleNaN Relative Plus_error.
From LMBase Require Import Res ListX IEEE.
From LMPwm Require Import GenComplement PwmModel PwmCheck PwmF32Rescale PwmF32Freq.
Import ListNotations.

Local Open Scope R_scope.

Notation tiny32 := (bpow radix2 (-126)).   (* least positive normal binary32 *)

(* ---------- Goal A: rounding with a normal result ---------- *)

Lemma tiny32_pos : 0 < tiny32.
Proof. apply bpow_gt_0. Qed.

(* relative to the ROUNDED value: holds whenever the rounded value is not subnormal *)
Lemma rnd32_normal_back_err (z : R) :
  tiny32 <= Rabs (rnd32 z) -> Rabs (rnd32 z - z) <= u32 * Rabs (rnd32 z).
Proof.
  intros Hn.
  pose proof (error_le_half_ulp_round radix2 (FLT_exp (-149) 24) (fun x => negb (Z.even x)) z) as H1.
  pose proof (ulp_FLT_le radix2 (-149) 24 (rnd32 z) Hn) as H2.
  change (round radix2 (FLT_exp (-149) 24) (Znearest (fun x => negb (Z.even x))) z)
    with (rnd32 z) in H1.
  assert (Hu : u32 = / 2 * bpow radix2 (1 - 24)).
  { unfold u32. assert (H2' : / 2 = bpow radix2 (-1)) by (simpl; lra).
    rewrite H2', <- bpow_plus. reflexivity. }
  rewrite Hu. lra.
Qed.

Lemma rnd32_normal_back (z : R) :
  tiny32 <= Rabs (rnd32 z) ->
  exists d, Rabs d <= u32 /\ z = rnd32 z * (1 + d).
Proof.
  intros Hn. pose proof (rnd32_normal_back_err z Hn) as He.
  pose proof tiny32_pos as Ht.
  set (r := rnd32 z) in *.
  assert (Hr : r <> 0).
  { intros E. rewrite E, Rabs_R0 in Hn. lra. }
  assert (Hra : 0 < Rabs r) by (apply Rabs_pos_lt; exact Hr).
  exists ((z - r) / r). split.
  - unfold Rdiv. rewrite Rabs_mult, Rabs_inv.
    apply (Rmult_le_reg_r (Rabs r)); [exact Hra|].
    rewrite Rmult_assoc, Rinv_l by lra. rewrite Rmult_1_r.
    rewrite <- Rabs_Ropp. replace (- (z - r)) with (r - z) by ring. exact He.
  - field. exact Hr.
Qed.

(* relative to the EXACT value, with a strictly normal result *)
Lemma rnd32_normal_fwd (z : R) :
  tiny32 < Rabs (rnd32 z) ->
  exists d, Rabs d <= u32 /\ rnd32 z = z * (1 + d).
Proof.
  intros Hn.
  assert (Hz : bpow radix2 (-149 + 24 - 1) <= Rabs z).
  { destruct (Rle_or_lt (bpow radix2 (-149 + 24 - 1)) (Rabs z)) as [H|H]; [exact H|exfalso].
    assert (G : generic_format radix2 fexp32 tiny32).
    { apply generic_format_bpow. cbv. discriminate. }
    pose proof (abs_round_le_generic radix2 fexp32 (round_mode mode_NE) z tiny32 G) as Hle.
    change (-149 + 24 - 1)%Z with (-126)%Z in H.
    specialize (Hle (Rlt_le _ _ H)). lra. }
  destruct (relative_error_N_FLT_ex radix2 (-149) 24 ltac:(lia) (fun x => negb (Z.even x)) z Hz)
    as (d & Hd & Hr).
  exists d. split; [|exact Hr].
  assert (H2 : / 2 = bpow radix2 (-1)) by (simpl; lra).
  rewrite H2, <- bpow_plus in Hd. exact Hd.
Qed.

Lemma rnd32_nonneg (z : R) : 0 <= z -> 0 <= rnd32 z.
Proof.
  intros Hz.
  rewrite <- (round_0 radix2 fexp32 (round_mode mode_NE)).
  apply round_le; [apply (fexp_correct 24 128); reflexivity|apply valid_rnd_round_mode|exact Hz].
Qed.

Theorem div_normal_rel_back (a b : F32.t) :
  0 < B2R b -> fin (F32.div a b) = true ->
  tiny32 <= Rabs (B2R (F32.div a b)) ->
  exists d, Rabs d <= u32 /\ B2R a / B2R b = B2R (F32.div a b) * (1 + d).
Proof.
  intros Hb Hf Hn. rewrite (div_finite_R a b Hb Hf) in *.
  exact (rnd32_normal_back _ Hn).
Qed.

Theorem div_normal_rel (a b : F32.t) :
  0 < B2R b -> fin (F32.div a b) = true ->
  tiny32 < Rabs (B2R (F32.div a b)) ->
  exists d, Rabs d <= u32 /\ B2R (F32.div a b) = B2R a / B2R b * (1 + d).
Proof.
  intros Hb Hf Hn. rewrite (div_finite_R a b Hb Hf) in *.
  exact (rnd32_normal_fwd _ Hn).
Qed.

(* with the non-strict hypothesis the forward form holds with u/(1-u) *)
Theorem div_normal_rel_weak (a b : F32.t) :
  0 < B2R b -> fin (F32.div a b) = true ->
  tiny32 <= Rabs (B2R (F32.div a b)) ->
  exists d, Rabs d <= u32 / (1 - u32) /\ B2R (F32.div a b) = B2R a / B2R b * (1 + d).
Proof.
  intros Hb Hf Hn.
  destruct (div_normal_rel_back a b Hb Hf Hn) as (d & Hd & E).
  pose proof u32_pos as Hu. pose proof u32_lt_1 as Hu1.
  apply Rabs_le_inv in Hd.
  exists (- d / (1 + d)). split.
  - unfold Rdiv. rewrite Rabs_mult, Rabs_Ropp, Rabs_inv, (Rabs_pos_eq (1 + d)) by lra.
    assert (Hd' : Rabs d <= u32) by (apply Rabs_le; lra).
    assert (Hi : / (1 + d) <= / (1 - u32)) by (apply Rinv_le_contravar; lra).
    apply Rmult_le_compat; [apply Rabs_pos| |exact Hd'|exact Hi].
    left. apply Rinv_0_lt_compat. lra.
  - rewrite E. field. lra.
Qed.

Theorem div_zero_num (a b : F32.t) :
  0 < B2R b -> fin (F32.div a b) = true -> B2R a = 0 -> B2R (F32.div a b) = 0.
Proof.
  intros Hb Hf Ha. rewrite (div_finite_R a b Hb Hf), Ha.
  unfold Rdiv. rewrite Rmult_0_l. apply round_0. apply valid_rnd_round_mode.
Qed.

Lemma div_nonneg (a b : F32.t) :
  0 <= B2R a -> 0 < B2R b -> fin (F32.div a b) = true -> 0 <= B2R (F32.div a b).
Proof.
  intros Ha Hb Hf. rewrite (div_finite_R a b Hb Hf). apply rnd32_nonneg.
  unfold Rdiv. apply Rmult_le_pos; [exact Ha|]. left. apply Rinv_0_lt_compat. exact Hb.
Qed.

(* ---------- Goal B: two sums of the same nonnegative cells ---------- *)

Lemma Rsum_perm {A : Type} (f : A -> R) (l l' : list A) :
  Permutation l l' -> Rsum (map f l) = Rsum (map f l').
Proof.
  induction 1 as [|x l l' _ IH|x y l|l l' l'' _ IH1 _ IH2]; cbn [map Rsum fold_right].
  - reflexivity.
  - fold (Rsum (map f l)) (Rsum (map f l')). rewrite IH. reflexivity.
  - ring.
  - rewrite IH1. exact IH2.
Qed.

Theorem sum_nzero_bounds (cells : list F32.t) :
  Forall okcell cells ->
  let s := fold_left F32.add cells F32.nzero in
  fin s = true ->
  let S := Rsum (map B2R cells) in
  let m := (length cells - 1)%nat in
  S * (1 - u32) ^ m <= B2R s <= S * (1 + u32) ^ m.
Proof.
  intros Hc s Fs. cbn zeta.
  destruct cells as [|x r].
  - cbn. lra.
  - inversion Hc as [|x' r' [Fx Hx] Hr]; subst x' r'.
    unfold s in *. cbn [fold_left] in *.
    pose proof (fold_add_fin _ _ Fs) as F1.
    pose proof (add_nzero_exact x F1) as E1.
    assert (H1 : 0 <= B2R (F32.add F32.nzero x)) by (rewrite E1; exact Hx).
    pose proof (fold_add_bounds r _ Hr H1 Fs) as HB. cbn zeta in HB.
    rewrite E1 in HB.
    cbn [length]. replace (Datatypes.S (length r) - 1)%nat with (length r) by lia.
    exact HB.
Qed.

Theorem perm_sums_bounds (cells cells' : list F32.t) :
  Permutation cells cells' ->
  Forall okcell cells ->
  let s := fold_left F32.add cells F32.nzero in
  let s' := fold_left F32.add cells' F32.nzero in
  fin s = true -> fin s' = true ->
  let S := Rsum (map B2R cells) in
  let m := (length cells - 1)%nat in
  0 <= S /\
  S * (1 - u32) ^ m <= B2R s <= S * (1 + u32) ^ m /\
  S * (1 - u32) ^ m <= B2R s' <= S * (1 + u32) ^ m.
Proof.
  intros HP Hc s s' Fs Fs'. cbn zeta.
  split; [|split].
  - apply Rsum_nonneg. apply Forall_map. eapply Forall_impl; [|exact Hc]. intros y [_ Hy]. exact Hy.
  - exact (sum_nzero_bounds cells Hc Fs).
  - assert (Hc' : Forall okcell cells').
    { rewrite Forall_forall in *. intros y Hy. apply Hc. eapply Permutation_in; [|exact Hy].
      apply Permutation_sym. exact HP. }
    rewrite (Rsum_perm B2R _ _ HP), (Permutation_length HP).
    exact (sum_nzero_bounds cells' Hc' Fs').
Qed.

(* ---------- Goal C: the two quotients are close ---------- *)

Lemma tiny32_val : tiny32 = / 85070591730234615865843651857942052864.
Proof. cbn [bpow radix_val radix2]. let v := eval vm_compute in (Z.pow_pos 2 126) in change (Z.pow_pos 2 126) with v. reflexivity. Qed.

Lemma pow_1mu_anti (m n : nat) : (m <= n)%nat -> (1 - u32) ^ n <= (1 - u32) ^ m.
Proof.
  intros Hmn. pose proof u32_pos as Hu. pose proof u32_lt_1 as Hu1.
  replace n with (m + (n - m))%nat by lia. rewrite pow_add.
  rewrite <- (Rmult_1_r ((1 - u32) ^ m)) at 2.
  apply Rmult_le_compat_l; [left; apply pow_1mu_pos|].
  assert (Hq : (1 - u32) ^ (n - m) <= 1 ^ (n - m)) by (apply pow_incr; lra).
  rewrite pow1 in Hq. exact Hq.
Qed.

Lemma pow_1pu_mono (m n : nat) : (m <= n)%nat -> (1 + u32) ^ m <= (1 + u32) ^ n.
Proof.
  intros Hmn. pose proof u32_pos as Hu. apply Rle_pow; [lra|exact Hmn].
Qed.

Lemma cross_real (S s s' l h z z' : R) :
  0 < S -> S * l <= s -> s' <= S * h -> 0 <= z -> 0 <= z' ->
  z * s = z' * s' -> z * l <= z' * h.
Proof.
  intros HS Hs Hs' Hz Hz' E.
  apply (Rmult_le_reg_l S); [exact HS|].
  assert (H1 : z * (S * l) <= z * s) by (apply Rmult_le_compat_l; assumption).
  assert (H2 : z' * s' <= z' * (S * h)) by (apply Rmult_le_compat_l; assumption).
  lra.
Qed.

Lemma both_normal_real (a b d1 d2 : R) :
  0 <= a -> 0 <= b -> Rabs d1 <= u32 -> Rabs d2 <= u32 ->
  (a * (1 + d1)) * (1 - u32) ^ 4 <= (b * (1 + d2)) * (1 + u32) ^ 4 ->
  a - b <= / 1000000 * b.
Proof.
  intros Ha Hb H1 H2 H.
  apply Rabs_le_inv in H1. apply Rabs_le_inv in H2.
  assert (P1 : 0 <= a * (d1 + u32)) by (apply Rmult_le_pos; lra).
  assert (P2 : 0 <= b * (u32 - d2)) by (apply Rmult_le_pos; lra).
  rewrite u32_val in *. lra.
Qed.

Lemma zero_normal_real (z z' b d2 d e : R) :
  0 <= z -> Rabs d <= u32 -> Rabs e <= eta32 -> 0 = z * (1 + d) + e ->
  Rabs d2 <= u32 -> tiny32 <= b -> z' = b * (1 + d2) ->
  z' * (1 - u32) ^ 4 <= z * (1 + u32) ^ 4 -> False.
Proof.
  intros Hz Hd He E H2 Hb Ez' H.
  apply Rabs_le_inv in Hd. apply Rabs_le_inv in He. apply Rabs_le_inv in H2.
  pose proof tiny32_pos as Ht.
  assert (P1 : 0 <= z * (d + u32)) by (apply Rmult_le_pos; lra).
  assert (P2 : 0 <= b * (d2 + u32)) by (apply Rmult_le_pos; lra).
  subst z'.
  rewrite tiny32_val in *. rewrite u32_val, eta32_val in *. lra.
Qed.

Definition normal_or_zero (q : F32.t) : Prop := B2R q = 0 \/ tiny32 <= Rabs (B2R q).

Lemma zero_normal_absurd (x s s' : F32.t) (S : R) :
  0 < S ->
  S * (1 - u32) ^ 4 <= B2R s' -> B2R s <= S * (1 + u32) ^ 4 ->
  0 < B2R s -> 0 < B2R s' -> 0 <= B2R x ->
  fin (F32.div x s) = true -> fin (F32.div x s') = true ->
  B2R (F32.div x s) = 0 -> tiny32 <= Rabs (B2R (F32.div x s')) -> False.
Proof.
  intros HS Hl Hh Hs Hs' Hx Fa Fb Ea Nb.
  pose proof (div_nonneg x s' Hx Hs' Fb) as Hb0.
  destruct (div_normal_rel_back x s' Hs' Fb Nb) as (d2 & Hd2 & Eb).
  rewrite (Rabs_pos_eq _ Hb0) in Nb.
  rewrite (div_finite_R x s Hs Fa) in Ea.
  destruct (rnd32_err (B2R x / B2R s)) as (d & e & Hd & He & Hr). rewrite Hr in Ea.
  assert (Hz : 0 <= B2R x / B2R s).
  { unfold Rdiv. apply Rmult_le_pos; [exact Hx|]. left. apply Rinv_0_lt_compat. exact Hs. }
  assert (Hz' : 0 <= B2R x / B2R s').
  { unfold Rdiv. apply Rmult_le_pos; [exact Hx|]. left. apply Rinv_0_lt_compat. exact Hs'. }
  assert (Hc : (B2R x / B2R s') * B2R s' = (B2R x / B2R s) * B2R s) by (field; lra).
  pose proof (cross_real S (B2R s') (B2R s) _ _ _ _ HS Hl Hh Hz' Hz Hc) as HX.
  exact (zero_normal_real _ _ _ _ _ _ Hz Hd He (eq_sym Ea) Hd2 Nb Eb HX).
Qed.

Lemma both_normal_half (x s s' : F32.t) (S : R) :
  0 < S ->
  S * (1 - u32) ^ 4 <= B2R s -> B2R s' <= S * (1 + u32) ^ 4 ->
  0 < B2R s -> 0 < B2R s' -> 0 <= B2R x ->
  fin (F32.div x s) = true -> fin (F32.div x s') = true ->
  tiny32 <= Rabs (B2R (F32.div x s)) -> tiny32 <= Rabs (B2R (F32.div x s')) ->
  B2R (F32.div x s) - B2R (F32.div x s') <= / 1000000 * B2R (F32.div x s').
Proof.
  intros HS Hl Hh Hs Hs' Hx Fa Fb Na Nb.
  pose proof (div_nonneg x s Hx Hs Fa) as Ha0.
  pose proof (div_nonneg x s' Hx Hs' Fb) as Hb0.
  destruct (div_normal_rel_back x s Hs Fa Na) as (d1 & Hd1 & Ea).
  destruct (div_normal_rel_back x s' Hs' Fb Nb) as (d2 & Hd2 & Eb).
  assert (Hz : 0 <= B2R x / B2R s).
  { unfold Rdiv. apply Rmult_le_pos; [exact Hx|]. left. apply Rinv_0_lt_compat. exact Hs. }
  assert (Hz' : 0 <= B2R x / B2R s').
  { unfold Rdiv. apply Rmult_le_pos; [exact Hx|]. left. apply Rinv_0_lt_compat. exact Hs'. }
  assert (Hc : (B2R x / B2R s) * B2R s = (B2R x / B2R s') * B2R s') by (field; lra).
  pose proof (cross_real S (B2R s) (B2R s') _ _ _ _ HS Hl Hh Hz Hz' Hc) as HX.
  rewrite Ea, Eb in HX.
  exact (both_normal_real _ _ _ _ Ha0 Hb0 Hd1 Hd2 HX).
Qed.

Theorem quotients_close_core (x s s' : F32.t) (S : R) (m : nat) :
  (m <= 4)%nat -> 0 <= S ->
  S * (1 - u32) ^ m <= B2R s <= S * (1 + u32) ^ m ->
  S * (1 - u32) ^ m <= B2R s' <= S * (1 + u32) ^ m ->
  0 < B2R s -> 0 < B2R s' -> 0 <= B2R x ->
  let a := F32.div x s in let b := F32.div x s' in
  fin a = true -> fin b = true -> normal_or_zero a -> normal_or_zero b ->
  Rabs (B2R a - B2R b) <= / 1000000 * Rmax (Rabs (B2R a)) (Rabs (B2R b)).
Proof.
  intros Hm HS0 [Hl Hh] [Hl' Hh'] Hs Hs' Hx a b Fa Fb Na Nb.
  pose proof u32_pos as Hu.
  assert (Pm : 0 < (1 + u32) ^ m) by (apply pow_lt; lra).
  assert (HS : 0 < S).
  { destruct HS0 as [H|H]; [exact H|]. rewrite <- H, Rmult_0_l in Hh. lra. }
  pose proof (pow_1mu_anti m 4 Hm) as A1. pose proof (pow_1pu_mono m 4 Hm) as A2.
  assert (L4 : S * (1 - u32) ^ 4 <= S * (1 - u32) ^ m) by (apply Rmult_le_compat_l; lra).
  assert (H4 : S * (1 + u32) ^ m <= S * (1 + u32) ^ 4) by (apply Rmult_le_compat_l; lra).
  assert (Gl : S * (1 - u32) ^ 4 <= B2R s) by lra.
  assert (Gh : B2R s <= S * (1 + u32) ^ 4) by lra.
  assert (Gl' : S * (1 - u32) ^ 4 <= B2R s') by lra.
  assert (Gh' : B2R s' <= S * (1 + u32) ^ 4) by lra.
  pose proof (div_nonneg x s Hx Hs Fa) as Ha0. fold a in Ha0.
  pose proof (div_nonneg x s' Hx Hs' Fb) as Hb0. fold b in Hb0.
  destruct Na as [Za|Na]; destruct Nb as [Zb|Nb].
  - rewrite Za, Zb, Rminus_0_r, Rabs_R0, Rmax_left by lra. lra.
  - exfalso. exact (zero_normal_absurd x s s' S HS Gl' Gh Hs Hs' Hx Fa Fb Za Nb).
  - exfalso. exact (zero_normal_absurd x s' s S HS Gl Gh' Hs' Hs Hx Fb Fa Zb Na).
  - pose proof (both_normal_half x s s' S HS Gl Gh' Hs Hs' Hx Fa Fb Na Nb) as H1.
    pose proof (both_normal_half x s' s S HS Gl' Gh Hs' Hs Hx Fb Fa Nb Na) as H2.
    fold a b in H1, H2.
    rewrite (Rabs_pos_eq _ Ha0), (Rabs_pos_eq _ Hb0).
    pose proof (Rmax_l (B2R a) (B2R b)). pose proof (Rmax_r (B2R a) (B2R b)).
    apply Rabs_le. split; lra.
Qed.

Theorem commute_quotients_close (cells cells' : list F32.t) (x : F32.t) :
  Permutation cells cells' -> Forall okcell cells -> (length cells <= 5)%nat ->
  let s := fold_left F32.add cells F32.nzero in
  let s' := fold_left F32.add cells' F32.nzero in
  fin s = true -> fin s' = true -> 0 < B2R s -> 0 < B2R s' ->
  0 <= B2R x ->
  let a := F32.div x s in let b := F32.div x s' in
  fin a = true -> fin b = true -> normal_or_zero a -> normal_or_zero b ->
  Rabs (B2R a - B2R b) <= / 1000000 * Rmax (Rabs (B2R a)) (Rabs (B2R b)).
Proof.
  intros HP Hc Hn s s' Fs Fs' Hs Hs' Hx a b Fa Fb Na Nb.
  destruct (perm_sums_bounds cells cells' HP Hc Fs Fs') as (HS & B1 & B2).
  apply (quotients_close_core x s s' (Rsum (map B2R cells)) (length cells - 1));
    try assumption. lia.
Qed.

(* ---------- Goal D: the extracted check accepts ---------- *)

Lemma f32_close_rel_accepts (a b : F32.t) :
  fin a = true -> fin b = true ->
  Rabs (B2R a - B2R b) <= / 1000000 * Rmax (Rabs (B2R a)) (Rabs (B2R b)) ->
  f32_close 0 (1 # 1000000) a b = true.
Proof.
  intros Fa Fb H.
  destruct (f32_to_Q_total a Fa) as [qa Ea]. destruct (f32_to_Q_total b Fb) as [qb Eb].
  unfold f32_close. rewrite Ea, Eb.
  apply f32_to_Q_B2R in Ea, Eb. destruct Ea as [Ra _], Eb as [Rb _].
  unfold Qleb.
  assert (T : Q2R (1 # 1000000) = / 1000000) by (unfold Q2R; cbn [Qnum Qden]; lra).
  destruct (Qle_bool (Qabs qa) (Qabs qb)) eqn:Hc.
  - apply Qle_bool_iff in Hc. apply Qle_Rle in Hc. rewrite !Q2R_abs, Ra, Rb in Hc.
    apply Qle_bool_iff. apply Rle_Qle.
    rewrite Q2R_abs, Q2R_minus, Q2R_plus, Q2R_mult, Q2R_abs, Q2R_0', T, Ra, Rb.
    rewrite Rmax_right in H by exact Hc. lra.
  - assert (Hn : (Qabs qb < Qabs qa)%Q).
    { apply Qnot_le_lt. intros G. apply Qle_bool_iff in G. rewrite G in Hc. discriminate. }
    apply Qlt_Rlt in Hn. rewrite !Q2R_abs, Ra, Rb in Hn.
    apply Qle_bool_iff. apply Rle_Qle.
    rewrite Q2R_abs, Q2R_minus, Q2R_plus, Q2R_mult, Q2R_abs, Q2R_0', T, Ra, Rb.
    rewrite Rmax_left in H by lra. lra.
Qed.

Theorem commute_check_accepts (cells cells' : list F32.t) (x : F32.t) :
  Permutation cells cells' -> Forall okcell cells -> (length cells <= 5)%nat ->
  let s := fold_left F32.add cells F32.nzero in
  let s' := fold_left F32.add cells' F32.nzero in
  fin s = true -> fin s' = true -> 0 < B2R s -> 0 < B2R s' ->
  0 <= B2R x ->
  let a := F32.div x s in let b := F32.div x s' in
  fin a = true -> fin b = true -> normal_or_zero a -> normal_or_zero b ->
  f32_close 0 (1 # 1000000) a b = true.
Proof.
  intros HP Hc Hn s s' Fs Fs' Hs Hs' Hx a b Fa Fb Na Nb.
  apply (f32_close_rel_accepts a b Fa Fb).
  exact (commute_quotients_close cells cells' x HP Hc Hn Fs Fs' Hs Hs' Hx Fa Fb Na Nb).
Qed.

Print Assumptions div_normal_rel_back.
Print Assumptions div_normal_rel.
Print Assumptions perm_sums_bounds.
Print Assumptions commute_quotients_close.
Print Assumptions commute_check_accepts.
