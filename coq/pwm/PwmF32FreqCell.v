(* Per-cell error of to_freq_row in binary32, and: the binary32 model passes the extracted
   frequency-row check (check_freq_row) with eps = 1e-5 for rows of at most 21 cells. *)
From Coq Require Import ZArith NArith Reals List Bool Arith Lia Lra Psatz QArith Qabs Qreals.
From Coq Require Import SpecFloat.
From Flocq Require Import Core BinarySingleNaN Relative Plus_error.
From LMBase Require Import Res ListX IEEE.
From LMPwm Require Import GenComplement PwmModel PwmCheck PwmF32Rescale PwmF32Freq.
Import ListNotations.

Local Open Scope R_scope.

(* ---------- list helpers ---------- *)

Lemma map2_length' {A B C} (f : A -> B -> C) l1 l2 :
  length (map2 f l1 l2) = Nat.min (length l1) (length l2).
Proof. revert l2; induction l1 as [|a r IH]; intros [|b r2]; simpl; auto. Qed.

Lemma nth_map2' {A B C} (f : A -> B -> C) l1 l2 j d d1 d2 :
  (j < length l1)%nat -> (j < length l2)%nat ->
  nth j (map2 f l1 l2) d = f (nth j l1 d1) (nth j l2 d2).
Proof.
  revert l2 j; induction l1 as [|a r IH]; intros [|b r2] [|j] H1 H2; simpl in *; try lia; auto.
  apply IH; lia.
Qed.

Lemma forallb_id_map2_intro {A B} (f : A -> B -> bool) : forall l1 l2 da db,
  (forall k, (k < length l1)%nat -> (k < length l2)%nat -> f (nth k l1 da) (nth k l2 db) = true) ->
  forallb (fun b => b) (map2 f l1 l2) = true.
Proof.
  induction l1 as [|a l1 IH]; intros [|b l2] da db H; simpl in *; try reflexivity.
  apply andb_true_iff. split.
  - apply (H 0%nat); lia.
  - apply (IH l2 da db). intros k H1 H2. apply (H (S k)); lia.
Qed.

(* ---------- Goal A: u32 count -> binary32 ---------- *)

Definition cnt (c : N) : R := IZR (Z.of_N c).

Lemma cnt_nonneg (c : N) : 0 <= cnt c.
Proof. unfold cnt. apply IZR_le. lia. Qed.

Lemma of_Z_count (c : N) :
  (c < 2 ^ 32)%N ->
  fin (F32.of_Z (Z.of_N c)) = true /\
  exists d, Rabs d <= u32 /\ B2R (F32.of_Z (Z.of_N c)) = cnt c * (1 + d).
Proof.
  intros Hc.
  pose proof (binary_normalize_correct 24 128 _ _ mode_NE (Z.of_N c) 0 false) as H.
  cbv zeta in H.
  change (binary_normalize 24 128 _ _ mode_NE (Z.of_N c) 0 false) with (F32.of_Z (Z.of_N c)) in H.
  assert (HF : F2R (Float radix2 (Z.of_N c) 0) = cnt c).
  { unfold F2R, cnt. cbn [Fnum Fexp bpow]. lra. }
  rewrite HF in H.
  assert (H0 : 0 <= cnt c) by apply cnt_nonneg.
  assert (Hle : cnt c <= bpow radix2 32).
  { unfold cnt. change (bpow radix2 32) with (IZR (Z.pow_pos 2 32)). apply IZR_le.
    change (Z.pow_pos 2 32) with (Z.of_N (2 ^ 32)%N). lia. }
  assert (Hr0 : 0 <= rnd32 (cnt c)).
  { apply round_ge_generic; [apply FLT_exp_valid; reflexivity|apply valid_rnd_N|apply generic_format_0|exact H0]. }
  assert (Hr1 : rnd32 (cnt c) <= bpow radix2 32).
  { apply round_le_generic; [apply FLT_exp_valid; reflexivity|apply valid_rnd_N| |exact Hle].
    apply generic_format_bpow. unfold fexp, FLT_exp, emin. lia. }
  rewrite Rlt_bool_true in H.
  2:{ rewrite Rabs_pos_eq by exact Hr0. eapply Rle_lt_trans; [exact Hr1|]. apply bpow_lt. lia. }
  destruct H as (HR & HFin & _).
  split; [exact HFin|].
  destruct (Req_dec (cnt c) 0) as [Hz|Hnz].
  - exists 0. split; [rewrite Rabs_R0; left; apply u32_pos|].
    rewrite HR, Hz, round_0 by apply valid_rnd_N. ring.
  - assert (H1 : 1 <= cnt c).
    { unfold cnt in *. apply IZR_le. assert (Z.of_N c <> 0)%Z by (intros E; apply Hnz; rewrite E; reflexivity). lia. }
    destruct (relative_error_N_FLT_ex radix2 (-149) 24 ltac:(lia) (fun x => negb (Z.even x)) (cnt c))
      as (d & Hd & Hr).
    { rewrite Rabs_pos_eq by exact H0. eapply Rle_trans; [|exact H1].
      change 1 with (bpow radix2 0). apply bpow_le. lia. }
    exists d. split.
    + assert (H2 : / 2 = bpow radix2 (-1)) by (simpl; lra).
      rewrite H2, <- bpow_plus in Hd. exact Hd.
    + rewrite HR. exact Hr.
Qed.

Lemma of_Z_count_nonneg (c : N) : (c < 2 ^ 32)%N -> 0 <= B2R (F32.of_Z (Z.of_N c)).
Proof.
  intros Hc. destruct (of_Z_count c Hc) as (_ & d & Hd & HR). rewrite HR.
  pose proof u32_lt_1. apply Rabs_le_inv in Hd.
  apply Rmult_le_pos; [apply cnt_nonneg|lra].
Qed.

(* ---------- Goal B: one cell, count + pseudocount ---------- *)

Definition cellf (c : N) (p : F32.t) : F32.t := F32.add (F32.of_Z (Z.of_N c)) p.
Definition cellX (c : N) (p : F32.t) : R := cnt c + B2R p.

Lemma scale_bounds (y Y d u : R) :
  0 <= Y -> 0 < u < 1 -> Rabs d <= u ->
  Y * (1 - u) <= y <= Y * (1 + u) ->
  Y * (1 - u) ^ 2 <= y * (1 + d) <= Y * (1 + u) ^ 2.
Proof.
  intros HY [Hu Hu1] Hd [L U]. apply Rabs_le_inv in Hd.
  assert (Hy : 0 <= y). { eapply Rle_trans; [|exact L]. apply Rmult_le_pos; lra. }
  split.
  - replace (Y * (1 - u) ^ 2) with (Y * (1 - u) * (1 - u)) by ring.
    apply Rmult_le_compat; try lra. apply Rmult_le_pos; lra.
  - replace (Y * (1 + u) ^ 2) with (Y * (1 + u) * (1 + u)) by ring.
    apply Rmult_le_compat; lra.
Qed.

Lemma cell_bounds (c : N) (p : F32.t) :
  (c < 2 ^ 32)%N -> 0 <= B2R p ->
  fin (cellf c p) = true ->
  cellX c p * (1 - u32) ^ 2 <= B2R (cellf c p) <= cellX c p * (1 + u32) ^ 2.
Proof.
  intros Hc Hp Hfin. unfold cellf in *.
  pose proof u32_pos as Hu. pose proof u32_lt_1 as Hu1.
  destruct (of_Z_count c Hc) as (_ & d1 & Hd1 & HR1).
  destruct (add_rel_err _ _ Hfin) as (d2 & Hd2 & HR2).
  rewrite HR2.
  pose proof (cnt_nonneg c) as HC.
  apply scale_bounds; try assumption.
  - unfold cellX. lra.
  - lra.
  - unfold cellX. apply (step_bounds (cnt c) _ (B2R p) d1 u32); try assumption. lra.
Qed.

Lemma cell_nonneg (c : N) (p : F32.t) :
  (c < 2 ^ 32)%N -> 0 <= B2R p -> fin (cellf c p) = true -> 0 <= B2R (cellf c p).
Proof.
  intros Hc Hp Hfin. destruct (cell_bounds c p Hc Hp Hfin) as [L _].
  eapply Rle_trans; [|exact L].
  apply Rmult_le_pos; [unfold cellX; pose proof (cnt_nonneg c); lra|].
  apply pow_le. pose proof u32_lt_1. lra.
Qed.

(* the same as a relative error *)
Lemma cell_rel_err (c : N) (p : F32.t) :
  (c < 2 ^ 32)%N -> 0 <= B2R p -> fin (cellf c p) = true ->
  exists t, Rabs t <= (1 + u32) ^ 2 - 1 /\ B2R (cellf c p) = cellX c p * (1 + t).
Proof.
  intros Hc Hp Hfin. destruct (cell_bounds c p Hc Hp Hfin) as [L U].
  pose proof u32_pos as Hu. pose proof u32_lt_1 as Hu1.
  assert (HX : 0 <= cellX c p) by (unfold cellX; pose proof (cnt_nonneg c); lra).
  destruct (Req_dec (cellX c p) 0) as [Hz|Hnz].
  - exists 0. rewrite Hz in *. split; [rewrite Rabs_R0; nra|]. lra.
  - assert (HXp : 0 < cellX c p) by lra.
    exists (B2R (cellf c p) / cellX c p - 1). split; [|field; exact Hnz].
    set (q := B2R (cellf c p) / cellX c p).
    assert (Hq : B2R (cellf c p) = q * cellX c p) by (unfold q; field; exact Hnz).
    rewrite Hq in L, U.
    assert (L' : (1 - u32) ^ 2 <= q).
    { apply (Rmult_le_reg_r (cellX c p)); [exact HXp|]. lra. }
    assert (U' : q <= (1 + u32) ^ 2).
    { apply (Rmult_le_reg_r (cellX c p)); [exact HXp|]. lra. }
    apply Rabs_le. split; nra.
Qed.

(* ---------- Goal C: per-cell frequency error ---------- *)

Definition G (n : nat) : R := / (1 - u32) ^ (n + 5) - 1.

Lemma quot_real (X T x s q d e eta : R) (m : nat) :
  0 <= X -> 0 < T -> 0 < s ->
  X * (1 - u32) ^ 2 <= x <= X * (1 + u32) ^ 2 ->
  T * (1 - u32) ^ m <= s <= T * (1 + u32) ^ m ->
  Rabs d <= u32 -> Rabs e <= eta ->
  q = x / s * (1 + d) + e ->
  Rabs (q - X / T) <= (/ (1 - u32) ^ (m + 3) - 1) * (X / T) + eta.
Proof.
  intros HX HT Hs [xL xU] [sL sU] Hd He Hq.
  pose proof u32_pos as Hu. pose proof u32_lt_1 as Hu1.
  set (A := 1 - u32) in *. set (B := 1 + u32) in *.
  assert (HA : 0 < A) by (unfold A; lra). assert (HB : 0 < B) by (unfold B; lra).
  assert (PAm : 0 < A ^ m) by (apply pow_lt; exact HA).
  assert (PBm : 0 < B ^ m) by (apply pow_lt; exact HB).
  assert (PA2 : 0 < A ^ 2) by (apply pow_lt; exact HA).
  assert (PB2 : 0 < B ^ 2) by (apply pow_lt; exact HB).
  assert (PA3 : 0 < A ^ 3) by (apply pow_lt; exact HA).
  assert (HABm : A ^ m * B ^ m <= 1) by apply pow_prod_le_1.
  assert (HAB3 : A ^ 3 * B ^ 3 <= 1) by apply pow_prod_le_1.
  set (K := A ^ (m + 3)).
  assert (HK : 0 < K) by (apply pow_lt; exact HA).
  assert (HKe : K = A ^ m * A ^ 3) by (unfold K; apply pow_add).
  set (r := X / T).
  assert (Hr : 0 <= r).
  { unfold r, Rdiv. apply Rmult_le_pos; [exact HX|]. left. apply Rinv_0_lt_compat. exact HT. }
  apply Rabs_le_inv in Hd.
  assert (Hx0 : 0 <= x). { eapply Rle_trans; [|exact xL]. apply Rmult_le_pos; lra. }
  assert (His : 0 < / s) by (apply Rinv_0_lt_compat; exact Hs).
  assert (HTA : 0 < T * A ^ m) by (apply Rmult_lt_0_compat; assumption).
  assert (HTB : 0 < T * B ^ m) by (apply Rmult_lt_0_compat; assumption).
  assert (Iup : / s <= / (T * A ^ m)) by (apply Rinv_le_contravar; assumption).
  assert (Ilo : / (T * B ^ m) <= / s) by (apply Rinv_le_contravar; assumption).
  assert (IB : 0 < / (T * B ^ m)) by (apply Rinv_0_lt_compat; exact HTB).
  set (w := x / s).
  assert (Hw0 : 0 <= w) by (unfold w, Rdiv; apply Rmult_le_pos; lra).
  assert (U1 : w <= X * B ^ 2 * / (T * A ^ m)).
  { unfold w, Rdiv. apply Rmult_le_compat; lra. }
  assert (L1 : X * A ^ 2 * / (T * B ^ m) <= w).
  { unfold w, Rdiv. apply Rmult_le_compat; try lra. apply Rmult_le_pos; lra. }
  assert (U2 : w * (1 + d) <= r * / K).
  { apply Rle_trans with (w * B); [apply Rmult_le_compat_l; unfold B; lra|].
    apply Rle_trans with (X * B ^ 2 * / (T * A ^ m) * B); [apply Rmult_le_compat_r; lra|].
    replace (X * B ^ 2 * / (T * A ^ m) * B) with (r * / K * (A ^ 3 * B ^ 3))
      by (unfold r; rewrite HKe; field; repeat split; lra).
    rewrite <- (Rmult_1_r (r * / K)) at 2.
    apply Rmult_le_compat_l; [|exact HAB3].
    apply Rmult_le_pos; [exact Hr|]. left. apply Rinv_0_lt_compat. exact HK. }
  assert (L2 : r * K <= w * (1 + d)).
  { apply Rle_trans with (w * A); [|apply Rmult_le_compat_l; unfold A; lra].
    apply Rle_trans with (X * A ^ 2 * / (T * B ^ m) * A); [|apply Rmult_le_compat_r; lra].
    replace (X * A ^ 2 * / (T * B ^ m) * A) with (r * A ^ 3 * / B ^ m)
      by (unfold r; field; repeat split; lra).
    rewrite HKe. replace (r * (A ^ m * A ^ 3)) with (r * A ^ 3 * A ^ m) by ring.
    apply Rmult_le_compat_l; [apply Rmult_le_pos; lra|].
    apply (Rmult_le_reg_r (B ^ m)); [exact PBm|].
    rewrite Rinv_l by lra. exact HABm. }
  pose proof (inv_sym_bound K HK) as Hsym.
  assert (Hsym' : r * (1 - K) <= r * (/ K - 1)) by (apply Rmult_le_compat_l; assumption).
  apply Rabs_le_inv in He.
  rewrite Hq. fold w. fold r. fold K.
  apply Rabs_le. split; lra.
Qed.

Lemma fold_add_fin_all (l : list F32.t) : forall acc,
  fin (fold_left F32.add l acc) = true -> Forall (fun x => fin x = true) l.
Proof.
  induction l as [|x r IH]; intros acc H; [constructor|].
  cbn [fold_left] in H. constructor.
  - apply fold_add_fin in H. apply add_fin_inv in H. tauto.
  - exact (IH _ H).
Qed.

Definition u32count (c : N) : Prop := (c < 2 ^ 32)%N.

Lemma cells_bounds : forall (row : list N) (pseudo : list F32.t),
  Forall u32count row -> Forall okcell pseudo ->
  Forall (fun x => fin x = true) (map2 cellf row pseudo) ->
  Forall okcell (map2 cellf row pseudo) /\
  Forall (fun x => 0 <= x) (map2 cellX row pseudo) /\
  Rsum (map2 cellX row pseudo) * (1 - u32) ^ 2
    <= Rsum (map B2R (map2 cellf row pseudo))
    <= Rsum (map2 cellX row pseudo) * (1 + u32) ^ 2.
Proof.
  induction row as [|c row IH]; intros [|p pseudo] Hc Hp Hf; cbn [map2 map Rsum fold_right];
    try (split; [constructor|split; [constructor|lra]]).
  inversion Hc as [|c' r' Hc1 Hc2]; subst c' r'.
  inversion Hp as [|p' r' [Fp Hp1] Hp2]; subst p' r'.
  cbn [map2] in Hf. inversion Hf as [|x' r' Hf1 Hf2]; subst x' r'.
  destruct (IH pseudo Hc2 Hp2 Hf2) as (I1 & I2 & I3 & I4).
  pose proof (cell_bounds c p Hc1 Hp1 Hf1) as [L U].
  pose proof (cell_nonneg c p Hc1 Hp1 Hf1) as H0.
  split; [constructor; [split; assumption|exact I1]|].
  split; [constructor; [unfold cellX; pose proof (cnt_nonneg c); lra|exact I2]|].
  fold (Rsum (map2 cellX row pseudo)). fold (Rsum (map B2R (map2 cellf row pseudo))).
  split; lra.
Qed.

Lemma nth_le_Rsum : forall (l : list R) k,
  Forall (fun x => 0 <= x) l -> (k < length l)%nat -> nth k l 0 <= Rsum l.
Proof.
  induction l as [|x r IH]; intros k H Hk; [cbn in Hk; lia|].
  inversion H as [|x' r' Hx Hr]; subst x' r'.
  pose proof (Rsum_nonneg r Hr) as Hs.
  cbn [Rsum fold_right]. fold (Rsum r).
  destruct k as [|k]; cbn [nth].
  - lra.
  - cbn [length] in Hk. specialize (IH k Hr ltac:(lia)). lra.
Qed.

Section Row.
  Variables (pseudo : list F32.t) (row : list N).
  Hypothesis Hrow : Forall u32count row.
  Hypothesis Hpseudo : Forall okcell pseudo.

  Let dst := map2 cellf row pseudo.
  Let s := fsum F32ops dst.
  Let T := Rsum (map2 cellX row pseudo).
  Let n := length dst.

  Hypothesis Fs : fin s = true.

  Lemma dst_fin : Forall (fun x => fin x = true) dst.
  Proof. exact (fold_add_fin_all dst F32.nzero Fs). Qed.

  Lemma dst_ok : Forall okcell dst.
  Proof. exact (proj1 (cells_bounds row pseudo Hrow Hpseudo dst_fin)). Qed.

  Lemma T_nonneg : 0 <= T.
  Proof.
    apply Rsum_nonneg. exact (proj1 (proj2 (cells_bounds row pseudo Hrow Hpseudo dst_fin))).
  Qed.

  Lemma fsum_dst_bounds :
    T * (1 - u32) ^ (n + 2) <= B2R s <= T * (1 + u32) ^ (n + 2).
  Proof.
    pose proof u32_pos as Hu. pose proof u32_lt_1 as Hu1.
    destruct (cells_bounds row pseudo Hrow Hpseudo dst_fin) as (_ & _ & SL & SU).
    fold dst in SL, SU. fold T in SL, SU.
    assert (H0 : 0 <= B2R F32.nzero) by (cbn; lra).
    pose proof (fold_add_bounds dst F32.nzero dst_ok H0 Fs) as HB. cbn zeta in HB.
    change (fold_left F32.add dst F32.nzero) with s in HB.
    change (B2R F32.nzero) with 0 in HB. rewrite Rplus_0_l in HB. fold n in HB.
    destruct HB as [BL BU].
    assert (P1 : 0 <= (1 - u32) ^ n) by (apply pow_le; lra).
    assert (P2 : 0 <= (1 + u32) ^ n) by (apply pow_le; lra).
    rewrite !pow_add. split.
    - eapply Rle_trans; [|exact BL].
      replace (T * ((1 - u32) ^ n * (1 - u32) ^ 2)) with (T * (1 - u32) ^ 2 * (1 - u32) ^ n) by ring.
      apply Rmult_le_compat_r; assumption.
    - eapply Rle_trans; [exact BU|].
      replace (T * ((1 + u32) ^ n * (1 + u32) ^ 2)) with (T * (1 + u32) ^ 2 * (1 + u32) ^ n) by ring.
      apply Rmult_le_compat_r; assumption.
  Qed.

  (* the computed total is positive exactly when the exact total is *)
  Lemma fsum_dst_pos_iff : 0 < B2R s <-> 0 < T.
  Proof.
    pose proof u32_pos as Hu. pose proof u32_lt_1 as Hu1.
    destruct fsum_dst_bounds as [L U]. pose proof T_nonneg as HT.
    assert (P1 : 0 < (1 - u32) ^ (n + 2)) by (apply pow_lt; lra).
    assert (P2 : 0 < (1 + u32) ^ (n + 2)) by (apply pow_lt; lra).
    split; intros H.
    - destruct HT as [HT|HT]; [exact HT|]. rewrite <- HT in U. lra.
    - eapply Rlt_le_trans; [|exact L]. apply Rmult_lt_0_compat; assumption.
  Qed.

  Hypothesis Fq : Forall (fun x => fin x = true) (to_freq_row F32ops pseudo row).
  Hypothesis Tpos : 0 < T.

  Theorem freq_cell_error (k : nat) :
    (k < length row)%nat -> (k < length pseudo)%nat ->
    let X := cellX (nth k row 0%N) (nth k pseudo F32.zero) in
    Rabs (B2R (nth k (to_freq_row F32ops pseudo row) F32.zero) - X / T)
    <= G n * (X / T) + eta32.
  Proof.
    intros Hk1 Hk2 X.
    assert (Hs : 0 < B2R s) by (apply fsum_dst_pos_iff; exact Tpos).
    change (to_freq_row F32ops pseudo row) with (map (fun x => F32.div x s) dst) in *.
    assert (Hkd : (k < length dst)%nat) by (unfold dst; rewrite map2_length'; lia).
    rewrite (nth_indep _ F32.zero (F32.div F32.zero s)) by (rewrite map_length; exact Hkd).
    rewrite (map_nth (fun x => F32.div x s)).
    assert (Hx : nth k dst F32.zero = cellf (nth k row 0%N) (nth k pseudo F32.zero)).
    { unfold dst. apply nth_map2'; assumption. }
    set (c := nth k row 0%N) in *. set (p := nth k pseudo F32.zero) in *.
    rewrite Hx.
    assert (Fx : fin (cellf c p) = true).
    { rewrite <- Hx. pose proof dst_fin as HF. rewrite Forall_forall in HF. apply HF. apply nth_In. exact Hkd. }
    assert (Fd : fin (F32.div (cellf c p) s) = true).
    { rewrite Forall_forall in Fq. apply Fq. rewrite <- Hx.
      apply (in_map (fun x => F32.div x s)). apply nth_In. exact Hkd. }
    assert (Hc : u32count c). { rewrite Forall_forall in Hrow. apply Hrow. apply nth_In. exact Hk1. }
    assert (Hp : okcell p). { rewrite Forall_forall in Hpseudo. apply Hpseudo. apply nth_In. exact Hk2. }
    destruct Hp as [_ Hp].
    rewrite (div_finite_R _ s Hs Fd).
    destruct (rnd32_err (B2R (cellf c p) / B2R s)) as (d & e & Hd & He & Hr).
    unfold G. replace (n + 5)%nat with ((n + 2) + 3)%nat by lia.
    apply (quot_real X T (B2R (cellf c p)) (B2R s) _ d e eta32 (n + 2)).
    - unfold X, cellX. pose proof (cnt_nonneg c). lra.
    - exact Tpos.
    - exact Hs.
    - apply cell_bounds; assumption.
    - exact fsum_dst_bounds.
    - exact Hd.
    - exact He.
    - exact Hr.
  Qed.

  Lemma cellX_le_T (k : nat) :
    (k < length row)%nat -> (k < length pseudo)%nat ->
    0 <= cellX (nth k row 0%N) (nth k pseudo F32.zero) / T <= 1.
  Proof.
    intros Hk1 Hk2.
    destruct (cells_bounds row pseudo Hrow Hpseudo dst_fin) as (_ & HX & _).
    assert (Hkd : (k < length (map2 cellX row pseudo))%nat) by (rewrite map2_length'; lia).
    pose proof (nth_le_Rsum _ k HX Hkd) as H. fold T in H.
    rewrite (nth_map2' cellX row pseudo k 0 0%N F32.zero Hk1 Hk2) in H.
    assert (HX0 : 0 <= cellX (nth k row 0%N) (nth k pseudo F32.zero)).
    { rewrite Forall_forall in HX.
      rewrite <- (nth_map2' cellX row pseudo k 0 0%N F32.zero Hk1 Hk2). apply HX. apply nth_In. exact Hkd. }
    set (X := cellX (nth k row 0%N) (nth k pseudo F32.zero)) in *.
    split.
    - unfold Rdiv. apply Rmult_le_pos; [exact HX0|]. left. apply Rinv_0_lt_compat. exact Tpos.
    - apply (Rmult_le_reg_r T); [exact Tpos|]. unfold Rdiv. rewrite Rmult_assoc, Rinv_l by lra. lra.
  Qed.
End Row.

(* Goal C in unfolded form, with the hypothesis on the computed total *)
Theorem freq_cell_error_unfolded (pseudo : list F32.t) (row : list N) :
  Forall (fun c => (c < 2 ^ 32)%N) row ->
  Forall (fun p => fin p = true /\ 0 <= B2R p) pseudo ->
  let dst := map2 (fun x p => F32.add (F32.of_Z (Z.of_N x)) p) row pseudo in
  let s := fsum F32ops dst in
  fin s = true -> 0 < B2R s ->
  Forall (fun x => fin x = true) (to_freq_row F32ops pseudo row) ->
  let T := Rsum (map2 (fun c p => IZR (Z.of_N c) + B2R p) row pseudo) in
  0 < T /\
  forall k, (k < length row)%nat -> (k < length pseudo)%nat ->
    let X := IZR (Z.of_N (nth k row 0%N)) + B2R (nth k pseudo F32.zero) in
    Rabs (B2R (nth k (to_freq_row F32ops pseudo row) F32.zero) - X / T)
    <= G (length dst) * (X / T) + eta32.
Proof.
  intros Hrow Hps dst s Fs Hs Fq T.
  assert (HT : 0 < T) by (apply (fsum_dst_pos_iff pseudo row Hrow Hps Fs); exact Hs).
  split; [exact HT|].
  intros k Hk1 Hk2.
  exact (freq_cell_error pseudo row Hrow Hps Fs Fq HT k Hk1 Hk2).
Qed.

(* ---------- Goal D: numeric bound ---------- *)

Lemma G_nonneg (n : nat) : 0 <= G n.
Proof.
  unfold G. pose proof u32_pos as Hu. pose proof u32_lt_1 as Hu1.
  pose proof (pow_1mu_pos (n + 5)) as HP.
  assert (Hq : (1 - u32) ^ (n + 5) <= 1 ^ (n + 5)) by (apply pow_incr; lra).
  rewrite pow1 in Hq.
  assert (/ 1 <= / (1 - u32) ^ (n + 5)) by (apply Rinv_le_contravar; assumption).
  rewrite Rinv_1 in *. lra.
Qed.

Lemma G_small (n : nat) : (n <= 21)%nat -> G n + eta32 <= / 100000.
Proof.
  intros Hn. unfold G.
  pose proof (bernoulli_1mu (n + 5)) as HB.
  pose proof u32_pos as Hu.
  assert (HI : INR (n + 5) <= 26).
  { replace 26 with (INR 26) by (simpl; lra). apply le_INR. lia. }
  assert (HL : 1 - 26 * u32 <= (1 - u32) ^ (n + 5)).
  { eapply Rle_trans; [|exact HB]. assert (INR (n + 5) * u32 <= 26 * u32) by (apply Rmult_le_compat_r; lra). lra. }
  assert (Hpos : 0 < 1 - 26 * u32) by (rewrite u32_val; lra).
  assert (Hi : / (1 - u32) ^ (n + 5) <= / (1 - 26 * u32)).
  { apply Rinv_le_contravar; [exact Hpos|exact HL]. }
  eapply Rle_trans; [apply Rplus_le_compat_r, Rplus_le_compat_r, Hi|].
  rewrite u32_val, eta32_val.
  apply (Rmult_le_reg_r (1 - 26 * / 16777216)); [lra|].
  rewrite !Rmult_plus_distr_r, Rinv_l by lra.
  lra.
Qed.

(* ---------- Goal E: the model passes the extracted check ---------- *)

Lemma Q2R_fold_Qplus (l : list Q) : forall acc,
  Q2R (fold_left Qplus l acc) = Q2R acc + Rsum (map Q2R l).
Proof.
  induction l as [|x r IH]; intros acc; cbn [fold_left map Rsum fold_right]; [lra|].
  rewrite IH, Q2R_plus. fold (Rsum (map Q2R r)). lra.
Qed.

Lemma Q2R_Qsum (l : list Q) : Q2R (Qsum l) = Rsum (map Q2R l).
Proof. unfold Qsum. rewrite Q2R_fold_Qplus, Q2R_0'. lra. Qed.

Lemma Q2R_int (z : Z) : Q2R (z # 1) = IZR z.
Proof. unfold Q2R. cbn [Qnum Qden]. lra. Qed.

Lemma Q2R_1' : Q2R 1 = 1.
Proof. unfold Q2R. cbn [Qnum Qden]. lra. Qed.

Lemma all_some_f32 (l : list F32.t) :
  Forall (fun x => fin x = true) l ->
  exists q, all_some (map f32_to_Q l) = Some q /\ map Q2R q = map B2R l.
Proof.
  induction 1 as [|x r Hx _ (q & Eq & Rq)].
  - exists []. split; reflexivity.
  - destruct (f32_to_Q_total x Hx) as [qx Ex].
    exists (qx :: q). cbn [map all_some]. rewrite Ex, Eq. split; [reflexivity|].
    apply f32_to_Q_B2R in Ex. destruct Ex as [Ex _]. rewrite Ex, Rq. reflexivity.
Qed.

Lemma Q2R_num : forall (row : list N) (p : list Q) (pseudo : list F32.t),
  map Q2R p = map B2R pseudo ->
  map Q2R (map2 (fun c x => (Z.of_N c # 1) + x)%Q row p) = map2 cellX row pseudo.
Proof.
  induction row as [|c row IH]; intros [|x p] [|y pseudo] H; cbn [map map2] in *;
    try reflexivity; try discriminate.
  inversion H as [[H1 H2]]. rewrite (IH p pseudo H2).
  rewrite Q2R_plus, Q2R_int, H1. reflexivity.
Qed.

Theorem freq_row_model_passes_check (pseudo : list F32.t) (row : list N) :
  length pseudo = length row -> (length row <= 21)%nat ->
  Forall (fun c => (c < 2 ^ 32)%N) row ->
  Forall (fun p => fin p = true /\ 0 <= B2R p) pseudo ->
  let dst := map2 (fun x p => F32.add (F32.of_Z (Z.of_N x)) p) row pseudo in
  let s := fsum F32ops dst in
  fin s = true ->
  Forall (fun x => fin x = true) (to_freq_row F32ops pseudo row) ->
  check_freq_row (1 # 100000) pseudo row (to_freq_row F32ops pseudo row) = true.
Proof.
  intros Hlen Hn Hrow Hps dst s Fs Fq.
  change (fin (fsum F32ops (map2 cellf row pseudo)) = true) in Fs.
  change (Forall u32count row) in Hrow. change (Forall okcell pseudo) in Hps.
  clear s dst.
  destruct (all_some_f32 pseudo) as (p & Ep & Rp).
  { eapply Forall_impl; [|exact Hps]. intros a [Ha _]. exact Ha. }
  destruct (all_some_f32 _ Fq) as (o & Eo & Ro).
  unfold check_freq_row. rewrite Ep, Eo.
  destruct (forallb (fun x : Q => Qleb 0 x) p); [|reflexivity].
  cbv zeta.
  set (num := map2 (fun c x => (Z.of_N c # 1) + x)%Q row p).
  set (tot := Qsum num).
  set (T := Rsum (map2 cellX row pseudo)).
  assert (Rnum : map Q2R num = map2 cellX row pseudo) by (apply Q2R_num; exact Rp).
  assert (Rtot : Q2R tot = T) by (unfold tot; rewrite Q2R_Qsum, Rnum; reflexivity).
  destruct (Qeq_bool tot 0) eqn:Ez; [reflexivity|]. cbn [orb].
  destruct (negb (Qleb tot (2 ^ 100 # 1))); [reflexivity|].
  assert (Tne : ~ (tot == 0)%Q).
  { intros H. apply Qeq_bool_iff in H. rewrite H in Ez. discriminate. }
  assert (Tpos : 0 < T).
  { pose proof (T_nonneg pseudo row Hrow Hps Fs) as H0. fold T in H0.
    destruct H0 as [H0|H0]; [exact H0|]. exfalso. apply Tne. apply eqR_Qeq.
    rewrite Rtot, Q2R_0'. symmetry. exact H0. }
  assert (Hne : (1 <= length row)%nat).
  { destruct row; [cbn in Tpos; lra|cbn; lia]. }
  assert (Hs : 0 < B2R (fsum F32ops (map2 cellf row pseudo))).
  { apply (fsum_dst_pos_iff pseudo row Hrow Hps Fs). exact Tpos. }
  assert (Lp : length p = length pseudo).
  { apply (f_equal (@length R)) in Rp. rewrite !map_length in Rp. exact Rp. }
  assert (Lobs : length (to_freq_row F32ops pseudo row) = length row).
  { change (to_freq_row F32ops pseudo row)
      with (map (fun x => F32.div x (fsum F32ops (map2 cellf row pseudo))) (map2 cellf row pseudo)).
    rewrite map_length, map2_length'. lia. }
  assert (Lo : length o = length row).
  { rewrite <- Lobs. apply (f_equal (@length R)) in Ro. rewrite !map_length in Ro. exact Ro. }
  assert (Lnum : length num = length row).
  { unfold num. rewrite map2_length'. lia. }
  assert (Ld : length (map2 cellf row pseudo) = length row) by (rewrite map2_length'; lia).
  assert (Heps : Q2R (1 # 100000) = / 100000) by (unfold Q2R; cbn [Qnum Qden]; lra).
  apply andb_true_intro. split; [apply andb_true_intro; split|].
  - apply Nat.eqb_eq. lia.
  - apply (forallb_id_map2_intro _ o num 0%Q 0%Q). intros k Hk1 Hk2.
    unfold Qleb. apply Qle_bool_iff. apply Rle_Qle.
    rewrite Q2R_abs, Q2R_minus, Q2R_div by exact Tne.
    assert (Ho : Q2R (nth k o 0%Q) = B2R (nth k (to_freq_row F32ops pseudo row) F32.zero)).
    { rewrite <- (map_nth Q2R), Ro.
      rewrite (nth_indep _ (Q2R 0) (B2R F32.zero)) by (rewrite map_length; change (k < length (to_freq_row F32ops pseudo row))%nat; rewrite Lobs; lia).
      apply map_nth. }
    assert (Hx : Q2R (nth k num 0%Q) = cellX (nth k row 0%N) (nth k pseudo F32.zero)).
    { rewrite <- (map_nth Q2R), Rnum. apply nth_map2'; lia. }
    rewrite Ho, Hx, Rtot, Heps.
    pose proof (freq_cell_error pseudo row Hrow Hps Fs Fq Tpos k ltac:(lia) ltac:(lia)) as HC.
    cbv zeta in HC. fold T in HC.
    pose proof (cellX_le_T pseudo row Hrow Hps Fs Tpos k ltac:(lia) ltac:(lia)) as [R0 R1].
    fold T in R0, R1.
    eapply Rle_trans; [exact HC|].
    rewrite Ld.
    pose proof (G_small (length row) Hn) as HG. pose proof (G_nonneg (length row)) as HG0.
    set (r := cellX (nth k row 0%N) (nth k pseudo F32.zero) / T) in *.
    assert (G (length row) * r <= G (length row) * 1) by (apply Rmult_le_compat_l; assumption).
    lra.
  - unfold Qleb. apply Qle_bool_iff. apply Rle_Qle.
    rewrite Q2R_abs, Q2R_minus, Q2R_Qsum, Ro, Q2R_1', Q2R_mult, Q2R_int, Heps, Lo.
    rewrite <- INR_IZR_INZ.
    pose proof (to_freq_row_sum_f32 pseudo row (dst_ok pseudo row Hrow Hps Fs) Fs Hs Fq) as HS.
    eapply Rle_trans; [exact HS|].
    change (length (map2 (fun x p0 => F32.add (F32.of_Z (Z.of_N x)) p0) row pseudo))
      with (length (map2 cellf row pseudo)).
    rewrite Ld.
    eapply Rle_trans; [apply E_small; exact Hn|].
    rewrite bpow_m19_val.
    assert (1 <= INR (length row)) by (replace 1 with (INR 1) by reflexivity; apply le_INR; exact Hne).
    lra.
Qed.

Print Assumptions of_Z_count.
Print Assumptions cell_rel_err.
Print Assumptions freq_cell_error.
Print Assumptions freq_cell_error_unfolded.
Print Assumptions freq_row_model_passes_check.
