(* Soundness of the extracted checkers of PwmCheck.v: what a [true] verdict states.
   (check_counts_sound is in PwmProofs.v.)  The rational value [f32_to_Q x] of a
   binary32 number is its real value (PwmF32Rescale.f32_to_Q_B2R). *)
From Coq Require Import List ZArith NArith Bool Arith Lia QArith Qabs.
From Flocq Require Import Core BinarySingleNaN Binary Bits.
From LMBase Require Import Res ListX IEEE.
From LMPwm Require Import GenComplement PwmModel PwmCheck PwmProofs.
Import ListNotations.
Local Open Scope nat_scope.

(* ---------- bit patterns identify binary32 values (one NaN) ---------- *)

Lemma f32_to_bits_inj (a b : F32.t) : F32.to_bits a = F32.to_bits b -> a = b.
Proof.
  unfold F32.to_bits, f32_to_bits. intros H.
  apply (f_equal b32_of_bits) in H.
  unfold b32_of_bits, bits_of_b32 in H.
  rewrite !binary_float_of_bits_of_binary_float in H.
  apply (f_equal (B2BSN 24 128)) in H. rewrite !B2BSN_BSN2B in H. exact H.
Qed.

Lemma f32_same_eq (a b : F32.t) : f32_same a b = true <-> a = b.
Proof.
  unfold f32_same. rewrite Z.eqb_eq. split; [apply f32_to_bits_inj | intros ->; reflexivity].
Qed.

Lemma fm_same_eq (m1 m2 : list (list F32.t)) : fm_same m1 m2 = true <-> m1 = m2.
Proof. apply list_same_eq. intros a b. apply list_same_eq. exact f32_same_eq. Qed.

Lemma row_same_eq (a b : list F32.t) : row_same a b = true <-> a = b.
Proof. apply list_same_eq. exact f32_same_eq. Qed.

(* ---------- C10: reverse complement ---------- *)

Lemma check_rc_f32_sound m obs : check_rc_f32 m obs = true -> obs = rc_spec F32.zero dna_K dna_comp m.
Proof. unfold check_rc_f32. apply fm_same_eq. Qed.

Lemma check_rc_N_sound m obs : check_rc_N m obs = true -> obs = rc_spec 0%N dna_K dna_comp m.
Proof. unfold check_rc_N. apply cm_same_eq. Qed.

Lemma strand_symmetric_sound l : strand_symmetric l = true -> rc_row_spec F32.zero dna_K dna_comp l = l.
Proof. unfold strand_symmetric. apply row_same_eq. Qed.

(* ---------- forallb over map2 / map3 / map4 ---------- *)

Lemma forallb_id_map2 {A B} (f : A -> B -> bool) : forall l1 l2 da db k,
  forallb (fun b => b) (map2 f l1 l2) = true -> k < length l1 -> k < length l2 ->
  f (nth k l1 da) (nth k l2 db) = true.
Proof.
  induction l1 as [|a l1 IH]; intros [|b l2] da db k H H1 H2; simpl in *; try lia.
  apply andb_true_iff in H. destruct H as [Ha Hr].
  destruct k as [|k]; [exact Ha|]. apply IH; [exact Hr | lia | lia].
Qed.

Lemma forallb_id_map3 {A B C} (f : A -> B -> C -> bool) : forall l1 l2 l3 da db dc k,
  forallb (fun b => b) (map3 f l1 l2 l3) = true -> k < length l1 -> k < length l2 -> k < length l3 ->
  f (nth k l1 da) (nth k l2 db) (nth k l3 dc) = true.
Proof.
  induction l1 as [|a l1 IH]; intros [|b l2] [|c l3] da db dc k H H1 H2 H3; simpl in *; try lia.
  apply andb_true_iff in H. destruct H as [Ha Hr].
  destruct k as [|k]; [exact Ha|]. apply IH; [exact Hr | lia | lia | lia].
Qed.

Lemma forallb_id_map4 {A B C D} (f : A -> B -> C -> D -> bool) : forall l1 l2 l3 l4 da db dc dd k,
  forallb (fun b => b) (map4 f l1 l2 l3 l4) = true ->
  k < length l1 -> k < length l2 -> k < length l3 -> k < length l4 ->
  f (nth k l1 da) (nth k l2 db) (nth k l3 dc) (nth k l4 dd) = true.
Proof.
  induction l1 as [|a l1 IH]; intros [|b l2] [|c l3] [|d l4] da db dc dd k H H1 H2 H3 H4; simpl in *; try lia.
  apply andb_true_iff in H. destruct H as [Ha Hr].
  destruct k as [|k]; [exact Ha|]. apply IH; [exact Hr | lia | lia | lia | lia].
Qed.

Lemma Qleb_le a b : Qleb a b = true <-> (a <= b)%Q.
Proof. unfold Qleb. apply Qle_bool_iff. Qed.

(* ---------- C09: weights ---------- *)

(* a background that compares equal to 0.0 gives a weight equal to 0.0; otherwise
   |w * bg - f| <= rel |f| + tiny on the exact values (when all three are finite) *)
Lemma check_weight_cell_sound rel tiny f bg w :
  check_weight_cell rel tiny f bg w = true ->
  (F32.eq bg F32.zero = true -> F32.eq w F32.zero = true) /\
  (F32.eq bg F32.zero = false -> forall qf qb qw,
     f32_to_Q f = Some qf -> f32_to_Q bg = Some qb -> f32_to_Q w = Some qw ->
     (Qabs (qw * qb - qf) <= rel * Qabs qf + tiny)%Q).
Proof.
  unfold check_weight_cell. intros H. destruct (F32.eq bg F32.zero).
  - split; [intros _; exact H | discriminate].
  - split; [discriminate|]. intros _ qf qb qw E1 E2 E3. rewrite E1, E2, E3 in H.
    apply Qleb_le. exact H.
Qed.

Lemma check_weight_sound rel tiny bg fq wm :
  check_weight rel tiny bg fq wm = true ->
  length fq = length wm /\
  forall i k, i < length fq -> k < length bg ->
    length (nth i fq []) = length bg /\ length (nth i wm []) = length bg /\
    check_weight_cell rel tiny (nth k (nth i fq []) F32.zero) (nth k bg F32.zero)
                      (nth k (nth i wm []) F32.zero) = true.
Proof.
  unfold check_weight. intros H. apply andb_true_iff in H. destruct H as [Hl H].
  apply Nat.eqb_eq in Hl. split; [exact Hl|]. intros i k Hi Hk.
  pose proof (forallb_id_map2 _ fq wm [] [] i H Hi ltac:(lia)) as Hrow. cbv beta in Hrow.
  apply andb_true_iff in Hrow. destruct Hrow as [Hlen Hc].
  apply andb_true_iff in Hlen. destruct Hlen as [L1 L2].
  apply Nat.eqb_eq in L1. apply Nat.eqb_eq in L2.
  split; [exact L2|]. split; [lia|].
  apply (forallb_id_map3 _ _ _ _ F32.zero F32.zero F32.zero k Hc); lia.
Qed.

(* rescale: 0.0 where the new background is 0.0; nothing where the old one was 0.0
   (the information is lost); otherwise |w * new - f| <= rescale_tol *)
Lemma check_rescale_cell_sound rel tiny f old new w :
  check_rescale_cell rel tiny f old new w = true ->
  (F32.eq new F32.zero = true -> F32.eq w F32.zero = true) /\
  (F32.eq new F32.zero = false -> F32.eq old F32.zero = false -> forall qf qo qn qw,
     f32_to_Q f = Some qf -> f32_to_Q old = Some qo -> f32_to_Q new = Some qn -> f32_to_Q w = Some qw ->
     (Qabs (qw * qn - qf) <= rel * Qabs qf + (Qabs qf / Qabs qo) * Qabs qn * (1 # (2 ^ 149)) + tiny)%Q).
Proof.
  unfold check_rescale_cell. intros H. destruct (F32.eq new F32.zero).
  - split; [intros _; exact H | discriminate].
  - split; [discriminate|]. intros _ Ho qf qo qn qw E1 E2 E3 E4.
    rewrite Ho, E1, E2, E3, E4 in H. apply Qleb_le in H. exact H.
Qed.

Lemma check_rescale_sound rel tiny old new fq rs :
  check_rescale rel tiny old new fq rs = true ->
  length fq = length rs /\
  forall i k, i < length fq -> k < length old ->
    length (nth i fq []) = length old /\ length (nth i rs []) = length old /\ length new = length old /\
    check_rescale_cell rel tiny (nth k (nth i fq []) F32.zero) (nth k old F32.zero) (nth k new F32.zero)
                       (nth k (nth i rs []) F32.zero) = true.
Proof.
  unfold check_rescale. intros H. apply andb_true_iff in H. destruct H as [Hl H].
  apply Nat.eqb_eq in Hl. split; [exact Hl|]. intros i k Hi Hk.
  pose proof (forallb_id_map2 _ fq rs [] [] i H Hi ltac:(lia)) as Hrow. cbv beta in Hrow.
  apply andb_true_iff in Hrow. destruct Hrow as [Hlen Hc].
  apply andb_true_iff in Hlen. destruct Hlen as [Hlen L3].
  apply andb_true_iff in Hlen. destruct Hlen as [L1 L2].
  apply Nat.eqb_eq in L1. apply Nat.eqb_eq in L2. apply Nat.eqb_eq in L3.
  split; [exact L2|]. split; [lia|]. split; [lia|].
  apply (forallb_id_map4 _ _ _ _ _ F32.zero F32.zero F32.zero F32.zero k Hc); lia.
Qed.

(* ---------- C09: window ---------- *)

Lemma check_window_sound mn mx w :
  check_window mn mx w = true ->
  F32.is_nan mn = false -> F32.is_nan mx = false -> F32.is_nan w = false ->
  F32.le mn w = true /\ F32.le w mx = true.
Proof.
  unfold check_window. intros H N1 N2 N3. rewrite N1, N2, N3 in H. simpl in H.
  apply andb_true_iff in H. exact H.
Qed.

(* ---------- C09: backgrounds from counts ---------- *)

Lemma check_bg_counts_sound eps counts obs :
  check_bg_counts eps counts obs = true ->
  let total := fold_left N.add counts 0%N in
  if (total =? 0)%N then exists c, obs = Err c
  else exists l, obs = Ok l /\ length l = length counts /\
       forall k, k < length counts -> exists q,
         f32_to_Q (nth k l F32.zero) = Some q /\
         (Qabs (q - (Z.of_N (nth k counts 0%N) # 1) / (Z.of_N total # 1)) <= eps)%Q.
Proof.
  unfold check_bg_counts. intros H. cbv zeta.
  destruct (fold_left N.add counts 0%N =? 0)%N.
  - destruct obs; try discriminate. eexists; reflexivity.
  - destruct obs as [l| | |]; try discriminate. exists l. split; [reflexivity|].
    apply andb_true_iff in H. destruct H as [Hl H]. apply Nat.eqb_eq in Hl. split; [exact Hl|].
    intros k Hk.
    pose proof (forallb_id_map2 _ counts l 0%N F32.zero k H Hk ltac:(lia)) as Hc. cbv beta in Hc.
    destruct (f32_to_Q (nth k l F32.zero)) as [q|]; [|discriminate].
    exists q. split; [reflexivity|]. apply Qleb_le. exact Hc.
Qed.

(* ---------- C09: acceptance ---------- *)

Lemma all_some_map_nth {A B} (f : A -> option B) : forall l r, all_some (map f l) = Some r ->
  length r = length l /\ forall k da db, k < length l -> f (nth k l da) = Some (nth k r db).
Proof.
  induction l as [|a l IH]; intros r H; simpl in H.
  - inversion H; subst. split; [reflexivity|]. intros k da db Hk. simpl in Hk. lia.
  - destruct (f a) as [b|] eqn:Ea; [|discriminate].
    destruct (all_some (map f l)) as [r'|] eqn:Er; [|discriminate].
    inversion H; subst. destruct (IH r' eq_refl) as [Hl Hn]. split; [simpl; lia|].
    intros k da db Hk. destruct k as [|k]; simpl; [exact Ea|]. apply Hn. simpl in Hk. lia.
Qed.

(* an accepted background that the checker does not flag is, on its exact values, a
   distribution: every entry finite and in [0,1], the exact sum within [slack] of 1 *)
Lemma bg_must_reject_sound slack l :
  bg_must_reject slack l = false ->
  exists q, all_some (map f32_to_Q l) = Some q /\
            Forall (fun x => (0 <= x)%Q /\ (x <= 1)%Q) q /\ (Qabs (Qsum q - 1) <= slack)%Q.
Proof.
  unfold bg_must_reject. destruct (all_some (map f32_to_Q l)) as [q|]; [|discriminate].
  intros H. apply orb_false_iff in H. destruct H as [H1 H2].
  apply negb_false_iff in H1. apply negb_false_iff in H2.
  exists q. split; [reflexivity|]. split.
  - rewrite forallb_forall in H1. apply Forall_forall. intros x Hx. specialize (H1 x Hx).
    apply andb_true_iff in H1. destruct H1 as [Ha Hb]. split; apply Qleb_le; assumption.
  - apply Qleb_le. exact H2.
Qed.

(* an accepted frequency matrix that the checker does not flag has, in every row made
   of finite numbers, an exact sum within 0.01 + slack of 1, and no NaN in the other rows *)
Lemma freq_must_reject_sound slack m :
  freq_must_reject slack m = false ->
  Forall (fun row => match all_some (map f32_to_Q row) with
                     | Some q => (Qabs (Qsum q - 1) <= (1 # 100) + slack)%Q
                     | None => existsb F32.is_nan row = false
                     end) m.
Proof.
  unfold freq_must_reject. intros H.
  rewrite <- not_true_iff_false in H. rewrite existsb_exists in H.
  apply Forall_forall. intros row Hr.
  destruct (all_some (map f32_to_Q row)) as [q|] eqn:E.
  - apply Qleb_le. destruct (Qleb (Qabs (Qsum q - 1)) ((1 # 100) + slack)) eqn:Hq; [reflexivity|].
    exfalso. apply H. exists row. split; [exact Hr|]. rewrite E, Hq. reflexivity.
  - destruct (existsb F32.is_nan row) eqn:N; [|reflexivity].
    exfalso. apply H. exists row. split; [exact Hr|]. rewrite E. exact N.
Qed.

(* ---------- C10: mirrored scores ---------- *)

Lemma check_mirror_sound terms a b t x y :
  check_mirror terms a b = true ->
  existsb F32.is_nan terms = false -> F32.is_nan a = false -> F32.is_nan b = false ->
  all_some (map f32_to_Q terms) = Some t -> f32_to_Q a = Some x -> f32_to_Q b = Some y ->
  (Qabs (x - y) <= (Z.of_nat (length t) # 8388608) * Qsum (map Qabs t))%Q.
Proof.
  unfold check_mirror. intros H N1 N2 N3 E1 E2 E3.
  rewrite N1, N2, N3, E1, E2, E3 in H. simpl in H. apply Qleb_le. exact H.
Qed.
