(* Property C09, round 3 wave 3 (independent review, notes/review-round3.md, C09/1-5, top-15
   item 12, X4, X5).  Only theorem statements closed by lemmas of PwmLogProofs.v,
   PwmCheck2Sound.v and PwmF32FreqFinite.v, pins and non-vacuity examples.

   1. "each score is the logarithm of the weight in the requested base" with formal content:
      [is_log_ofR L pos x y] says that the binary32 number y is the logarithm of the binary32
      number x in the base b with ln b = L -- within 2^-20 relative of the REAL number
      ln x / ln b (Coq's [ln]) for finite x > 0, and the IEEE conventions elsewhere.  The
      extracted checkers [log_pair_ok] / [check_score_cell_real] decide it by verified
      interval arithmetic (coq-interval) and are sound; the driver applies the second to every
      OBSERVED (weight, score) cell -- no oracle in that verdict -- and the first to every entry
      of the libm oracle table used by the bit-exact model replay.
   2. what a [true] of every tolerance checker says about the observation (f32_close,
      fm_close, check_freq_row2, check_score_cell2), with the "not judged" cases named by
      extracted [*_skipped] functions that the driver counts and reports.
   3. binary32 frequencies: the finiteness hypotheses of C09_freq_*_f32 discharged; the
      non-zero-total hypothesis made explicit, with the NaN behaviour at total 0. *)
From Coq Require Import List ZArith NArith Bool Arith Lia QArith Qabs Qcanon Reals.
From Interval Require Import Specific_stdz Specific_ops Float_full Interval Xreal Basic Sig.
From LMBase Require Import Res ListX IEEE.
From Flocq Require Import Core BinarySingleNaN.
From LMPwm Require Import GenComplement PwmModel PwmCheck PwmCheck2 PwmLog PwmProofs PwmExact PwmF32 PwmCheckSound
  PwmCheck2Sound PwmF32Rescale PwmF32Freq PwmF32FreqCell PwmF32FreqFinite PwmLogProofs PwmLogBase.
Import ListNotations.
Local Open Scope nat_scope.

(* ================= 1. the score is the logarithm of the weight ================= *)

(* what the extracted pair checker accepts: for a finite x > 0, y is finite and within 2^-20
   relative of log2 x (kind 2), log10 x (kind 10), ln x (other kinds); log 0 = -inf, log of
   a negative number / NaN is NaN, log +inf = +inf;
   a validated table: every entry is a logarithm, and the function it samples is one on every
   sampled point; check_log_mono: monotone on the sampled points *)
Theorem C09_log_checkers_sound :
  (forall (kind : nat) (x y : F32.t), log_pair_ok kind x y = true ->
    is_log_of kind x y /\
    (is_finite x = true -> (0 < B2R x)%R ->
       is_finite y = true /\
       (Rabs (B2R y - ln (B2R x) / lnb kind) <= / 1048576 * Rabs (ln (B2R x) / lnb kind))%R) /\
    (F32.eq x F32.zero = true -> y = F32.ninf))
  /\
  (forall (kind : nat) (t : ltab), check_log_table kind t = true ->
    (forall x y, In (x, y) t -> is_log_of kind x y) /\
    (forall x, tab_has t x = true -> is_log_of kind x (tab_lookup t x)))
  /\
  (forall t : ltab, check_log_mono t = true ->
    forall i j d, i <= j < length t ->
      F32.le (fst (nth i t d)) (fst (nth j t d)) = true /\ F32.le (snd (nth i t d)) (snd (nth j t d)) = true
      \/ i = j).
Proof.
  split.
  { intros kind x y H. pose proof (log_pair_ok_sound kind x y H) as HL.
  split; [exact HL|]. split.
  - intros Hf Hp. exact (is_log_ofR_pos _ true x y HL Hf Hp).
  - intros Hz. exact (is_log_ofR_zero _ x y HL Hz). }
  split.
  { intros kind t H. split; [exact (check_log_table_sound kind t H)|].
  intros x Hx. exact (tab_lookup_is_log kind t x H Hx). }
  exact check_log_mono_sound.
Qed.

(* [lnb] is the natural logarithm of the base *)
Remark C09_lnb : lnb 2 = ln 2 /\ lnb 10 = ln 10 /\ lnb 0 = 1%R.
Proof. repeat split. Qed.

(* THE MODEL: every cell of WeightMatrix::to_scoring_with_base is the logarithm of the
   weight cell -- for ANY three functions that are logarithms on a set [dom] containing the
   weight cell and the base (the recorded assumption about libm; it is re-validated on every
   run for every argument that occurs, see C09_score_is_logarithm_table): log2 / log10 for
   base == 2.0 / 10.0, and the binary32 quotient ln w / ln base of two natural logarithms
   for every other base, exactly as coded *)
Theorem C09_score_is_logarithm :
  forall (flog2 flog10 fln : F32.t -> F32.t) (dom : F32.t -> Prop),
    (forall x, dom x -> is_log_of 2 x (flog2 x)) ->
    (forall x, dom x -> is_log_of 10 x (flog10 x)) ->
    (forall x, dom x -> is_log_of 0 x (fln x)) ->
    forall (base : F32.t) (m : list (list F32.t)) (i k : nat),
      i < length m -> k < length (nth i m []) ->
      let w := nth k (nth i m []) F32.zero in
      let s := nth k (nth i (to_scoring_with_base F32ops flog2 flog10 fln base m) []) F32.zero in
      dom w -> dom base ->
      match kind_of_base base with
      | 2 => is_log_of 2 w s
      | 10 => is_log_of 10 w s
      | _ => is_log_of 0 w (fln w) /\ is_log_of 0 base (fln base) /\ s = F32.div (fln w) (fln base)
      end.
Proof. exact score_is_logarithm. Qed.

(* the general-base clause of C09_score_is_logarithm in the reals: the binary32 quotient
   s = RN(lw / lb) of two natural logarithms that are within 2^-20 relative of ln w and ln base
   is within 2^-18 relative (+ the underflow quantum eta = 2^-150) of the real logarithm of w
   in that base, for every finite base > 0 other than 1 and every finite w > 0 (finite s) *)
Theorem C09_score_general_base_error :
  forall (w base lw lb : F32.t),
    is_log_of 0 w lw -> is_log_of 0 base lb ->
    is_finite w = true -> (0 < B2R w)%R -> is_finite base = true -> (0 < B2R base)%R -> B2R base <> 1%R ->
    let s := F32.div lw lb in
    is_finite s = true ->
    (Rabs (B2R s - ln (B2R w) / ln (B2R base)) <= / 262144 * Rabs (ln (B2R w) / ln (B2R base)) + eta32)%R.
Proof. exact general_base_score_error_any. Qed.

(* ... instantiated with the SAME functions that the oracle tables sample: closed, no
   assumption left -- when the extracted table checker accepts the three tables, every score
   cell the model computes through them from a sampled weight is its logarithm *)
Theorem C09_score_is_logarithm_table :
  forall (t2 t10 t0 : ltab) (base : F32.t) (m : list (list F32.t)) (i k : nat),
    check_log_table 2 t2 = true -> check_log_table 10 t10 = true -> check_log_table 0 t0 = true ->
    i < length m -> k < length (nth i m []) ->
    let w := nth k (nth i m []) F32.zero in
    let s := nth k (nth i (to_scoring_with_base F32ops (tab_lookup t2) (tab_lookup t10) (tab_lookup t0) base m) [])
                 F32.zero in
    match kind_of_base base with
    | 2 => tab_has t2 w = true -> is_log_of 2 w s
    | 10 => tab_has t10 w = true -> is_log_of 10 w s
    | _ => tab_has t0 w = true -> tab_has t0 base = true ->
           is_log_of 0 w (tab_lookup t0 w) /\ is_log_of 0 base (tab_lookup t0 base) /\
           s = F32.div (tab_lookup t0 w) (tab_lookup t0 base)
    end.
Proof. exact score_is_logarithm_table. Qed.

(* the hypothesis "flog2 0.0 = -inf" of C09_one_step_eq_two_step follows from the validated
   table: the one-step and the two-step route agree bit for bit; and "negative infinity where
   the background is zero" for a general base: ln 0 / ln base with a validated natural
   logarithm of a finite base > 1 is -inf *)
Theorem C09_neg_inf_at_zero_validated :
  (forall (t2 t10 t0 : ltab) (bg : list F32.t) (m : list (list F32.t)),
    check_log_table 2 t2 = true -> tab_has t2 F32.zero = true ->
    into_scoring F32ops (tab_lookup t2) bg m
    = to_scoring F32ops (tab_lookup t2) (tab_lookup t10) (tab_lookup t0) (to_weight F32ops bg m))
  /\
  (forall (base lb : F32.t), is_log_of 0 base lb -> is_finite base = true -> (1 < B2R base)%R ->
    F32.div F32.ninf lb = F32.ninf).
Proof.
  split.
  { intros t2 t10 t0 bg m H Hz.
  apply (one_step_two_step F32ops (tab_lookup t2) (tab_lookup t10) (tab_lookup t0) bg m).
  - exact (tab_lookup_is_log 2 t2 F32.zero H Hz).
  - reflexivity. }
  exact log_zero_general_base.
Qed.

(* THE OBSERVATION: what a passing cell of the extracted score check states.  [base_iv]
   answers exactly for the finite bases > 0 other than 1, with an enclosure of ln base and
   the flag "base > 1"; then a passing cell has the score -inf at a zero background (base > 1)
   and otherwise the observed score o IS the logarithm of the observed weight w in that base:
   for finite w > 0, |o - ln w / ln base| <= 2^-20 |ln w / ln base| in the reals. *)
Theorem C09_score_cell_real_sound :
  (forall (base : F32.t) (lb : I.type) (pos : bool), base_iv base = Some (lb, pos) ->
    is_finite base = true /\ (0 < B2R base)%R /\
    contains (I.convert lb) (Xreal (ln (B2R base))) /\
    (pos = true -> (1 < B2R base)%R) /\ (pos = false -> (B2R base <= 1)%R))
  /\
  (forall (base : F32.t) (lb : I.type) (pos : bool) (bg w o : F32.t),
    base_iv base = Some (lb, pos) ->
    check_score_cell_real_pre (ln_iv_f32 w) (lb, pos) bg w o = true ->
    (F32.eq bg F32.zero = true -> pos = true -> o = F32.ninf) /\
    (F32.eq bg F32.zero && pos = false ->
       is_log_ofR (ln (B2R base)) pos w o /\
       (is_finite w = true -> (0 < B2R w)%R ->
          is_finite o = true /\
          (Rabs (B2R o - ln (B2R w) / ln (B2R base)) <= / 1048576 * Rabs (ln (B2R w) / ln (B2R base)))%R))).
Proof.
  split.
  { exact base_iv_sound. }
  intros base lb pos bg w o Hb H. rewrite check_score_cell_real_pre_eq in H.
  destruct (check_score_cell_real_sound base lb pos bg w o Hb H) as [H1 H2].
  split; [exact H1|]. intros E. specialize (H2 E). split; [exact H2|].
  intros Hf Hp. exact (is_log_ofR_pos _ pos w o H2 Hf Hp).
Qed.


(* the memoised forms the driver calls are the same functions *)
Remark C09_pre_forms :
  (forall kind x y, log_pair_ok_k_pre (ln_iv_f32 x) kind x y = log_pair_ok kind x y) /\
  (forall lbp bg w o, check_score_cell_real_pre (ln_iv_f32 w) lbp bg w o = check_score_cell_real lbp bg w o).
Proof. split; reflexivity. Qed.

(* ================= 2. what a passing tolerance check implies ================= *)

(* f32_close abs rel x y: finite values differ by at most abs + rel * max(|x|,|y|) (exact
   rationals = real values: C09_f32_to_Q_is_real_value); when one of them is not finite they
   are the same binary32 datum (same infinity, or both NaN) *)
Theorem C09_close_checkers_sound :
  (forall (abs rel : Q) (x y : F32.t), f32_close abs rel x y = true ->
    (forall X Y, f32_to_Q x = Some X -> f32_to_Q y = Some Y ->
       (Qabs (X - Y) <= abs + rel * (if Qle_bool (Qabs X) (Qabs Y) then Qabs Y else Qabs X))%Q) /\
    (f32_to_Q x = None \/ f32_to_Q y = None -> x = y))
  /\
  (forall (abs rel : Q) (m1 m2 : list (list F32.t)), fm_close abs rel m1 m2 = true ->
    length m1 = length m2 /\
    forall i, i < length m1 -> length (nth i m1 []) = length (nth i m2 []) /\
      forall k, k < length (nth i m1 []) ->
        f32_close abs rel (nth k (nth i m1 []) F32.zero) (nth k (nth i m2 []) F32.zero) = true).
Proof.
  split.
  { exact f32_close_sound. }
  exact fm_close_sound.
Qed.


(* the frequency check: WHEN a row is judged is a function of the input alone ... *)
Theorem C09_freq_row_skip_reasons :
  forall (pseudo : list F32.t) (counts : list N),
    (freq_row_skipped pseudo counts = false <->
       exists p, all_some (map f32_to_Q pseudo) = Some p /\ Forall (fun x => (0 <= x)%Q) p /\
                 ~ (Qsum (freq_num_Q p counts) == 0)%Q /\ (Qsum (freq_num_Q p counts) <= 2 ^ 100 # 1)%Q) /\
    (freq_row_skip_reason pseudo counts = 1 <-> all_some (map f32_to_Q pseudo) = None) /\
    (freq_row_skip_reason pseudo counts = 2 <->
       exists p, all_some (map f32_to_Q pseudo) = Some p /\ Exists (fun x => (x < 0)%Q) p) /\
    (freq_row_skip_reason pseudo counts = 3 <->
       exists p, all_some (map f32_to_Q pseudo) = Some p /\ Forall (fun x => (0 <= x)%Q) p /\
                 (Qsum (freq_num_Q p counts) == 0)%Q) /\
    (freq_row_skip_reason pseudo counts = 4 <->
       exists p, all_some (map f32_to_Q pseudo) = Some p /\ Forall (fun x => (0 <= x)%Q) p /\
                 ~ (Qsum (freq_num_Q p counts) == 0)%Q /\ (2 ^ 100 # 1 < Qsum (freq_num_Q p counts))%Q) /\
    freq_row_skip_reason pseudo counts <= 4.
Proof.
  intros pseudo counts. split.
  - rewrite freq_row_skipped_false. apply freq_row_skip_reason_spec.
  - split; [apply freq_row_skip_reason_1|]. split; [apply freq_row_skip_reason_2|].
    split; [apply freq_row_skip_reason_3|]. split; [apply freq_row_skip_reason_4|].
    apply freq_row_skip_reason_range.
Qed.

(* ... and a judged row that passes has every observed cell FINITE, within eps of
   (count + pseudocount) / exact total, and the exact sum of the observed cells within K*eps of 1 *)
Theorem C09_freq_checker_sound :
  (forall (eps : Q) (pseudo : list F32.t) (counts : list N) (obs : list F32.t),
    check_freq_row2 eps pseudo counts obs = true -> freq_row_skipped pseudo counts = false ->
    exists p o, all_some (map f32_to_Q pseudo) = Some p /\ all_some (map f32_to_Q obs) = Some o /\
      Forall (fun x => (0 <= x)%Q) p /\
      let num := freq_num_Q p counts in let tot := Qsum num in
      ~ (tot == 0)%Q /\ (tot <= 2 ^ 100 # 1)%Q /\ length o = length num /\
      (forall k, k < length o -> (Qabs (nth k o 0 - nth k num 0 / tot) <= eps)%Q) /\
      (Qabs (Qsum o - 1) <= eps * (Z.of_nat (length o) # 1))%Q)
  /\
  (forall (eps : Q) (pseudo : list F32.t) (cm : cmatrix) (obs : list (list F32.t)),
    check_freq2 eps pseudo cm obs = true ->
    length cm = length obs /\
    (forall i, i < length cm -> check_freq_row2 eps pseudo (nth i cm []) (nth i obs []) = true) /\
    (freq_skips pseudo cm = 0 -> forall i, i < length cm -> freq_row_skipped pseudo (nth i cm []) = false) /\
    check_freq eps pseudo cm obs = true).
Proof.
  split.
  { exact check_freq_row2_sound. }
  intros eps pseudo cm obs H. destruct (check_freq2_sound eps pseudo cm obs H) as [H1 H2].
  split; [exact H1|]. split; [exact H2|]. split; [apply freq_skips_0 | exact (check_freq2_stricter _ _ _ _ H)].
Qed.


(* the score cell against the oracle value; weights, rescaled weights and windows with the
   "not judged" cases named by the extracted [*_skipped]; one-step = two-step compared exactly *)
Theorem C09_judged_cells_sound :
  (forall (abs rel : Q) (niz : bool) (e bg o : F32.t),
    check_score_cell2 abs rel niz e bg o = true -> score_cell_skipped niz e bg = false ->
    (F32.eq bg F32.zero = true -> niz = true -> o = F32.ninf) /\
    (F32.eq bg F32.zero && niz = false -> F32.is_nan e = false /\ f32_close abs rel e o = true))
  /\
  (forall (rel tiny : Q) (f bg w : F32.t),
    check_weight_cell rel tiny f bg w = true -> weight_cell_skipped f bg w = false ->
    (F32.eq bg F32.zero = true /\ F32.eq w F32.zero = true) \/
    (F32.eq bg F32.zero = false /\ exists qf qb qw,
       f32_to_Q f = Some qf /\ f32_to_Q bg = Some qb /\ f32_to_Q w = Some qw /\
       (Qabs (qw * qb - qf) <= rel * Qabs qf + tiny)%Q))
  /\
  (forall (rel tiny : Q) (f old new w : F32.t),
    check_rescale_cell rel tiny f old new w = true -> rescale_cell_skipped f old new w = false ->
    (F32.eq new F32.zero = true /\ F32.eq w F32.zero = true) \/
    (F32.eq new F32.zero = false /\ F32.eq old F32.zero = false /\ exists qf qo qn qw,
       f32_to_Q f = Some qf /\ f32_to_Q old = Some qo /\ f32_to_Q new = Some qn /\ f32_to_Q w = Some qw /\
       (Qabs (qw * qn - qf) <= rescale_tol rel tiny qf qo qn)%Q))
  /\
  (forall mn mx w, check_window mn mx w = true -> window_skipped mn mx w = false ->
    F32.le mn w = true /\ F32.le w mx = true)
  /\
  (forall s1 s2, check_one_step_two_step s1 s2 = true <-> s1 = s2).
Proof.
  split.
  { exact check_score_cell2_sound. }
  split.
  { exact check_weight_cell_sound2. }
  split.
  { exact check_rescale_cell_sound2. }
  split.
  { exact check_window_sound2. }
  exact check_one_step_two_step_sound.
Qed.

(* ================= 3. binary32 frequencies without finiteness hypotheses ================= *)

(* exact arithmetic, non-zero total made explicit (review C09/3: C09_freq_cell alone also
   "holds" at total 0, where Qc's x/0 = 0 while the code computes 0/0 = NaN) *)
Theorem C09_freq_cell_nonzero_total :
  forall (pseudo : list Qc) (row : list N),
    Qcsum (freq_num pseudo row) <> Q2Qc 0 ->
    Qcsum (to_freq_row Qcops pseudo row) = Q2Qc 1 /\
    forall k, k < length row -> k < length pseudo ->
      nth k (to_freq_row Qcops pseudo row) (Q2Qc 0)
      = ((Q2Qc (inject_Z (Z.of_N (nth k row 0%N))) + nth k pseudo (Q2Qc 0)) / Qcsum (freq_num pseudo row))%Qc.
Proof.
  intros pseudo row H. split; [exact (freq_row_sum pseudo row H)|].
  intros k H1 H2. exact (freq_row_cell pseudo row k H1 H2).
Qed.

(* binary32 at total 0: every cell of the row is NaN (0/0) *)
Theorem C09_freq_zero_total_is_nan_f32 :
  forall (pseudo : list F32.t) (row : list N),
    length pseudo = length row -> row <> [] ->
    Forall (fun c => c = 0%N) row -> Forall (fun p => F32.eq p F32.zero = true) pseudo ->
    Forall (fun x => F32.is_nan x = true) (to_freq_row F32ops pseudo row).
Proof. exact to_freq_row_zero_total_nan. Qed.

(* binary32: the cells are finite as soon as the total is (review C09/4: every cell is <= the
   total because rounded addition is monotone, so the quotient is <= 1); the total is finite
   as soon as the exact total is at most 2^100; hence the two binary32 frequency theorems of
   C09.v (row sum, cell) without their finiteness hypothesis *)
Theorem C09_freq_finite_f32 :
  (forall (pseudo : list F32.t) (row : list N),
    Forall (fun c => (c < 2 ^ 32)%N) row ->
    Forall (fun p => is_finite p = true /\ (0 <= B2R p)%R) pseudo ->
    let dst := map2 (fun x p => F32.add (F32.of_Z (Z.of_N x)) p) row pseudo in
    let s := fsum F32ops dst in
    is_finite s = true -> (0 < B2R s)%R ->
    Forall (fun x => is_finite x = true) (to_freq_row F32ops pseudo row))
  /\
  (forall (pseudo : list F32.t) (row : list N),
    length row <= 21 -> Forall (fun c => (c < 2 ^ 32)%N) row ->
    Forall (fun p => is_finite p = true /\ (0 <= B2R p)%R) pseudo ->
    (Rsum (map2 (fun c p => (IZR (Z.of_N c) + B2R p)%R) row pseudo) <= bpow radix2 100)%R ->
    is_finite (fsum F32ops (map2 (fun x p => F32.add (F32.of_Z (Z.of_N x)) p) row pseudo)) = true)
  /\
  (forall (pseudo : list F32.t) (row : list N),
    Forall (fun c => (c < 2 ^ 32)%N) row ->
    Forall (fun p => is_finite p = true /\ (0 <= B2R p)%R) pseudo ->
    let dst := map2 (fun x p => F32.add (F32.of_Z (Z.of_N x)) p) row pseudo in
    let s := fsum F32ops dst in
    is_finite s = true -> (0 < B2R s)%R ->
    let T := Rsum (map2 (fun c p => (IZR (Z.of_N c) + B2R p)%R) row pseudo) in
    (Rabs (Rsum (map B2R (to_freq_row F32ops pseudo row)) - 1) <= E (length dst))%R /\
    (0 < T)%R /\
    forall k, k < length row -> k < length pseudo ->
      let X := (IZR (Z.of_N (nth k row 0%N)) + B2R (nth k pseudo F32.zero))%R in
      is_finite (nth k (to_freq_row F32ops pseudo row) F32.zero) = true /\
      (Rabs (B2R (nth k (to_freq_row F32ops pseudo row) F32.zero) - X / T) <= G (length dst) * (X / T) + eta32)%R).
Proof.
  split.
  { exact to_freq_row_finite. }
  split.
  { exact fsum_finite_of_total. }
  exact freq_f32_total.
Qed.

(* the binary32 model passes the NEW frequency check for every row of at most 21 u32 counts,
   whatever the pseudocounts: a PROPFAIL "frequency-not-(count+pseudo)/total" -- including the
   new failure "non-finite cell on a judged row" -- cannot be caused by rounding *)
Theorem C09_freq_row_model_passes_check2 :
  forall (pseudo : list F32.t) (row : list N),
    length pseudo = length row -> length row <= 21 -> Forall (fun c => (c < 2 ^ 32)%N) row ->
    check_freq_row2 (1 # 100000) pseudo row (to_freq_row F32ops pseudo row) = true.
Proof. exact freq_row_model_passes_check2. Qed.

(* ---- non-vacuity ---- *)

(* log2 1 = 0, log2 2 = 1, log2 0 = -inf are accepted, log2 2 = 2 is not (kernel computation
   of the interval checker); 8.0 in base 2.0: score 3.0 accepted, 3.0000005 (2 ulp) too, 3.00001 not *)
Example C09_example_log_checker :
  check_log_table 2 [(F32.of_Z 1, F32.zero); (F32.of_Z 2, F32.of_Z 1); (F32.zero, F32.ninf)] = true /\
  log_pair_ok 2 (F32.of_Z 2) (F32.of_Z 2) = false /\
  match base_iv (F32.of_Z 2) with
  | Some lbp =>
      check_score_cell_real lbp (F32.of_Z 1) (F32.of_Z 8) (F32.of_Z 3) = true /\
      check_score_cell_real lbp (F32.of_Z 1) (F32.of_Z 8) (F32.of_bits 1077936130) = true /\
      check_score_cell_real lbp (F32.of_Z 1) (F32.of_Z 8) (F32.of_bits 1077936170) = false /\
      check_score_cell_real lbp F32.zero F32.zero F32.ninf = true /\
      check_score_cell_real lbp F32.zero F32.zero (F32.of_Z 0) = false
  | None => False
  end /\
  base_iv (F32.of_Z 1) = None /\ base_iv F32.nan = None.
Proof. vm_compute. repeat split; reflexivity. Qed.

(* a judged and a not-judged frequency row *)
Example C09_example_freq_skip :
  freq_row_skip_reason [F32.of_Z 1; F32.of_Z 1] [3; 0]%N = 0 /\
  freq_row_skip_reason [F32.of_Z (-1); F32.of_Z 1] [3; 0]%N = 2 /\
  freq_row_skip_reason [F32.zero; F32.zero] [0; 0]%N = 3 /\
  freq_row_skip_reason [F32.nan; F32.zero] [1; 0]%N = 1 /\
  check_freq_row2 (1 # 100000) [F32.of_Z 1; F32.of_Z 1] [3; 0]%N [F32.nan; F32.nan] = false /\
  check_freq_row (1 # 100000) [F32.of_Z 1; F32.of_Z 1] [3; 0]%N [F32.nan; F32.nan] = true.
Proof. vm_compute. repeat split; reflexivity. Qed.

Check C09_score_is_logarithm_table :
  forall (t2 t10 t0 : ltab) (base : F32.t) (m : list (list F32.t)) (i k : nat),
    check_log_table 2 t2 = true -> check_log_table 10 t10 = true -> check_log_table 0 t0 = true ->
    i < length m -> k < length (nth i m []) ->
    let w := nth k (nth i m []) F32.zero in
    let s := nth k (nth i (to_scoring_with_base F32ops (tab_lookup t2) (tab_lookup t10) (tab_lookup t0) base m) [])
                 F32.zero in
    match kind_of_base base with
    | 2 => tab_has t2 w = true -> is_log_of 2 w s
    | 10 => tab_has t10 w = true -> is_log_of 10 w s
    | _ => tab_has t0 w = true -> tab_has t0 base = true ->
           is_log_of 0 w (tab_lookup t0 w) /\ is_log_of 0 base (tab_lookup t0 base) /\
           s = F32.div (tab_lookup t0 w) (tab_lookup t0 base)
    end.
Check (fun base lb pos bg w o => proj2 C09_score_cell_real_sound base lb pos bg w o) :
  forall (base : F32.t) (lb : I.type) (pos : bool) (bg w o : F32.t),
    base_iv base = Some (lb, pos) ->
    check_score_cell_real_pre (ln_iv_f32 w) (lb, pos) bg w o = true ->
    (F32.eq bg F32.zero = true -> pos = true -> o = F32.ninf) /\
    (F32.eq bg F32.zero && pos = false ->
       is_log_ofR (ln (B2R base)) pos w o /\
       (is_finite w = true -> (0 < B2R w)%R ->
          is_finite o = true /\
          (Rabs (B2R o - ln (B2R w) / ln (B2R base)) <= / 1048576 * Rabs (ln (B2R w) / ln (B2R base)))%R)).
