(* Round 3, wave 3 (review C09/1, top-15 item 12): "each score is the logarithm of the weight
   in the requested base" with formal content.

   Executable definitions only (soundness: PwmLogProofs.v).  [log_pair_ok_iv lb pos x y]
   decides, in verified interval arithmetic (coq-interval: [I.ln] on dyadic floats with Z
   mantissas, 32 bits), whether the binary32 number [y] IS the logarithm of the binary32
   number [x] in the base b whose natural logarithm the interval [lb] encloses
   ([pos] = "b > 1"):
     x NaN or negative  -> y NaN
     x = +-0            -> y = -inf (b > 1), +inf (b < 1)
     x = +inf           -> y = +inf (b > 1), -inf (b < 1)
     x = 1              -> y = +-0
     x finite, > 0      -> y finite and y / (ln x / ln b) in [1 - 2^-20, 1 + 2^-20]
   The libm functions log2f / log10f / logf are accurate to about one ulp (2^-23 relative)
   and f32::log(self, base) = ln(self) / ln(base) adds two more roundings, so the unchanged
   implementation passes with a margin of 3 (general base) to 8 (base 2, 10).

   Uses: [check_score_cell_real] compares the OBSERVED score with the real logarithm of the
   observed weight (no oracle involved); [log_pair_ok kind] validates the entries of the libm
   oracle table that the bit-exact model replay uses. *)
From Coq Require Import List ZArith NArith Bool Arith QArith.
From Flocq Require Import BinarySingleNaN.
From Interval Require Import Specific_stdz Specific_ops Float_full Interval Xreal Basic Sig.
From LMBase Require Import Res ListX IEEE.
From LMPwm Require Import GenComplement PwmModel PwmCheck PwmCheck2.
Import ListNotations.
Local Open Scope nat_scope.

Module SF := SpecificFloat StdZRadix2.
Module I := FloatIntervalFull SF.

Definition lprec : Z := 32%Z.

(* the point interval of a dyadic number m * 2^e *)
Definition ipt (m e : Z) : I.type := I.bnd (Specific_ops.Float m e) (Specific_ops.Float m e).

(* [1 - 2^-20, 1 + 2^-20] *)
Definition ratio_iv : I.type :=
  I.bnd (Specific_ops.Float 1048575%Z (-20)%Z) (Specific_ops.Float 1048577%Z (-20)%Z).

(* enclosure of ln x for a finite x > 0 (the expensive part: ~1 ms in the extracted code; the
   driver memoises it per bit pattern and passes it to the [*_pre] checkers) *)
Definition ln_iv_f32 (x : F32.t) : I.type :=
  match x with
  | B754_finite false m e _ => I.ln lprec (ipt (Zpos m) e)
  | _ => I.nai
  end.

(* enclosure of y / (ln x / ln b) for y = my * 2^ey, from enclosures of ln x and ln b *)
Definition log_ratio_iv (lnx lb : I.type) (my ey : Z) : I.type :=
  I.div lprec (ipt my ey) (I.div lprec lnx lb).

Definition is_one (x : F32.t) : bool :=
  match f32_to_Q x with Some q => Qeq_bool q 1 | None => false end.

Definition log_pair_ok_pre (lnx lb : I.type) (pos : bool) (x y : F32.t) : bool :=
  match x with
  | B754_nan => F32.is_nan y
  | B754_zero _ => f32_same y (if pos then F32.ninf else F32.inf)
  | B754_infinity false => f32_same y (if pos then F32.inf else F32.ninf)
  | B754_infinity true => F32.is_nan y
  | B754_finite true _ _ _ => F32.is_nan y
  | B754_finite false mx ex _ =>
      if is_one x then (match y with B754_zero _ => true | _ => false end)
      else match y with
           | B754_finite sy my ey _ =>
               I.subset (log_ratio_iv lnx lb (if sy then Zneg my else Zpos my) ey) ratio_iv
           | _ => false
           end
  end.

Definition log_pair_ok_iv (lb : I.type) (pos : bool) (x y : F32.t) : bool :=
  log_pair_ok_pre (ln_iv_f32 x) lb pos x y.

(* ---------- the libm oracle: log2 (kind 2), log10 (kind 10), ln (any other kind) ---------- *)

Definition ln2_iv : I.type := I.ln lprec (I.fromZ lprec 2).       (* constants: evaluated once *)
Definition ln10_iv : I.type := I.ln lprec (I.fromZ lprec 10).
Definition one_iv : I.type := I.fromZ lprec 1.
Definition ln_base_iv (kind : nat) : I.type :=
  if kind =? 2 then ln2_iv else if kind =? 10 then ln10_iv else one_iv.

Definition log_pair_ok (kind : nat) (x y : F32.t) : bool := log_pair_ok_iv (ln_base_iv kind) true x y.
Definition log_pair_ok_k_pre (lnx : I.type) (kind : nat) (x y : F32.t) : bool :=
  log_pair_ok_pre lnx (ln_base_iv kind) true x y.

(* a table of (input, output) pairs *)
Definition ltab := list (F32.t * F32.t).

Definition check_log_table (kind : nat) (t : ltab) : bool :=
  forallb (fun p => log_pair_ok kind (fst p) (snd p)) t.

(* the function that a table samples: first entry with that bit pattern, NaN when absent *)
Definition tab_lookup (t : ltab) (x : F32.t) : F32.t :=
  match find (fun p => f32_same (fst p) x) t with Some p => snd p | None => F32.nan end.
Definition tab_has (t : ltab) (x : F32.t) : bool := existsb (fun p => f32_same (fst p) x) t.

(* monotonicity on the sampled points: the list (sorted by the driver) has non-decreasing,
   non-NaN inputs and non-decreasing outputs *)
Fixpoint check_log_mono (t : ltab) : bool :=
  match t with
  | p :: ((q :: _) as r) => F32.le (fst p) (fst q) && F32.le (snd p) (snd q) && check_log_mono r
  | _ => true
  end.

(* ---------- the score check against the REAL logarithm ---------- *)

Definition gt_one_b (base : F32.t) : bool :=
  match f32_to_Q base with Some q => negb (Qle_bool q 1) | None => false end.

(* enclosure of ln base and "base > 1", for a finite base > 0 other than 1; None for the bases
   without a real logarithm function (NaN, infinite, <= 0, 1) *)
Definition base_iv (base : F32.t) : option (I.type * bool) :=
  match base with
  | B754_finite false m e _ =>
      if is_one base then None else Some (ln_iv_f32 base, gt_one_b base)
  | _ => None
  end.

(* one cell: -inf where the background is zero (base > 1); otherwise the observed score [o]
   is the logarithm of the observed weight [w] *)
Definition check_score_cell_real_pre (lnw : I.type) (lbp : I.type * bool) (bg w o : F32.t) : bool :=
  if F32.eq bg F32.zero && snd lbp then f32_same o F32.ninf
  else log_pair_ok_pre lnw (fst lbp) (snd lbp) w o.
Definition check_score_cell_real (lbp : I.type * bool) (bg w o : F32.t) : bool :=
  check_score_cell_real_pre (ln_iv_f32 w) lbp bg w o.

(* the base for which log_b 0 = -inf: finite and > 1 (log_inf 0 = -inf/inf is NaN) *)
Definition base_gt_one (base : F32.t) : bool := F32.lt (F32.of_Z 1) base && is_fin base.

(* dispatch of WeightMatrix::to_scoring_with_base *)
Definition kind_of_base (base : F32.t) : nat :=
  if F32.eq base (F32.of_Z 2) then 2 else if F32.eq base (F32.of_Z 10) then 10 else 0.
