(* Lemmas about the integer / combinatorial part of PwmStat.v (consensus arg-max
   convention, CountMatrix::new acceptance, u32 / usize overflow sites) and soundness of
   the extracted checkers of PwmStatCheck.v. *)
From Coq Require Import List ZArith NArith Bool Arith Lia QArith Qabs.
From LMBase Require Import Res ListX IEEE.
From LMPwm Require Import GenComplement PwmModel PwmCheck PwmStat PwmStatCheck.
Import ListNotations.
Local Open Scope nat_scope.

(* ---------- Iterator::max_by_key : the LAST maximal element ---------- *)

Definition is_last_max (l : list N) (j : nat) : Prop :=
  j < length l
  /\ (forall k, k < length l -> (nth k l 0 <= nth j l 0)%N)
  /\ (forall k, j < k < length l -> (nth k l 0 < nth j l 0)%N).

(* invariant of the scan: [pre] already seen, best at position bi with value bv *)
Lemma argmax_last_from_spec (l pre : list N) (bi : nat) (bv : N) :
  bi < length pre -> nth bi pre 0%N = bv ->
  (forall k, k < length pre -> (nth k pre 0 <= bv)%N) ->
  (forall k, bi < k < length pre -> (nth k pre 0 < bv)%N) ->
  is_last_max (pre ++ l) (argmax_last_from bi bv (length pre) l).
Proof.
  revert pre bi bv. induction l as [|y l IH]; intros pre bi bv Hbi Hbv Hle Hlt.
  - cbn [argmax_last_from]. rewrite app_nil_r. unfold is_last_max. rewrite Hbv. auto.
  - cbn [argmax_last_from].
    replace (pre ++ y :: l) with ((pre ++ [y]) ++ l) by (rewrite <- app_assoc; reflexivity).
    replace (S (length pre)) with (length (pre ++ [y])) by (rewrite app_length; cbn; lia).
    destruct (N.ltb_spec y bv) as [Hy|Hy].
    + apply IH.
      * rewrite app_length; cbn; lia.
      * rewrite app_nth1 by lia. exact Hbv.
      * intros k Hk. rewrite app_length in Hk; cbn in Hk.
        destruct (Nat.eq_dec k (length pre)) as [->|Hne].
        -- rewrite app_nth2 by lia. rewrite Nat.sub_diag. cbn. lia.
        -- rewrite app_nth1 by lia. apply Hle. lia.
      * intros k Hk. rewrite app_length in Hk; cbn in Hk.
        destruct (Nat.eq_dec k (length pre)) as [->|Hne].
        -- rewrite app_nth2 by lia. rewrite Nat.sub_diag. cbn. lia.
        -- rewrite app_nth1 by lia. apply Hlt. lia.
    + apply IH.
      * rewrite app_length; cbn; lia.
      * rewrite app_nth2 by lia. rewrite Nat.sub_diag. reflexivity.
      * intros k Hk. rewrite app_length in Hk; cbn in Hk.
        destruct (Nat.eq_dec k (length pre)) as [->|Hne].
        -- rewrite app_nth2 by lia. rewrite Nat.sub_diag. cbn. lia.
        -- rewrite app_nth1 by lia. specialize (Hle k ltac:(lia)). lia.
      * intros k Hk. rewrite app_length in Hk; cbn in Hk. lia.
Qed.

Theorem argmax_last_spec (l : list N) (j : nat) :
  argmax_last l = Some j -> is_last_max l j.
Proof.
  destruct l as [|x l]; cbn [argmax_last]; [discriminate|].
  intros H; injection H as <-.
  apply (argmax_last_from_spec l [x] 0 x); cbn; try lia; try reflexivity.
  - intros k Hk. assert (k = 0) by lia. subst. cbn. lia.
Qed.

Lemma is_last_max_unique (l : list N) (i j : nat) : is_last_max l i -> is_last_max l j -> i = j.
Proof.
  intros (Hi & Hile & Hilt) (Hj & Hjle & Hjlt).
  destruct (Nat.lt_trichotomy i j) as [H|[H|H]]; [|assumption|].
  - specialize (Hilt j ltac:(lia)). specialize (Hjle i Hi). lia.
  - specialize (Hjlt i ltac:(lia)). specialize (Hile j Hj). lia.
Qed.

Theorem argmax_last_iff (l : list N) (j : nat) : argmax_last l = Some j <-> is_last_max l j.
Proof.
  split; [apply argmax_last_spec|].
  intros H. destruct (argmax_last l) as [i|] eqn:E.
  - f_equal. eapply is_last_max_unique; [apply argmax_last_spec; exact E | exact H].
  - destruct l; [destruct H as (H & _); cbn in H; lia | discriminate].
Qed.

Lemma argmax_last_none (l : list N) : argmax_last l = None <-> l = [].
Proof. destruct l; cbn; split; congruence. Qed.

(* an all-equal row (in particular the all-zero row of a position never observed):
   the last column wins, i.e. the wildcard when the row has K cells *)
Lemma argmax_last_repeat (c : N) (n : nat) : argmax_last (repeat c (S n)) = Some n.
Proof.
  apply argmax_last_iff. unfold is_last_max. rewrite repeat_length. split; [lia|]. split.
  - intros k Hk. rewrite !nth_repeat_lt by lia. lia.
  - intros k Hk. lia.
Qed.

(* consensus_row: the entropy is computed first (its panic wins), then the last maximum of
   the first K cells; lowercase iff 1.0 <= entropy *)
Section ConsensusSpec.
  Context {T : Type}.
  Variable O : NumOps T.
  Variable K : nat.
  Variables fneg flog2 : T -> T.

  Theorem consensus_row_spec (wrap : bool) (row : list N) (j : nat) (lower : bool) :
    consensus_row O K fneg flog2 wrap row = Ok (j, lower) ->
    is_last_max (firstn K row) j
    /\ exists e, row_entropy O fneg flog2 wrap row = Ok e /\ lower = n_leb O (n_one O) e.
  Proof.
    unfold consensus_row.
    destruct (row_entropy O fneg flog2 wrap row) as [e| | |] eqn:E; cbn [rbind]; try discriminate.
    destruct (argmax_last (firstn K row)) as [i|] eqn:A; try discriminate.
    intros H; injection H as <- <-. split; [apply argmax_last_spec; exact A|].
    exists e. split; reflexivity.
  Qed.

  Theorem consensus_row_panics_iff_overflow (row : list N) :
    0 < K -> row <> [] ->
    (consensus_row O K fneg flog2 false row = Panic 14
     <-> (4294967296 <= fold_left N.add row 0)%N).
  Proof.
    intros HK Hrow. unfold consensus_row, row_entropy, sum_u32, u32_mod.
    destruct (N.ltb_spec (fold_left N.add row 0%N) 4294967296) as [Hlt|Hge]; cbn [rbind].
    - destruct (argmax_last (firstn K row)) eqn:A; split; intros H; try discriminate; try lia.
    - split; intros; [lia|reflexivity].
  Qed.

  Theorem row_entropy_overflow (row : list N) :
    (4294967296 <= fold_left N.add row 0)%N -> row_entropy O fneg flog2 false row = Panic 14.
  Proof.
    intros H. unfold row_entropy, sum_u32, u32_mod.
    destruct (N.ltb_spec (fold_left N.add row 0%N) 4294967296); [lia|reflexivity].
  Qed.

  Theorem row_entropy_no_overflow (wrap : bool) (row : list N) :
    (fold_left N.add row 0 < 4294967296)%N ->
    row_entropy O fneg flog2 wrap row
    = Ok (fneg (fsum O (map (entropy_term O flog2 (fold_left N.add row 0%N)) row))).
  Proof.
    intros H. unfold row_entropy, sum_u32, u32_mod.
    destruct (N.ltb_spec (fold_left N.add row 0%N) 4294967296); [reflexivity|lia].
  Qed.
End ConsensusSpec.

(* ---------- CountMatrix::new ---------- *)

Lemma fold_max_ge (l : list N) (a : N) : (a <= fold_left N.max l a)%N.
Proof. revert a. induction l as [|x l IH]; intros a; cbn; [lia|]. specialize (IH (N.max a x)). lia. Qed.

Lemma fold_max_in (l : list N) (a x : N) : In x l -> (x <= fold_left N.max l a)%N.
Proof.
  revert a. induction l as [|y l IH]; intros a; cbn; [tauto|]. intros [->|H].
  - pose proof (fold_max_ge l (N.max a x)). lia.
  - apply IH. exact H.
Qed.

Lemma fold_max_const_aux (l : list N) (s a : N) :
  Forall (fun x => x = s) l -> (a <= s)%N -> l <> [] -> fold_left N.max l a = s.
Proof.
  intros Hall. revert a. induction Hall as [|x l Hx Hall IH]; intros a Ha Hne; [congruence|].
  subst x. cbn. destruct l as [|y l'].
  - cbn. lia.
  - apply IH; [lia|discriminate].
Qed.

(* never rejects; the recorded sequence count is the largest row sum *)
Theorem count_new_accepts_everything (m : cmatrix) :
  exists n, count_new m = Ok (m, n)
            /\ (forall r, In r m -> (row_total r <= n)%N)
            /\ (m <> [] -> exists r, In r m /\ row_total r = n)
            /\ (m = [] -> n = 0%N).
Proof.
  unfold count_new. eexists. split; [reflexivity|]. split; [|split].
  - intros r Hr. apply fold_max_in. apply in_map. exact Hr.
  - intros Hne.
    assert (G : forall (l : list N) a, l <> [] -> (a <= fold_left N.max l a)%N ->
                 fold_left N.max l a = a \/ In (fold_left N.max l a) l).
    { induction l as [|x l IH]; intros a Hl _; [congruence|]. cbn.
      destruct l as [|y l'].
      - cbn. destruct (N.max_spec a x) as [[_ ->]|[_ ->]]; auto.
      - destruct (IH (N.max a x) ltac:(discriminate) (fold_max_ge _ _)) as [E|E].
        + rewrite E. destruct (N.max_spec a x) as [[_ ->]|[_ ->]]; auto.
        + right. right. exact E. }
    destruct (G (map row_total m) 0%N) as [E|E].
    + destruct m; [congruence|discriminate].
    + apply fold_max_ge.
    + (* the maximum is 0: every row sums to 0, take the first *)
      destruct m as [|r m']; [congruence|]. exists r. split; [left; reflexivity|].
      assert (Hin : In (row_total r) (map row_total (r :: m'))) by (left; reflexivity).
      pose proof (fold_max_in (map row_total (r :: m')) 0%N (row_total r) Hin) as H.
      rewrite E in H |- *. lia.
    + apply in_map_iff in E. destruct E as (r & Hr & Hin). exists r. split; [exact Hin|exact Hr].
  - intros ->. reflexivity.
Qed.

(* rows with the common sum s: n = s (the documented use) *)
Theorem count_new_equal_sums (m : cmatrix) (s : N) :
  m <> [] -> Forall (fun r => row_total r = s) m -> count_new m = Ok (m, s).
Proof.
  intros Hne Hall. unfold count_new. f_equal. f_equal.
  apply fold_max_const_aux; [|lia|destruct m; [congruence|discriminate]].
  apply Forall_map. exact Hall.
Qed.

(* the documentation ("rows should all sum to the same value") is NOT enforced: the check
   is commented out in the source *)
Theorem count_new_unequal_sums_accepted :
  exists m : cmatrix, (exists r1 r2, In r1 m /\ In r2 m /\ row_total r1 <> row_total r2)
                      /\ count_new m = Ok (m, 8%N).
Proof.
  exists [[8;0;0;0;0]; [1;2;0;0;0]]%N. split.
  - exists [8;0;0;0;0]%N, [1;2;0;0;0]%N. cbn. intuition discriminate.
  - reflexivity.
Qed.

(* ---------- Background::from_counts: overflow site ---------- *)

Section BgOvf.
  Context {T : Type}.
  Variable O : NumOps T.
  Theorem bg_from_counts_ovf_agrees (wrap : bool) (counts : list N) :
    (fold_left N.add counts 0 < 18446744073709551616)%N ->
    bg_from_counts_ovf O wrap counts = bg_from_counts O counts.
  Proof.
    intros H. unfold bg_from_counts_ovf, usize_mod.
    destruct (N.ltb_spec (fold_left N.add counts 0%N) 18446744073709551616); [reflexivity|lia].
  Qed.
  Theorem bg_from_counts_ovf_panics (counts : list N) :
    (18446744073709551616 <= fold_left N.add counts 0)%N ->
    bg_from_counts_ovf O false counts = Panic 16.
  Proof.
    intros H. unfold bg_from_counts_ovf, usize_mod.
    destruct (N.ltb_spec (fold_left N.add counts 0%N) 18446744073709551616); [lia|reflexivity].
  Qed.
End BgOvf.

(* ---------- soundness of the extracted checkers ---------- *)

Lemma nth_firstn_lt {A} (d : A) : forall (K k : nat) (l : list A), k < K -> nth k (firstn K l) d = nth k l d.
Proof.
  induction K as [|K IH]; intros k l Hk; [lia|].
  destruct l as [|x r]; [destruct k; reflexivity|].
  destruct k; cbn; [reflexivity|]. apply IH. lia.
Qed.

Theorem check_consensus_row_sound (K : nat) (row : list N) (j : nat) :
  check_consensus_row K row j = true ->
  j < K /\ j < length row /\ forall k, k < K -> k < length row -> (nth k row 0 <= nth j row 0)%N.
Proof.
  unfold check_consensus_row. rewrite !andb_true_iff, !Nat.ltb_lt, forallb_forall.
  intros [[HK Hl] Hall]. split; [exact HK|]. split; [exact Hl|].
  intros k HkK Hkl. apply N.leb_le. apply Hall.
  rewrite <- (nth_firstn_lt 0%N K k row HkK).
  apply nth_In. rewrite firstn_length. lia.
Qed.

(* the model's own choice passes the check: a PROPFAIL cannot come from the tie convention *)
Theorem model_passes_check_consensus_row (K : nat) (row : list N) (j : nat) :
  argmax_last (firstn K row) = Some j -> check_consensus_row K row j = true.
Proof.
  intros H. apply argmax_last_spec in H. destruct H as (Hj & Hle & _).
  rewrite firstn_length in Hj.
  unfold check_consensus_row. rewrite !andb_true_iff, !Nat.ltb_lt, forallb_forall.
  split; [split; lia|].
  intros c Hc. apply N.leb_le. apply (In_nth _ _ 0%N) in Hc. destruct Hc as (k & Hk & <-).
  specialize (Hle k Hk). rewrite (nth_firstn_lt 0%N K j row) in Hle by lia. exact Hle.
Qed.

Theorem check_corr_range_sound (slack : Q) (c : F32.t) :
  check_corr_range slack c = true ->
  F32.is_nan c = true \/ exists q, f32_to_Q c = Some q /\ (Qabs q <= 1 + slack)%Q.
Proof.
  unfold check_corr_range. destruct (f32_to_Q c) as [q|]; intros H; [right|left; exact H].
  exists q. split; [reflexivity|]. apply Qle_bool_iff. exact H.
Qed.

Theorem check_entropy_range_sound (K : nat) (num den : positive) (slack : Q) (e : F32.t) :
  check_entropy_range K num den slack e = true ->
  (Z.of_nat K ^ Zpos den <= 2 ^ Zpos num)%Z
  /\ (F32.is_nan e = true
      \/ exists q, f32_to_Q e = Some q /\ (- slack <= q)%Q /\ (q <= (Zpos num # den) + slack)%Q).
Proof.
  unfold check_entropy_range, log2_ub_ok. rewrite andb_true_iff. intros [Hub H].
  split; [apply Z.leb_le; exact Hub|].
  destruct (f32_to_Q e) as [q|]; [right|left; exact H].
  apply andb_true_iff in H. destruct H as [H1 H2].
  exists q. split; [reflexivity|]. split; apply Qle_bool_iff; assumption.
Qed.

(* rows without overflow: the observed entropy is a number (never NaN) in the certified range *)
Theorem check_entropy_row_sound (K : nat) (num den : positive) (slack : Q) (row : list N) (e : F32.t) :
  check_entropy_row K num den slack row e = true ->
  (fold_left N.add row 0 < 4294967296)%N ->
  (Z.of_nat K ^ Zpos den <= 2 ^ Zpos num)%Z
  /\ exists q, f32_to_Q e = Some q /\ (- slack <= q)%Q /\ (q <= (Zpos num # den) + slack)%Q.
Proof.
  unfold check_entropy_row, u32_mod. intros H Hlt.
  destruct (N.ltb_spec (fold_left N.add row 0%N) 4294967296) as [_|Hge]; [|lia].
  apply andb_true_iff in H. destruct H as [Hn H].
  apply check_entropy_range_sound in H. destruct H as [Hub [Hnan|Hq]]; [|split; assumption].
  rewrite Hnan in Hn. discriminate.
Qed.

Lemma list_same_Neqb (a b : list N) : list_same N.eqb a b = true -> a = b.
Proof.
  revert b. induction a as [|x a IH]; intros [|y b]; cbn; try discriminate; [reflexivity|].
  intros H. apply andb_true_iff in H. destruct H as [Hx Hr]. apply N.eqb_eq in Hx. f_equal; auto.
Qed.

(* what the periodic check demands: for a matrix of period [delay] (delay < rows) in which
   every row has a non-zero cell, the observed auto-correlation is a number within [slack] of 1 *)
Theorem check_auto_periodic_sound (slack : Q) (m : list (list N)) (delay : nat) (c : F32.t) :
  check_auto_periodic slack m delay c = true ->
  delay < length m ->
  (forall i, i + delay < length m -> nth_error m (i + delay) = nth_error m i) ->
  Forall (fun r => exists x, In x r /\ x <> 0%N) m ->
  exists q, f32_to_Q c = Some q /\ (Qabs (q - 1) <= slack)%Q.
Proof.
  unfold check_auto_periodic. intros H Hd Hper Hnz.
  assert (E1 : (delay <? length m) = true) by (apply Nat.ltb_lt; exact Hd).
  assert (E2 : periodic_b m delay = true).
  { unfold periodic_b. apply forallb_forall. intros i Hi. apply in_seq in Hi.
    rewrite Hper by lia. destruct (nth_error m i) as [r|] eqn:E.
    - unfold rows_eqb. clear. induction r as [|x r IH]; cbn; [reflexivity|]. rewrite N.eqb_refl. exact IH.
    - apply nth_error_None in E. lia. }
  assert (E3 : no_zero_row m = true).
  { unfold no_zero_row. apply forallb_forall. intros r Hr.
    rewrite Forall_forall in Hnz. destruct (Hnz r Hr) as (x & Hx & Hx0).
    apply existsb_exists. exists x. split; [exact Hx|]. apply negb_true_iff. apply N.eqb_neq. exact Hx0. }
  rewrite E1, E2, E3 in H. cbn [andb] in H.
  destruct (f32_to_Q c) as [q|]; [|discriminate].
  exists q. split; [reflexivity|]. apply Qle_bool_iff. exact H.
Qed.

(* what check_entropy_exact demands *)
Theorem check_entropy_exact_sound (slack : Q) (row : list N) (e : F32.t) :
  check_entropy_exact slack row e = true ->
  (fold_left N.add row 0 < 4294967296)%N ->
  (forall s, nonzeros row = [s] -> exists q, f32_to_Q e = Some q /\ (Qabs q <= slack)%Q)
  /\ (forall c, nonzeros row = [c; c] -> exists q, f32_to_Q e = Some q /\ (Qabs (q - 1) <= slack)%Q).
Proof.
  unfold check_entropy_exact, u32_mod. intros H Hlt.
  destruct (N.ltb_spec (fold_left N.add row 0%N) 4294967296) as [_|Hge]; [|lia].
  split.
  - intros s Hs. rewrite Hs in H. destruct (f32_to_Q e) as [q|]; [|discriminate].
    exists q. split; [reflexivity|]. apply Qle_bool_iff. exact H.
  - intros c Hc. rewrite Hc, N.eqb_refl in H. destruct (f32_to_Q e) as [q|]; [|discriminate].
    exists q. split; [reflexivity|]. apply Qle_bool_iff. exact H.
Qed.

(* what check_sic demands: when every term is well defined (finite non-negative frequency,
   finite or -inf score), a finite information content is within rel * sum|f*s| + tiny of sum f*s *)
Theorem check_sic_sound (rel tiny : Q) (bg : list F32.t) (fq sm : list (list F32.t)) (ic : F32.t)
        (rows : list (list Q)) (q : Q) :
  check_sic rel tiny bg fq sm ic = true ->
  all_some (map2 (fun f s => sic_terms_row f s bg) fq sm) = Some rows ->
  f32_to_Q ic = Some q ->
  (Qabs (q - Qsum (concat rows)) <= rel * Qsum (map Qabs (concat rows)) + tiny)%Q.
Proof.
  unfold check_sic. intros H Hr Hq. rewrite Hr, Hq in H. apply Qle_bool_iff. exact H.
Qed.
