(* Error of a left-to-right binary32 sum, and of the same sum in the reverse order
   (mirrored window scores); the binary32 model passes [check_mirror]. *)
From Coq Require Import ZArith Reals List Bool Lia Lra Psatz QArith Qabs Qreals.
From Coq Require Import SpecFloat.
From Flocq Require Import Core BinarySingleNaN Relative Plus_error.
From LMBase Require Import Res ListX IEEE.
From LMPwm Require Import GenComplement PwmModel PwmCheck PwmF32Rescale.
Import ListNotations.

Local Open Scope R_scope.

Definition Rsum (l : list R) : R := fold_right Rplus 0 l.
Definition Rabsum (l : list F32.t) : R := Rsum (map (fun x => Rabs (B2R x)) l).

(* ---------- one addition ---------- *)

Lemma add_fin_inv (a b : F32.t) : fin (F32.add a b) = true -> fin a = true /\ fin b = true.
Proof.
  destruct a as [sa|sa| |sa ma ea Ha], b as [sb|sb| |sb mb eb Hb];
    try (intros _; split; reflexivity);
    cbn; try discriminate;
    try (destruct sa, sb; cbn; discriminate).
Qed.

Lemma add_finite_R (a b : F32.t) :
  fin (F32.add a b) = true ->
  B2R (F32.add a b) = rnd32 (B2R a + B2R b).
Proof.
  intros Hfin. destruct (add_fin_inv a b Hfin) as [Fa Fb].
  pose proof (Bplus_correct 24 128 _ _ mode_NE a b Fa Fb) as H.
  change (Bplus mode_NE a b) with (F32.add a b) in H.
  destruct (Rlt_bool (Rabs (rnd32 (B2R a + B2R b))) (bpow radix2 128)).
  - destruct H as [HR _]. exact HR.
  - destruct H as [H _]. apply B2SF_inf_not_finite in H. rewrite H in Hfin. discriminate.
Qed.

(* no underflow error for an addition *)
Lemma rnd32_plus_err (a b : F32.t) :
  exists d, Rabs d <= u32 /\ rnd32 (B2R a + B2R b) = (B2R a + B2R b) * (1 + d).
Proof.
  destruct (FLT_plus_error_N_ex radix2 (-149) 24 (fun x => negb (Z.even x)) (B2R a) (B2R b)
              (generic_format_B2R 24 128 a) (generic_format_B2R 24 128 b)) as (d & Hd & Hr).
  exists d. split; [|exact Hr].
  eapply Rle_trans; [exact Hd|].
  eapply Rle_trans; [apply u_rod1pu_ro_le_u_ro|].
  unfold u_ro, u32.
  assert (H2 : / 2 = bpow radix2 (-1)) by (simpl; lra).
  rewrite H2, <- bpow_plus. apply Rle_refl.
Qed.

Lemma add_err (a b : F32.t) :
  fin (F32.add a b) = true ->
  exists d, Rabs d <= u32 /\ B2R (F32.add a b) = (B2R a + B2R b) * (1 + d).
Proof.
  intros H. rewrite (add_finite_R a b H). apply rnd32_plus_err.
Qed.

Lemma add_zero_l_R (x : F32.t) : fin (F32.add F32.zero x) = true ->
  B2R (F32.add F32.zero x) = B2R x.
Proof.
  intros H. rewrite (add_finite_R _ _ H).
  change (B2R F32.zero) with 0. rewrite Rplus_0_l.
  apply round_generic; [auto with typeclass_instances|apply generic_format_B2R].
Qed.

(* ---------- finiteness of the partial sums ---------- *)

Lemma fold_add_fin (l : list F32.t) (z : F32.t) :
  fin (fold_left F32.add l z) = true -> fin z = true /\ Forall (fun x => fin x = true) l.
Proof.
  revert z. induction l as [|x l IH]; intros z H; cbn [fold_left] in H.
  - split; [exact H|constructor].
  - destruct (IH _ H) as [Hz Hl]. destruct (add_fin_inv _ _ Hz) as [Fz Fx].
    split; [exact Fz|constructor; assumption].
Qed.

(* ---------- real arithmetic ---------- *)

Lemma Rsum_app (l m : list R) : Rsum (l ++ m) = Rsum l + Rsum m.
Proof.
  induction l as [|x l IH]; cbn [app Rsum fold_right].
  - fold (Rsum m). lra.
  - fold (Rsum (l ++ m)) (Rsum l) (Rsum m). rewrite IH. lra.
Qed.

Lemma Rsum_rev (l : list R) : Rsum (rev l) = Rsum l.
Proof.
  induction l as [|x l IH]; cbn [rev]; [reflexivity|].
  rewrite Rsum_app, IH. cbn [Rsum fold_right]. fold (Rsum l). lra.
Qed.

Lemma Rabsum_nonneg (l : list F32.t) : 0 <= Rabsum l.
Proof.
  unfold Rabsum. induction l as [|x l IH]; cbn [map Rsum fold_right]; [lra|].
  pose proof (Rabs_pos (B2R x)). unfold Rsum in IH. lra.
Qed.

Lemma Rabsum_rev (l : list F32.t) : Rabsum (rev l) = Rabsum l.
Proof. unfold Rabsum. rewrite map_rev. apply Rsum_rev. Qed.

Lemma pow1u_ge1 (u : R) (n : nat) : 0 <= u -> 1 <= (1 + u) ^ n.
Proof. intros Hu. apply pow_R1_Rle. lra. Qed.

(* one step of the backward-error induction *)
Lemma sum_step (acc ex x d u g S : R) :
  0 <= u -> 1 <= g -> 0 <= S ->
  Rabs d <= u ->
  Rabs (acc - ex) <= (g - 1) * S ->
  Rabs ex <= S ->
  Rabs ((acc + x) * (1 + d) - (ex + x)) <= (g * (1 + u) - 1) * (S + Rabs x).
Proof.
  intros Hu Hg HS Hd He Hex.
  replace ((acc + x) * (1 + d) - (ex + x)) with ((acc - ex) * (1 + d) + (ex + x) * d) by ring.
  eapply Rle_trans; [apply Rabs_triang|].
  pose proof (Rabs_mult_le _ _ _ _ He (Rabs_1p _ _ Hd)) as T1.
  assert (Hexx : Rabs (ex + x) <= S + Rabs x).
  { eapply Rle_trans; [apply Rabs_triang|]. lra. }
  pose proof (Rabs_mult_le _ _ _ _ Hexx Hd) as T2.
  pose proof (Rabs_pos x) as Px.
  assert (0 <= (g * (1 + u) - 1) * Rabs x - u * Rabs x).
  { replace ((g * (1 + u) - 1) * Rabs x - u * Rabs x) with ((g - 1) * (1 + u) * Rabs x) by ring.
    apply Rmult_le_pos; [apply Rmult_le_pos; lra|exact Px]. }
  replace ((g * (1 + u) - 1) * (S + Rabs x))
    with ((g - 1) * S * (1 + u) + S * u + (g * (1 + u) - 1) * Rabs x) by ring.
  lra.
Qed.

(* ---------- Goal A ---------- *)

(* invariant also carries |exact| <= |z| + sum |x_i| *)
Theorem fold_add_error (l : list F32.t) (z : F32.t) :
  fin (fold_left F32.add l z) = true ->
  Rabs (B2R (fold_left F32.add l z) - (B2R z + Rsum (map B2R l)))
  <= ((1 + u32) ^ length l - 1) * (Rabs (B2R z) + Rabsum l).
Proof.
  intros Hfin.
  (* generalise: the accumulator carries an error already *)
  cut (forall (l : list F32.t) (acc : F32.t) (ex S g : R),
          fin (fold_left F32.add l acc) = true ->
          1 <= g -> 0 <= S ->
          Rabs (B2R acc - ex) <= (g - 1) * S -> Rabs ex <= S ->
          Rabs (B2R (fold_left F32.add l acc) - (ex + Rsum (map B2R l)))
          <= (g * (1 + u32) ^ length l - 1) * (S + Rabsum l)).
  { intros Hgen.
    pose proof (Hgen l z (B2R z) (Rabs (B2R z)) 1 Hfin (Rle_refl 1) (Rabs_pos _)) as H.
    rewrite Rmult_1_l in H. apply H.
    - replace (B2R z - B2R z) with 0 by ring. rewrite Rabs_R0. lra.
    - apply Rle_refl. }
  clear. pose proof u32_pos as Hu.
  induction l as [|x l IH]; intros acc ex S g Hfin Hg HS He Hex.
  - cbn [fold_left map length pow]. unfold Rabsum. cbn [map Rsum fold_right].
    rewrite !Rplus_0_r, Rmult_1_r. exact He.
  - cbn [fold_left] in *. cbn [map length pow].
    destruct (fold_add_fin _ _ Hfin) as [Fax _].
    destruct (add_err acc x Fax) as (d & Hd & Hr).
    assert (Hstep := sum_step (B2R acc) ex (B2R x) d u32 g S (Rlt_le _ _ Hu) Hg HS Hd He Hex).
    rewrite <- Hr in Hstep.
    assert (Hg' : 1 <= g * (1 + u32)) by nra.
    assert (HS' : 0 <= S + Rabs (B2R x)) by (pose proof (Rabs_pos (B2R x)); lra).
    assert (Hex' : Rabs (ex + B2R x) <= S + Rabs (B2R x)).
    { eapply Rle_trans; [apply Rabs_triang|]. lra. }
    pose proof (IH (F32.add acc x) (ex + B2R x) (S + Rabs (B2R x)) (g * (1 + u32))
                   Hfin Hg' HS' Hstep Hex') as H.
    unfold Rabsum in *. cbn [map Rsum fold_right]. fold (Rsum (map B2R l)).
    fold (Rsum (map (fun x => Rabs (B2R x)) l)).
    replace (ex + (B2R x + Rsum (map B2R l))) with (ex + B2R x + Rsum (map B2R l)) by ring.
    replace (g * ((1 + u32) * (1 + u32) ^ length l)) with (g * (1 + u32) * (1 + u32) ^ length l) by ring.
    replace (S + (Rabs (B2R x) + Rsum (map (fun x => Rabs (B2R x)) l)))
      with (S + Rabs (B2R x) + Rsum (map (fun x => Rabs (B2R x)) l)) by ring.
    exact H.
Qed.

(* starting from +0.0 the first addition is exact: only [length l - 1] roundings *)
Theorem fold_add_zero_error (l : list F32.t) :
  fin (fold_left F32.add l F32.zero) = true ->
  Rabs (B2R (fold_left F32.add l F32.zero) - Rsum (map B2R l))
  <= ((1 + u32) ^ (length l - 1) - 1) * Rabsum l.
Proof.
  destruct l as [|x l]; intros Hfin.
  - cbn. unfold Rabsum. cbn. rewrite Rminus_0_r, Rabs_R0. lra.
  - cbn [fold_left] in *. cbn [length map]. replace (S (length l) - 1)%nat with (length l) by lia.
    pose proof (fold_add_error l _ Hfin) as H.
    destruct (fold_add_fin _ _ Hfin) as [F0 _].
    rewrite (add_zero_l_R x F0) in H.
    unfold Rabsum in *. cbn [map Rsum fold_right]. exact H.
Qed.

(* ---------- Goal B ---------- *)

Lemma two_approx (a b s e : R) : Rabs (a - s) <= e -> Rabs (b - s) <= e -> Rabs (a - b) <= 2 * e.
Proof.
  intros Ha Hb. replace (a - b) with ((a - s) + - (b - s)) by ring.
  pose proof (Rabs_triang (a - s) (- (b - s))) as HT. rewrite Rabs_Ropp in HT. lra.
Qed.

Theorem mirror_error (l : list F32.t) :
  let a := fold_left F32.add l F32.zero in
  let b := fold_left F32.add (rev l) F32.zero in
  fin a = true -> fin b = true ->
  Rabs (B2R a - B2R b) <= 2 * ((1 + u32) ^ (length l - 1) - 1) * Rabsum l.
Proof.
  intros a b Fa Fb.
  pose proof (fold_add_zero_error l Fa) as Ha. fold a in Ha.
  pose proof (fold_add_zero_error (rev l) Fb) as Hb. fold b in Hb.
  rewrite rev_length, Rabsum_rev, map_rev, Rsum_rev in Hb.
  pose proof (two_approx _ _ _ _ Ha Hb) as H. lra.
Qed.

(* the version with [length l] roundings per sum, from any start value *)
Theorem mirror_error_coarse (l : list F32.t) :
  let a := fold_left F32.add l F32.zero in
  let b := fold_left F32.add (rev l) F32.zero in
  fin a = true -> fin b = true ->
  Rabs (B2R a - B2R b) <= 2 * ((1 + u32) ^ length l - 1) * Rabsum l.
Proof.
  intros a b Fa Fb. eapply Rle_trans; [apply (mirror_error l Fa Fb)|].
  apply Rmult_le_compat_r; [apply Rabsum_nonneg|].
  apply Rmult_le_compat_l; [lra|]. apply Rplus_le_compat_r.
  apply Rle_pow; [pose proof u32_pos; lra|lia].
Qed.

(* ---------- Goal C ---------- *)

Lemma pow1u_quad (u : R) (m : nat) :
  0 <= u -> INR m * u <= 1 ->
  (1 + u) ^ m <= 1 + INR m * u + INR m * INR m * u * u.
Proof.
  intros Hu. induction m as [|m IH]; intros Hm.
  - cbn. lra.
  - rewrite S_INR in *. pose proof (pos_INR m) as Pm.
    assert (Hm' : INR m * u <= 1) by nra.
    specialize (IH Hm'). cbn [pow].
    set (k := INR m) in *.
    eapply Rle_trans; [apply Rmult_le_compat_l; [lra|exact IH]|].
    assert (0 <= k * u * u * (1 - k * u)).
    { apply Rmult_le_pos; [|lra]. apply Rmult_le_pos; [|lra]. apply Rmult_le_pos; lra. }
    assert (0 <= u * u) by nra.
    nra.
Qed.

Theorem mirror_const (n : nat) :
  (1 <= n <= 4096)%nat ->
  2 * ((1 + u32) ^ (n - 1) - 1) <= INR n * bpow radix2 (-23).
Proof.
  intros [H1 H2].
  assert (E23 : bpow radix2 (-23) = 2 * u32).
  { unfold u32. change (-23)%Z with (1 + -24)%Z. rewrite bpow_plus. simpl. lra. }
  rewrite E23. pose proof u32_pos as Hu.
  destruct n as [|m]; [lia|]. replace (S m - 1)%nat with m by lia.
  rewrite S_INR. pose proof (pos_INR m) as Pm.
  assert (Hm : INR m <= 4096).
  { replace 4096 with (INR 4096) by (rewrite INR_IZR_INZ; reflexivity). apply le_INR. lia. }
  assert (Hmu : INR m * u32 <= / 4096).
  { rewrite u32_val. lra. }
  assert (Hmu1 : INR m * u32 <= 1) by lra.
  pose proof (pow1u_quad u32 m (Rlt_le _ _ Hu) Hmu1) as HQ.
  assert (Hsq : INR m * INR m * u32 * u32 <= u32).
  { assert (INR m * INR m * u32 <= 1).
    { rewrite u32_val. assert (INR m * INR m <= 4096 * 4096) by nra. lra. }
    nra. }
  lra.
Qed.

(* ---------- Goal D ---------- *)

Lemma fin_not_nan (x : F32.t) : fin x = true -> F32.is_nan x = false.
Proof. destruct x; try discriminate; reflexivity. Qed.

Lemma existsb_nan_fin (l : list F32.t) :
  Forall (fun x => fin x = true) l -> existsb F32.is_nan l = false.
Proof.
  induction 1 as [|x l Hx Hl IH]; cbn [existsb]; [reflexivity|].
  rewrite (fin_not_nan x Hx), IH. reflexivity.
Qed.

Lemma all_some_fin (l : list F32.t) :
  Forall (fun x => fin x = true) l ->
  exists t, all_some (map f32_to_Q l) = Some t /\ map Q2R t = map B2R l.
Proof.
  induction 1 as [|x l Hx Hl IH].
  - exists []. split; reflexivity.
  - destruct IH as (t & Ht & Hm). destruct (f32_to_Q_total x Hx) as [q Eq].
    exists (q :: t). cbn [map all_some]. rewrite Eq, Ht. split; [reflexivity|].
    apply f32_to_Q_B2R in Eq. destruct Eq as [Eq _]. rewrite Eq, Hm. reflexivity.
Qed.

Lemma Q2R_fold_plus (l : list Q) (acc : Q) :
  Q2R (fold_left Qplus l acc) = Q2R acc + Rsum (map Q2R l).
Proof.
  revert acc. induction l as [|x l IH]; intros acc; cbn [fold_left map Rsum fold_right].
  - lra.
  - rewrite IH, Q2R_plus. fold (Rsum (map Q2R l)). lra.
Qed.

Lemma Q2R_Qsum_abs (t : list Q) :
  Q2R (Qsum (map Qabs t)) = Rsum (map (fun q => Rabs (Q2R q)) t).
Proof.
  unfold Qsum. rewrite Q2R_fold_plus, Q2R_0', Rplus_0_l, map_map.
  f_equal. apply map_ext. intros q. apply Q2R_abs.
Qed.

Lemma Rabsum_Q (l : list F32.t) (t : list Q) :
  map Q2R t = map B2R l -> Rsum (map (fun q => Rabs (Q2R q)) t) = Rabsum l.
Proof.
  intros H. unfold Rabsum.
  rewrite <- (map_map Q2R Rabs t), <- (map_map (@B2R 24 128) Rabs l), H. reflexivity.
Qed.

Lemma Q2R_tolc (n : nat) : Q2R (Z.of_nat n # 8388608) = INR n * bpow radix2 (-23).
Proof.
  unfold Q2R. cbn [Qnum Qden]. rewrite <- INR_IZR_INZ.
  cbn [bpow radix_val radix2].
  let v := eval vm_compute in (Z.pow_pos 2 23) in change (Z.pow_pos 2 23) with v.
  reflexivity.
Qed.

Theorem mirror_model_passes_check (l : list F32.t) :
  (length l <= 4096)%nat ->
  let a := fold_left F32.add l F32.zero in
  let b := fold_left F32.add (rev l) F32.zero in
  fin a = true -> fin b = true ->
  check_mirror l a b = true.
Proof.
  intros Hlen a b Fa Fb.
  destruct (fold_add_fin _ _ Fa) as [_ Fl].
  unfold check_mirror.
  rewrite (existsb_nan_fin l Fl), (fin_not_nan a Fa), (fin_not_nan b Fb). cbn [orb].
  destruct (all_some_fin l Fl) as (t & Ht & Hm).
  destruct (f32_to_Q_total a Fa) as [qa Ea]. destruct (f32_to_Q_total b Fb) as [qb Eb].
  rewrite Ht, Ea, Eb.
  apply f32_to_Q_B2R in Ea, Eb. destruct Ea as [Ra _], Eb as [Rb _].
  unfold Qleb. apply Qle_bool_iff. apply Rle_Qle.
  rewrite Q2R_abs, Q2R_minus, Q2R_mult, Q2R_tolc, Q2R_Qsum_abs, (Rabsum_Q l t Hm), Ra, Rb.
  assert (Hlt : length t = length l).
  { rewrite <- (map_length Q2R t), Hm, map_length. reflexivity. }
  rewrite Hlt.
  eapply Rle_trans; [apply (mirror_error l Fa Fb)|].
  apply Rmult_le_compat_r; [apply Rabsum_nonneg|].
  destruct l as [|x l'].
  - cbn. lra.
  - apply mirror_const. cbn [length] in *. lia.
Qed.

Print Assumptions fold_add_error.
Print Assumptions mirror_error.
Print Assumptions mirror_const.
Print Assumptions mirror_model_passes_check.
