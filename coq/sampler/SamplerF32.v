(* The floating-point part of the Gibbs sampler (sampler.rs prepare_pssm, update_holdout,
   the Zoops information-content test), executable definitions only.

     prepare_pssm    counts.to_freq(0.1).into_scoring(background)      LMPwm.PwmModel (binary32)
     update_holdout  score_into (scalar definition: 0.0 + row_0[s_p] + row_1[s_p+1] + ...),
                     weights 2f64.powf(x as f64 / temperature)  (temperature is always 1.0: _new
                     ignores the builder's value), WeightedIndex::new / sample of rand 0.8
                     (cumulative f64 sums, Uniform<f64>::new(0, total), one u64 of the generator,
                     binary search for the first cumulative weight above the chosen one)
     Zoops test      ScoringMatrix::information_content of the PSSM before / after inclusion

   libm enters through three Section variables, fed by oracle tables in the correspondence
   run: flog2 = f32::log2, fpow2 = 2f32.powf(x), fexp2 = 2f64.powf(y).

   A second, oracle-free description of the SUPPORT of the weights (which start positions
   can be drawn at all) works on the integer tables only: a PSSM cell is -inf exactly when
   the background count of its symbol is zero, or it is the wildcard column (pseudocount 0)
   with a zero count. *)
From Coq Require Import List Arith Bool NArith ZArith.
From LMBase Require Import Res ListX IEEE.
From LMPwm Require Import PwmModel.
From LMSampler Require Import SamplerModel.
Import ListNotations.

(* ---------- support of the weights, on the integer tables ---------- *)

Definition cell_ninf (K : nat) (bg : list N) (row : list N) (k : nat) : bool :=
  (nth k bg 0 =? 0)%N || ((k =? K - 1)%nat && (nth k row 0 =? 0)%N).

(* the window at p contains a symbol whose cell is -inf: the weight of p is 0 *)
Definition pos_dead (K : nat) (bg : list N) (motif : matrix) (s : seqt) (p : nat) : bool :=
  existsb (fun b : bool => b) (map2 (fun row x => cell_ninf K bg row x) motif (skipn p s)).

Definition support (K W : nat) (bg : list N) (motif : matrix) (s : seqt) : list bool :=
  map (fun p => negb (pos_dead K bg motif s p)) (seq 0 (length s + 1 - W)).

(* what update_holdout can do, given the support: keep the start exactly when no position
   has a positive weight (WeightedIndex::new fails with AllWeightsZero), otherwise draw a
   position of positive weight *)
Definition upd_possible (sup : list bool) (u : updc) : bool :=
  match u with
  | UKeep => forallb negb sup
  | UNew p => nth p sup false
  | UOverflow => false
  end.

(* the shape of a PSSM with respect to the integer tables it was built from: -inf exactly
   where [cell_ninf] says so, finite elsewhere (an executable test, evaluated by the driver
   on every replayed PSSM; premise of C16F.weights_support_partial) *)
Definition cell_shape (K : nat) (bg : list N) (row : list N) (frow : list F32.t) (k : nat) : bool :=
  if cell_ninf K bg row k then F32.is_neg_inf (nth k frow F32.zero)
  else F32.is_finite (nth k frow F32.zero).

Definition pssm_shape (K : nat) (bg : list N) (motif : matrix) (m : list (list F32.t)) : bool :=
  (length m =? length motif)%nat &&
  forallb (fun b : bool => b)
          (map2 (fun row frow => forallb (cell_shape K bg row frow) (seq 0 K)) motif m).

(* ---------- binary32 / binary64 replay ---------- *)

Definition f32_pseudo : F32.t := F32.of_bits 1036831949.          (* 0.1f32 = 0x3DCCCCCD *)
Definition f64_one : F64.t := F64.of_Z 1.                          (* temperature *)
Definition f64_max_rand : F64.t := F64.of_bits 4607182418800017406. (* 1 - 2^-52 = 0x3FEFFFFFFFFFFFFE:
   (u64::MAX >> 12).into_float_with_exponent(0) - 1.0 in rand 0.8.8 (until round 3 the model had 0x3FEF..FF = 1 - 2^-53) *)

Inductive wnew :=
| WErr                       (* WeightedIndex::new returned Err: the start is kept *)
| WPanic                     (* Uniform::new(0, total) panics (total not finite) *)
| WFuel                      (* the scale adjustment loop did not settle (never observed) *)
| WOk (cum : list F64.t) (total scale : F64.t).

Section Float.
  Variable K : nat.
  Variable flog2 : F32.t -> F32.t.
  Variable fpow2 : F32.t -> F32.t.
  Variable fexp2 : F64.t -> F64.t.

  (* prepare_pssm: (background frequencies, scoring matrix); Panic 7 = background().unwrap() *)
  Definition pssm_of (motif : matrix) (bgc : list N) : res (list F32.t * fmatrix) :=
    match bg_from_counts F32ops bgc with
    | Ok b => Ok (b, into_scoring F32ops flog2 b
                       (to_freq F32ops (pseudo_scalar F32ops K f32_pseudo) motif))
    | _ => Panic 7
    end.

  (* score_into: one score per start position 0 .. len - W *)
  Definition score_vec (W : nat) (m : fmatrix) (s : seqt) : list F32.t :=
    map (fun p => fold_left F32.add (window_terms F32ops m s p) F32.zero)
        (seq 0 (length s + 1 - W)).

  (* 2f64.powf(x as f64 / self.temperature) *)
  Definition weight_vec (sc : list F32.t) : list F64.t :=
    map (fun x => fexp2 (F64.div (F64.of_f32 x) f64_one)) sc.

  (* WeightedIndex::new *)
  Fixpoint wi_loop (total : F64.t) (ws acc : list F64.t) : option (list F64.t * F64.t) :=
    match ws with
    | [] => Some (rev acc, total)
    | w :: r => if F64.ge w F64.zero then wi_loop (F64.add total w) r (total :: acc) else None
    end.

  (* UniformFloat::new(0.0, total): scale = total - 0.0, decreased by one ulp while
     scale * max_rand + 0.0 >= total *)
  Fixpoint uni_scale (fuel : nat) (total scale : F64.t) : option F64.t :=
    match fuel with
    | O => None
    | S f =>
        if F64.ge (F64.add (F64.mul scale f64_max_rand) F64.zero) total
        then uni_scale f total (F64.of_bits (F64.to_bits scale - 1))
        else Some scale
    end.

  Definition wi_new (ws : list F64.t) : wnew :=
    match ws with
    | [] => WErr
    | w0 :: r =>
        if negb (F64.ge w0 F64.zero) then WErr
        else match wi_loop w0 r [] with
             | None => WErr
             | Some (cum, total) =>
                 if F64.eq total F64.zero then WErr
                 else if negb (F64.is_finite total) then WPanic
                 else match uni_scale 8 total (F64.sub total F64.zero) with
                      | Some sc => WOk cum total sc
                      | None => WFuel
                      end
             end
    end.

  (* UniformFloat::sample with the generator's next u64, then the binary search *)
  Definition uni_sample (scale : F64.t) (word : Z) : F64.t :=
    let v12 := F64.of_bits (Z.lor (Z.shiftr word 12) 4607182418800017408) in   (* [1,2) *)
    F64.add (F64.mul (F64.sub v12 f64_one) scale) F64.zero.

  Definition wi_sample (cum : list F64.t) (chosen : F64.t) : nat :=
    length (filter (fun w => F64.le w chosen) cum).

  (* update_holdout as a function of the PSSM, the hold-out and the generator's word *)
  Definition draw (W : nat) (m : fmatrix) (s : seqt) (word : option Z) : res updc :=
    match wi_new (weight_vec (score_vec W m s)) with
    | WErr => Ok UKeep
    | WPanic => Ok UOverflow
    | WFuel => OutOfFuel
    | WOk cum _ scale =>
        match word with
        | Some w => Ok (UNew (wi_sample cum (uni_sample scale w)))
        | None => Err 5          (* a draw needs a word of the generator *)
        end
    end.

  (* ScoringMatrix::information_content *)
  Definition ic_cell (x b : F32.t) : F32.t :=
    if F32.eq b F32.zero || F32.eq x F32.ninf then F32.zero
    else F32.mul (F32.mul (fpow2 x) b) x.
  Definition info_content (bg : list F32.t) (m : fmatrix) : F32.t :=
    fsum F32ops (map (fun row => fsum F32ops (map2 ic_cell row bg)) m).

  (* the Zoops test: exclude again iff newpssm.information_content() < pssm.information_content() *)
  Definition zoops_accept (old new_ : list F32.t * fmatrix) : bool :=
    negb (F32.lt (info_content (fst new_) (snd new_)) (info_content (fst old) (snd old))).
End Float.

(* ---------- next() with the choices computed ---------- *)

(* the state between exclude_sequence and include_sequence, and after include_sequence *)
Section NextF.
  Variable flog2 : F32.t -> F32.t.
  Variable fpow2 : F32.t -> F32.t.
  Variable fexp2 : F64.t -> F64.t.

  (* the choice of one call: z is still an input (select_holdout's integer draw is not
     modelled), the update and the Zoops decision are computed from the state *)
  Definition choice_of (c : cfg) (st : state) (z : nat) (word : option Z) : res choice :=
    st1 <- exclude_sequence c st z ;;
    p1 <- pssm_of (cK c) flog2 (st_motif st1) (st_bg st1) ;;
    u <- draw fexp2 (cW c) (snd p1) (nth z (cData c) []) word ;;
    st2 <- update_holdout c st1 z u ;;
    st3 <- include_sequence c st2 z ;;
    (* the information content is only compared for an inactive sequence in Zoops mode *)
    let trial := match cMode c with Zoops => negb (nth z (st_active st) false) | Oops => false end in
    if trial then
      match pssm_of (cK c) flog2 (st_motif st3) (st_bg st3) with
      | Ok p3 => Ok (mkChoice z u (zoops_accept fpow2 p1 p3))
      | _ => Ok (mkChoice z u true)     (* next() panics in prepare_pssm: the flag is irrelevant *)
      end
    else Ok (mkChoice z u true).

  Definition next_f (c : cfg) (st : state) (z : nat) (word : option Z)
    : res (state * option iteration) :=
    if st_conv st then Ok (st, None)
    else ch <- choice_of c st z word ;; next c st ch.
End NextF.

(* ---------- next() driven by the generator only: hold-out index + one word ---------- *)

(* the 52-bit fraction of UniformFloat::sample: (bits >> 12 | 1.0) - 1.0, in [0, 1 - 2^-52] *)
Definition u01 (word : Z) : F64.t :=
  F64.sub (F64.of_bits (Z.lor (Z.shiftr word 12) 4607182418800017408)) f64_one.

(* 0 <= u01 word <= 1 - 2^-52 (true of every u64 word; an executable test) *)
Definition word_ok (word : Z) : bool :=
  F64.le F64.zero (u01 word) && F64.le (u01 word) f64_max_rand.

(* what Uniform::new leaves as scale: a finite value >= 0 (an executable test) *)
Definition scale_ok (scale : F64.t) : bool := F64.is_finite scale && F64.le F64.zero scale.

Section NextG.
  Variable flog2 : F32.t -> F32.t.
  Variable fpow2 : F32.t -> F32.t.
  Variable fexp2 : F64.t -> F64.t.

  (* like next_f, with select_holdout's range / seed test in front (as in next()) *)
  Definition next_g (c : cfg) (st : state) (z : nat) (word : option Z)
    : res (state * option iteration) :=
    if st_conv st then Ok (st, None)
    else z' <- select_holdout c st z ;;
         ch <- choice_of flog2 fpow2 fexp2 c st z' word ;;
         next c st ch.

  Fixpoint run_g (c : cfg) (st : state) (zws : list (nat * option Z))
    : res (list (state * option iteration)) :=
    match zws with
    | [] => Ok []
    | zw :: r =>
        x <- next_g c st (fst zw) (snd zw) ;;
        t <- run_g c (fst x) r ;;
        Ok (x :: t)
    end.
End NextG.
