(* The structured reading of lightmotif/src/sampler.rs (GenSampler.v, generated on every run by
   translate/sampler_skel.py) interpreted over the hand-written model (SamplerModel.v,
   SamplerF32.v): the statement lists of include_sequence / exclude_sequence / _new are run by a
   small interpreter built from the model's own primitives (so every panic site of the model is
   kept), and the theorems say that the interpretation of the GENERATED data is the hand model
   for all states.  They break when the source changes an operator, a table, a loop bound, an
   index expression, the order of the statements, the polarity of a guard, a literal or a
   comparison; they do not depend on white space, comments or the names of local variables
   (the translator normalises those), nor on the gen_skel_* strings. *)
From Coq Require Import String.
From Coq Require Import List Arith Bool NArith ZArith Lia.
From LMBase Require Import Res ListX IEEE.
From LMSampler Require Import SamplerModel SamplerF32 SamplerSkelT GenSampler SamplerSkelLemmas.
Import ListNotations.
Local Open Scope N_scope.

(* ---------- offsets and operators ---------- *)

(* n + o; [offn n 0] is n by computation (for a variable n) *)
Definition offn (n : nat) (o : Z) : nat :=
  match o with
  | Z0 => n
  | Zpos p => (n + Pos.to_nat p)%nat
  | Zneg p => (n - Pos.to_nat p)%nat
  end.

(* lo .. hi *)
Definition range (lo : Z) (hi : nat) : list nat :=
  match lo with
  | Z0 => seq 0 hi
  | Zpos p => seq (Pos.to_nat p) (hi - Pos.to_nat p)
  | Zneg _ => []
  end.

(* motif cells are u32: `+= n` overflows at u32::MAX (site 11), `-= n` underflows (site 12) *)
Definition cell_op (op : aop) (a : Z) : N -> res N :=
  match op with
  | OpAdd => fun v => if v + Z.to_N a <=? u32_max then Ok (v + Z.to_N a) else Panic 11
  | OpSub => fun v => sub_usize v (Z.to_N a)
  end.

(* background counts are usize *)
Definition bg_op (op : aop) (a : Z) : N -> res N :=
  match op with
  | OpAdd => fun v => add_usize v (Z.to_N a)
  | OpSub => fun v => sub_usize v (Z.to_N a)
  end.

Definition sym_op (op : aop) : N -> N -> res N :=
  match op with OpAdd => add_usize | OpSub => sub_usize end.

(* ---------- the three loops ---------- *)

Definition i_motif_win (c : cfg) (lo len pos row : Z) (f : N -> res N) (s : seqt) (start : nat)
                       (m : matrix) : res matrix :=
  loop (fun i m => sym <- seq_get s (offn (offn start lo + i) pos) ;; cell_upd f m (offn i row) sym)
       (seq 0 (offn (cW c) len)) m.

Definition i_bg_win (c : cfg) (lo len pos : Z) (f : N -> res N) (s : seqt) (start : nat)
                    (bg : list N) : res (list N) :=
  loop (fun i bg => sym <- seq_get s (offn (offn start lo + i) pos) ;; vec_upd f bg sym)
       (seq 0 (offn (cW c) len)) bg.

Definition i_sym_loop (c : cfg) (lo hi tab cnt : Z) (f : N -> N -> res N) (cnts bg : list N)
  : res (list N) :=
  loop (fun k bg =>
          if (offn k cnt <? length cnts)%nat
          then vec_upd (fun v => f v (nth (offn k cnt) cnts 0)) bg (offn k tab)
          else Panic 10)
       (range lo (offn (cK c) hi)) bg.

(* ---------- a statement list, over (motif, background counts, active bits, active count) ---------- *)

Fixpoint interp_body {R : Type} (body : list stmt) (c : cfg) (s : seqt) (start : nat) (cnts : list N)
         (z : nat) (m : matrix) (bg : list N) (a : list bool) (n : N)
         (k : matrix -> list N -> list bool -> N -> res R) : res R :=
  match body with
  | [] => k m bg a n
  | SMotifWin lo len pos row op am :: r =>
      m' <- i_motif_win c lo len pos row (cell_op op am) s start m ;;
      interp_body r c s start cnts z m' bg a n k
  | SBgWin lo len pos op am :: r =>
      b' <- i_bg_win c lo len pos (bg_op op am) s start bg ;;
      interp_body r c s start cnts z m b' a n k
  | SSymLoop lo hi tab cnt op :: r =>
      b' <- i_sym_loop c lo hi tab cnt (sym_op op) cnts bg ;;
      interp_body r c s start cnts z m b' a n k
  | SActiveSet :: r =>
      ac <- bv_set a n z ;; interp_body r c s start cnts z m bg (fst ac) (snd ac) k
  | SActiveUnset :: r =>
      ac <- bv_unset a n z ;; interp_body r c s start cnts z m bg (fst ac) (snd ac) k
  end.

(* include_sequence / exclude_sequence as read from the source; Err 99: the source indexes with
   something else than the parameter z (not interpretable, and never equal to the model) *)
Definition interp_guarded (g : guarded) (c : cfg) (st : state) (z : nat) : res state :=
  if g_seq_by_z g && g_start_by_z g && g_counts_by_z g && g_test_by_z g then
    f <- fetch c st z ;;
    let '(s, start, cnts) := f in
    a <- bv_test (st_active st) z ;;
    let body :=
      interp_body (g_body g) c s start cnts z (st_motif st) (st_bg st) (st_active st) (st_count st)
                  (fun m b a' n' => Ok (set_active (set_counts st m b) a' n')) in
    if g_negated g then (if a then Ok st else body) else (if a then body else Ok st)
  else Err 99.

(* ---------- include_sequence / exclude_sequence ---------- *)

Theorem gen_include_is_model : forall c st z,
  interp_guarded gen_include c st z = include_sequence c st z.
Proof. intros c st z. reflexivity. Qed.

Theorem gen_exclude_is_model : forall c st z,
  interp_guarded gen_exclude c st z = exclude_sequence c st z.
Proof. intros c st z. reflexivity. Qed.

(* ---------- Sampler::_new: the construction loops ---------- *)

Definition is_motif_stmt (x : stmt) : bool := match x with SMotifWin _ _ _ _ _ _ => true | _ => false end.
Definition is_bg_stmt (x : stmt) : bool :=
  match x with SBgWin _ _ _ _ _ => true | SSymLoop _ _ _ _ _ => true | _ => false end.

Definition ctor_flags (l : ctor_loop) : bool := cl_test_by_i l && cl_start_by_i l && cl_counts_by_i l.

(* one round of the first loop: `if active.test(i) { let start = starts[i]; body }` on the motif *)
Definition interp_ctor_motif (l : ctor_loop) (c : cfg) (act : list bool) (starts0 : list nat)
                             (i : nat) (mo : matrix) : res matrix :=
  if ctor_flags l && forallb is_motif_stmt (cl_body l) then
    a <- bv_test act i ;;
    let body := interp_body (cl_body l) c (nth i (cData c) []) (nth i starts0 O) (nth i (cCounts c) []) i
                            mo [] act 0 (fun m _ _ _ => Ok m) in
    if cl_negated l then (if a then Ok mo else body) else (if a then body else Ok mo)
  else Err 99.

(* one round of the second loop, on the background counts *)
Definition interp_ctor_bg (l : ctor_loop) (c : cfg) (act : list bool) (starts0 : list nat)
                          (i : nat) (bg : list N) : res (list N) :=
  if ctor_flags l && forallb is_bg_stmt (cl_body l) then
    a <- bv_test act i ;;
    let body := interp_body (cl_body l) c (nth i (cData c) []) (nth i starts0 O) (nth i (cCounts c) []) i
                            [] bg act 0 (fun _ b _ _ => Ok b) in
    if cl_negated l then (if a then Ok bg else body) else (if a then body else Ok bg)
  else Err 99.

Definition interp_new_build (loops : list ctor_loop) (nf : new_fields) (c : cfg) (act : list bool)
                            (cnt : N) (starts0 : list nat) : res state :=
  match loops with
  | [l1; l2] =>
      if nf_motif_rows_is_width nf && nf_bg_is_default nf then
        mo <- loop (interp_ctor_motif l1 c act starts0) (seq 0 (length (cData c)))
                   (zero_matrix (cW c) (cK c)) ;;
        bg <- loop (interp_ctor_bg l2 c act starts0) (seq 0 (length (cData c))) (repeat 0 (cK c)) ;;
        Ok (mkState act cnt starts0 mo bg (Z.to_N (nf_step nf)) (Z.to_N (nf_last_inclusion nf))
                    (nf_converged nf))
      else Err 99
  | _ => Err 99
  end.

Definition dummy_loop : ctor_loop := mkCtorLoop false false false false [].
Definition gen_loop1 : ctor_loop := nth 0 gen_new_loops dummy_loop.
Definition gen_loop2 : ctor_loop := nth 1 gen_new_loops dummy_loop.

Lemma gen_ctor_motif_is_model c act starts0 i mo :
  interp_ctor_motif gen_loop1 c act starts0 i mo =
  (a <- bv_test act i ;;
   if a then motif_window c inc_u32 (nth i (cData c) []) (nth i starts0 O) mo else Ok mo).
Proof.
  change (interp_ctor_motif gen_loop1 c act starts0 i mo) with
    (a <- bv_test act i ;;
     if a then (m <- motif_window c inc_u32 (nth i (cData c) []) (nth i starts0 O) mo ;; Ok m) else Ok mo).
  destruct (bv_test act i) as [[|]| | |]; cbn [rbind]; try reflexivity.
  apply rbind_Ok_r.
Qed.

Lemma gen_ctor_bg_is_model c act starts0 i bg :
  interp_ctor_bg gen_loop2 c act starts0 i bg =
  (a <- bv_test act i ;;
   if a then
     b1 <- bg_counts c add_usize (nth i (cCounts c) []) bg ;;
     bg_window c dec1 (nth i (cData c) []) (nth i starts0 O) b1
   else Ok bg).
Proof.
  change (interp_ctor_bg gen_loop2 c act starts0 i bg) with
    (a <- bv_test act i ;;
     if a then
       b1 <- bg_counts c add_usize (nth i (cCounts c) []) bg ;;
       b2 <- bg_window c dec1 (nth i (cData c) []) (nth i starts0 O) b1 ;; Ok b2
     else Ok bg).
  destruct (bv_test act i) as [[|]| | |]; cbn [rbind]; try reflexivity.
  destruct (bg_counts c add_usize (nth i (cCounts c) []) bg); cbn [rbind]; try reflexivity.
  apply rbind_Ok_r.
Qed.

(* the two construction loops (order: motif, then background: symbol counts += before window -=),
   the guard `if active.test(i)`, the initial tables and the initial step / last_inclusion /
   converged fields *)
Theorem gen_new_build_is_model : forall c act cnt starts0,
  gen_new_loops = [gen_loop1; gen_loop2] /\
  interp_new_build gen_new_loops gen_new_fields c act cnt starts0 = new_build c act cnt starts0.
Proof.
  intros c act cnt starts0. split; [reflexivity|].
  change (interp_new_build gen_new_loops gen_new_fields c act cnt starts0) with
    (mo <- loop (interp_ctor_motif gen_loop1 c act starts0) (seq 0 (length (cData c)))
                (zero_matrix (cW c) (cK c)) ;;
     bg <- loop (interp_ctor_bg gen_loop2 c act starts0) (seq 0 (length (cData c))) (repeat 0 (cK c)) ;;
     Ok (mkState act cnt starts0 mo bg 0 0 false)).
  unfold new_build.
  rewrite (loop_ext _ _ (gen_ctor_motif_is_model c act starts0)).
  rewrite (loop_ext _ _ (gen_ctor_bg_is_model c act starts0)).
  reflexivity.
Qed.

(* ---------- Sampler::_new: the wrap guard and the initial start distribution ---------- *)

Definition cmp_nat (o : cmp) (a b : nat) : bool :=
  match o with
  | CLt => (a <? b)%nat | CLe => (a <=? b)%nat | CGt => (b <? a)%nat | CGe => (b <=? a)%nat
  | CEq => (a =? b)%nat | CNe => negb (a =? b)%nat
  end.

Definition cmp_N (o : cmp) (a b : N) : bool :=
  match o with
  | CLt => a <? b | CLe => a <=? b | CGt => b <? a | CGe => b <=? a
  | CEq => a =? b | CNe => negb (a =? b)
  end.

(* `if sequences.iter().any(|x| x.wrap() CMP width + off) { panic!() }` *)
Definition wrap_panics (g : wrap_guard) (W : nat) (wraps : list nat) : bool :=
  wg_panics g && existsb (fun wr => cmp_nat (wg_cmp g) wr (offn W (wg_width_off g))) wraps.

(* Uniform::new(lo, len - width + hi_off) can draw [start] (len >= width) *)
Definition uniform_accepts (d : start_dist) (W len start : nat) : bool :=
  ((sd_lo d <=? Z.of_nat start)%Z &&
   (Z.of_nat start <? Z.of_nat len - Z.of_nat W + sd_hi_off d)%Z)%bool.

Theorem gen_wrap_guard_is_model :
  (* the generated guard is the model's guard .. *)
  (forall W wraps, wrap_panics gen_wrap_guard W wraps = existsb (fun wr => (wr <? W)%nat) wraps) /\
  (* .. new_ panics at site 1 when it holds .. *)
  (forall K W data wraps m ini ine pat starts0 seeds0,
     wrap_panics gen_wrap_guard W wraps = true ->
     new_ K W data wraps m ini ine pat starts0 seeds0 = Panic 1) /\
  (* .. and the wrap rows have no other influence *)
  (forall K W data wraps m ini ine pat starts0 seeds0,
     wrap_panics gen_wrap_guard W wraps = false ->
     new_ K W data wraps m ini ine pat starts0 seeds0 = new_ K W data [] m ini ine pat starts0 seeds0).
Proof.
  split; [intros; reflexivity|]. split.
  - intros K W data wraps m ini ine pat starts0 seeds0 H.
    change (existsb (fun wr => (wr <? W)%nat) wraps = true) in H.
    unfold new_. rewrite H. reflexivity.
  - intros K W data wraps m ini ine pat starts0 seeds0 H.
    change (existsb (fun wr => (wr <? W)%nat) wraps = false) in H.
    unfold new_. rewrite H. reflexivity.
Qed.

(* the starts the initial distribution can draw are exactly those accepted by starts_in_range *)
Theorem gen_start_dist_is_model : forall W len start,
  (W <= len)%nat ->
  uniform_accepts gen_start_dist W len start = (start + W <=? len)%nat.
Proof.
  intros W len start H. unfold uniform_accepts, gen_start_dist. cbn [sd_lo sd_hi_off].
  destruct (Nat.leb_spec (start + W) len) as [H1|H1].
  - apply andb_true_intro. split; [apply Z.leb_le; lia | apply Z.ltb_lt; lia].
  - apply andb_false_intro2. apply Z.ltb_ge. lia.
Qed.

Theorem gen_start_dist_is_starts_in_range : forall W data starts,
  forallb (fun s => (W <=? length s)%nat) data = true ->
  starts_in_range W data starts =
  ((length starts =? length data)%nat &&
   forallb (fun i => uniform_accepts gen_start_dist W (length (nth i data [])) (nth i starts O))
           (seq 0 (length data)))%bool.
Proof.
  intros W data starts H. unfold starts_in_range. f_equal.
  assert (HF : forall l, (forall i, In i l -> (i < length data)%nat) ->
            forallb (fun i => (nth i starts O + W <=? length (nth i data []))%nat) l =
            forallb (fun i => uniform_accepts gen_start_dist W (length (nth i data [])) (nth i starts O)) l).
  { induction l as [|i r IH]; intros Hl; [reflexivity|]. cbn [forallb].
    rewrite IH by (intros j Hj; apply Hl; right; exact Hj).
    rewrite gen_start_dist_is_model; [reflexivity|].
    apply Nat.leb_le. rewrite forallb_forall in H. apply H. apply nth_In. apply Hl. left. reflexivity. }
  apply HF. intros i Hi. apply in_seq in Hi. lia.
Qed.

Theorem gen_new_guards_are_model :
  (forall W wraps, wrap_panics gen_wrap_guard W wraps = existsb (fun wr => (wr <? W)%nat) wraps) /\
  (forall K W data wraps m ini ine pat starts0 seeds0,
     wrap_panics gen_wrap_guard W wraps = true ->
     new_ K W data wraps m ini ine pat starts0 seeds0 = Panic 1) /\
  (forall W len start, (W <= len)%nat ->
     uniform_accepts gen_start_dist W len start = (start + W <=? len)%nat).
Proof.
  split; [exact (proj1 gen_wrap_guard_is_model)|].
  split; [exact (proj1 (proj2 gen_wrap_guard_is_model)) | exact gen_start_dist_is_model].
Qed.

(* ---------- prepare_pssm ---------- *)

Theorem gen_pseudocount_is_model : f32_pseudo = F32.of_bits gen_pseudo_bits.
Proof. unfold f32_pseudo. apply f_equal. reflexivity. Qed.

(* counts.to_freq(..).into_scoring(background) with background = self.background() and
   counts = self.count_matrix(), value (counts, pssm): what pssm_of / prepare_pssm model *)
Theorem gen_prepare_wiring_is_model :
  (pp_bg_is_background gen_prepare && pp_counts_is_count_matrix gen_prepare
   && pp_returns_counts_pssm gen_prepare)%bool = true.
Proof. reflexivity. Qed.

(* ---------- update_holdout ---------- *)

Local Open Scope string_scope.

(* the weight of one score as read from the source; None: not the shape the model has *)
Definition interp_weight (u : update) (fexp2 : F64.t -> F64.t) (temperature : F64.t) (x : F32.t)
  : option F64.t :=
  if ((up_base u =? 2)%Z && (up_base_text u =? "2f64") && (up_fn u =? "powf")
      && (up_exp_num u =? "x as f64") && (up_exp_op u =? "/") && (up_exp_den u =? "self.temperature"))%bool
  then Some (fexp2 (F64.div (F64.of_f32 x) temperature))
  else None.

Local Close Scope string_scope.

Theorem gen_weights_are_model :
  (* 2f64.powf(x as f64 / self.temperature), fexp2 standing for 2f64.powf *)
  (forall fexp2 sc, map (interp_weight gen_update fexp2 f64_one) sc = map Some (weight_vec fexp2 sc)) /\
  (* the temperature is the literal of _new (1.0) and no method read here assigns it *)
  F64.to_bits f64_one = nf_temperature_bits gen_new_fields /\
  up_temperature_writes gen_update = 0%nat /\
  (* score_into(.., sequences[z], ..); WeightedIndex::new(weights); if let Ok(dist);
     self.starts[z] = dist.sample(..) *)
  (up_score_seq_by_z gen_update && up_weighted_index_of_weights gen_update
   && up_guard_if_let_ok gen_update && up_assign_starts_by_z gen_update)%bool = true.
Proof.
  split; [|split; [vm_compute; reflexivity | split; reflexivity]].
  intros fexp2 sc. unfold weight_vec. rewrite map_map. reflexivity.
Qed.

(* ---------- select_holdout ---------- *)

(* select_holdout as read from the source: the inertia guard with the generated comparison *)
Definition interp_select (g : select) (c : cfg) (st : state) (z : nat) : res nat :=
  if ((se_zoops_guard_lhs g =? "self.step")%string && (se_zoops_guard_rhs g =? "self.inertia")%string
      && se_zoops_seed_choose g && (se_uniform_lo g =? 0)%Z
      && (se_uniform_hi g =? "self.starts.len()")%string)%bool then
    let n := length (st_starts st) in
    let uniform :=
      if (n =? 0)%nat then Panic 6
      else if (z <? n)%nat then Ok z else Err 3 in
    match cMode c with
    | Zoops =>
        if cmp_N (se_zoops_guard_cmp g) (st_step st) (cInertia c) then
          match cSeed c with
          | [] => Panic 5
          | _ => if existsb (Nat.eqb z) (cSeed c) then Ok z else Err 3
          end
        else uniform
    | Oops => uniform
    end
  else Err 99.

Theorem gen_select_holdout_is_model : forall c st z,
  interp_select gen_select c st z = select_holdout c st z.
Proof. intros c st z. reflexivity. Qed.

Theorem gen_select_is_model :
  (forall c st,
     cmp_N (se_zoops_guard_cmp gen_select) (st_step st) (cInertia c) = (st_step st <? cInertia c)) /\
  se_zoops_guard_lhs gen_select = "self.step"%string /\
  se_zoops_guard_rhs gen_select = "self.inertia"%string /\
  se_zoops_seed_choose gen_select = true /\
  se_uniform_lo gen_select = 0%Z /\
  se_uniform_hi gen_select = "self.starts.len()"%string.
Proof. repeat split; reflexivity. Qed.

(* ---------- Iterator::next ---------- *)

(* the order of the calls that SamplerModel.next / resample / zoops_test implement *)
Definition model_next_order : list ncall :=
  [ NIfConvergedReturnNone;          (* next:       if st_conv st then Ok (st, None) *)
    NSelectHoldout;                  (* next:       z <- select_holdout c st (ch_z ch) *)
    NActiveTest;                     (* next:       active <- bv_test (st_active st) z *)
    NExclude;                        (* resample:   st1 <- exclude_sequence c st z *)
    NPreparePssm PMain;              (* resample:   cm <- prepare_pssm st1 *)
    NUpdateHoldout PMain;            (* resample:   st2 <- update_holdout c st1 z u *)
    NInclude;                        (* resample:   st3 <- include_sequence c st2 z *)
    NIfZoopsInactive                 (* next:       match cMode c, active with Zoops, false => zoops_test .. *)
      [ NPreparePssm PNew;           (* zoops_test: _ <- prepare_pssm st3 *)
        NIfInfo PNew CLt PMain       (* zoops_test: if accept, accept = negb (F32.lt new old) (zoops_accept) *)
          [ NExclude ]               (*             else exclude_sequence c st3 z *)
          [ NSetLastInclusion ];     (*             then st_last := st_step *)
        NIfPatience CGt              (* zoops_test: d <- sub_usize (st_step st') (st_last st');
                                                    if cPatience c <? d *)
          [ NSetConverged true ] ];  (*             then st_conv := true *)
    NStepAdd 1;                      (* next:       if st_step st4 + 1 <=? usize_max .. st_step st4 + 1 *)
    NYield PMain true true (-1)      (* next:       mkIter (fst (fst r)) (snd (fst r)) z (st_step st4) *)
  ].

(* the two tests of the Zoops branch, read from the generated list *)
Fixpoint find_zoops (l : list ncall) : option (list ncall) :=
  match l with
  | [] => None
  | NIfZoopsInactive b :: _ => Some b
  | _ :: r => find_zoops r
  end.

Fixpoint find_info (l : list ncall) : option (pssm_id * cmp * pssm_id * list ncall * list ncall) :=
  match l with
  | [] => None
  | NIfInfo a o b t e :: _ => Some (a, o, b, t, e)
  | _ :: r => find_info r
  end.

Fixpoint find_patience (l : list ncall) : option (cmp * list ncall) :=
  match l with
  | [] => None
  | NIfPatience o b :: _ => Some (o, b)
  | _ :: r => find_patience r
  end.

Definition has_exclude (l : list ncall) : bool :=
  existsb (fun x => match x with NExclude => true | _ => false end) l.
Definition sets_converged (l : list ncall) : bool :=
  existsb (fun x => match x with NSetConverged true => true | _ => false end) l.

Definition cmp_f32 (o : cmp) (a b : F32.t) : bool :=
  match o with
  | CLt => F32.lt a b | CLe => F32.le a b | CGt => F32.gt a b | CGe => F32.ge a b
  | CEq => F32.eq a b | CNe => negb (F32.eq a b)
  end.

Definition pick {A} (p : pssm_id) (main new_ : A) : A := match p with PMain => main | PNew => new_ end.

(* is the sequence excluded again, given the information contents of pssm / newpssm? *)
Definition info_excludes (l : list ncall) (ic_main ic_new : F32.t) : option bool :=
  match find_zoops l with
  | Some zb =>
      match find_info zb with
      | Some (a, o, b, t, e) =>
          Some (if cmp_f32 o (pick a ic_main ic_new) (pick b ic_main ic_new)
                then has_exclude t else has_exclude e)
      | None => None
      end
  | None => None
  end.

(* does the patience test set `converged`, given d = step - last_inclusion? *)
Definition patience_converges (l : list ncall) (patience d : N) : option bool :=
  match find_zoops l with
  | Some zb =>
      match find_patience zb with
      | Some (o, b) => Some (if cmp_N o d patience then sets_converged b else false)
      | None => None
      end
  | None => None
  end.

Theorem gen_zoops_test_is_model :
  (* exclude again iff newpssm.information_content() < pssm.information_content() *)
  (forall fpow2 old new_,
     info_excludes gen_next (info_content fpow2 (fst old) (snd old))
                            (info_content fpow2 (fst new_) (snd new_))
     = Some (negb (zoops_accept fpow2 old new_))) /\
  (* converged iff step - last_inclusion > patience *)
  (forall c d, patience_converges gen_next (cPatience c) d = Some (cPatience c <? d)).
Proof.
  split.
  - intros fpow2 old new_. unfold zoops_accept. rewrite negb_involutive.
    change (info_excludes gen_next (info_content fpow2 (fst old) (snd old))
                                   (info_content fpow2 (fst new_) (snd new_)))
      with (Some (if F32.lt (info_content fpow2 (fst new_) (snd new_))
                            (info_content fpow2 (fst old) (snd old)) then true else false)).
    destruct (F32.lt _ _); reflexivity.
  - intros c d.
    change (patience_converges gen_next (cPatience c) d)
      with (Some (if cPatience c <? d then true else false)).
    destruct (cPatience c <? d); reflexivity.
Qed.

Theorem gen_next_order_is_model : gen_next = model_next_order.
Proof. reflexivity. Qed.

(* ---------- an interpreter of the call list of Iterator::next ---------- *)

(* the sampler state and the local bindings of next(): z, active, cm (bound together with pssm),
   newpssm *)
Record mach := mkMach {
  m_st : state; m_z : option nat; m_act : option bool; m_cm : option (matrix * N); m_new : bool }.

Inductive outcome := Cont (m : mach) | Ret (v : state * option iteration).

Definition with_st (m : mach) (st : state) : mach := mkMach st (m_z m) (m_act m) (m_cm m) (m_new m).

(* Err 98: a binding is used before it exists (not a Rust program) *)
Definition need_z (m : mach) : res nat := match m_z m with Some z => Ok z | None => Err 98 end.

(* the model's choice [ch_accept] stands for negb (newpssm.ic() < pssm.ic()) (zoops_accept) *)
Definition info_is_new_lt_main (l : pssm_id) (o : cmp) (r : pssm_id) : bool :=
  match l, o, r with
  | PNew, CLt, PMain => true
  | PMain, CGt, PNew => true
  | _, _, _ => false
  end.

(* v + o on usize *)
Definition offN (v : N) (o : Z) : res N :=
  match o with
  | Z0 => Ok v
  | Zpos p => add_usize v (Npos p)
  | Zneg p => sub_usize v (Npos p)
  end.

Definition st_set_last (st : state) (l : N) : state :=
  mkState (st_active st) (st_count st) (st_starts st) (st_motif st) (st_bg st) (st_step st) l (st_conv st).
Definition st_set_conv (st : state) (b : bool) : state :=
  mkState (st_active st) (st_count st) (st_starts st) (st_motif st) (st_bg st) (st_step st) (st_last st) b.
Definition st_set_step (st : state) (s : N) : state :=
  mkState (st_active st) (st_count st) (st_starts st) (st_motif st) (st_bg st) s (st_last st) (st_conv st).

Section Exec.
  Variable c : cfg.
  Variable ch : choice.

  Fixpoint exec_call (x : ncall) (m : mach) {struct x} : res outcome :=
    let exec_block :=
      fix go (l : list ncall) (m : mach) {struct l} : res outcome :=
        match l with
        | [] => Ok (Cont m)
        | y :: r => o <- exec_call y m ;;
                    match o with Cont m' => go r m' | Ret v => Ok (Ret v) end
        end in
    let st := m_st m in
    match x with
    | NIfConvergedReturnNone => if st_conv st then Ok (Ret (st, None)) else Ok (Cont m)
    | NSelectHoldout =>
        z <- select_holdout c st (ch_z ch) ;;
        Ok (Cont (mkMach st (Some z) (m_act m) (m_cm m) (m_new m)))
    | NActiveTest =>
        z <- need_z m ;; a <- bv_test (st_active st) z ;;
        Ok (Cont (mkMach st (m_z m) (Some a) (m_cm m) (m_new m)))
    | NExclude => z <- need_z m ;; st' <- exclude_sequence c st z ;; Ok (Cont (with_st m st'))
    | NInclude => z <- need_z m ;; st' <- include_sequence c st z ;; Ok (Cont (with_st m st'))
    | NPreparePssm PMain =>
        cm <- prepare_pssm st ;; Ok (Cont (mkMach st (m_z m) (m_act m) (Some cm) (m_new m)))
    | NPreparePssm PNew =>
        _ <- prepare_pssm st ;; Ok (Cont (mkMach st (m_z m) (m_act m) (m_cm m) true))
    | NUpdateHoldout PMain =>
        z <- need_z m ;;
        match m_cm m with
        | Some _ => st' <- update_holdout c st z (ch_upd ch) ;; Ok (Cont (with_st m st'))
        | None => Err 98
        end
    | NUpdateHoldout PNew => Err 99     (* [ch_upd] describes a draw from the main PSSM *)
    | NIfZoopsInactive body =>
        match m_act m with
        | Some a => match cMode c, a with
                    | Zoops, false => exec_block body m
                    | _, _ => Ok (Cont m)
                    end
        | None => Err 98
        end
    | NIfInfo l o r t e =>
        match m_cm m, m_new m with
        | Some _, true =>
            if info_is_new_lt_main l o r
            then (if ch_accept ch then exec_block e m else exec_block t m)
            else Err 99                 (* not the comparison [ch_accept] stands for *)
        | _, _ => Err 98
        end
    | NSetLastInclusion => Ok (Cont (with_st m (st_set_last st (st_step st))))
    | NIfPatience o body =>
        d <- sub_usize (st_step st) (st_last st) ;;
        if cmp_N o d (cPatience c) then exec_block body m else Ok (Cont m)
    | NSetConverged b => Ok (Cont (with_st m (st_set_conv st b)))
    | NStepAdd n =>
        if st_step st + Z.to_N n <=? usize_max
        then Ok (Cont (with_st m (st_set_step st (st_step st + Z.to_N n))))
        else Panic 9
    | NYield p cm_ok z_ok off =>
        if cm_ok && z_ok then
          match p, m_cm m, m_z m with
          | PMain, Some cm, Some z =>
              s <- offN (st_step st) off ;; Ok (Ret (st, Some (mkIter (fst cm) (snd cm) z s)))
          | _, _, _ => Err 98
          end
        else Err 99
    end.

  Fixpoint exec_block (l : list ncall) (m : mach) {struct l} : res outcome :=
    match l with
    | [] => Ok (Cont m)
    | y :: r => o <- exec_call y m ;;
                match o with Cont m' => exec_block r m' | Ret v => Ok (Ret v) end
    end.

  (* Err 97: the body ends without a value *)
  Definition interp_next (l : list ncall) (st : state) : res (state * option iteration) :=
    o <- exec_block l (mkMach st None None None false) ;;
    match o with Ret v => Ok v | Cont _ => Err 97 end.
End Exec.

Ltac red1 :=
  cbn [rbind exec_call exec_block interp_next m_st m_z m_act m_cm m_new with_st need_z fst snd
       info_is_new_lt_main cmp_N andb Z.to_N offN st_set_last st_set_conv st_set_step
       st_active st_count st_starts st_motif st_bg st_step st_last st_conv].

(* Iterator::next as read from the source, run on the model's primitives with the model's choice
   record (z, outcome of update_holdout, outcome of the information-content comparison), is the
   model's next for all configurations, states and choices *)
Theorem gen_next_is_model : forall c st ch, interp_next c ch gen_next st = next c st ch.
Proof.
  intros c st ch. unfold interp_next, next, resample, zoops_test, gen_next. red1.
  destruct (st_conv st) eqn:Hconv; red1; [reflexivity|].
  destruct (select_holdout c st (ch_z ch)) as [z| | |]; red1; try reflexivity.
  destruct (bv_test (st_active st) z) as [a| | |]; red1; try reflexivity.
  destruct (exclude_sequence c st z) as [st1| | |]; red1; try reflexivity.
  destruct (prepare_pssm st1) as [cm| | |]; red1; try reflexivity.
  destruct (update_holdout c st1 z (ch_upd ch)) as [st2| | |]; red1; try reflexivity.
  destruct (include_sequence c st2 z) as [st3| | |]; red1; try reflexivity.
  destruct (cMode c); red1.
  - destruct (st_step st3 + 1 <=? usize_max); red1; [rewrite sub_usize_add_1; reflexivity | reflexivity].
  - destruct a; red1.
    + destruct (st_step st3 + 1 <=? usize_max); red1; [rewrite sub_usize_add_1; reflexivity | reflexivity].
    + destruct (prepare_pssm st3) as [cm'| | |]; red1; try reflexivity.
      destruct (ch_accept ch); red1.
      * destruct (sub_usize (st_step st3) (st_step st3)) as [d| | |]; red1; try reflexivity.
        destruct (cPatience c <? d); red1;
          (match goal with |- context [?s + 1 <=? usize_max] => destruct (s + 1 <=? usize_max) end);
          red1; try reflexivity; rewrite sub_usize_add_1; reflexivity.
      * destruct (exclude_sequence c st3 z) as [st5| | |]; red1; try reflexivity.
        destruct (sub_usize (st_step st5) (st_last st5)) as [d| | |]; red1; try reflexivity.
        destruct (cPatience c <? d); red1;
          (match goal with |- context [?s + 1 <=? usize_max] => destruct (s + 1 <=? usize_max) end);
          red1; try reflexivity; rewrite sub_usize_add_1; reflexivity.
Qed.
