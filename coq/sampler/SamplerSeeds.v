(* rand::seq::index::sample as modelled by SamplerStream.index_sample returns a VALID seed set:
   `amount` pairwise distinct indices below `length` -- Floyd's algorithm (with or without the
   in-loop shuffle, and the trailing shuffle) and the in-place partial Fisher-Yates.  Hence the
   construction of the stream-driven sampler never ends in Err 2 (seed set rejected by new_). *)
From Coq Require Import List Arith Bool NArith ZArith Lia Permutation.
From LMBase Require Import Res ListX IEEE.
From LMSampler Require Import SamplerModel SamplerLemmas SamplerOps SamplerSpec SamplerProofs SamplerRun
  SamplerF32 SamplerF32Proofs SamplerStream SamplerStreamProofs.
Import ListNotations.
Local Open Scope Z_scope.

Lemma range32_incl_range lo hi :
  0 <= lo <= hi -> hi - lo + 1 < 2 ^ 32 ->
  rd_ok E5 (fun v => lo <= v <= hi) (range32_incl lo hi).
Proof.
  intros Hl Hr. unfold range32_incl. cbv zeta.
  rewrite (Z.mod_small (hi - lo + 1) (2 ^ 32)) by lia.
  destruct (Z.eqb_spec (hi - lo + 1) 0) as [E|E]; [lia|].
  apply (rd_ok_map E5 (fun h => 0 <= h < hi - lo + 1)).
  - apply reject_loop_ok; auto; lia.
  - intros a Ha. lia.
Qed.

(* pairwise distinct indices in [0, b) *)
Definition VI (b : Z) (l : list Z) : Prop := NoDup l /\ Forall (fun x => 0 <= x < b) l.

Lemma position_None t l : position t l = None -> ~ In t l.
Proof.
  induction l as [|a r IH]; cbn [position]; intros H; [intros []|].
  destruct (Z.eqb_spec a t) as [E|E]; [discriminate|].
  destruct (position t r); [discriminate|]. intros [Ha|Hr]; [contradiction|]. apply IH; auto.
Qed.

Lemma VI_add b b' x l l' :
  VI b l -> ~ In x l -> 0 <= x < b' -> b <= b' -> Permutation (x :: l) l' ->
  VI b' l' /\ length l' = S (length l).
Proof.
  intros [Hnd Hf] Hx Hxb Hb Hp. split; [split|].
  - apply (Permutation_NoDup Hp). constructor; auto.
  - apply (Permutation_Forall Hp). constructor; [exact Hxb|].
    eapply Forall_impl; [|exact Hf]. cbv beta. intros a Ha. lia.
  - rewrite <- (Permutation_length Hp). reflexivity.
Qed.

Lemma insert_at_perm pos x l : Permutation (x :: l) (insert_at pos x l).
Proof.
  unfold insert_at. rewrite <- (firstn_skipn pos l) at 1. apply Permutation_middle.
Qed.

Lemma floyd_loop_valid sh : forall k j ind,
  VI (Z.of_nat j) ind -> Z.of_nat (j + k) < 2 ^ 32 ->
  rd_ok E5 (fun ind' => VI (Z.of_nat (j + k)) ind' /\ length ind' = (length ind + k)%nat)
        (floyd_loop sh (map Z.of_nat (seq j k)) ind).
Proof.
  induction k as [|k IH]; intros j ind Hv Hb; cbn [seq map floyd_loop].
  - apply rd_ok_ret. rewrite !Nat.add_0_r. auto.
  - apply (rd_ok_bind E5 (fun t => 0 <= t <= Z.of_nat j)
             (fun ind' => VI (Z.of_nat (j + S k)) ind' /\ length ind' = (length ind + S k)%nat)
             (range32_incl 0 (Z.of_nat j))
             (fun t ws => floyd_loop sh (map Z.of_nat (seq (S j) k))
                (match position t ind with
                 | Some pos => if sh then insert_at pos (Z.of_nat j) ind else ind ++ [Z.of_nat j]
                 | None => ind ++ [t]
                 end) ws)).
    + apply range32_incl_range; lia.
    + intros t Ht.
      assert (Hnew : exists x, ~ In x ind /\ 0 <= x < Z.of_nat (S j) /\
                Permutation (x :: ind)
                  (match position t ind with
                   | Some pos => if sh then insert_at pos (Z.of_nat j) ind else ind ++ [Z.of_nat j]
                   | None => ind ++ [t]
                   end)).
      { destruct (position t ind) as [pos|] eqn:Ep.
        - exists (Z.of_nat j). split.
          + intros Hin. destruct Hv as [_ Hf]. rewrite Forall_forall in Hf. specialize (Hf _ Hin). lia.
          + split; [lia|]. destruct sh; [apply insert_at_perm|apply Permutation_cons_append].
        - exists t. split; [apply position_None; exact Ep|]. split; [lia|]. apply Permutation_cons_append. }
      destruct Hnew as [x [Hx [Hxb Hp]]].
      destruct (VI_add (Z.of_nat j) (Z.of_nat (S j)) x ind _ Hv Hx Hxb ltac:(lia) Hp) as [Hv' Hl'].
      eapply rd_ok_weaken; [apply (IH (S j) _ Hv'); lia|auto|].
      cbv beta. intros a [Ha Hla]. replace (j + S k)%nat with (S j + k)%nat by lia. split; [exact Ha|]. lia.
Qed.

(* ---------- swaps ---------- *)

Lemma nth_swap i k l a :
  (i < length l)%nat -> (k < length l)%nat ->
  nth a (swap i k l) 0 = if (a =? i)%nat then nth k l 0 else if (a =? k)%nat then nth i l 0 else nth a l 0.
Proof.
  intros Hi Hk. unfold swap. rewrite nth_upd, upd_length.
  destruct (Nat.eqb_spec i a) as [->|Hne].
  - rewrite Nat.eqb_refl. destruct (Nat.ltb_spec a (length l)); [reflexivity|lia].
  - destruct (Nat.eqb_spec a i) as [E|_]; [congruence|].
    rewrite nth_upd. destruct (Nat.eqb_spec k a) as [->|Hne2].
    + rewrite Nat.eqb_refl. destruct (Nat.ltb_spec a (length l)); [reflexivity|lia].
    + destruct (Nat.eqb_spec a k) as [E|_]; [congruence|reflexivity].
Qed.

Lemma swap_valid b i k l :
  VI b l -> (i < length l)%nat -> (k < length l)%nat ->
  VI b (swap i k l) /\ length (swap i k l) = length l.
Proof.
  intros [Hnd Hf] Hi Hk. split; [split|].
  - apply (NoDup_nth _ 0). unfold swap at 1 2. rewrite !upd_length. intros a c Ha Hc E.
    rewrite !nth_swap in E by assumption.
    pose proof (proj1 (NoDup_nth l 0) Hnd) as Hinj.
    destruct (Nat.eqb_spec a i), (Nat.eqb_spec a k), (Nat.eqb_spec c i), (Nat.eqb_spec c k); subst;
      try lia; apply Hinj in E; lia.
  - unfold swap. apply Forall_upd; [apply Forall_upd; [exact Hf|]|].
    + rewrite Forall_forall in Hf. apply Hf. apply nth_In. exact Hi.
    + rewrite Forall_forall in Hf. apply Hf. apply nth_In. exact Hk.
  - unfold swap. rewrite !upd_length. reflexivity.
Qed.

Lemma shuffle_loop_valid b : forall is_ ind,
  VI b ind -> Forall (fun i => (i < length ind)%nat) is_ -> Z.of_nat (length ind) < 2 ^ 32 ->
  rd_ok E5 (fun ind' => VI b ind' /\ length ind' = length ind) (shuffle_loop is_ ind).
Proof.
  induction is_ as [|i r IH]; intros ind Hv Hf Hb; cbn [shuffle_loop].
  - apply rd_ok_ret. auto.
  - inversion Hf as [|? ? Hi Hr]; subst.
    apply (rd_ok_bind E5 (fun v => 0 <= v <= Z.of_nat i)
             (fun ind' => VI b ind' /\ length ind' = length ind)
             (range32_incl 0 (Z.of_nat i))
             (fun x ws => shuffle_loop r (swap i (Z.to_nat x) ind) ws)).
    + apply range32_incl_range; lia.
    + intros v Hvr.
      destruct (swap_valid b i (Z.to_nat v) ind Hv Hi ltac:(lia)) as [Hv' Hl'].
      eapply rd_ok_weaken; [apply (IH _ Hv')|auto|].
      * rewrite Hl'. exact Hr.
      * rewrite Hl'. exact Hb.
      * cbv beta. intros a [Ha Hla]. split; [exact Ha|]. congruence.
Qed.

Lemma inplace_loop_valid len b : forall is_ ind,
  VI b ind -> length ind = len -> Forall (fun i => (i < len)%nat) is_ -> Z.of_nat len < 2 ^ 32 ->
  rd_ok E5 (fun ind' => VI b ind' /\ length ind' = len) (inplace_loop len is_ ind).
Proof.
  induction is_ as [|i r IH]; intros ind Hv Hl Hf Hb; cbn [inplace_loop].
  - apply rd_ok_ret. auto.
  - inversion Hf as [|? ? Hi Hr]; subst.
    apply (rd_ok_bind E5 (fun v => Z.of_nat i <= v <= Z.of_nat (length ind) - 1)
             (fun ind' => VI b ind' /\ length ind' = length ind)
             (range32_incl (Z.of_nat i) (Z.of_nat (length ind) - 1))
             (fun x ws => inplace_loop (length ind) r (swap i (Z.to_nat x) ind) ws)).
    + apply range32_incl_range; lia.
    + intros v Hvr.
      destruct (swap_valid b i (Z.to_nat v) ind Hv Hi ltac:(lia)) as [Hv' Hl'].
      eapply rd_ok_weaken; [apply (IH _ Hv' Hl' Hr Hb)|auto|]. auto.
Qed.

Lemma VI_iota len : VI (Z.of_nat len) (map Z.of_nat (seq 0 len)).
Proof.
  split.
  - apply FinFun.Injective_map_NoDup; [intros a c; apply Nat2Z.inj|apply seq_NoDup].
  - apply Forall_forall. intros x Hx. apply in_map_iff in Hx. destruct Hx as [a [<- Ha]].
    apply in_seq in Ha. lia.
Qed.

Lemma NoDup_firstn {A} n (l : list A) : NoDup l -> NoDup (firstn n l).
Proof.
  revert n. induction l as [|a r IH]; intros [|n] H; cbn [firstn]; try constructor.
  - inversion H as [|? ? Hna Hr]; subst. intros Hin. apply Hna.
    rewrite <- (firstn_skipn n r). apply in_or_app. left. exact Hin.
  - inversion H; subst. apply IH. assumption.
Qed.

Lemma NoDup_map_to_nat l : NoDup l -> Forall (fun x => 0 <= x) l -> NoDup (map Z.to_nat l).
Proof.
  induction l as [|a r IH]; intros Hnd Hf; cbn [map]; [constructor|].
  inversion Hnd as [|? ? Hna Hr]; subst. inversion Hf as [|? ? Ha Hfr]; subst.
  constructor; [|apply IH; auto].
  intros Hin. apply in_map_iff in Hin. destruct Hin as [c [Ec Hc]].
  rewrite Forall_forall in Hfr. specialize (Hfr _ Hc). assert (c = a) by lia. subst c. contradiction.
Qed.

(* index::sample: `amount` distinct indices below `len` *)
Theorem index_sample_valid len amount :
  (amount <= len)%nat -> Z.of_nat len < 2 ^ 32 ->
  rd_ok E56 (fun sd => NoDup sd /\ Forall (fun i => (i < len)%nat) sd /\ length sd = amount)
        (index_sample len amount).
Proof.
  intros Ha Hb. unfold index_sample.
  destruct ((500000 <=? N.of_nat len)%N || (163 <=? amount)%nat); [intros ws _; right; reflexivity|].
  apply (rd_ok_map E56 (fun l => VI (Z.of_nat len) l /\ length l = amount)).
  - apply (rd_ok_weaken E5 E56 (fun l => VI (Z.of_nat len) l /\ length l = amount)
                        (fun l => VI (Z.of_nat len) l /\ length l = amount));
      [|intros e He; left; exact He|auto].
    destruct (use_inplace len amount).
    + unfold sample_inplace.
      apply (rd_ok_map E5 (fun l => VI (Z.of_nat len) l /\ length l = len)).
      * apply inplace_loop_valid; [apply VI_iota|rewrite map_length, seq_length; reflexivity| |exact Hb].
        apply Forall_forall. intros i Hi. apply in_seq in Hi. lia.
      * intros l [[Hnd Hf] Hl]. split; [split|].
        -- apply NoDup_firstn. exact Hnd.
        -- apply Forall_firstn. exact Hf.
        -- rewrite firstn_length. lia.
    + unfold sample_floyd.
      apply (rd_ok_bind E5 (fun l => VI (Z.of_nat len) l /\ length l = amount)
               (fun l => VI (Z.of_nat len) l /\ length l = amount)
               (floyd_loop (amount <? 50)%nat (map Z.of_nat (seq (len - amount) amount)) [])
               (fun a ws => if (amount <? 50)%nat then Ok (a, ws)
                            else shuffle_loop (rev (seq 1 (amount - 1))) a ws)).
      * eapply rd_ok_weaken; [apply (floyd_loop_valid _ amount (len - amount) [])|auto|].
        -- split; [constructor|constructor].
        -- replace (len - amount + amount)%nat with len by lia. exact Hb.
        -- cbv beta. replace (len - amount + amount)%nat with len by lia. cbn [length]. intros a [Hv Hl]. auto.
      * intros a [Hv Hl]. destruct (amount <? 50)%nat; [apply rd_ok_ret; auto|].
        eapply rd_ok_weaken; [apply (shuffle_loop_valid _ _ a Hv)|auto|].
        -- apply Forall_forall. intros i Hi. apply in_rev in Hi. apply in_seq in Hi. lia.
        -- lia.
        -- cbv beta. intros l [Hvl Hll]. split; [exact Hvl|congruence].
  - intros l [[Hnd Hf] Hl]. split; [|split].
    + apply NoDup_map_to_nat; [exact Hnd|]. eapply Forall_impl; [|exact Hf]. cbv beta. intros a Hra. lia.
    + apply Forall_forall. intros i Hi. apply in_map_iff in Hi. destruct Hi as [z [<- Hz]].
      rewrite Forall_forall in Hf. specialize (Hf _ Hz). lia.
    + rewrite map_length. exact Hl.
Qed.

Local Close Scope Z_scope.

(* the seed set drawn from the stream is one new_ accepts *)
Theorem seeds_w_valid n initial :
  (N.of_nat n <= u32_max)%N ->
  rd_ok E56 (fun sd => seeds_ok n initial sd) (seeds_w n initial).
Proof.
  intros Hn. unfold seeds_w.
  eapply rd_ok_weaken; [apply (index_sample_valid n (N.to_nat (N.min initial (N.of_nat n))))|auto|].
  - lia.
  - unfold u32_max in Hn. change (2 ^ 32)%Z with 4294967296%Z. lia.
  - cbv beta. intros sd [Hnd [Hf Hl]]. unfold seeds_ok. split; [exact Hnd|]. split; [exact Hf|].
    rewrite Hl. rewrite N2Nat.id. reflexivity.
Qed.

Section NoErr2.
  Variable flog2 : F32.t -> F32.t.
  Variable fpow2 : F32.t -> F32.t.
  Variable fexp2 : F64.t -> F64.t.

  (* the only error of a stream-driven call / run is 5 (the stream fell short) *)
  Lemma next_w_err c st ws e :
    WF c -> seed_ok c -> Inv c st -> stream_ok ws ->
    next_w flog2 fpow2 fexp2 c st ws = Err e -> e = 5.
  Proof.
    intros Hwf Hseed Hinv Hs. pose proof Hinv as [Hi Hlast Hoops].
    unfold SamplerStream.next_w. destruct (st_conv st); [discriminate|].
    pose proof (holdout_w_ok c st Hi Hseed ws Hs) as Hh.
    destruct (holdout_w c st ws) as [[z r1]|e'|s'|]; cbn [rbind fst snd]; try discriminate.
    2:{ intros H; inversion H; subst. reflexivity. }
    destruct Hh as [Hsel [Hz Hr1]].
    pose proof (choice_of_safe flog2 fpow2 fexp2 c st z (head64 r1) Hwf Hi Hz) as Hc.
    destruct (choice_of flog2 fpow2 fexp2 c st z (head64 r1)) as [ch|e'|s'|]; cbn [rbind]; try discriminate.
    2:{ intros H; inversion H; subst. reflexivity. }
    destruct Hc as [Hcz Hp].
    pose proof (next_safe c st ch Hwf Hseed Hinv) as Hsafe.
    assert (Hn4 : next c st ch <> Err 4) by (apply next_no_err4; auto; rewrite Hcz; exact Hp).
    assert (Hn3 : next c st ch <> Err 3) by (apply (next_no_err3 c st ch z); auto; rewrite Hcz; exact Hsel).
    destruct (next c st ch) as [x|e'|s'|]; cbn [rbind]; try discriminate.
    intros H; inversion H; subst. cbn [allowed] in Hsafe. exfalso. destruct Hsafe as [->| ->]; congruence.
  Qed.

  Lemma run_w_err c k : WF c -> seed_ok c -> forall st ws e, Inv c st -> stream_ok ws ->
    run_w flog2 fpow2 fexp2 c st k ws = Err e -> e = 5.
  Proof.
    intros Hwf Hseed. induction k as [|k IH]; intros st ws e Hinv Hs; [discriminate|].
    cbn [SamplerStream.run_w].
    pose proof (next_w_safe flog2 fpow2 fexp2 c st ws Hwf Hseed Hinv Hs) as H2.
    destruct (next_w flog2 fpow2 fexp2 c st ws) as [[x r1]|e'|s'|] eqn:En; cbn [rbind fst snd]; try discriminate.
    - destruct H2 as [Hinv' [_ Hr1]]. specialize (IH (fst x) r1).
      destruct (run_w flog2 fpow2 fexp2 c (fst x) k r1) as [[t r]|e'|s'|]; cbn [rbind]; try discriminate.
      intros H; inversion H; subst. apply (IH e); auto.
    - intros H; inversion H; subst. apply (next_w_err c st ws e Hwf Hseed Hinv Hs En).
  Qed.

  (* Sampler::_new from the stream: the seed set is never rejected *)
  Theorem sampler_w_no_err2 K W data wraps m initial inertia patience k ws :
    data_ok K W data -> Forall (fun wr => W <= wr) wraps -> stream_ok ws ->
    sampler_w flog2 fpow2 fexp2 K W data wraps m initial inertia patience k ws <> Err 2.
  Proof.
    intros Hd Hw Hs. unfold SamplerStream.sampler_w.
    destruct (existsb (fun wr => wr <? W) wraps); [discriminate|].
    pose proof (starts_w_ok W data (proj1 (proj2 Hd)) ws Hs) as H1.
    destruct (starts_w W data ws) as [[sts r1]|e|s|]; cbn [rbind fst snd]; try discriminate; try contradiction.
    2:{ unfold E5 in H1. subst e. discriminate. }
    destruct H1 as [Hr Hs1].
    assert (H2 : match (match m with Oops => Ok ([], r1) | Zoops => seeds_w (length data) initial r1 end) with
                 | Ok (sd, r2) => (m = Zoops -> seeds_ok (length data) initial sd) /\ stream_ok r2
                 | Err e => e = 5 \/ e = 6
                 | _ => False
                 end).
    { destruct m; [split; [discriminate|exact Hs1]|].
      pose proof (seeds_w_valid (length data) initial (proj1 (proj2 (proj2 Hd))) r1 Hs1) as H.
      destruct (seeds_w (length data) initial r1) as [[sd r2]|e|s|]; auto. destruct H; auto. }
    destruct (match m with Oops => Ok ([], r1) | Zoops => seeds_w (length data) initial r1 end)
      as [[sd r2]|e|s|]; cbn [rbind fst snd]; try discriminate; try contradiction.
    2:{ destruct H2 as [->| ->]; discriminate. }
    destruct H2 as [Hseeds Hs2].
    destruct (new_ok K W data wraps m initial inertia patience sts sd Hd Hw Hr Hseeds)
      as [c [st0 [E [Hwf [Hinv [Hc _]]]]]].
    rewrite E. cbn [rbind fst snd].
    assert (Hseed : seed_ok c).
    { unfold seed_ok. rewrite Hc. cbn [cSeed cData]. destruct m; [constructor|].
      destruct (Hseeds eq_refl) as [_ [Hlt _]]. exact Hlt. }
    pose proof (run_w_err c k Hwf Hseed st0 r2) as Hrun.
    destruct (run_w flog2 fpow2 fexp2 c st0 k r2) as [[t r]|e|s|]; cbn [rbind]; try discriminate.
    intros H; inversion H; subst. specialize (Hrun 2 Hinv Hs2 eq_refl). discriminate.
  Qed.
End NoErr2.
