(* Property C16 — Gibbs sampler state always equals a recomputation from its
   alignment.  Property theorems only (closed by lemmas of SamplerProofs). *)
From Coq Require Import List Arith Bool NArith Lia.
From LMBase Require Import Res ListX.
From LMSampler Require Import SamplerModel.
Import ListNotations.

(* The trace is a function of data, parameters and the choice list. *)
Theorem sampler_deterministic :
  forall c st chs1 chs2, chs1 = chs2 -> run c st chs1 = run c st chs2.
Proof. intros c st chs1 chs2 ->. reflexivity. Qed.
