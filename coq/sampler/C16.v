(* Property C16 — Gibbs sampler state always equals a recomputation from its
   alignment.  Property theorems only (closed by lemmas of SamplerProofs / SamplerRun).

   Model (SamplerModel.v): Sampler::_new, SamplerBuilder, select_holdout,
   exclude_sequence, prepare_pssm (background() total), update_holdout,
   include_sequence, Iterator::next (oops / zoops, inertia, patience), with the RNG
   replaced by an explicit choice list: initial starts, initial seed set, and per
   call of next() (hold-out z, outcome of update_holdout, outcome of the zoops
   information-content comparison).  Every Rust panic site is a [Panic n].
   (The float-driven step function -- choices computed by the binary32/binary64 model of
   SamplerF32.v -- is the subject of the second property file C16F.v; the translated
   statement lists of sampler.rs are tied to this model in SamplerSkel.v.)

   Vocabulary used by the statements (all defined in the model / lemma files):
     recompute_motif K W data act starts   count matrix recomputed from the alignment
     recompute_bg    K W data act starts   background counts: sum over active sequences of
                                           (symbol counts - window counts)
     state_holds     the four clauses of C16 about one reported state
     iteration_holds the clause about Iteration.counts (alignment without z)
     Holds_C16       state_holds for the state after construction and after every call,
                     iteration_holds w.r.t. the alignment before and after the call,
                     Iteration.step = number of the call
     allowed r       r is Ok, or one of the documented panics 5..9 (empty seed list,
                     empty data set, background of an empty active set, weight overflow,
                     step counter overflow), or Err 3/4 (a choice no RNG can produce);
                     in particular never an index panic, counter overflow or underflow
     data_ok         symbols < K, every sequence at least as long as the width, the
                     data set fits the counters (n <= u32::MAX, total length <= usize::MAX) *)
From Coq Require Import List Arith Bool NArith ZArith Lia.
From LMBase Require Import Res ListX.
From LMSampler Require Import SamplerModel SamplerLemmas SamplerSpec SamplerProofs SamplerRun SamplerOops.
Import ListNotations.

(* ------------------------------------------------------------------ main theorem *)

(* For every data set meeting the constructor's guards, both modes, all parameters, all
   initial draws and ALL choice lists (no bound on the number of steps): construction
   succeeds, and the run either ends in a documented panic / impossible choice, or every
   reported state equals the recomputation from its alignment (count matrix, background
   counts and their normalisation, sequence count, window ranges) and every iteration's
   counts are those of the alignment without its hold-out. *)
Theorem sampler_inv :
  forall (freq : N -> N -> Z) K W data wraps m initial inertia patience starts0 seeds0 chs,
    data_ok K W data ->
    Forall (fun wr => (W <= wr)%nat) wraps ->
    starts_in_range W data starts0 = true ->
    (m = Zoops -> seeds_ok (length data) initial seeds0) ->
    exists c st0,
      new_ K W data wraps m initial inertia patience starts0 seeds0 = Ok (c, st0) /\
      match run c st0 chs with
      | Ok t => length t = length chs /\
                Holds_C16 freq K W data (report_of freq st0) (obs_of_trace freq t)
      | r => allowed r
      end.
Proof. exact new_run_holds. Qed.

(* the same at the level of the sampler's fields, for any state satisfying the
   invariant (established by _new: new_ok) and any choice list *)
Theorem sampler_state_inv :
  forall c st chs t,
    WF c -> seed_ok c -> Inv c st -> run c st chs = Ok t ->
    Forall (fun x =>
      let st' := fst x in
      st_motif st' = recompute_motif (cK c) (cW c) (cData c) (st_active st') (st_starts st') /\
      st_bg st' = recompute_bg (cK c) (cW c) (cData c) (st_active st') (st_starts st') /\
      st_count st' = count_true (st_active st') /\
      starts_in_range (cW c) (cData c) (st_starts st') = true /\
      st_last st' <= st_step st')%N t.
Proof. exact run_state_inv. Qed.

(* no arithmetic or index panic, whatever the choices *)
Theorem sampler_no_underflow :
  forall c st chs, WF c -> seed_ok c -> Inv c st -> allowed (run c st chs).
Proof.
  intros c st chs Hwf Hseed Hinv. pose proof (run_inv c chs Hwf Hseed st Hinv) as H.
  destruct (run c st chs); auto. exact I.
Qed.

(* ------------------------------------------------------------------ iteration counts *)

(* the counts yielded with an iteration are the recomputation from the alignment without
   the hold-out z, with respect to the alignment before the call and to the alignment
   after it; only z's start and activity change; an active hold-out stays active *)
Theorem iteration_counts_without_z :
  forall c st ch st' it,
    WF c -> Inv c st -> next c st ch = Ok (st', Some it) ->
    (it_z it < length (cData c))%nat /\
    it_step it = st_step st /\
    it_counts it = recompute_motif (cK c) (cW c) (cData c) (upd (it_z it) false (st_active st)) (st_starts st) /\
    it_counts it = recompute_motif (cK c) (cW c) (cData c) (upd (it_z it) false (st_active st')) (st_starts st') /\
    it_n it = count_true (upd (it_z it) false (st_active st)) /\
    (forall i, i <> it_z it ->
       nth i (st_active st') false = nth i (st_active st) false /\
       nth i (st_starts st') O = nth i (st_starts st) O) /\
    (nth (it_z it) (st_active st) false = true -> nth (it_z it) (st_active st') false = true).
Proof.
  intros c st ch st' it Hwf Hinv En.
  destruct (next_inv c st ch st' (Some it) Hwf Hinv En) as [_ Hp]. cbn [next_post] in Hp. tauto.
Qed.

(* ------------------------------------------------------------------ panics *)

(* the premise "the hold-out leaves an active sequence": with sequences longer than the
   width, possible choices and no weight overflow, a run never panics *)
Theorem sampler_no_panic :
  forall K W data wraps m initial inertia patience starts0 seeds0 chs,
    data_ok K W data ->
    Forall (fun s => (W < length s)%nat) data ->
    Forall (fun wr => (W <= wr)%nat) wraps ->
    starts_in_range W data starts0 = true ->
    (m = Zoops -> seeds_ok (length data) initial seeds0) ->
    exists c st0,
      new_ K W data wraps m initial inertia patience starts0 seeds0 = Ok (c, st0) /\
      (choices_ok c st0 chs -> exists t, run c st0 chs = Ok t).
Proof. exact new_run_progress. Qed.

(* the closed form for the one-occurrence-per-sequence mode: at least two sequences, all
   longer than the width -- then EVERY choice list an RNG can produce (hold-out in range,
   new start inside its sequence, no weight overflow; conditions on the data set alone, no
   reference to the states met) runs to its end without a panic.  The state-dependent premise
   of sampler_no_panic ("the hold-out leaves an active sequence") is discharged by the
   invariant: in Oops mode every sequence stays active.  (That the choices computed from the
   generator's words by the float model meet these conditions, except for the weight overflow,
   is C16F.sampler_no_panic_oops_stream.) *)
Theorem sampler_no_panic_oops :
  forall K W data wraps initial inertia patience starts0 seeds0 chs,
    data_ok K W data ->
    Forall (fun s => (W < length s)%nat) data ->
    (2 <= length data)%nat ->
    Forall (fun wr => (W <= wr)%nat) wraps ->
    starts_in_range W data starts0 = true ->
    Forall (oops_choice_ok W data) chs ->
    (N.of_nat (length chs) <= usize_max)%N ->
    exists c st0 t,
      new_ K W data wraps Oops initial inertia patience starts0 seeds0 = Ok (c, st0) /\
      run c st0 chs = Ok t /\ length t = length chs.
Proof. exact new_run_oops_progress. Qed.

(* background() (Background::from_counts(..).unwrap()) panics exactly on an empty active set *)
Theorem background_panics_iff_empty_active_set :
  forall c st, WF c -> strict_len c -> CInv c st ->
    (bg_total (st_bg st) = Panic 7 <->
     forall i, (i < length (cData c))%nat -> nth i (st_active st) false = false).
Proof. intros c st Hwf Hs Hi. apply (background_panics_iff_no_active c st Hwf Hs Hi). Qed.

(* ------------------------------------------------------------------ the checker behind PROPFAIL *)

(* the extracted boolean checker decides exactly the property predicate *)
Theorem check_C16_sound :
  forall freq K W data init os,
    check_C16 freq K W data init os = true -> Holds_C16 freq K W data init os.
Proof. intros. apply check_C16_iff. assumption. Qed.

Theorem check_C16_complete :
  forall freq K W data init os,
    Holds_C16 freq K W data init os -> check_C16 freq K W data init os = true.
Proof. intros. apply check_C16_iff. assumption. Qed.

(* sampler_inv in executable form: the checker accepts what the model reports *)
Theorem model_passes_C16 :
  forall (freq : N -> N -> Z) K W data wraps m initial inertia patience starts0 seeds0 chs c st0 t,
    data_ok K W data ->
    Forall (fun wr => (W <= wr)%nat) wraps ->
    starts_in_range W data starts0 = true ->
    (m = Zoops -> seeds_ok (length data) initial seeds0) ->
    new_ K W data wraps m initial inertia patience starts0 seeds0 = Ok (c, st0) ->
    run c st0 chs = Ok t ->
    check_C16 freq K W data (report_of freq st0) (obs_of_trace freq t) = true.
Proof. exact new_run_check. Qed.

(* ------------------------------------------------------------------ reading of the recomputation *)

(* "the normalised symbol counts of those sequences outside their windows": the recomputed
   background count of k is the number of occurrences of k in the active sequences with
   their windows cut out *)
Theorem background_counts_are_outside_windows :
  forall W data act starts k,
    spec_bg_cell W data act starts k =
    sumN (fun i => if nth i act false
                   then count_sym (firstn (nth i starts O) (nth i data [])
                                   ++ skipn (nth i starts O + W) (nth i data [])) k
                   else 0%N) (length data).
Proof. exact spec_bg_outside. Qed.

(* every row of the maintained count matrix sums to the maintained sequence count
   (what CountMatrix::new_unchecked(motif, active.count()) relies on) *)
Theorem count_matrix_rows_sum_to_sequence_count :
  forall c st j, WF c -> CInv c st -> (j < cW c)%nat ->
    sumN (fun k => nth k (nth j (st_motif st) []) 0%N) (cK c) = st_count st.
Proof. intros c st j Hwf Hi Hj. exact (motif_row_sum c st j Hwf Hi Hj). Qed.

(* the public accessors: active_sequences() lists exactly the active indices, there are
   sequence_count() of them, active_starts() never indexes out of range and returns their starts *)
Theorem accessors_agree_with_state :
  forall c st, CInv c st ->
    (forall i, In i (active_sequences st) <->
               (i < length (cData c))%nat /\ nth i (st_active st) false = true) /\
    N.of_nat (length (active_sequences st)) = st_count st /\
    active_starts st = Ok (map (fun i => nth i (st_starts st) O) (active_sequences st)).
Proof. exact accessors_spec. Qed.

(* ------------------------------------------------------------------ modes, bookkeeping *)

(* Oops: every sequence stays active, every call yields an iteration, never converges *)
Theorem oops_all_active_never_converges :
  forall c st chs t,
    WF c -> cMode c = Oops -> Inv c st -> st_conv st = false -> run c st chs = Ok t ->
    Forall (fun x => st_conv (fst x) = false /\ snd x <> None /\
                     forall i, (i < length (cData c))%nat -> nth i (st_active (fst x)) false = true) t.
Proof. intros c st chs t Hwf Hm Hinv Hc Hr. exact (run_oops c chs Hwf Hm st t Hinv Hc Hr). Qed.

(* inertia / patience / last_inclusion bookkeeping of one call of next() *)
Theorem next_bookkeeping_spec :
  forall c st ch st' it,
    WF c -> Inv c st -> next c st ch = Ok (st', Some it) ->
    (cMode c = Zoops -> (st_step st < cInertia c)%N -> In (it_z it) (cSeed c)) /\
    nth (it_z it) (st_active st') false =
      (if zoops_trial c st (it_z it) then ch_accept ch else true) /\
    st_last st' = (if (zoops_trial c st (it_z it) && ch_accept ch)%bool then st_step st else st_last st) /\
    st_conv st' = (zoops_trial c st (it_z it) && (cPatience c <? st_step st - st_last st')%N)%bool.
Proof. exact next_bookkeeping. Qed.

(* Zoops, from construction on: until the step counter passes the inertia only seed
   sequences are active (only seeds are held out, so nothing else can be recruited) *)
Theorem inertia_only_seeds_active :
  forall K W data wraps initial inertia patience starts0 seeds0 chs c st0 t,
    data_ok K W data ->
    Forall (fun wr => (W <= wr)%nat) wraps ->
    starts_in_range W data starts0 = true ->
    seeds_ok (length data) initial seeds0 ->
    new_ K W data wraps Zoops initial inertia patience starts0 seeds0 = Ok (c, st0) ->
    run c st0 chs = Ok t ->
    Forall (fun x => (st_step (fst x) <= inertia)%N ->
                     forall i, nth i (st_active (fst x)) false = true -> In i seeds0) t.
Proof. exact new_run_inertia. Qed.

(* the same through the public constructors: any sequence of SamplerBuilder setters followed
   by sample(), and Sampler::new (oops, no seeds) *)
Theorem sampler_inv_builder :
  forall (freq : N -> N -> Z) K data wraps ops b starts0 seeds0 chs,
    builder_run builder_new ops = Ok b ->
    data_ok K (b_width b) data ->
    Forall (fun wr => (b_width b <= wr)%nat) wraps ->
    starts_in_range (b_width b) data starts0 = true ->
    (b_mode b = Zoops -> seeds_ok (length data) (b_seeds b) seeds0) ->
    exists c st0,
      builder_sample K data wraps b starts0 seeds0 = Ok (c, st0) /\
      cInertia c = match b_inertia b with Some i => i | None => 0%N end /\
      cPatience c = match b_patience b with Some p => p | None => N.of_nat (length data) end /\
      match run c st0 chs with
      | Ok t => length t = length chs /\
                Holds_C16 freq K (b_width b) data (report_of freq st0) (obs_of_trace freq t)
      | r => allowed r
      end.
Proof. exact builder_run_holds. Qed.

(* seeds(n) fixes the inertia to 50 n only when no inertia was set before (get_or_insert) *)
Theorem builder_seeds_default_inertia :
  forall b s b', builder_step b (BSeeds s) = Ok b' ->
    b_seeds b' = s /\
    b_inertia b' = match b_inertia b with Some i => Some i | None => Some (s * 50)%N end.
Proof.
  intros b s b'. unfold builder_step. destruct (s * 50 <=? usize_max)%N; [|discriminate].
  intros H. inversion H; subst. cbn. auto.
Qed.

(* ------------------------------------------------------------------ determinism *)

(* "Two runs with the same data, parameters and seed produce identical traces."  In this file
   the generator is a choice list, and `run` is a Gallina function of (data, parameters,
   choices): that alone says nothing about the seed.  The statement with content is
   C16F.sampler_deterministic: the trace of k calls is a function of the WORD STREAM the
   generator hands out (every hold-out, every new start and every initial start is computed
   from the words, following rand 0.8.8), it is the run of the choice list that stream
   determines, and it depends only on the words consumed.  What remains checked and not
   proved: the generator itself (StdRng: seed -> words) and that the implementation consumes
   nothing but these words (rerun=same and the rw= replay of every call in the driver).
   Here: the trace of the first calls does not depend on later choices. *)
Theorem sampler_trace_prefix :
  forall c st chs1 chs2 t,
    run c st (chs1 ++ chs2) = Ok t ->
    exists t1 t2, t = t1 ++ t2 /\ run c st chs1 = Ok t1 /\ length t1 = length chs1.
Proof. intros c st chs1 chs2 t. apply run_prefix. Qed.

(* ------------------------------------------------------------------ pins *)

Check sampler_inv :
  forall (freq : N -> N -> Z) K W data wraps m initial inertia patience starts0 seeds0 chs,
    data_ok K W data ->
    Forall (fun wr => (W <= wr)%nat) wraps ->
    starts_in_range W data starts0 = true ->
    (m = Zoops -> seeds_ok (length data) initial seeds0) ->
    exists c st0,
      new_ K W data wraps m initial inertia patience starts0 seeds0 = Ok (c, st0) /\
      match run c st0 chs with
      | Ok t => length t = length chs /\
                Holds_C16 freq K W data (report_of freq st0) (obs_of_trace freq t)
      | r => allowed r
      end.

Check iteration_counts_without_z :
  forall c st ch st' it,
    WF c -> Inv c st -> next c st ch = Ok (st', Some it) ->
    (it_z it < length (cData c))%nat /\
    it_step it = st_step st /\
    it_counts it = recompute_motif (cK c) (cW c) (cData c) (upd (it_z it) false (st_active st)) (st_starts st) /\
    it_counts it = recompute_motif (cK c) (cW c) (cData c) (upd (it_z it) false (st_active st')) (st_starts st') /\
    it_n it = count_true (upd (it_z it) false (st_active st)) /\
    (forall i, i <> it_z it ->
       nth i (st_active st') false = nth i (st_active st) false /\
       nth i (st_starts st') O = nth i (st_starts st) O) /\
    (nth (it_z it) (st_active st) false = true -> nth (it_z it) (st_active st') false = true).

Check check_C16_sound :
  forall freq K W data init os,
    check_C16 freq K W data init os = true -> Holds_C16 freq K W data init os.

Check sampler_no_underflow :
  forall c st chs, WF c -> seed_ok c -> Inv c st -> allowed (run c st chs).

Check sampler_no_panic_oops :
  forall K W data wraps initial inertia patience starts0 seeds0 chs,
    data_ok K W data ->
    Forall (fun s => (W < length s)%nat) data ->
    (2 <= length data)%nat ->
    Forall (fun wr => (W <= wr)%nat) wraps ->
    starts_in_range W data starts0 = true ->
    Forall (oops_choice_ok W data) chs ->
    (N.of_nat (length chs) <= usize_max)%N ->
    exists c st0 t,
      new_ K W data wraps Oops initial inertia patience starts0 seeds0 = Ok (c, st0) /\
      run c st0 chs = Ok t /\ length t = length chs.
Check ((fun _ _ _ => eq_refl) : forall W data ch,
  oops_choice_ok W data ch =
  ((ch_z ch < length data)%nat /\
   match ch_upd ch with
   | UKeep => True
   | UNew s => (s + W <= length (nth (ch_z ch) data []))%nat
   | UOverflow => False
   end)).

(* the definitions the statements rest on, pinned against silent weakening *)
Check (eq_refl : @allowed nat (Panic 12) = (5 <= 12 <= 9)%nat).
Check (eq_refl : @allowed nat (Panic 7) = (5 <= 7 <= 9)%nat).
Check (eq_refl : @allowed nat OutOfFuel = False).
Check ((fun _ _ _ _ _ => eq_refl) : forall freq K W data r,
  state_holds freq K W data r =
  (length (r_active r) = length data /\
   length (r_starts r) = length data /\
   (forall i, (i < length data)%nat -> (nth i (r_starts r) O + W <= length (nth i data []))%nat) /\
   r_cm r = recompute_motif K W data (r_active r) (r_starts r) /\
   r_bg r = expected_bg_bits freq K W data (r_active r) (r_starts r) /\
   r_n r = count_true (r_active r))).
Check ((fun _ _ _ _ _ _ => eq_refl) : forall K W data act starts it,
  iteration_holds K W data act starts it =
  ((it_z it < length data)%nat /\
   it_counts it = recompute_motif K W data (upd (it_z it) false act) starts /\
   it_n it = count_true (upd (it_z it) false act))).
Check ((fun _ _ _ _ _ _ _ => eq_refl) : forall freq K W data idx prev o,
  step_holds freq K W data idx prev o =
  (state_holds freq K W data (o_rep o) /\
   iteration_holds K W data (r_active prev) (r_starts prev) (o_it o) /\
   iteration_holds K W data (r_active (o_rep o)) (r_starts (o_rep o)) (o_it o) /\
   it_step (o_it o) = idx)).
Check ((fun _ _ _ _ _ _ => eq_refl) : forall freq K W data init os,
  Holds_C16 freq K W data init os =
  (state_holds freq K W data init /\ steps_hold freq K W data 0%N init os)).
Check ((fun _ _ _ => eq_refl) : forall K W data,
  data_ok K W data =
  (Forall (Forall (fun a => (a < K)%nat)) data /\
   Forall (fun s => (W <= length s)%nat) data /\
   (N.of_nat (length data) <= u32_max)%N /\
   (total_len data <= usize_max)%N)).
Check ((fun _ _ _ => eq_refl) : forall n initial seeds0,
  seeds_ok n initial seeds0 =
  (NoDup seeds0 /\ Forall (fun i => (i < n)%nat) seeds0 /\
   N.of_nat (length seeds0) = N.min initial (N.of_nat n))).
Check ((fun _ _ _ _ _ => eq_refl) : forall K W data act starts,
  recompute_motif K W data act starts =
  map (fun j => map (fun k => spec_motif_cell data act starts j k) (seq 0 K)) (seq 0 W)) .
Check ((fun _ _ _ _ _ => eq_refl) : forall K W data act starts,
  recompute_bg K W data act starts = map (spec_bg_cell W data act starts) (seq 0 K)).
Check ((fun _ _ _ _ _ => eq_refl) : forall data act starts j k,
  spec_motif_cell data act starts j k =
  sumN (fun i => if nth i act false then win_cell (nth i data []) (nth i starts O) j k else 0%N) (length data)).
Check ((fun _ _ _ _ _ => eq_refl) : forall W data act starts k,
  spec_bg_cell W data act starts k =
  sumN (fun i => if nth i act false
                 then (count_sym (nth i data []) k - win_count W (nth i data []) (nth i starts O) k)%N
                 else 0%N) (length data)).

(* ------------------------------------------------------------------ non-vacuity *)

Definition ex_data : list seqt := [[0;1;2;3];[1;1;2;0;4];[2;3;3]]%nat.

Example ex_data_ok : data_ok 5 2 ex_data.
Proof.
  unfold data_ok, ex_data. repeat split.
  - repeat constructor.
  - repeat constructor.
  - vm_compute. discriminate.
  - vm_compute. discriminate.
Qed.

Example ex_seeds_ok : seeds_ok (length ex_data) 2 [0;2]%nat.
Proof.
  unfold seeds_ok. split; [|split; [repeat constructor|reflexivity]].
  apply nodupb_spec. reflexivity.
Qed.

(* an Oops run: three calls, two of them move a start; the counts change accordingly *)
Example ex_oops_run :
  exists c st0 t,
    new_ 5 2 ex_data [2;2;2]%nat Oops 0 0 0 [0;1;1]%nat [] = Ok (c, st0) /\
    run c st0 [mkChoice 1 (UNew 3) true; mkChoice 0 UKeep true; mkChoice 2 (UNew 0) false] = Ok t /\
    st_motif st0 = [[1;1;0;1;0];[0;1;1;1;0]]%N /\ st_bg st0 = [1;1;2;1;1]%N /\
    map (fun x => st_starts (fst x)) t = [[0;3;1];[0;3;1];[0;3;0]]%nat /\
    map (fun x => st_bg (fst x)) t = [[0;2;3;1;0];[0;2;3;1;0];[0;2;2;2;0]]%N.
Proof.
  eexists. eexists. eexists. split; [vm_compute; reflexivity|]. split; [vm_compute; reflexivity|].
  vm_compute. repeat split; reflexivity.
Qed.

(* a Zoops run with seeds {0,2}, inertia 1, patience 5: the inactive sequence 1 is tried and
   rejected (stays out), tried again and accepted (last_inclusion updated), then moved *)
Example ex_zoops_run :
  exists c st0 t,
    new_ 5 2 ex_data [2;2;2]%nat Zoops 2 1 5 [0;1;1]%nat [0;2]%nat = Ok (c, st0) /\
    run c st0 [mkChoice 0 UKeep true; mkChoice 1 (UNew 3) false; mkChoice 1 (UNew 2) true;
               mkChoice 1 (UNew 0) true] = Ok t /\
    st_active st0 = [true;false;true] /\
    map (fun x => st_active (fst x)) t =
      [[true;false;true];[true;false;true];[true;true;true];[true;true;true]] /\
    map (fun x => st_starts (fst x)) t = [[0;1;1];[0;3;1];[0;2;1];[0;0;1]]%nat /\
    map (fun x => st_last (fst x)) t = [0;0;2;2]%N /\
    map (fun x => st_count (fst x)) t = [2;2;3;3]%N.
Proof.
  eexists. eexists. eexists. split; [vm_compute; reflexivity|]. split; [vm_compute; reflexivity|].
  vm_compute. repeat split; reflexivity.
Qed.

(* patience: with patience 0 the rejected trial of step 1 converges the sampler, next() then
   returns None *)
Example ex_zoops_converges :
  exists c st0 t,
    new_ 5 2 ex_data [2;2;2]%nat Zoops 2 1 0 [0;1;1]%nat [0;2]%nat = Ok (c, st0) /\
    run c st0 [mkChoice 0 UKeep true; mkChoice 1 (UNew 3) false; mkChoice 1 (UNew 2) true] = Ok t /\
    map (fun x => st_conv (fst x)) t = [false;true;true] /\
    map (fun x => match snd x with Some _ => true | None => false end) t = [true;true;false].
Proof.
  eexists. eexists. eexists. split; [vm_compute; reflexivity|]. split; [vm_compute; reflexivity|].
  vm_compute. repeat split; reflexivity.
Qed.

(* the documented panics are reachable: a single sequence (empty active set after the
   hold-out), inertia phase with a choice outside the seed list is an impossible choice *)
Example ex_single_sequence_panics :
  exists c st0,
    new_ 5 2 [[0;1;2;3]]%nat [2]%nat Oops 0 0 0 [0]%nat [] = Ok (c, st0) /\
    run c st0 [mkChoice 0 UKeep true] = Panic 7.
Proof. eexists. eexists. split; [vm_compute; reflexivity|]. vm_compute. reflexivity. Qed.

Example ex_impossible_choice :
  exists c st0,
    new_ 5 2 ex_data [2;2;2]%nat Zoops 2 1 5 [0;1;1]%nat [0;2]%nat = Ok (c, st0) /\
    run c st0 [mkChoice 1 UKeep true] = Err 3.
Proof. eexists. eexists. split; [vm_compute; reflexivity|]. vm_compute. reflexivity. Qed.

(* the checker rejects a wrong report: one cell of the count matrix off by one, a stale
   background, a start whose window leaves the sequence *)
Definition ex_freq (c t : N) : Z := (Z.of_N c * 1000 + Z.of_N t)%Z.
Definition ex_report (cm : matrix) (starts : list nat) : report :=
  mkReport [true;true;true] starts 3 cm
           (expected_bg_bits ex_freq 5 2 ex_data [true;true;true] [0;1;1]%nat).

Example ex_checker_accepts_and_rejects :
  check_state ex_freq 5 2 ex_data (ex_report [[1;1;0;1;0];[0;1;1;1;0]]%N [0;1;1]%nat) = true /\
  check_state ex_freq 5 2 ex_data (ex_report [[1;1;0;1;0];[0;1;1;0;0]]%N [0;1;1]%nat) = false /\
  check_state ex_freq 5 2 ex_data (ex_report [[1;1;0;1;0];[0;1;1;1;0]]%N [0;3;1]%nat) = false /\
  check_range 2 ex_data (ex_report [[1;1;0;1;0];[0;1;1;1;0]]%N [0;1;2]%nat) = false.
Proof. vm_compute. repeat split; reflexivity. Qed.

(* choices_ok is satisfiable: the Oops run above meets the premise of sampler_no_panic *)
Example ex_choices_ok :
  forall c st0,
    new_ 5 2 ex_data [2;2;2]%nat Oops 0 0 0 [0;1;1]%nat [] = Ok (c, st0) ->
    choices_ok c st0 [mkChoice 1 (UNew 3) true; mkChoice 0 UKeep true].
Proof.
  intros c st0 H. vm_compute in H. inversion H; subst; clear H.
  cbn [choices_ok]. split.
  - right. cbn. repeat split; try lia; try discriminate.
    exists 0%nat. repeat split; try lia.
  - intros st' oit E. vm_compute in E. inversion E; subst; clear E. split; [|intros; exact I].
    right. cbn. repeat split; try lia; try discriminate.
    exists 1%nat. repeat split; try lia.
Qed.

(* sampler_no_panic_oops: the premises are satisfiable (the Oops run above), and "at least two
   sequences" is needed (ex_single_sequence_panics: one sequence, Panic 7 at the first call) *)
Example ex_oops_choices_ok :
  data_ok 5 2 ex_data /\ Forall (fun s => (2 < length s)%nat) ex_data /\ (2 <= length ex_data)%nat /\
  Forall (oops_choice_ok 2 ex_data)
         [mkChoice 1 (UNew 3) true; mkChoice 0 UKeep true; mkChoice 2 (UNew 0) false].
Proof.
  split; [exact ex_data_ok|]. split; [repeat constructor|]. split; [cbn; lia|].
  repeat constructor; cbn; lia.
Qed.
