(* How the recomputation (spec_motif_cell / spec_bg_cell / count_true) changes when
   one sequence enters or leaves the active set or moves its window, the bounds that
   rule out counter overflow, and the four update lemmas at the level of the
   recomputed tables. *)
From Coq Require Import List Arith Bool NArith Lia.
From LMBase Require Import Res ListX.
From LMSampler Require Import SamplerModel SamplerLemmas SamplerOps.
Import ListNotations.
Local Open Scope N_scope.

Definition total_len (data : list seqt) : N :=
  sumN (fun i => N.of_nat (length (nth i data []))) (length data).

(* static well-formedness of a configuration: what SamplerData::new / _new establish
   (cached counts), what the Rust types guarantee (symbols < K), the premise of the
   property (every sequence at least as long as the width) and "the data set fits
   in memory" (counters cannot overflow) *)
Record WF (c : cfg) : Prop := mkWF {
  wf_counts : cCounts c = sampler_data_counts (cK c) (cData c);
  wf_syms : Forall (Forall (fun a => (a < cK c)%nat)) (cData c);
  wf_len : Forall (fun s => (cW c <= length s)%nat) (cData c);
  wf_n : N.of_nat (length (cData c)) <= u32_max;
  wf_total : total_len (cData c) <= usize_max
}.

Lemma nth_map_lt {A B} (f : A -> B) l z d d' : (z < length l)%nat -> nth z (map f l) d = f (nth z l d').
Proof.
  intros H. rewrite (nth_indep _ d (f d')) by (rewrite map_length; auto). apply map_nth.
Qed.

Lemma Forall_nth_lt {A} (P : A -> Prop) l z d : Forall P l -> (z < length l)%nat -> P (nth z l d).
Proof. intros H Hz. rewrite Forall_forall in H. apply H. apply nth_In; auto. Qed.

Lemma starts_in_range_spec W data starts :
  starts_in_range W data starts = true <->
  (length starts = length data /\
   forall i, (i < length data)%nat -> (nth i starts O + W <= length (nth i data []))%nat).
Proof.
  unfold starts_in_range. rewrite andb_true_iff, Nat.eqb_eq, forallb_forall. split.
  - intros [Hl H]. split; auto. intros i Hi. apply Nat.leb_le. apply H. apply in_seq. lia.
  - intros [Hl H]. split; auto. intros i Hi. apply in_seq in Hi. apply Nat.leb_le. apply H. lia.
Qed.

(* ---------- change of one active bit ---------- *)

Section Flip.
  Variable K W : nat.
  Variable data : list seqt.
  Variable act : list bool.
  Variable starts : list nat.
  Variable z : nat.
  Hypothesis Hz : (z < length data)%nat.
  Hypothesis Hza : (z < length act)%nat.

  Local Notation sz := (nth z data []).
  Local Notation stz := (nth z starts O).

  Lemma spec_motif_flip b j k :
    spec_motif_cell data (upd z b act) starts j k + contrib_motif data act starts j k z
    = spec_motif_cell data act starts j k + (if b then win_cell sz stz j k else 0).
  Proof.
    unfold spec_motif_cell.
    rewrite (sumN_change (contrib_motif data act starts j k)
                         (contrib_motif data (upd z b act) starts j k) (length data) z Hz).
    - f_equal. unfold contrib_motif. rewrite nth_upd_same by auto. reflexivity.
    - intros i Hi Hne. unfold contrib_motif. rewrite nth_upd_other by auto. reflexivity.
  Qed.

  Lemma spec_motif_set j k :
    nth z act false = false ->
    spec_motif_cell data (upd z true act) starts j k
    = spec_motif_cell data act starts j k + win_cell sz stz j k.
  Proof.
    intros Ha. pose proof (spec_motif_flip true j k) as H.
    unfold contrib_motif at 1 in H. rewrite Ha in H. lia.
  Qed.

  Lemma spec_motif_unset j k :
    nth z act false = true ->
    spec_motif_cell data act starts j k
    = spec_motif_cell data (upd z false act) starts j k + win_cell sz stz j k.
  Proof.
    intros Ha. pose proof (spec_motif_flip false j k) as H.
    unfold contrib_motif at 1 in H. rewrite Ha in H. lia.
  Qed.

  Lemma spec_bg_flip b k :
    spec_bg_cell W data (upd z b act) starts k + contrib_bg W data act starts k z
    = spec_bg_cell W data act starts k
      + (if b then count_sym sz k - win_count W sz stz k else 0).
  Proof.
    unfold spec_bg_cell.
    rewrite (sumN_change (contrib_bg W data act starts k)
                         (contrib_bg W data (upd z b act) starts k) (length data) z Hz).
    - f_equal. unfold contrib_bg. rewrite nth_upd_same by auto. reflexivity.
    - intros i Hi Hne. unfold contrib_bg. rewrite nth_upd_other by auto. reflexivity.
  Qed.

  Lemma spec_bg_set k :
    nth z act false = false ->
    spec_bg_cell W data (upd z true act) starts k
    = spec_bg_cell W data act starts k + (count_sym sz k - win_count W sz stz k).
  Proof.
    intros Ha. pose proof (spec_bg_flip true k) as H.
    unfold contrib_bg at 1 in H. rewrite Ha in H. lia.
  Qed.

  Lemma spec_bg_unset k :
    nth z act false = true ->
    spec_bg_cell W data act starts k
    = spec_bg_cell W data (upd z false act) starts k + (count_sym sz k - win_count W sz stz k).
  Proof.
    intros Ha. pose proof (spec_bg_flip false k) as H.
    unfold contrib_bg at 1 in H. rewrite Ha in H. lia.
  Qed.

  Lemma count_true_flip b :
    count_true (upd z b act) + ind (nth z act false) = count_true act + ind b.
  Proof.
    unfold count_true. rewrite upd_length.
    rewrite (sumN_change (fun i => ind (nth i act false))
                         (fun i => ind (nth i (upd z b act) false)) (length act) z Hza).
    - rewrite nth_upd_same by auto. reflexivity.
    - intros i Hi Hne. rewrite nth_upd_other by auto. reflexivity.
  Qed.

  (* moving the window of an inactive sequence changes nothing *)
  Lemma spec_motif_move s j k :
    nth z act false = false ->
    spec_motif_cell data act (upd z s starts) j k = spec_motif_cell data act starts j k.
  Proof.
    intros Ha. unfold spec_motif_cell. apply sumN_ext. intros i Hi. unfold contrib_motif.
    destruct (Nat.eq_dec i z) as [->|Hne]; [rewrite Ha; reflexivity|].
    rewrite nth_upd_other by auto. reflexivity.
  Qed.

  Lemma spec_bg_move s k :
    nth z act false = false ->
    spec_bg_cell W data act (upd z s starts) k = spec_bg_cell W data act starts k.
  Proof.
    intros Ha. unfold spec_bg_cell. apply sumN_ext. intros i Hi. unfold contrib_bg.
    destruct (Nat.eq_dec i z) as [->|Hne]; [rewrite Ha; reflexivity|].
    rewrite nth_upd_other by auto. reflexivity.
  Qed.
End Flip.

(* ---------- bounds ---------- *)

Lemma count_true_le a : count_true a <= N.of_nat (length a).
Proof.
  unfold count_true. etransitivity; [apply (sumN_bound _ _ 1)|lia].
  intros i _. apply ind_le1.
Qed.

Lemma spec_motif_le data act starts j k :
  spec_motif_cell data act starts j k <= N.of_nat (length data).
Proof.
  unfold spec_motif_cell. etransitivity; [apply (sumN_bound _ _ 1)|lia].
  intros i _. unfold contrib_motif. destruct (nth i act false); [apply win_cell_le1|lia].
Qed.

Lemma count_sym_le_len s k : count_sym s k <= N.of_nat (length s).
Proof.
  induction s as [|a s IH]; simpl count_sym; simpl length; [lia|].
  pose proof (ind_le1 (Nat.eqb a k)). lia.
Qed.

(* total number of occurrences of k in the data set *)
Definition tot (data : list seqt) (k : nat) : N :=
  sumN (fun i => count_sym (nth i data []) k) (length data).

Lemma tot_le data k : tot data k <= total_len data.
Proof. unfold tot, total_len. apply sumN_le. intros i _. apply count_sym_le_len. Qed.

Lemma sum_tot_le data K : sumN (tot data) K <= total_len data.
Proof.
  unfold tot.
  rewrite <- (sumN_exchange (fun i k => count_sym (nth i data []) k) (length data) K).
  unfold total_len. apply sumN_le. intros i _. apply sum_count_sym_le.
Qed.

Lemma contrib_bg_le W data act starts k i :
  contrib_bg W data act starts k i <= if nth i act false then count_sym (nth i data []) k else 0.
Proof. unfold contrib_bg. destruct (nth i act false); lia. Qed.

Lemma spec_bg_le_tot W data act starts k : spec_bg_cell W data act starts k <= tot data k.
Proof.
  unfold spec_bg_cell, tot. apply sumN_le. intros i _.
  pose proof (contrib_bg_le W data act starts k i). destruct (nth i act false); lia.
Qed.

(* the background counts plus the counts of an inactive sequence stay below the total *)
Lemma spec_bg_plus_inactive W data act starts k z :
  (z < length data)%nat -> nth z act false = false ->
  spec_bg_cell W data act starts k + count_sym (nth z data []) k <= tot data k.
Proof.
  intros Hz Ha. unfold spec_bg_cell, tot.
  set (a := fun i => if nth i act false then count_sym (nth i data []) k else 0).
  set (a' := fun i => if Nat.eqb i z then count_sym (nth z data []) k else a i).
  assert (H1 : sumN (contrib_bg W data act starts k) (length data) <= sumN a (length data)).
  { apply sumN_le. intros i _. apply contrib_bg_le. }
  assert (H2 : sumN a' (length data) + a z = sumN a (length data) + a' z).
  { apply sumN_change; auto. intros i _ Hne. unfold a'. apply Nat.eqb_neq in Hne. rewrite Hne. reflexivity. }
  assert (H3 : sumN a' (length data) <= sumN (fun i => count_sym (nth i data []) k) (length data)).
  { apply sumN_le. intros i _. unfold a', a. destruct (Nat.eqb_spec i z) as [->|]; [lia|].
    destruct (nth i act false); lia. }
  assert (Haz : a z = 0) by (unfold a; rewrite Ha; reflexivity).
  assert (Ha'z : a' z = count_sym (nth z data []) k) by (unfold a'; rewrite Nat.eqb_refl; reflexivity).
  rewrite Haz, Ha'z in H2. lia.
Qed.

Lemma sum_spec_bg_le K W data act starts :
  sumN (spec_bg_cell W data act starts) K <= total_len data.
Proof.
  etransitivity; [|apply (sum_tot_le data K)].
  apply sumN_le. intros k _. apply spec_bg_le_tot.
Qed.

(* what the background total is: the symbols of the active sequences outside their windows *)
Lemma sum_spec_bg_eq K W data act starts :
  Forall (Forall (fun a => (a < K)%nat)) data ->
  starts_in_range W data starts = true ->
  sumN (spec_bg_cell W data act starts) K =
  sumN (fun i => if nth i act false then N.of_nat (length (nth i data [])) - N.of_nat W else 0) (length data).
Proof.
  intros Hs Hr. apply starts_in_range_spec in Hr. destruct Hr as [Hl Hr].
  unfold spec_bg_cell.
  change (sumN (fun k => sumN (fun i => contrib_bg W data act starts k i) (length data)) K =
          sumN (fun i => if nth i act false then N.of_nat (length (nth i data [])) - N.of_nat W else 0)
               (length data)).
  rewrite <- (sumN_exchange (fun i k => contrib_bg W data act starts k i) (length data) K).
  apply sumN_ext. intros i Hi. unfold contrib_bg.
  destruct (nth i act false); [|apply sumN_zero; auto].
  rewrite sumN_sub by (intros; apply win_count_le).
  rewrite sum_count_sym_eq by (apply Forall_nth_lt; auto).
  rewrite sum_win_count_eq; auto. apply Forall_nth_lt; auto.
Qed.

(* ---------- the four table updates ---------- *)

Section Tables.
  Variable c : cfg.
  Hypothesis Hwf : WF c.
  Variable act : list bool.
  Variable starts : list nat.
  Variable z : nat.
  Hypothesis Hz : (z < length (cData c))%nat.
  Hypothesis Hla : length act = length (cData c).
  Hypothesis Hr : starts_in_range (cW c) (cData c) starts = true.

  Local Notation K := (cK c).
  Local Notation W := (cW c).
  Local Notation data := (cData c).
  Local Notation sz := (nth z (cData c) []).
  Local Notation stz := (nth z starts O).

  Lemma sz_syms : Forall (fun a => (a < cK c)%nat) sz.
  Proof. apply Forall_nth_lt; auto. apply (wf_syms c Hwf). Qed.

  Lemma sz_range : (stz + cW c <= length sz)%nat.
  Proof. apply starts_in_range_spec in Hr. destruct Hr as [_ H]. apply H; auto. Qed.

  Lemma n_le_u32 : N.of_nat (length (cData c)) <= u32_max.
  Proof. apply (wf_n c Hwf). Qed.

  Lemma tot_le_usize k : tot (cData c) k <= usize_max.
  Proof. etransitivity; [apply tot_le|apply (wf_total c Hwf)]. Qed.

  Lemma motif_include :
    nth z act false = false ->
    motif_window c inc_u32 sz stz (recompute_motif K W data act starts)
    = Ok (recompute_motif K W data (upd z true act) starts).
  Proof.
    intros Ha. rewrite !recompute_motif_mtab.
    destruct (motif_window_inc c sz stz (mtab W K (spec_motif_cell data act starts)))
      as [m' [E [Hsh Hc]]].
    - apply mtab_shape.
    - apply sz_range.
    - apply sz_syms.
    - intros j k Hj Hk. rewrite mcell_mtab by auto.
      rewrite <- (spec_motif_set data act starts z Hz ltac:(lia) j k Ha).
      etransitivity; [apply spec_motif_le|apply n_le_u32].
    - rewrite E. f_equal. apply mtab_ext_eq; auto.
      intros j k Hj Hk. rewrite Hc by auto. rewrite mcell_mtab by auto.
      symmetry. apply spec_motif_set; auto. lia.
  Qed.

  Lemma motif_exclude :
    nth z act false = true ->
    motif_window c dec1 sz stz (recompute_motif K W data act starts)
    = Ok (recompute_motif K W data (upd z false act) starts).
  Proof.
    intros Ha. rewrite !recompute_motif_mtab.
    destruct (motif_window_dec c sz stz (mtab W K (spec_motif_cell data act starts)))
      as [m' [E [Hsh Hc]]].
    - apply mtab_shape.
    - apply sz_range.
    - apply sz_syms.
    - intros j k Hj Hk. rewrite mcell_mtab by auto.
      rewrite (spec_motif_unset data act starts z Hz ltac:(lia) j k Ha). lia.
    - rewrite E. f_equal. apply mtab_ext_eq; auto.
      intros j k Hj Hk. rewrite Hc by auto. rewrite mcell_mtab by auto.
      rewrite (spec_motif_unset data act starts z Hz ltac:(lia) j k Ha). lia.
  Qed.

  Lemma cnts_z : nth z (cCounts c) [] = count_symbols (cK c) sz.
  Proof.
    rewrite (wf_counts c Hwf). unfold sampler_data_counts. apply nth_map_lt; auto.
  Qed.

  Lemma bg_include :
    nth z act false = false ->
    (b1 <- bg_counts c add_usize (nth z (cCounts c) []) (recompute_bg K W data act starts) ;;
     bg_window c dec1 sz stz b1)
    = Ok (recompute_bg K W data (upd z true act) starts).
  Proof.
    intros Ha. rewrite !recompute_bg_vtab. rewrite cnts_z.
    destruct (bg_counts_add c (count_symbols (cK c) sz) (vtab K (spec_bg_cell W data act starts)))
      as [b1 [E1 [Hl1 Hc1]]].
    - apply vtab_length.
    - apply count_symbols_length.
    - intros k Hk. rewrite nth_vtab, nth_count_symbols by auto.
      etransitivity; [apply spec_bg_plus_inactive; auto|apply tot_le_usize].
    - rewrite E1. cbn [rbind].
      destruct (bg_window_dec c sz stz b1 Hl1 sz_range sz_syms) as [b2 [E2 [Hl2 Hc2]]].
      + intros k Hk. rewrite Hc1, nth_vtab, nth_count_symbols by auto.
        pose proof (win_count_le (cW c) sz stz k). lia.
      + rewrite E2. f_equal. apply vtab_ext_eq; auto.
        intros k Hk. rewrite Hc2, Hc1, nth_vtab, nth_count_symbols by auto.
        rewrite (spec_bg_set W data act starts z Hz ltac:(lia) k Ha). 
        pose proof (win_count_le (cW c) sz stz k). lia.
  Qed.

  Lemma bg_exclude :
    nth z act false = true ->
    (b1 <- bg_window c (fun v => add_usize v 1) sz stz (recompute_bg K W data act starts) ;;
     bg_counts c sub_usize (nth z (cCounts c) []) b1)
    = Ok (recompute_bg K W data (upd z false act) starts).
  Proof.
    intros Ha. rewrite !recompute_bg_vtab. rewrite cnts_z.
    assert (Ha' : nth z (upd z false act) false = false) by (apply nth_upd_same; lia).
    assert (Hsplit : forall k, spec_bg_cell W data act starts k + win_count W sz stz k
                               = spec_bg_cell W data (upd z false act) starts k + count_sym sz k).
    { intros k. rewrite (spec_bg_unset W data act starts z Hz ltac:(lia) k Ha). 
      pose proof (win_count_le W sz stz k). lia. }
    destruct (bg_window_inc c sz stz (vtab K (spec_bg_cell W data act starts))) as [b1 [E1 [Hl1 Hc1]]].
    - apply vtab_length.
    - apply sz_range.
    - apply sz_syms.
    - intros k Hk. rewrite nth_vtab by auto. rewrite Hsplit.
      etransitivity; [apply spec_bg_plus_inactive; auto|apply tot_le_usize].
    - rewrite E1. cbn [rbind].
      destruct (bg_counts_sub c (count_symbols (cK c) sz) b1 Hl1 (count_symbols_length _ _))
        as [b2 [E2 [Hl2 Hc2]]].
      + intros k Hk. rewrite Hc1, nth_vtab, nth_count_symbols by auto. rewrite Hsplit. lia.
      + rewrite E2. f_equal. apply vtab_ext_eq; auto.
        intros k Hk. rewrite Hc2, Hc1, nth_vtab, nth_count_symbols by auto. rewrite Hsplit. lia.
  Qed.
End Tables.
