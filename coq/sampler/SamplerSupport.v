(* The support of the weights (SamplerF32.support, on the integer tables) against the
   floating-point pipeline score_vec -> weight_vec -> WeightedIndex:

     dead position  =>  its score is -inf or NaN  =>  its weight is not positive
                    =>  it is never drawn;   all positions dead  =>  the start is kept.

   Purely structural on the special values of binary32 / binary64 (no rounding analysis).
   The converse (a live position has a positive weight) needs bounds on the magnitude of
   the scores (no overflow of the f32 sum, no underflow of 2^x in binary64) and is not
   proved. *)
From Coq Require Import List ZArith NArith Bool Arith Lia.
From Flocq Require Import Core BinarySingleNaN.
From LMBase Require Import Res ListX IEEE.
From LMPwm Require Import PwmModel.
From LMSampler Require Import SamplerModel SamplerSpec SamplerF32 SamplerF32Proofs SamplerF64.
Import ListNotations.

(* ---------- special values of a binary32 sum ---------- *)

Definition ninf_or_nan (x : F32.t) : Prop := x = F32.ninf \/ x = F32.nan.

Lemma add32_fin_not_nan (a b : F32.t) :
  F32.is_finite a = true -> F32.is_finite b = true -> F32.is_nan (F32.add a b) = false.
Proof.
  intros Ha Hb.
  pose proof (Bplus_correct 24 128 _ _ mode_NE a b Ha Hb) as H.
  change (Bplus mode_NE a b) with (F32.add a b) in H.
  destruct (Rlt_bool _ _).
  - destruct H as [_ [HF _]]. destruct (F32.add a b); try discriminate; reflexivity.
  - destruct H as [H _]. destruct (F32.add a b); cbn in H; try discriminate; reflexivity.
Qed.

(* a sum that is not NaN stays not NaN when a finite term is added *)
Lemma add32_notnan_fin (acc t : F32.t) :
  F32.is_nan acc = false -> F32.is_finite t = true -> F32.is_nan (F32.add acc t) = false.
Proof.
  intros Ha Ht. destruct acc as [sa|sa| |sa ma ea Ba]; try discriminate.
  - apply add32_fin_not_nan; auto.
  - destruct t as [st|st| |st mt et Bt]; try discriminate; reflexivity.
  - apply add32_fin_not_nan; auto.
Qed.

(* adding -inf to a sum that is not NaN gives -inf or NaN (NaN: the sum had overflowed to +inf) *)
Lemma add32_notnan_ninf (acc : F32.t) :
  F32.is_nan acc = false -> ninf_or_nan (F32.add acc F32.ninf).
Proof.
  intros Ha. destruct acc as [sa|[|]| |sa ma ea Ba]; try discriminate; cbv; auto.
Qed.

Lemma add32_dead_fin (acc t : F32.t) :
  ninf_or_nan acc -> F32.is_finite t = true -> ninf_or_nan (F32.add acc t).
Proof.
  intros [->| ->] Ht; destruct t as [st|st| |st mt et Bt]; try discriminate; cbv; auto.
Qed.

Lemma add32_dead_ninf (acc : F32.t) : ninf_or_nan acc -> ninf_or_nan (F32.add acc F32.ninf).
Proof. intros [->| ->]; cbv; auto. Qed.

(* terms tagged by flags: flagged terms are -inf, the others finite *)
Definition tagged (d : bool) (t : F32.t) : Prop :=
  if d then t = F32.ninf else F32.is_finite t = true.

Lemma fold_dead_stays : forall flags terms acc,
  Forall2 tagged flags terms -> ninf_or_nan acc -> ninf_or_nan (fold_left F32.add terms acc).
Proof.
  intros flags terms acc H. revert acc. induction H as [|d t fl tl Ht _ IH]; intros acc Ha; cbn [fold_left]; auto.
  apply IH. destruct d; cbn [tagged] in Ht.
  - subst t. apply add32_dead_ninf; auto.
  - apply add32_dead_fin; auto.
Qed.

Lemma fold_dead : forall flags terms acc,
  Forall2 tagged flags terms -> existsb (fun b : bool => b) flags = true ->
  F32.is_nan acc = false -> ninf_or_nan (fold_left F32.add terms acc).
Proof.
  intros flags terms acc H. revert acc. induction H as [|d t fl tl Ht Hr IH]; intros acc He Ha.
  - discriminate.
  - cbn [fold_left]. destruct d; cbn [tagged existsb orb] in *.
    + subst t. eapply fold_dead_stays; eauto. apply add32_notnan_ninf; auto.
    + apply IH; auto. apply add32_notnan_fin; auto.
Qed.

(* ---------- the window terms against the flags of pos_dead ---------- *)

Lemma is_neg_inf_eq (x : F32.t) : F32.is_neg_inf x = true -> x = F32.ninf.
Proof. destruct x as [s|[|]| |s m e B]; try discriminate; reflexivity. Qed.

Lemma window_tagged K bg : forall (motif : matrix) (m : list (list F32.t)) (syms : list nat),
  length m = length motif ->
  forallb (fun b : bool => b)
          (map2 (fun row frow => forallb (cell_shape K bg row frow) (seq 0 K)) motif m) = true ->
  Forall (fun a => a < K) syms ->
  length motif <= length syms ->
  Forall2 tagged (map2 (fun row x => cell_ninf K bg row x) motif syms)
                 (map2 (fun (frow : list F32.t) x => nth x frow F32.zero) m syms).
Proof.
  induction motif as [|row motif IH]; intros m syms Hl Hs Hk Hlen.
  - destruct m; [|discriminate]. constructor.
  - destruct m as [|frow m]; [discriminate|]. destruct syms as [|x syms]; [cbn in Hlen; lia|].
    cbn [map2 forallb] in *. apply andb_true_iff in Hs. destruct Hs as [Hrow Hrest].
    inversion Hk as [|? ? Hx Hk']; subst.
    constructor.
    + rewrite forallb_forall in Hrow. specialize (Hrow x). unfold cell_shape in Hrow.
      assert (Hin : In x (seq 0 K)) by (apply in_seq; lia). specialize (Hrow Hin).
      unfold tagged. destruct (cell_ninf K bg row x); [apply is_neg_inf_eq; exact Hrow|exact Hrow].
    + apply IH; auto. cbn in Hlen. lia.
Qed.

Lemma Forall_skipn'' {A} (P : A -> Prop) : forall n l, Forall P l -> Forall P (skipn n l).
Proof.
  induction n as [|n IH]; intros l H; [exact H|]. destruct l; [constructor|]. inversion H; subst. apply IH; auto.
Qed.

(* a dead position scores -inf or NaN *)
Lemma dead_score K bg motif m s p :
  pssm_shape K bg motif m = true ->
  Forall (fun a => a < K) s ->
  p + length motif <= length s ->
  pos_dead K bg motif s p = true ->
  ninf_or_nan (fold_left F32.add (window_terms F32ops m s p) F32.zero).
Proof.
  intros Hsh Hs Hp Hd. unfold pssm_shape in Hsh. apply andb_true_iff in Hsh. destruct Hsh as [Hl Hsh].
  apply Nat.eqb_eq in Hl. unfold pos_dead in Hd. unfold window_terms. cbn [n_zero F32ops].
  eapply fold_dead; [| exact Hd | reflexivity].
  apply window_tagged; auto.
  - apply Forall_skipn''. exact Hs.
  - rewrite skipn_length. lia.
Qed.

(* ---------- weights ---------- *)

Section Weights.
  Variable fexp2 : F64.t -> F64.t.
  (* IEEE 754 / C99 F.10.4.4: pow(2, -inf) = +0 and pow(2, NaN) = NaN: neither is > 0 *)
  Hypothesis Hexp_ninf : F64.lt F64.zero (fexp2 F64.ninf) = false.
  Hypothesis Hexp_nan : F64.lt F64.zero (fexp2 F64.nan) = false.

  Lemma exponent_ninf : F64.div (F64.of_f32 F32.ninf) f64_one = F64.ninf.
  Proof. vm_compute. reflexivity. Qed.
  Lemma exponent_nan : F64.div (F64.of_f32 F32.nan) f64_one = F64.nan.
  Proof. vm_compute. reflexivity. Qed.

  Lemma dead_weight (x : F32.t) :
    ninf_or_nan x -> F64.lt F64.zero (fexp2 (F64.div (F64.of_f32 x) f64_one)) = false.
  Proof. intros [->| ->]; [rewrite exponent_ninf|rewrite exponent_nan]; assumption. Qed.

  Lemma nth_weight W m s p :
    p < length s + 1 - W ->
    nth p (weight_vec fexp2 (score_vec W m s)) F64.zero =
    fexp2 (F64.div (F64.of_f32 (fold_left F32.add (window_terms F32ops m s p) F32.zero)) f64_one).
  Proof.
    intros Hp. unfold weight_vec, score_vec.
    rewrite map_map.
    rewrite (nth_map_lt _ _ p F64.zero 0) by (rewrite seq_length; exact Hp).
    rewrite seq_nth by exact Hp. reflexivity.
  Qed.

  (* (a) a dead position does not have a positive weight *)
  Theorem dead_position_weight K bg motif m s p :
    pssm_shape K bg motif m = true ->
    Forall (fun a => a < K) s ->
    p < length s + 1 - length motif -> length motif <= length s ->
    pos_dead K bg motif s p = true ->
    F64.lt F64.zero (nth p (weight_vec fexp2 (score_vec (length motif) m s)) F64.zero) = false.
  Proof.
    intros Hsh Hs Hp Hlen Hd. rewrite nth_weight by exact Hp.
    apply dead_weight. eapply dead_score; eauto. lia.
  Qed.

  (* (b) a drawn start is alive according to the integer tables *)
  Theorem drawn_position_alive K bg motif m s word p cum total scale :
    pssm_shape K bg motif m = true ->
    Forall (fun a => a < K) s -> length motif <= length s ->
    wi_new (weight_vec fexp2 (score_vec (length motif) m s)) = WOk cum total scale ->
    draw fexp2 (length motif) m s (Some word) = Ok (UNew p) ->
    scale_ok scale = true -> word_ok word = true ->
    upd_possible (support K (length motif) bg motif s) (UNew p) = true.
  Proof.
    intros Hsh Hs Hlen Hw Hd Hsc Hwd.
    pose proof (draw_range _ _ _ _ _ _ Hd) as Hp.
    assert (Hpos : F64.lt F64.zero (nth p (weight_vec fexp2 (score_vec (length motif) m s)) F64.zero) = true).
    { unfold draw in Hd. rewrite Hw in Hd. inversion Hd; subst.
      apply (drawn_weight_positive _ cum total scale word Hw Hsc Hwd). }
    cbn [upd_possible]. unfold support.
    rewrite (nth_map_lt _ _ p false 0) by (rewrite seq_length; exact Hp).
    rewrite seq_nth by exact Hp. cbn [Nat.add].
    destruct (pos_dead K bg motif s p) eqn:Ed; [|reflexivity].
    rewrite (dead_position_weight K bg motif m s p Hsh Hs Hp Hlen Ed) in Hpos. discriminate.
  Qed.

  (* ---------- (c) no positive weight at all: WeightedIndex::new fails, the start is kept ---------- *)

  Lemma nonpos_ge_is_zero (w : F64.t) :
    F64.lt F64.zero w = false -> F64.ge w F64.zero = true -> exists sg, w = B754_zero sg.
  Proof.
    destruct w as [sg|[|]| |[|] mw ew Bw]; intros H1 H2; try discriminate; eauto.
  Qed.

  Lemma zero_add_zero s1 s2 : exists s3, F64.add (B754_zero s1) (B754_zero s2) = @B754_zero 53 1024 s3.
  Proof. destruct s1, s2; eexists; reflexivity. Qed.

  Lemma wi_loop_zero : forall ws t acc,
    (exists sg, t = B754_zero sg) ->
    Forall (fun w => F64.lt F64.zero w = false) ws ->
    match wi_loop t ws acc with
    | None => True
    | Some (_, tot) => exists sg, tot = B754_zero sg
    end.
  Proof.
    induction ws as [|w r IH]; intros t acc Ht Hf; cbn [wi_loop]; auto.
    inversion Hf as [|? ? Hw Hr]; subst.
    destruct (F64.ge w F64.zero) eqn:Eg; [|exact I].
    destruct (nonpos_ge_is_zero w Hw Eg) as [sw ->]. destruct Ht as [st ->].
    apply IH; auto. apply zero_add_zero.
  Qed.

  Lemma no_positive_weight_err ws :
    Forall (fun w => F64.lt F64.zero w = false) ws -> wi_new ws = WErr.
  Proof.
    intros Hf. unfold wi_new. destruct ws as [|w0 r]; [reflexivity|].
    inversion Hf as [|? ? H0 Hr]; subst.
    destruct (F64.ge w0 F64.zero) eqn:Eg; cbn [negb]; [|reflexivity].
    destruct (nonpos_ge_is_zero w0 H0 Eg) as [s0 E0].
    pose proof (wi_loop_zero r w0 [] (ex_intro _ s0 E0) Hr) as Hl.
    destruct (wi_loop w0 r []) as [[cum tot]|]; [|reflexivity].
    destruct Hl as [sg ->]. destruct sg; reflexivity.
  Qed.

  Theorem all_dead_keeps K bg motif m s word :
    pssm_shape K bg motif m = true ->
    Forall (fun a => a < K) s -> length motif <= length s ->
    forallb negb (support K (length motif) bg motif s) = true ->
    draw fexp2 (length motif) m s word = Ok UKeep.
  Proof.
    intros Hsh Hs Hlen Hall. unfold draw.
    rewrite no_positive_weight_err; [reflexivity|].
    apply Forall_forall. intros w Hin.
    destruct (In_nth _ _ F64.zero Hin) as [p [Hp Hw]].
    rewrite weight_vec_length, score_vec_length in Hp. subst w.
    apply (dead_position_weight K bg motif m s p Hsh Hs Hp Hlen).
    rewrite forallb_forall in Hall. unfold support in Hall.
    specialize (Hall (negb (pos_dead K bg motif s p))).
    assert (Hi : In (negb (pos_dead K bg motif s p)) (map (fun p0 => negb (pos_dead K bg motif s p0)) (seq 0 (length s + 1 - length motif)))).
    { apply in_map_iff. exists p. split; [reflexivity|]. apply in_seq. lia. }
    specialize (Hall Hi). destruct (pos_dead K bg motif s p); [reflexivity|discriminate].
  Qed.
End Weights.
