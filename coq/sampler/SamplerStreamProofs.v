(* Lemmas about the word-stream model (SamplerStream.v):
     - every reader consumes a PREFIX of the stream and its result depends on that prefix only
       ([reads]): the trace of k calls is a function of the words consumed,
     - the values drawn are legal (a start inside its sequence, a hold-out select_holdout
       accepts): the stream-driven run is a run of [next] with the choice list [choices_w],
       never Err 1 / 3 / 4,
     - invariant and outcomes of the stream-driven sampler from construction on,
     - Oops, >= 2 sequences longer than the width: no panic except the weight overflow. *)
From Coq Require Import List Arith Bool NArith ZArith Lia.
From LMBase Require Import Res ListX IEEE.
From LMPwm Require Import PwmModel.
From LMSampler Require Import SamplerModel SamplerLemmas SamplerOps SamplerSpec SamplerProofs SamplerRun
  SamplerF32 SamplerF32Proofs SamplerStream SamplerOops.
Import ListNotations.

(* ---------- consumption discipline ---------- *)

Definition reads {A} (f : stream -> res (A * stream)) : Prop :=
  forall ws a r, f ws = Ok (a, r) ->
    exists u, ws = u ++ r /\ forall r2, f (u ++ r2) = Ok (a, r2).

Lemma reject_loop_reads bits n zone : reads (reject_loop bits n zone).
Proof.
  intros ws. induction ws as [|w ws IH]; intros a r H; cbn [reject_loop] in H; [discriminate|].
  destruct (word_val bits w) as [v|] eqn:Ev; [|discriminate].
  destruct ((v * n) mod 2 ^ bits <=? zone)%Z eqn:Ez.
  - inversion H; subst. exists [w]. split; [reflexivity|]. intros r2.
    cbn [app reject_loop]. rewrite Ev, Ez. reflexivity.
  - destruct (IH a r H) as [u [-> Hu]]. exists (w :: u). split; [reflexivity|]. intros r2.
    cbn [app reject_loop]. rewrite Ev, Ez. apply Hu.
Qed.

Lemma reads_bind {A B} (f : stream -> res (A * stream)) (g : A -> stream -> res (B * stream)) :
  reads f -> (forall a, reads (g a)) ->
  reads (fun ws => x <- f ws ;; g (fst x) (snd x)).
Proof.
  intros Hf Hg ws b r H. cbv beta in H.
  destruct (f ws) as [[a r1]| | |] eqn:Ef; cbn [rbind fst snd] in H; try discriminate.
  destruct (Hf ws a r1 Ef) as [u1 [-> H1]].
  destruct (Hg a r1 b r H) as [u2 [-> H2]].
  exists (u1 ++ u2). split; [rewrite app_assoc; reflexivity|]. intros r2. cbv beta.
  rewrite <- app_assoc, H1. cbn [rbind fst snd]. apply H2.
Qed.

Lemma reads_ret {A} (a : A) : reads (fun ws => Ok (a, ws)).
Proof. intros ws a' r H. inversion H; subst. exists []. split; [reflexivity|]. intros r2. reflexivity. Qed.

Lemma reads_ext {A} (f g : stream -> res (A * stream)) :
  (forall ws, f ws = g ws) -> reads g -> reads f.
Proof.
  intros E Hg ws a r H. rewrite E in H. destruct (Hg ws a r H) as [u [-> Hu]].
  exists u. split; [reflexivity|]. intros r2. rewrite E. apply Hu.
Qed.

Lemma reads_map {A B} (f : stream -> res (A * stream)) (h : A -> B) :
  reads f -> reads (fun ws => x <- f ws ;; Ok (h (fst x), snd x)).
Proof.
  intros Hf. apply (reads_bind f (fun a ws => Ok (h a, ws))); auto. intros a. apply reads_ret.
Qed.

Lemma uniform_usize_reads n : reads (uniform_usize n).
Proof. apply reject_loop_reads. Qed.

Lemma gen_index_reads n : reads (gen_index n).
Proof. unfold gen_index. destruct (n <=? 4294967295)%Z; apply reject_loop_reads. Qed.

Lemma starts_w_reads W data : reads (starts_w W data).
Proof.
  induction data as [|s d IH].
  - apply reads_ret.
  - cbn [starts_w]. destruct (length s <? W)%nat.
    + intros ws a r H. discriminate.
    + apply (reads_bind (uniform_usize (Z.of_nat (length s - W + 1)))
                        (fun a ws => y <- starts_w W d ws ;; Ok (Z.to_nat a :: fst y, snd y))).
      * apply uniform_usize_reads.
      * intros a. apply (reads_map (starts_w W d) (fun l => Z.to_nat a :: l)). exact IH.
Qed.


(* ---------- the values drawn are legal ---------- *)

(* words as the generator hands them out: next_u32 / next_u64 *)
Definition wd_ok (w : word) : Prop :=
  match w with W32 v => (0 <= v < 2 ^ 32)%Z | W64 v => (0 <= v < 2 ^ 64)%Z end.
Definition stream_ok (ws : stream) : Prop := Forall wd_ok ws.

(* a reader that never panics: a value and a well-formed rest, or the stream fell short (5),
   or an unmodelled branch of rand (6) *)
Definition rd_ok {A} (E : nat -> Prop) (P : A -> Prop) (f : stream -> res (A * stream)) : Prop :=
  forall ws, stream_ok ws ->
    match f ws with
    | Ok (a, r) => P a /\ stream_ok r
    | Err e => E e
    | _ => False
    end.
Definition E5 (e : nat) : Prop := e = 5.
Definition E56 (e : nat) : Prop := e = 5 \/ e = 6.

Lemma word_val_range bits w v :
  (bits = 32 \/ bits = 64)%Z -> wd_ok w -> word_val bits w = Some v -> (0 <= v < 2 ^ bits)%Z.
Proof.
  intros Hb Hw. destruct w as [x|x]; cbn [word_val wd_ok] in *.
  - destruct (bits =? 32)%Z eqn:E; [|discriminate]. apply Z.eqb_eq in E. subst bits. intros H; inversion H; subst; auto.
  - destruct (bits =? 64)%Z eqn:E; [|discriminate]. apply Z.eqb_eq in E. subst bits. intros H; inversion H; subst; auto.
Qed.

Lemma wmul_hi_range v n b : (0 <= v < b)%Z -> (0 < n)%Z -> (0 <= (v * n) / b < n)%Z.
Proof.
  intros Hv Hn. split.
  - apply Z.div_pos; nia.
  - apply Z.div_lt_upper_bound; nia.
Qed.

Lemma reject_loop_ok bits n zone :
  (bits = 32 \/ bits = 64)%Z -> (0 < n)%Z ->
  rd_ok E5 (fun h => (0 <= h < n)%Z) (reject_loop bits n zone).
Proof.
  intros Hb Hn ws. induction ws as [|w ws IH]; intros Hs; cbn [reject_loop]; [reflexivity|].
  inversion Hs as [|? ? Hw Hs']; subst.
  destruct (word_val bits w) as [v|] eqn:Ev; [|reflexivity].
  pose proof (word_val_range bits w v Hb Hw Ev) as Hv.
  destruct ((v * n) mod 2 ^ bits <=? zone)%Z.
  - split; [|exact Hs']. apply wmul_hi_range; auto.
  - apply IH. exact Hs'.
Qed.

Lemma rd_ok_bind {A B} E (P : A -> Prop) (Q : B -> Prop) f (g : A -> stream -> res (B * stream)) :
  rd_ok E P f -> (forall a, P a -> rd_ok E Q (g a)) ->
  rd_ok E Q (fun ws => x <- f ws ;; g (fst x) (snd x)).
Proof.
  intros Hf Hg ws Hs. cbv beta. specialize (Hf ws Hs).
  destruct (f ws) as [[a r]|e|s|]; cbn [rbind fst snd]; auto.
  destruct Hf as [Ha Hr]. apply (Hg a Ha r Hr).
Qed.

Lemma rd_ok_ret {A} E (P : A -> Prop) a : P a -> rd_ok E P (fun ws => Ok (a, ws)).
Proof. intros Ha ws Hs. auto. Qed.

Lemma rd_ok_map {A B} E (P : A -> Prop) (Q : B -> Prop) f (h : A -> B) :
  rd_ok E P f -> (forall a, P a -> Q (h a)) -> rd_ok E Q (fun ws => x <- f ws ;; Ok (h (fst x), snd x)).
Proof.
  intros Hf Hh. apply (rd_ok_bind E P Q f (fun a ws => Ok (h a, ws))); auto.
  intros a Ha. apply rd_ok_ret. auto.
Qed.

Lemma rd_ok_weaken {A} (E E' : nat -> Prop) (P Q : A -> Prop) f :
  rd_ok E P f -> (forall e, E e -> E' e) -> (forall a, P a -> Q a) -> rd_ok E' Q f.
Proof.
  intros Hf He Hpq ws Hs. specialize (Hf ws Hs). destruct (f ws) as [[a r]|e|s|]; auto.
  destruct Hf; auto.
Qed.

Lemma uniform_usize_ok n : (0 < n)%Z -> rd_ok E5 (fun h => (0 <= h < n)%Z) (uniform_usize n).
Proof. intros Hn. apply reject_loop_ok; auto. Qed.

Lemma gen_index_ok n : (0 < n)%Z -> rd_ok E5 (fun h => (0 <= h < n)%Z) (gen_index n).
Proof. intros Hn. unfold gen_index. destruct (n <=? 4294967295)%Z; apply reject_loop_ok; auto. Qed.

Lemma range32_incl_ok lo hi : rd_ok E5 (fun _ => True) (range32_incl lo hi).
Proof.
  unfold range32_incl. cbv zeta. destruct ((hi - lo + 1) mod 2 ^ 32 =? 0)%Z eqn:E.
  - intros ws Hs. destruct ws as [|[v|v] r]; try reflexivity. inversion Hs; subst. auto.
  - apply (rd_ok_map E5 (fun h => (0 <= h < (hi - lo + 1) mod 2 ^ 32)%Z)); auto.
    apply reject_loop_ok; auto. apply Z.eqb_neq in E.
    pose proof (Z.mod_pos_bound (hi - lo + 1) (2 ^ 32) ltac:(lia)). lia.
Qed.

Lemma floyd_loop_ok sh js : forall ind, rd_ok E5 (fun _ => True) (floyd_loop sh js ind).
Proof.
  induction js as [|j r IH]; intros ind; cbn [floyd_loop].
  - apply rd_ok_ret. exact I.
  - apply (rd_ok_bind E5 (fun _ => True) (fun _ => True) (range32_incl 0 j)
             (fun t ws => floyd_loop sh r
                (match position t ind with
                 | Some pos => if sh then insert_at pos j ind else ind ++ [j]
                 | None => ind ++ [t]
                 end) ws)).
    + apply range32_incl_ok.
    + intros a _. apply IH.
Qed.

Lemma shuffle_loop_ok is_ : forall ind, rd_ok E5 (fun _ => True) (shuffle_loop is_ ind).
Proof.
  induction is_ as [|i r IH]; intros ind; cbn [shuffle_loop].
  - apply rd_ok_ret. exact I.
  - apply (rd_ok_bind E5 (fun _ => True) (fun _ => True) (range32_incl 0 (Z.of_nat i))
             (fun x ws => shuffle_loop r (swap i (Z.to_nat x) ind) ws)).
    + apply range32_incl_ok.
    + intros a _. apply IH.
Qed.

Lemma inplace_loop_ok len is_ : forall ind, rd_ok E5 (fun _ => True) (inplace_loop len is_ ind).
Proof.
  induction is_ as [|i r IH]; intros ind; cbn [inplace_loop].
  - apply rd_ok_ret. exact I.
  - apply (rd_ok_bind E5 (fun _ => True) (fun _ => True) (range32_incl (Z.of_nat i) (Z.of_nat len - 1))
             (fun x ws => inplace_loop len r (swap i (Z.to_nat x) ind) ws)).
    + apply range32_incl_ok.
    + intros a _. apply IH.
Qed.

Lemma index_sample_ok len amount : rd_ok E56 (fun _ => True) (index_sample len amount).
Proof.
  unfold index_sample. destruct ((500000 <=? N.of_nat len)%N || (163 <=? amount)%nat).
  - intros ws _. right. reflexivity.
  - apply (rd_ok_map E56 (fun _ => True)); auto.
    apply (rd_ok_weaken E5 E56 (fun _ => True) (fun _ => True)); [|intros e He; left; exact He|auto].
    destruct (use_inplace len amount).
    + unfold sample_inplace. apply (rd_ok_map E5 (fun _ => True)); auto. apply inplace_loop_ok.
    + unfold sample_floyd.
      apply (rd_ok_bind E5 (fun _ => True) (fun _ => True) (floyd_loop (amount <? 50)%nat _ [])
               (fun a ws => if (amount <? 50)%nat then Ok (a, ws)
                            else shuffle_loop (rev (seq 1 (amount - 1))) a ws)).
      * apply floyd_loop_ok.
      * intros a _. destruct (amount <? 50)%nat; [apply rd_ok_ret; exact I|apply shuffle_loop_ok].
Qed.

Lemma seeds_w_ok n initial : rd_ok E56 (fun _ => True) (seeds_w n initial).
Proof. apply index_sample_ok. Qed.

(* the initial starts drawn from the stream leave every window inside its sequence *)
Lemma starts_w_ok W data :
  Forall (fun s => (W <= length s)%nat) data ->
  rd_ok E5 (fun sts => starts_in_range W data sts = true) (starts_w W data).
Proof.
  induction data as [|s d IH]; intros Hl.
  - apply rd_ok_ret. reflexivity.
  - inversion Hl as [|? ? Hs Hd]; subst. cbn [starts_w].
    destruct (Nat.ltb_spec (length s) W) as [Hlt|_]; [lia|].
    apply (rd_ok_bind E5 (fun h => (0 <= h < Z.of_nat (length s - W + 1))%Z)
                      (fun sts => starts_in_range W (s :: d) sts = true)
                      (uniform_usize (Z.of_nat (length s - W + 1)))
                      (fun a ws => y <- starts_w W d ws ;; Ok (Z.to_nat a :: fst y, snd y))).
    + apply uniform_usize_ok. lia.
    + intros a Ha.
      apply (rd_ok_map E5 (fun sts => starts_in_range W d sts = true)); [apply IH; exact Hd|].
      intros sts Hr. apply starts_in_range_spec in Hr. destruct Hr as [Hlen Hr].
      apply starts_in_range_spec. split; [cbn [length]; congruence|].
      intros i Hi. destruct i as [|i]; cbn [nth].
      * lia.
      * apply Hr. cbn [length] in Hi. lia.
Qed.

Section Stream.
  Variable flog2 : F32.t -> F32.t.
  Variable fpow2 : F32.t -> F32.t.
  Variable fexp2 : F64.t -> F64.t.

  Local Notation choice_of := (choice_of flog2 fpow2 fexp2).
  Local Notation next_w := (next_w flog2 fpow2 fexp2).
  Local Notation run_w := (run_w flog2 fpow2 fexp2).
  Local Notation choices_w := (choices_w flog2 fpow2 fexp2).
  Local Notation sampler_w := (sampler_w flog2 fpow2 fexp2).

  Lemma holdout_w_reads c st : reads (holdout_w c st).
  Proof.
    unfold holdout_w. cbv zeta.
    assert (Hu : reads (fun ws => if (length (st_starts st) =? 0)%nat then Panic 6
                                  else x <- uniform_usize (Z.of_nat (length (st_starts st))) ws ;;
                                       Ok (Z.to_nat (fst x), snd x))).
    { destruct (length (st_starts st) =? 0)%nat.
      - intros ws a r H. discriminate.
      - apply (reads_map _ Z.to_nat). apply uniform_usize_reads. }
    destruct (cMode c); [exact Hu|].
    destruct (st_step st <? cInertia c)%N; [|exact Hu].
    destruct (cSeed c) as [|s0 sr] eqn:Es.
    - intros ws a r H. discriminate.
    - apply (reads_map _ (fun i => nth (Z.to_nat i) (s0 :: sr) O)). apply gen_index_reads.
  Qed.

  (* the draw ignores the word unless it returns a new start *)
  Lemma draw_word_irrelevant W m s w u :
    draw fexp2 W m s w = Ok u -> (forall p, u <> UNew p) ->
    forall w', draw fexp2 W m s w' = Ok u.
  Proof.
    unfold draw. destruct (wi_new (weight_vec fexp2 (score_vec W m s))); intros H Hn w'; auto; try discriminate.
    destruct w; [|discriminate]. inversion H; subst. exfalso. eapply Hn. reflexivity.
  Qed.

  Lemma draw_new_needs_word W m s p : draw fexp2 W m s None <> Ok (UNew p).
  Proof.
    unfold draw. destruct (wi_new (weight_vec fexp2 (score_vec W m s))); discriminate.
  Qed.

  Lemma choice_of_word_irrelevant c st z w ch :
    choice_of c st z w = Ok ch -> (forall p, ch_upd ch <> UNew p) ->
    forall w', choice_of c st z w' = Ok ch.
  Proof.
    intros H Hn w'. destruct (choice_of_spec flog2 fpow2 fexp2 c st z w ch H) as [_ [st1 [p1 [E1 [Ep [Ed _]]]]]].
    pose proof (draw_word_irrelevant _ _ _ _ _ Ed Hn w') as Ed'.
    unfold SamplerF32.choice_of in *. rewrite E1 in *. cbn [rbind] in *. rewrite Ep in *. cbn [rbind] in *.
    rewrite Ed in H. rewrite Ed'. exact H.
  Qed.

  Lemma choice_of_new_needs_word c st z ch p :
    choice_of c st z None = Ok ch -> ch_upd ch <> UNew p.
  Proof.
    intros H. destruct (choice_of_spec flog2 fpow2 fexp2 c st z None ch H) as [_ [st1 [p1 [_ [_ [Ed _]]]]]].
    intros E. rewrite E in Ed. exact (draw_new_needs_word _ _ _ _ Ed).
  Qed.

  Lemma next_w_reads c st : reads (next_w c st).
  Proof.
    intros ws x r H. unfold SamplerStream.next_w in *. destruct (st_conv st).
    { inversion H; subst. exists []. split; [reflexivity|]. intros r2. reflexivity. }
    destruct (holdout_w c st ws) as [[z r1]| | |] eqn:Eh; cbn [rbind fst snd] in H; try discriminate.
    destruct (holdout_w_reads c st ws z r1 Eh) as [u1 [-> H1]].
    destruct (choice_of c st z (head64 r1)) as [ch| | |] eqn:Ec; cbn [rbind] in H; try discriminate.
    destruct (next c st ch) as [x'| | |] eqn:En; cbn [rbind] in H; try discriminate.
    inversion H; subst x' r; clear H.
    destruct (ch_upd ch) as [|p|] eqn:Eu.
    - exists u1. split; [reflexivity|]. intros r2. rewrite H1. cbn [rbind fst snd].
      rewrite (choice_of_word_irrelevant c st z _ ch Ec) by (rewrite Eu; discriminate).
      cbn [rbind]. rewrite En. cbn [rbind]. rewrite Eu. reflexivity.
    - destruct r1 as [|[v|v] r1'].
      + exfalso. cbn [head64] in Ec. exact (choice_of_new_needs_word c st z ch p Ec Eu).
      + exfalso. cbn [head64] in Ec. exact (choice_of_new_needs_word c st z ch p Ec Eu).
      + exists (u1 ++ [W64 v]). cbn [tl]. split; [rewrite <- app_assoc; reflexivity|]. intros r2.
        rewrite <- app_assoc. cbn [app]. rewrite H1. cbn [rbind fst snd head64].
        cbn [head64] in Ec. rewrite Ec. cbn [rbind]. rewrite En. cbn [rbind]. rewrite Eu. reflexivity.
    - exists u1. split; [reflexivity|]. intros r2. rewrite H1. cbn [rbind fst snd].
      rewrite (choice_of_word_irrelevant c st z _ ch Ec) by (rewrite Eu; discriminate).
      cbn [rbind]. rewrite En. cbn [rbind]. rewrite Eu. reflexivity.
  Qed.

  Lemma run_w_reads c k : forall st, reads (run_w c st k).
  Proof.
    induction k as [|k IH]; intros st.
    - apply reads_ret.
    - cbn [SamplerStream.run_w].
      apply (reads_bind (next_w c st)
               (fun x ws => tr <- run_w c (fst x) k ws ;; Ok (x :: fst tr, snd tr))).
      + apply next_w_reads.
      + intros x. apply (reads_map (run_w c (fst x) k) (fun t => x :: t)). apply IH.
  Qed.

  (* ---------- a stream-driven run is a run of [next] with the choices [choices_w] ---------- *)

  Lemma next_w_is_next c st ws x r :
    next_w c st ws = Ok (x, r) ->
    exists ch, next c st ch = Ok x /\
      (st_conv st = false ->
       exists z r1, holdout_w c st ws = Ok (z, r1) /\ choice_of c st z (head64 r1) = Ok ch /\ ch_z ch = z).
  Proof.
    unfold SamplerStream.next_w. destruct (st_conv st) eqn:Ecv.
    - intros H. inversion H; subst. exists (mkChoice O UKeep true). unfold next. rewrite Ecv.
      split; [reflexivity|discriminate].
    - destruct (holdout_w c st ws) as [[z r1]| | |] eqn:Eh; cbn [rbind fst snd]; try discriminate.
      destruct (choice_of c st z (head64 r1)) as [ch| | |] eqn:Ec; cbn [rbind]; try discriminate.
      destruct (next c st ch) as [x'| | |] eqn:En; cbn [rbind]; try discriminate.
      intros H. inversion H; subst. exists ch. split; [exact En|]. intros _.
      exists z, r1. repeat split; auto.
      destruct (choice_of_spec flog2 fpow2 fexp2 c st z _ ch Ec) as [Hz _]. exact Hz.
  Qed.

  Lemma run_w_is_run c k : forall st ws t r,
    run_w c st k ws = Ok (t, r) ->
    run c st (choices_w c st k ws) = Ok t /\ length t = k /\ length (choices_w c st k ws) = k.
  Proof.
    induction k as [|k IH]; intros st ws t r H.
    - cbn in H. inversion H; subst. cbn. auto.
    - cbn [SamplerStream.run_w] in H.
      destruct (next_w c st ws) as [[x r1]| | |] eqn:En; cbn [rbind fst snd] in H; try discriminate.
      destruct (run_w c (fst x) k r1) as [[t' r']| | |] eqn:Er; cbn [rbind fst snd] in H; try discriminate.
      inversion H; subst t r; clear H.
      cbn [SamplerStream.choices_w]. unfold SamplerStream.next_w in En.
      destruct (st_conv st) eqn:Ecv.
      + inversion En; subst x r1; clear En. cbn [fst] in Er.
        destruct (IH st ws t' r' Er) as [Hr [Hl Hc]].
        cbn [run]. unfold next at 1. rewrite Ecv. cbn [rbind fst]. rewrite Hr. cbn [rbind length].
        repeat split; auto.
      + destruct (holdout_w c st ws) as [[z r0]| | |] eqn:Eh; cbn [rbind fst snd] in En; try discriminate.
        destruct (choice_of c st z (head64 r0)) as [ch| | |] eqn:Ec; cbn [rbind] in En; try discriminate.
        destruct (next c st ch) as [x'| | |] eqn:Enx; cbn [rbind] in En; try discriminate.
        inversion En; subst x' r1; clear En. cbv beta iota. cbn [fst snd].
        destruct (IH (fst x) _ t' r' Er) as [Hr [Hl Hc]].
        rewrite Ec, Enx. cbn [run]. rewrite Enx. cbn [rbind]. rewrite Hr. cbn [rbind length].
        repeat split; auto.
  Qed.

  (* ---------- outcomes ---------- *)

  (* Ok, the documented panics 5..9, the stream fell short / an unmodelled branch of
     index::sample (5, 6), an invalid seed set (2: only from the construction, Zoops), the fuel
     of the scale loop of Uniform::new; in particular never Err 1 (initial start outside its
     sequence), Err 3 (hold-out select_holdout cannot produce), Err 4 (new start outside) *)
  Definition allowed_w {A} (r : res A) : Prop :=
    match r with
    | Ok _ => True
    | Panic s => 5 <= s <= 9
    | Err e => e = 2 \/ e = 5 \/ e = 6
    | OutOfFuel => True
    end.

  (* the hold-out computed from the words is one select_holdout can return *)
  Lemma holdout_w_ok c st :
    CInv c st -> seed_ok c ->
    forall ws, stream_ok ws ->
      match holdout_w c st ws with
      | Ok (z, r) => select_holdout c st z = Ok z /\ z < length (cData c) /\ stream_ok r
      | Panic s => s = 5 \/ s = 6
      | Err e => e = 5
      | OutOfFuel => False
      end.
  Proof.
    intros Hi Hseed ws Hs. unfold holdout_w. cbv zeta.
    assert (Hu : (cMode c = Zoops -> (st_step st <? cInertia c)%N = false) ->
                 match (if (length (st_starts st) =? 0)%nat then Panic 6
                        else x <- uniform_usize (Z.of_nat (length (st_starts st))) ws ;;
                             Ok (Z.to_nat (fst x), snd x)) with
                 | Ok (z, r) => select_holdout c st z = Ok z /\ z < length (cData c) /\ stream_ok r
                 | Panic s => s = 5 \/ s = 6
                 | Err e => e = 5
                 | OutOfFuel => False
                 end).
    { intros Hph. rewrite (ci_starts_len c st Hi).
      destruct (Nat.eqb_spec (length (cData c)) 0) as [E0|E0]; [right; reflexivity|].
      pose proof (uniform_usize_ok (Z.of_nat (length (cData c))) ltac:(lia) ws Hs) as Hr.
      destruct (uniform_usize (Z.of_nat (length (cData c))) ws) as [[h r]|e|s|]; cbn [rbind fst snd]; auto; try contradiction.
      destruct Hr as [Hh Hr]. assert (Hz : Z.to_nat h < length (cData c)) by lia.
      split; [|split; [exact Hz|exact Hr]]. apply select_holdout_ok; [exact Hi|exact Hz|].
      intros Hm Hlt. specialize (Hph Hm). apply N.ltb_lt in Hlt. congruence. }
    destruct (cMode c) eqn:Em; [apply Hu; discriminate|].
    destruct (st_step st <? cInertia c)%N eqn:Eph; [|apply Hu; auto].
    destruct (cSeed c) as [|s0 sr] eqn:Es; [left; reflexivity|]. rewrite <- Es.
    pose proof (gen_index_ok (Z.of_nat (length (cSeed c))) ltac:(rewrite Es; cbn [length]; lia) ws Hs) as Hr.
    destruct (gen_index (Z.of_nat (length (cSeed c))) ws) as [[h r]|e|s|]; cbn [rbind fst snd]; auto; try contradiction.
    destruct Hr as [Hh Hr]. assert (Hin : In (nth (Z.to_nat h) (cSeed c) O) (cSeed c)) by (apply nth_In; lia).
    assert (Hz : nth (Z.to_nat h) (cSeed c) O < length (cData c)).
    { unfold seed_ok in Hseed. rewrite Forall_forall in Hseed. auto. }
    split; [|split; auto]. apply select_holdout_ok; auto.
  Qed.

  Lemma next_no_err3 c st ch z :
    WF c -> seed_ok c -> Inv c st -> select_holdout c st (ch_z ch) = Ok z -> next c st ch <> Err 3.
  Proof.
    intros Hwf Hseed [Hi Hlast Hoops] Es. unfold next. destruct (st_conv st); [discriminate|].
    pose proof (select_holdout_safe c st (ch_z ch) Hseed Hi) as Hsel. rewrite Es in *. cbn [rbind].
    destruct Hsel as [_ Hz].
    rewrite bv_test_ok by (rewrite (ci_act_len c st Hi); auto). cbn [rbind].
    pose proof (resample_safe c st z (ch_upd ch) Hwf Hi Hz) as Hres.
    destruct (resample c st z (ch_upd ch)) as [[cm st3]|e|s|] eqn:Er; cbn [rbind]; try discriminate.
    2:{ subst e. discriminate. }
    destruct (resample_ok c st z (ch_upd ch) cm st3 Hwf Hi Hz Er) as [Hi3 [_ [[Hc1 [Hc2 _]] _]]].
    cbn [fst snd].
    assert (H4 : match (match cMode c, nth z (st_active st) false with
                        | Zoops, false => zoops_test c st3 z (ch_accept ch)
                        | _, _ => Ok st3
                        end) with
                 | Ok _ => True | Panic s => s = 7 | _ => False end).
    { destruct (cMode c), (nth z (st_active st) false); try exact I.
      apply zoops_test_safe; auto. rewrite Hc1, Hc2. exact Hlast. }
    destruct (match cMode c, nth z (st_active st) false with
              | Zoops, false => zoops_test c st3 z (ch_accept ch)
              | _, _ => Ok st3
              end) as [st4|e|s|]; cbn [rbind]; try discriminate; try contradiction.
    destruct (st_step st4 + 1 <=? usize_max)%N; discriminate.
  Qed.

  (* one call: the invariant is kept, the rest of the stream is well formed; otherwise one of
     the outcomes of allowed_w *)
  Theorem next_w_safe c st ws :
    WF c -> seed_ok c -> Inv c st -> stream_ok ws ->
    match next_w c st ws with
    | Ok (x, r) => Inv c (fst x) /\ next_post c st (fst x) (snd x) /\ stream_ok r
    | r => allowed_w r
    end.
  Proof.
    intros Hwf Hseed Hinv Hs. pose proof Hinv as [Hi Hlast Hoops].
    destruct (next_w c st ws) as [[x r]|e|s|] eqn:En.
    - destruct (next_w_is_next c st ws x r En) as [ch [Hn _]]. destruct x as [st' oit].
      destruct (next_inv c st ch st' oit Hwf Hinv Hn) as [Hinv' Hpost]. cbn [fst snd].
      split; [exact Hinv'|]. split; [exact Hpost|].
      destruct (next_w_reads c st ws _ r En) as [u [-> _]].
      unfold stream_ok in *. apply Forall_app in Hs. tauto.
    - revert En. unfold SamplerStream.next_w. destruct (st_conv st); [discriminate|].
      pose proof (holdout_w_ok c st Hi Hseed ws Hs) as Hh.
      destruct (holdout_w c st ws) as [[z r1]|e'|s'|]; cbn [rbind fst snd].
      2:{ intros H; inversion H; subst. cbn [allowed_w]. tauto. }
      2,3: discriminate.
      destruct Hh as [Hsel [Hz Hr1]].
      pose proof (choice_of_safe flog2 fpow2 fexp2 c st z (head64 r1) Hwf Hi Hz) as Hc.
      destruct (choice_of c st z (head64 r1)) as [ch|e'|s'|]; cbn [rbind].
      2:{ intros H; inversion H; subst. cbn [allowed_w]. tauto. }
      2,3: discriminate.
      destruct Hc as [Hcz Hp].
      pose proof (next_safe c st ch Hwf Hseed Hinv) as Hsafe.
      assert (Hn4 : next c st ch <> Err 4) by (apply next_no_err4; auto; rewrite Hcz; exact Hp).
      assert (Hn3 : next c st ch <> Err 3) by (apply (next_no_err3 c st ch z); auto; rewrite Hcz; exact Hsel).
      destruct (next c st ch) as [x|e'|s'|]; cbn [rbind]; try discriminate.
      intros H; inversion H; subst. cbn [allowed] in Hsafe. exfalso. destruct Hsafe as [->| ->]; congruence.
    - revert En. unfold SamplerStream.next_w. destruct (st_conv st); [discriminate|].
      pose proof (holdout_w_ok c st Hi Hseed ws Hs) as Hh.
      destruct (holdout_w c st ws) as [[z r1]|e'|s'|]; cbn [rbind fst snd].
      2: discriminate.
      2:{ intros H; inversion H; subst. cbn [allowed_w]. lia. }
      2: discriminate.
      destruct Hh as [Hsel [Hz Hr1]].
      pose proof (choice_of_safe flog2 fpow2 fexp2 c st z (head64 r1) Hwf Hi Hz) as Hc.
      destruct (choice_of c st z (head64 r1)) as [ch|e'|s'|]; cbn [rbind].
      2: discriminate.
      2:{ intros H; inversion H; subst. cbn [allowed_w]. lia. }
      2: discriminate.
      pose proof (next_safe c st ch Hwf Hseed Hinv) as Hsafe.
      destruct (next c st ch) as [x|e'|s'|]; cbn [rbind]; try discriminate.
      intros H; inversion H; subst. exact Hsafe.
    - exact I.
  Qed.

  Theorem run_w_inv c k :
    WF c -> seed_ok c -> forall st ws, Inv c st -> stream_ok ws ->
    match run_w c st k ws with
    | Ok (t, r) => length t = k /\ trace_ok c st t /\ stream_ok r
    | r => allowed_w r
    end.
  Proof.
    intros Hwf Hseed. induction k as [|k IH]; intros st ws Hinv Hs.
    - cbn. auto.
    - cbn [SamplerStream.run_w]. pose proof (next_w_safe c st ws Hwf Hseed Hinv Hs) as Hn.
      destruct (next_w c st ws) as [[[st' oit] r1]|e|s|]; cbn [rbind fst snd]; auto.
      cbn [fst snd] in Hn. destruct Hn as [Hinv' [Hpost Hr1]].
      specialize (IH st' r1 Hinv' Hr1).
      destruct (run_w c st' k r1) as [[t r]|e|s|]; cbn [rbind fst snd]; auto.
      destruct IH as [Hl [Ht Hr]]. split; [cbn [length]; congruence|]. split; [|exact Hr].
      cbn [trace_ok]. auto.
  Qed.

  (* ---------- construction + run ---------- *)

  Lemma new_cases K W data wraps m initial inertia patience starts0 seeds0 :
    data_ok K W data ->
    Forall (fun wr => W <= wr) wraps ->
    starts_in_range W data starts0 = true ->
    (exists c st0,
       new_ K W data wraps m initial inertia patience starts0 seeds0 = Ok (c, st0) /\
       WF c /\ Inv c st0 /\ seed_ok c /\ cK c = K /\ cW c = W /\ cData c = data /\ cMode c = m /\
       st_step st0 = 0%N /\ st_conv st0 = false) \/
    (m = Zoops /\ new_ K W data wraps m initial inertia patience starts0 seeds0 = Err 2).
  Proof.
    intros Hd Hw Hr.
    assert (Hgood : (m = Zoops -> seeds_ok (length data) initial seeds0) ->
                    exists c st0,
                      new_ K W data wraps m initial inertia patience starts0 seeds0 = Ok (c, st0) /\
                      WF c /\ Inv c st0 /\ seed_ok c /\ cK c = K /\ cW c = W /\ cData c = data /\ cMode c = m /\
                      st_step st0 = 0%N /\ st_conv st0 = false).
    { intros Hs.
      destruct (new_ok K W data wraps m initial inertia patience starts0 seeds0 Hd Hw Hr Hs)
        as [c [st0 [E [Hwf [Hinv [Hc [_ [Hstep [Hconv _]]]]]]]]].
      exists c, st0. split; [exact E|]. split; [exact Hwf|]. split; [exact Hinv|].
      split.
      { unfold seed_ok. rewrite Hc. cbn [cSeed cData]. destruct m; [constructor|].
        destruct (Hs eq_refl) as [_ [Hlt _]]. exact Hlt. }
      rewrite Hc. cbn [cK cW cData cMode]. repeat split; auto. }
    destruct m; [left; apply Hgood; discriminate|].
    destruct (nodupb seeds0 && forallb (fun i => i <? length data) seeds0
              && (N.of_nat (length seeds0) =? N.min initial (N.of_nat (length data)))%N) eqn:B.
    - left. apply Hgood. intros _. apply andb_true_iff in B. destruct B as [B B3].
      apply andb_true_iff in B. destruct B as [B1 B2]. unfold seeds_ok. split; [apply nodupb_spec; exact B1|].
      split; [|apply N.eqb_eq; exact B3].
      apply Forall_forall. intros x Hx. rewrite forallb_forall in B2. apply Nat.ltb_lt. auto.
    - right. split; [reflexivity|]. destruct Hd as [Hsy [Hlen [Hn Htot]]]. unfold new_.
      rewrite (Forall_existsb_false (fun wr => (wr <? W)%nat) wraps)
        by (eapply Forall_impl; [|exact Hw]; intros a Ha; apply Nat.ltb_ge; exact Ha).
      rewrite (Forall_existsb_false (fun s => (length s <? W)%nat) data)
        by (eapply Forall_impl; [|exact Hlen]; intros a Ha; apply Nat.ltb_ge; exact Ha).
      rewrite Hr. cbn [negb]. rewrite B. reflexivity.
  Qed.

  Section Holds.
    Variable freq : N -> N -> Z.

    (* Sampler::_new and k calls of next() as a function of the word stream: C16 holds at
       every step, or one of the outcomes of allowed_w *)
    Theorem sampler_w_holds K W data wraps m initial inertia patience k ws :
      data_ok K W data ->
      Forall (fun wr => W <= wr) wraps ->
      stream_ok ws ->
      match sampler_w K W data wraps m initial inertia patience k ws with
      | Ok (cs, t, r) =>
          length t = k /\
          Holds_C16 freq K W data (report_of freq (snd cs)) (obs_of_trace freq t)
      | r => allowed_w r
      end.
    Proof.
      intros Hd Hw Hs. unfold SamplerStream.sampler_w.
      rewrite (Forall_existsb_false (fun wr => (wr <? W)%nat) wraps)
        by (eapply Forall_impl; [|exact Hw]; intros a Ha; apply Nat.ltb_ge; exact Ha).
      pose proof (starts_w_ok W data (proj1 (proj2 Hd)) ws Hs) as H1.
      destruct (starts_w W data ws) as [[sts r1]|e|s|]; cbn [rbind fst snd];
        [|cbn [allowed_w]; unfold E5 in H1; tauto|contradiction|contradiction].
      destruct H1 as [Hr Hs1].
      assert (H2 : match (match m with Oops => Ok ([], r1) | Zoops => seeds_w (length data) initial r1 end) with
                   | Ok (sd, r2) => stream_ok r2
                   | Err e => e = 5 \/ e = 6
                   | _ => False
                   end).
      { destruct m; [exact Hs1|]. pose proof (seeds_w_ok (length data) initial r1 Hs1) as H.
        destruct (seeds_w (length data) initial r1) as [[sd r2]|e|s|]; auto. tauto. }
      destruct (match m with Oops => Ok ([], r1) | Zoops => seeds_w (length data) initial r1 end)
        as [[sd r2]|e|s|]; cbn [rbind fst snd]; [|cbn [allowed_w]; tauto|contradiction|contradiction].
      destruct (new_cases K W data wraps m initial inertia patience sts sd Hd Hw Hr)
        as [[c [st0 [E [Hwf [Hinv [Hseed [HK [HW [HD [HM [Hstep Hconv]]]]]]]]]]]|[_ E]];
        rewrite E; cbn [rbind fst snd]; [|cbn [allowed_w]; tauto].
      pose proof (run_w_inv c k Hwf Hseed st0 r2 Hinv H2) as Hrun.
      destruct (run_w c st0 k r2) as [[t r]|e|s|]; cbn [rbind fst snd]; auto.
      destruct Hrun as [Hl [Ht _]]. split; [exact Hl|].
      pose proof (run_holds freq c st0 t Hinv Hstep Ht) as H. rewrite HK, HW, HD in H. exact H.
    Qed.
  End Holds.

  (* ---------- Oops, >= 2 sequences longer than the width: no panic but the weight overflow ---------- *)

  Lemma sum_usize_fold l : forall acc t, sum_usize l acc = Ok t -> fold_left N.add l acc = t.
  Proof.
    induction l as [|x l IH]; intros acc t H; cbn [sum_usize fold_left] in *.
    - inversion H; reflexivity.
    - unfold add_usize in H. destruct (acc + x <=? usize_max)%N; cbn [rbind] in H; [|discriminate].
      apply IH. exact H.
  Qed.

  Lemma pssm_of_total K bgc motif t :
    bg_total bgc = Ok t -> exists p, pssm_of K flog2 motif bgc = Ok p.
  Proof.
    unfold bg_total. destruct (sum_usize bgc 0) as [tot| | |] eqn:Es; cbn [rbind]; try discriminate.
    destruct (N.eqb_spec tot 0) as [E0|E0]; [discriminate|]. intros _.
    unfold pssm_of, bg_from_counts. rewrite (sum_usize_fold bgc 0%N tot Es).
    destruct (N.eqb_spec tot 0); [contradiction|]. eexists. reflexivity.
  Qed.

  (* what a successful choice_of has computed *)
  Lemma choice_of_ok_inv c st z w ch :
    choice_of c st z w = Ok ch ->
    exists st1 st2, exclude_sequence c st z = Ok st1 /\ update_holdout c st1 z (ch_upd ch) = Ok st2.
  Proof.
    unfold SamplerF32.choice_of.
    destruct (exclude_sequence c st z) as [st1| | |] eqn:E1; cbn [rbind]; try discriminate.
    destruct (pssm_of (cK c) flog2 (st_motif st1) (st_bg st1)) as [p1| | |] eqn:Ep; cbn [rbind]; try discriminate.
    destruct (draw fexp2 (cW c) (snd p1) (nth z (cData c) []) w) as [u| | |] eqn:Ed; cbn [rbind]; try discriminate.
    destruct (update_holdout c st1 z u) as [st2| | |] eqn:E2; cbn [rbind]; try discriminate.
    destruct (include_sequence c st2 z) as [st3| | |]; cbn [rbind]; try discriminate.
    intros H. assert (Hu : ch_upd ch = u).
    { destruct (match cMode c with Zoops => negb (nth z (st_active st) false) | Oops => false end);
        [destruct (pssm_of (cK c) flog2 (st_motif st3) (st_bg st3))|]; inversion H; subst; auto. }
    exists st1, st2. rewrite Hu. auto.
  Qed.

  (* with the background of the alignment without z positive, choice_of does not panic at site 7 *)
  Lemma choice_of_no_panic7 c st z w st1 t :
    WF c -> CInv c st -> z < length (cData c) ->
    exclude_sequence c st z = Ok st1 -> bg_total (st_bg st1) = Ok t ->
    choice_of c st z w <> Panic 7.
  Proof.
    intros Hwf Hi Hz E1 Ht.
    destruct (exclude_ok c st z Hwf Hi Hz) as [st1' [E1' [Hi1 [Ha1 [Hs1 Hc1]]]]].
    rewrite E1 in E1'. inversion E1'; subst st1'; clear E1'.
    destruct (pssm_of_total (cK c) (st_bg st1) (st_motif st1) t Ht) as [p1 Ep].
    unfold SamplerF32.choice_of. rewrite E1. cbn [rbind]. rewrite Ep. cbn [rbind].
    pose proof (draw_outcomes fexp2 (cW c) (snd p1) (nth z (cData c) []) w) as Hd.
    destruct (draw fexp2 (cW c) (snd p1) (nth z (cData c) []) w) as [u|e|s|]; cbn [rbind]; try discriminate; try contradiction.
    pose proof (update_holdout_safe c st1 z u Hi1 Hz) as Hu.
    destruct (update_holdout c st1 z u) as [st2|e|s|] eqn:E2; cbn [rbind]; try discriminate.
    2:{ subst s. discriminate. }
    assert (Hz1 : nth z (st_active st1) false = false).
    { rewrite Ha1. apply nth_upd_same. rewrite (ci_act_len c st Hi). auto. }
    destruct (update_ok c st1 _ _ st2 Hi1 Hz1 E2) as [Hi2 _].
    destruct (include_ok c st2 _ Hwf Hi2 Hz) as [st3 [E3 _]].
    rewrite E3. cbn [rbind].
    destruct (match cMode c with Zoops => negb (nth z (st_active st) false) | Oops => false end);
      [destruct (pssm_of (cK c) flog2 (st_motif st3) (st_bg st3))|]; discriminate.
  Qed.

  Definition oops_outcome {A} (r : res A) : Prop :=
    match r with
    | Ok _ => True
    | Panic s => s = 8        (* the weights sum to +inf: depends on the magnitudes / the exp2 oracle *)
    | Err e => e = 5          (* the stream ends / delivers the wrong kind of word *)
    | OutOfFuel => True       (* fuel of the scale loop of Uniform::new *)
    end.

  Lemma next_w_oops c st ws :
    WF c -> seed_ok c -> strict_len c -> cMode c = Oops -> 2 <= length (cData c) ->
    Inv c st -> st_conv st = false -> (st_step st < usize_max)%N -> stream_ok ws ->
    match next_w c st ws with
    | Ok (x, r) => Inv c (fst x) /\ st_conv (fst x) = false /\ st_step (fst x) = (st_step st + 1)%N /\ stream_ok r
    | r => oops_outcome r
    end.
  Proof.
    intros Hwf Hseed Hstrict Hm Hn Hinv Hconv Hstep Hs. pose proof Hinv as [Hi Hlast Hoops].
    pose proof (next_w_safe c st ws Hwf Hseed Hinv Hs) as Hsafe.
    destruct (next_w c st ws) as [[[st' oit] r]|e|s|] eqn:En.
    - cbn [fst snd] in *. destruct Hsafe as [Hinv' [Hpost Hr]].
      destruct (next_w_is_next c st ws _ r En) as [ch [Hnx _]].
      destruct (next_oops_conv c st ch st' oit Hwf Hinv Hm Hconv Hnx) as [Hc' Hsome].
      destruct oit as [it|]; [|congruence]. cbn [next_post] in Hpost.
      destruct Hpost as [_ [_ [_ [Hs' _]]]]. auto.
    - (* Err: only 5 *)
      revert En. unfold SamplerStream.next_w. rewrite Hconv.
      pose proof (holdout_w_ok c st Hi Hseed ws Hs) as Hh.
      destruct (holdout_w c st ws) as [[z r1]|e'|s'|]; cbn [rbind fst snd]; try discriminate.
      2:{ intros H; inversion H; subst. first [exact Hh|reflexivity]. }
      destruct Hh as [Hsel [Hz Hr1]].
      pose proof (choice_of_safe flog2 fpow2 fexp2 c st z (head64 r1) Hwf Hi Hz) as Hc.
      destruct (choice_of c st z (head64 r1)) as [ch|e'|s'|] eqn:Ech; cbn [rbind]; try discriminate.
      2:{ intros H; inversion H; subst. first [exact Hc|reflexivity]. }
      destruct Hc as [Hcz Hp].
      destruct (choice_of_ok_inv c st z _ ch Ech) as [st1 [st2 [E1 E2]]].
      assert (Hcok : choice_ok c st ch).
      { apply (oops_choice_ok_state c st ch Hm Hn Hinv Hstep). split; [rewrite Hcz; exact Hz|].
        destruct (ch_upd ch) as [|p|] eqn:Eu; [exact I| |discriminate].
        rewrite Hcz. apply Hp. reflexivity. }
      destruct (next_progress c st ch Hwf Hstrict Hinv Hcok) as [st' [oit Enx]].
      rewrite Enx. cbn [rbind]. discriminate.
    - (* Panic: only 8 *)
      revert En. unfold SamplerStream.next_w. rewrite Hconv.
      unfold holdout_w. cbv zeta. rewrite Hm. rewrite (ci_starts_len c st Hi).
      destruct (Nat.eqb_spec (length (cData c)) 0) as [E0|E0]; [lia|].
      pose proof (uniform_usize_ok (Z.of_nat (length (cData c))) ltac:(lia) ws Hs) as Hr.
      destruct (uniform_usize (Z.of_nat (length (cData c))) ws) as [[h r1]|e'|s'|]; cbn [rbind fst snd];
        try discriminate; try contradiction.
      destruct Hr as [Hh Hr1]. set (z := Z.to_nat h). assert (Hz : z < length (cData c)) by (unfold z; lia).
      pose proof (choice_of_safe flog2 fpow2 fexp2 c st z (head64 r1) Hwf Hi Hz) as Hc.
      destruct (exclude_ok c st z Hwf Hi Hz) as [st1 [E1 [Hi1 [Ha1 _]]]].
      assert (Hbg : exists t, bg_total (st_bg st1) = Ok t).
      { rewrite (bg_total_cases c st1 Hwf Hi1).
        assert (Hex : exists i, i <> z /\ i < length (cData c) /\ nth i (st_active st) false = true).
        { destruct (Nat.eq_dec z 0) as [E|E].
          - exists 1. split; [lia|]. split; [lia|]. apply (Hoops Hm). lia.
          - exists 0. split; [lia|]. split; [lia|]. apply (Hoops Hm). lia. }
        destruct Hex as [i [Hne [Hil Hia]]].
        assert (Hp : (0 < bg_sum c (st_active st1) (st_starts st1))%N).
        { apply (bg_sum_pos c _ _ i Hwf Hstrict (ci_range c st1 Hi1) Hil).
          rewrite Ha1, nth_upd_other by auto. exact Hia. }
        destruct (N.eqb_spec (bg_sum c (st_active st1) (st_starts st1)) 0); [lia|]. eexists; reflexivity. }
      destruct Hbg as [t Ht].
      pose proof (choice_of_no_panic7 c st z (head64 r1) st1 t Hwf Hi Hz E1 Ht) as Hn7.
      destruct (choice_of c st z (head64 r1)) as [ch|e'|s'|] eqn:Ech; cbn [rbind]; try discriminate.
      2:{ intros H; inversion H; subst. destruct Hc as [->| ->]; [congruence|reflexivity]. }
      destruct Hc as [Hcz Hp].
      destruct (choice_of_ok_inv c st z _ ch Ech) as [st1' [st2 [_ E2]]].
      assert (Hcok : choice_ok c st ch).
      { apply (oops_choice_ok_state c st ch Hm Hn Hinv Hstep). split; [rewrite Hcz; exact Hz|].
        destruct (ch_upd ch) as [|p|] eqn:Eu; [exact I| |discriminate].
        rewrite Hcz. apply Hp. reflexivity. }
      destruct (next_progress c st ch Hwf Hstrict Hinv Hcok) as [st' [oit Enx]].
      rewrite Enx. cbn [rbind]. discriminate.
    - exact I.
  Qed.

  Lemma run_w_oops c k :
    WF c -> seed_ok c -> strict_len c -> cMode c = Oops -> 2 <= length (cData c) ->
    forall st ws, Inv c st -> st_conv st = false ->
      (st_step st + N.of_nat k <= usize_max)%N -> stream_ok ws ->
      oops_outcome (run_w c st k ws).
  Proof.
    intros Hwf Hseed Hstrict Hm Hn. induction k as [|k IH]; intros st ws Hinv Hconv Hstep Hs.
    - exact I.
    - cbn [SamplerStream.run_w].
      pose proof (next_w_oops c st ws Hwf Hseed Hstrict Hm Hn Hinv Hconv ltac:(lia) Hs) as H1.
      destruct (next_w c st ws) as [[x r1]|e|s|]; cbn [rbind fst snd]; auto.
      destruct H1 as [Hinv' [Hconv' [Hs' Hr1]]].
      specialize (IH (fst x) r1 Hinv' Hconv' ltac:(rewrite Hs'; lia) Hr1).
      destruct (run_w c (fst x) k r1) as [[t r]|e|s|]; cbn [rbind]; auto.
  Qed.

  Theorem sampler_w_oops K W data wraps initial inertia patience k ws :
    data_ok K W data ->
    Forall (fun s => W < length s) data ->
    2 <= length data ->
    Forall (fun wr => W <= wr) wraps ->
    stream_ok ws ->
    (N.of_nat k <= usize_max)%N ->
    oops_outcome (sampler_w K W data wraps Oops initial inertia patience k ws).
  Proof.
    intros Hd Hstr Hn Hw Hs Hk. unfold SamplerStream.sampler_w.
    rewrite (Forall_existsb_false (fun wr => (wr <? W)%nat) wraps)
      by (eapply Forall_impl; [|exact Hw]; intros a Ha; apply Nat.ltb_ge; exact Ha).
    pose proof (starts_w_ok W data (proj1 (proj2 Hd)) ws Hs) as H1.
    destruct (starts_w W data ws) as [[sts r1]|e|s|]; cbn [rbind fst snd]; try contradiction; [|exact H1].
    destruct H1 as [Hr Hs1].
    destruct (new_cases K W data wraps Oops initial inertia patience sts [] Hd Hw Hr)
      as [[c [st0 [E [Hwf [Hinv [Hseed [HK [HW [HD [HM [Hstep Hconv]]]]]]]]]]]|[Hz _]]; [|discriminate].
    rewrite E. cbn [rbind fst snd].
    pose proof (run_w_oops c k Hwf Hseed ltac:(unfold strict_len; rewrite HW, HD; exact Hstr) HM
                           ltac:(rewrite HD; exact Hn) st0 r1 Hinv Hconv ltac:(rewrite Hstep; lia) Hs1) as H.
    destruct (run_w c st0 k r1) as [[t r]|e|s|]; cbn [rbind]; auto.
  Qed.
End Stream.
