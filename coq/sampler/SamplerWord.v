(* word_ok is not a premise but a theorem: for every u64 word the fraction computed by
   UniformFloat::sample, (word >> 12 | 0x3FF0000000000000 as f64) - 1.0, is finite and lies in
   [0, max_rand] with max_rand = 1 - 2^-52. *)
From Coq Require Import List ZArith NArith Bool Arith Lia Reals Lra.
From Coq Require Import SpecFloat.
From Flocq Require Import Core BinarySingleNaN.
From Flocq Require Binary Bits.
From LMBase Require Import Res ListX IEEE.
From LMSampler Require Import SamplerModel SamplerF32 SamplerF32Proofs SamplerF64.
Import ListNotations.

Local Instance vexp64' : Valid_exp (SpecFloat.fexp 53 1024) := fexp_correct 53 1024 Hprec64.
Local Instance vrnd64' : Valid_rnd (round_mode mode_NE) := valid_rnd_round_mode mode_NE.

Local Open Scope Z_scope.

Definition one_bits : Z := 4607182418800017408.      (* 0x3FF0000000000000 = 1023 * 2^52 *)

Lemma one_bits_shift : one_bits = Z.shiftl 1023 52.
Proof. reflexivity. Qed.

Lemma land_low_high (f : Z) : 0 <= f < 2 ^ 52 -> Z.land f one_bits = 0.
Proof.
  intros [H0 H1]. apply Z.bits_inj'. intros n Hn. rewrite Z.land_spec, Z.bits_0.
  destruct (Z.lt_ge_cases n 52) as [Hl|Hg].
  - rewrite one_bits_shift, Z.shiftl_spec_low by exact Hl. apply andb_false_r.
  - assert (Hf : Z.testbit f n = false).
    { destruct (Z.eq_dec f 0) as [->|Hne]; [apply Z.bits_0|].
      apply Z.bits_above_log2; [lia|].
      assert (Z.log2 f < 52) by (apply Z.log2_lt_pow2; lia). lia. }
    rewrite Hf. reflexivity.
Qed.

Lemma lor_one_bits (f : Z) : 0 <= f < 2 ^ 52 -> Z.lor f one_bits = f + one_bits.
Proof.
  intros Hf. pose proof (land_low_high f Hf) as Hl.
  rewrite (Z.add_nocarry_lxor f one_bits Hl). symmetry. apply Z.lxor_lor. exact Hl.
Qed.

Lemma shiftr_word (word : Z) : 0 <= word < 2 ^ 64 -> 0 <= Z.shiftr word 12 < 2 ^ 52.
Proof.
  intros [H0 H1]. rewrite Z.shiftr_div_pow2 by lia. split; [apply Z.div_pos; lia|].
  apply Z.div_lt_upper_bound; [lia|]. change (2 ^ 12 * 2 ^ 52) with (2 ^ 64). exact H1.
Qed.

(* the float with bit pattern 1023 * 2^52 + f is (2^52 + f) * 2^-52 *)
Lemma decode_one_plus (f : Z) : 0 <= f < 2 ^ 52 ->
  exists p, Zpos p = f + 2 ^ 52 /\
            Bits.binary_float_of_bits_aux 52 11 (f + one_bits) = Binary.F754_finite false p (-52).
Proof.
  intros [H0 H1]. unfold Bits.binary_float_of_bits_aux, Bits.split_bits, one_bits.
  change (2 ^ 52 * 2 ^ 11) with 9223372036854775808.
  assert (Hs : (9223372036854775808 <=? f + 4607182418800017408) = false) by (apply Z.leb_gt; lia).
  rewrite Hs.
  assert (Hq : (f + 4607182418800017408) / 2 ^ 52 = 1023).
  { change 4607182418800017408 with (1023 * 2 ^ 52). rewrite Z.div_add by lia.
    rewrite Z.div_small by lia. reflexivity. }
  assert (Hm : (f + 4607182418800017408) mod 2 ^ 52 = f).
  { change 4607182418800017408 with (1023 * 2 ^ 52). rewrite Z.mod_add by lia.
    apply Z.mod_small. lia. }
  rewrite Hq, Hm. change (1023 mod 2 ^ 11) with 1023. cbn [Zeq_bool Z.compare Pos.compare Pos.compare_cont].
  change (Zeq_bool 1023 (2 ^ 11 - 1)) with false. cbv iota.
  destruct (f + 2 ^ 52) as [|p|p] eqn:E; try lia.
  exists p. split; [reflexivity|]. reflexivity.
Qed.

Local Close Scope Z_scope.
Local Open Scope R_scope.

Lemma one_R : F64.is_finite f64_one = true /\ B2R f64_one = 1.
Proof.
  pose proof (binary_normalize_correct 53 1024 Hprec64 Hmax64 mode_NE 1 0 false) as H. cbv zeta in H.
  change (binary_normalize 53 1024 Hprec64 Hmax64 mode_NE 1 0 false) with f64_one in H.
  assert (HF : F2R (Float radix2 1 0) = 1) by (unfold F2R; cbn; lra).
  rewrite HF in H.
  assert (Hr : rnd64 1 = 1).
  { apply round_generic; auto with typeclass_instances. change 1 with (bpow radix2 0).
    apply generic_format_bpow. unfold fexp, emin. lia. }
  rewrite Hr in H. rewrite Rlt_bool_true in H.
  2:{ rewrite Rabs_R1. change 1 with (bpow radix2 0). apply bpow_lt. lia. }
  destruct H as [HR [HFin _]]. split; assumption.
Qed.

Global Opaque f64_one.

Lemma max_rand_val : B2R f64_max_rand = IZR 9007199254740990 * / IZR 9007199254740992.
Proof.
  assert (E : exists B, f64_max_rand = @B754_finite 53 1024 false 9007199254740990 (-53) B).
  { vm_compute. eexists. reflexivity. }
  destruct E as [B E]. rewrite E. cbn [B2R]. unfold F2R. cbn [Fnum Fexp cond_Zopp bpow].
  change (Z.pow_pos radix2 53) with 9007199254740992%Z. reflexivity.
Qed.

Lemma u01_value (word : Z) : (0 <= word < 2 ^ 64)%Z ->
  F64.is_finite (u01 word) = true /\
  B2R (u01 word) = IZR (Z.shiftr word 12) * / IZR 4503599627370496.
Proof.
  intros Hw. pose proof (shiftr_word word Hw) as Hf. set (f := Z.shiftr word 12) in *.
  unfold u01. fold f. change 4607182418800017408%Z with one_bits. rewrite (lor_one_bits f Hf).
  destruct (decode_one_plus f Hf) as [p [Hp Hd]].
  assert (Hx : exists B, F64.of_bits (f + one_bits) = @B754_finite 53 1024 false p (-52) B).
  { unfold F64.of_bits, f64_of_bits, Bits.b64_of_bits, Bits.binary_float_of_bits.
    generalize (Bits.binary_float_of_bits_aux_correct 52 11 eq_refl eq_refl eq_refl (f + one_bits)%Z).
    rewrite Hd. intros v. cbn. eexists. reflexivity. }
  destruct Hx as [Bx Hx]. rewrite Hx. destruct one_R as [F1 R1].
  set (x := @B754_finite 53 1024 false p (-52) Bx).
  pose proof (Bminus_correct 53 1024 _ _ mode_NE x f64_one eq_refl F1) as H.
  unfold F64.sub, IEEE.fsub.
  assert (HR : B2R x - B2R f64_one = IZR f * / IZR 4503599627370496).
  { rewrite R1. unfold x. cbn [B2R]. unfold F2R. cbn [Fnum Fexp cond_Zopp bpow].
    change (Z.pow_pos radix2 52) with 4503599627370496%Z. rewrite Hp.
    change (2 ^ 52)%Z with 4503599627370496%Z. rewrite plus_IZR. field. }
  assert (HG : generic_format radix2 fexp64 (IZR f * / IZR 4503599627370496)).
  { replace (IZR f * / IZR 4503599627370496) with (F2R (Float radix2 f (-52))).
    2:{ unfold F2R. cbn [Fnum Fexp bpow]. change (Z.pow_pos radix2 52) with 4503599627370496%Z. reflexivity. }
    apply generic_format_F2R. intros Hne.
    unfold cexp, fexp. rewrite mag_F2R by exact Hne.
    assert (Hm : (mag radix2 (IZR f) <= 52)%Z).
    { apply mag_le_bpow; [apply not_0_IZR; exact Hne|].
      rewrite <- abs_IZR. change (bpow radix2 52) with (IZR (2 ^ 52)). apply IZR_lt.
      rewrite Z.abs_eq by lia. lia. }
    unfold emin. lia. }
  rewrite HR in H. rewrite (round_generic _ _ _ _ HG) in H.
  rewrite Rlt_bool_true in H.
  2:{ rewrite Rabs_pos_eq.
      - apply Rlt_le_trans with 1.
        + apply (Rmult_lt_reg_r (IZR 4503599627370496)); [apply IZR_lt; lia|].
          rewrite Rmult_assoc, Rinv_l, Rmult_1_r, Rmult_1_l by (apply not_0_IZR; lia).
          apply IZR_lt. change 4503599627370496%Z with (2 ^ 52)%Z. lia.
        + change 1 with (bpow radix2 0). apply bpow_le. lia.
      - apply Rmult_le_pos; [apply IZR_le; lia|]. left. apply Rinv_0_lt_compat. apply IZR_lt. lia. }
  destruct H as [HB [HF _]]. split; [exact HF|exact HB].
Qed.

Theorem word_ok_all (word : Z) : (0 <= word < 2 ^ 64)%Z -> word_ok word = true.
Proof.
  intros Hw. destruct (u01_value word Hw) as [Hf Hv]. pose proof (shiftr_word word Hw) as Hs.
  destruct max_rand_R as [Hfm _].
  unfold word_ok. apply andb_true_iff. split.
  - apply (fle_fin F64.zero _ eq_refl Hf). rewrite B2R_zero, Hv.
    apply Rmult_le_pos; [apply IZR_le; lia|]. left. apply Rinv_0_lt_compat. apply IZR_lt. lia.
  - apply (fle_fin _ _ Hf Hfm). rewrite Hv, max_rand_val.
    apply (Rmult_le_reg_r (IZR 9007199254740992)); [apply IZR_lt; lia|].
    rewrite (Rmult_assoc (IZR 9007199254740990)), Rinv_l, Rmult_1_r by (apply not_0_IZR; lia).
    replace (IZR 9007199254740992) with (IZR 4503599627370496 * 2) by (rewrite <- mult_IZR; reflexivity).
    rewrite <- Rmult_assoc, (Rmult_assoc (IZR (Z.shiftr word 12))), Rinv_l, Rmult_1_r by (apply not_0_IZR; lia).
    rewrite <- mult_IZR. apply IZR_le. lia.
Qed.
