(* scale_ok is not a premise but a theorem: the scale left by the adjustment loop of
   UniformFloat::new(0, total) (SamplerF32.uni_scale: decrement the bit pattern by one while
   scale * max_rand + 0 >= total) is finite and >= 0, for every fuel.

   The decrement only happens on a scale that is finite and > 0 (because scale * max_rand >=
   total > 0); the bit pattern of such a float is in [1, 2047 * 2^52), and every bit pattern
   in [0, 2047 * 2^52) decodes to +0 or to a positive finite float. *)
From Coq Require Import List ZArith NArith Bool Arith Lia Reals Lra.
From Coq Require Import SpecFloat.
From Flocq Require Import Core BinarySingleNaN.
From Flocq Require Binary Bits.
From LMBase Require Import Res ListX IEEE.
From LMSampler Require Import SamplerModel SamplerF32 SamplerF32Proofs SamplerF64.
Import ListNotations.

Local Instance vexp64' : Valid_exp (SpecFloat.fexp 53 1024) := fexp_correct 53 1024 Hprec64.
Local Instance vrnd64' : Valid_rnd (round_mode mode_NE) := valid_rnd_round_mode mode_NE.

Local Open Scope Z_scope.

Definition top : Z := 2047 * 2 ^ 52.

(* ---------- decoding a bit pattern below the infinities ---------- *)

Lemma decode_low (n : Z) : 0 <= n < top ->
  Bits.binary_float_of_bits_aux 52 11 n = Binary.F754_zero false \/
  exists m e, Bits.binary_float_of_bits_aux 52 11 n = Binary.F754_finite false m e.
Proof.
  intros [H0 H1]. unfold top in H1. unfold Bits.binary_float_of_bits_aux, Bits.split_bits.
  change (2 ^ 52 * 2 ^ 11) with 9223372036854775808.
  assert (Hs : (9223372036854775808 <=? n) = false) by (apply Z.leb_gt; lia).
  rewrite Hs.
  assert (Hq : 0 <= n / 2 ^ 52 < 2047).
  { split; [apply Z.div_pos; lia|]. apply Z.div_lt_upper_bound; lia. }
  rewrite (Z.mod_small (n / 2 ^ 52) (2 ^ 11)) by (change (2 ^ 11) with 2048; lia).
  assert (Hm : 0 <= n mod 2 ^ 52 < 2 ^ 52) by (apply Z.mod_pos_bound; lia).
  destruct (Zeq_bool (n / 2 ^ 52) 0).
  - destruct (n mod 2 ^ 52) as [|p|p] eqn:E; [left; reflexivity|right; eauto|lia].
  - assert (Hne : Zeq_bool (n / 2 ^ 52) (2 ^ 11 - 1) = false).
    { apply Zeq_bool_false. change (2 ^ 11 - 1) with 2047. lia. }
    rewrite Hne.
    destruct (n mod 2 ^ 52 + 2 ^ 52) as [|p|p] eqn:E; [lia|right; eauto|lia].
Qed.

Lemma of_bits_low (n : Z) : 0 <= n < top ->
  F64.is_finite (F64.of_bits n) = true /\ (0 <= B2R (F64.of_bits n))%R.
Proof.
  intros Hn. unfold F64.of_bits, f64_of_bits, Bits.b64_of_bits, Bits.binary_float_of_bits.
  generalize (Bits.binary_float_of_bits_aux_correct 52 11 eq_refl eq_refl eq_refl n).
  destruct (decode_low n Hn) as [E|[m [e E]]]; rewrite E; intros v; cbn.
  - split; [reflexivity|lra].
  - split; [reflexivity|]. left. apply F2R_gt_0. cbn. lia.
Qed.

(* ---------- the bit pattern of a positive finite float ---------- *)

Lemma bounded_exp (m : positive) (e : Z) :
  SpecFloat.bounded 53 1024 m e = true -> -1074 <= e <= 971.
Proof.
  unfold SpecFloat.bounded, SpecFloat.canonical_mantissa. intros H.
  apply andb_true_iff in H. destruct H as [Hc He].
  apply Zle_bool_imp_le in He. apply Zeq_bool_eq in Hc.
  unfold SpecFloat.fexp, SpecFloat.emin in Hc. split; [|exact He].
  rewrite <- Hc. apply Z.le_max_r.
Qed.

Lemma triple_inj {A B C} (a a' : A) (b b' : B) (c c' : C) :
  (a, b, c) = (a', b', c') -> a = a' /\ b = b' /\ c = c'.
Proof. intros H. inversion H. auto. Qed.

Lemma to_bits_pos (x : f64) : F64.is_finite x = true -> (0 < B2R x)%R ->
  1 <= F64.to_bits x < top.
Proof.
  destruct x as [s|s| |s m e B]; cbn [B2R]; intros Hf Hp; try discriminate; try lra.
  assert (Hs : s = false).
  { destruct s; [|reflexivity]. exfalso.
    assert (F2R (Float radix2 (cond_Zopp true (Zpos m)) e) < 0)%R by (apply F2R_lt_0; cbn; lia). lra. }
  subst s. destruct (bounded_exp m e B) as [He0 He1].
  unfold F64.to_bits, f64_to_bits, Bits.bits_of_b64. cbn [Binary.BSN2B proj1_sig].
  pose proof (Bits.bits_of_binary_float_range 52 11 eq_refl eq_refl (Binary.B754_finite 53 1024 false m e B)) as Hr.
  pose proof (Bits.split_bits_of_binary_float_correct 52 11 eq_refl eq_refl (Binary.B754_finite 53 1024 false m e B)) as Hsp.
  set (z := Bits.bits_of_binary_float 52 11 (Binary.B754_finite 53 1024 false m e B)) in *.
  clearbody z.
  change (52 + 11 + 1) with 64 in Hr.
  unfold Bits.split_bits, Bits.split_bits_of_binary_float in Hsp.
  change (2 ^ 52 * 2 ^ 11) with 9223372036854775808 in Hsp.
  assert (Hsg0 : (9223372036854775808 <=? z) = false).
  { destruct (0 <=? Z.pos m - 2 ^ 52); apply triple_inj in Hsp; destruct Hsp as [H _]; exact H. }
  assert (Hlt : z < 9223372036854775808) by (apply Z.leb_gt; exact Hsg0).
  assert (Hq : 0 <= z / 2 ^ 52 < 2 ^ 11).
  { split; [apply Z.div_pos; lia|]. apply Z.div_lt_upper_bound; [lia|].
    change (2 ^ 52 * 2 ^ 11) with 9223372036854775808. exact Hlt. }
  rewrite (Z.mod_small (z / 2 ^ 52) (2 ^ 11)) in Hsp by exact Hq.
  pose proof (Z.div_mod z (2 ^ 52) ltac:(lia)) as Hdm.
  pose proof (Z.mod_pos_bound z (2 ^ 52) ltac:(lia)) as Hmb.
  unfold top.
  destruct (0 <=? Z.pos m - 2 ^ 52) eqn:En; destruct (triple_inj _ _ _ _ _ _ Hsp) as [Hsg [Hmm Hee]].
  - (* normal: exponent field e - emin + 1 in [1, 2046] *)
    unfold SpecFloat.emin in Hee.
    assert (Hq1 : 1 <= z / 2 ^ 52 <= 2046) by lia.
    revert Hdm Hmb Hq1. generalize (z / 2 ^ 52) (z mod 2 ^ 52). intros q r.
    change (2 ^ 52) with 4503599627370496. lia.
  - (* subnormal: mantissa field = m >= 1, exponent field 0 *)
    assert (Hq0 : z / 2 ^ 52 = 0) by lia.
    assert (Hr1 : 1 <= z mod 2 ^ 52) by lia.
    revert Hdm Hmb Hq0 Hr1. generalize (z / 2 ^ 52) (z mod 2 ^ 52). intros q r.
    change (2 ^ 52) with 4503599627370496. lia.
Qed.

Local Close Scope Z_scope.
Local Open Scope R_scope.

(* the decrement of a positive finite float *)
Lemma decr_ok (x : f64) : F64.is_finite x = true -> 0 < B2R x ->
  F64.is_finite (F64.of_bits (F64.to_bits x - 1)) = true /\
  0 <= B2R (F64.of_bits (F64.to_bits x - 1)).
Proof.
  intros Hf Hp. apply of_bits_low. pose proof (to_bits_pos x Hf Hp). lia.
Qed.

(* ---------- the loop ---------- *)

Lemma uni_scale_ok : forall fuel total s0 scale,
  F64.is_finite total = true -> 0 < B2R total ->
  F64.is_finite s0 = true -> 0 <= B2R s0 ->
  uni_scale fuel total s0 = Some scale ->
  F64.is_finite scale = true /\ 0 <= B2R scale.
Proof.
  induction fuel as [|f IH]; intros total s0 scale Hft Htp Hfs Hs0 H; cbn [uni_scale] in H; [discriminate|].
  destruct (F64.ge (F64.add (F64.mul s0 f64_max_rand) F64.zero) total) eqn:E.
  - destruct max_rand_R as [Hfm [Hm0 Hm1]].
    change (@BinarySingleNaN.is_finite 53 1024 s0 = true) in Hfs.
    change (@BinarySingleNaN.is_finite 53 1024 total = true) in Hft.
    (* s0 * max_rand + 0 >= total > 0, hence s0 > 0 *)
    pose proof (Bmult_correct 53 1024 _ _ mode_NE s0 f64_max_rand) as HX.
    change (Bmult mode_NE s0 f64_max_rand) with (F64.mul s0 f64_max_rand) in HX.
    rewrite Rlt_bool_true in HX.
    2:{ eapply Rle_lt_trans; [|apply (abs_B2R_lt_emax 53 1024 s0)].
        apply abs_round_le_generic; auto with typeclass_instances.
        - apply generic_format_abs. apply generic_format_B2R.
        - rewrite Rabs_mult. rewrite <- (Rmult_1_r (Rabs (B2R s0))) at 2.
          apply Rmult_le_compat_l; [apply Rabs_pos|]. rewrite Rabs_pos_eq by exact Hm0. exact Hm1. }
    destruct HX as [RX [FX _]]. rewrite Hfs, Hfm in FX. cbn [andb] in FX.
    destruct (add_pzero _ FX) as [FX2 RX2].
    unfold F64.ge, IEEE.fge in E.
    change (fle 53 1024 total (F64.add (F64.mul s0 f64_max_rand) F64.zero))
      with (F64.le total (F64.add (F64.mul s0 f64_max_rand) F64.zero)) in E.
    apply (fle_fin _ _ Hft FX2) in E. rewrite RX2, RX in E.
    assert (Hpos : 0 < B2R s0).
    { destruct (Rle_lt_or_eq_dec _ _ Hs0) as [Hl|He]; [exact Hl|]. exfalso.
      rewrite <- He, Rmult_0_l, rnd_0 in E. lra. }
    destruct (decr_ok s0 Hfs Hpos) as [F' R'].
    exact (IH total _ scale Hft Htp F' R' H).
  - inversion H; subst. split; assumption.
Qed.

Lemma scan_ge : forall r t cum tot,
  cum ++ [tot] = scan t r -> F64.is_finite tot = true ->
  Forall (fun w => F64.ge w F64.zero = true) r -> B2R t <= B2R tot.
Proof.
  induction r as [|w r IH]; intros t cum tot H Hf Hg.
  - destruct (scan_nil _ _ _ H) as [_ ->]. lra.
  - destruct (scan_split _ _ _ _ _ H) as [cum' [-> H']].
    destruct (scan_fin _ _ _ _ H' Hf) as [Ht' _].
    destruct (scan_fin _ _ _ _ H Hf) as [_ Hr]. inversion Hr as [|? ? Hfw _]; subst.
    inversion Hg as [|? ? Hgw Hgr]; subst.
    pose proof (add_nonneg_ge t w Ht' (ge_zero_R w Hfw Hgw)).
    pose proof (IH _ _ _ H' Hf Hgr). lra.
Qed.

(* WeightedIndex::new never leaves a negative, infinite or NaN scale *)
Theorem wi_new_scale_ok ws cum total scale :
  wi_new ws = WOk cum total scale -> scale_ok scale = true.
Proof.
  intros Hw.
  destruct (wi_new_spec _ _ _ _ Hw) as (w0 & r & _ & Hg0 & Hgr & Hc & Hnz & Hft & fuel & Hu).
  destruct (scan_fin _ _ _ _ Hc Hft) as [Hf0 _].
  pose proof (scan_ge _ _ _ _ Hc Hft Hgr) as Hge.
  pose proof (ge_zero_R w0 Hf0 Hg0) as H0.
  assert (Htp : 0 < B2R total).
  { destruct (Rle_lt_or_eq_dec 0 (B2R total) ltac:(lra)) as [Hl|He]; [exact Hl|]. exfalso.
    unfold F64.eq, IEEE.feq, fcmp in Hnz.
    rewrite (Bcompare_correct 53 1024 total F64.zero Hft eq_refl) in Hnz.
    rewrite B2R_zero, <- He in Hnz. rewrite Rcompare_Eq in Hnz by reflexivity. discriminate. }
  (* initial scale: total - 0.0 = total *)
  pose proof (Bminus_correct 53 1024 _ _ mode_NE total F64.zero Hft eq_refl) as HS.
  change (Bminus mode_NE total F64.zero) with (F64.sub total F64.zero) in HS.
  rewrite B2R_zero, Rminus_0_r, rnd_id in HS.
  rewrite Rlt_bool_true in HS by (apply abs_B2R_lt_emax).
  destruct HS as [RS [FS _]].
  destruct (uni_scale_ok fuel total (F64.sub total F64.zero) scale Hft Htp FS ltac:(lra) Hu) as [Fsc Rsc].
  unfold scale_ok. rewrite Fsc. cbn [andb].
  apply (fle_fin F64.zero scale eq_refl Fsc). rewrite B2R_zero. exact Rsc.
Qed.
