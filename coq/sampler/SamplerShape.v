(* One half of pssm_shape as a theorem: a symbol whose background count is zero gets a -inf
   cell in every row of the PSSM built by prepare_pssm, for every log2 oracle (the cell is
   decided by `background == 0.0`, before the logarithm is taken).  Binary32 on Flocq. *)
From Coq Require Import List ZArith NArith Bool Arith Lia Reals Lra.
From Coq Require Import SpecFloat.
From Flocq Require Import Core BinarySingleNaN.
From LMBase Require Import Res ListX IEEE.
From LMPwm Require Import PwmModel.
From LMSampler Require Import SamplerModel SamplerSpec SamplerF32.
Import ListNotations.

Local Open Scope R_scope.

Local Instance vexp32s : Valid_exp (SpecFloat.fexp 24 128) := fexp_correct 24 128 Hprec32.
Local Instance vrnd32s : Valid_rnd (round_mode mode_NE) := valid_rnd_round_mode mode_NE.

Notation rnd32 := (round radix2 (SpecFloat.fexp 24 128) (round_mode mode_NE)).

Lemma B2SF_inf32 (r : f32) s : B2SF r = S754_infinity s -> r = B754_infinity s.
Proof. destruct r; cbn; intros H; inversion H; reflexivity. Qed.

(* n as f32 for n >= 1: +inf (overflow) or a positive finite number *)
Lemma of_Z_pos32 (n : Z) : (1 <= n)%Z ->
  F32.of_Z n = B754_infinity false \/
  (@BinarySingleNaN.is_finite 24 128 (F32.of_Z n) = true /\ 0 < B2R (F32.of_Z n)).
Proof.
  intros Hn.
  pose proof (binary_normalize_correct 24 128 Hprec32 Hmax32 mode_NE n 0 false) as H. cbv zeta in H.
  change (binary_normalize 24 128 Hprec32 Hmax32 mode_NE n 0 false) with (F32.of_Z n) in H.
  assert (HF : F2R (Float radix2 n 0) = IZR n) by (unfold F2R; cbn [Fnum Fexp bpow]; lra).
  rewrite HF in H.
  assert (H1 : 1 <= IZR n) by (apply IZR_le; exact Hn).
  assert (Hr : 1 <= rnd32 (IZR n)).
  { replace 1 with (rnd32 1).
    - apply round_le; auto with typeclass_instances.
    - apply round_generic; auto with typeclass_instances. change 1 with (bpow radix2 0).
      apply generic_format_bpow. unfold fexp, emin. lia. }
  destruct (Rlt_bool (Rabs (rnd32 (IZR n))) (bpow radix2 128)).
  - destruct H as [HR [HFin _]]. right. split; [exact HFin|]. rewrite HR. lra.
  - left. apply B2SF_inf32. rewrite H.
    rewrite Rlt_bool_false by lra. reflexivity.
Qed.

Lemma of_Z_zero32 : F32.of_Z 0 = B754_zero false.
Proof. vm_compute. reflexivity. Qed.

(* 0 / y is a zero for y = +inf or y finite positive *)
Lemma div_zero32 (y : f32) :
  y = B754_infinity false \/ (@BinarySingleNaN.is_finite 24 128 y = true /\ 0 < B2R y) ->
  F32.eq (F32.div (B754_zero false) y) F32.zero = true.
Proof.
  intros [->|[Hf Hp]]; [reflexivity|].
  destruct y as [s|s| |s m e B]; try discriminate; cbn [B2R] in Hp; try lra.
  destruct s; reflexivity.
Qed.

Lemma map2_length'' {A B C} (f : A -> B -> C) l1 l2 :
  length (map2 f l1 l2) = Nat.min (length l1) (length l2).
Proof. revert l2; induction l1 as [|a r IH]; intros [|b r2]; simpl; auto. Qed.

Lemma nth_map2'' {A B C} (f : A -> B -> C) l1 l2 j d d1 d2 :
  (j < length l1)%nat -> (j < length l2)%nat ->
  nth j (map2 f l1 l2) d = f (nth j l1 d1) (nth j l2 d2).
Proof.
  revert l2 j; induction l1 as [|a r IH]; intros [|b r2] [|j] H1 H2; simpl in *; try lia; auto.
  apply IH; lia.
Qed.

Lemma fold_add_pos : forall (l : list N) acc, (0 < acc)%N -> (0 < fold_left N.add l acc)%N.
Proof. induction l as [|a r IH]; intros acc H; simpl; auto. apply IH. lia. Qed.

(* the background frequency of a symbol with a zero count compares equal to 0.0 *)
Lemma bg_zero_freq (bgc : list N) (b : list F32.t) (k : nat) :
  bg_from_counts F32ops bgc = Ok b -> (k < length bgc)%nat -> nth k bgc 0%N = 0%N ->
  F32.eq (nth k b F32.zero) F32.zero = true.
Proof.
  unfold bg_from_counts. destruct (fold_left N.add bgc 0 =? 0)%N eqn:Et; [discriminate|].
  intros H Hk Hz. inversion H; subst b.
  rewrite (nth_map_lt _ _ k F32.zero 0%N) by exact Hk. rewrite Hz.
  cbn [n_div n_of_N F32ops]. change (Z.of_N 0) with 0%Z. rewrite of_Z_zero32.
  apply div_zero32. apply of_Z_pos32.
  apply N.eqb_neq in Et. lia.
Qed.

(* every row of the PSSM has -inf at a symbol whose background count is zero *)
Theorem bg_zero_cell_ninf (K : nat) (flog2 : F32.t -> F32.t) (motif : matrix) (bgc : list N)
        (b : list F32.t) (m : fmatrix) (j k : nat) :
  pssm_of K flog2 motif bgc = Ok (b, m) ->
  (k < length bgc)%nat -> nth k bgc 0%N = 0%N ->
  (j < length motif)%nat -> (k < length (nth j motif []))%nat -> (k < K)%nat ->
  nth k (nth j m []) F32.zero = F32.ninf.
Proof.
  unfold pssm_of. destruct (bg_from_counts F32ops bgc) as [b'| | |] eqn:Eb; try discriminate.
  intros H Hk Hz Hj Hkr HkK. inversion H; subst b' m. clear H.
  pose proof (bg_zero_freq bgc b k Eb Hk Hz) as Hfz.
  assert (Hlb : length b = length bgc).
  { unfold bg_from_counts in Eb. destruct (fold_left N.add bgc 0 =? 0)%N; [discriminate|].
    inversion Eb. apply map_length. }
  unfold into_scoring, to_freq.
  rewrite map_map.
  rewrite (nth_map_lt _ _ j [] []) by exact Hj.
  set (row := nth j motif []) in *.
  assert (Hlf : (k < length (to_freq_row F32ops (pseudo_scalar F32ops K f32_pseudo) row))%nat).
  { unfold to_freq_row. rewrite map_length, map2_length''. unfold pseudo_scalar. rewrite map_length, seq_length.
    apply Nat.min_glb_lt; assumption. }
  rewrite (nth_map2'' _ _ _ k F32.zero F32.zero F32.zero Hlf) by (rewrite Hlb; exact Hk).
  unfold into_scoring_cell. cbn [n_eqb n_zero n_ninf F32ops]. rewrite Hfz. reflexivity.
Qed.
