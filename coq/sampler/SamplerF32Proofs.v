(* Lemmas about the float-driven part of the sampler model (SamplerF32.v):
     - the index drawn by WeightedIndex is one of the len - W + 1 scored positions (structural),
     - it carries a strictly positive weight (binary64 reasoning on Flocq),
     - next_g (next() with the update and the Zoops decision computed from the state, the
       libm oracles and the generator's word) is an instance of next: it preserves the
       invariant, and never makes the "impossible" choice Err 4,
     - the Zoops decision. *)
From Coq Require Import List Arith Bool NArith ZArith Lia.
From LMBase Require Import Res ListX IEEE.
From LMPwm Require Import PwmModel.
From LMSampler Require Import SamplerModel SamplerLemmas SamplerOps SamplerSpec SamplerProofs SamplerRun SamplerF32.
Import ListNotations.

(* ---------- WeightedIndex: shape ---------- *)

(* the running totals: scan t [w1; w2; ..] = [t; t+w1; t+w1+w2; ..] *)
Fixpoint scan (t : F64.t) (ws : list F64.t) : list F64.t :=
  match ws with
  | [] => [t]
  | w :: r => t :: scan (F64.add t w) r
  end.

Lemma scan_length t ws : length (scan t ws) = S (length ws).
Proof. revert t; induction ws as [|w r IH]; intros t; simpl; auto. Qed.

Lemma wi_loop_spec : forall ws t acc cum tot,
  wi_loop t ws acc = Some (cum, tot) ->
  Forall (fun w => F64.ge w F64.zero = true) ws /\ cum ++ [tot] = rev acc ++ scan t ws.
Proof.
  induction ws as [|w r IH]; intros t acc cum tot H; simpl in H.
  - inversion H; subst. split; [constructor|reflexivity].
  - destruct (F64.ge w F64.zero) eqn:Ew; [|discriminate].
    destruct (IH _ _ _ _ H) as [Hf Hc]. split; [constructor; auto|].
    rewrite Hc. simpl. rewrite <- app_assoc. reflexivity.
Qed.

Lemma wi_new_spec ws cum total scale :
  wi_new ws = WOk cum total scale ->
  exists w0 r, ws = w0 :: r /\ F64.ge w0 F64.zero = true /\
    Forall (fun w => F64.ge w F64.zero = true) r /\
    cum ++ [total] = scan w0 r /\
    F64.eq total F64.zero = false /\ F64.is_finite total = true /\
    exists fuel, uni_scale fuel total (F64.sub total F64.zero) = Some scale.
Proof.
  unfold wi_new. destruct ws as [|w0 r]; [discriminate|].
  destruct (F64.ge w0 F64.zero) eqn:E0; cbn [negb]; [|discriminate].
  destruct (wi_loop w0 r []) as [[cum' tot']|] eqn:El; [|discriminate].
  destruct (F64.eq tot' F64.zero) eqn:Ez; [discriminate|].
  destruct (F64.is_finite tot') eqn:Ef; cbn [negb]; [|discriminate].
  destruct (uni_scale 8 tot' (F64.sub tot' F64.zero)) as [sc|] eqn:Eu; [|discriminate].
  intros H. inversion H; subst. exists w0, r.
  destruct (wi_loop_spec _ _ _ _ _ El) as [Hf Hc]. simpl in Hc.
  repeat split; auto. exists 8. exact Eu.
Qed.

Lemma wi_new_length ws cum total scale :
  wi_new ws = WOk cum total scale -> S (length cum) = length ws.
Proof.
  intros H. destruct (wi_new_spec _ _ _ _ H) as (w0 & r & -> & _ & _ & Hc & _).
  apply (f_equal (@length _)) in Hc. rewrite app_length, scan_length in Hc. cbn [length] in *. lia.
Qed.

Lemma filter_length_le' {A} (f : A -> bool) l : length (filter f l) <= length l.
Proof. induction l as [|a r IH]; simpl; [lia|]. destruct (f a); simpl; lia. Qed.

Lemma wi_sample_le cum x : wi_sample cum x <= length cum.
Proof. apply filter_length_le'. Qed.

Lemma score_vec_length W m s : length (score_vec W m s) = length s + 1 - W.
Proof. unfold score_vec. rewrite map_length, seq_length. reflexivity. Qed.

Lemma weight_vec_length fexp2 sc : length (weight_vec fexp2 sc) = length sc.
Proof. unfold weight_vec. apply map_length. Qed.

(* the drawn start is one of the len - W + 1 scored positions, whatever the word *)
Lemma draw_range fexp2 W m s word p :
  draw fexp2 W m s word = Ok (UNew p) -> p < length s + 1 - W.
Proof.
  unfold draw.
  destruct (wi_new (weight_vec fexp2 (score_vec W m s))) as [| | |cum total scale] eqn:Ew; try discriminate.
  destruct word as [w|]; [|discriminate]. intros H. inversion H; subst.
  pose proof (wi_new_length _ _ _ _ Ew) as Hl. rewrite weight_vec_length, score_vec_length in Hl.
  pose proof (wi_sample_le cum (uni_sample scale w)). lia.
Qed.

Lemma draw_outcomes fexp2 W m s word :
  match draw fexp2 W m s word with
  | Ok (UNew p) => p < length s + 1 - W
  | Ok _ => True
  | Err e => e = 5
  | OutOfFuel => True
  | Panic _ => False
  end.
Proof.
  pose proof (draw_range fexp2 W m s word) as Hr. unfold draw in *.
  destruct (wi_new (weight_vec fexp2 (score_vec W m s))); auto.
  destruct word; auto.
Qed.

(* ---------- next_g ---------- *)

Section NextG.
  Variable flog2 : F32.t -> F32.t.
  Variable fpow2 : F32.t -> F32.t.
  Variable fexp2 : F64.t -> F64.t.

  Local Notation choice_of := (choice_of flog2 fpow2 fexp2).
  Local Notation next_g := (next_g flog2 fpow2 fexp2).
  Local Notation next_f := (next_f flog2 fpow2 fexp2).
  Local Notation run_g := (run_g flog2 fpow2 fexp2).

  (* the computed choice: hold-out as given, update = the draw from the PSSM of the alignment
     without z, never a start whose window leaves the sequence *)
  Lemma choice_of_spec c st z word ch :
    choice_of c st z word = Ok ch ->
    ch_z ch = z /\
    exists st1 p1,
      exclude_sequence c st z = Ok st1 /\
      pssm_of (cK c) flog2 (st_motif st1) (st_bg st1) = Ok p1 /\
      draw fexp2 (cW c) (snd p1) (nth z (cData c) []) word = Ok (ch_upd ch) /\
      (forall p, ch_upd ch = UNew p -> p < length (nth z (cData c) []) + 1 - cW c).
  Proof.
    unfold SamplerF32.choice_of.
    destruct (exclude_sequence c st z) as [st1| | |] eqn:E1; cbn [rbind]; try discriminate.
    destruct (pssm_of (cK c) flog2 (st_motif st1) (st_bg st1)) as [p1| | |] eqn:Ep; cbn [rbind]; try discriminate.
    destruct (draw fexp2 (cW c) (snd p1) (nth z (cData c) []) word) as [u| | |] eqn:Ed; cbn [rbind]; try discriminate.
    destruct (update_holdout c st1 z u) as [st2| | |]; cbn [rbind]; try discriminate.
    destruct (include_sequence c st2 z) as [st3| | |]; cbn [rbind]; try discriminate.
    intros H.
    assert (Hz : ch_z ch = z /\ ch_upd ch = u).
    { destruct (match cMode c with Zoops => negb (nth z (st_active st) false) | Oops => false end);
        [destruct (pssm_of (cK c) flog2 (st_motif st3) (st_bg st3))|]; inversion H; subst; auto. }
    destruct Hz as [Hz Hu]. split; [exact Hz|]. exists st1, p1. rewrite Hu. repeat split; auto.
    intros p ->. eapply draw_range; eauto.
  Qed.

  Lemma next_f_unfold c st z word :
    next_f c st z word =
    if st_conv st then Ok (st, None) else (ch <- choice_of c st z word ;; next c st ch).
  Proof. reflexivity. Qed.

  (* next_f / next_g are instances of next: every fact proved for all choices applies *)
  Lemma next_f_is_next c st z word r :
    next_f c st z word = Ok r ->
    exists ch, next c st ch = Ok r /\ ch_z ch = z /\
               (st_conv st = false -> choice_of c st z word = Ok ch).
  Proof.
    unfold SamplerF32.next_f. destruct (st_conv st) eqn:Ec.
    - intros H. exists (mkChoice z UKeep true). unfold next. rewrite Ec. repeat split; auto. discriminate.
    - destruct (choice_of c st z word) as [ch| | |] eqn:Ech; cbn [rbind]; try discriminate.
      intros H. exists ch. destruct (choice_of_spec _ _ _ _ _ Ech) as [Hz _]. auto.
  Qed.

  Lemma next_g_is_next c st z word r :
    next_g c st z word = Ok r ->
    exists ch, next c st ch = Ok r /\ ch_z ch = z /\
               (st_conv st = false -> select_holdout c st z = Ok z /\ choice_of c st z word = Ok ch).
  Proof.
    unfold SamplerF32.next_g. destruct (st_conv st) eqn:Ec.
    - intros H. exists (mkChoice z UKeep true). unfold next. rewrite Ec. repeat split; auto; discriminate.
    - destruct (select_holdout c st z) as [z'| | |] eqn:Es; cbn [rbind]; try discriminate.
      assert (z' = z).
      { unfold select_holdout in Es. cbv zeta in Es.
        destruct (cMode c); [|destruct (st_step st <? cInertia c)%N; [destruct (cSeed c)|]];
          repeat match type of Es with
                 | context [if ?b then _ else _] => destruct b
                 end; inversion Es; auto. }
      subst z'.
      destruct (choice_of c st z word) as [ch| | |] eqn:Ech; cbn [rbind]; try discriminate.
      intros H. exists ch. destruct (choice_of_spec _ _ _ _ _ Ech) as [Hz _]. auto.
  Qed.

  Theorem next_g_inv c st z word st' oit :
    WF c -> Inv c st -> next_g c st z word = Ok (st', oit) -> Inv c st' /\ next_post c st st' oit.
  Proof.
    intros Hwf Hinv H. destruct (next_g_is_next _ _ _ _ _ H) as (ch & Hn & _).
    eapply next_inv; eauto.
  Qed.

  Theorem next_f_inv c st z word st' oit :
    WF c -> Inv c st -> next_f c st z word = Ok (st', oit) -> Inv c st' /\ next_post c st st' oit.
  Proof.
    intros Hwf Hinv H. destruct (next_f_is_next _ _ _ _ _ H) as (ch & Hn & _).
    eapply next_inv; eauto.
  Qed.

  (* outcomes of the float-driven step: as [allowed], but never Err 4 (a drawn start is always
     one of the scored positions); Err 5 = a draw was needed and no word given; OutOfFuel =
     the scale adjustment loop of Uniform::new did not settle within the model's fuel *)
  Definition allowed_g {A} (r : res A) : Prop :=
    match r with
    | Ok _ => True
    | Panic s => 5 <= s <= 9
    | Err e => e = 3 \/ e = 5
    | OutOfFuel => True
    end.

  Lemma next_no_err4 c st ch :
    WF c -> seed_ok c -> Inv c st ->
    (forall p, ch_upd ch = UNew p -> p + cW c <= length (nth (ch_z ch) (cData c) [])) ->
    next c st ch <> Err 4.
  Proof.
    intros Hwf Hseed [Hi Hlast Hoops] Hp. unfold next.
    destruct (st_conv st); [discriminate|].
    pose proof (select_holdout_safe c st (ch_z ch) Hseed Hi) as Hsel.
    destruct (select_holdout c st (ch_z ch)) as [z|e|s|]; cbn [rbind]; try discriminate.
    2:{ subst e. discriminate. }
    destruct Hsel as [-> Hz].
    rewrite bv_test_ok by (rewrite (ci_act_len c st Hi); auto). cbn [rbind].
    unfold resample.
    destruct (exclude_ok c st (ch_z ch) Hwf Hi Hz) as [st1 [E1 [Hi1 [Ha1 [Hs1 Hc1]]]]].
    rewrite E1. cbn [rbind]. unfold prepare_pssm.
    rewrite (bg_total_cases c st1 Hwf Hi1).
    destruct (bg_sum c (st_active st1) (st_starts st1) =? 0)%N; cbn [rbind]; [discriminate|].
    { assert (Hu : exists st2, update_holdout c st1 (ch_z ch) (ch_upd ch) = Ok st2 \/
                               update_holdout c st1 (ch_z ch) (ch_upd ch) = Panic 8).
      { unfold update_holdout. destruct (ch_upd ch) as [|p|] eqn:Eu.
        - exists st1; auto.
        - specialize (Hp p eq_refl). apply Nat.ltb_lt in Hz. rewrite Hz.
          apply Nat.leb_le in Hp. rewrite Hp. cbn [andb].
          rewrite (ci_starts_len c st1 Hi1). rewrite Hz. eexists; left; reflexivity.
        - exists st1; auto. }
      destruct Hu as [st2 [E2|E2]]; rewrite E2; cbn [rbind]; [|discriminate].
      assert (Hz1 : nth (ch_z ch) (st_active st1) false = false).
      { rewrite Ha1. apply nth_upd_same. rewrite (ci_act_len c st Hi). auto. }
      destruct (update_ok c st1 _ _ st2 Hi1 Hz1 E2) as [Hi2 [_ [Hctl2 _]]].
      destruct (include_ok c st2 _ Hwf Hi2 Hz) as [st3 [E3 [Hi3 [_ [_ Hctl3]]]]].
      rewrite E3. cbn [rbind fst snd].
      assert (H4 : match (match cMode c, nth (ch_z ch) (st_active st) false with
                          | Zoops, false => zoops_test c st3 (ch_z ch) (ch_accept ch)
                          | _, _ => Ok st3
                          end) with
                   | Ok _ => True | Panic s => s = 7 | _ => False end).
      { destruct (cMode c), (nth (ch_z ch) (st_active st) false); try exact I.
        apply zoops_test_safe; auto.
        destruct Hc1 as [Ha [Hb _]]. destruct Hctl2 as [Hc [Hd _]]. destruct Hctl3 as [He [Hf _]].
        rewrite He, Hf, Hc, Hd, Ha, Hb. exact Hlast. }
      destruct (match cMode c, nth (ch_z ch) (st_active st) false with
                | Zoops, false => zoops_test c st3 (ch_z ch) (ch_accept ch)
                | _, _ => Ok st3
                end) as [st4|e|s|]; cbn [rbind]; try discriminate; try contradiction.
      destruct (st_step st4 + 1 <=? usize_max)%N; discriminate. }
  Qed.
  Lemma range_to_window p W len : W <= len -> p < len + 1 - W -> p + W <= len.
  Proof. lia. Qed.

  Lemma choice_of_safe c st z word :
    WF c -> CInv c st -> z < length (cData c) ->
    match choice_of c st z word with
    | Ok ch => ch_z ch = z /\ forall p, ch_upd ch = UNew p -> p + cW c <= length (nth z (cData c) [])
    | Panic s => s = 7 \/ s = 8
    | Err e => e = 5
    | OutOfFuel => True
    end.
  Proof.
    intros Hwf Hi Hz.
    assert (Hlen : cW c <= length (nth z (cData c) [])).
    { apply (Forall_nth_lt _ _ z [] (wf_len c Hwf) Hz). }
    pose proof (choice_of_spec c st z word) as Hspec.
    unfold SamplerF32.choice_of in *.
    destruct (exclude_ok c st z Hwf Hi Hz) as [st1 [E1 [Hi1 [Ha1 [Hs1 Hc1]]]]].
    rewrite E1 in *. cbn [rbind] in *.
    destruct (pssm_of (cK c) flog2 (st_motif st1) (st_bg st1)) as [p1|e|s|] eqn:Ep; cbn [rbind] in *.
    2,3,4: unfold pssm_of in Ep; destruct (bg_from_counts F32ops (st_bg st1)); inversion Ep; auto.
    pose proof (draw_outcomes fexp2 (cW c) (snd p1) (nth z (cData c) []) word) as Hd.
    destruct (draw fexp2 (cW c) (snd p1) (nth z (cData c) []) word) as [u|e|s|]; cbn [rbind] in *; auto; try contradiction.
    assert (Hu : (exists st2, update_holdout c st1 z u = Ok st2) \/ update_holdout c st1 z u = Panic 8).
    { unfold update_holdout. destruct u as [|p|].
      - left; eexists; reflexivity.
      - left. apply Nat.ltb_lt in Hz. rewrite Hz.
        pose proof (range_to_window p _ _ Hlen Hd) as Hp. apply Nat.leb_le in Hp. rewrite Hp. cbn [andb].
        rewrite (ci_starts_len c st1 Hi1). rewrite Hz. eexists; reflexivity.
      - right; reflexivity. }
    destruct Hu as [[st2 E2]|E2]; rewrite E2 in *; cbn [rbind] in *; auto.
    assert (Hz1 : nth z (st_active st1) false = false).
    { rewrite Ha1. apply nth_upd_same. rewrite (ci_act_len c st Hi). auto. }
    destruct (update_ok c st1 _ _ st2 Hi1 Hz1 E2) as [Hi2 _].
    destruct (include_ok c st2 _ Hwf Hi2 Hz) as [st3 [E3 _]].
    rewrite E3 in *. cbn [rbind] in *.
    match goal with
    | |- match ?e with _ => _ end => destruct e as [ch| | |] eqn:Ech
    end.
    - destruct (Hspec ch eq_refl) as [Hcz [st1' [p1' [_ [_ [_ Hr]]]]]]. split; auto.
      intros p Hpu. apply range_to_window; auto.
    - exfalso. destruct (match cMode c with Zoops => negb (nth z (st_active st) false) | Oops => false end);
        [destruct (pssm_of (cK c) flog2 (st_motif st3) (st_bg st3))|]; discriminate.
    - exfalso. destruct (match cMode c with Zoops => negb (nth z (st_active st) false) | Oops => false end);
        [destruct (pssm_of (cK c) flog2 (st_motif st3) (st_bg st3))|]; discriminate.
    - exact I.
  Qed.

  Theorem next_g_safe c st z word :
    WF c -> seed_ok c -> Inv c st -> allowed_g (next_g c st z word).
  Proof.
    intros Hwf Hseed Hinv. pose proof Hinv as [Hi Hlast Hoops]. unfold SamplerF32.next_g.
    destruct (st_conv st); [exact I|].
    pose proof (select_holdout_safe c st z Hseed Hi) as Hsel.
    destruct (select_holdout c st z) as [z'|e|s|]; cbn [rbind allowed_g]; try lia; try contradiction.
    destruct Hsel as [-> Hz].
    pose proof (choice_of_safe c st z word Hwf Hi Hz) as Hc.
    destruct (choice_of c st z word) as [ch|e|s|]; cbn [rbind allowed_g]; try lia; auto.
    destruct Hc as [Hcz Hp].
    pose proof (next_safe c st ch Hwf Hseed Hinv) as Hs.
    assert (Hn4 : next c st ch <> Err 4).
    { apply next_no_err4; auto. rewrite Hcz. exact Hp. }
    destruct (next c st ch) as [x|e|s|]; cbn [allowed allowed_g] in *; auto; try contradiction.
    destruct Hs as [->| ->]; [left; reflexivity|]. exfalso. apply Hn4. reflexivity.
  Qed.

  (* whole runs driven by (hold-out, word) pairs *)
  Theorem run_g_inv c zws :
    WF c -> seed_ok c -> forall st, Inv c st ->
    match run_g c st zws with
    | Ok t => length t = length zws /\ trace_ok c st t
    | r => allowed_g r
    end.
  Proof.
    intros Hwf Hseed. induction zws as [|[z w] r IH]; intros st Hinv.
    - simpl. auto.
    - cbn [SamplerF32.run_g fst snd]. pose proof (next_g_safe c st z w Hwf Hseed Hinv) as Hs.
      destruct (next_g c st z w) as [[st' oit]|e|s|] eqn:En; cbn [rbind]; auto.
      destruct (next_g_inv c st z w st' oit Hwf Hinv En) as [Hinv' Hpost].
      cbn [fst]. specialize (IH st' Hinv').
      destruct (run_g c st' r) as [t|e|s|]; cbn [rbind]; auto.
      destruct IH as [Hlen Ht]. split; [simpl; congruence|].
      cbn [trace_ok]. auto.
  Qed.

  (* a run of next_g is a run of next with the computed choices *)
  Lemma run_g_is_run c zws : forall st t,
    run_g c st zws = Ok t -> exists chs, run c st chs = Ok t /\ map ch_z chs = map fst zws.
  Proof.
    induction zws as [|[z w] r IH]; intros st t H.
    - simpl in H. inversion H; subst. exists []. split; reflexivity.
    - cbn [SamplerF32.run_g fst snd] in H.
      destruct (next_g c st z w) as [x| | |] eqn:En; cbn [rbind] in H; try discriminate.
      destruct (run_g c (fst x) r) as [t'| | |] eqn:Er; cbn [rbind] in H; try discriminate.
      inversion H; subst.
      destruct (next_g_is_next _ _ _ _ _ En) as (ch & Hn & Hz & _).
      destruct (IH _ _ Er) as (chs & Hr & Hm).
      exists (ch :: chs). split; [|simpl; congruence].
      cbn [run]. rewrite Hn. cbn [rbind]. rewrite Hr. reflexivity.
  Qed.
End NextG.

(* ---------- the Zoops decision ---------- *)

Section Zoops.
  Variable flog2 : F32.t -> F32.t.
  Variable fpow2 : F32.t -> F32.t.
  Variable fexp2 : F64.t -> F64.t.

  Local Notation choice_of := (choice_of flog2 fpow2 fexp2).
  Local Notation next_g := (next_g flog2 fpow2 fexp2).

  Definition ic_of (p : list F32.t * fmatrix) : F32.t := info_content fpow2 (fst p) (snd p).

  (* in a trial (Zoops, hold-out not active) the flag of the computed choice is the
     comparison of the two information contents: reject iff IC(new) < IC(old) *)
  Lemma choice_of_accept c st z word ch st1 p1 st2 st3 p3 :
    choice_of c st z word = Ok ch ->
    zoops_trial c st z = true ->
    exclude_sequence c st z = Ok st1 ->
    pssm_of (cK c) flog2 (st_motif st1) (st_bg st1) = Ok p1 ->
    update_holdout c st1 z (ch_upd ch) = Ok st2 ->
    include_sequence c st2 z = Ok st3 ->
    pssm_of (cK c) flog2 (st_motif st3) (st_bg st3) = Ok p3 ->
    ch_accept ch = negb (F32.lt (ic_of p3) (ic_of p1)).
  Proof.
    unfold SamplerF32.choice_of, zoops_trial. intros H Ht E1 Ep1.
    rewrite E1 in H. cbn [rbind] in H. rewrite Ep1 in H. cbn [rbind] in H.
    destruct (draw fexp2 (cW c) (snd p1) (nth z (cData c) []) word) as [u| | |]; cbn [rbind] in H; try discriminate.
    destruct (update_holdout c st1 z u) as [st2'| | |] eqn:E2; cbn [rbind] in H; try discriminate.
    destruct (include_sequence c st2' z) as [st3'| | |] eqn:E3; cbn [rbind] in H; try discriminate.
    rewrite Ht in H.
    destruct (pssm_of (cK c) flog2 (st_motif st3') (st_bg st3')) as [p3'| | |] eqn:Ep3;
      inversion H; subst ch; cbn [ch_upd ch_accept]; intros E2' E3' Ep3';
      rewrite E2 in E2'; inversion E2'; subst st2'; rewrite E3 in E3'; inversion E3'; subst st3';
      rewrite Ep3 in Ep3'; inversion Ep3'; subst; reflexivity.
  Qed.

  Lemma next_it_z c st ch st' it :
    seed_ok c -> CInv c st -> next c st ch = Ok (st', Some it) -> it_z it = ch_z ch.
  Proof.
    intros Hseed Hi. unfold next. destruct (st_conv st); [discriminate|].
    pose proof (select_holdout_safe c st (ch_z ch) Hseed Hi) as Hsel.
    destruct (select_holdout c st (ch_z ch)) as [z| | |]; cbn [rbind]; try discriminate.
    destruct Hsel as [-> _].
    destruct (bv_test (st_active st) (ch_z ch)); cbn [rbind]; try discriminate.
    destruct (resample c st (ch_z ch) (ch_upd ch)); cbn [rbind]; try discriminate.
    match goal with |- context [rbind ?e _] => destruct e end; cbn [rbind]; try discriminate.
    match goal with |- context [if ?b then _ else _] => destruct b end; [|discriminate].
    intros H. inversion H; subst. reflexivity.
  Qed.

  Theorem zoops_decision c st z word st' it :
    WF c -> seed_ok c -> Inv c st ->
    next_g c st z word = Ok (st', Some it) ->
    zoops_trial c st z = true ->
    exists ch,
      choice_of c st z word = Ok ch /\ it_z it = z /\
      nth z (st_active st') false = ch_accept ch /\
      st_last st' = (if ch_accept ch then st_step st else st_last st) /\
      st_conv st' = (cPatience c <? st_step st - st_last st')%N /\
      (forall st1 p1 st2 st3 p3,
         exclude_sequence c st z = Ok st1 ->
         pssm_of (cK c) flog2 (st_motif st1) (st_bg st1) = Ok p1 ->
         update_holdout c st1 z (ch_upd ch) = Ok st2 ->
         include_sequence c st2 z = Ok st3 ->
         pssm_of (cK c) flog2 (st_motif st3) (st_bg st3) = Ok p3 ->
         ch_accept ch = negb (F32.lt (ic_of p3) (ic_of p1))).
  Proof.
    intros Hwf Hseed Hinv Hn Ht.
    destruct (next_g_is_next _ _ _ _ _ _ _ _ Hn) as (ch & Hnext & Hz & Hc).
    assert (Hconv : st_conv st = false).
    { unfold next in Hnext. destruct (st_conv st); [discriminate|reflexivity]. }
    destruct (Hc Hconv) as [_ Hch].
    pose proof (next_it_z c st ch st' it Hseed (inv_core c st Hinv) Hnext) as Hitz.
    rewrite Hz in Hitz.
    destruct (next_bookkeeping c st ch st' it Hwf Hinv Hnext) as (_ & Ha & Hl & Hcv).
    rewrite Hitz, Ht in *. cbn [andb] in *.
    exists ch. repeat split; auto.
    intros st1 p1 st2 st3 p3. apply (choice_of_accept c st z word ch st1 p1 st2 st3 p3 Hch Ht).
  Qed.
End Zoops.

(* ---------- sampler_inv for the float-driven run ---------- *)

Section RunG.
  Variable freq : N -> N -> Z.
  Variable flog2 : F32.t -> F32.t.
  Variable fpow2 : F32.t -> F32.t.
  Variable fexp2 : F64.t -> F64.t.

  Theorem new_run_g_holds K W data wraps m initial inertia patience starts0 seeds0 zws :
    data_ok K W data ->
    Forall (fun wr => (W <= wr)%nat) wraps ->
    starts_in_range W data starts0 = true ->
    (m = Zoops -> seeds_ok (length data) initial seeds0) ->
    exists c st0,
      new_ K W data wraps m initial inertia patience starts0 seeds0 = Ok (c, st0) /\
      match run_g flog2 fpow2 fexp2 c st0 zws with
      | Ok t => length t = length zws /\
                Holds_C16 freq K W data (report_of freq st0) (obs_of_trace freq t)
      | r => allowed_g r
      end.
  Proof.
    intros Hd Hw Hr Hs.
    destruct (new_ok K W data wraps m initial inertia patience starts0 seeds0 Hd Hw Hr Hs)
      as [c [st0 [E [Hwf [Hinv [Hc [_ [Hstep _]]]]]]]].
    exists c, st0. split; [exact E|].
    assert (Hseed : seed_ok c).
    { unfold seed_ok. rewrite Hc. cbn [cSeed cData]. destruct m; [constructor|].
      destruct (Hs eq_refl) as [_ [Hlt _]]. exact Hlt. }
    pose proof (run_g_inv flog2 fpow2 fexp2 c zws Hwf Hseed st0 Hinv) as Hrun.
    destruct (run_g flog2 fpow2 fexp2 c st0 zws) as [t|e|s|]; auto.
    destruct Hrun as [Hlen Ht]. split; [exact Hlen|].
    pose proof (run_holds freq c st0 t Hinv Hstep Ht) as H. rewrite Hc in H. cbn [cK cW cData] in H. exact H.
  Qed.
End RunG.
