(* binary64 (Flocq) facts about rand's WeightedIndex as modelled in SamplerF32.v:
   the index returned for a chosen value 0 <= x < total carries a strictly positive weight,
   and the value UniformFloat::sample computes from a fraction in [0, 1 - 2^-52] and a
   scale accepted by Uniform::new is such an x. *)
From Coq Require Import List ZArith NArith Bool Arith Lia Reals Lra.
From Coq Require Import SpecFloat.
From Flocq Require Import Core BinarySingleNaN.
From LMBase Require Import Res ListX IEEE.
From LMSampler Require Import SamplerModel SamplerF32 SamplerF32Proofs.
Import ListNotations.

Local Open Scope R_scope.

Notation fexp64 := (SpecFloat.fexp 53 1024).
Notation rnd64 := (round radix2 fexp64 (round_mode mode_NE)).
Notation fin := (@BinarySingleNaN.is_finite 53 1024).
Notation big := (bpow radix2 1024).

Local Instance vexp64 : Valid_exp fexp64 := fexp_correct 53 1024 Hprec64.
Local Instance vrnd64 : Valid_rnd (round_mode mode_NE) := valid_rnd_round_mode mode_NE.

(* ---------- comparisons ---------- *)

Lemma fle_fin (x y : f64) : fin x = true -> fin y = true -> (F64.le x y = true <-> B2R x <= B2R y).
Proof.
  intros Hx Hy. unfold F64.le, IEEE.fle, fcmp.
  rewrite (Bcompare_correct 53 1024 x y Hx Hy).
  destruct (Rcompare_spec (B2R x) (B2R y)); split; intros H'; try reflexivity; try discriminate; lra.
Qed.

Lemma fle_fin_false (x y : f64) : fin x = true -> fin y = true -> (F64.le x y = false <-> B2R y < B2R x).
Proof.
  intros Hx Hy. pose proof (fle_fin x y Hx Hy) as H. destruct (F64.le x y).
  - split; [discriminate|]. intros Hl. assert (B2R x <= B2R y) by (apply H; reflexivity). lra.
  - split; [|reflexivity]. intros _. destruct (Rle_or_lt (B2R x) (B2R y)) as [Hl|Hl]; [|exact Hl].
    apply H in Hl. discriminate.
Qed.

Lemma flt_fin (x y : f64) : fin x = true -> fin y = true -> (F64.lt x y = true <-> B2R x < B2R y).
Proof.
  intros Hx Hy. unfold F64.lt, IEEE.flt, fcmp.
  rewrite (Bcompare_correct 53 1024 x y Hx Hy).
  destruct (Rcompare_spec (B2R x) (B2R y)); split; intros H'; try reflexivity; try discriminate; lra.
Qed.

Lemma B2R_zero : B2R (F64.zero) = 0.
Proof. reflexivity. Qed.

Lemma pos_is_fin (w : f64) : 0 < B2R w -> fin w = true.
Proof. destruct w; cbn [B2R]; intros H; try lra; reflexivity. Qed.

Lemma ge_zero_R (w : f64) : fin w = true -> F64.ge w F64.zero = true -> 0 <= B2R w.
Proof.
  intros Hf H. unfold F64.ge, IEEE.fge in H.
  change (fle 53 1024 (fzero 53 1024) w) with (F64.le F64.zero w) in H.
  apply (fle_fin F64.zero w eq_refl Hf) in H. rewrite B2R_zero in H. exact H.
Qed.

(* ---------- rounding ---------- *)

Lemma rnd_id (x : f64) : rnd64 (B2R x) = B2R x.
Proof. apply round_generic; [apply vrnd64|]. apply generic_format_B2R. Qed.

Lemma rnd_le x y : x <= y -> rnd64 x <= rnd64 y.
Proof. intros H. apply round_le; auto with typeclass_instances. Qed.

Lemma rnd_0 : rnd64 0 = 0.
Proof. apply round_0. auto with typeclass_instances. Qed.

Lemma B2SF_inf_not_fin (r : f64) s : B2SF r = S754_infinity s -> fin r = false.
Proof. destruct r; cbn; intros H; inversion H; reflexivity. Qed.

(* ---------- addition ---------- *)

Lemma add_fin_inv (a b : f64) : fin (F64.add a b) = true -> fin a = true /\ fin b = true.
Proof.
  destruct a as [sa|sa| |sa ma ea Ha]; destruct b as [sb|sb| |sb mb eb Hb];
    try (intros _; split; reflexivity);
    try (unfold F64.add, fadd; cbn [Bplus]; try destruct (Bool.eqb sa sb); cbn; discriminate).
Qed.

Lemma add_fin_R (a b : f64) :
  fin (F64.add a b) = true -> B2R (F64.add a b) = rnd64 (B2R a + B2R b).
Proof.
  intros Hfin. destruct (add_fin_inv a b Hfin) as [Ha Hb].
  pose proof (Bplus_correct 53 1024 _ _ mode_NE a b Ha Hb) as H.
  change (Bplus mode_NE a b) with (F64.add a b) in H.
  destruct (Rlt_bool (Rabs (rnd64 (B2R a + B2R b))) big).
  - destruct H as [HR _]. exact HR.
  - destruct H as [H _]. apply B2SF_inf_not_fin in H. rewrite H in Hfin. discriminate.
Qed.

Lemma add_nonneg_ge (t w : f64) : fin (F64.add t w) = true -> 0 <= B2R w -> B2R t <= B2R (F64.add t w).
Proof.
  intros Hf Hw. rewrite (add_fin_R t w Hf). rewrite <- (rnd_id t) at 1. apply rnd_le. lra.
Qed.

Lemma add_zero_eq (t w : f64) : fin (F64.add t w) = true -> B2R w = 0 -> B2R (F64.add t w) = B2R t.
Proof.
  intros Hf Hw. rewrite (add_fin_R t w Hf), Hw, Rplus_0_r. apply rnd_id.
Qed.

(* v + 0.0 *)
Lemma add_pzero (v : f64) : fin v = true ->
  fin (F64.add v F64.zero) = true /\ B2R (F64.add v F64.zero) = B2R v.
Proof.
  intros Hv.
  pose proof (Bplus_correct 53 1024 _ _ mode_NE v F64.zero Hv eq_refl) as H.
  change (Bplus mode_NE v F64.zero) with (F64.add v F64.zero) in H.
  rewrite B2R_zero, Rplus_0_r, rnd_id in H.
  rewrite Rlt_bool_true in H by (apply abs_B2R_lt_emax).
  destruct H as [HR [HF _]]. split; assumption.
Qed.

(* ---------- multiplication by a factor of magnitude <= 1 ---------- *)

Lemma mul_small (a b : f64) : fin a = true -> fin b = true -> Rabs (B2R a) <= 1 ->
  fin (F64.mul a b) = true /\ B2R (F64.mul a b) = rnd64 (B2R a * B2R b).
Proof.
  intros Ha Hb H1.
  pose proof (Bmult_correct 53 1024 _ _ mode_NE a b) as H.
  change (Bmult mode_NE a b) with (F64.mul a b) in H.
  rewrite Rlt_bool_true in H.
  - destruct H as [HR [HF _]]. rewrite Ha, Hb in HF. split; assumption.
  - eapply Rle_lt_trans; [|apply (abs_B2R_lt_emax 53 1024 b)].
    apply abs_round_le_generic; auto with typeclass_instances.
    + apply generic_format_abs. apply generic_format_B2R.
    + rewrite Rabs_mult. rewrite <- (Rmult_1_l (Rabs (B2R b))) at 2.
      apply Rmult_le_compat_r; [apply Rabs_pos|exact H1].
Qed.

(* ---------- the running totals ---------- *)

Lemma scan_split t w r cum tot :
  cum ++ [tot] = scan t (w :: r) ->
  exists cum', cum = t :: cum' /\ cum' ++ [tot] = scan (F64.add t w) r.
Proof.
  cbn [scan]. destruct cum as [|c cum']; cbn [app]; intros H.
  - exfalso. inversion H as [[H1 H2]]. pose proof (scan_length (F64.add t w) r) as Hl.
    rewrite <- H2 in Hl. simpl in Hl. lia.
  - inversion H; subst. exists cum'. split; auto.
Qed.

Lemma scan_nil t cum tot : cum ++ [tot] = scan t [] -> cum = [] /\ tot = t.
Proof.
  cbn [scan]. destruct cum as [|c [|c' cum']]; cbn [app]; intros H; inversion H; auto.
Qed.

Lemma scan_fin : forall r t cum tot,
  cum ++ [tot] = scan t r -> fin tot = true ->
  fin t = true /\ Forall (fun w => fin w = true) r.
Proof.
  induction r as [|w r IH]; intros t cum tot H Hf.
  - destruct (scan_nil _ _ _ H) as [_ ->]. split; [exact Hf|constructor].
  - destruct (scan_split _ _ _ _ _ H) as [cum' [-> H']].
    destruct (IH _ _ _ H' Hf) as [Ht' Hr].
    destruct (add_fin_inv t w Ht') as [Ht Hw]. split; [exact Ht|constructor; auto].
Qed.

Lemma wi_sample_cons t cum x :
  wi_sample (t :: cum) x = ((if F64.le t x then 1 else 0) + wi_sample cum x)%nat.
Proof. unfold wi_sample. cbn [filter]. destruct (F64.le t x); reflexivity. Qed.

(* the heart: for 0 <= x < total the index found by the search has a positive weight *)
Lemma pick_positive : forall r t cum tot x,
  cum ++ [tot] = scan t r -> fin tot = true -> fin x = true ->
  Forall (fun w => F64.ge w F64.zero = true) r ->
  B2R x < B2R tot ->
  (B2R t <= B2R x ->
     (1 <= wi_sample cum x)%nat /\ 0 < B2R (nth (wi_sample cum x - 1) r F64.zero)) /\
  (B2R x < B2R t -> wi_sample cum x = 0%nat).
Proof.
  induction r as [|w r IH]; intros t cum tot x H Hft Hfx Hge Hlt.
  - destruct (scan_nil _ _ _ H) as [-> ->]. split; [intros; lra|reflexivity].
  - destruct (scan_split _ _ _ _ _ H) as [cum' [-> H']].
    destruct (scan_fin _ _ _ _ H Hft) as [Hfin_t Hfin_r].
    destruct (scan_fin _ _ _ _ H' Hft) as [Hfin_t' _].
    inversion Hfin_r as [|? ? Hfin_w _]; subst.
    inversion Hge as [|? ? Hge_w Hge_r]; subst.
    pose proof (ge_zero_R w Hfin_w Hge_w) as Hw0.
    pose proof (add_nonneg_ge t w Hfin_t' Hw0) as Hmono.
    destruct (IH _ _ _ x H' Hft Hfx Hge_r Hlt) as [IH1 IH2].
    rewrite wi_sample_cons. split.
    + intros Htx.
      assert (El : F64.le t x = true) by (apply fle_fin; auto). rewrite El.
      destruct (Rle_or_lt (B2R (F64.add t w)) (B2R x)) as [Hc|Hc].
      * destruct (IH1 Hc) as [Hi Hp]. split; [lia|].
        replace (1 + wi_sample cum' x - 1)%nat with (S (wi_sample cum' x - 1)) by lia.
        exact Hp.
      * rewrite (IH2 Hc). cbn [Nat.add Nat.sub nth]. split; [lia|].
        destruct (Req_dec (B2R w) 0) as [Hz|Hz]; [|lra].
        rewrite (add_zero_eq t w Hfin_t' Hz) in Hc. lra.
    + intros Hxt.
      assert (El : F64.le t x = false) by (apply fle_fin_false; auto). rewrite El.
      apply IH2. lra.
Qed.

Theorem sampled_weight_positive ws cum total scale x :
  wi_new ws = WOk cum total scale ->
  fin x = true -> 0 <= B2R x < B2R total ->
  F64.lt F64.zero (nth (wi_sample cum x) ws F64.zero) = true.
Proof.
  intros Hw Hfx [Hx0 Hxt].
  destruct (wi_new_spec _ _ _ _ Hw) as (w0 & r & -> & Hg0 & Hgr & Hc & _ & Hft & _).
  destruct (pick_positive r w0 cum total x Hc Hft Hfx Hgr Hxt) as [P1 P2].
  assert (Hpos : 0 < B2R (nth (wi_sample cum x) (w0 :: r) F64.zero)).
  { destruct (Rle_or_lt (B2R w0) (B2R x)) as [Hc0|Hc0].
    - destruct (P1 Hc0) as [Hi Hp].
      replace (wi_sample cum x) with (S (wi_sample cum x - 1)) by lia. exact Hp.
    - rewrite (P2 Hc0). cbn [nth]. lra. }
  apply flt_fin; [reflexivity|apply pos_is_fin; exact Hpos|]. rewrite B2R_zero. exact Hpos.
Qed.

(* ---------- the chosen value ---------- *)

Lemma uni_scale_exit : forall fuel total s0 scale,
  uni_scale fuel total s0 = Some scale ->
  F64.ge (F64.add (F64.mul scale f64_max_rand) F64.zero) total = false.
Proof.
  induction fuel as [|f IH]; intros total s0 scale H; cbn [uni_scale] in H; [discriminate|].
  destruct (F64.ge (F64.add (F64.mul s0 f64_max_rand) F64.zero) total) eqn:E.
  - eapply IH; eauto.
  - inversion H; subst. exact E.
Qed.

Lemma max_rand_R : fin f64_max_rand = true /\ 0 <= B2R f64_max_rand <= 1.
Proof.
  assert (E : exists B, f64_max_rand = @B754_finite 53 1024 false 9007199254740990 (-53) B).
  { vm_compute. eexists. reflexivity. }
  destruct E as [B E]. rewrite E. split; [reflexivity|]. cbn [B2R]. unfold F2R. cbn [Fnum Fexp cond_Zopp bpow].
  change (Z.pow_pos radix2 53) with 9007199254740992%Z. split.
  - apply Rmult_le_pos; [apply IZR_le; lia|]. left. apply Rinv_0_lt_compat. apply IZR_lt. lia.
  - apply (Rmult_le_reg_r (IZR 9007199254740992)); [apply IZR_lt; lia|].
    rewrite Rmult_assoc, Rinv_l, Rmult_1_r, Rmult_1_l by (apply not_0_IZR; lia).
    apply IZR_le. lia.
Qed.

(* a scale accepted by Uniform::new and a fraction in [0, 1 - 2^-52] give 0 <= x < total *)
Lemma chosen_range (scale total f : f64) :
  fin total = true -> fin scale = true -> 0 <= B2R scale ->
  fin f = true -> 0 <= B2R f <= B2R f64_max_rand ->
  F64.ge (F64.add (F64.mul scale f64_max_rand) F64.zero) total = false ->
  fin (F64.add (F64.mul f scale) F64.zero) = true /\
  0 <= B2R (F64.add (F64.mul f scale) F64.zero) < B2R total.
Proof.
  intros Hft Hfs Hs0 Hff [Hf0 Hf1] Hexit.
  destruct max_rand_R as [Hfm [Hm0 Hm1]].
  destruct (mul_small f scale Hff Hfs) as [F1 R1].
  { rewrite Rabs_pos_eq by exact Hf0. lra. }
  destruct (add_pzero _ F1) as [F2 R2].
  assert (Hcomm : F64.mul scale f64_max_rand = F64.mul scale f64_max_rand) by reflexivity.
  pose proof (Bmult_correct 53 1024 _ _ mode_NE scale f64_max_rand) as HX.
  change (Bmult mode_NE scale f64_max_rand) with (F64.mul scale f64_max_rand) in HX.
  rewrite Rlt_bool_true in HX.
  2:{ eapply Rle_lt_trans; [|apply (abs_B2R_lt_emax 53 1024 scale)].
      apply abs_round_le_generic; auto with typeclass_instances.
      - apply generic_format_abs. apply generic_format_B2R.
      - rewrite Rabs_mult. rewrite <- (Rmult_1_r (Rabs (B2R scale))) at 2.
        apply Rmult_le_compat_l; [apply Rabs_pos|]. rewrite Rabs_pos_eq by exact Hm0. exact Hm1. }
  destruct HX as [RX [FX _]]. rewrite Hfs, Hfm in FX. cbn [andb] in FX.
  destruct (add_pzero _ FX) as [FX2 RX2].
  split; [exact F2|]. rewrite R2, R1. split.
  - rewrite <- rnd_0. apply rnd_le. apply Rmult_le_pos; assumption.
  - unfold F64.ge, IEEE.fge in Hexit.
    change (fle 53 1024 total (F64.add (F64.mul scale f64_max_rand) F64.zero))
      with (F64.le total (F64.add (F64.mul scale f64_max_rand) F64.zero)) in Hexit.
    apply (fle_fin_false _ _ Hft FX2) in Hexit. rewrite RX2, RX in Hexit.
    eapply Rle_lt_trans; [|exact Hexit]. apply rnd_le.
    rewrite (Rmult_comm (B2R scale)). apply Rmult_le_compat_r; lra.
Qed.

Lemma le_zero_fin (x : f64) : F64.is_finite x = true -> F64.le F64.zero x = true -> 0 <= B2R x.
Proof. intros Hf H. apply (fle_fin F64.zero x eq_refl Hf) in H. rewrite B2R_zero in H. exact H. Qed.

(* the start drawn by update_holdout carries a strictly positive weight: for every word whose
   52-bit fraction lands in [0, 1 - 2^-52] (word_ok, an executable test true of every u64)
   and every scale >= 0 left by Uniform::new (scale_ok, executable) *)
Theorem drawn_weight_positive ws cum total scale word :
  wi_new ws = WOk cum total scale ->
  scale_ok scale = true -> word_ok word = true ->
  F64.lt F64.zero (nth (wi_sample cum (uni_sample scale word)) ws F64.zero) = true.
Proof.
  intros Hw Hs Hwd.
  destruct (wi_new_spec _ _ _ _ Hw) as (w0 & r & _ & _ & _ & _ & _ & Hft & fuel & Hu).
  pose proof (uni_scale_exit _ _ _ _ Hu) as Hexit.
  unfold scale_ok in Hs. apply andb_true_iff in Hs. destruct Hs as [Hfs Hs0].
  pose proof (le_zero_fin scale Hfs Hs0) as Hs0R.
  unfold word_ok in Hwd. apply andb_true_iff in Hwd. destruct Hwd as [Hu0 Hu1].
  destruct max_rand_R as [Hfm _].
  assert (Hfu : fin (u01 word) = true).
  { destruct (u01 word) as [s|[|]| |s m e B]; try reflexivity; try discriminate Hu0; try discriminate Hu1. }
  pose proof (le_zero_fin _ Hfu Hu0) as Hu0R.
  apply (fle_fin _ _ Hfu Hfm) in Hu1.
  destruct (chosen_range scale total (u01 word) Hft Hfs Hs0R Hfu (conj Hu0R Hu1) Hexit) as [Fx Rx].
  change (uni_sample scale word) with (F64.add (F64.mul (u01 word) scale) F64.zero).
  eapply sampled_weight_positive; eauto.
Qed.
