(* The one-pass computation of the recomputed count matrix used by the extracted
   checkers equals the specification: motif_of = recompute_motif. *)
From Coq Require Import List Arith Bool NArith Lia.
From LMBase Require Import Res ListX.
From LMSampler Require Import SamplerModel SamplerLemmas SamplerOps SamplerSpec SamplerProofs.
Import ListNotations.
Local Open Scope N_scope.

Lemma nth_row_inc row k k' :
  (k' < length row)%nat -> nth k' (row_inc row k) 0 = nth k' row 0 + ind (Nat.eqb k k').
Proof.
  intros Hk'. unfold row_inc. rewrite nth_upd.
  destruct (Nat.eqb_spec k k') as [->|Hne]; simpl ind; [|lia].
  apply Nat.ltb_lt in Hk'. rewrite Hk'. reflexivity.
Qed.

Lemma row_inc_length row k : length (row_inc row k) = length row.
Proof. unfold row_inc. apply upd_length. Qed.

Lemma add_window_spec K syms : forall m W,
  shape m W K ->
  shape (add_window m syms) W K /\
  forall j k, (j < W)%nat -> (k < K)%nat ->
    mcell (add_window m syms) j k =
    mcell m j k + match nth_error syms j with Some a => ind (Nat.eqb a k) | None => 0 end.
Proof.
  induction syms as [|a syms IH]; intros m W Hsh.
  - destruct m; simpl; (split; [exact Hsh|]); intros j k _ _; destruct j; simpl; lia.
  - destruct m as [|row m].
    + simpl. split; [exact Hsh|]. intros j k Hj _. destruct Hsh as [Hl _]. simpl in Hl. lia.
    + destruct Hsh as [Hl Hr]. destruct W as [|W]; [simpl in Hl; lia|].
      assert (Hsh' : shape m W K).
      { split; [simpl in Hl; lia|]. intros j Hj. apply (Hr (S j)). lia. }
      destruct (IH m W Hsh') as [[Hl' Hr'] Hc]. cbn [add_window]. split.
      * split; [simpl; lia|]. intros [|j] Hj; cbn [nth].
        -- rewrite row_inc_length. apply (Hr O). lia.
        -- apply Hr'. lia.
      * intros [|j] k Hj Hk; unfold mcell; cbn [nth nth_error].
        -- apply nth_row_inc. specialize (Hr O ltac:(lia)). cbn [nth] in Hr. lia.
        -- apply (Hc j k); [lia|auto].
Qed.

Lemma nth_error_firstn {A} (l : list A) W j :
  nth_error (firstn W l) j = if (j <? W)%nat then nth_error l j else None.
Proof.
  revert l j; induction W as [|W IH]; intros l j.
  - simpl. destruct j; reflexivity.
  - destruct l as [|x l].
    { cbn [firstn]. destruct j; cbn [nth_error]; destruct (Nat.ltb _ _); reflexivity. }
    destruct j as [|j]; [reflexivity|]. simpl firstn. cbn [nth_error]. rewrite IH.
    change (S j <? S W)%nat with (j <? W)%nat. reflexivity.
Qed.

Lemma window_syms_cell W s st j k :
  (j < W)%nat ->
  match nth_error (firstn W (skipn st s)) j with Some a => ind (Nat.eqb a k) | None => 0 end
  = win_cell s st j k.
Proof.
  intros Hj. rewrite nth_error_firstn. apply Nat.ltb_lt in Hj. rewrite Hj.
  rewrite nth_error_skipn. reflexivity.
Qed.

Lemma fast_motif_go_spec K W data : forall act starts m,
  length act = length data -> length starts = length data ->
  shape m W K ->
  shape (fast_motif_go W data act starts m) W K /\
  forall j k, (j < W)%nat -> (k < K)%nat ->
    mcell (fast_motif_go W data act starts m) j k =
    mcell m j k + sumN (contrib_motif data act starts j k) (length data).
Proof.
  induction data as [|s data IH]; intros act starts m Hla Hls Hsh.
  - simpl. split; [exact Hsh|]. intros; lia.
  - destruct act as [|a act]; [discriminate|]. destruct starts as [|st starts]; [discriminate|].
    simpl in Hla, Hls. cbn [fast_motif_go].
    set (m1 := if a then add_window m (firstn W (skipn st s)) else m).
    assert (H1 : shape m1 W K /\
                 forall j k, (j < W)%nat -> (k < K)%nat ->
                   mcell m1 j k = mcell m j k + (if a then win_cell s st j k else 0)).
    { unfold m1. destruct a.
      - destruct (add_window_spec K (firstn W (skipn st s)) m W Hsh) as [Hs1 Hc1]. split; auto.
        intros j k Hj Hk. rewrite Hc1 by auto. rewrite window_syms_cell by auto. reflexivity.
      - split; auto. intros; lia. }
    destruct H1 as [Hs1 Hc1].
    destruct (IH act starts m1 ltac:(lia) ltac:(lia) Hs1) as [Hs2 Hc2]. split; [exact Hs2|].
    intros j k Hj Hk. rewrite Hc2, Hc1 by auto.
    cbn [length]. rewrite sumN_shift.
    unfold contrib_motif at 2. cbn [nth].
    assert (E : sumN (fun i => contrib_motif (s :: data) (a :: act) (st :: starts) j k (S i)) (length data)
                = sumN (contrib_motif data act starts j k) (length data))
      by (apply sumN_ext; intros i _; reflexivity).
    rewrite E. lia.
Qed.

Theorem motif_of_eq K W data act starts :
  motif_of K W data act starts = recompute_motif K W data act starts.
Proof.
  unfold motif_of.
  destruct (Nat.eqb_spec (length act) (length data)) as [Ha|]; [|reflexivity].
  destruct (Nat.eqb_spec (length starts) (length data)) as [Hs|]; [|reflexivity].
  cbn [andb]. rewrite recompute_motif_mtab.
  destruct (fast_motif_go_spec K W data act starts (zero_matrix W K) Ha Hs (zero_matrix_shape W K))
    as [Hsh Hc].
  apply mtab_ext_eq; [exact Hsh|].
  intros j k Hj Hk. rewrite Hc by auto. rewrite zero_matrix_cell. unfold spec_motif_cell. lia.
Qed.
