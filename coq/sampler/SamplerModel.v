(* Model of lightmotif/src/sampler.rs (Gibbs sampler), executable definitions only.

   The random number generator is replaced by an explicit CHOICE LIST:
     - the initial start positions           (rng.sample(Uniform::new(0, len-width+1)) per sequence),
     - the initial seed set                  (rand::seq::index::sample, Zoops only),
     - per call of next(): the hold-out z    (select_holdout),
                           the outcome of update_holdout (UKeep = WeightedIndex::new failed,
                             the start is kept; UNew s = the drawn start; UOverflow = the sum of
                             the weights is +inf and WeightedIndex::new panics),
                           the Zoops decision (information content comparison of two f32 PSSMs).
   A choice that no RNG could produce (z out of range, z not a seed during the
   inertia phase, a new start that is not one of the L-w+1 weighted positions)
   makes the model return [Err]; every place where the Rust code can panic is a
   [Panic site].  The floating point part (PSSM, scores, weights, information
   content) only influences the choices; it is modelled separately in SamplerF32.v
   (choice_of / next_g compute the update and the Zoops decision from the state, libm
   oracles and the generator's word; theorems in C16F.v), not in this file.

   Sequences are lists of symbol indices (the harness checks on every data set
   that StripedSequence::index and count_symbols agree with this view).
   Counters: motif cells are u32, background counts / step counters are usize;
   they are modelled in N with explicit overflow / underflow checks.

   Panic sites:
     1  _new: some sequence has wrap < width                      panic!("booh")
     2  _new: seq.len() - width underflows (len < width)
     3  BitVec index out of range
     4  BitVec count underflow
     5  select_holdout: seed.choose(..).unwrap() on an empty seed list
     6  select_holdout: Uniform::new(0, 0) on an empty data set
     7  background(): Background::from_counts(..).unwrap() with a zero total (0/0)
     8  update_holdout: WeightedIndex::new -> Uniform::new(0, +inf) "range overflow"
     9  step += 1 overflows usize
     10 matrix / vector / slice index out of range
     11 u32 motif cell += 1 overflows
     12 -= underflows (motif cell, background count, step - last_inclusion)
     13 sequence index outside the sequence (the striped Index would read padding or panic)
     14 usize += overflows (background counts, total, BitVec count, seeds*50) *)
From Coq Require Import List Arith Bool NArith ZArith Lia.
From LMBase Require Import Res ListX.
Import ListNotations.
Local Open Scope N_scope.

Definition u32_max : N := 4294967295.
Definition usize_max : N := 18446744073709551615.

Inductive smode := Oops | Zoops.

Definition seqt := list nat.            (* symbol indices *)
Definition matrix := list (list N).     (* width rows x K columns *)

(* ---------- checked machine arithmetic ---------- *)

Definition inc_u32 (v : N) : res N := if v + 1 <=? u32_max then Ok (v + 1) else Panic 11.
Definition dec1 (v : N) : res N := if 1 <=? v then Ok (v - 1) else Panic 12.
Definition add_usize (a b : N) : res N := if a + b <=? usize_max then Ok (a + b) else Panic 14.
Definition sub_usize (a b : N) : res N := if b <=? a then Ok (a - b) else Panic 12.

(* ---------- loops ---------- *)

Fixpoint loop {S : Type} (f : nat -> S -> res S) (ks : list nat) (s : S) : res S :=
  match ks with
  | [] => Ok s
  | k :: r => s' <- f k s ;; loop f r s'
  end.

(* ---------- symbol counts (seq.rs, SymbolCount for StripedSequence) ---------- *)

Definition ind (b : bool) : N := if b then 1 else 0.

Fixpoint count_sym (s : seqt) (k : nat) : N :=
  match s with
  | [] => 0
  | a :: r => ind (Nat.eqb a k) + count_sym r k
  end.

(* count_symbols(): one counter per symbol of the alphabet *)
Definition count_symbols (K : nat) (s : seqt) : list N := map (count_sym s) (seq 0 K).

(* ---------- specification: recomputation from the alignment ---------- *)

Fixpoint sumN (f : nat -> N) (n : nat) : N :=
  match n with
  | O => 0
  | S n' => sumN f n' + f n'
  end.

(* 1 when the symbol at offset j of the window starting at st is k *)
Definition win_cell (s : seqt) (st j k : nat) : N :=
  match nth_error s (st + j)%nat with
  | Some a => ind (Nat.eqb a k)
  | None => 0
  end.

(* occurrences of k in the window of width W starting at st *)
Definition win_count (W : nat) (s : seqt) (st k : nat) : N :=
  count_sym (firstn W (skipn st s)) k.

Section Spec.
  Variable K W : nat.
  Variable data : list seqt.
  Variable act : list bool.
  Variable starts : list nat.

  Definition contrib_motif (j k i : nat) : N :=
    if nth i act false then win_cell (nth i data []) (nth i starts O) j k else 0.

  Definition contrib_bg (k i : nat) : N :=
    if nth i act false
    then count_sym (nth i data []) k - win_count W (nth i data []) (nth i starts O) k
    else 0.

  (* motif cell (j,k): number of active sequences whose window has symbol k at offset j *)
  Definition spec_motif_cell (j k : nat) : N := sumN (contrib_motif j k) (length data).

  (* background count of k: occurrences outside the windows of the active sequences *)
  Definition spec_bg_cell (k : nat) : N := sumN (contrib_bg k) (length data).

  Definition recompute_motif : matrix :=
    map (fun j => map (fun k => spec_motif_cell j k) (seq 0 K)) (seq 0 W).

  Definition recompute_bg : list N := map spec_bg_cell (seq 0 K).

  (* every window lies inside its sequence *)
  Definition starts_in_range : bool :=
    (length starts =? length data)%nat &&
    forallb (fun i => (nth i starts O + W <=? length (nth i data []))%nat) (seq 0 (length data)).
End Spec.

Definition count_true (a : list bool) : N := sumN (fun i => ind (nth i a false)) (length a).

(* ---------- Background::from_counts (abc.rs) ---------- *)

Fixpoint sum_usize (l : list N) (acc : N) : res N :=
  match l with
  | [] => Ok acc
  | x :: r => a <- add_usize acc x ;; sum_usize r a
  end.

(* Background::from_counts: the total, Err(InvalidData) when it is zero; background()
   unwraps the result.  The frequencies themselves (counts[c] as f32 / total as f32)
   are rendered by the parameter [freq] of section Report below (binary32 division
   in SamplerFloat.v), so that this file and its theorems do not depend on Flocq. *)
Definition bg_total (bg : list N) : res N :=
  total <- sum_usize bg 0 ;;
  if total =? 0 then Panic 7 else Ok total.

(* ---------- configuration and state ---------- *)

Record cfg := mkCfg {
  cK : nat;                  (* alphabet size A::K *)
  cW : nat;                  (* width *)
  cData : list seqt;         (* data.sequences *)
  cCounts : list (list N);   (* data.counts, cached by SamplerData::new *)
  cMode : smode;
  cSeed : list nat;          (* seed *)
  cInertia : N;
  cPatience : N
}.

Record state := mkState {
  st_active : list bool;     (* active.data *)
  st_count : N;              (* active.count *)
  st_starts : list nat;
  st_motif : matrix;
  st_bg : list N;            (* background_counts *)
  st_step : N;
  st_last : N;               (* last_inclusion *)
  st_conv : bool             (* converged *)
}.

Definition set_active (st : state) (a : list bool) (c : N) : state :=
  mkState a c (st_starts st) (st_motif st) (st_bg st) (st_step st) (st_last st) (st_conv st).
Definition set_starts (st : state) (s : list nat) : state :=
  mkState (st_active st) (st_count st) s (st_motif st) (st_bg st) (st_step st) (st_last st) (st_conv st).
Definition set_counts (st : state) (m : matrix) (b : list N) : state :=
  mkState (st_active st) (st_count st) (st_starts st) m b (st_step st) (st_last st) (st_conv st).

(* SamplerData::new *)
Definition sampler_data_counts (K : nat) (data : list seqt) : list (list N) :=
  map (count_symbols K) data.

(* ---------- BitVec ---------- *)

Definition bv_test (a : list bool) (i : nat) : res bool :=
  if (i <? length a)%nat then Ok (nth i a false) else Panic 3.

Definition bv_set (a : list bool) (c : N) (i : nat) : res (list bool * N) :=
  if (i <? length a)%nat then
    if nth i a false then Ok (a, c)
    else c' <- add_usize c 1 ;; Ok (upd i true a, c')
  else Panic 3.

Definition bv_unset (a : list bool) (c : N) (i : nat) : res (list bool * N) :=
  if (i <? length a)%nat then
    if nth i a false then
      (if 1 <=? c then Ok (upd i false a, c - 1) else Panic 4)
    else Ok (a, c)
  else Panic 3.

(* ---------- indexed updates ---------- *)

(* seq[k] *)
Definition seq_get (s : seqt) (k : nat) : res nat :=
  if (k <? length s)%nat then Ok (nth k s O) else Panic 13.

(* m[MatrixCoordinates::new(j, c)] <- f (m[..]) *)
Definition cell_upd (f : N -> res N) (m : matrix) (j c : nat) : res matrix :=
  if (j <? length m)%nat then
    let row := nth j m [] in
    if (c <? length row)%nat then
      v <- f (nth c row 0) ;; Ok (upd j (upd c v row) m)
    else Panic 10
  else Panic 10.

(* v[k] <- f (v[k]) *)
Definition vec_upd (f : N -> res N) (v : list N) (k : nat) : res (list N) :=
  if (k <? length v)%nat then x <- f (nth k v 0) ;; Ok (upd k x v) else Panic 10.

Section Ops.
  Variable c : cfg.
  Let K := cK c.
  Let W := cW c.

  (* for (i, j) in (start..start+width).enumerate() { motif[(i, seq[j])] op= 1 } *)
  Definition motif_window (f : N -> res N) (s : seqt) (start : nat) (m : matrix) : res matrix :=
    loop (fun i m => sym <- seq_get s (start + i) ;; cell_upd f m i sym) (seq 0 W) m.

  (* for j in start..start+width { background_counts[seq[j]] op= 1 } *)
  Definition bg_window (f : N -> res N) (s : seqt) (start : nat) (bg : list N) : res (list N) :=
    loop (fun i bg => sym <- seq_get s (start + i) ;; vec_upd f bg sym) (seq 0 W) bg.

  (* for symbol in 0..K { background_counts[symbol] op= counts[symbol] } *)
  Definition bg_counts (f : N -> N -> res N) (cnts : list N) (bg : list N) : res (list N) :=
    loop (fun k bg =>
            if (k <? length cnts)%nat then vec_upd (fun v => f v (nth k cnts 0)) bg k else Panic 10)
         (seq 0 K) bg.

  (* the three indexings at the head of include_sequence / exclude_sequence *)
  Definition fetch (st : state) (z : nat) : res (seqt * nat * list N) :=
    if (z <? length (cData c))%nat then
      if (z <? length (st_starts st))%nat then
        if (z <? length (cCounts c))%nat then
          Ok (nth z (cData c) [], nth z (st_starts st) O, nth z (cCounts c) [])
        else Panic 10
      else Panic 10
    else Panic 10.

  Definition include_sequence (st : state) (z : nat) : res state :=
    f <- fetch st z ;;
    let '(s, start, cnts) := f in
    a <- bv_test (st_active st) z ;;
    if a then Ok st
    else
      m <- motif_window inc_u32 s start (st_motif st) ;;
      b1 <- bg_counts add_usize cnts (st_bg st) ;;
      b2 <- bg_window dec1 s start b1 ;;
      ac <- bv_set (st_active st) (st_count st) z ;;
      Ok (set_active (set_counts st m b2) (fst ac) (snd ac)).

  Definition exclude_sequence (st : state) (z : nat) : res state :=
    f <- fetch st z ;;
    let '(s, start, cnts) := f in
    a <- bv_test (st_active st) z ;;
    if a then
      m <- motif_window dec1 s start (st_motif st) ;;
      b1 <- bg_window (fun v => add_usize v 1) s start (st_bg st) ;;
      b2 <- bg_counts sub_usize cnts b1 ;;
      ac <- bv_unset (st_active st) (st_count st) z ;;
      Ok (set_active (set_counts st m b2) (fst ac) (snd ac))
    else Ok st.

  (* prepare_pssm: background() may panic; the counts are count_matrix() =
     (motif.clone(), active.count()); the PSSM itself (f32) is not modelled *)
  Definition prepare_pssm (st : state) : res (matrix * N) :=
    _ <- bg_total (st_bg st) ;; Ok (st_motif st, st_count st).

  Definition select_holdout (st : state) (z : nat) : res nat :=
    let n := length (st_starts st) in
    let uniform :=
      if (n =? 0)%nat then Panic 6
      else if (z <? n)%nat then Ok z else Err 3 in
    match cMode c with
    | Zoops =>
        if st_step st <? cInertia c then
          match cSeed c with
          | [] => Panic 5
          | _ => if existsb (Nat.eqb z) (cSeed c) then Ok z else Err 3
          end
        else uniform
    | Oops => uniform
    end.
End Ops.

(* outcome of update_holdout *)
Inductive updc := UKeep | UNew (s : nat) | UOverflow.

Record choice := mkChoice { ch_z : nat; ch_upd : updc; ch_accept : bool }.

Record iteration := mkIter { it_counts : matrix; it_n : N; it_z : nat; it_step : N }.

Definition update_holdout (c : cfg) (st : state) (z : nat) (u : updc) : res state :=
  match u with
  | UKeep => Ok st
  | UOverflow => Panic 8
  | UNew s =>
      (* scores.iter() yields the len-width+1 valid positions, the drawn index is one of them *)
      if (z <? length (cData c))%nat && (s + cW c <=? length (nth z (cData c) []))%nat then
        if (z <? length (st_starts st))%nat then Ok (set_starts st (upd z s (st_starts st)))
        else Panic 10
      else Err 4
  end.

(* Iterator::next, step 1 and 2: remove the hold-out from the counts, build the PSSM
   from the rest (cm = the counts without z), draw the new start, put the hold-out back *)
Definition resample (c : cfg) (st : state) (z : nat) (u : updc) : res ((matrix * N) * state) :=
  st1 <- exclude_sequence c st z ;;
  cm <- prepare_pssm st1 ;;
  st2 <- update_holdout c st1 z u ;;
  st3 <- include_sequence c st2 z ;;
  Ok (cm, st3).

(* Iterator::next, the Zoops test of a sequence that was not active: keep it unless the
   information content decreased ([accept] stands for the f32 comparison), patience *)
Definition zoops_test (c : cfg) (st3 : state) (z : nat) (accept : bool) : res state :=
  _ <- prepare_pssm st3 ;;
  st' <- (if accept
          then Ok (mkState (st_active st3) (st_count st3) (st_starts st3) (st_motif st3)
                           (st_bg st3) (st_step st3) (st_step st3) (st_conv st3))
          else exclude_sequence c st3 z) ;;
  d <- sub_usize (st_step st') (st_last st') ;;
  Ok (if cPatience c <? d
      then mkState (st_active st') (st_count st') (st_starts st') (st_motif st')
                   (st_bg st') (st_step st') (st_last st') true
      else st').

(* Iterator::next *)
Definition next (c : cfg) (st : state) (ch : choice) : res (state * option iteration) :=
  if st_conv st then Ok (st, None)
  else
    z <- select_holdout c st (ch_z ch) ;;
    active <- bv_test (st_active st) z ;;
    r <- resample c st z (ch_upd ch) ;;
    st4 <- (match cMode c, active with
            | Zoops, false => zoops_test c (snd r) z (ch_accept ch)
            | _, _ => Ok (snd r)
            end) ;;
    if st_step st4 + 1 <=? usize_max then
      Ok (mkState (st_active st4) (st_count st4) (st_starts st4) (st_motif st4) (st_bg st4)
                  (st_step st4 + 1) (st_last st4) (st_conv st4),
          Some (mkIter (fst (fst r)) (snd (fst r)) z (st_step st4)))
    else Panic 9.

(* the trace of a run: one entry per call of next() *)
Fixpoint run (c : cfg) (st : state) (chs : list choice) : res (list (state * option iteration)) :=
  match chs with
  | [] => Ok []
  | ch :: r =>
      x <- next c st ch ;;
      t <- run c (fst x) r ;;
      Ok (x :: t)
  end.

(* ---------- Sampler::_new ---------- *)

Fixpoint nodupb (l : list nat) : bool :=
  match l with
  | [] => true
  | a :: r => negb (existsb (Nat.eqb a) r) && nodupb r
  end.

Definition zero_matrix (W K : nat) : matrix := repeat (repeat 0 K) W.

(* set the seed bits one after the other (active.set(i); seed.push(i)) *)
Fixpoint set_seeds (a : list bool) (cnt : N) (seeds : list nat) : res (list bool * N) :=
  match seeds with
  | [] => Ok (a, cnt)
  | i :: r => ac <- bv_set a cnt i ;; set_seeds (fst ac) (snd ac) r
  end.

(* the two construction loops of _new: motif and background counts of the active sequences *)
Definition new_build (c : cfg) (act : list bool) (cnt : N) (starts0 : list nat) : res state :=
  (* build motif count with active sequences *)
  mo <- loop (fun i mo =>
                a <- bv_test act i ;;
                if a then motif_window c inc_u32 (nth i (cData c) []) (nth i starts0 O) mo else Ok mo)
             (seq 0 (length (cData c))) (zero_matrix (cW c) (cK c)) ;;
  (* build background counts with active sequences *)
  bg <- loop (fun i bg =>
                a <- bv_test act i ;;
                if a then
                  b1 <- bg_counts c add_usize (nth i (cCounts c) []) bg ;;
                  bg_window c dec1 (nth i (cData c) []) (nth i starts0 O) b1
                else Ok bg)
             (seq 0 (length (cData c))) (repeat 0 (cK c)) ;;
  Ok (mkState act cnt starts0 mo bg 0 0 false).

Definition new_ (K W : nat) (data : list seqt) (wraps : list nat) (m : smode)
                (initial inertia patience : N)
                (starts0 : list nat) (seeds0 : list nat) : res (cfg * state) :=
  let n := length data in
  if existsb (fun wr => (wr <? W)%nat) wraps then Panic 1
  else if existsb (fun s => (length s <? W)%nat) data then Panic 2
  else if negb (starts_in_range W data starts0) then Err 1
  else
    ac <- (match m with
           | Oops => Ok (repeat true n, N.of_nat n, [])
           | Zoops =>
               if nodupb seeds0 && forallb (fun i => (i <? n)%nat) seeds0
                  && (N.of_nat (length seeds0) =? N.min initial (N.of_nat n))
               then x <- set_seeds (repeat false n) 0 seeds0 ;; Ok (fst x, snd x, seeds0)
               else Err 2
           end) ;;
    let c := mkCfg K W data (sampler_data_counts K data) m (snd ac) inertia patience in
    st0 <- new_build c (fst (fst ac)) (snd (fst ac)) starts0 ;;
    Ok (c, st0).

(* ---------- SamplerBuilder ---------- *)

Record builder := mkBuilder {
  b_width : nat; b_mode : smode; b_seeds : N; b_inertia : option N; b_patience : option N }.

Definition builder_new : builder := mkBuilder 10 Oops 0 None None.

Inductive bop := BWidth (w : nat) | BMode (m : smode) | BSeeds (s : N) | BInertia (i : N) | BPatience (p : N).

Definition builder_step (b : builder) (o : bop) : res builder :=
  match o with
  | BWidth w => Ok (mkBuilder w (b_mode b) (b_seeds b) (b_inertia b) (b_patience b))
  | BMode m => Ok (mkBuilder (b_width b) m (b_seeds b) (b_inertia b) (b_patience b))
  | BSeeds s =>
      (* self.inertia.get_or_insert(seeds * 50): the product is evaluated first *)
      if s * 50 <=? usize_max then
        Ok (mkBuilder (b_width b) (b_mode b) s
                      (match b_inertia b with Some i => Some i | None => Some (s * 50) end)
                      (b_patience b))
      else Panic 14
  | BInertia i => Ok (mkBuilder (b_width b) (b_mode b) (b_seeds b) (Some i) (b_patience b))
  | BPatience p => Ok (mkBuilder (b_width b) (b_mode b) (b_seeds b) (b_inertia b) (Some p))
  end.

Fixpoint builder_run (b : builder) (ops : list bop) : res builder :=
  match ops with
  | [] => Ok b
  | o :: r => b' <- builder_step b o ;; builder_run b' r
  end.

(* SamplerBuilder::sample *)
Definition builder_sample (K : nat) (data : list seqt) (wraps : list nat) (b : builder)
                          (starts0 seeds0 : list nat) : res (cfg * state) :=
  new_ K (b_width b) data wraps (b_mode b) (b_seeds b)
       (match b_inertia b with Some i => i | None => 0 end)
       (match b_patience b with Some p => p | None => N.of_nat (length data) end)
       starts0 seeds0.

(* Sampler::new *)
Definition sampler_new (K W : nat) (data : list seqt) (wraps : list nat) (starts0 : list nat)
  : res (cfg * state) :=
  new_ K W data wraps Oops 0 0 0 starts0 [].

(* ---------- accessors ---------- *)

Fixpoint filter_idx (a : list bool) (i : nat) : list nat :=
  match a with
  | [] => []
  | b :: r => if b then i :: filter_idx r (S i) else filter_idx r (S i)
  end.

Definition active_sequences (st : state) : list nat := filter_idx (st_active st) 0.

(* self.starts[i] for the active i *)
Definition active_starts (st : state) : res (list nat) :=
  if forallb (fun i => (i <? length (st_starts st))%nat) (active_sequences st)
  then Ok (map (fun i => nth i (st_starts st) O) (active_sequences st))
  else Panic 10.

Definition count_matrix (st : state) : matrix * N := (st_motif st, st_count st).

(* ---------- the recomputed count matrix, computed in one pass ---------- *)

(* recompute_motif is the specification (cell by cell, a sum over the sequences); the
   checkers evaluate [motif_of], which adds the window of every active sequence to a zero
   matrix in one pass when the three lists have the same length and is the specification
   otherwise.  SamplerFast.v proves motif_of = recompute_motif. *)
Definition row_inc (row : list N) (k : nat) : list N := upd k (nth k row 0 + 1) row.

Fixpoint add_window (m : matrix) (syms : list nat) : matrix :=
  match m, syms with
  | row :: m', a :: syms' => row_inc row a :: add_window m' syms'
  | _, _ => m
  end.

Fixpoint fast_motif_go (W : nat) (data : list seqt) (act : list bool) (starts : list nat) (m : matrix)
  : matrix :=
  match data, act, starts with
  | s :: data', a :: act', st :: starts' =>
      fast_motif_go W data' act' starts' (if a then add_window m (firstn W (skipn st s)) else m)
  | _, _, _ => m
  end.

Definition motif_of (K W : nat) (data : list seqt) (act : list bool) (starts : list nat) : matrix :=
  if ((length act =? length data)%nat && (length starts =? length data)%nat)%bool
  then fast_motif_go W data act starts (zero_matrix W K)
  else recompute_motif K W data act starts.

(* ---------- the property as an executable check of a reported state ---------- *)

Fixpoint list_eqb {A} (e : A -> A -> bool) (a b : list A) : bool :=
  match a, b with
  | [], [] => true
  | x :: a', y :: b' => e x y && list_eqb e a' b'
  | _, _ => false
  end.

Definition matrix_eqb (a b : matrix) : bool := list_eqb (list_eqb N.eqb) a b.

(* what a state report carries: active bits, start of every sequence, the
   count matrix with its sequence count, the background frequencies (bit
   patterns; None when background() panicked) *)
Record report := mkReport {
  r_active : list bool;
  r_starts : list nat;
  r_n : N;
  r_cm : matrix;
  r_bg : option (list Z)
}.

Definition opt_bits_eqb (a b : option (list Z)) : bool :=
  match a, b with
  | Some x, Some y => list_eqb Z.eqb x y
  | None, None => true
  | _, _ => false
  end.

Section Report.
  (* bit pattern of the frequency [count as f32 / total as f32] *)
  Variable freq : N -> N -> Z.

  (* background().frequencies() *)
  Definition background_bits (bg : list N) : res (list Z) :=
    total <- bg_total bg ;; Ok (map (fun c => freq c total) bg).

  Definition expected_bg_bits (K W : nat) (data : list seqt) (act : list bool) (starts : list nat)
    : option (list Z) :=
    match background_bits (recompute_bg K W data act starts) with
    | Ok b => Some b
    | _ => None
    end.

  Definition check_motif (K W : nat) (data : list seqt) (r : report) : bool :=
    matrix_eqb (r_cm r) (motif_of K W data (r_active r) (r_starts r)).
  Definition check_bg (K W : nat) (data : list seqt) (r : report) : bool :=
    opt_bits_eqb (r_bg r) (expected_bg_bits K W data (r_active r) (r_starts r)).
  Definition check_range (W : nat) (data : list seqt) (r : report) : bool :=
    (length (r_active r) =? length data)%nat && starts_in_range W data (r_starts r).
  Definition check_n (r : report) : bool := r_n r =? count_true (r_active r).

  Definition check_state (K W : nat) (data : list seqt) (r : report) : bool :=
    check_range W data r && check_motif K W data r && check_bg K W data r && check_n r.

  (* report of a model state *)
  Definition report_of (st : state) : report :=
    mkReport (st_active st) (st_starts st) (st_count st) (st_motif st)
             (match background_bits (st_bg st) with Ok b => Some b | _ => None end).
End Report.

(* the counts reported with an iteration: alignment without z *)
Definition check_iteration (K W : nat) (data : list seqt) (act : list bool) (starts : list nat)
                           (it : iteration) : bool :=
  matrix_eqb (it_counts it) (motif_of K W data (upd (it_z it) false act) starts)
  && (it_n it =? count_true (upd (it_z it) false act))
  && (it_z it <? length data)%nat.

(* ---------- the property as an executable check of a whole reported trace ---------- *)

(* one observed call of next() that returned Some: the Iteration and the state reported after it *)
Record ostep := mkOStep { o_it : iteration; o_rep : report }.

Section CheckC16.
  Variable freq : N -> N -> Z.
  Variable K W : nat.
  Variable data : list seqt.

  (* the [idx]-th call: the reported state is the recomputation from its alignment, the
     iteration counts are those of the alignment without z (the alignments before and after
     the call differ only at z), the step number is the number of the call *)
  Definition check_step (idx : N) (prev : report) (o : ostep) : bool :=
    check_state freq K W data (o_rep o)
    && check_iteration K W data (r_active prev) (r_starts prev) (o_it o)
    && check_iteration K W data (r_active (o_rep o)) (r_starts (o_rep o)) (o_it o)
    && (it_step (o_it o) =? idx).

  Fixpoint check_steps (idx : N) (prev : report) (os : list ostep) : bool :=
    match os with
    | [] => true
    | o :: r => check_step idx prev o && check_steps (idx + 1) (o_rep o) r
    end.

  Definition check_C16 (init : report) (os : list ostep) : bool :=
    check_state freq K W data init && check_steps 0 init os.

  (* what the model reports for a run: one step per call of next() that returned Some *)
  Fixpoint obs_of_trace (t : list (state * option iteration)) : list ostep :=
    match t with
    | [] => []
    | (st, Some it) :: r => mkOStep it (report_of freq st) :: obs_of_trace r
    | (_, None) :: r => obs_of_trace r
    end.
End CheckC16.
