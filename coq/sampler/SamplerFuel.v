(* Fuel sufficiency of the scale-adjustment loop of rand's UniformFloat::new as modelled by
   SamplerF32.uni_scale: the loop decreases `scale` by one ulp while scale * max_rand + 0 >= total.
   For every finite s >= 0, round(s * (1 - 2^-52)) <= s; so the test can only succeed while
   s >= total, and it fails at the latest for the predecessor of total: two tests suffice.
   The missing piece so far was the order of bit patterns: for a finite x > 0 the float with the
   bit pattern to_bits x - 1 is strictly below x. *)
From Coq Require Import List ZArith NArith Bool Arith Lia Reals Lra.
From Coq Require Import SpecFloat.
From Flocq Require Import Core BinarySingleNaN.
From Flocq Require Binary Bits.
From LMBase Require Import Res ListX IEEE.
From LMPwm Require Import PwmModel.
From LMSampler Require Import SamplerModel SamplerLemmas SamplerOps SamplerSpec SamplerProofs SamplerRun
  SamplerF32 SamplerF32Proofs SamplerF64 SamplerScale SamplerOops SamplerStream SamplerStreamProofs.
Import ListNotations.

Local Instance vexp64'' : Valid_exp (SpecFloat.fexp 53 1024) := fexp_correct 53 1024 Hprec64.
Local Instance vrnd64'' : Valid_rnd (round_mode mode_NE) := valid_rnd_round_mode mode_NE.

Local Open Scope Z_scope.

(* ---------- the value of a bit pattern below the infinities ---------- *)

Definition valR (n : Z) : R :=
  if n / 2 ^ 52 =? 0 then (IZR (n mod 2 ^ 52) * bpow radix2 (-1074))%R
  else (IZR (n mod 2 ^ 52 + 2 ^ 52) * bpow radix2 (n / 2 ^ 52 - 1075))%R.

Lemma decode_val (n : Z) : 0 <= n < top ->
  (n / 2 ^ 52 = 0 /\ n mod 2 ^ 52 = 0 /\
   Bits.binary_float_of_bits_aux 52 11 n = Binary.F754_zero false) \/
  (n / 2 ^ 52 = 0 /\ exists p, n mod 2 ^ 52 = Zpos p /\
   Bits.binary_float_of_bits_aux 52 11 n = Binary.F754_finite false p (-1074)) \/
  (1 <= n / 2 ^ 52 /\ exists p, n mod 2 ^ 52 + 2 ^ 52 = Zpos p /\
   Bits.binary_float_of_bits_aux 52 11 n = Binary.F754_finite false p (n / 2 ^ 52 - 1075)).
Proof.
  intros [H0 H1]. unfold top in H1. unfold Bits.binary_float_of_bits_aux, Bits.split_bits.
  change (2 ^ 52 * 2 ^ 11) with 9223372036854775808.
  assert (Hs : (9223372036854775808 <=? n) = false) by (apply Z.leb_gt; lia).
  rewrite Hs.
  assert (Hq : 0 <= n / 2 ^ 52 < 2047).
  { split; [apply Z.div_pos; lia|]. apply Z.div_lt_upper_bound; lia. }
  rewrite (Z.mod_small (n / 2 ^ 52) (2 ^ 11)) by (change (2 ^ 11) with 2048; lia).
  assert (Hm : 0 <= n mod 2 ^ 52 < 2 ^ 52) by (apply Z.mod_pos_bound; lia).
  destruct (Zeq_bool (n / 2 ^ 52) 0) eqn:Eq.
  - apply Zeq_bool_eq in Eq.
    destruct (n mod 2 ^ 52) as [|p|p] eqn:E; [left; auto|right; left|lia].
    split; [exact Eq|]. exists p. split; [reflexivity|]. reflexivity.
  - apply Zeq_bool_neq in Eq.
    assert (Hne : Zeq_bool (n / 2 ^ 52) (2 ^ 11 - 1) = false).
    { apply Zeq_bool_false. change (2 ^ 11 - 1) with 2047. lia. }
    rewrite Hne. right. right. split; [lia|].
    destruct (n mod 2 ^ 52 + 2 ^ 52) as [|p|p] eqn:E; [lia| |lia].
    exists p. split; [reflexivity|]. f_equal.
    unfold SpecFloat.emin. change (3 - 2 ^ (11 - 1) - (52 + 1)) with (-1074). lia.
Qed.

Lemma of_bits_val (n : Z) : 0 <= n < top -> B2R (F64.of_bits n) = valR n.
Proof.
  intros Hn. unfold F64.of_bits, f64_of_bits, Bits.b64_of_bits, Bits.binary_float_of_bits.
  generalize (Bits.binary_float_of_bits_aux_correct 52 11 eq_refl eq_refl eq_refl n).
  unfold valR.
  destruct (decode_val n Hn) as [[Eq [Er E]]|[[Eq [p [Er E]]]|[Hq [p [Er E]]]]]; rewrite E.
  - intros v. rewrite Eq, Er. cbn. lra.
  - intros v. rewrite Eq, Er. cbn. unfold F2R. cbn [Fnum Fexp cond_Zopp]. reflexivity.
  - destruct (Z.eqb_spec (n / 2 ^ 52) 0) as [E0|_]; [lia|]. rewrite Er.
    generalize (n / 2 ^ 52 - 1075). intros e v. cbn. unfold F2R. cbn [Fnum Fexp cond_Zopp]. reflexivity.
Qed.

Lemma of_to_bits (x : f64) : F64.of_bits (F64.to_bits x) = x.
Proof.
  unfold F64.of_bits, F64.to_bits, f64_of_bits, f64_to_bits, Bits.b64_of_bits, Bits.bits_of_b64.
  rewrite Bits.binary_float_of_bits_of_binary_float. apply Binary.B2BSN_BSN2B.
Qed.

(* ---------- one step down in the bit pattern is one step down in value ---------- *)

Lemma bpow_S e : bpow radix2 (e + 1) = (2 * bpow radix2 e)%R.
Proof. rewrite bpow_plus_1. reflexivity. Qed.

Lemma valR_pred_lt (n : Z) : 1 <= n < top -> (valR (n - 1) < valR n)%R.
Proof.
  intros [H1 Ht]. unfold top in Ht. unfold valR.
  pose proof (Z.div_mod n (2 ^ 52) ltac:(lia)) as Hdm.
  pose proof (Z.mod_pos_bound n (2 ^ 52) ltac:(lia)) as Hmb.
  assert (Hq0 : 0 <= n / 2 ^ 52) by (apply Z.div_pos; lia).
  remember (n / 2 ^ 52) as q eqn:Hq. remember (n mod 2 ^ 52) as r eqn:Hr.
  destruct (Z.eq_dec r 0) as [Er|Er].
  - (* borrow *)
    assert (Hq1 : 1 <= q) by lia.
    assert (Ed : (n - 1) / 2 ^ 52 = q - 1).
    { symmetry. apply (Z.div_unique (n - 1) (2 ^ 52) (q - 1) (2 ^ 52 - 1)); lia. }
    assert (Em : (n - 1) mod 2 ^ 52 = 2 ^ 52 - 1).
    { symmetry. apply (Z.mod_unique (n - 1) (2 ^ 52) (q - 1) (2 ^ 52 - 1)); lia. }
    rewrite Ed, Em, Er.
    destruct (Z.eqb_spec q 0) as [E0|_]; [lia|].
    destruct (Z.eqb_spec (q - 1) 0) as [E1|E1].
    + replace (q - 1075) with (-1074) by lia.
      apply Rmult_lt_compat_r; [apply bpow_gt_0|]. apply IZR_lt. lia.
    + replace (q - 1075) with ((q - 1 - 1075) + 1) by lia.
      rewrite bpow_S. rewrite <- Rmult_assoc.
      apply Rmult_lt_compat_r; [apply bpow_gt_0|].
      change 2%R with (IZR 2). rewrite <- mult_IZR. apply IZR_lt.
      change (2 ^ 52) with 4503599627370496. lia.
  - (* same exponent field, mantissa field one less *)
    assert (Ed : (n - 1) / 2 ^ 52 = q).
    { symmetry. apply (Z.div_unique (n - 1) (2 ^ 52) q (r - 1)); lia. }
    assert (Em : (n - 1) mod 2 ^ 52 = r - 1).
    { symmetry. apply (Z.mod_unique (n - 1) (2 ^ 52) q (r - 1)); lia. }
    rewrite Ed, Em. destruct (q =? 0).
    + apply Rmult_lt_compat_r; [apply bpow_gt_0|]. apply IZR_lt. lia.
    + apply Rmult_lt_compat_r; [apply bpow_gt_0|]. apply IZR_lt. lia.
Qed.

Local Close Scope Z_scope.
Local Open Scope R_scope.

(* the decrement of a positive finite float is strictly smaller *)
Lemma decr_lt (x : f64) : F64.is_finite x = true -> 0 < B2R x ->
  B2R (F64.of_bits (F64.to_bits x - 1)) < B2R x.
Proof.
  intros Hf Hp. pose proof (to_bits_pos x Hf Hp) as Hn.
  rewrite of_bits_val by lia.
  rewrite <- (of_to_bits x) at 2. rewrite of_bits_val by lia.
  apply valR_pred_lt. exact Hn.
Qed.

(* ---------- the test of the loop ---------- *)

Lemma test_true_le (s total : f64) :
  F64.is_finite s = true -> F64.is_finite total = true -> 0 <= B2R s ->
  F64.ge (F64.add (F64.mul s f64_max_rand) F64.zero) total = true ->
  B2R total <= B2R s.
Proof.
  intros Hfs Hft Hs0 E. destruct max_rand_R as [Hfm [Hm0 Hm1]].
  change (@BinarySingleNaN.is_finite 53 1024 s = true) in Hfs.
  change (@BinarySingleNaN.is_finite 53 1024 total = true) in Hft.
  pose proof (Bmult_correct 53 1024 _ _ mode_NE s f64_max_rand) as HX.
  change (Bmult mode_NE s f64_max_rand) with (F64.mul s f64_max_rand) in HX.
  rewrite Rlt_bool_true in HX.
  2:{ eapply Rle_lt_trans; [|apply (abs_B2R_lt_emax 53 1024 s)].
      apply abs_round_le_generic; auto with typeclass_instances.
      - apply generic_format_abs. apply generic_format_B2R.
      - rewrite Rabs_mult. rewrite <- (Rmult_1_r (Rabs (B2R s))) at 2.
        apply Rmult_le_compat_l; [apply Rabs_pos|]. rewrite Rabs_pos_eq by exact Hm0. exact Hm1. }
  destruct HX as [RX [FX _]]. rewrite Hfs, Hfm in FX. cbn [andb] in FX.
  destruct (add_pzero _ FX) as [FX2 RX2].
  unfold F64.ge, IEEE.fge in E.
  change (fle 53 1024 total (F64.add (F64.mul s f64_max_rand) F64.zero))
    with (F64.le total (F64.add (F64.mul s f64_max_rand) F64.zero)) in E.
  apply (fle_fin _ _ Hft FX2) in E. rewrite RX2, RX in E.
  eapply Rle_trans; [exact E|]. rewrite <- (rnd_id s) at 2. apply rnd_le.
  rewrite <- (Rmult_1_r (B2R s)) at 2. apply Rmult_le_compat_l; [exact Hs0|exact Hm1].
Qed.

(* two tests suffice, whatever the fuel above *)
Lemma uni_scale_total (fuel : nat) (total s0 : f64) :
  F64.is_finite total = true -> 0 < B2R total ->
  F64.is_finite s0 = true -> B2R s0 = B2R total ->
  exists scale, uni_scale (S (S fuel)) total s0 = Some scale.
Proof.
  intros Hft Htp Hfs Hs. cbn [uni_scale].
  destruct (F64.ge (F64.add (F64.mul s0 f64_max_rand) F64.zero) total) eqn:E1; [|eauto].
  assert (Hp0 : 0 < B2R s0) by lra.
  destruct (decr_ok s0 Hfs Hp0) as [F1 R1].
  pose proof (decr_lt s0 Hfs Hp0) as L1.
  destruct (F64.ge (F64.add (F64.mul (F64.of_bits (F64.to_bits s0 - 1)) f64_max_rand) F64.zero) total) eqn:E2; [|eauto].
  exfalso. pose proof (test_true_le _ total F1 Hft R1 E2). lra.
Qed.

(* WeightedIndex::new never runs out of the model's fuel *)
Theorem wi_new_no_fuel (ws : list F64.t) : wi_new ws <> WFuel.
Proof.
  unfold wi_new. destruct ws as [|w0 r]; [discriminate|].
  destruct (F64.ge w0 F64.zero) eqn:E0; cbn [negb]; [|discriminate].
  destruct (wi_loop w0 r []) as [[cum tot]|] eqn:El; [|discriminate].
  destruct (F64.eq tot F64.zero) eqn:Ez; [discriminate|].
  destruct (F64.is_finite tot) eqn:Ef; cbn [negb]; [|discriminate].
  destruct (wi_loop_spec _ _ _ _ _ El) as [Hgr Hc]. cbn [rev app] in Hc.
  destruct (scan_fin _ _ _ _ Hc Ef) as [Hf0 _].
  pose proof (scan_ge _ _ _ _ Hc Ef Hgr) as Hge.
  pose proof (ge_zero_R w0 Hf0 E0) as H0.
  assert (Htp : 0 < B2R tot).
  { destruct (Rle_lt_or_eq_dec 0 (B2R tot) ltac:(lra)) as [Hl|He]; [exact Hl|]. exfalso.
    unfold F64.eq, IEEE.feq, fcmp in Ez.
    rewrite (Bcompare_correct 53 1024 tot F64.zero Ef eq_refl) in Ez.
    rewrite B2R_zero, <- He in Ez. rewrite Rcompare_Eq in Ez by reflexivity. discriminate. }
  pose proof (Bminus_correct 53 1024 _ _ mode_NE tot F64.zero Ef eq_refl) as HS.
  change (Bminus mode_NE tot F64.zero) with (F64.sub tot F64.zero) in HS.
  rewrite B2R_zero, Rminus_0_r, rnd_id in HS.
  rewrite Rlt_bool_true in HS by (apply abs_B2R_lt_emax).
  destruct HS as [RS [FS _]].
  destruct (uni_scale_total 6 tot (F64.sub tot F64.zero) Ef Htp FS RS) as [sc Hsc].
  rewrite Hsc. discriminate.
Qed.

(* ---------- consequences: no OutOfFuel anywhere ---------- *)

Local Close Scope R_scope.

Section NoFuel.
  Variable flog2 : F32.t -> F32.t.
  Variable fpow2 : F32.t -> F32.t.
  Variable fexp2 : F64.t -> F64.t.

  Lemma draw_no_fuel W m s w : draw fexp2 W m s w <> OutOfFuel.
  Proof.
    unfold draw. pose proof (wi_new_no_fuel (weight_vec fexp2 (score_vec W m s))) as H.
    destruct (wi_new (weight_vec fexp2 (score_vec W m s))); try discriminate; [contradiction|].
    destruct w; discriminate.
  Qed.

  Lemma choice_of_no_fuel c st z w :
    WF c -> CInv c st -> z < length (cData c) ->
    choice_of flog2 fpow2 fexp2 c st z w <> OutOfFuel.
  Proof.
    intros Hwf Hi Hz.
    destruct (exclude_ok c st z Hwf Hi Hz) as [st1 [E1 [Hi1 [Ha1 [Hs1 Hc1]]]]].
    unfold SamplerF32.choice_of. rewrite E1. cbn [rbind].
    destruct (pssm_of (cK c) flog2 (st_motif st1) (st_bg st1)) as [p1|e|s|] eqn:Ep; cbn [rbind]; try discriminate.
    { pose proof (draw_no_fuel (cW c) (snd p1) (nth z (cData c) []) w) as Hd.
      destruct (draw fexp2 (cW c) (snd p1) (nth z (cData c) []) w) as [u|e|s|]; cbn [rbind]; try discriminate; try contradiction.
      pose proof (update_holdout_safe c st1 z u Hi1 Hz) as Hu.
      destruct (update_holdout c st1 z u) as [st2|e|s|] eqn:E2; cbn [rbind]; try discriminate; try contradiction.
      assert (Hz1 : nth z (st_active st1) false = false).
      { rewrite Ha1. apply nth_upd_same. rewrite (ci_act_len c st Hi). auto. }
      destruct (update_ok c st1 _ _ st2 Hi1 Hz1 E2) as [Hi2 _].
      destruct (include_ok c st2 _ Hwf Hi2 Hz) as [st3 [E3 _]].
      rewrite E3. cbn [rbind].
      destruct (match cMode c with Zoops => negb (nth z (st_active st) false) | Oops => false end);
        [destruct (pssm_of (cK c) flog2 (st_motif st3) (st_bg st3))|]; discriminate. }
    unfold pssm_of in Ep. destruct (bg_from_counts F32ops (st_bg st1)); discriminate.
  Qed.

  Theorem next_g_no_fuel c st z w :
    WF c -> seed_ok c -> Inv c st -> next_g flog2 fpow2 fexp2 c st z w <> OutOfFuel.
  Proof.
    intros Hwf Hseed Hinv. pose proof Hinv as [Hi _ _]. unfold SamplerF32.next_g.
    destruct (st_conv st); [discriminate|].
    pose proof (select_holdout_safe c st z Hseed Hi) as Hsel.
    destruct (select_holdout c st z) as [z'|e|s|]; cbn [rbind]; try discriminate; try contradiction.
    destruct Hsel as [-> Hz].
    pose proof (choice_of_no_fuel c st z w Hwf Hi Hz) as Hc.
    destruct (choice_of flog2 fpow2 fexp2 c st z w) as [ch|e|s|]; cbn [rbind]; try discriminate; try contradiction.
    pose proof (next_safe c st ch Hwf Hseed Hinv) as Hs.
    destruct (next c st ch); try discriminate. contradiction.
  Qed.

  Theorem next_w_no_fuel c st ws :
    WF c -> seed_ok c -> Inv c st -> stream_ok ws -> next_w flog2 fpow2 fexp2 c st ws <> OutOfFuel.
  Proof.
    intros Hwf Hseed Hinv Hs. pose proof Hinv as [Hi _ _]. unfold SamplerStream.next_w.
    destruct (st_conv st); [discriminate|].
    pose proof (holdout_w_ok c st Hi Hseed ws Hs) as Hh.
    destruct (holdout_w c st ws) as [[z r1]|e|s|]; cbn [rbind fst snd]; try discriminate; try contradiction.
    destruct Hh as [_ [Hz _]].
    pose proof (choice_of_no_fuel c st z (head64 r1) Hwf Hi Hz) as Hc.
    destruct (choice_of flog2 fpow2 fexp2 c st z (head64 r1)) as [ch|e|s|]; cbn [rbind]; try discriminate; try contradiction.
    pose proof (next_safe c st ch Hwf Hseed Hinv) as Hsafe.
    destruct (next c st ch); cbn [rbind]; try discriminate. contradiction.
  Qed.

  Theorem run_w_no_fuel c k :
    WF c -> seed_ok c -> forall st ws, Inv c st -> stream_ok ws ->
    run_w flog2 fpow2 fexp2 c st k ws <> OutOfFuel.
  Proof.
    intros Hwf Hseed. induction k as [|k IH]; intros st ws Hinv Hs; [discriminate|].
    cbn [SamplerStream.run_w].
    pose proof (next_w_no_fuel c st ws Hwf Hseed Hinv Hs) as H1.
    pose proof (next_w_safe flog2 fpow2 fexp2 c st ws Hwf Hseed Hinv Hs) as H2.
    destruct (next_w flog2 fpow2 fexp2 c st ws) as [[x r1]|e|s|]; cbn [rbind fst snd]; try discriminate; try contradiction.
    destruct H2 as [Hinv' [_ Hr1]].
    specialize (IH (fst x) r1 Hinv' Hr1).
    destruct (run_w flog2 fpow2 fexp2 c (fst x) k r1) as [[t r]|e|s|]; cbn [rbind]; try discriminate. contradiction.
  Qed.

  Theorem sampler_w_no_fuel K W data wraps m initial inertia patience k ws :
    data_ok K W data -> Forall (fun wr => W <= wr) wraps -> stream_ok ws ->
    sampler_w flog2 fpow2 fexp2 K W data wraps m initial inertia patience k ws <> OutOfFuel.
  Proof.
    intros Hd Hw Hs. unfold SamplerStream.sampler_w.
    destruct (existsb (fun wr => wr <? W) wraps); [discriminate|].
    pose proof (starts_w_ok W data (proj1 (proj2 Hd)) ws Hs) as H1.
    destruct (starts_w W data ws) as [[sts r1]|e|s|]; cbn [rbind fst snd]; try discriminate; try contradiction.
    destruct H1 as [Hr Hs1].
    assert (H2 : match (match m with Oops => Ok ([], r1) | Zoops => seeds_w (length data) initial r1 end) with
                 | Ok (sd, r2) => stream_ok r2
                 | Err e => True
                 | _ => False
                 end).
    { destruct m; [exact Hs1|]. pose proof (seeds_w_ok (length data) initial r1 Hs1) as H.
      destruct (seeds_w (length data) initial r1) as [[sd r2]|e|s|]; auto. tauto. }
    destruct (match m with Oops => Ok ([], r1) | Zoops => seeds_w (length data) initial r1 end)
      as [[sd r2]|e|s|]; cbn [rbind fst snd]; try discriminate; try contradiction.
    destruct (new_cases K W data wraps m initial inertia patience sts sd Hd Hw Hr)
      as [[c [st0 [E [Hwf [Hinv [Hseed _]]]]]]|[_ E]]; rewrite E; cbn [rbind fst snd]; [|discriminate].
    pose proof (run_w_no_fuel c k Hwf Hseed st0 r2 Hinv H2) as Hrun.
    destruct (run_w flog2 fpow2 fexp2 c st0 k r2) as [[t r]|e|s|]; cbn [rbind]; try discriminate. contradiction.
  Qed.
End NoFuel.
