(* Binary32 rendering of the background frequencies (abc.rs, Background::from_counts:
   frequencies[c] = counts[c] as f32 / total as f32), bit-exact through Flocq, and the
   instances of the report checkers used by the correspondence check.  Kept apart
   from SamplerModel.v so that the sampler theorems do not depend on Flocq. *)
From Coq Require Import List NArith ZArith.
From LMBase Require Import Res ListX IEEE.
From LMSampler Require Import SamplerModel.

(* usize as f32 rounds to nearest even; the quotient is one binary32 division *)
Definition freq_f32 (count total : N) : Z :=
  F32.to_bits (F32.div (F32.of_Z (Z.of_N count)) (F32.of_Z (Z.of_N total))).

Definition background_bits_f32 := background_bits freq_f32.
Definition expected_bg_bits_f32 := expected_bg_bits freq_f32.
Definition check_bg_f32 := check_bg freq_f32.
Definition check_state_f32 := check_state freq_f32.
Definition report_of_f32 := report_of freq_f32.
Definition check_step_f32 := check_step freq_f32.
Definition check_C16_f32 := check_C16 freq_f32.
Definition obs_of_trace_f32 := obs_of_trace freq_f32.
