(* Helper lemmas of SamplerSkel.v (kept out of that file: SamplerSkel.v is an audited property
   file and should only list the translation-tie theorems gen_*_is_model). *)
From Coq Require Import List Arith Bool NArith ZArith Lia.
From LMBase Require Import Res ListX.
From LMSampler Require Import SamplerModel.
Import ListNotations.

Lemma loop_ext {S : Type} (f g : nat -> S -> res S) :
  (forall k s, f k s = g k s) -> forall ks s, loop f ks s = loop g ks s.
Proof.
  intros H ks. induction ks as [|k r IH]; intros s; [reflexivity|].
  cbn [loop]. rewrite H. destruct (g k s); cbn [rbind]; auto.
Qed.

Lemma rbind_Ok_r {A : Type} (x : res A) : (a <- x ;; Ok a) = x.
Proof. destruct x; reflexivity. Qed.

Lemma sub_usize_add_1 s : sub_usize (s + 1) 1 = Ok s.
Proof.
  unfold sub_usize. destruct (N.leb_spec 1 (s + 1)) as [H|H]; [|lia].
  f_equal. lia.
Qed.

