(* The incremental update loops of include_sequence / exclude_sequence / _new:
   each loop, under the bound that rules out its overflow / underflow panic,
   returns the cell-wise sum or difference. *)
From Coq Require Import List Arith Bool NArith Lia.
From LMBase Require Import Res ListX.
From LMSampler Require Import SamplerModel SamplerLemmas.
Import ListNotations.
Local Open Scope N_scope.

Lemma win_cell_nth s st j k :
  (st + j < length s)%nat -> win_cell s st j k = ind (Nat.eqb (nth (st + j) s O) k).
Proof.
  intros H. unfold win_cell. rewrite (nth_error_nth' s O H). reflexivity.
Qed.

Lemma seq_get_ok s k : (k < length s)%nat -> seq_get s k = Ok (nth k s O).
Proof. intros H. unfold seq_get. apply Nat.ltb_lt in H. rewrite H. reflexivity. Qed.

Lemma sym_lt K s i : Forall (fun a => (a < K)%nat) s -> (i < length s)%nat -> (nth i s O < K)%nat.
Proof. intros H Hi. rewrite Forall_forall in H. apply H. apply nth_In; auto. Qed.

(* ---------- motif window ---------- *)

Lemma motif_window_gen c (f : N -> res N) (g : N -> N) s st m :
  shape m (cW c) (cK c) ->
  (st + cW c <= length s)%nat ->
  Forall (fun a => (a < cK c)%nat) s ->
  (forall j, (j < cW c)%nat ->
     f (mcell m j (nth (st + j) s O)) = Ok (g (mcell m j (nth (st + j) s O)))) ->
  exists m', motif_window c f s st m = Ok m' /\ shape m' (cW c) (cK c) /\
    forall j k, (j < cW c)%nat -> (k < cK c)%nat ->
      mcell m' j k = if Nat.eqb (nth (st + j) s O) k then g (mcell m j k) else mcell m j k.
Proof.
  intros Hsh Hr Hs Hf. unfold motif_window.
  set (P := fun (t : nat) (m' : matrix) =>
    shape m' (cW c) (cK c) /\
    forall j k, (j < cW c)%nat -> (k < cK c)%nat ->
      mcell m' j k = if ((j <? t)%nat && Nat.eqb (nth (st + j) s O) k)%bool
                     then g (mcell m j k) else mcell m j k).
  destruct (loop_seq_inv
              (fun i m0 => sym <- seq_get s (st + i) ;; cell_upd f m0 i sym) P (cW c) O m) as [m' [E [Hsh' Hc]]].
  - split; auto.
  - intros t m0 Ht [Hsh0 Hc0].
    rewrite seq_get_ok by lia. cbn [rbind].
    set (sym := nth (st + t) s O).
    assert (Hsym : (sym < cK c)%nat) by (apply sym_lt; auto; lia).
    destruct Hsh0 as [Hl0 Hr0].
    unfold cell_upd.
    assert (E1 : (t <? length m0)%nat = true) by (apply Nat.ltb_lt; lia). rewrite E1.
    assert (E2 : (sym <? length (nth t m0 []))%nat = true) by (apply Nat.ltb_lt; rewrite Hr0; lia). rewrite E2.
    change (nth sym (nth t m0 []) 0) with (mcell m0 t sym).
    rewrite (Hc0 t sym) by lia. rewrite Nat.ltb_irrefl. cbn [andb].
    unfold sym at 1 2. rewrite Hf by lia. cbn [rbind].
    eexists. split; [reflexivity|]. split.
    + apply shape_upd. split; auto.
    + intros j k Hj Hk. rewrite mcell_upd by (try rewrite Hr0; lia).
      destruct (Nat.eqb_spec t j) as [<-|Hne].
      * assert (E3 : (t <? S t)%nat = true) by (apply Nat.ltb_lt; lia). rewrite E3. cbn [andb].
        fold sym. destruct (Nat.eqb_spec sym k) as [->|Hk']; auto.
        rewrite Hc0 by lia. rewrite Nat.ltb_irrefl. reflexivity.
      * cbn [andb]. rewrite Hc0 by lia.
        replace (j <? S t)%nat with (j <? t)%nat; auto.
        destruct (Nat.ltb_spec j t), (Nat.ltb_spec j (S t)); auto; lia.
  - exists m'. split; [exact E|]. split; auto.
    intros j k Hj Hk. rewrite Hc by auto. simpl.
    assert (E3 : (j <? cW c)%nat = true) by (apply Nat.ltb_lt; lia). rewrite E3. reflexivity.
Qed.

Lemma motif_window_inc c s st m :
  shape m (cW c) (cK c) ->
  (st + cW c <= length s)%nat ->
  Forall (fun a => (a < cK c)%nat) s ->
  (forall j k, (j < cW c)%nat -> (k < cK c)%nat -> mcell m j k + win_cell s st j k <= u32_max) ->
  exists m', motif_window c inc_u32 s st m = Ok m' /\ shape m' (cW c) (cK c) /\
    forall j k, (j < cW c)%nat -> (k < cK c)%nat -> mcell m' j k = mcell m j k + win_cell s st j k.
Proof.
  intros Hsh Hr Hs Hb.
  destruct (motif_window_gen c inc_u32 (fun v => v + 1) s st m Hsh Hr Hs) as [m' [E [Hsh' Hc]]].
  - intros j Hj. unfold inc_u32.
    specialize (Hb j (nth (st + j) s O) Hj ltac:(apply sym_lt; auto; lia)).
    rewrite win_cell_nth in Hb by lia. rewrite Nat.eqb_refl in Hb. simpl ind in Hb.
    destruct (N.leb_spec (mcell m j (nth (st + j) s O) + 1) u32_max); [reflexivity|lia].
  - exists m'. split; auto. split; auto. intros j k Hj Hk. rewrite Hc by auto.
    rewrite win_cell_nth by lia. destruct (Nat.eqb (nth (st + j) s O) k); simpl; lia.
Qed.

Lemma motif_window_dec c s st m :
  shape m (cW c) (cK c) ->
  (st + cW c <= length s)%nat ->
  Forall (fun a => (a < cK c)%nat) s ->
  (forall j k, (j < cW c)%nat -> (k < cK c)%nat -> win_cell s st j k <= mcell m j k) ->
  exists m', motif_window c dec1 s st m = Ok m' /\ shape m' (cW c) (cK c) /\
    forall j k, (j < cW c)%nat -> (k < cK c)%nat -> mcell m' j k = mcell m j k - win_cell s st j k.
Proof.
  intros Hsh Hr Hs Hb.
  destruct (motif_window_gen c dec1 (fun v => v - 1) s st m Hsh Hr Hs) as [m' [E [Hsh' Hc]]].
  - intros j Hj. unfold dec1.
    specialize (Hb j (nth (st + j) s O) Hj ltac:(apply sym_lt; auto; lia)).
    rewrite win_cell_nth in Hb by lia. rewrite Nat.eqb_refl in Hb. simpl ind in Hb.
    destruct (N.leb_spec 1 (mcell m j (nth (st + j) s O))); [reflexivity|lia].
  - exists m'. split; auto. split; auto. intros j k Hj Hk. rewrite Hc by auto.
    rewrite win_cell_nth by lia. destruct (Nat.eqb (nth (st + j) s O) k); simpl; lia.
Qed.

(* ---------- background window ---------- *)

Lemma bg_window_gen c (f : N -> res N) (h : N -> N -> N) s st bg :
  length bg = cK c ->
  (st + cW c <= length s)%nat ->
  Forall (fun a => (a < cK c)%nat) s ->
  (forall v, h v 0 = v) ->
  (forall t, (t < cW c)%nat ->
     let k := nth (st + t) s O in
     f (h (nth k bg 0) (win_count t s st k)) = Ok (h (nth k bg 0) (win_count (S t) s st k))) ->
  exists bg', bg_window c f s st bg = Ok bg' /\ length bg' = cK c /\
    forall k, (k < cK c)%nat -> nth k bg' 0 = h (nth k bg 0) (win_count (cW c) s st k).
Proof.
  intros Hl Hr Hs Hh0 Hf. unfold bg_window.
  set (P := fun (t : nat) (b : list N) =>
    length b = cK c /\
    forall k, (k < cK c)%nat -> nth k b 0 = h (nth k bg 0) (win_count t s st k)).
  destruct (loop_seq_inv
              (fun i b => sym <- seq_get s (st + i) ;; vec_upd f b sym) P (cW c) O bg) as [b' [E [Hl' Hc]]].
  - split; [auto|]. intros k Hk. rewrite win_count_0, Hh0. reflexivity.
  - intros t b Ht [Hlb Hcb].
    rewrite seq_get_ok by lia. cbn [rbind].
    set (sym := nth (st + t) s O).
    assert (Hsym : (sym < cK c)%nat) by (apply sym_lt; auto; lia).
    unfold vec_upd.
    assert (E1 : (sym <? length b)%nat = true) by (apply Nat.ltb_lt; lia). rewrite E1.
    rewrite (Hcb sym Hsym). unfold sym at 1 2 3. rewrite (Hf t) by lia. cbn [rbind].
    eexists. split; [reflexivity|]. split; [rewrite upd_length; auto|].
    intros k Hk. rewrite nth_upd. fold sym.
    destruct (Nat.eqb_spec sym k) as [->|Hne].
    + rewrite E1. reflexivity.
    + rewrite Hcb by auto. rewrite win_count_S. rewrite win_cell_nth by lia. fold sym.
      apply Nat.eqb_neq in Hne. rewrite Hne. simpl ind. rewrite N.add_0_r. reflexivity.
  - exists b'. auto.
Qed.

Lemma bg_window_inc c s st bg :
  length bg = cK c ->
  (st + cW c <= length s)%nat ->
  Forall (fun a => (a < cK c)%nat) s ->
  (forall k, (k < cK c)%nat -> nth k bg 0 + win_count (cW c) s st k <= usize_max) ->
  exists bg', bg_window c (fun v => add_usize v 1) s st bg = Ok bg' /\ length bg' = cK c /\
    forall k, (k < cK c)%nat -> nth k bg' 0 = nth k bg 0 + win_count (cW c) s st k.
Proof.
  intros Hl Hr Hs Hb.
  apply (bg_window_gen c (fun v => add_usize v 1) N.add s st bg Hl Hr Hs).
  - intros v. lia.
  - intros t Ht k. unfold add_usize.
    assert (Hk : (k < cK c)%nat) by (apply sym_lt; auto; lia).
    specialize (Hb k Hk).
    pose proof (win_count_mono (S t) (cW c) s st k ltac:(lia)) as Hm.
    rewrite win_count_S in *. unfold k at 3 6. rewrite win_cell_nth by lia. fold k.
    rewrite Nat.eqb_refl. simpl ind.
    rewrite win_cell_nth in Hm by lia. fold k in Hm. rewrite Nat.eqb_refl in Hm. simpl ind in Hm.
    destruct (N.leb_spec (nth k bg 0 + win_count t s st k + 1) usize_max); [f_equal; lia|lia].
Qed.

Lemma bg_window_dec c s st bg :
  length bg = cK c ->
  (st + cW c <= length s)%nat ->
  Forall (fun a => (a < cK c)%nat) s ->
  (forall k, (k < cK c)%nat -> win_count (cW c) s st k <= nth k bg 0) ->
  exists bg', bg_window c dec1 s st bg = Ok bg' /\ length bg' = cK c /\
    forall k, (k < cK c)%nat -> nth k bg' 0 = nth k bg 0 - win_count (cW c) s st k.
Proof.
  intros Hl Hr Hs Hb.
  apply (bg_window_gen c dec1 N.sub s st bg Hl Hr Hs).
  - intros v. lia.
  - intros t Ht k. unfold dec1.
    assert (Hk : (k < cK c)%nat) by (apply sym_lt; auto; lia).
    specialize (Hb k Hk).
    pose proof (win_count_mono (S t) (cW c) s st k ltac:(lia)) as Hm.
    rewrite win_count_S in *. unfold k at 3 6. rewrite win_cell_nth by lia. fold k.
    rewrite Nat.eqb_refl. simpl ind.
    rewrite win_cell_nth in Hm by lia. fold k in Hm. rewrite Nat.eqb_refl in Hm. simpl ind in Hm.
    destruct (N.leb_spec 1 (nth k bg 0 - win_count t s st k)); [f_equal; lia|lia].
Qed.

(* ---------- background counts of a whole sequence ---------- *)

Lemma bg_counts_gen c (f : N -> N -> res N) (g : N -> N -> N) cnts bg :
  length bg = cK c -> length cnts = cK c ->
  (forall k, (k < cK c)%nat -> f (nth k bg 0) (nth k cnts 0) = Ok (g (nth k bg 0) (nth k cnts 0))) ->
  exists bg', bg_counts c f cnts bg = Ok bg' /\ length bg' = cK c /\
    forall k, (k < cK c)%nat -> nth k bg' 0 = g (nth k bg 0) (nth k cnts 0).
Proof.
  intros Hl Hlc Hf. unfold bg_counts.
  set (P := fun (t : nat) (b : list N) =>
    length b = cK c /\
    forall k, (k < cK c)%nat ->
      nth k b 0 = if (k <? t)%nat then g (nth k bg 0) (nth k cnts 0) else nth k bg 0).
  destruct (loop_seq_inv
              (fun k b => if (k <? length cnts)%nat
                          then vec_upd (fun v => f v (nth k cnts 0)) b k else Panic 10)
              P (cK c) O bg) as [b' [E [Hl' Hc]]].
  - split; auto.
  - intros t b Ht [Hlb Hcb].
    assert (E1 : (t <? length cnts)%nat = true) by (apply Nat.ltb_lt; lia). rewrite E1.
    unfold vec_upd.
    assert (E2 : (t <? length b)%nat = true) by (apply Nat.ltb_lt; lia). rewrite E2.
    rewrite (Hcb t) by lia. rewrite Nat.ltb_irrefl. rewrite Hf by lia. cbn [rbind].
    eexists. split; [reflexivity|]. split; [rewrite upd_length; auto|].
    intros k Hk. rewrite nth_upd.
    destruct (Nat.eqb_spec t k) as [<-|Hne].
    + rewrite E2. assert (E3 : (t <? S t)%nat = true) by (apply Nat.ltb_lt; lia). rewrite E3. reflexivity.
    + rewrite Hcb by auto.
      replace (k <? S t)%nat with (k <? t)%nat; auto.
      destruct (Nat.ltb_spec k t), (Nat.ltb_spec k (S t)); auto; lia.
  - exists b'. split; [exact E|]. split; auto.
    intros k Hk. rewrite Hc by auto. simpl.
    assert (E3 : (k <? cK c)%nat = true) by (apply Nat.ltb_lt; lia). rewrite E3. reflexivity.
Qed.

Lemma bg_counts_add c cnts bg :
  length bg = cK c -> length cnts = cK c ->
  (forall k, (k < cK c)%nat -> nth k bg 0 + nth k cnts 0 <= usize_max) ->
  exists bg', bg_counts c add_usize cnts bg = Ok bg' /\ length bg' = cK c /\
    forall k, (k < cK c)%nat -> nth k bg' 0 = nth k bg 0 + nth k cnts 0.
Proof.
  intros Hl Hlc Hb. apply (bg_counts_gen c add_usize N.add cnts bg Hl Hlc).
  intros k Hk. unfold add_usize. specialize (Hb k Hk).
  destruct (N.leb_spec (nth k bg 0 + nth k cnts 0) usize_max); [reflexivity|lia].
Qed.

Lemma bg_counts_sub c cnts bg :
  length bg = cK c -> length cnts = cK c ->
  (forall k, (k < cK c)%nat -> nth k cnts 0 <= nth k bg 0) ->
  exists bg', bg_counts c sub_usize cnts bg = Ok bg' /\ length bg' = cK c /\
    forall k, (k < cK c)%nat -> nth k bg' 0 = nth k bg 0 - nth k cnts 0.
Proof.
  intros Hl Hlc Hb. apply (bg_counts_gen c sub_usize N.sub cnts bg Hl Hlc).
  intros k Hk. unfold sub_usize. specialize (Hb k Hk).
  destruct (N.leb_spec (nth k cnts 0) (nth k bg 0)); [reflexivity|lia].
Qed.

(* cached counts *)
Lemma nth_count_symbols K s k : (k < K)%nat -> nth k (count_symbols K s) 0 = count_sym s k.
Proof. intros H. apply (nth_vtab K (count_sym s) k H). Qed.

Lemma count_symbols_length K s : length (count_symbols K s) = K.
Proof. apply (vtab_length K (count_sym s)). Qed.
