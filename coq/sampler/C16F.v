(* Property C16, second property file: the FLOAT-DRIVEN step function.

   SamplerF32.v models what C16.v leaves to a choice list: prepare_pssm (to_freq(0.1),
   into_scoring), score_into, the 2f64.powf weights, WeightedIndex::new / sample of rand 0.8
   and the Zoops information-content test.  libm enters through three Section variables
   (flog2 = f32::log2, fpow2 = 2f32.powf, fexp2 = 2f64.powf); every statement below holds for
   ALL functions in their place, so no assumption about libm is made unless stated.

     next_g c st z word    next() as a function of the state, the hold-out index drawn by
                           select_holdout and the one generator word consumed by the draw
     run_g                 a run driven by a list of (hold-out, word) pairs
     allowed_g r           Ok, the documented panics 5..9, Err 3 (hold-out no RNG can draw),
                           Err 5 (no word although a draw is needed), OutOfFuel (the scale loop
                           of Uniform::new exceeds the model's fuel); in particular NOT Err 4:
                           the float-driven step never draws a start outside the sequence.

   Theorems only (closed by lemmas of SamplerF32Proofs / SamplerF64). *)
From Coq Require Import List Arith Bool NArith ZArith Lia.
From LMBase Require Import Res ListX IEEE.
From LMPwm Require Import PwmModel.
From LMSampler Require Import SamplerModel SamplerLemmas SamplerSpec SamplerProofs SamplerRun
  SamplerF32 SamplerF32Proofs SamplerF64 SamplerSupport SamplerScale SamplerWord SamplerShape.
Import ListNotations.

(* ------------------------------------------------------------------ the draw *)

(* update_holdout: whatever the PSSM, the oracle and the generator's word, a drawn start is
   one of the len - W + 1 scored positions, i.e. its window lies inside the sequence *)
Theorem draw_in_range :
  forall fexp2 W m s word p,
    draw fexp2 W m s word = Ok (UNew p) ->
    (p < length s + 1 - W)%nat /\ ((W <= length s)%nat -> (p + W <= length s)%nat).
Proof.
  intros fexp2 W m s word p H. pose proof (draw_range fexp2 W m s word p H). split; lia.
Qed.

(* ... and it carries a strictly positive weight: WeightedIndex never returns a position of
   weight zero, for EVERY u64 word of the generator and whatever the weights (binary64
   reasoning on Flocq: running totals are monotone, the scale left by Uniform::new is finite
   and >= 0, the fraction (word >> 12 | 1.0) - 1.0 lies in [0, 1 - 2^-52]) *)
Theorem draw_weight_positive :
  forall fexp2 W m s word p,
    (0 <= word < 2 ^ 64)%Z ->
    draw fexp2 W m s (Some word) = Ok (UNew p) ->
    F64.lt F64.zero (nth p (weight_vec fexp2 (score_vec W m s)) F64.zero) = true.
Proof.
  intros fexp2 W m s word p Hword Hd. unfold draw in Hd.
  destruct (wi_new (weight_vec fexp2 (score_vec W m s))) as [| | |cum total scale] eqn:Hw; try discriminate.
  inversion Hd; subst.
  apply (drawn_weight_positive _ cum total scale word Hw (wi_new_scale_ok _ _ _ _ Hw) (word_ok_all word Hword)).
Qed.

(* the two facts about rand's UniformFloat used above, on their own *)
Theorem uniform_scale_ok :
  forall ws cum total scale, wi_new ws = WOk cum total scale -> scale_ok scale = true.
Proof. exact wi_new_scale_ok. Qed.

Theorem word_fraction_ok :
  forall word, (0 <= word < 2 ^ 64)%Z -> word_ok word = true.
Proof. exact word_ok_all. Qed.

(* the same for any chosen value 0 <= x < total (what UniformFloat::sample must deliver) *)
Theorem weighted_index_positive :
  forall ws cum total scale x,
    wi_new ws = WOk cum total scale ->
    F64.is_finite x = true -> F64.le F64.zero x = true -> F64.lt x total = true ->
    F64.lt F64.zero (nth (wi_sample cum x) ws F64.zero) = true.
Proof.
  intros ws cum total scale x Hw Hf H0 H1.
  destruct (wi_new_spec _ _ _ _ Hw) as (_ & _ & _ & _ & _ & _ & _ & Hft & _).
  apply (sampled_weight_positive ws cum total scale x Hw Hf). split.
  - apply le_zero_fin; auto.
  - apply (flt_fin x total Hf Hft). exact H1.
Qed.

(* ------------------------------------------------------------------ support of the weights *)

(* FULL STATEMENT (not proved): for every PSSM built by prepare_pssm from the tables of a
   reachable state and every hold-out, position p has a non-zero weight IFF support says so,
   hence update_holdout keeps the start iff no position is alive.
   PROVED (this theorem): the direction that protects the alignment --
     (a) a dead position (its window contains a symbol whose background count is zero, or the
         wildcard with a zero count) never has a positive weight,
     (b) a drawn start is alive,
     (c) if every position is dead the start is kept (WeightedIndex::new fails),
   for every PSSM of the right SHAPE (-inf exactly at the cells named by cell_ninf, finite
   elsewhere: pssm_shape, an executable test evaluated by the driver on every replayed PSSM),
   and every 2^x oracle with pow(2,-inf) and pow(2,NaN) not positive (IEEE 754 / C99 F.10.4.4).
   MISSING for the converse (alive => positive weight): bounds excluding overflow of the f32
   window sum and underflow of 2^x in binary64 (false for extreme sizes: W * |log2| > 1074),
   and pssm_shape itself as a consequence of to_freq / into_scoring (division facts). *)
Theorem weights_support_partial :
  forall (fexp2 : F64.t -> F64.t),
    F64.lt F64.zero (fexp2 F64.ninf) = false ->
    F64.lt F64.zero (fexp2 F64.nan) = false ->
    forall K bg motif m s,
      pssm_shape K bg motif m = true ->
      Forall (fun a => (a < K)%nat) s -> (length motif <= length s)%nat ->
      (forall p, (p < length s + 1 - length motif)%nat ->
         nth p (support K (length motif) bg motif s) false = false ->
         F64.lt F64.zero (nth p (weight_vec fexp2 (score_vec (length motif) m s)) F64.zero) = false) /\
      (forall word p,
         (0 <= word < 2 ^ 64)%Z ->
         draw fexp2 (length motif) m s (Some word) = Ok (UNew p) ->
         upd_possible (support K (length motif) bg motif s) (UNew p) = true) /\
      (forall word,
         forallb negb (support K (length motif) bg motif s) = true ->
         draw fexp2 (length motif) m s word = Ok UKeep).
Proof.
  intros fexp2 H1 H2 K bg motif m s Hsh Hs Hlen. split; [|split].
  - intros p Hp Hd. apply (dead_position_weight fexp2 H1 H2 K bg motif m s p Hsh Hs Hp Hlen).
    unfold support in Hd.
    rewrite (nth_map_lt _ _ p false 0%nat) in Hd by (rewrite seq_length; exact Hp).
    rewrite seq_nth in Hd by exact Hp. cbn [Nat.add] in Hd.
    destruct (pos_dead K bg motif s p); [reflexivity|discriminate].
  - intros word p Hword Hd.
    destruct (wi_new (weight_vec fexp2 (score_vec (length motif) m s))) as [| | |cum total scale] eqn:Hw;
      try (unfold draw in Hd; rewrite Hw in Hd; discriminate).
    apply (drawn_position_alive fexp2 H1 H2 K bg motif m s word p cum total scale Hsh Hs Hlen Hw Hd
             (wi_new_scale_ok _ _ _ _ Hw) (word_ok_all word Hword)).
  - intros word. apply (all_dead_keeps fexp2 H1 H2); assumption.
Qed.

(* one half of the premise pssm_shape is a theorem: a symbol whose background count is zero has
   a -inf cell in every row of the PSSM of prepare_pssm, for every log2 oracle (the cell is
   decided by `background == 0.0` before the logarithm is taken; 0 / total is a zero for every
   total >= 1, also when total as f32 overflows) *)
Theorem zero_background_cell_is_neg_inf :
  forall K flog2 motif bgc b m j k,
    pssm_of K flog2 motif bgc = Ok (b, m) ->
    (k < length bgc)%nat -> nth k bgc 0%N = 0%N ->
    (j < length motif)%nat -> (k < length (nth j motif []))%nat -> (k < K)%nat ->
    nth k (nth j m []) F32.zero = F32.ninf.
Proof. exact bg_zero_cell_ninf. Qed.

(* ------------------------------------------------------------------ invariant *)

(* the invariant of C16 is preserved by the float-driven step (not only by the step
   function fed with choices read off a trace) *)
Theorem next_g_preserves_inv :
  forall flog2 fpow2 fexp2 c st z word st' oit,
    WF c -> Inv c st ->
    next_g flog2 fpow2 fexp2 c st z word = Ok (st', oit) ->
    Inv c st' /\ next_post c st st' oit.
Proof. exact next_g_inv. Qed.

Theorem next_f_preserves_inv :
  forall flog2 fpow2 fexp2 c st z word st' oit,
    WF c -> Inv c st ->
    next_f flog2 fpow2 fexp2 c st z word = Ok (st', oit) ->
    Inv c st' /\ next_post c st st' oit.
Proof. exact next_f_inv. Qed.

(* it is an instance of next (so every theorem of C16.v about next applies) *)
Theorem next_g_refines_next :
  forall flog2 fpow2 fexp2 c st z word r,
    next_g flog2 fpow2 fexp2 c st z word = Ok r ->
    exists ch, next c st ch = Ok r /\ ch_z ch = z /\
               (st_conv st = false ->
                select_holdout c st z = Ok z /\ choice_of flog2 fpow2 fexp2 c st z word = Ok ch).
Proof. exact next_g_is_next. Qed.

(* outcomes: never an index panic, counter overflow / underflow, and never Err 4 *)
Theorem next_g_outcomes :
  forall flog2 fpow2 fexp2 c st z word,
    WF c -> seed_ok c -> Inv c st -> allowed_g (next_g flog2 fpow2 fexp2 c st z word).
Proof. exact next_g_safe. Qed.

(* sampler_inv of C16.v for the float-driven run, from construction on, all run lengths *)
Theorem sampler_inv_float :
  forall (freq : N -> N -> Z) flog2 fpow2 fexp2
         K W data wraps m initial inertia patience starts0 seeds0 zws,
    data_ok K W data ->
    Forall (fun wr => (W <= wr)%nat) wraps ->
    starts_in_range W data starts0 = true ->
    (m = Zoops -> seeds_ok (length data) initial seeds0) ->
    exists c st0,
      new_ K W data wraps m initial inertia patience starts0 seeds0 = Ok (c, st0) /\
      match run_g flog2 fpow2 fexp2 c st0 zws with
      | Ok t => length t = length zws /\
                Holds_C16 freq K W data (report_of freq st0) (obs_of_trace freq t)
      | r => allowed_g r
      end.
Proof. exact new_run_g_holds. Qed.

(* ------------------------------------------------------------------ Zoops *)

(* a trial (Zoops, hold-out not active): the sequence stays in the motif iff NOT
   IC(PSSM with z) < IC(PSSM without z) (so also when either is NaN); last_inclusion is
   set to the step exactly then; convergence is the patience test on the updated value *)
Theorem zoops_decision_spec :
  forall flog2 fpow2 fexp2 c st z word st' it,
    WF c -> seed_ok c -> Inv c st ->
    next_g flog2 fpow2 fexp2 c st z word = Ok (st', Some it) ->
    zoops_trial c st z = true ->
    exists ch,
      choice_of flog2 fpow2 fexp2 c st z word = Ok ch /\ it_z it = z /\
      nth z (st_active st') false = ch_accept ch /\
      st_last st' = (if ch_accept ch then st_step st else st_last st) /\
      st_conv st' = (cPatience c <? st_step st - st_last st')%N /\
      (forall st1 p1 st2 st3 p3,
         exclude_sequence c st z = Ok st1 ->
         pssm_of (cK c) flog2 (st_motif st1) (st_bg st1) = Ok p1 ->
         update_holdout c st1 z (ch_upd ch) = Ok st2 ->
         include_sequence c st2 z = Ok st3 ->
         pssm_of (cK c) flog2 (st_motif st3) (st_bg st3) = Ok p3 ->
         ch_accept ch = negb (F32.lt (ic_of fpow2 p3) (ic_of fpow2 p1))).
Proof. exact zoops_decision. Qed.

(* ------------------------------------------------------------------ pins *)

Check (eq_refl : @allowed_g nat (Err 4) = (4 = 3 \/ 4 = 5)%nat).
Check (eq_refl : @allowed_g nat (Panic 10) = (5 <= 10 <= 9)%nat).
Check ((fun _ _ => eq_refl) : forall fpow2 p,
  ic_of fpow2 p = info_content fpow2 (fst p) (snd p)).

(* ------------------------------------------------------------------ non-vacuity *)

(* word_ok holds at the extremes of u64 and around the 12 discarded bits; it is a real test *)
Example ex_word_ok :
  word_ok 0 = true /\ word_ok 18446744073709551615 = true /\
  word_ok 4095 = true /\ word_ok 4096 = true /\ word_ok (-1) = false.
Proof. vm_compute. repeat split; reflexivity. Qed.

(* weights 1, 0, 2, 0: Uniform::new keeps scale = total = 3, and words spread over u64 only
   ever select the positions 0 and 2 *)
Example ex_weighted_index :
  match wi_new [F64.of_Z 1; F64.zero; F64.of_Z 2; F64.zero] with
  | WOk cum total scale =>
      scale_ok scale &&
      list_eqb Nat.eqb
        (map (fun w => wi_sample cum (uni_sample scale w))
             [0; 6148914691236517205; 6148914691236517206; 9223372036854775808; 18446744073709551615]%Z)
        [0; 0; 0; 2; 2]%nat
  | _ => false
  end = true.
Proof. vm_compute. reflexivity. Qed.

(* all weights zero: WeightedIndex::new fails, the start is kept *)
Example ex_all_zero_keeps :
  wi_new [F64.zero; F64.nzero; F64.zero] = WErr /\ wi_new [] = WErr /\ wi_new [F64.nan] = WErr.
Proof. vm_compute. repeat split; reflexivity. Qed.

(* premises of weights_support_partial are satisfiable: one motif row over K = 3 with a zero
   background count for symbol 1; log2 replaced by a function with log2(0) = -inf, finite
   elsewhere; 2^x by a function that is 1 on finite arguments, 0 elsewhere.  Positions whose
   window has symbol 1 (or the wildcard 2 with count 0) are dead, the draw picks a live one. *)
Definition ex_log2 (x : F32.t) : F32.t := if F32.eq x F32.zero then F32.ninf else x.
Definition ex_exp2 (y : F64.t) : F64.t := if F64.is_finite y then F64.of_Z 1 else F64.zero.

Example ex_support :
  F64.lt F64.zero (ex_exp2 F64.ninf) = false /\ F64.lt F64.zero (ex_exp2 F64.nan) = false /\
  match pssm_of 3 ex_log2 [[2; 1; 0]%N] [4; 0; 1]%N with
  | Ok (_, m) =>
      pssm_shape 3 [4; 0; 1]%N [[2; 1; 0]%N] m &&
      list_eqb Bool.eqb (support 3 1 [4; 0; 1]%N [[2; 1; 0]%N] [0; 1; 0; 2; 0]%nat)
                        [true; false; true; false; true] &&
      match draw ex_exp2 1 m [0; 1; 0; 2; 0]%nat (Some 9223372036854775808%Z) with
      | Ok (UNew p) => Nat.eqb p 2
      | _ => false
      end
  | _ => false
  end = true.
Proof. vm_compute. repeat split; reflexivity. Qed.

(* a float-driven run (sampler_inv_float is not vacuous): Zoops with seeds {0,2} on three
   sequences over K = 3; the words 2^63, 0, 2^64-1 move the hold-out to the middle / first /
   last scored position, the inactive sequence 1 is recruited at its first trial *)
Definition ex_pow2 (x : F32.t) : F32.t := if F32.is_finite x then F32.of_Z 1 else F32.zero.
Definition ex_d3 : list seqt := [[0;1;0;1;1;0];[1;0;0;1;0;1];[0;0;1;1;0;1]]%nat.

Example ex_run_g :
  match new_ 3 2 ex_d3 [2;2;2]%nat Zoops 2 1 5 [0;2;4]%nat [0;2]%nat with
  | Ok (c, st0) =>
      match run_g ex_log2 ex_pow2 ex_exp2 c st0
                  [(0, Some 9223372036854775808%Z); (1, Some 0%Z); (1, Some 18446744073709551615%Z)]%nat with
      | Ok t =>
          list_eqb (list_eqb Nat.eqb) (map (fun x => st_starts (fst x)) t) [[2;2;4];[2;0;4];[2;4;4]]%nat &&
          list_eqb (list_eqb Bool.eqb) (map (fun x => st_active (fst x)) t)
                   [[true;false;true];[true;true;true];[true;true;true]]
      | _ => false
      end
  | _ => false
  end = true.
Proof. vm_compute. reflexivity. Qed.

(* a draw without a generator word is the model error Err 5 (allowed_g) *)
Example ex_run_g_needs_word :
  match new_ 3 2 ex_d3 [2;2;2]%nat Oops 0 0 0 [0;2;4]%nat [] with
  | Ok (c, st0) => run_g ex_log2 ex_pow2 ex_exp2 c st0 [(1, None)]%nat = Err 5
  | _ => False
  end.
Proof. vm_compute. reflexivity. Qed.
