(* Property C16, second property file: the FLOAT-DRIVEN step function.

   SamplerF32.v models what C16.v leaves to a choice list: prepare_pssm (to_freq(0.1),
   into_scoring), score_into, the 2f64.powf weights, WeightedIndex::new / sample of rand 0.8
   and the Zoops information-content test.  libm enters through three Section variables
   (flog2 = f32::log2, fpow2 = 2f32.powf, fexp2 = 2f64.powf); every statement below holds for
   ALL functions in their place, so no assumption about libm is made unless stated.

     next_g c st z word    next() as a function of the state, the hold-out index drawn by
                           select_holdout and the one generator word consumed by the draw
     run_g                 a run driven by a list of (hold-out, word) pairs
     allowed_g r           Ok, the documented panics 5..9, Err 3 (hold-out no RNG can draw),
                           Err 5 (no word although a draw is needed), OutOfFuel (the scale loop
                           of Uniform::new exceeds the model's fuel); in particular NOT Err 4:
                           the float-driven step never draws a start outside the sequence.

     sampler_w, run_w, next_w   (SamplerStream.v, wave 3) the sampler as a function of the generator's WORD
                           STREAM: initial starts, seed set, every hold-out and every new start computed from
                           the words following rand 0.8.8 -- no hold-out index, no choice list as input.
                           sampler_deterministic, sampler_inv_stream, sampler_no_panic_oops_stream(_closed).
     allowed_w r           Ok, the documented panics 5..9, Err 5 (the stream ends / wrong word width), Err 6
                           (unmodelled branch of index::sample), Err 2 (seed set rejected by new_) and OutOfFuel
                           (both proved impossible: sampler_stream_never_err2 / _never_out_of_fuel;
                           sampler_inv_stream_closed); NOT Err 1 / 3 / 4.

   Theorems only (closed by lemmas of SamplerF32Proofs / SamplerF64 / SamplerStreamProofs / SamplerFuel). *)
From Coq Require Import List Arith Bool NArith ZArith Lia.
From LMBase Require Import Res ListX IEEE.
From LMPwm Require Import PwmModel.
From LMSampler Require Import SamplerModel SamplerLemmas SamplerSpec SamplerProofs SamplerRun
  SamplerF32 SamplerF32Proofs SamplerF64 SamplerSupport SamplerScale SamplerWord SamplerShape
  SamplerOops SamplerStream SamplerStreamProofs SamplerFuel SamplerSeeds.
Import ListNotations.

(* ------------------------------------------------------------------ the draw *)

(* update_holdout: whatever the PSSM, the oracle and the generator's word, a drawn start is
   one of the len - W + 1 scored positions, i.e. its window lies inside the sequence *)
Theorem draw_in_range :
  forall fexp2 W m s word p,
    draw fexp2 W m s word = Ok (UNew p) ->
    (p < length s + 1 - W)%nat /\ ((W <= length s)%nat -> (p + W <= length s)%nat).
Proof.
  intros fexp2 W m s word p H. pose proof (draw_range fexp2 W m s word p H). split; lia.
Qed.

(* ... and it carries a strictly positive weight: WeightedIndex never returns a position of
   weight zero, for EVERY u64 word of the generator and whatever the weights (binary64
   reasoning on Flocq: running totals are monotone, the scale left by Uniform::new is finite
   and >= 0, the fraction (word >> 12 | 1.0) - 1.0 lies in [0, 1 - 2^-52]) *)
Theorem draw_weight_positive :
  forall fexp2 W m s word p,
    (0 <= word < 2 ^ 64)%Z ->
    draw fexp2 W m s (Some word) = Ok (UNew p) ->
    F64.lt F64.zero (nth p (weight_vec fexp2 (score_vec W m s)) F64.zero) = true.
Proof.
  intros fexp2 W m s word p Hword Hd. unfold draw in Hd.
  destruct (wi_new (weight_vec fexp2 (score_vec W m s))) as [| | |cum total scale] eqn:Hw; try discriminate.
  inversion Hd; subst.
  apply (drawn_weight_positive _ cum total scale word Hw (wi_new_scale_ok _ _ _ _ Hw) (word_ok_all word Hword)).
Qed.

(* the two facts about rand's UniformFloat used above, on their own *)
Theorem uniform_scale_ok :
  forall ws cum total scale, wi_new ws = WOk cum total scale -> scale_ok scale = true.
Proof. exact wi_new_scale_ok. Qed.

Theorem word_fraction_ok :
  forall word, (0 <= word < 2 ^ 64)%Z -> word_ok word = true.
Proof. exact word_ok_all. Qed.

(* the same for any chosen value 0 <= x < total (what UniformFloat::sample must deliver) *)
Theorem weighted_index_positive :
  forall ws cum total scale x,
    wi_new ws = WOk cum total scale ->
    F64.is_finite x = true -> F64.le F64.zero x = true -> F64.lt x total = true ->
    F64.lt F64.zero (nth (wi_sample cum x) ws F64.zero) = true.
Proof.
  intros ws cum total scale x Hw Hf H0 H1.
  destruct (wi_new_spec _ _ _ _ Hw) as (_ & _ & _ & _ & _ & _ & _ & Hft & _).
  apply (sampled_weight_positive ws cum total scale x Hw Hf). split.
  - apply le_zero_fin; auto.
  - apply (flt_fin x total Hf Hft). exact H1.
Qed.

(* ------------------------------------------------------------------ support of the weights *)

(* FULL STATEMENT (not proved): for every PSSM built by prepare_pssm from the tables of a
   reachable state and every hold-out, position p has a non-zero weight IFF support says so,
   hence update_holdout keeps the start iff no position is alive.
   PROVED (this theorem): the direction that protects the alignment --
     (a) a dead position (its window contains a symbol whose background count is zero, or the
         wildcard with a zero count) never has a positive weight,
     (b) a drawn start is alive,
     (c) if every position is dead the start is kept (WeightedIndex::new fails),
   for every PSSM of the right SHAPE (-inf exactly at the cells named by cell_ninf, finite
   elsewhere: pssm_shape, an executable test evaluated by the driver on every replayed PSSM),
   and every 2^x oracle with pow(2,-inf) and pow(2,NaN) not positive (IEEE 754 / C99 F.10.4.4).
   MISSING for the converse (alive => positive weight): bounds excluding overflow of the f32
   window sum and underflow of 2^x in binary64 (false for extreme sizes: W * |log2| > 1074),
   and pssm_shape itself as a consequence of to_freq / into_scoring (division facts). *)
Theorem weights_support_partial :
  forall (fexp2 : F64.t -> F64.t),
    F64.lt F64.zero (fexp2 F64.ninf) = false ->
    F64.lt F64.zero (fexp2 F64.nan) = false ->
    forall K bg motif m s,
      pssm_shape K bg motif m = true ->
      Forall (fun a => (a < K)%nat) s -> (length motif <= length s)%nat ->
      (forall p, (p < length s + 1 - length motif)%nat ->
         nth p (support K (length motif) bg motif s) false = false ->
         F64.lt F64.zero (nth p (weight_vec fexp2 (score_vec (length motif) m s)) F64.zero) = false) /\
      (forall word p,
         (0 <= word < 2 ^ 64)%Z ->
         draw fexp2 (length motif) m s (Some word) = Ok (UNew p) ->
         upd_possible (support K (length motif) bg motif s) (UNew p) = true) /\
      (forall word,
         forallb negb (support K (length motif) bg motif s) = true ->
         draw fexp2 (length motif) m s word = Ok UKeep).
Proof.
  intros fexp2 H1 H2 K bg motif m s Hsh Hs Hlen. split; [|split].
  - intros p Hp Hd. apply (dead_position_weight fexp2 H1 H2 K bg motif m s p Hsh Hs Hp Hlen).
    unfold support in Hd.
    rewrite (nth_map_lt _ _ p false 0%nat) in Hd by (rewrite seq_length; exact Hp).
    rewrite seq_nth in Hd by exact Hp. cbn [Nat.add] in Hd.
    destruct (pos_dead K bg motif s p); [reflexivity|discriminate].
  - intros word p Hword Hd.
    destruct (wi_new (weight_vec fexp2 (score_vec (length motif) m s))) as [| | |cum total scale] eqn:Hw;
      try (unfold draw in Hd; rewrite Hw in Hd; discriminate).
    apply (drawn_position_alive fexp2 H1 H2 K bg motif m s word p cum total scale Hsh Hs Hlen Hw Hd
             (wi_new_scale_ok _ _ _ _ Hw) (word_ok_all word Hword)).
  - intros word. apply (all_dead_keeps fexp2 H1 H2); assumption.
Qed.

(* one half of the premise pssm_shape is a theorem: a symbol whose background count is zero has
   a -inf cell in every row of the PSSM of prepare_pssm, for every log2 oracle (the cell is
   decided by `background == 0.0` before the logarithm is taken; 0 / total is a zero for every
   total >= 1, also when total as f32 overflows) *)
Theorem zero_background_cell_is_neg_inf :
  forall K flog2 motif bgc b m j k,
    pssm_of K flog2 motif bgc = Ok (b, m) ->
    (k < length bgc)%nat -> nth k bgc 0%N = 0%N ->
    (j < length motif)%nat -> (k < length (nth j motif []))%nat -> (k < K)%nat ->
    nth k (nth j m []) F32.zero = F32.ninf.
Proof. exact bg_zero_cell_ninf. Qed.

(* ------------------------------------------------------------------ invariant *)

(* the invariant of C16 is preserved by the float-driven step (not only by the step
   function fed with choices read off a trace) *)
Theorem next_g_preserves_inv :
  forall flog2 fpow2 fexp2 c st z word st' oit,
    WF c -> Inv c st ->
    next_g flog2 fpow2 fexp2 c st z word = Ok (st', oit) ->
    Inv c st' /\ next_post c st st' oit.
Proof. exact next_g_inv. Qed.

Theorem next_f_preserves_inv :
  forall flog2 fpow2 fexp2 c st z word st' oit,
    WF c -> Inv c st ->
    next_f flog2 fpow2 fexp2 c st z word = Ok (st', oit) ->
    Inv c st' /\ next_post c st st' oit.
Proof. exact next_f_inv. Qed.

(* it is an instance of next (so every theorem of C16.v about next applies) *)
Theorem next_g_refines_next :
  forall flog2 fpow2 fexp2 c st z word r,
    next_g flog2 fpow2 fexp2 c st z word = Ok r ->
    exists ch, next c st ch = Ok r /\ ch_z ch = z /\
               (st_conv st = false ->
                select_holdout c st z = Ok z /\ choice_of flog2 fpow2 fexp2 c st z word = Ok ch).
Proof. exact next_g_is_next. Qed.

(* outcomes: never an index panic, counter overflow / underflow, and never Err 4 *)
Theorem next_g_outcomes :
  forall flog2 fpow2 fexp2 c st z word,
    WF c -> seed_ok c -> Inv c st -> allowed_g (next_g flog2 fpow2 fexp2 c st z word).
Proof. exact next_g_safe. Qed.

(* sampler_inv of C16.v for the float-driven run, from construction on, all run lengths *)
Theorem sampler_inv_float :
  forall (freq : N -> N -> Z) flog2 fpow2 fexp2
         K W data wraps m initial inertia patience starts0 seeds0 zws,
    data_ok K W data ->
    Forall (fun wr => (W <= wr)%nat) wraps ->
    starts_in_range W data starts0 = true ->
    (m = Zoops -> seeds_ok (length data) initial seeds0) ->
    exists c st0,
      new_ K W data wraps m initial inertia patience starts0 seeds0 = Ok (c, st0) /\
      match run_g flog2 fpow2 fexp2 c st0 zws with
      | Ok t => length t = length zws /\
                Holds_C16 freq K W data (report_of freq st0) (obs_of_trace freq t)
      | r => allowed_g r
      end.
Proof. exact new_run_g_holds. Qed.

(* ------------------------------------------------------------------ Zoops *)

(* a trial (Zoops, hold-out not active): the sequence stays in the motif iff NOT
   IC(PSSM with z) < IC(PSSM without z) (so also when either is NaN); last_inclusion is
   set to the step exactly then; convergence is the patience test on the updated value *)
Theorem zoops_decision_spec :
  forall flog2 fpow2 fexp2 c st z word st' it,
    WF c -> seed_ok c -> Inv c st ->
    next_g flog2 fpow2 fexp2 c st z word = Ok (st', Some it) ->
    zoops_trial c st z = true ->
    exists ch,
      choice_of flog2 fpow2 fexp2 c st z word = Ok ch /\ it_z it = z /\
      nth z (st_active st') false = ch_accept ch /\
      st_last st' = (if ch_accept ch then st_step st else st_last st) /\
      st_conv st' = (cPatience c <? st_step st - st_last st')%N /\
      (forall st1 p1 st2 st3 p3,
         exclude_sequence c st z = Ok st1 ->
         pssm_of (cK c) flog2 (st_motif st1) (st_bg st1) = Ok p1 ->
         update_holdout c st1 z (ch_upd ch) = Ok st2 ->
         include_sequence c st2 z = Ok st3 ->
         pssm_of (cK c) flog2 (st_motif st3) (st_bg st3) = Ok p3 ->
         ch_accept ch = negb (F32.lt (ic_of fpow2 p3) (ic_of fpow2 p1))).
Proof. exact zoops_decision. Qed.


(* ------------------------------------------------------------------ the word stream *)

(* SamplerStream.v computes EVERY random decision from the words the generator hands out
   (rand 0.8.8: Uniform<usize>::sample for the initial starts and the hold-out, gen_index /
   gen_range for the hold-out among the seeds, index::sample for the seed set, one u64 for
   WeightedIndex::sample): sampler_w = Sampler::_new followed by k calls of next() as a function
   of data set, parameters, libm oracles and the stream.  Nothing else enters: in particular
   no hold-out index and no choice list. *)

(* "Two runs with the same data, parameters and seed produce identical traces": the trace of k
   calls is the run (C16.v) of the choice list the stream determines, and it depends only on
   the words consumed -- any two streams that agree on that prefix give the same trace and
   leave what follows the prefix.  (Outside: the generator itself, StdRng: seed -> words, and
   that the implementation asks the generator for nothing else: checked on every case by
   rerun=same and by the replay of the rw= words of every call, not proved.) *)
Theorem sampler_deterministic :
  forall flog2 fpow2 fexp2 c st k ws t r,
    run_w flog2 fpow2 fexp2 c st k ws = Ok (t, r) ->
    run c st (choices_w flog2 fpow2 fexp2 c st k ws) = Ok t /\
    length t = k /\
    exists used, ws = used ++ r /\
      forall r2, run_w flog2 fpow2 fexp2 c st k (used ++ r2) = Ok (t, r2).
Proof.
  intros flog2 fpow2 fexp2 c st k ws t r H.
  destruct (run_w_is_run flog2 fpow2 fexp2 c k st ws t r H) as [H1 [H2 _]].
  split; [exact H1|]. split; [exact H2|]. exact (run_w_reads flog2 fpow2 fexp2 c k st ws t r H).
Qed.

(* the same for the construction: the initial starts are a function of the words consumed *)
Theorem initial_starts_deterministic :
  forall W data ws sts r,
    starts_w W data ws = Ok (sts, r) ->
    exists used, ws = used ++ r /\ forall r2, starts_w W data (used ++ r2) = Ok (sts, r2).
Proof. intros W data ws sts r. apply starts_w_reads. Qed.

(* the values computed from the words are legal ones: the initial starts leave every window
   inside its sequence, the hold-out is one select_holdout can return (in range; a seed during
   the inertia phase) -- for every stream of u32 / u64 words *)
Theorem initial_starts_from_stream_in_range :
  forall W data ws,
    Forall (fun s => (W <= length s)%nat) data -> stream_ok ws ->
    match starts_w W data ws with
    | Ok (sts, r) => starts_in_range W data sts = true /\ stream_ok r
    | Err e => e = 5%nat
    | _ => False
    end.
Proof. intros W data ws Hl Hs. exact (starts_w_ok W data Hl ws Hs). Qed.

Theorem holdout_from_stream_legal :
  forall c st ws,
    CInv c st -> seed_ok c -> stream_ok ws ->
    match holdout_w c st ws with
    | Ok (z, r) => select_holdout c st z = Ok z /\ (z < length (cData c))%nat /\ stream_ok r
    | Panic s => (s = 5 \/ s = 6)%nat
    | Err e => e = 5%nat
    | OutOfFuel => False
    end.
Proof. intros c st ws Hi Hs Hw. exact (holdout_w_ok c st Hi Hs ws Hw). Qed.

(* one call driven by the stream: the invariant of C16 and the postcondition of next() hold,
   or the outcome is one of allowed_w (never Err 3 / Err 4: no impossible choice) *)
Theorem stream_step_outcomes :
  forall flog2 fpow2 fexp2 c st ws,
    WF c -> seed_ok c -> Inv c st -> stream_ok ws ->
    match next_w flog2 fpow2 fexp2 c st ws with
    | Ok (x, r) => Inv c (fst x) /\ next_post c st (fst x) (snd x) /\ stream_ok r
    | r => allowed_w r
    end.
Proof. exact next_w_safe. Qed.

(* sampler_inv of C16.v for the sampler as a function of the word stream: both modes, all
   parameters, all run lengths, every stream of u32 / u64 words, every libm *)
Theorem sampler_inv_stream :
  forall (freq : N -> N -> Z) flog2 fpow2 fexp2 K W data wraps m initial inertia patience k ws,
    data_ok K W data ->
    Forall (fun wr => (W <= wr)%nat) wraps ->
    stream_ok ws ->
    match sampler_w flog2 fpow2 fexp2 K W data wraps m initial inertia patience k ws with
    | Ok (cs, t, r) =>
        length t = k /\
        Holds_C16 freq K W data (report_of freq (snd cs)) (obs_of_trace freq t)
    | r => allowed_w r
    end.
Proof.
  intros freq flog2 fpow2 fexp2. exact (sampler_w_holds flog2 fpow2 fexp2 freq).
Qed.

(* Oops mode, at least two sequences, all longer than the width, wrap >= width: for EVERY
   stream of words and every libm the sampler does not panic -- except for the weight overflow
   (site 8: the weights of update_holdout sum to +inf and Uniform::new(0, +inf) panics), which
   depends on magnitudes (2^score >= 2^1024) that the model leaves to the exp2 oracle.  Err 5:
   the (finite) stream ends or delivers a word of the wrong width; OutOfFuel (the scale loop
   of Uniform::new exceeds the model's fuel 8) is excluded by sampler_stream_never_out_of_fuel:
   see sampler_no_panic_oops_stream_closed.
   FULL STATEMENT "no panic for any word stream" is FALSE as it stands: see
   sampler_no_panic_oops_unconditional_refuted below (site 8 is reachable). *)
Theorem sampler_no_panic_oops_stream :
  forall flog2 fpow2 fexp2 K W data wraps initial inertia patience k ws,
    data_ok K W data ->
    Forall (fun s => (W < length s)%nat) data ->
    (2 <= length data)%nat ->
    Forall (fun wr => (W <= wr)%nat) wraps ->
    stream_ok ws ->
    (N.of_nat k <= usize_max)%N ->
    match sampler_w flog2 fpow2 fexp2 K W data wraps Oops initial inertia patience k ws with
    | Ok _ => True
    | Panic s => s = 8%nat
    | Err e => e = 5%nat
    | OutOfFuel => True
    end.
Proof. exact sampler_w_oops. Qed.


(* ------------------------------------------------------------------ fuel *)

(* the OutOfFuel outcome admitted by allowed_g / allowed_w never occurs: the scale loop of
   UniformFloat::new(0, total) (decrease the scale by one ulp while scale * (1 - 2^-52) + 0 >= total)
   stops after at most two tests for every finite total > 0 -- round(s * (1 - 2^-52)) <= s, and
   the float whose bit pattern is one less than that of a positive finite x is strictly below x
   (SamplerFuel.decr_lt) -- so the model's fuel 8 is never exhausted *)
Theorem uniform_scale_fuel_suffices : forall ws, wi_new ws <> WFuel.
Proof. exact wi_new_no_fuel. Qed.

Theorem next_g_never_out_of_fuel :
  forall flog2 fpow2 fexp2 c st z word,
    WF c -> seed_ok c -> Inv c st -> next_g flog2 fpow2 fexp2 c st z word <> OutOfFuel.
Proof. exact next_g_no_fuel. Qed.

Theorem sampler_stream_never_out_of_fuel :
  forall flog2 fpow2 fexp2 K W data wraps m initial inertia patience k ws,
    data_ok K W data ->
    Forall (fun wr => (W <= wr)%nat) wraps ->
    stream_ok ws ->
    sampler_w flog2 fpow2 fexp2 K W data wraps m initial inertia patience k ws <> OutOfFuel.
Proof. exact sampler_w_no_fuel. Qed.

(* sampler_no_panic_oops_stream without the fuel case: Ok, the weight overflow, or the stream fell short *)
Theorem sampler_no_panic_oops_stream_closed :
  forall flog2 fpow2 fexp2 K W data wraps initial inertia patience k ws,
    data_ok K W data ->
    Forall (fun s => (W < length s)%nat) data ->
    (2 <= length data)%nat ->
    Forall (fun wr => (W <= wr)%nat) wraps ->
    stream_ok ws ->
    (N.of_nat k <= usize_max)%N ->
    (exists cs t r, sampler_w flog2 fpow2 fexp2 K W data wraps Oops initial inertia patience k ws = Ok (cs, t, r)) \/
    sampler_w flog2 fpow2 fexp2 K W data wraps Oops initial inertia patience k ws = Panic 8 \/
    sampler_w flog2 fpow2 fexp2 K W data wraps Oops initial inertia patience k ws = Err 5.
Proof.
  intros flog2 fpow2 fexp2 K W data wraps initial inertia patience k ws Hd Hs Hn Hw Hok Hk.
  pose proof (sampler_w_oops flog2 fpow2 fexp2 K W data wraps initial inertia patience k ws Hd Hs Hn Hw Hok Hk) as H1.
  pose proof (sampler_w_no_fuel flog2 fpow2 fexp2 K W data wraps Oops initial inertia patience k ws Hd Hw Hok) as H2.
  destruct (sampler_w flog2 fpow2 fexp2 K W data wraps Oops initial inertia patience k ws) as [[[cs t] r]|e|s|];
    cbn [oops_outcome] in H1.
  - left. eauto.
  - right. right. congruence.
  - right. left. congruence.
  - contradiction.
Qed.


(* ------------------------------------------------------------------ the seed set *)

(* rand::seq::index::sample as modelled (Floyd's algorithm with / without the in-loop shuffle, the
   trailing shuffle, the in-place partial Fisher-Yates): for every stream the result is a seed
   set that _new accepts -- min(initial, n) pairwise distinct indices below n -- or the stream
   fell short (5) / the branch is not modelled (6: n >= 500_000 or more than 162 seeds) *)
Theorem seed_set_from_stream_valid :
  forall n initial ws,
    (N.of_nat n <= u32_max)%N -> stream_ok ws ->
    match seeds_w n initial ws with
    | Ok (sd, r) => seeds_ok n initial sd /\ stream_ok r
    | Err e => (e = 5 \/ e = 6)%nat
    | _ => False
    end.
Proof. intros n initial ws Hn Hs. exact (seeds_w_valid n initial Hn ws Hs). Qed.

Theorem sampler_stream_never_err2 :
  forall flog2 fpow2 fexp2 K W data wraps m initial inertia patience k ws,
    data_ok K W data ->
    Forall (fun wr => (W <= wr)%nat) wraps ->
    stream_ok ws ->
    sampler_w flog2 fpow2 fexp2 K W data wraps m initial inertia patience k ws <> Err 2.
Proof. exact sampler_w_no_err2. Qed.

(* sampler_inv_stream with the two impossible outcomes removed: C16 holds at every step, or a
   documented panic 5..9, or the stream fell short (5) / index::sample's unmodelled branch (6) *)
Theorem sampler_inv_stream_closed :
  forall (freq : N -> N -> Z) flog2 fpow2 fexp2 K W data wraps m initial inertia patience k ws,
    data_ok K W data ->
    Forall (fun wr => (W <= wr)%nat) wraps ->
    stream_ok ws ->
    match sampler_w flog2 fpow2 fexp2 K W data wraps m initial inertia patience k ws with
    | Ok (cs, t, r) =>
        length t = k /\
        Holds_C16 freq K W data (report_of freq (snd cs)) (obs_of_trace freq t)
    | Panic s => (5 <= s <= 9)%nat
    | Err e => (e = 5 \/ e = 6)%nat
    | OutOfFuel => False
    end.
Proof.
  intros freq flog2 fpow2 fexp2 K W data wraps m initial inertia patience k ws Hd Hw Hs.
  pose proof (sampler_w_holds flog2 fpow2 fexp2 freq K W data wraps m initial inertia patience k ws Hd Hw Hs) as H1.
  pose proof (sampler_w_no_fuel flog2 fpow2 fexp2 K W data wraps m initial inertia patience k ws Hd Hw Hs) as H2.
  pose proof (sampler_w_no_err2 flog2 fpow2 fexp2 K W data wraps m initial inertia patience k ws Hd Hw Hs) as H3.
  destruct (sampler_w flog2 fpow2 fexp2 K W data wraps m initial inertia patience k ws) as [[[cs t] r]|e|s|];
    cbn [allowed_w] in H1; auto.
  destruct H1 as [->|H1]; [congruence|exact H1].
Qed.

(* ------------------------------------------------------------------ pins *)

Check (eq_refl : @allowed_g nat (Err 4) = (4 = 3 \/ 4 = 5)%nat).
Check (eq_refl : @allowed_g nat (Panic 10) = (5 <= 10 <= 9)%nat).
Check ((fun _ _ => eq_refl) : forall fpow2 p,
  ic_of fpow2 p = info_content fpow2 (fst p) (snd p)).
Check (eq_refl : @allowed_g nat OutOfFuel = True).
Check (eq_refl : @allowed_w nat (Err 3) = (3 = 2 \/ 3 = 5 \/ 3 = 6)%nat).
Check (eq_refl : @allowed_w nat (Err 1) = (1 = 2 \/ 1 = 5 \/ 1 = 6)%nat).
Check (eq_refl : @allowed_w nat (Panic 10) = (5 <= 10 <= 9)%nat).
Check (eq_refl : stream_ok = Forall wd_ok).
Check ((fun _ => eq_refl) : forall w,
  wd_ok w = match w with W32 v => (0 <= v < 2 ^ 32)%Z | W64 v => (0 <= v < 2 ^ 64)%Z end).
Check sampler_deterministic :
  forall flog2 fpow2 fexp2 c st k ws t r,
    run_w flog2 fpow2 fexp2 c st k ws = Ok (t, r) ->
    run c st (choices_w flog2 fpow2 fexp2 c st k ws) = Ok t /\
    length t = k /\
    exists used, ws = used ++ r /\
      forall r2, run_w flog2 fpow2 fexp2 c st k (used ++ r2) = Ok (t, r2).
Check sampler_no_panic_oops_stream :
  forall flog2 fpow2 fexp2 K W data wraps initial inertia patience k ws,
    data_ok K W data ->
    Forall (fun s => (W < length s)%nat) data ->
    (2 <= length data)%nat ->
    Forall (fun wr => (W <= wr)%nat) wraps ->
    stream_ok ws ->
    (N.of_nat k <= usize_max)%N ->
    match sampler_w flog2 fpow2 fexp2 K W data wraps Oops initial inertia patience k ws with
    | Ok _ => True
    | Panic s => s = 8%nat
    | Err e => e = 5%nat
    | OutOfFuel => True
    end.

(* ------------------------------------------------------------------ non-vacuity *)

(* word_ok holds at the extremes of u64 and around the 12 discarded bits; it is a real test *)
Example ex_word_ok :
  word_ok 0 = true /\ word_ok 18446744073709551615 = true /\
  word_ok 4095 = true /\ word_ok 4096 = true /\ word_ok (-1) = false.
Proof. vm_compute. repeat split; reflexivity. Qed.

(* weights 1, 0, 2, 0: Uniform::new keeps scale = total = 3, and words spread over u64 only
   ever select the positions 0 and 2 *)
Example ex_weighted_index :
  match wi_new [F64.of_Z 1; F64.zero; F64.of_Z 2; F64.zero] with
  | WOk cum total scale =>
      scale_ok scale &&
      list_eqb Nat.eqb
        (map (fun w => wi_sample cum (uni_sample scale w))
             [0; 6148914691236517205; 6148914691236517206; 9223372036854775808; 18446744073709551615]%Z)
        [0; 0; 0; 2; 2]%nat
  | _ => false
  end = true.
Proof. vm_compute. reflexivity. Qed.

(* all weights zero: WeightedIndex::new fails, the start is kept *)
Example ex_all_zero_keeps :
  wi_new [F64.zero; F64.nzero; F64.zero] = WErr /\ wi_new [] = WErr /\ wi_new [F64.nan] = WErr.
Proof. vm_compute. repeat split; reflexivity. Qed.

(* premises of weights_support_partial are satisfiable: one motif row over K = 3 with a zero
   background count for symbol 1; log2 replaced by a function with log2(0) = -inf, finite
   elsewhere; 2^x by a function that is 1 on finite arguments, 0 elsewhere.  Positions whose
   window has symbol 1 (or the wildcard 2 with count 0) are dead, the draw picks a live one. *)
Definition ex_log2 (x : F32.t) : F32.t := if F32.eq x F32.zero then F32.ninf else x.
Definition ex_exp2 (y : F64.t) : F64.t := if F64.is_finite y then F64.of_Z 1 else F64.zero.

Example ex_support :
  F64.lt F64.zero (ex_exp2 F64.ninf) = false /\ F64.lt F64.zero (ex_exp2 F64.nan) = false /\
  match pssm_of 3 ex_log2 [[2; 1; 0]%N] [4; 0; 1]%N with
  | Ok (_, m) =>
      pssm_shape 3 [4; 0; 1]%N [[2; 1; 0]%N] m &&
      list_eqb Bool.eqb (support 3 1 [4; 0; 1]%N [[2; 1; 0]%N] [0; 1; 0; 2; 0]%nat)
                        [true; false; true; false; true] &&
      match draw ex_exp2 1 m [0; 1; 0; 2; 0]%nat (Some 9223372036854775808%Z) with
      | Ok (UNew p) => Nat.eqb p 2
      | _ => false
      end
  | _ => false
  end = true.
Proof. vm_compute. repeat split; reflexivity. Qed.

(* a float-driven run (sampler_inv_float is not vacuous): Zoops with seeds {0,2} on three
   sequences over K = 3; the words 2^63, 0, 2^64-1 move the hold-out to the middle / first /
   last scored position, the inactive sequence 1 is recruited at its first trial *)
Definition ex_pow2 (x : F32.t) : F32.t := if F32.is_finite x then F32.of_Z 1 else F32.zero.
Definition ex_d3 : list seqt := [[0;1;0;1;1;0];[1;0;0;1;0;1];[0;0;1;1;0;1]]%nat.

Example ex_run_g :
  match new_ 3 2 ex_d3 [2;2;2]%nat Zoops 2 1 5 [0;2;4]%nat [0;2]%nat with
  | Ok (c, st0) =>
      match run_g ex_log2 ex_pow2 ex_exp2 c st0
                  [(0, Some 9223372036854775808%Z); (1, Some 0%Z); (1, Some 18446744073709551615%Z)]%nat with
      | Ok t =>
          list_eqb (list_eqb Nat.eqb) (map (fun x => st_starts (fst x)) t) [[2;2;4];[2;0;4];[2;4;4]]%nat &&
          list_eqb (list_eqb Bool.eqb) (map (fun x => st_active (fst x)) t)
                   [[true;false;true];[true;true;true];[true;true;true]]
      | _ => false
      end
  | _ => false
  end = true.
Proof. vm_compute. reflexivity. Qed.

(* a draw without a generator word is the model error Err 5 (allowed_g) *)
Example ex_run_g_needs_word :
  match new_ 3 2 ex_d3 [2;2;2]%nat Oops 0 0 0 [0;2;4]%nat [] with
  | Ok (c, st0) => run_g ex_log2 ex_pow2 ex_exp2 c st0 [(1, None)]%nat = Err 5
  | _ => False
  end.
Proof. vm_compute. reflexivity. Qed.

(* ------------------------------------------------------------------ the word stream: non-vacuity *)

(* test vectors recorded from rand 0.8.8 through the harness (corpus/C16/panics.txt p3 and p14):
   three sequences of 8, 7, 7 symbols, width 3: the three u64 words below gave the starts 0, 1, 0;
   index::sample(3, 2) consumed three u32 words (the first is rejected) and returned [2; 0] *)
Example ex_starts_w :
  starts_w 3 [[0;1;3;2;2;3;1;0];[2;2;3;0;1;1;0];[3;3;3;2;0;1;0]]%nat
           [W64 1756299670138968556; W64 6502249631844956996; W64 3391345785722231991; W32 7]
  = Ok ([0;1;0]%nat, [W32 7]).
Proof. vm_compute. reflexivity. Qed.

Example ex_index_sample :
  seeds_w 3 2 [W32 1479264693; W32 247412726; W32 375712501; W64 9] = Ok ([2;0]%nat, [W64 9]).
Proof. vm_compute. reflexivity. Qed.

(* the rejection zone of Uniform<usize>: for n = 3 the word (2^64 - 1) / 3 is rejected
   (lo = 2^64 - 1 > zone = 2^64 - 2), the next word is taken; a word of the wrong width or the
   end of the stream is Err 5 *)
Example ex_uniform_rejects :
  uniform_usize 3 [W64 6148914691236517205; W64 12297829382473034411; W64 1] = Ok (2%Z, [W64 1]) /\
  uniform_usize 3 [W32 5] = Err 5 /\ uniform_usize 3 [] = Err 5.
Proof. vm_compute. repeat split; reflexivity. Qed.

(* a run driven by the stream alone (sampler_inv_stream / sampler_deterministic are not vacuous):
   Oops on the three sequences of ex_run_g; three words for the initial starts, then per call
   one word for the hold-out and one for the draw *)
Definition ex_ws : stream :=
  [W64 0; W64 9223372036854775808; W64 18446744073709551615;
   W64 0; W64 9223372036854775808;
   W64 12297829382473034411; W64 0;
   W64 7; W64 18446744073709551615; W32 1].

Example ex_sampler_w :
  match sampler_w ex_log2 ex_pow2 ex_exp2 3 2 ex_d3 [2;2;2]%nat Oops 0 0 0 3 ex_ws with
  | Ok (cs, t, r) =>
      list_eqb Nat.eqb (st_starts (snd cs)) [0;2;4]%nat &&
      list_eqb Nat.eqb (map (fun x => match snd x with Some it => it_z it | None => 99%nat end) t) [0;2;0]%nat &&
      list_eqb (list_eqb Nat.eqb) (map (fun x => st_starts (fst x)) t) [[2;2;4];[2;2;0];[4;2;0]]%nat &&
      match r with [W32 1] => true | _ => false end
  | _ => false
  end = true.
Proof. vm_compute. reflexivity. Qed.

Example ex_stream_ok : stream_ok ex_ws.
Proof. unfold stream_ok, ex_ws. repeat constructor; cbn; lia. Qed.

(* "no panic for any word stream" without the exception is false: with a 2^x whose values are
   +inf (what 2f64.powf returns for x >= 1024) the premises of sampler_no_panic_oops_stream
   hold and the first call panics at site 8 *)
Definition ex_exp2_inf (y : F64.t) : F64.t := F64.inf.

Theorem sampler_no_panic_oops_unconditional_refuted :
  exists flog2 fpow2 fexp2 K W data wraps k ws,
    data_ok K W data /\ Forall (fun s => (W < length s)%nat) data /\ (2 <= length data)%nat /\
    Forall (fun wr => (W <= wr)%nat) wraps /\ stream_ok ws /\ (N.of_nat k <= usize_max)%N /\
    sampler_w flog2 fpow2 fexp2 K W data wraps Oops 0 0 0 k ws = Panic 8.
Proof.
  exists ex_log2, ex_pow2, ex_exp2_inf, 3%nat, 2%nat, ex_d3, [2;2;2]%nat, 1%nat, ex_ws.
  split. { unfold data_ok, ex_d3. repeat split; try (repeat constructor); vm_compute; discriminate. }
  split; [repeat constructor|]. split; [cbn; lia|]. split; [repeat constructor|].
  split; [exact ex_stream_ok|]. split; [vm_compute; discriminate|]. vm_compute. reflexivity.
Qed.
