(* Types of the structured reading of lightmotif/src/sampler.rs produced by
   translate/sampler_skel.py (GenSampler.v).  Types only: no functions, no proofs.
   The interpreter and the theorems are in SamplerSkel.v. *)
From Coq Require Import List ZArith String Bool.

(* `+=` / `-=` *)
Inductive aop := OpAdd | OpSub.

(* comparison operators of the source *)
Inductive cmp := CLt | CLe | CGt | CGe | CEq | CNe.

(* One statement inside the guard of include_sequence / exclude_sequence, or inside
   `if active.test(i) { .. }` of the construction loops of _new.

   SMotifWin lo len pos row op n :
     for (i, j) in (start+lo .. start+lo + width+len).enumerate()
       { motif[MatrixCoordinates::new(i+row, seq[j+pos].as_index())] op= n }
   SBgWin lo len pos op n :
     for j in start+lo .. start+lo + width+len { background_counts[seq[j+pos].as_index()] op= n }
   SSymLoop lo hi tab cnt op :
     for k in lo .. A::K::USIZE+hi { background_counts[k+tab] op= counts[k+cnt] }
   SActiveSet / SActiveUnset :  self.active.set(z) / self.active.unset(z) *)
Inductive stmt :=
| SMotifWin (lo_off len_off pos_off row_off : Z) (op : aop) (amount : Z)
| SBgWin (lo_off len_off pos_off : Z) (op : aop) (amount : Z)
| SSymLoop (lo hi_off tab_off cnt_off : Z) (op : aop)
| SActiveSet
| SActiveUnset.

(* include_sequence / exclude_sequence:
     let seq = &sequences[z]; let start = self.starts[z]; let counts = &self.data.counts[z];
     if [!]self.active.test(z) { body }
   the four flags say that the index / argument is the parameter z *)
Record guarded := mkGuarded {
  g_seq_by_z : bool;
  g_start_by_z : bool;
  g_counts_by_z : bool;
  g_test_by_z : bool;
  g_negated : bool;          (* true: `if !self.active.test(z)` *)
  g_body : list stmt
}.

(* a construction loop of _new:
     for (i, seq) in data.sequences.as_ref().iter().enumerate() {
         if [!]active.test(i) { let start = starts[i]; [let counts = &data.counts[i];] body } } *)
Record ctor_loop := mkCtorLoop {
  cl_test_by_i : bool;
  cl_negated : bool;
  cl_start_by_i : bool;
  cl_counts_by_i : bool;     (* true also when the body has no `counts` binding *)
  cl_body : list stmt
}.

(* _new: `if data.sequences.as_ref().iter().any(|x| x.wrap() CMP width+off) { panic!(..) }` *)
Record wrap_guard := mkWrapGuard { wg_cmp : cmp; wg_width_off : Z; wg_panics : bool }.

(* _new: rng.sample(Uniform::new(lo, seq.len() - width + hi_off)) *)
Record start_dist := mkStartDist { sd_lo : Z; sd_hi_off : Z }.

(* _new: the literal field values of `Self { .. }` and the initial tables *)
Record new_fields := mkNewFields {
  nf_temperature_text : string;
  nf_temperature_bits : Z;        (* binary64 bit pattern of the literal *)
  nf_step : Z;
  nf_last_inclusion : Z;
  nf_converged : bool;
  nf_motif_rows_is_width : bool;  (* let mut motif = DenseMatrix::new(width) *)
  nf_bg_is_default : bool         (* let mut background_counts = GenericArray::default() *)
}.

(* prepare_pssm *)
Record prepare := mkPrepare {
  pp_pseudo_text : string;
  pp_pseudo_bits : Z;             (* binary32 bit pattern of the literal of to_freq(..) *)
  pp_bg_is_background : bool;     (* into_scoring(b) with let b = self.background() *)
  pp_counts_is_count_matrix : bool; (* c.to_freq(..) with let c = self.count_matrix() *)
  pp_returns_counts_pssm : bool   (* the value is (c, pssm) *)
}.

(* update_holdout *)
Record update := mkUpdate {
  up_score_seq_by_z : bool;       (* score_into(&pssm, &self.data.sequences.as_ref()[z], &mut self.scores) *)
  up_base_text : string;          (* "2f64" *)
  up_base : Z;                    (* 2 *)
  up_fn : string;                 (* "powf" *)
  up_exp_num : string;            (* "x as f64" (closure variable renamed to x) *)
  up_exp_op : string;             (* "/" *)
  up_exp_den : string;            (* "self.temperature" *)
  up_weighted_index_of_weights : bool;  (* WeightedIndex::new(weights) *)
  up_guard_if_let_ok : bool;      (* if let Ok(dist) = .. *)
  up_assign_starts_by_z : bool;   (* self.starts[z] = dist.sample(&mut self.rng) *)
  up_temperature_writes : nat     (* assignments to self.temperature in the methods read here *)
}.

(* select_holdout *)
Record select := mkSelect {
  se_zoops_guard_lhs : string;    (* "self.step" *)
  se_zoops_guard_cmp : cmp;
  se_zoops_guard_rhs : string;    (* "self.inertia" *)
  se_zoops_seed_choose : bool;    (* *self.seed.choose(&mut self.rng).unwrap() *)
  se_uniform_lo : Z;
  se_uniform_hi : string          (* "self.starts.len()" *)
}.

(* Iterator::next *)
Inductive pssm_id := PMain | PNew.   (* `pssm` of step 2 / `newpssm` of the Zoops test *)

Inductive ncall :=
| NIfConvergedReturnNone                 (* if self.converged { return None; } *)
| NSelectHoldout                         (* let z = self.select_holdout(); *)
| NActiveTest                            (* let active = self.active.test(z); *)
| NExclude                               (* self.exclude_sequence(z); *)
| NPreparePssm (p : pssm_id)             (* let (cm, pssm) = .. / let (_, newpssm) = self.prepare_pssm(); *)
| NUpdateHoldout (p : pssm_id)           (* self.update_holdout(z, &pssm); *)
| NInclude                               (* self.include_sequence(z); *)
| NIfZoopsInactive (body : list ncall)   (* if self.mode == SamplerMode::Zoops && !active { body } *)
| NIfInfo (lhs : pssm_id) (c : cmp) (rhs : pssm_id) (then_ else_ : list ncall)
                                         (* if L.information_content() c R.information_content() {..} else {..} *)
| NSetLastInclusion                      (* self.last_inclusion = self.step; *)
| NIfPatience (c : cmp) (body : list ncall)
                                         (* if self.step - self.last_inclusion c self.patience { body } *)
| NSetConverged (b : bool)               (* self.converged = b; *)
| NStepAdd (n : Z)                       (* self.step += n; *)
| NYield (p : pssm_id) (counts_is_cm z_is_z : bool) (step_off : Z).
                                         (* Some(Iteration { pssm, counts: cm, z, step: self.step + step_off, .. }) *)
