(* The invariant of the sampler state and its preservation by exclude_sequence,
   update_holdout, include_sequence, next, _new and run. *)
From Coq Require Import List Arith Bool NArith Lia.
From LMBase Require Import Res ListX.
From LMSampler Require Import SamplerModel SamplerLemmas SamplerOps SamplerSpec.
Import ListNotations.
Local Open Scope N_scope.

(* the incrementally maintained summary equals the recomputation from the alignment *)
Record CInv (c : cfg) (st : state) : Prop := mkCInv {
  ci_act_len : length (st_active st) = length (cData c);
  ci_range : starts_in_range (cW c) (cData c) (st_starts st) = true;
  ci_motif : st_motif st = recompute_motif (cK c) (cW c) (cData c) (st_active st) (st_starts st);
  ci_bg : st_bg st = recompute_bg (cK c) (cW c) (cData c) (st_active st) (st_starts st);
  ci_count : st_count st = count_true (st_active st)
}.

(* invariant at the boundaries of next(): Oops keeps every sequence active *)
Record Inv (c : cfg) (st : state) : Prop := mkInv {
  inv_core : CInv c st;
  inv_last : st_last st <= st_step st;
  inv_oops : cMode c = Oops ->
             forall i, (i < length (cData c))%nat -> nth i (st_active st) false = true
}.

Lemma u32_le_usize : u32_max <= usize_max.
Proof. unfold u32_max, usize_max. lia. Qed.

Lemma ci_starts_len c st : CInv c st -> length (st_starts st) = length (cData c).
Proof. intros H. apply (proj1 (proj1 (starts_in_range_spec _ _ _) (ci_range c st H))). Qed.

Lemma upd_upd {A} (l : list A) z v v' : upd z v (upd z v' l) = upd z v l.
Proof.
  revert z; induction l as [|a l IH]; intros [|z]; simpl; auto. f_equal. apply IH.
Qed.

Lemma upd_id {A} (l : list A) z v d : (z < length l)%nat -> nth z l d = v -> upd z v l = l.
Proof. intros Hz <-. apply upd_same; auto. Qed.

Lemma fetch_ok c st z :
  WF c -> CInv c st -> (z < length (cData c))%nat ->
  fetch c st z = Ok (nth z (cData c) [], nth z (st_starts st) O, nth z (cCounts c) []).
Proof.
  intros Hwf Hi Hz. unfold fetch.
  assert (E1 : (z <? length (cData c))%nat = true) by (apply Nat.ltb_lt; auto).
  assert (E2 : (z <? length (st_starts st))%nat = true)
    by (apply Nat.ltb_lt; rewrite (ci_starts_len c st Hi); auto).
  assert (E3 : (z <? length (cCounts c))%nat = true).
  { apply Nat.ltb_lt. rewrite (wf_counts c Hwf). unfold sampler_data_counts. rewrite map_length. auto. }
  rewrite E1, E2, E3. reflexivity.
Qed.

Lemma bv_test_ok a z : (z < length a)%nat -> bv_test a z = Ok (nth z a false).
Proof. intros H. unfold bv_test. apply Nat.ltb_lt in H. rewrite H. reflexivity. Qed.

Lemma bv_test_inv a z b : bv_test a z = Ok b -> (z < length a)%nat /\ b = nth z a false.
Proof.
  unfold bv_test. destruct (Nat.ltb_spec z (length a)) as [Hl|Hl]; intros E; inversion E; auto.
Qed.

(* what exclude / include / update leave untouched *)
Definition same_ctl (st st' : state) : Prop :=
  st_step st' = st_step st /\ st_last st' = st_last st /\ st_conv st' = st_conv st.

Lemma same_ctl_refl st : same_ctl st st.
Proof. repeat split. Qed.

Lemma same_ctl_trans a b d : same_ctl a b -> same_ctl b d -> same_ctl a d.
Proof. unfold same_ctl. intros [? [? ?]] [? [? ?]]. repeat split; congruence. Qed.

(* ---------- exclude_sequence ---------- *)

Lemma exclude_ok c st z :
  WF c -> CInv c st -> (z < length (cData c))%nat ->
  exists st1, exclude_sequence c st z = Ok st1 /\ CInv c st1 /\
    st_active st1 = upd z false (st_active st) /\ st_starts st1 = st_starts st /\ same_ctl st st1.
Proof.
  intros Hwf Hi Hz. unfold exclude_sequence.
  rewrite (fetch_ok c st z Hwf Hi Hz). cbn [rbind].
  assert (Hza : (z < length (st_active st))%nat) by (rewrite (ci_act_len c st Hi); auto).
  rewrite (bv_test_ok _ _ Hza). cbn [rbind].
  destruct (nth z (st_active st) false) eqn:Ha.
  - rewrite (ci_motif c st Hi).
    rewrite (motif_exclude c Hwf _ _ z Hz (ci_act_len c st Hi) (ci_range c st Hi) Ha). cbn [rbind].
    rewrite (ci_bg c st Hi).
    destruct (rbind_ok _ _ _ (bg_exclude c Hwf _ _ z Hz (ci_act_len c st Hi) (ci_range c st Hi) Ha))
      as [b1 [E1 E2]].
    rewrite E1. cbn [rbind]. rewrite E2. cbn [rbind].
    unfold bv_unset. apply Nat.ltb_lt in Hza. rewrite Hza, Ha. apply Nat.ltb_lt in Hza.
    pose proof (count_true_flip (st_active st) z Hza false) as Hc. rewrite Ha in Hc. simpl ind in Hc.
    assert (E3 : (1 <=? st_count st) = true) by (apply N.leb_le; rewrite (ci_count c st Hi); lia).
    rewrite E3. cbn [rbind fst snd].
    eexists. split; [reflexivity|]. split; [|repeat split].
    constructor; cbn [set_active set_counts st_active st_starts st_motif st_bg st_count].
    + rewrite upd_length. apply (ci_act_len c st Hi).
    + apply (ci_range c st Hi).
    + reflexivity.
    + reflexivity.
    + rewrite (ci_count c st Hi). lia.
  - exists st. split; [reflexivity|]. split; auto. split; [|split; [reflexivity|apply same_ctl_refl]].
    symmetry. apply (upd_id _ _ _ false); auto.
Qed.

(* ---------- include_sequence ---------- *)

Lemma include_ok c st z :
  WF c -> CInv c st -> (z < length (cData c))%nat ->
  exists st1, include_sequence c st z = Ok st1 /\ CInv c st1 /\
    st_active st1 = upd z true (st_active st) /\ st_starts st1 = st_starts st /\ same_ctl st st1.
Proof.
  intros Hwf Hi Hz. unfold include_sequence.
  rewrite (fetch_ok c st z Hwf Hi Hz). cbn [rbind].
  assert (Hza : (z < length (st_active st))%nat) by (rewrite (ci_act_len c st Hi); auto).
  rewrite (bv_test_ok _ _ Hza). cbn [rbind].
  destruct (nth z (st_active st) false) eqn:Ha.
  - exists st. split; [reflexivity|]. split; auto. split; [|split; [reflexivity|apply same_ctl_refl]].
    symmetry. apply (upd_id _ _ _ false); auto.
  - rewrite (ci_motif c st Hi).
    rewrite (motif_include c Hwf _ _ z Hz (ci_act_len c st Hi) (ci_range c st Hi) Ha). cbn [rbind].
    rewrite (ci_bg c st Hi).
    destruct (rbind_ok _ _ _ (bg_include c Hwf _ _ z Hz (ci_act_len c st Hi) (ci_range c st Hi) Ha))
      as [b1 [E1 E2]].
    rewrite E1. cbn [rbind]. rewrite E2. cbn [rbind].
    unfold bv_set. apply Nat.ltb_lt in Hza. rewrite Hza, Ha. apply Nat.ltb_lt in Hza.
    pose proof (count_true_flip (st_active st) z Hza true) as Hc. rewrite Ha in Hc. simpl ind in Hc.
    pose proof (count_true_le (upd z true (st_active st))) as Hb. rewrite upd_length in Hb.
    rewrite (ci_act_len c st Hi) in Hb. pose proof (wf_n c Hwf). pose proof u32_le_usize.
    unfold add_usize.
    assert (E3 : (st_count st + 1 <=? usize_max) = true) by (apply N.leb_le; rewrite (ci_count c st Hi); lia).
    rewrite E3. cbn [rbind fst snd].
    eexists. split; [reflexivity|]. split; [|repeat split].
    constructor; cbn [set_active set_counts st_active st_starts st_motif st_bg st_count].
    + rewrite upd_length. apply (ci_act_len c st Hi).
    + apply (ci_range c st Hi).
    + reflexivity.
    + reflexivity.
    + rewrite (ci_count c st Hi). lia.
Qed.

(* ---------- update_holdout ---------- *)

Lemma recompute_motif_move K W data act starts z s :
  nth z act false = false ->
  recompute_motif K W data act (upd z s starts) = recompute_motif K W data act starts.
Proof.
  intros Ha. rewrite !recompute_motif_mtab. apply mtab_ext. intros j k _ _.
  apply spec_motif_move; auto.
Qed.

Lemma recompute_bg_move K W data act starts z s :
  nth z act false = false ->
  recompute_bg K W data act (upd z s starts) = recompute_bg K W data act starts.
Proof.
  intros Ha. rewrite !recompute_bg_vtab. apply vtab_ext. intros k _.
  apply spec_bg_move; auto.
Qed.

Lemma update_ok c st z u st2 :
  CInv c st -> nth z (st_active st) false = false ->
  update_holdout c st z u = Ok st2 ->
  CInv c st2 /\ st_active st2 = st_active st /\ same_ctl st st2 /\
  (st_starts st2 = st_starts st \/ exists s, st_starts st2 = upd z s (st_starts st)).
Proof.
  intros Hi Ha. unfold update_holdout. destruct u as [|s|]; try discriminate.
  - intros H. inversion H; subst. split; [exact Hi|]. repeat split; auto.
  - destruct ((z <? length (cData c))%nat && (s + cW c <=? length (nth z (cData c) []))%nat)%bool eqn:E;
      try discriminate.
    destruct (Nat.ltb_spec z (length (st_starts st))) as [Hzs|]; try discriminate.
    intros H. inversion H; subst; clear H.
    apply andb_true_iff in E. destruct E as [Ez Es]. apply Nat.ltb_lt in Ez. apply Nat.leb_le in Es.
    split; [|repeat split; auto; right; exists s; reflexivity].
    constructor; cbn [set_starts st_active st_starts st_motif st_bg st_count].
    + apply (ci_act_len c st Hi).
    + pose proof (proj1 (starts_in_range_spec _ _ _) (ci_range c st Hi)) as [Hl Hr].
      apply starts_in_range_spec. split; [rewrite upd_length; auto|].
      intros i Hi'. rewrite nth_upd.
      destruct (Nat.eqb_spec z i) as [<-|Hne]; [|apply Hr; auto].
      apply Nat.ltb_lt in Hzs. rewrite Hzs. auto.
    + rewrite recompute_motif_move by auto. apply (ci_motif c st Hi).
    + rewrite recompute_bg_move by auto. apply (ci_bg c st Hi).
    + apply (ci_count c st Hi).
Qed.

(* ---------- resample: exclude, prepare, update, include ---------- *)

Lemma resample_ok c st z u cm st3 :
  WF c -> CInv c st -> (z < length (cData c))%nat ->
  resample c st z u = Ok (cm, st3) ->
  CInv c st3 /\
  st_active st3 = upd z true (st_active st) /\
  same_ctl st st3 /\
  (st_starts st3 = st_starts st \/ exists s, st_starts st3 = upd z s (st_starts st)) /\
  fst cm = recompute_motif (cK c) (cW c) (cData c) (upd z false (st_active st)) (st_starts st) /\
  snd cm = count_true (upd z false (st_active st)).
Proof.
  intros Hwf Hi Hz. unfold resample.
  destruct (exclude_ok c st z Hwf Hi Hz) as [st1 [E1 [Hi1 [Ha1 [Hs1 Hc1]]]]].
  rewrite E1. cbn [rbind].
  unfold prepare_pssm. destruct (bg_total (st_bg st1)) as [t| | |]; cbn [rbind]; try discriminate.
  destruct (update_holdout c st1 z u) as [st2| | |] eqn:E2; cbn [rbind]; try discriminate.
  assert (Hz1 : nth z (st_active st1) false = false).
  { rewrite Ha1. apply nth_upd_same. rewrite (ci_act_len c st Hi). auto. }
  destruct (update_ok c st1 z u st2 Hi1 Hz1 E2) as [Hi2 [Ha2 [Hc2 Hs2]]].
  destruct (include_ok c st2 z Hwf Hi2 Hz) as [st3' [E3 [Hi3 [Ha3 [Hs3 Hc3]]]]].
  rewrite E3. cbn [rbind]. intros H. inversion H; subst; clear H.
  cbn [fst snd]. split; auto. split; [|split; [|split; [|split]]].
  - rewrite Ha3, Ha2, Ha1. apply upd_upd.
  - eapply same_ctl_trans; [exact Hc1|]. eapply same_ctl_trans; [exact Hc2|exact Hc3].
  - rewrite Hs3. rewrite <- Hs1. exact Hs2.
  - rewrite (ci_motif c st1 Hi1), Ha1, Hs1. reflexivity.
  - rewrite (ci_count c st1 Hi1), Ha1. reflexivity.
Qed.

(* ---------- the Zoops test ---------- *)

Lemma zoops_test_ok c st3 z accept st4 :
  WF c -> CInv c st3 -> (z < length (cData c))%nat ->
  zoops_test c st3 z accept = Ok st4 ->
  CInv c st4 /\ st_step st4 = st_step st3 /\ st_starts st4 = st_starts st3 /\
  (st_last st3 <= st_step st3 -> st_last st4 <= st_step st4) /\
  (st_active st4 = st_active st3 \/ st_active st4 = upd z false (st_active st3)).
Proof.
  intros Hwf Hi Hz. unfold zoops_test.
  unfold prepare_pssm. destruct (bg_total (st_bg st3)) as [t| | |]; cbn [rbind]; try discriminate.
  destruct accept.
  - cbn [rbind st_step st_last]. unfold sub_usize. rewrite N.leb_refl. cbn [rbind].
    intros H. inversion H; subst; clear H.
    destruct (cPatience c <? st_step st3 - st_step st3);
      cbn [st_active st_starts st_step st_last]; (split; [destruct Hi; constructor; auto|]);
      repeat split; auto; lia.
  - destruct (exclude_ok c st3 z Hwf Hi Hz) as [st' [E1 [Hi' [Ha' [Hs' [Hc1 [Hc2 Hc3]]]]]]].
    rewrite E1. cbn [rbind].
    destruct (sub_usize (st_step st') (st_last st')) as [d| | |]; cbn [rbind]; try discriminate.
    intros H. inversion H; subst; clear H.
    destruct (cPatience c <? d);
      cbn [st_active st_starts st_step st_last]; (split; [destruct Hi'; constructor; auto|]);
      repeat split; auto; try lia; congruence.
Qed.

(* ---------- next ---------- *)

(* what one call of next() guarantees about the state it leaves and the iteration it yields *)
Definition next_post (c : cfg) (st st' : state) (oit : option iteration) : Prop :=
  match oit with
  | None => st' = st /\ st_conv st = true
  | Some it =>
      st_conv st = false /\
      (it_z it < length (cData c))%nat /\
      it_step it = st_step st /\ st_step st' = st_step st + 1 /\
      it_counts it = recompute_motif (cK c) (cW c) (cData c)
                       (upd (it_z it) false (st_active st)) (st_starts st) /\
      it_counts it = recompute_motif (cK c) (cW c) (cData c)
                       (upd (it_z it) false (st_active st')) (st_starts st') /\
      it_n it = count_true (upd (it_z it) false (st_active st)) /\
      (forall i, i <> it_z it ->
         nth i (st_active st') false = nth i (st_active st) false /\
         nth i (st_starts st') O = nth i (st_starts st) O) /\
      (nth (it_z it) (st_active st) false = true -> nth (it_z it) (st_active st') false = true)
  end.

Lemma CInv_fields c st st' :
  CInv c st ->
  st_active st' = st_active st -> st_starts st' = st_starts st -> st_motif st' = st_motif st ->
  st_bg st' = st_bg st -> st_count st' = st_count st -> CInv c st'.
Proof.
  intros [H1 H2 H3 H4 H5] Ea Es Em Eb Ec. constructor; rewrite ?Ea, ?Es, ?Em, ?Eb, ?Ec; auto.
Qed.

Lemma starts_other (starts starts' : list nat) z i :
  (starts' = starts \/ exists s, starts' = upd z s starts) -> i <> z -> nth i starts' O = nth i starts O.
Proof.
  intros [->|[s ->]] Hne; auto. apply nth_upd_other. auto.
Qed.

Lemma recompute_motif_starts K W data act starts starts' z :
  (z < length act)%nat ->
  (starts' = starts \/ exists s, starts' = upd z s starts) ->
  recompute_motif K W data (upd z false act) starts' = recompute_motif K W data (upd z false act) starts.
Proof.
  intros Hz [->|[s ->]]; auto. apply recompute_motif_move. apply nth_upd_same; auto.
Qed.

Theorem next_inv c st ch st' oit :
  WF c -> Inv c st -> next c st ch = Ok (st', oit) -> Inv c st' /\ next_post c st st' oit.
Proof.
  intros Hwf [Hi Hlast Hoops]. unfold next.
  destruct (st_conv st) eqn:Econv.
  { intros H. inversion H; subst. split; [constructor; auto|]. simpl. auto. }
  destruct (select_holdout c st (ch_z ch)) as [z| | |]; cbn [rbind]; try discriminate.
  destruct (bv_test (st_active st) z) as [a| | |] eqn:Ea; cbn [rbind]; try discriminate.
  apply bv_test_inv in Ea. destruct Ea as [Hza Ea].
  assert (Hz : (z < length (cData c))%nat) by (rewrite <- (ci_act_len c st Hi); auto).
  destruct (resample c st z (ch_upd ch)) as [[cm st3]| | |] eqn:Er; cbn [rbind]; try discriminate.
  destruct (resample_ok c st z (ch_upd ch) cm st3 Hwf Hi Hz Er) as [Hi3 [Ha3 [[Hc1 [Hc2 Hc3]] [Hs3 [Hcm1 Hcm2]]]]].
  cbn [fst snd].
  (* the state after the optional Zoops test *)
  assert (Hcase : forall st4,
    (match cMode c, a with
     | Zoops, false => zoops_test c st3 z (ch_accept ch)
     | _, _ => Ok st3
     end) = Ok st4 ->
    CInv c st4 /\ st_step st4 = st_step st /\ st_starts st4 = st_starts st3 /\
    st_last st4 <= st_step st4 /\
    (st_active st4 = st_active st3 \/ (a = false /\ cMode c = Zoops /\ st_active st4 = upd z false (st_active st3)))).
  { intros st4 H4.
    destruct (cMode c) eqn:Em, a eqn:Eaa.
    1-3: inversion H4; subst st4; (split; [exact Hi3|]); (split; [exact Hc1|]);
         (split; [reflexivity|]); (split; [rewrite Hc1, Hc2; exact Hlast|]); left; reflexivity.
    destruct (zoops_test_ok c st3 z (ch_accept ch) st4 Hwf Hi3 Hz H4) as [Hi4 [Hst [Hss [Hl Hact]]]].
    split; auto. split; [congruence|]. split; auto. split; [apply Hl; rewrite Hc1, Hc2; auto|].
    destruct Hact; auto. }
  destruct (match cMode c, a with
            | Zoops, false => zoops_test c st3 z (ch_accept ch)
            | _, _ => Ok st3
            end) as [st4| | |] eqn:E4; cbn [rbind]; try discriminate.
  destruct (Hcase st4 eq_refl) as [Hi4 [Hst4 [Hss4 [Hl4 Hact4]]]]. clear Hcase.
  destruct (N.leb_spec (st_step st4 + 1) usize_max) as [Hstep|Hstep]; try discriminate.
  intros Hfin. inversion Hfin; subst st' oit; clear Hfin.
  assert (Hact' : upd z false (st_active st4) = upd z false (st_active st)).
  { destruct Hact4 as [->|[_ [_ ->]]]; rewrite Ha3, ?upd_upd; reflexivity. }
  split.
  - constructor; cbn [st_active st_starts st_motif st_bg st_count st_step st_last].
    + eapply CInv_fields; [exact Hi4|..]; reflexivity.
    + lia.
    + intros Em i Hi'. destruct Hact4 as [->|[_ [Em' _]]]; [|congruence].
      rewrite Ha3, nth_upd. destruct (Nat.eqb_spec z i) as [<-|Hne].
      * apply Nat.ltb_lt in Hza. rewrite Hza. reflexivity.
      * apply Hoops; auto.
  - cbn [next_post it_z it_step it_counts it_n st_active st_starts st_step].
    split; [exact Econv|]. split; [exact Hz|]. split; [exact Hst4|]. split; [rewrite Hst4; reflexivity|].
    split; [exact Hcm1|]. split; [|split; [exact Hcm2|split]].
    + rewrite Hact', Hss4, Hcm1. symmetry. apply recompute_motif_starts; auto.
    + intros i Hne. split.
      * destruct Hact4 as [->|[_ [_ ->]]]; rewrite Ha3, ?nth_upd_other by auto; reflexivity.
      * rewrite Hss4. apply (starts_other _ _ z); auto.
    + intros Hzt. rewrite <- Ea in Hzt. subst a.
      destruct Hact4 as [->|[Hf _]]; [|congruence]. rewrite Ha3. apply nth_upd_same; auto.
Qed.

(* ---------- Sampler::_new ---------- *)

Lemma sumN_const c n : sumN (fun _ => c) n = c * N.of_nat n.
Proof. induction n as [|n IH]; simpl sumN; [lia|]. rewrite IH. lia. Qed.

Lemma count_true_repeat_true n : count_true (repeat true n) = N.of_nat n.
Proof.
  unfold count_true. rewrite repeat_length.
  rewrite (sumN_ext _ (fun _ => 1)); [rewrite sumN_const; lia|].
  intros i Hi. rewrite nth_repeat_lt by auto. reflexivity.
Qed.

Lemma count_true_repeat_false n : count_true (repeat false n) = 0.
Proof.
  unfold count_true. rewrite repeat_length. apply sumN_zero.
  intros i Hi. rewrite nth_repeat_lt by auto. reflexivity.
Qed.

Lemma existsb_false_Forall {A} (f : A -> bool) l :
  existsb f l = false -> Forall (fun x => f x = false) l.
Proof.
  induction l as [|a l IH]; simpl; intros H; constructor.
  - destruct (f a); auto; discriminate.
  - apply IH. destruct (f a); auto; discriminate.
Qed.

Lemma Forall_existsb_false {A} (f : A -> bool) l :
  Forall (fun x => f x = false) l -> existsb f l = false.
Proof. induction 1 as [|a l Ha _ IH]; simpl; auto. rewrite Ha, IH. reflexivity. Qed.

Lemma set_seeds_ok n seeds :
  N.of_nat n <= u32_max ->
  forall a cnt, length a = n -> cnt = count_true a ->
    Forall (fun i => (i < n)%nat) seeds ->
    exists a' cnt', set_seeds a cnt seeds = Ok (a', cnt') /\ length a' = n /\ cnt' = count_true a' /\
      (forall i, nth i a' false = (nth i a false || existsb (Nat.eqb i) seeds)%bool).
Proof.
  intros Hn. induction seeds as [|s seeds IH]; intros a cnt Hl Hc Hs.
  - exists a, cnt. simpl. repeat split; auto. intros i. rewrite orb_false_r. reflexivity.
  - inversion Hs as [|? ? Hs1 Hs2]; subst. simpl set_seeds. unfold bv_set.
    assert (E1 : (s <? length a)%nat = true) by (apply Nat.ltb_lt; lia). rewrite E1.
    destruct (nth s a false) eqn:Ha; cbn [rbind fst snd].
    + destruct (IH a (count_true a) eq_refl eq_refl Hs2) as [a' [cnt' [E [Hl' [Hc' Hb]]]]].
      exists a', cnt'. repeat split; auto. intros i. rewrite Hb. simpl existsb.
      destruct (Nat.eqb_spec i s) as [->|]; [rewrite Ha; reflexivity|reflexivity].
    + pose proof (count_true_flip a s ltac:(lia) true) as Hf. rewrite Ha in Hf. simpl ind in Hf.
      pose proof (count_true_le (upd s true a)) as Hb. rewrite upd_length in Hb.
      pose proof u32_le_usize. unfold add_usize.
      assert (E2 : (count_true a + 1 <=? usize_max) = true) by (apply N.leb_le; lia). rewrite E2.
      cbn [rbind fst snd].
      destruct (IH (upd s true a) (count_true a + 1)) as [a' [cnt' [E [Hl' [Hc' Hb']]]]]; auto.
      * rewrite upd_length. reflexivity.
      * lia.
      * exists a', cnt'. repeat split; auto. intros i. rewrite Hb'. simpl existsb. rewrite nth_upd.
        rewrite (Nat.eqb_sym i s).
        destruct (Nat.eqb_spec s i) as [<-|]; [rewrite E1, Ha; reflexivity|reflexivity].
Qed.

Lemma zero_matrix_shape W K : shape (zero_matrix W K) W K.
Proof.
  unfold zero_matrix, shape. split; [apply repeat_length|].
  intros j Hj. rewrite nth_repeat_lt by auto. apply repeat_length.
Qed.

Lemma zero_matrix_cell W K j k : mcell (zero_matrix W K) j k = 0.
Proof.
  unfold mcell, zero_matrix.
  destruct (Nat.ltb_spec j W).
  - rewrite nth_repeat_lt by auto. destruct (Nat.ltb_spec k K).
    + apply nth_repeat_lt; auto.
    + apply nth_overflow. rewrite repeat_length. auto.
  - rewrite (nth_overflow (repeat (repeat 0 K) W)) by (rewrite repeat_length; auto). destruct k; reflexivity.
Qed.

(* the two construction loops of _new, for any active set *)
Section NewLoops.
  Variable c : cfg.
  Hypothesis Hwf : WF c.
  Variable act : list bool.
  Variable starts : list nat.
  Hypothesis Hla : length act = length (cData c).
  Hypothesis Hr : starts_in_range (cW c) (cData c) starts = true.

  Lemma new_motif_loop :
    loop (fun i mo =>
            a <- bv_test act i ;;
            if a then motif_window c inc_u32 (nth i (cData c) []) (nth i starts O) mo else Ok mo)
         (seq 0 (length (cData c))) (zero_matrix (cW c) (cK c))
    = Ok (recompute_motif (cK c) (cW c) (cData c) act starts).
  Proof.
    set (P := fun (t : nat) (mo : matrix) =>
      shape mo (cW c) (cK c) /\
      forall j k, (j < cW c)%nat -> (k < cK c)%nat ->
        mcell mo j k = sumN (contrib_motif (cData c) act starts j k) t).
    destruct (loop_seq_inv
      (fun i mo => a <- bv_test act i ;;
                   if a then motif_window c inc_u32 (nth i (cData c) []) (nth i starts O) mo else Ok mo)
      P (length (cData c)) O (zero_matrix (cW c) (cK c))) as [mo [E [Hsh Hc]]].
    - split; [apply zero_matrix_shape|]. intros j k _ _. apply zero_matrix_cell.
    - intros t mo Ht [Hsh Hc]. rewrite bv_test_ok by lia. cbn [rbind].
      destruct (nth t act false) eqn:Ha.
      + destruct (motif_window_inc c (nth t (cData c) []) (nth t starts O) mo Hsh) as [m' [E [Hsh' Hc']]].
        * apply (proj2 (proj1 (starts_in_range_spec _ _ _) Hr)). lia.
        * apply Forall_nth_lt; [apply (wf_syms c Hwf)|lia].
        * intros j k Hj Hk. rewrite Hc by auto.
          assert (Hs : sumN (contrib_motif (cData c) act starts j k) t
                       + win_cell (nth t (cData c) []) (nth t starts O) j k
                       = sumN (contrib_motif (cData c) act starts j k) (S t)).
          { simpl sumN. unfold contrib_motif at 3. rewrite Ha. reflexivity. }
          rewrite Hs. etransitivity; [apply (sumN_mono _ (S t) (length (cData c))); lia|].
          etransitivity; [apply spec_motif_le|apply (wf_n c Hwf)].
        * exists m'. split; auto. split; auto. intros j k Hj Hk. rewrite Hc', Hc by auto.
          simpl sumN. unfold contrib_motif at 3. rewrite Ha. reflexivity.
      + exists mo. split; auto. split; auto. intros j k Hj Hk. rewrite Hc by auto.
        simpl sumN. unfold contrib_motif at 3. rewrite Ha. lia.
    - rewrite E. f_equal. rewrite recompute_motif_mtab. apply mtab_ext_eq; auto.
  Qed.

  Lemma new_bg_loop :
    loop (fun i bg =>
            a <- bv_test act i ;;
            if a then
              b1 <- bg_counts c add_usize (nth i (cCounts c) []) bg ;;
              bg_window c dec1 (nth i (cData c) []) (nth i starts O) b1
            else Ok bg)
         (seq 0 (length (cData c))) (repeat 0 (cK c))
    = Ok (recompute_bg (cK c) (cW c) (cData c) act starts).
  Proof.
    set (P := fun (t : nat) (bg : list N) =>
      length bg = cK c /\
      forall k, (k < cK c)%nat -> nth k bg 0 = sumN (contrib_bg (cW c) (cData c) act starts k) t).
    destruct (loop_seq_inv
      (fun i bg => a <- bv_test act i ;;
                   if a then
                     b1 <- bg_counts c add_usize (nth i (cCounts c) []) bg ;;
                     bg_window c dec1 (nth i (cData c) []) (nth i starts O) b1
                   else Ok bg)
      P (length (cData c)) O (repeat 0 (cK c))) as [bg [E [Hl Hc]]].
    - split; [apply repeat_length|]. intros k Hk. apply nth_repeat_lt; auto.
    - intros t bg Ht [Hl Hc]. rewrite bv_test_ok by lia. cbn [rbind].
      assert (Htn : (t < length (cData c))%nat) by lia.
      destruct (nth t act false) eqn:Ha.
      + rewrite (cnts_z c Hwf t Htn).
        assert (Hb : forall k, (k < cK c)%nat ->
                  nth k bg 0 + count_sym (nth t (cData c) []) k <= usize_max).
        { intros k Hk. rewrite Hc by auto.
          etransitivity; [|apply (tot_le_usize c Hwf k)]. unfold tot.
          etransitivity; [|apply (sumN_mono _ (S t) (length (cData c))); lia].
          simpl sumN. apply N.add_le_mono_r. apply sumN_le. intros i _.
          pose proof (contrib_bg_le (cW c) (cData c) act starts k i). destruct (nth i act false); lia. }
        destruct (bg_counts_add c (count_symbols (cK c) (nth t (cData c) [])) bg Hl (count_symbols_length _ _))
          as [b1 [E1 [Hl1 Hc1]]].
        { intros k Hk. rewrite nth_count_symbols by auto. apply Hb; auto. }
        rewrite E1. cbn [rbind].
        destruct (bg_window_dec c (nth t (cData c) []) (nth t starts O) b1 Hl1) as [b2 [E2 [Hl2 Hc2]]].
        * apply (proj2 (proj1 (starts_in_range_spec _ _ _) Hr)). lia.
        * apply Forall_nth_lt; [apply (wf_syms c Hwf)|lia].
        * intros k Hk. rewrite Hc1, nth_count_symbols by auto.
          pose proof (win_count_le (cW c) (nth t (cData c) []) (nth t starts O) k). lia.
        * exists b2. split; auto. split; auto. intros k Hk.
          rewrite Hc2, Hc1, nth_count_symbols, Hc by auto.
          simpl sumN. unfold contrib_bg at 3. rewrite Ha.
          pose proof (win_count_le (cW c) (nth t (cData c) []) (nth t starts O) k). lia.
      + exists bg. split; auto. split; auto. intros k Hk. rewrite Hc by auto.
        simpl sumN. unfold contrib_bg at 3. rewrite Ha. lia.
    - rewrite E. f_equal. rewrite recompute_bg_vtab. apply vtab_ext_eq; auto.
  Qed.
End NewLoops.

Lemma new_build_ok c act cnt starts :
  WF c -> length act = length (cData c) -> starts_in_range (cW c) (cData c) starts = true ->
  new_build c act cnt starts
  = Ok (mkState act cnt starts (recompute_motif (cK c) (cW c) (cData c) act starts)
                (recompute_bg (cK c) (cW c) (cData c) act starts) 0 0 false).
Proof.
  intros Hwf Hla Hr. unfold new_build.
  rewrite (new_motif_loop c Hwf act starts Hla Hr). cbn [rbind].
  rewrite (new_bg_loop c Hwf act starts Hla Hr). cbn [rbind]. reflexivity.
Qed.

Lemma nodupb_spec l : nodupb l = true <-> NoDup l.
Proof.
  induction l as [|a l IH]; simpl.
  - split; auto. constructor.
  - rewrite andb_true_iff, negb_true_iff, IH. split.
    + intros [H1 H2]. constructor; auto. intros Hin.
      assert (existsb (Nat.eqb a) l = true) by (apply existsb_exists; exists a; split; auto; apply Nat.eqb_refl).
      congruence.
    + intros H. inversion H; subst. split; auto.
      destruct (existsb (Nat.eqb a) l) eqn:E; auto.
      apply existsb_exists in E. destruct E as [x [Hx Ex]]. apply Nat.eqb_eq in Ex. subst. contradiction.
Qed.

(* premises on the data set: symbols inside the alphabet (a Rust type invariant), every
   sequence at least as long as the width, the counters cannot overflow *)
Definition data_ok (K W : nat) (data : list seqt) : Prop :=
  Forall (Forall (fun a => (a < K)%nat)) data /\
  Forall (fun s => (W <= length s)%nat) data /\
  N.of_nat (length data) <= u32_max /\
  total_len data <= usize_max.

(* what rand::seq::index::sample(rng, n, initial.min(n)) can return *)
Definition seeds_ok (n : nat) (initial : N) (seeds0 : list nat) : Prop :=
  NoDup seeds0 /\ Forall (fun i => (i < n)%nat) seeds0 /\
  N.of_nat (length seeds0) = N.min initial (N.of_nat n).

Definition init_active (m : smode) (n : nat) (seeds0 : list nat) (i : nat) : bool :=
  match m with
  | Oops => (i <? n)%nat
  | Zoops => existsb (Nat.eqb i) seeds0
  end.

Theorem new_ok K W data wraps m initial inertia patience starts0 seeds0 :
  data_ok K W data ->
  Forall (fun wr => (W <= wr)%nat) wraps ->
  starts_in_range W data starts0 = true ->
  (m = Zoops -> seeds_ok (length data) initial seeds0) ->
  exists c st0,
    new_ K W data wraps m initial inertia patience starts0 seeds0 = Ok (c, st0) /\
    WF c /\ Inv c st0 /\
    c = mkCfg K W data (sampler_data_counts K data) m
              (match m with Zoops => seeds0 | Oops => [] end) inertia patience /\
    st_starts st0 = starts0 /\ st_step st0 = 0 /\ st_conv st0 = false /\
    (forall i, nth i (st_active st0) false = init_active m (length data) seeds0 i).
Proof.
  intros [Hsy [Hlen [Hn Htot]]] Hwr Hr Hseeds. unfold new_.
  rewrite (Forall_existsb_false (fun wr => (wr <? W)%nat) wraps)
    by (eapply Forall_impl; [|exact Hwr]; intros a Ha; apply Nat.ltb_ge; exact Ha).
  rewrite (Forall_existsb_false (fun s => (length s <? W)%nat) data)
    by (eapply Forall_impl; [|exact Hlen]; intros a Ha; apply Nat.ltb_ge; exact Ha).
  rewrite Hr. cbn [negb].
  assert (Hwf : forall seed, WF (mkCfg K W data (sampler_data_counts K data) m seed inertia patience)).
  { intros seed. constructor; cbn [cK cW cData cCounts]; auto. }
  destruct m.
  - cbn [rbind fst snd].
    rewrite (new_build_ok _ (repeat true (length data)) (N.of_nat (length data)) starts0 (Hwf []))
      by (cbn [cData cW]; auto using repeat_length).
    cbn [rbind]. eexists. eexists. split; [reflexivity|]. split; [apply Hwf|].
    assert (Hact : forall i, nth i (repeat true (length data)) false = (i <? length data)%nat).
    { intros i. destruct (Nat.ltb_spec i (length data)).
      - apply nth_repeat_lt; auto.
      - apply nth_overflow. rewrite repeat_length. auto. }
    split; [|repeat split; auto].
    constructor; cbn [st_last st_step st_active cMode cData].
    + constructor; cbn [st_active st_starts st_motif st_bg st_count cData cW cK]; auto.
      * apply repeat_length.
      * symmetry. apply count_true_repeat_true.
    + lia.
    + intros _ i Hi. rewrite Hact. apply Nat.ltb_lt. auto.
  - destruct (Hseeds eq_refl) as [Hnd [Hlt Hcnt]].
    rewrite (proj2 (nodupb_spec seeds0) Hnd).
    assert (E1 : forallb (fun i => (i <? length data)%nat) seeds0 = true).
    { apply forallb_forall. intros x Hx. apply Nat.ltb_lt. rewrite Forall_forall in Hlt. auto. }
    rewrite E1. rewrite (proj2 (N.eqb_eq _ _) Hcnt). cbn [andb].
    destruct (set_seeds_ok (length data) seeds0 Hn (repeat false (length data)) 0)
      as [a' [cnt' [E [Hl' [Hc' Hb]]]]]; auto using repeat_length.
    { symmetry. apply count_true_repeat_false. }
    rewrite E. cbn [rbind fst snd].
    rewrite (new_build_ok _ a' cnt' starts0 (Hwf seeds0)) by (cbn [cData cW]; auto).
    cbn [rbind]. eexists. eexists. split; [reflexivity|]. split; [apply Hwf|].
    split; [|repeat split; auto].
    + constructor; cbn [st_last st_step st_active cMode cData].
      * constructor; cbn [st_active st_starts st_motif st_bg st_count cData cW cK]; auto.
      * lia.
      * discriminate.
    + intros i. rewrite Hb. cbn [init_active].
      destruct (Nat.ltb_spec i (length data)).
      * rewrite nth_repeat_lt by auto. reflexivity.
      * rewrite nth_overflow by (rewrite repeat_length; auto). reflexivity.
Qed.
