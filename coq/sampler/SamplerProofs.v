(* The invariant of the sampler state and its preservation by exclude_sequence,
   update_holdout, include_sequence, next, _new and run. *)
From Coq Require Import List Arith Bool NArith Lia.
From LMBase Require Import Res ListX.
From LMSampler Require Import SamplerModel SamplerLemmas SamplerOps SamplerSpec.
Import ListNotations.
Local Open Scope N_scope.

(* the incrementally maintained summary equals the recomputation from the alignment *)
Record CInv (c : cfg) (st : state) : Prop := mkCInv {
  ci_act_len : length (st_active st) = length (cData c);
  ci_range : starts_in_range (cW c) (cData c) (st_starts st) = true;
  ci_motif : st_motif st = recompute_motif (cK c) (cW c) (cData c) (st_active st) (st_starts st);
  ci_bg : st_bg st = recompute_bg (cK c) (cW c) (cData c) (st_active st) (st_starts st);
  ci_count : st_count st = count_true (st_active st)
}.

(* invariant at the boundaries of next(): Oops keeps every sequence active *)
Record Inv (c : cfg) (st : state) : Prop := mkInv {
  inv_core : CInv c st;
  inv_last : st_last st <= st_step st;
  inv_oops : cMode c = Oops ->
             forall i, (i < length (cData c))%nat -> nth i (st_active st) false = true
}.

Lemma u32_le_usize : u32_max <= usize_max.
Proof. unfold u32_max, usize_max. lia. Qed.

Lemma ci_starts_len c st : CInv c st -> length (st_starts st) = length (cData c).
Proof. intros H. apply (proj1 (proj1 (starts_in_range_spec _ _ _) (ci_range c st H))). Qed.

Lemma upd_upd {A} (l : list A) z v v' : upd z v (upd z v' l) = upd z v l.
Proof.
  revert z; induction l as [|a l IH]; intros [|z]; simpl; auto. f_equal. apply IH.
Qed.

Lemma upd_id {A} (l : list A) z v d : (z < length l)%nat -> nth z l d = v -> upd z v l = l.
Proof. intros Hz <-. apply upd_same; auto. Qed.

Lemma fetch_ok c st z :
  WF c -> CInv c st -> (z < length (cData c))%nat ->
  fetch c st z = Ok (nth z (cData c) [], nth z (st_starts st) O, nth z (cCounts c) []).
Proof.
  intros Hwf Hi Hz. unfold fetch.
  assert (E1 : (z <? length (cData c))%nat = true) by (apply Nat.ltb_lt; auto).
  assert (E2 : (z <? length (st_starts st))%nat = true)
    by (apply Nat.ltb_lt; rewrite (ci_starts_len c st Hi); auto).
  assert (E3 : (z <? length (cCounts c))%nat = true).
  { apply Nat.ltb_lt. rewrite (wf_counts c Hwf). unfold sampler_data_counts. rewrite map_length. auto. }
  rewrite E1, E2, E3. reflexivity.
Qed.

Lemma bv_test_ok a z : (z < length a)%nat -> bv_test a z = Ok (nth z a false).
Proof. intros H. unfold bv_test. apply Nat.ltb_lt in H. rewrite H. reflexivity. Qed.

Lemma bv_test_inv a z b : bv_test a z = Ok b -> (z < length a)%nat /\ b = nth z a false.
Proof.
  unfold bv_test. destruct (Nat.ltb_spec z (length a)) as [Hl|Hl]; intros E; inversion E; auto.
Qed.

(* what exclude / include / update leave untouched *)
Definition same_ctl (st st' : state) : Prop :=
  st_step st' = st_step st /\ st_last st' = st_last st /\ st_conv st' = st_conv st.

Lemma same_ctl_refl st : same_ctl st st.
Proof. repeat split. Qed.

Lemma same_ctl_trans a b d : same_ctl a b -> same_ctl b d -> same_ctl a d.
Proof. unfold same_ctl. intros [? [? ?]] [? [? ?]]. repeat split; congruence. Qed.

(* ---------- exclude_sequence ---------- *)

Lemma exclude_ok c st z :
  WF c -> CInv c st -> (z < length (cData c))%nat ->
  exists st1, exclude_sequence c st z = Ok st1 /\ CInv c st1 /\
    st_active st1 = upd z false (st_active st) /\ st_starts st1 = st_starts st /\ same_ctl st st1.
Proof.
  intros Hwf Hi Hz. unfold exclude_sequence.
  rewrite (fetch_ok c st z Hwf Hi Hz). cbn [rbind].
  assert (Hza : (z < length (st_active st))%nat) by (rewrite (ci_act_len c st Hi); auto).
  rewrite (bv_test_ok _ _ Hza). cbn [rbind].
  destruct (nth z (st_active st) false) eqn:Ha.
  - rewrite (ci_motif c st Hi).
    rewrite (motif_exclude c Hwf _ _ z Hz (ci_act_len c st Hi) (ci_range c st Hi) Ha). cbn [rbind].
    rewrite (ci_bg c st Hi).
    destruct (rbind_ok _ _ _ (bg_exclude c Hwf _ _ z Hz (ci_act_len c st Hi) (ci_range c st Hi) Ha))
      as [b1 [E1 E2]].
    rewrite E1. cbn [rbind]. rewrite E2. cbn [rbind].
    unfold bv_unset. apply Nat.ltb_lt in Hza. rewrite Hza, Ha. apply Nat.ltb_lt in Hza.
    pose proof (count_true_flip (st_active st) z Hza false) as Hc. rewrite Ha in Hc. simpl ind in Hc.
    assert (E3 : (1 <=? st_count st) = true) by (apply N.leb_le; rewrite (ci_count c st Hi); lia).
    rewrite E3. cbn [rbind fst snd].
    eexists. split; [reflexivity|]. split; [|repeat split].
    constructor; cbn [set_active set_counts st_active st_starts st_motif st_bg st_count].
    + rewrite upd_length. apply (ci_act_len c st Hi).
    + apply (ci_range c st Hi).
    + reflexivity.
    + reflexivity.
    + rewrite (ci_count c st Hi). lia.
  - exists st. split; [reflexivity|]. split; auto. split; [|split; [reflexivity|apply same_ctl_refl]].
    symmetry. apply (upd_id _ _ _ false); auto.
Qed.

(* ---------- include_sequence ---------- *)

Lemma include_ok c st z :
  WF c -> CInv c st -> (z < length (cData c))%nat ->
  exists st1, include_sequence c st z = Ok st1 /\ CInv c st1 /\
    st_active st1 = upd z true (st_active st) /\ st_starts st1 = st_starts st /\ same_ctl st st1.
Proof.
  intros Hwf Hi Hz. unfold include_sequence.
  rewrite (fetch_ok c st z Hwf Hi Hz). cbn [rbind].
  assert (Hza : (z < length (st_active st))%nat) by (rewrite (ci_act_len c st Hi); auto).
  rewrite (bv_test_ok _ _ Hza). cbn [rbind].
  destruct (nth z (st_active st) false) eqn:Ha.
  - exists st. split; [reflexivity|]. split; auto. split; [|split; [reflexivity|apply same_ctl_refl]].
    symmetry. apply (upd_id _ _ _ false); auto.
  - rewrite (ci_motif c st Hi).
    rewrite (motif_include c Hwf _ _ z Hz (ci_act_len c st Hi) (ci_range c st Hi) Ha). cbn [rbind].
    rewrite (ci_bg c st Hi).
    destruct (rbind_ok _ _ _ (bg_include c Hwf _ _ z Hz (ci_act_len c st Hi) (ci_range c st Hi) Ha))
      as [b1 [E1 E2]].
    rewrite E1. cbn [rbind]. rewrite E2. cbn [rbind].
    unfold bv_set. apply Nat.ltb_lt in Hza. rewrite Hza, Ha. apply Nat.ltb_lt in Hza.
    pose proof (count_true_flip (st_active st) z Hza true) as Hc. rewrite Ha in Hc. simpl ind in Hc.
    pose proof (count_true_le (upd z true (st_active st))) as Hb. rewrite upd_length in Hb.
    rewrite (ci_act_len c st Hi) in Hb. pose proof (wf_n c Hwf). pose proof u32_le_usize.
    unfold add_usize.
    assert (E3 : (st_count st + 1 <=? usize_max) = true) by (apply N.leb_le; rewrite (ci_count c st Hi); lia).
    rewrite E3. cbn [rbind fst snd].
    eexists. split; [reflexivity|]. split; [|repeat split].
    constructor; cbn [set_active set_counts st_active st_starts st_motif st_bg st_count].
    + rewrite upd_length. apply (ci_act_len c st Hi).
    + apply (ci_range c st Hi).
    + reflexivity.
    + reflexivity.
    + rewrite (ci_count c st Hi). lia.
Qed.

(* ---------- update_holdout ---------- *)

Lemma recompute_motif_move K W data act starts z s :
  nth z act false = false ->
  recompute_motif K W data act (upd z s starts) = recompute_motif K W data act starts.
Proof.
  intros Ha. rewrite !recompute_motif_mtab. apply mtab_ext. intros j k _ _.
  apply spec_motif_move; auto.
Qed.

Lemma recompute_bg_move K W data act starts z s :
  nth z act false = false ->
  recompute_bg K W data act (upd z s starts) = recompute_bg K W data act starts.
Proof.
  intros Ha. rewrite !recompute_bg_vtab. apply vtab_ext. intros k _.
  apply spec_bg_move; auto.
Qed.

Lemma update_ok c st z u st2 :
  CInv c st -> nth z (st_active st) false = false ->
  update_holdout c st z u = Ok st2 ->
  CInv c st2 /\ st_active st2 = st_active st /\ same_ctl st st2 /\
  (st_starts st2 = st_starts st \/ exists s, st_starts st2 = upd z s (st_starts st)).
Proof.
  intros Hi Ha. unfold update_holdout. destruct u as [|s|]; try discriminate.
  - intros H. inversion H; subst. split; [exact Hi|]. repeat split; auto.
  - destruct ((z <? length (cData c))%nat && (s + cW c <=? length (nth z (cData c) []))%nat)%bool eqn:E;
      try discriminate.
    destruct (Nat.ltb_spec z (length (st_starts st))) as [Hzs|]; try discriminate.
    intros H. inversion H; subst; clear H.
    apply andb_true_iff in E. destruct E as [Ez Es]. apply Nat.ltb_lt in Ez. apply Nat.leb_le in Es.
    split; [|repeat split; auto; right; exists s; reflexivity].
    constructor; cbn [set_starts st_active st_starts st_motif st_bg st_count].
    + apply (ci_act_len c st Hi).
    + pose proof (proj1 (starts_in_range_spec _ _ _) (ci_range c st Hi)) as [Hl Hr].
      apply starts_in_range_spec. split; [rewrite upd_length; auto|].
      intros i Hi'. rewrite nth_upd.
      destruct (Nat.eqb_spec z i) as [<-|Hne]; [|apply Hr; auto].
      apply Nat.ltb_lt in Hzs. rewrite Hzs. auto.
    + rewrite recompute_motif_move by auto. apply (ci_motif c st Hi).
    + rewrite recompute_bg_move by auto. apply (ci_bg c st Hi).
    + apply (ci_count c st Hi).
Qed.

(* ---------- resample: exclude, prepare, update, include ---------- *)

Lemma resample_ok c st z u cm st3 :
  WF c -> CInv c st -> (z < length (cData c))%nat ->
  resample c st z u = Ok (cm, st3) ->
  CInv c st3 /\
  st_active st3 = upd z true (st_active st) /\
  same_ctl st st3 /\
  (st_starts st3 = st_starts st \/ exists s, st_starts st3 = upd z s (st_starts st)) /\
  fst cm = recompute_motif (cK c) (cW c) (cData c) (upd z false (st_active st)) (st_starts st) /\
  snd cm = count_true (upd z false (st_active st)).
Proof.
  intros Hwf Hi Hz. unfold resample.
  destruct (exclude_ok c st z Hwf Hi Hz) as [st1 [E1 [Hi1 [Ha1 [Hs1 Hc1]]]]].
  rewrite E1. cbn [rbind].
  unfold prepare_pssm. destruct (bg_total (st_bg st1)) as [t| | |]; cbn [rbind]; try discriminate.
  destruct (update_holdout c st1 z u) as [st2| | |] eqn:E2; cbn [rbind]; try discriminate.
  assert (Hz1 : nth z (st_active st1) false = false).
  { rewrite Ha1. apply nth_upd_same. rewrite (ci_act_len c st Hi). auto. }
  destruct (update_ok c st1 z u st2 Hi1 Hz1 E2) as [Hi2 [Ha2 [Hc2 Hs2]]].
  destruct (include_ok c st2 z Hwf Hi2 Hz) as [st3' [E3 [Hi3 [Ha3 [Hs3 Hc3]]]]].
  rewrite E3. cbn [rbind]. intros H. inversion H; subst; clear H.
  cbn [fst snd]. split; auto. split; [|split; [|split; [|split]]].
  - rewrite Ha3, Ha2, Ha1. apply upd_upd.
  - eapply same_ctl_trans; [exact Hc1|]. eapply same_ctl_trans; [exact Hc2|exact Hc3].
  - rewrite Hs3. rewrite <- Hs1. exact Hs2.
  - rewrite (ci_motif c st1 Hi1), Ha1, Hs1. reflexivity.
  - rewrite (ci_count c st1 Hi1), Ha1. reflexivity.
Qed.

(* ---------- the Zoops test ---------- *)

Lemma zoops_test_ok c st3 z accept st4 :
  WF c -> CInv c st3 -> (z < length (cData c))%nat ->
  zoops_test c st3 z accept = Ok st4 ->
  CInv c st4 /\ st_step st4 = st_step st3 /\ st_starts st4 = st_starts st3 /\
  (st_last st3 <= st_step st3 -> st_last st4 <= st_step st4) /\
  (st_active st4 = st_active st3 \/ st_active st4 = upd z false (st_active st3)).
Proof.
  intros Hwf Hi Hz. unfold zoops_test.
  unfold prepare_pssm. destruct (bg_total (st_bg st3)) as [t| | |]; cbn [rbind]; try discriminate.
  destruct accept.
  - cbn [rbind st_step st_last]. unfold sub_usize. rewrite N.leb_refl. cbn [rbind].
    intros H. inversion H; subst; clear H.
    destruct (cPatience c <? st_step st3 - st_step st3);
      cbn [st_active st_starts st_step st_last]; (split; [destruct Hi; constructor; auto|]);
      repeat split; auto; lia.
  - destruct (exclude_ok c st3 z Hwf Hi Hz) as [st' [E1 [Hi' [Ha' [Hs' [Hc1 [Hc2 Hc3]]]]]]].
    rewrite E1. cbn [rbind].
    destruct (sub_usize (st_step st') (st_last st')) as [d| | |]; cbn [rbind]; try discriminate.
    intros H. inversion H; subst; clear H.
    destruct (cPatience c <? d);
      cbn [st_active st_starts st_step st_last]; (split; [destruct Hi'; constructor; auto|]);
      repeat split; auto; try lia; congruence.
Qed.

(* ---------- next ---------- *)

(* what one call of next() guarantees about the state it leaves and the iteration it yields *)
Definition next_post (c : cfg) (st st' : state) (oit : option iteration) : Prop :=
  match oit with
  | None => st' = st /\ st_conv st = true
  | Some it =>
      st_conv st = false /\
      (it_z it < length (cData c))%nat /\
      it_step it = st_step st /\ st_step st' = st_step st + 1 /\
      it_counts it = recompute_motif (cK c) (cW c) (cData c)
                       (upd (it_z it) false (st_active st)) (st_starts st) /\
      it_counts it = recompute_motif (cK c) (cW c) (cData c)
                       (upd (it_z it) false (st_active st')) (st_starts st') /\
      it_n it = count_true (upd (it_z it) false (st_active st)) /\
      (forall i, i <> it_z it ->
         nth i (st_active st') false = nth i (st_active st) false /\
         nth i (st_starts st') O = nth i (st_starts st) O) /\
      (nth (it_z it) (st_active st) false = true -> nth (it_z it) (st_active st') false = true)
  end.

Lemma CInv_fields c st st' :
  CInv c st ->
  st_active st' = st_active st -> st_starts st' = st_starts st -> st_motif st' = st_motif st ->
  st_bg st' = st_bg st -> st_count st' = st_count st -> CInv c st'.
Proof.
  intros [H1 H2 H3 H4 H5] Ea Es Em Eb Ec. constructor; rewrite ?Ea, ?Es, ?Em, ?Eb, ?Ec; auto.
Qed.

Lemma starts_other (starts starts' : list nat) z i :
  (starts' = starts \/ exists s, starts' = upd z s starts) -> i <> z -> nth i starts' O = nth i starts O.
Proof.
  intros [->|[s ->]] Hne; auto. apply nth_upd_other. auto.
Qed.

Lemma recompute_motif_starts K W data act starts starts' z :
  (z < length act)%nat ->
  (starts' = starts \/ exists s, starts' = upd z s starts) ->
  recompute_motif K W data (upd z false act) starts' = recompute_motif K W data (upd z false act) starts.
Proof.
  intros Hz [->|[s ->]]; auto. apply recompute_motif_move. apply nth_upd_same; auto.
Qed.

Theorem next_inv c st ch st' oit :
  WF c -> Inv c st -> next c st ch = Ok (st', oit) -> Inv c st' /\ next_post c st st' oit.
Proof.
  intros Hwf [Hi Hlast Hoops]. unfold next.
  destruct (st_conv st) eqn:Econv.
  { intros H. inversion H; subst. split; [constructor; auto|]. simpl. auto. }
  destruct (select_holdout c st (ch_z ch)) as [z| | |]; cbn [rbind]; try discriminate.
  destruct (bv_test (st_active st) z) as [a| | |] eqn:Ea; cbn [rbind]; try discriminate.
  apply bv_test_inv in Ea. destruct Ea as [Hza Ea].
  assert (Hz : (z < length (cData c))%nat) by (rewrite <- (ci_act_len c st Hi); auto).
  destruct (resample c st z (ch_upd ch)) as [[cm st3]| | |] eqn:Er; cbn [rbind]; try discriminate.
  destruct (resample_ok c st z (ch_upd ch) cm st3 Hwf Hi Hz Er) as [Hi3 [Ha3 [[Hc1 [Hc2 Hc3]] [Hs3 [Hcm1 Hcm2]]]]].
  cbn [fst snd].
  (* the state after the optional Zoops test *)
  assert (Hcase : forall st4,
    (match cMode c, a with
     | Zoops, false => zoops_test c st3 z (ch_accept ch)
     | _, _ => Ok st3
     end) = Ok st4 ->
    CInv c st4 /\ st_step st4 = st_step st /\ st_starts st4 = st_starts st3 /\
    st_last st4 <= st_step st4 /\
    (st_active st4 = st_active st3 \/ (a = false /\ cMode c = Zoops /\ st_active st4 = upd z false (st_active st3)))).
  { intros st4 H4.
    destruct (cMode c) eqn:Em, a eqn:Eaa.
    1-3: inversion H4; subst st4; (split; [exact Hi3|]); (split; [exact Hc1|]);
         (split; [reflexivity|]); (split; [rewrite Hc1, Hc2; exact Hlast|]); left; reflexivity.
    destruct (zoops_test_ok c st3 z (ch_accept ch) st4 Hwf Hi3 Hz H4) as [Hi4 [Hst [Hss [Hl Hact]]]].
    split; auto. split; [congruence|]. split; auto. split; [apply Hl; rewrite Hc1, Hc2; auto|].
    destruct Hact; auto. }
  destruct (match cMode c, a with
            | Zoops, false => zoops_test c st3 z (ch_accept ch)
            | _, _ => Ok st3
            end) as [st4| | |] eqn:E4; cbn [rbind]; try discriminate.
  destruct (Hcase st4 eq_refl) as [Hi4 [Hst4 [Hss4 [Hl4 Hact4]]]]. clear Hcase.
  destruct (N.leb_spec (st_step st4 + 1) usize_max) as [Hstep|Hstep]; try discriminate.
  intros Hfin. inversion Hfin; subst st' oit; clear Hfin.
  assert (Hact' : upd z false (st_active st4) = upd z false (st_active st)).
  { destruct Hact4 as [->|[_ [_ ->]]]; rewrite Ha3, ?upd_upd; reflexivity. }
  split.
  - constructor; cbn [st_active st_starts st_motif st_bg st_count st_step st_last].
    + eapply CInv_fields; [exact Hi4|..]; reflexivity.
    + lia.
    + intros Em i Hi'. destruct Hact4 as [->|[_ [Em' _]]]; [|congruence].
      rewrite Ha3, nth_upd. destruct (Nat.eqb_spec z i) as [<-|Hne].
      * apply Nat.ltb_lt in Hza. rewrite Hza. reflexivity.
      * apply Hoops; auto.
  - cbn [next_post it_z it_step it_counts it_n st_active st_starts st_step].
    split; [exact Econv|]. split; [exact Hz|]. split; [exact Hst4|]. split; [rewrite Hst4; reflexivity|].
    split; [exact Hcm1|]. split; [|split; [exact Hcm2|split]].
    + rewrite Hact', Hss4, Hcm1. symmetry. apply recompute_motif_starts; auto.
    + intros i Hne. split.
      * destruct Hact4 as [->|[_ [_ ->]]]; rewrite Ha3, ?nth_upd_other by auto; reflexivity.
      * rewrite Hss4. apply (starts_other _ _ z); auto.
    + intros Hzt. rewrite <- Ea in Hzt. subst a.
      destruct Hact4 as [->|[Hf _]]; [|congruence]. rewrite Ha3. apply nth_upd_same; auto.
Qed.
