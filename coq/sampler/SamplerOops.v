(* Oops mode, at least two sequences, every sequence longer than the width: a run never
   panics, for EVERY choice list whose choices an RNG can produce (hold-out in range, new
   start inside the sequence, no weight overflow) -- a closed form of SamplerRun.run_progress:
   the state-dependent premise "the hold-out leaves an active sequence" follows from the
   invariant (all sequences stay active in Oops mode) and the number of sequences. *)
From Coq Require Import List Arith Bool NArith ZArith Lia.
From LMBase Require Import Res ListX.
From LMSampler Require Import SamplerModel SamplerLemmas SamplerOps SamplerSpec SamplerProofs SamplerRun.
Import ListNotations.
Local Open Scope N_scope.

(* a choice an RNG can produce, stated on the data set alone *)
Definition oops_choice_ok (W : nat) (data : list seqt) (ch : choice) : Prop :=
  (ch_z ch < length data)%nat /\
  match ch_upd ch with
  | UKeep => True
  | UNew s => (s + W <= length (nth (ch_z ch) data []))%nat
  | UOverflow => False
  end.

Lemma oops_choice_ok_state c st ch :
  cMode c = Oops -> (2 <= length (cData c))%nat -> Inv c st ->
  st_step st < usize_max ->
  oops_choice_ok (cW c) (cData c) ch -> choice_ok c st ch.
Proof.
  intros Hm Hn Hinv Hstep [Hz Hu]. right. split; [exact Hz|]. split; [rewrite Hm; discriminate|].
  split; [exact Hu|]. split; [|exact Hstep].
  destruct (Nat.eq_dec (ch_z ch) 0) as [E|E].
  - exists 1%nat. split; [lia|]. split; [lia|]. apply (inv_oops c st Hinv Hm). lia.
  - exists 0%nat. split; [lia|]. split; [lia|]. apply (inv_oops c st Hinv Hm). lia.
Qed.

Theorem run_oops_progress c chs :
  WF c -> strict_len c -> cMode c = Oops -> (2 <= length (cData c))%nat ->
  forall st, Inv c st -> st_conv st = false ->
    st_step st + N.of_nat (length chs) <= usize_max ->
    Forall (oops_choice_ok (cW c) (cData c)) chs ->
    exists t, run c st chs = Ok t /\ length t = length chs.
Proof.
  intros Hwf Hstrict Hm Hn. induction chs as [|ch r IH]; intros st Hinv Hconv Hstep Hok.
  - exists []. split; reflexivity.
  - inversion Hok as [|? ? Hch Hr]; subst.
    assert (Hlt : st_step st < usize_max) by (cbn [length] in Hstep; lia).
    pose proof (oops_choice_ok_state c st ch Hm Hn Hinv Hlt Hch) as Hcok.
    destruct (next_progress c st ch Hwf Hstrict Hinv Hcok) as [st' [oit En]].
    destruct (next_inv c st ch st' oit Hwf Hinv En) as [Hinv' Hpost].
    destruct (next_oops_conv c st ch st' oit Hwf Hinv Hm Hconv En) as [Hconv' Hsome].
    destruct oit as [it|]; [|congruence]. cbn [next_post] in Hpost.
    destruct Hpost as [_ [_ [_ [Hs' _]]]].
    destruct (IH st' Hinv' Hconv') as [t [Et Hl]]; auto.
    { rewrite Hs'. cbn [length] in Hstep. lia. }
    exists ((st', Some it) :: t). cbn [run]. rewrite En. cbn [rbind fst]. rewrite Et. cbn [rbind].
    split; [reflexivity|]. cbn [length]. congruence.
Qed.

Theorem new_run_oops_progress :
  forall K W data wraps initial inertia patience starts0 seeds0 chs,
    data_ok K W data ->
    Forall (fun s => (W < length s)%nat) data ->
    (2 <= length data)%nat ->
    Forall (fun wr => (W <= wr)%nat) wraps ->
    starts_in_range W data starts0 = true ->
    Forall (oops_choice_ok W data) chs ->
    N.of_nat (length chs) <= usize_max ->
    exists c st0 t,
      new_ K W data wraps Oops initial inertia patience starts0 seeds0 = Ok (c, st0) /\
      run c st0 chs = Ok t /\ length t = length chs.
Proof.
  intros K W data wraps initial inertia patience starts0 seeds0 chs Hd Hs Hn Hw Hr Hok Hlen.
  destruct (new_ok K W data wraps Oops initial inertia patience starts0 seeds0 Hd Hw Hr ltac:(discriminate))
    as [c [st0 [E [Hwf [Hinv [Hc [_ [Hstep [Hconv _]]]]]]]]].
  assert (HW : cW c = W) by (rewrite Hc; reflexivity).
  assert (HD : cData c = data) by (rewrite Hc; reflexivity).
  assert (HM : cMode c = Oops) by (rewrite Hc; reflexivity).
  destruct (run_oops_progress c chs Hwf) with (st := st0) as [t [Et Hl]]; auto.
  - unfold strict_len. rewrite HW, HD. exact Hs.
  - rewrite HD. exact Hn.
  - rewrite Hstep. lia.
  - rewrite HW, HD. exact Hok.
  - exists c, st0, t. auto.
Qed.
