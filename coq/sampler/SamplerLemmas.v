(* Generic lemmas for the sampler proofs: loops, finite sums over N, symbol counts,
   tabulated vectors / matrices. *)
From Coq Require Import List Arith Bool NArith Lia.
From LMBase Require Import Res ListX.
From LMSampler Require Import SamplerModel.
Import ListNotations.
Local Open Scope N_scope.

(* ---------- loops ---------- *)

Lemma loop_seq_inv {St : Type} (f : nat -> St -> res St) (P : nat -> St -> Prop) (n : nat) :
  forall (a : nat) (s : St),
    P a s ->
    (forall t s, (a <= t < a + n)%nat -> P t s -> exists s', f t s = Ok s' /\ P (S t) s') ->
    exists s', loop f (seq a n) s = Ok s' /\ P (a + n)%nat s'.
Proof.
  induction n as [|n IH]; intros a s H0 Hstep.
  - exists s. simpl. rewrite Nat.add_0_r. auto.
  - simpl. destruct (Hstep a s ltac:(lia) H0) as [s1 [E1 P1]].
    rewrite E1. simpl.
    destruct (IH (S a) s1 P1) as [s' [E' P']].
    + intros t s2 Ht. apply Hstep. lia.
    + exists s'. split; auto. replace (a + S n)%nat with (S a + n)%nat by lia. exact P'.
Qed.

(* ---------- sums ---------- *)

Lemma sumN_ext f g n : (forall i, (i < n)%nat -> f i = g i) -> sumN f n = sumN g n.
Proof.
  induction n as [|n IH]; intros H; simpl; auto.
  rewrite IH, H; auto.
Qed.

Lemma sumN_le f g n : (forall i, (i < n)%nat -> f i <= g i) -> sumN f n <= sumN g n.
Proof.
  induction n as [|n IH]; intros H; simpl; [lia|].
  specialize (IH (fun i Hi => H i (Nat.lt_lt_succ_r _ _ Hi))). specialize (H n (Nat.lt_succ_diag_r n)). lia.
Qed.

Lemma sumN_zero f n : (forall i, (i < n)%nat -> f i = 0) -> sumN f n = 0.
Proof.
  induction n as [|n IH]; intros H; simpl; auto.
  rewrite IH, H; auto.
Qed.

Lemma sumN_mono f n m : (n <= m)%nat -> sumN f n <= sumN f m.
Proof.
  induction 1; simpl; lia.
Qed.

Lemma sumN_term_le f n z : (z < n)%nat -> f z <= sumN f n.
Proof.
  induction n as [|n IH]; intros H; [lia|]. simpl.
  destruct (Nat.eq_dec z n) as [->|Hne]; [lia|].
  specialize (IH ltac:(lia)). lia.
Qed.

Lemma sumN_change f g n z :
  (z < n)%nat -> (forall i, (i < n)%nat -> i <> z -> f i = g i) ->
  sumN g n + f z = sumN f n + g z.
Proof.
  induction n as [|n IH]; intros Hz H; [lia|]. simpl.
  destruct (Nat.eq_dec z n) as [->|Hne].
  - rewrite (sumN_ext f g n); [lia|]. intros i Hi. apply H; lia.
  - rewrite (H n) by lia. specialize (IH ltac:(lia) (fun i Hi => H i (Nat.lt_lt_succ_r _ _ Hi))). lia.
Qed.

Lemma sumN_bound f n c : (forall i, (i < n)%nat -> f i <= c) -> sumN f n <= c * N.of_nat n.
Proof.
  induction n as [|n IH]; intros H; simpl sumN; [lia|].
  specialize (IH (fun i Hi => H i (Nat.lt_lt_succ_r _ _ Hi))). specialize (H n (Nat.lt_succ_diag_r n)). lia.
Qed.

Lemma sumN_add f g n : sumN (fun i => f i + g i) n = sumN f n + sumN g n.
Proof. induction n as [|n IH]; simpl; lia. Qed.

Lemma sumN_sub f g n :
  (forall i, (i < n)%nat -> g i <= f i) -> sumN (fun i => f i - g i) n = sumN f n - sumN g n.
Proof.
  induction n as [|n IH]; intros H; simpl; [lia|].
  rewrite IH by (intros; apply H; lia).
  assert (sumN g n <= sumN f n) by (apply sumN_le; intros; apply H; lia).
  specialize (H n (Nat.lt_succ_diag_r n)). lia.
Qed.

Lemma sumN_exchange (f : nat -> nat -> N) n m :
  sumN (fun i => sumN (fun k => f i k) m) n = sumN (fun k => sumN (fun i => f i k) n) m.
Proof.
  induction n as [|n IH]; simpl.
  - symmetry. apply sumN_zero. auto.
  - rewrite IH. rewrite <- sumN_add. reflexivity.
Qed.

Lemma sumN_shift f n : sumN f (S n) = f O + sumN (fun i => f (S i)) n.
Proof.
  induction n as [|n IH]; [simpl; lia|].
  change (sumN f (S (S n))) with (sumN f (S n) + f (S n)). rewrite IH. simpl. lia.
Qed.

(* ---------- symbol counts ---------- *)

Lemma ind_le1 b : ind b <= 1.
Proof. destruct b; simpl; lia. Qed.

Lemma win_cell_le1 s st j k : win_cell s st j k <= 1.
Proof. unfold win_cell. destruct (nth_error s (st + j)); [apply ind_le1|lia]. Qed.

Lemma nth_error_skipn {A} (l : list A) st t : nth_error (skipn st l) t = nth_error l (st + t).
Proof.
  revert l; induction st as [|st IH]; intros l; simpl; auto.
  destruct l; simpl; auto. destruct t; auto.
Qed.

Lemma count_sym_firstn_S l t k :
  count_sym (firstn (S t) l) k =
  count_sym (firstn t l) k + match nth_error l t with Some a => ind (Nat.eqb a k) | None => 0 end.
Proof.
  revert l; induction t as [|t IH]; intros l.
  - destruct l; simpl; lia.
  - destruct l as [|a l]; [simpl; lia|].
    change (firstn (S (S t)) (a :: l)) with (a :: firstn (S t) l).
    change (firstn (S t) (a :: l)) with (a :: firstn t l).
    cbn [count_sym nth_error]. rewrite IH. lia.
Qed.

Lemma win_count_S W s st k :
  win_count (S W) s st k = win_count W s st k + win_cell s st W k.
Proof.
  unfold win_count, win_cell. rewrite count_sym_firstn_S, nth_error_skipn. reflexivity.
Qed.

Lemma win_count_0 s st k : win_count 0 s st k = 0.
Proof. reflexivity. Qed.

Lemma win_count_sum W s st k : win_count W s st k = sumN (fun j => win_cell s st j k) W.
Proof.
  induction W as [|W IH]; [reflexivity|]. rewrite win_count_S, IH. reflexivity.
Qed.

Lemma win_count_mono t W s st k : (t <= W)%nat -> win_count t s st k <= win_count W s st k.
Proof. intros H. rewrite !win_count_sum. apply sumN_mono; auto. Qed.

Lemma count_sym_firstn_le l t k : count_sym (firstn t l) k <= count_sym l k.
Proof.
  revert t; induction l as [|a l IH]; intros [|t]; simpl; try lia.
  specialize (IH t). lia.
Qed.

Lemma count_sym_skipn_le l t k : count_sym (skipn t l) k <= count_sym l k.
Proof.
  revert t; induction l as [|a l IH]; intros [|t]; simpl; try lia.
  specialize (IH t). lia.
Qed.

Lemma win_count_le W s st k : win_count W s st k <= count_sym s k.
Proof.
  unfold win_count. etransitivity; [apply count_sym_firstn_le|apply count_sym_skipn_le].
Qed.

(* at most one symbol matches *)
Lemma sum_ind_eq a K : sumN (fun k => ind (Nat.eqb a k)) K = ind (a <? K)%nat.
Proof.
  induction K as [|K IH]; [reflexivity|]. simpl sumN. rewrite IH.
  destruct (Nat.ltb_spec a K), (Nat.eqb_spec a K), (Nat.ltb_spec a (S K)); simpl; lia.
Qed.

Lemma sum_count_sym_le s K : sumN (count_sym s) K <= N.of_nat (length s).
Proof.
  induction s as [|a s IH].
  - rewrite sumN_zero; simpl; auto; lia.
  - simpl count_sym. rewrite sumN_add, sum_ind_eq.
    pose proof (ind_le1 (a <? K)%nat). simpl length. lia.
Qed.

Lemma sum_count_sym_eq s K :
  Forall (fun a => (a < K)%nat) s -> sumN (count_sym s) K = N.of_nat (length s).
Proof.
  induction 1 as [|a s Ha Hs IH].
  - rewrite sumN_zero; simpl; auto.
  - simpl count_sym. rewrite sumN_add, sum_ind_eq, IH.
    apply Nat.ltb_lt in Ha. rewrite Ha. simpl ind. simpl length. lia.
Qed.

(* the window of width W inside the sequence holds W symbols *)
Lemma sum_win_count_eq W s st K :
  Forall (fun a => (a < K)%nat) s -> (st + W <= length s)%nat ->
  sumN (win_count W s st) K = N.of_nat W.
Proof.
  intros Hs Hr. unfold win_count.
  rewrite sum_count_sym_eq.
  - rewrite firstn_length, skipn_length. f_equal. lia.
  - apply Forall_firstn. clear Hr. revert s Hs. induction st as [|st IH]; intros s Hs; simpl; auto.
    destruct s; auto. inversion Hs; subst. apply IH; auto.
Qed.

(* ---------- tabulated vectors and matrices ---------- *)

Definition mcell (m : matrix) (j k : nat) : N := nth k (nth j m []) 0.
Definition vtab (K : nat) (F : nat -> N) : list N := map F (seq 0 K).
Definition mtab (W K : nat) (F : nat -> nat -> N) : matrix :=
  map (fun j => vtab K (F j)) (seq 0 W).
Definition shape (m : matrix) (W K : nat) : Prop :=
  length m = W /\ forall j, (j < W)%nat -> length (nth j m []) = K.

Lemma vtab_length K F : length (vtab K F) = K.
Proof. unfold vtab. rewrite map_length, seq_length. reflexivity. Qed.

Lemma nth_vtab K F k : (k < K)%nat -> nth k (vtab K F) 0 = F k.
Proof.
  intros H. unfold vtab.
  rewrite (nth_indep _ 0 (F O)) by (rewrite map_length, seq_length; auto).
  rewrite map_nth, seq_nth; auto.
Qed.

Lemma vtab_ext_eq K F v :
  length v = K -> (forall k, (k < K)%nat -> nth k v 0 = F k) -> v = vtab K F.
Proof.
  intros Hl H. apply (nth_ext_len v (vtab K F) 0).
  - rewrite vtab_length; auto.
  - intros i Hi. rewrite nth_vtab by lia. apply H. lia.
Qed.

Lemma vtab_ext K F G : (forall k, (k < K)%nat -> F k = G k) -> vtab K F = vtab K G.
Proof.
  intros H. apply vtab_ext_eq; [apply vtab_length|].
  intros k Hk. rewrite nth_vtab; auto.
Qed.

Lemma mtab_shape W K F : shape (mtab W K F) W K.
Proof.
  unfold shape, mtab. split; [rewrite map_length, seq_length; reflexivity|].
  intros j Hj.
  rewrite (nth_indep _ [] (vtab K (F O))) by (rewrite map_length, seq_length; auto).
  rewrite (map_nth (fun j => vtab K (F j))), seq_nth by auto. apply vtab_length.
Qed.

Lemma mcell_mtab W K F j k : (j < W)%nat -> (k < K)%nat -> mcell (mtab W K F) j k = F j k.
Proof.
  intros Hj Hk. unfold mcell, mtab.
  rewrite (nth_indep _ [] (vtab K (F O))) by (rewrite map_length, seq_length; auto).
  rewrite (map_nth (fun j => vtab K (F j))), seq_nth by auto. apply nth_vtab; auto.
Qed.

Lemma mtab_ext_eq W K F m :
  shape m W K -> (forall j k, (j < W)%nat -> (k < K)%nat -> mcell m j k = F j k) -> m = mtab W K F.
Proof.
  intros [Hl Hr] H. apply (nth_ext_len m (mtab W K F) []).
  - destruct (mtab_shape W K F) as [E _]. lia.
  - intros j Hj. rewrite Hl in Hj.
    apply (nth_ext_len _ _ 0).
    + destruct (mtab_shape W K F) as [_ E]. rewrite Hr, E; auto.
    + intros k Hk. rewrite Hr in Hk by auto.
      change (mcell m j k = mcell (mtab W K F) j k). rewrite mcell_mtab; auto.
Qed.

Lemma mtab_ext W K F G :
  (forall j k, (j < W)%nat -> (k < K)%nat -> F j k = G j k) -> mtab W K F = mtab W K G.
Proof.
  intros H. apply mtab_ext_eq; [apply mtab_shape|].
  intros j k Hj Hk. rewrite mcell_mtab; auto.
Qed.

Lemma recompute_motif_mtab K W data act starts :
  recompute_motif K W data act starts = mtab W K (spec_motif_cell data act starts).
Proof. reflexivity. Qed.

Lemma recompute_bg_vtab K W data act starts :
  recompute_bg K W data act starts = vtab K (spec_bg_cell W data act starts).
Proof. reflexivity. Qed.

(* cell update *)
Lemma mcell_upd m j c v j' k' :
  (j < length m)%nat -> (c < length (nth j m []))%nat ->
  mcell (upd j (upd c v (nth j m [])) m) j' k' =
  if (Nat.eqb j j' && Nat.eqb c k')%bool then v else mcell m j' k'.
Proof.
  intros Hj Hc. unfold mcell. rewrite nth_upd.
  destruct (Nat.eqb_spec j j') as [->|Hne]; simpl.
  - apply Nat.ltb_lt in Hj. rewrite Hj. rewrite nth_upd.
    destruct (Nat.eqb_spec c k') as [->|Hne']; auto.
    apply Nat.ltb_lt in Hc. rewrite Hc. reflexivity.
  - reflexivity.
Qed.

Lemma shape_upd m W K j c v :
  shape m W K -> shape (upd j (upd c v (nth j m [])) m) W K.
Proof.
  intros [Hl Hr]. split; [rewrite upd_length; auto|].
  intros j' Hj'. rewrite nth_upd.
  destruct (Nat.eqb_spec j j') as [->|Hne]; auto.
  destruct (Nat.ltb_spec j' (length m)); auto. rewrite upd_length. auto.
Qed.

(* ---------- sum_usize ---------- *)

Fixpoint lsum (l : list N) : N := match l with [] => 0 | x :: r => x + lsum r end.

Lemma sum_usize_ok l acc : acc + lsum l <= usize_max -> sum_usize l acc = Ok (acc + lsum l).
Proof.
  revert acc; induction l as [|x l IH]; intros acc H; simpl in *.
  - f_equal. lia.
  - unfold add_usize. destruct (N.leb_spec (acc + x) usize_max); [|lia]. simpl.
    rewrite IH by lia. f_equal. lia.
Qed.

Lemma lsum_map_seq F a n : lsum (map F (seq a n)) = sumN (fun i => F (a + i)%nat) n.
Proof.
  revert a; induction n as [|n IH]; intros a; [reflexivity|].
  rewrite sumN_shift. simpl. rewrite IH. rewrite Nat.add_0_r. f_equal.
  apply sumN_ext. intros i _. f_equal. lia.
Qed.

Lemma lsum_vtab K F : lsum (vtab K F) = sumN F K.
Proof. unfold vtab. rewrite lsum_map_seq. reflexivity. Qed.

(* ---------- boolean list equality ---------- *)

Lemma list_eqb_eq {A} (e : A -> A -> bool) :
  (forall x y, e x y = true -> x = y) -> forall a b, list_eqb e a b = true -> a = b.
Proof.
  intros He. induction a as [|x a IH]; intros [|y b] H; simpl in H; try discriminate; auto.
  apply andb_true_iff in H. destruct H as [H1 H2]. f_equal; auto.
Qed.

Lemma list_eqb_refl {A} (e : A -> A -> bool) :
  (forall x, e x x = true) -> forall a, list_eqb e a a = true.
Proof. intros He. induction a; simpl; auto. rewrite He, IHa. reflexivity. Qed.

Lemma matrix_eqb_eq a b : matrix_eqb a b = true -> a = b.
Proof.
  apply list_eqb_eq. apply list_eqb_eq. intros x y H. apply N.eqb_eq; auto.
Qed.

Lemma matrix_eqb_refl a : matrix_eqb a a = true.
Proof. apply list_eqb_refl. apply list_eqb_refl. apply N.eqb_refl. Qed.

Lemma upd_same {A} (l : list A) z d : (z < length l)%nat -> upd z (nth z l d) l = l.
Proof.
  revert z; induction l as [|a l IH]; intros [|z] H; simpl in *; auto; try lia.
  f_equal. apply IH. lia.
Qed.
