(* Extraction of the executable sampler model and of the property checkers for the
   correspondence check.  ExtrOcamlBasic only: nat, N, Z, positive stay the
   extracted inductive types (converted in ocaml/sampler/driver.ml). *)
From Coq Require Import List ZArith NArith Extraction ExtrOcamlBasic.
From LMBase Require Import Res ListX IEEE.
From LMSampler Require Import SamplerModel SamplerFloat SamplerF32 SamplerStream.

Extraction Language OCaml.
Extraction "sampler_model.ml"
  new_ builder_new builder_run builder_sample sampler_new next run
  count_symbols sampler_data_counts recompute_motif recompute_bg count_true
  active_sequences active_starts count_matrix
  check_motif check_range check_n check_iteration
  freq_f32 background_bits_f32 expected_bg_bits_f32 check_bg_f32 check_state_f32 report_of_f32
  check_step_f32 check_C16_f32 obs_of_trace_f32
  exclude_sequence include_sequence update_holdout
  support upd_possible pssm_of score_vec weight_vec wi_new draw info_content zoops_accept choice_of next_f next_g run_g word_ok scale_ok wi_sample uni_sample F64.lt pssm_shape
  uniform_usize gen_index index_sample seeds_w starts_w holdout_w next_w run_w choices_w sampler_w.
