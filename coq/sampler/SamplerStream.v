(* The sampler as a function of the generator's WORD STREAM (executable definitions only).

   C16.v replaces the random number generator by a choice list; SamplerF32.v computes the
   update and the Zoops decision of one call from the state, the libm oracles and the ONE
   64-bit word consumed by WeightedIndex::sample, but still takes the hold-out index z as an
   input.  This file closes that gap: every random decision of Sampler::_new (initial start
   positions) and of Iterator::next (hold-out, new start) is computed from the sequence of
   words the generator hands out, following rand 0.8.8:

     Uniform<usize>::new(0, n) + sample        distributions/uniform.rs, uniform_int_impl!{usize, usize, usize}:
                                               ints_to_reject = (MAX - n + 1) % n, zone = MAX - ints_to_reject,
                                               loop { v = next_u64(); (hi, lo) = v.wmul(n); if lo <= zone { return hi } }
     SliceRandom::choose -> gen_index          seq/mod.rs: len <= u32::MAX ? gen_range(0..len as u32) : gen_range(0..len)
     gen_range(0..n) = sample_single_inclusive zone = (n << n.leading_zeros()).wrapping_sub(1),
                                               loop { v = next_u32() / next_u64(); (hi, lo) = v.wmul(n); if lo <= zone { return hi } }
     WeightedIndex::sample                     one next_u64() (SamplerF32.uni_sample), only when WeightedIndex::new succeeded

   A word is tagged with the width the generator was asked for (RngCore::next_u32 /
   next_u64); a stream that does not deliver the kind of word the code asks for, or ends,
   makes the model return [Err 5].  rand::seq::index::sample (the initial seed set of Zoops) is
   modelled for length < 500_000 and amount < 163 ([Err 6] otherwise).  What stays outside:
   the generator itself (StdRng = ChaCha12: the map seed -> word stream). *)
From Coq Require Import List Arith Bool NArith ZArith.
From LMBase Require Import Res ListX IEEE.
From LMSampler Require Import SamplerModel SamplerF32.
Import ListNotations.

Inductive word := W32 (v : Z) | W64 (v : Z).
Definition stream := list word.

Definition word_val (bits : Z) (w : word) : option Z :=
  match w with
  | W32 v => if (bits =? 32)%Z then Some v else None
  | W64 v => if (bits =? 64)%Z then Some v else None
  end.

(* the rejection loop shared by UniformInt::sample and sample_single_inclusive:
   v.wmul(n) = (v * n >> bits, v * n mod 2^bits) *)
Fixpoint reject_loop (bits n zone : Z) (ws : stream) : res (Z * stream) :=
  match ws with
  | [] => Err 5
  | w :: r =>
      match word_val bits w with
      | None => Err 5
      | Some v =>
          let m := (v * n)%Z in
          if (m mod 2 ^ bits <=? zone)%Z then Ok ((m / 2 ^ bits)%Z, r)
          else reject_loop bits n zone r
      end
  end.

(* Uniform::<usize>::new(0, n).sample(rng), n > 0 *)
Definition uniform_zone (n : Z) : Z := (2 ^ 64 - 1 - (2 ^ 64 - n) mod n)%Z.
Definition uniform_usize (n : Z) (ws : stream) : res (Z * stream) :=
  reject_loop 64 n (uniform_zone n) ws.

(* rng.gen_range(0..n) on a `bits`-wide unsigned type, n > 0 *)
Definition single_zone (bits n : Z) : Z := (n * 2 ^ (bits - 1 - Z.log2 n) - 1)%Z.
Definition gen_index (n : Z) (ws : stream) : res (Z * stream) :=
  if (n <=? 4294967295)%Z then reject_loop 32 n (single_zone 32 n) ws
  else reject_loop 64 n (single_zone 64 n) ws.

(* rng.gen_range(lo..=hi) on u32 (UniformInt<u32>::sample_single_inclusive): the whole range
   when hi - lo + 1 wraps to 0, else low + the rejection loop's value *)
Definition range32_incl (lo hi : Z) (ws : stream) : res (Z * stream) :=
  let range := ((hi - lo + 1) mod 2 ^ 32)%Z in
  if (range =? 0)%Z then
    match ws with W32 v :: r => Ok (v, r) | _ => Err 5 end
  else x <- reject_loop 32 range (single_zone 32 range) ws ;; Ok ((lo + fst x)%Z, snd x).

(* rand::seq::index::sample(rng, length, amount) for length < 500_000 and amount < 163 (anything
   else: [Err 6], not modelled): Floyd's algorithm (fully shuffled variant below 50 indices,
   otherwise followed by a shuffle) or the in-place partial Fisher-Yates, chosen by the f32 test
   amount > 11 && (length as f32) < (10.0 + 1.6 * amount as f32) * amount as f32 *)
Fixpoint position (t : Z) (l : list Z) : option nat :=
  match l with
  | [] => None
  | a :: r => if (a =? t)%Z then Some O else option_map S (position t r)
  end.
Definition insert_at (pos : nat) (x : Z) (l : list Z) : list Z := firstn pos l ++ x :: skipn pos l.
Definition swap (i j : nat) (l : list Z) : list Z := upd i (nth j l 0%Z) (upd j (nth i l 0%Z) l).

Fixpoint floyd_loop (shuffled : bool) (js : list Z) (ind : list Z) (ws : stream) : res (list Z * stream) :=
  match js with
  | [] => Ok (ind, ws)
  | j :: r =>
      x <- range32_incl 0 j ws ;;
      let t := fst x in
      let ind' := match position t ind with
                  | Some pos => if shuffled then insert_at pos j ind else ind ++ [j]
                  | None => ind ++ [t]
                  end in
      floyd_loop shuffled r ind' (snd x)
  end.

Fixpoint shuffle_loop (is : list nat) (ind : list Z) (ws : stream) : res (list Z * stream) :=
  match is with
  | [] => Ok (ind, ws)
  | i :: r => x <- range32_incl 0 (Z.of_nat i) ws ;;
              shuffle_loop r (swap i (Z.to_nat (fst x)) ind) (snd x)
  end.

Definition sample_floyd (length amount : nat) (ws : stream) : res (list Z * stream) :=
  let shuffled := (amount <? 50)%nat in
  x <- floyd_loop shuffled (map Z.of_nat (seq (length - amount) amount)) [] ws ;;
  if shuffled then Ok (fst x, snd x) else shuffle_loop (rev (seq 1 (amount - 1))) (fst x) (snd x).

Fixpoint inplace_loop (length : nat) (is : list nat) (ind : list Z) (ws : stream) : res (list Z * stream) :=
  match is with
  | [] => Ok (ind, ws)
  | i :: r => x <- range32_incl (Z.of_nat i) (Z.of_nat length - 1) ws ;;
              inplace_loop length r (swap i (Z.to_nat (fst x)) ind) (snd x)
  end.

Definition sample_inplace (length amount : nat) (ws : stream) : res (list Z * stream) :=
  x <- inplace_loop length (seq 0 amount) (map Z.of_nat (seq 0 length)) ws ;;
  Ok (firstn amount (fst x), snd x).

Definition f32_1_6 : F32.t := F32.of_bits 1070386381.    (* 1.6f32 = 0x3FCCCCCD *)
Definition f32_10 : F32.t := F32.of_bits 1092616192.     (* 10.0f32 = 0x41200000 *)

Definition use_inplace (length amount : nat) : bool :=
  let a := F32.of_Z (Z.of_nat amount) in
  (11 <? amount)%nat &&
  F32.lt (F32.of_Z (Z.of_nat length)) (F32.mul (F32.add f32_10 (F32.mul f32_1_6 a)) a).

Definition index_sample (length amount : nat) (ws : stream) : res (list nat * stream) :=
  if (500000 <=? N.of_nat length)%N || (163 <=? amount)%nat then Err 6
  else
    x <- (if use_inplace length amount then sample_inplace length amount ws
          else sample_floyd length amount ws) ;;
    Ok (map Z.to_nat (fst x), snd x).

(* _new, Zoops: rand::seq::index::sample(&mut rng, n, initial.min(n)), in the order of the result *)
Definition seeds_w (n : nat) (initial : N) (ws : stream) : res (list nat * stream) :=
  index_sample n (N.to_nat (N.min initial (N.of_nat n))) ws.

(* _new: rng.sample(Uniform::new(0, seq.len() - width + 1)) for every sequence, in order
   (the wrap guard and the length guard are those of new_: Panic 1 / Panic 2) *)
Fixpoint starts_w (W : nat) (data : list seqt) (ws : stream) : res (list nat * stream) :=
  match data with
  | [] => Ok ([], ws)
  | s :: r =>
      if (length s <? W)%nat then Panic 2
      else
        x <- uniform_usize (Z.of_nat (length s - W + 1)) ws ;;
        y <- starts_w W r (snd x) ;;
        Ok (Z.to_nat (fst x) :: fst y, snd y)
  end.

Section Stream.
  Variable flog2 : F32.t -> F32.t.
  Variable fpow2 : F32.t -> F32.t.
  Variable fexp2 : F64.t -> F64.t.

  (* select_holdout *)
  Definition holdout_w (c : cfg) (st : state) (ws : stream) : res (nat * stream) :=
    let n := length (st_starts st) in
    let uniform :=
      if (n =? 0)%nat then Panic 6
      else x <- uniform_usize (Z.of_nat n) ws ;; Ok (Z.to_nat (fst x), snd x) in
    match cMode c with
    | Zoops =>
        if (st_step st <? cInertia c)%N then
          match cSeed c with
          | [] => Panic 5
          | _ => x <- gen_index (Z.of_nat (length (cSeed c))) ws ;;
                 Ok (nth (Z.to_nat (fst x)) (cSeed c) O, snd x)
          end
        else uniform
    | Oops => uniform
    end.

  Definition head64 (ws : stream) : option Z :=
    match ws with W64 v :: _ => Some v | _ => None end.

  (* Iterator::next: the words of select_holdout first, then -- only if WeightedIndex::new
     succeeded, i.e. the computed update is a draw -- one 64-bit word *)
  Definition next_w (c : cfg) (st : state) (ws : stream)
    : res ((state * option iteration) * stream) :=
    if st_conv st then Ok ((st, None), ws)
    else
      zr <- holdout_w c st ws ;;
      ch <- choice_of flog2 fpow2 fexp2 c st (fst zr) (head64 (snd zr)) ;;
      x <- next c st ch ;;
      Ok (x, match ch_upd ch with UNew _ => tl (snd zr) | _ => snd zr end).

  (* k calls of next() *)
  Fixpoint run_w (c : cfg) (st : state) (k : nat) (ws : stream)
    : res (list (state * option iteration) * stream) :=
    match k with
    | O => Ok ([], ws)
    | S k' =>
        xr <- next_w c st ws ;;
        tr <- run_w c (fst (fst xr)) k' (snd xr) ;;
        Ok (fst xr :: fst tr, snd tr)
    end.

  (* the choice list a stream determines (what [run] of C16.v is fed with) *)
  Fixpoint choices_w (c : cfg) (st : state) (k : nat) (ws : stream) : list choice :=
    match k with
    | O => []
    | S k' =>
        if st_conv st then mkChoice O UKeep true :: choices_w c st k' ws
        else
          match holdout_w c st ws with
          | Ok zr =>
              match choice_of flog2 fpow2 fexp2 c st (fst zr) (head64 (snd zr)) with
              | Ok ch =>
                  match next c st ch with
                  | Ok x => ch :: choices_w c (fst x) k'
                                 (match ch_upd ch with UNew _ => tl (snd zr) | _ => snd zr end)
                  | _ => [ch]
                  end
              | _ => []
              end
          | _ => []
          end
    end.

  (* Sampler::_new from the stream alone (initial starts, then in Zoops mode the seed set),
     then k calls of next() *)
  Definition sampler_w (K W : nat) (data : list seqt) (wraps : list nat) (m : smode)
                       (initial inertia patience : N) (k : nat) (ws : stream)
    : res ((cfg * state) * list (state * option iteration) * stream) :=
    if existsb (fun wr => (wr <? W)%nat) wraps then Panic 1
    else
      sr <- starts_w W data ws ;;
      er <- (match m with
             | Oops => Ok ([], snd sr)
             | Zoops => seeds_w (length data) initial (snd sr)
             end) ;;
      cs <- new_ K W data wraps m initial inertia patience (fst sr) (fst er) ;;
      tr <- run_w (fst cs) (snd cs) k (snd er) ;;
      Ok (cs, fst tr, snd tr).
End Stream.
