(* Whole runs: which outcomes next() / run can have (only the documented panics), the
   invariant along every choice list, soundness and completeness of the extracted
   checkers, progress under "the hold-out leaves an active sequence". *)
From Coq Require Import List Arith Bool NArith ZArith Lia.
From LMBase Require Import Res ListX.
From LMSampler Require Import SamplerModel SamplerLemmas SamplerOps SamplerSpec SamplerProofs SamplerFast.
Import ListNotations.
Local Open Scope N_scope.

(* the seed list only names sequences of the data set (established by _new) *)
Definition seed_ok (c : cfg) : Prop := Forall (fun i => (i < length (cData c))%nat) (cSeed c).

(* outcomes a call may have besides Ok: the documented panics
     5 / 6  empty seed list / empty data set in select_holdout,
     7      background() with a zero total (no symbol outside the windows of the active set),
     8      WeightedIndex::new overflow (a choice of the caller: UOverflow),
     9      step counter overflow,
   and the two "no RNG produces this choice" errors 3 (hold-out) and 4 (new start).
   Never: an index out of range (3, 10, 13), a counter overflow (11, 14) or underflow (4, 12). *)
Definition allowed {A} (r : res A) : Prop :=
  match r with
  | Ok _ => True
  | Panic s => (5 <= s <= 9)%nat
  | Err e => (e = 3 \/ e = 4)%nat
  | OutOfFuel => False
  end.

(* ---------- the background total ---------- *)

Definition bg_sum (c : cfg) (act : list bool) (starts : list nat) : N :=
  sumN (spec_bg_cell (cW c) (cData c) act starts) (cK c).

Lemma bg_total_cases c st :
  WF c -> CInv c st ->
  bg_total (st_bg st) =
  if bg_sum c (st_active st) (st_starts st) =? 0 then Panic 7
  else Ok (bg_sum c (st_active st) (st_starts st)).
Proof.
  intros Hwf Hi. unfold bg_total, bg_sum. rewrite (ci_bg c st Hi), recompute_bg_vtab.
  rewrite sum_usize_ok.
  - cbn [rbind]. rewrite N.add_0_l, lsum_vtab. reflexivity.
  - rewrite N.add_0_l, lsum_vtab.
    etransitivity; [apply sum_spec_bg_le|apply (wf_total c Hwf)].
Qed.

(* ---------- outcomes of the parts of next() ---------- *)

Lemma select_holdout_safe c st z0 :
  seed_ok c -> CInv c st ->
  match select_holdout c st z0 with
  | Ok z => z = z0 /\ (z < length (cData c))%nat
  | Panic s => (s = 5 \/ s = 6)%nat
  | Err e => e = 3%nat
  | OutOfFuel => False
  end.
Proof.
  intros Hseed Hi. unfold select_holdout. cbv zeta. rewrite (ci_starts_len c st Hi).
  assert (Hu : match (if (length (cData c) =? 0)%nat then Panic 6
                      else if (z0 <? length (cData c))%nat then Ok z0 else Err 3) with
               | Ok z => z = z0 /\ (z < length (cData c))%nat
               | Panic s => (s = 5 \/ s = 6)%nat
               | Err e => e = 3%nat
               | OutOfFuel => False
               end).
  { destruct (length (cData c) =? 0)%nat; [right; reflexivity|].
    destruct (Nat.ltb_spec z0 (length (cData c))); auto. }
  destruct (cMode c); auto.
  destruct (st_step st <? cInertia c); auto.
  destruct (cSeed c) as [|s0 sr] eqn:Es; [left; reflexivity|]. rewrite <- Es.
  destruct (existsb (Nat.eqb z0) (cSeed c)) eqn:Ex; [|reflexivity].
  split; auto. apply existsb_exists in Ex. destruct Ex as [x [Hx Hxe]].
  apply Nat.eqb_eq in Hxe. subst x. unfold seed_ok in Hseed. rewrite Forall_forall in Hseed. auto.
Qed.

Lemma update_holdout_safe c st z u :
  CInv c st -> (z < length (cData c))%nat ->
  match update_holdout c st z u with
  | Ok _ => True
  | Panic s => s = 8%nat
  | Err e => e = 4%nat
  | OutOfFuel => False
  end.
Proof.
  intros Hi Hz. unfold update_holdout. destruct u as [|s|]; auto.
  destruct ((z <? length (cData c))%nat && (s + cW c <=? length (nth z (cData c) []))%nat)%bool; auto.
  rewrite (ci_starts_len c st Hi). apply Nat.ltb_lt in Hz. rewrite Hz. exact I.
Qed.

Lemma resample_safe c st z u :
  WF c -> CInv c st -> (z < length (cData c))%nat ->
  match resample c st z u with
  | Ok _ => True
  | Panic s => (s = 7 \/ s = 8)%nat
  | Err e => e = 4%nat
  | OutOfFuel => False
  end.
Proof.
  intros Hwf Hi Hz. unfold resample.
  destruct (exclude_ok c st z Hwf Hi Hz) as [st1 [E1 [Hi1 [Ha1 [Hs1 Hc1]]]]].
  rewrite E1. cbn [rbind]. unfold prepare_pssm. rewrite (bg_total_cases c st1 Hwf Hi1).
  destruct (bg_sum c (st_active st1) (st_starts st1) =? 0); cbn [rbind]; [left; reflexivity|].
  pose proof (update_holdout_safe c st1 z u Hi1 Hz) as Hu.
  destruct (update_holdout c st1 z u) as [st2|e|s|] eqn:E2; cbn [rbind]; auto.
  assert (Hz1 : nth z (st_active st1) false = false).
  { rewrite Ha1. apply nth_upd_same. rewrite (ci_act_len c st Hi). auto. }
  destruct (update_ok c st1 z u st2 Hi1 Hz1 E2) as [Hi2 _].
  destruct (include_ok c st2 z Hwf Hi2 Hz) as [st3 [E3 _]].
  rewrite E3. cbn [rbind]. exact I.
Qed.

Lemma zoops_test_safe c st3 z accept :
  WF c -> CInv c st3 -> (z < length (cData c))%nat -> st_last st3 <= st_step st3 ->
  match zoops_test c st3 z accept with
  | Ok _ => True
  | Panic s => s = 7%nat
  | _ => False
  end.
Proof.
  intros Hwf Hi Hz Hl. unfold zoops_test, prepare_pssm. rewrite (bg_total_cases c st3 Hwf Hi).
  destruct (bg_sum c (st_active st3) (st_starts st3) =? 0); cbn [rbind]; [reflexivity|].
  destruct accept.
  - cbn [rbind st_step st_last]. unfold sub_usize. rewrite N.leb_refl. cbn [rbind]. exact I.
  - destruct (exclude_ok c st3 z Hwf Hi Hz) as [st' [E1 [_ [_ [_ [Hc1 [Hc2 _]]]]]]].
    rewrite E1. cbn [rbind]. unfold sub_usize.
    assert (E : (st_last st' <=? st_step st') = true) by (apply N.leb_le; rewrite Hc1, Hc2; exact Hl).
    rewrite E. cbn [rbind]. exact I.
Qed.

Theorem next_safe c st ch : WF c -> seed_ok c -> Inv c st -> allowed (next c st ch).
Proof.
  intros Hwf Hseed [Hi Hlast Hoops]. unfold next.
  destruct (st_conv st); [exact I|].
  pose proof (select_holdout_safe c st (ch_z ch) Hseed Hi) as Hsel.
  destruct (select_holdout c st (ch_z ch)) as [z|e|s|]; cbn [rbind allowed]; try lia; try contradiction.
  destruct Hsel as [_ Hz].
  rewrite bv_test_ok by (rewrite (ci_act_len c st Hi); auto). cbn [rbind].
  pose proof (resample_safe c st z (ch_upd ch) Hwf Hi Hz) as Hres.
  destruct (resample c st z (ch_upd ch)) as [[cm st3]|e|s|] eqn:Er; cbn [rbind allowed]; try lia; try contradiction.
  destruct (resample_ok c st z (ch_upd ch) cm st3 Hwf Hi Hz Er) as [Hi3 [_ [[Hc1 [Hc2 _]] _]]].
  cbn [fst snd].
  assert (H4 : match (match cMode c, nth z (st_active st) false with
                      | Zoops, false => zoops_test c st3 z (ch_accept ch)
                      | _, _ => Ok st3
                      end) with
               | Ok _ => True | Panic s => s = 7%nat | _ => False end).
  { destruct (cMode c), (nth z (st_active st) false); try exact I.
    apply zoops_test_safe; auto. rewrite Hc1, Hc2. exact Hlast. }
  destruct (match cMode c, nth z (st_active st) false with
            | Zoops, false => zoops_test c st3 z (ch_accept ch)
            | _, _ => Ok st3
            end) as [st4|e|s|]; cbn [rbind allowed]; try lia; try contradiction.
  destruct (st_step st4 + 1 <=? usize_max); cbn [allowed]; [exact I|lia].
Qed.

(* ---------- runs ---------- *)

(* every entry of a trace: the state left by the call satisfies the invariant and the
   call satisfies its postcondition with respect to the state before it *)
Fixpoint trace_ok (c : cfg) (st : state) (t : list (state * option iteration)) : Prop :=
  match t with
  | [] => True
  | (st', oit) :: r => Inv c st' /\ next_post c st st' oit /\ trace_ok c st' r
  end.

Theorem run_inv c chs :
  WF c -> seed_ok c -> forall st, Inv c st ->
  match run c st chs with
  | Ok t => length t = length chs /\ trace_ok c st t
  | r => allowed r
  end.
Proof.
  intros Hwf Hseed. induction chs as [|ch r IH]; intros st Hinv.
  - simpl. auto.
  - cbn [run]. pose proof (next_safe c st ch Hwf Hseed Hinv) as Hs.
    destruct (next c st ch) as [[st' oit]|e|s|] eqn:En; cbn [rbind]; auto.
    destruct (next_inv c st ch st' oit Hwf Hinv En) as [Hinv' Hpost].
    cbn [fst]. specialize (IH st' Hinv').
    destruct (run c st' r) as [t|e|s|]; cbn [rbind]; auto.
    destruct IH as [Hlen Ht]. split; [simpl; congruence|].
    cbn [trace_ok]. auto.
Qed.

(* ---------- the property as a predicate on reported traces; the extracted checkers ---------- *)

Lemma upd_false_eq (a b : list bool) z :
  length a = length b ->
  (forall i, i <> z -> nth i a false = nth i b false) ->
  upd z false a = upd z false b.
Proof.
  intros Hl H. apply (nth_ext_len _ _ false).
  - rewrite !upd_length. exact Hl.
  - intros i _. rewrite !nth_upd. rewrite <- Hl.
    destruct (Nat.eqb_spec z i) as [<-|Hne].
    + destruct (Nat.ltb_spec z (length a)) as [Hlt|Hge]; auto.
      rewrite (nth_overflow a) by lia. rewrite (nth_overflow b) by lia. reflexivity.
    + apply H. auto.
Qed.

Section Checkers.
  Variable freq : N -> N -> Z.

  (* what C16 says about one reported state: the count matrix is the recomputation from
     the alignment (active set, starts), the background is the normalised recomputed
     background counts, the sequence count is the size of the active set, every window
     lies inside its sequence *)
  Definition state_holds (K W : nat) (data : list seqt) (r : report) : Prop :=
    length (r_active r) = length data /\
    length (r_starts r) = length data /\
    (forall i, (i < length data)%nat -> (nth i (r_starts r) O + W <= length (nth i data []))%nat) /\
    r_cm r = recompute_motif K W data (r_active r) (r_starts r) /\
    r_bg r = expected_bg_bits freq K W data (r_active r) (r_starts r) /\
    r_n r = count_true (r_active r).

  (* what C16 says about the counts reported with an iteration, relative to an alignment *)
  Definition iteration_holds (K W : nat) (data : list seqt) (act : list bool) (starts : list nat)
                             (it : iteration) : Prop :=
    (it_z it < length data)%nat /\
    it_counts it = recompute_motif K W data (upd (it_z it) false act) starts /\
    it_n it = count_true (upd (it_z it) false act).

  Definition step_holds (K W : nat) (data : list seqt) (idx : N) (prev : report) (o : ostep) : Prop :=
    state_holds K W data (o_rep o) /\
    iteration_holds K W data (r_active prev) (r_starts prev) (o_it o) /\
    iteration_holds K W data (r_active (o_rep o)) (r_starts (o_rep o)) (o_it o) /\
    it_step (o_it o) = idx.

  Fixpoint steps_hold (K W : nat) (data : list seqt) (idx : N) (prev : report) (os : list ostep) : Prop :=
    match os with
    | [] => True
    | o :: r => step_holds K W data idx prev o /\ steps_hold K W data (idx + 1) (o_rep o) r
    end.

  Definition Holds_C16 (K W : nat) (data : list seqt) (init : report) (os : list ostep) : Prop :=
    state_holds K W data init /\ steps_hold K W data 0 init os.

  Lemma opt_bits_eqb_eq a b : opt_bits_eqb a b = true -> a = b.
  Proof.
    destruct a as [x|], b as [y|]; simpl; intros H; try discriminate; auto.
    f_equal. revert H. apply list_eqb_eq. intros u v Huv. apply Z.eqb_eq. exact Huv.
  Qed.

  Lemma opt_bits_eqb_refl a : opt_bits_eqb a a = true.
  Proof. destruct a as [x|]; simpl; auto. apply list_eqb_refl. apply Z.eqb_refl. Qed.

  Lemma check_state_iff K W data r : check_state freq K W data r = true <-> state_holds K W data r.
  Proof.
    unfold check_state, check_range, check_motif, check_bg, check_n, state_holds.
    rewrite motif_of_eq.
    rewrite !andb_true_iff, Nat.eqb_eq, N.eqb_eq, starts_in_range_spec. split.
    - intros [[[[Hl [Hls Hr]] Hm] Hb] Hn]. apply matrix_eqb_eq in Hm. apply opt_bits_eqb_eq in Hb.
      repeat split; auto.
    - intros [Hl [Hls [Hr [Hm [Hb Hn]]]]]. repeat split; auto.
      + rewrite Hm at 1. apply matrix_eqb_refl.
      + rewrite Hb at 1. apply opt_bits_eqb_refl.
  Qed.

  Lemma check_iteration_iff K W data act starts it :
    check_iteration K W data act starts it = true <-> iteration_holds K W data act starts it.
  Proof.
    unfold check_iteration, iteration_holds. rewrite motif_of_eq. rewrite !andb_true_iff, N.eqb_eq, Nat.ltb_lt. split.
    - intros [[Hm Hn] Hz]. apply matrix_eqb_eq in Hm. auto.
    - intros [Hz [Hm Hn]]. repeat split; auto. rewrite Hm at 1. apply matrix_eqb_refl.
  Qed.

  Lemma check_step_iff K W data idx prev o :
    check_step freq K W data idx prev o = true <-> step_holds K W data idx prev o.
  Proof.
    unfold check_step, step_holds.
    rewrite !andb_true_iff, check_state_iff, !check_iteration_iff, N.eqb_eq. tauto.
  Qed.

  Lemma check_steps_iff K W data os : forall idx prev,
    check_steps freq K W data idx prev os = true <-> steps_hold K W data idx prev os.
  Proof.
    induction os as [|o r IH]; intros idx prev; cbn [check_steps steps_hold]; [tauto|].
    rewrite andb_true_iff, check_step_iff, IH. tauto.
  Qed.

  Theorem check_C16_iff K W data init os :
    check_C16 freq K W data init os = true <-> Holds_C16 K W data init os.
  Proof.
    unfold check_C16, Holds_C16. rewrite andb_true_iff, check_state_iff, check_steps_iff. tauto.
  Qed.

  (* ---------- the model's reports satisfy the predicate ---------- *)

  Lemma report_holds c st :
    CInv c st -> state_holds (cK c) (cW c) (cData c) (report_of freq st).
  Proof.
    intros Hi. unfold state_holds, report_of. cbn [r_active r_starts r_cm r_bg r_n].
    pose proof (proj1 (starts_in_range_spec _ _ _) (ci_range c st Hi)) as [Hls Hr].
    split; [apply (ci_act_len c st Hi)|]. split; [exact Hls|]. split; [exact Hr|].
    split; [apply (ci_motif c st Hi)|]. split; [|apply (ci_count c st Hi)].
    unfold expected_bg_bits. rewrite <- (ci_bg c st Hi). reflexivity.
  Qed.

  Lemma trace_holds c t : forall st idx,
    Inv c st -> trace_ok c st t -> st_step st = idx ->
    steps_hold (cK c) (cW c) (cData c) idx (report_of freq st) (obs_of_trace freq t).
  Proof.
    induction t as [|[st' oit] r IH]; intros st idx Hinv Ht Hidx; [exact I|].
    cbn [trace_ok] in Ht. destruct Ht as [Hinv' [Hpost Ht]].
    destruct oit as [it|]; cbn [obs_of_trace next_post] in *.
    - destruct Hpost as [_ [Hz [Hstep [Hstep' [Hc1 [Hc2 [Hn [Hoth _]]]]]]]].
      cbn [steps_hold]. split.
      + unfold step_holds. cbn [o_rep o_it]. split; [apply report_holds; apply (inv_core c st' Hinv')|].
        unfold iteration_holds, report_of. cbn [r_active r_starts].
        assert (Hu : upd (it_z it) false (st_active st') = upd (it_z it) false (st_active st)).
        { apply upd_false_eq.
          - rewrite (ci_act_len c st' (inv_core c st' Hinv')), (ci_act_len c st (inv_core c st Hinv)). reflexivity.
          - intros i Hne. apply (Hoth i Hne). }
        split; [auto|]. split; [|congruence].
        split; [exact Hz|]. split; [exact Hc2|]. rewrite Hu. exact Hn.
      + apply IH; auto. rewrite Hstep'. rewrite Hidx. reflexivity.
    - destruct Hpost as [-> _]. apply IH; auto.
  Qed.

  Theorem run_holds c st t :
    Inv c st -> st_step st = 0 -> trace_ok c st t ->
    Holds_C16 (cK c) (cW c) (cData c) (report_of freq st) (obs_of_trace freq t).
  Proof.
    intros Hinv E Ht.
    split; [apply report_holds; apply (inv_core c st Hinv)|]. apply trace_holds; auto.
  Qed.

  (* construction followed by any choice list *)
  Theorem new_run_holds K W data wraps m initial inertia patience starts0 seeds0 chs :
    data_ok K W data ->
    Forall (fun wr => (W <= wr)%nat) wraps ->
    starts_in_range W data starts0 = true ->
    (m = Zoops -> seeds_ok (length data) initial seeds0) ->
    exists c st0,
      new_ K W data wraps m initial inertia patience starts0 seeds0 = Ok (c, st0) /\
      match run c st0 chs with
      | Ok t => length t = length chs /\
                Holds_C16 K W data (report_of freq st0) (obs_of_trace freq t)
      | r => allowed r
      end.
  Proof.
    intros Hd Hw Hr Hs.
    destruct (new_ok K W data wraps m initial inertia patience starts0 seeds0 Hd Hw Hr Hs)
      as [c [st0 [E [Hwf [Hinv [Hc [_ [Hstep _]]]]]]]].
    exists c, st0. split; [exact E|].
    assert (Hseed : seed_ok c).
    { unfold seed_ok. rewrite Hc. cbn [cSeed cData]. destruct m; [constructor|].
      destruct (Hs eq_refl) as [_ [Hlt _]]. exact Hlt. }
    pose proof (run_inv c chs Hwf Hseed st0 Hinv) as Hrun.
    destruct (run c st0 chs) as [t|e|s|]; auto.
    destruct Hrun as [Hlen Ht]. split; [exact Hlen|].
    pose proof (run_holds c st0 t Hinv Hstep Ht) as H. rewrite Hc in H. cbn [cK cW cData] in H. exact H.
  Qed.
End Checkers.

(* ---------- progress: the only panic left is the empty active set ---------- *)

(* the premise of the property: every sequence is longer than the width *)
Definition strict_len (c : cfg) : Prop := Forall (fun s => (cW c < length s)%nat) (cData c).

Lemma bg_sum_pos c act starts i :
  WF c -> strict_len c -> starts_in_range (cW c) (cData c) starts = true ->
  (i < length (cData c))%nat -> nth i act false = true ->
  0 < bg_sum c act starts.
Proof.
  intros Hwf Hstrict Hr Hi Ha. unfold bg_sum.
  rewrite (sum_spec_bg_eq (cK c) (cW c) (cData c) act starts (wf_syms c Hwf) Hr).
  eapply N.lt_le_trans; [|apply (sumN_term_le _ (length (cData c)) i Hi)].
  cbv beta. rewrite Ha. cbv iota.
  pose proof (Forall_nth_lt _ (cData c) i [] Hstrict Hi) as Hl. cbv beta in Hl. unfold seqt in *. lia.
Qed.

Lemma bg_sum_zero c act starts :
  (forall i, (i < length (cData c))%nat -> nth i act false = false) ->
  bg_sum c act starts = 0.
Proof.
  intros H. unfold bg_sum. apply sumN_zero. intros k _. unfold spec_bg_cell.
  apply sumN_zero. intros i Hi. unfold contrib_bg. rewrite (H i Hi). reflexivity.
Qed.

(* background() panics exactly when no sequence is active *)
Theorem background_panics_iff_no_active c st :
  WF c -> strict_len c -> CInv c st ->
  (bg_total (st_bg st) = Panic 7 <->
   forall i, (i < length (cData c))%nat -> nth i (st_active st) false = false) /\
  (forall r, bg_total (st_bg st) = r -> r = Panic 7 \/ exists t, r = Ok t /\ 0 < t).
Proof.
  intros Hwf Hs Hi. rewrite (bg_total_cases c st Hwf Hi). split; [split|].
  - intros H i Hlt. destruct (nth i (st_active st) false) eqn:Ea; auto.
    pose proof (bg_sum_pos c (st_active st) (st_starts st) i Hwf Hs (ci_range c st Hi) Hlt Ea) as Hp.
    destruct (N.eqb_spec (bg_sum c (st_active st) (st_starts st)) 0); [lia|discriminate].
  - intros H. rewrite (bg_sum_zero c _ _ H). reflexivity.
  - intros r <-. destruct (N.eqb_spec (bg_sum c (st_active st) (st_starts st)) 0); [left; auto|].
    right. eexists. split; [reflexivity|lia].
Qed.

(* a choice some RNG can produce in state st, that does not overflow the weights and
   leaves an active sequence besides the hold-out *)
Definition choice_ok (c : cfg) (st : state) (ch : choice) : Prop :=
  st_conv st = true \/
  ((ch_z ch < length (cData c))%nat /\
   (cMode c = Zoops -> st_step st < cInertia c -> In (ch_z ch) (cSeed c)) /\
   match ch_upd ch with
   | UKeep => True
   | UNew s => (s + cW c <= length (nth (ch_z ch) (cData c) []))%nat
   | UOverflow => False
   end /\
   (exists i, i <> ch_z ch /\ (i < length (cData c))%nat /\ nth i (st_active st) false = true) /\
   st_step st < usize_max).

Lemma select_holdout_ok c st z :
  CInv c st -> (z < length (cData c))%nat ->
  (cMode c = Zoops -> st_step st < cInertia c -> In z (cSeed c)) ->
  select_holdout c st z = Ok z.
Proof.
  intros Hi Hz Hseed. unfold select_holdout. cbv zeta. rewrite (ci_starts_len c st Hi).
  assert (E0 : (length (cData c) =? 0)%nat = false) by (apply Nat.eqb_neq; lia).
  assert (E1 : (z <? length (cData c))%nat = true) by (apply Nat.ltb_lt; auto).
  rewrite E0, E1. destruct (cMode c); auto.
  destruct (N.ltb_spec (st_step st) (cInertia c)) as [Hlt|]; auto.
  specialize (Hseed eq_refl Hlt).
  assert (Ex : existsb (Nat.eqb z) (cSeed c) = true).
  { apply existsb_exists. exists z. split; auto. apply Nat.eqb_refl. }
  rewrite Ex. destruct (cSeed c); [contradiction|reflexivity].
Qed.

Theorem next_progress c st ch :
  WF c -> strict_len c -> Inv c st -> choice_ok c st ch ->
  exists st' oit, next c st ch = Ok (st', oit).
Proof.
  intros Hwf Hstrict Hinv Hch. pose proof Hinv as [Hi Hlast Hoops]. unfold next.
  destruct (st_conv st) eqn:Econv; [eauto|].
  destruct Hch as [Hch|[Hz [Hsel [Hupd [[i [Hne [Hilt Hia]]] Hstep]]]]]; [congruence|].
  set (z := ch_z ch) in *.
  rewrite (select_holdout_ok c st z Hi Hz Hsel). cbn [rbind].
  assert (Hza : (z < length (st_active st))%nat) by (rewrite (ci_act_len c st Hi); auto).
  rewrite (bv_test_ok _ _ Hza). cbn [rbind].
  (* resample *)
  assert (Hres : exists cm st3, resample c st z (ch_upd ch) = Ok (cm, st3)).
  { unfold resample.
    destruct (exclude_ok c st z Hwf Hi Hz) as [st1 [E1 [Hi1 [Ha1 [Hs1 Hc1]]]]].
    rewrite E1. cbn [rbind]. unfold prepare_pssm. rewrite (bg_total_cases c st1 Hwf Hi1).
    assert (Hp : 0 < bg_sum c (st_active st1) (st_starts st1)).
    { apply (bg_sum_pos c _ _ i Hwf Hstrict (ci_range c st1 Hi1) Hilt).
      rewrite Ha1, nth_upd_other by auto. exact Hia. }
    destruct (N.eqb_spec (bg_sum c (st_active st1) (st_starts st1)) 0) as [E0|_]; [lia|]. cbn [rbind].
    assert (Hu : exists st2, update_holdout c st1 z (ch_upd ch) = Ok st2).
    { unfold update_holdout. destruct (ch_upd ch) as [|s|]; [eauto| |contradiction].
      apply Nat.ltb_lt in Hz. apply Nat.leb_le in Hupd. rewrite Hz, Hupd. cbn [andb].
      rewrite (ci_starts_len c st1 Hi1), Hz. eauto. }
    destruct Hu as [st2 E2]. rewrite E2. cbn [rbind].
    assert (Hz1 : nth z (st_active st1) false = false).
    { rewrite Ha1. apply nth_upd_same. auto. }
    destruct (update_ok c st1 z (ch_upd ch) st2 Hi1 Hz1 E2) as [Hi2 _].
    destruct (include_ok c st2 z Hwf Hi2 Hz) as [st3 [E3 _]].
    rewrite E3. cbn [rbind]. eauto. }
  destruct Hres as [cm [st3 Er]]. rewrite Er. cbn [rbind fst snd].
  destruct (resample_ok c st z (ch_upd ch) cm st3 Hwf Hi Hz Er) as [Hi3 [Ha3 [[Hc1 [Hc2 Hc3]] _]]].
  assert (H4 : exists st4, (match cMode c, nth z (st_active st) false with
                            | Zoops, false => zoops_test c st3 z (ch_accept ch)
                            | _, _ => Ok st3
                            end) = Ok st4 /\ st_step st4 = st_step st).
  { destruct (cMode c), (nth z (st_active st) false); eauto.
    destruct (zoops_test c st3 z (ch_accept ch)) as [st4|e|s|] eqn:Ez.
    - exists st4. split; auto.
      destruct (zoops_test_ok c st3 z (ch_accept ch) st4 Hwf Hi3 Hz Ez) as [_ [Hs4 _]]. congruence.
    - pose proof (zoops_test_safe c st3 z (ch_accept ch) Hwf Hi3 Hz ltac:(rewrite Hc1, Hc2; exact Hlast)) as Hsafe.
      rewrite Ez in Hsafe. contradiction.
    - exfalso. revert Ez. unfold zoops_test, prepare_pssm. rewrite (bg_total_cases c st3 Hwf Hi3).
      assert (Hp : 0 < bg_sum c (st_active st3) (st_starts st3)).
      { apply (bg_sum_pos c _ _ i Hwf Hstrict (ci_range c st3 Hi3) Hilt).
        rewrite Ha3, nth_upd_other by auto. exact Hia. }
      destruct (N.eqb_spec (bg_sum c (st_active st3) (st_starts st3)) 0) as [E0|_]; [lia|]. cbn [rbind].
      destruct (ch_accept ch).
      + cbn [rbind st_step st_last]. unfold sub_usize. rewrite N.leb_refl. cbn [rbind]. discriminate.
      + destruct (exclude_ok c st3 z Hwf Hi3 Hz) as [st' [E1 [_ [_ [_ [Hd1 [Hd2 _]]]]]]].
        rewrite E1. cbn [rbind]. unfold sub_usize.
        assert (E : (st_last st' <=? st_step st') = true)
          by (apply N.leb_le; rewrite Hd1, Hd2, Hc1, Hc2; exact Hlast).
        rewrite E. cbn [rbind]. discriminate.
    - pose proof (zoops_test_safe c st3 z (ch_accept ch) Hwf Hi3 Hz ltac:(rewrite Hc1, Hc2; exact Hlast)) as Hsafe.
      rewrite Ez in Hsafe. contradiction. }
  destruct H4 as [st4 [E4 Hs4]]. rewrite E4. cbn [rbind].
  assert (E5 : (st_step st4 + 1 <=? usize_max) = true) by (apply N.leb_le; lia).
  rewrite E5. eauto.
Qed.

(* a choice list whose every choice is possible in the state it meets *)
Fixpoint choices_ok (c : cfg) (st : state) (chs : list choice) : Prop :=
  match chs with
  | [] => True
  | ch :: r => choice_ok c st ch /\
               forall st' oit, next c st ch = Ok (st', oit) -> choices_ok c st' r
  end.

Theorem run_progress c chs :
  WF c -> strict_len c -> forall st, Inv c st -> choices_ok c st chs ->
  exists t, run c st chs = Ok t.
Proof.
  intros Hwf Hstrict. induction chs as [|ch r IH]; intros st Hinv Hok; [simpl; eauto|].
  cbn [choices_ok] in Hok. destruct Hok as [Hch Hrest].
  destruct (next_progress c st ch Hwf Hstrict Hinv Hch) as [st' [oit En]].
  cbn [run]. rewrite En. cbn [rbind fst].
  destruct (next_inv c st ch st' oit Hwf Hinv En) as [Hinv' _].
  destruct (IH st' Hinv' (Hrest st' oit En)) as [t Et]. rewrite Et. cbn [rbind]. eauto.
Qed.

(* ---------- states of a trace; prefixes; Oops ---------- *)

Lemma trace_ok_states c t : forall st, trace_ok c st t -> Forall (fun x => Inv c (fst x)) t.
Proof.
  induction t as [|[st' oit] r IH]; intros st H; constructor.
  - cbn [trace_ok] in H. cbn [fst]. tauto.
  - cbn [trace_ok] in H. apply (IH st'). tauto.
Qed.

(* the trace of the first calls does not depend on later choices *)
Lemma run_prefix c chs1 chs2 : forall st t,
  run c st (chs1 ++ chs2) = Ok t ->
  exists t1 t2, t = t1 ++ t2 /\ run c st chs1 = Ok t1 /\ length t1 = length chs1.
Proof.
  induction chs1 as [|ch r IH]; intros st t H.
  - exists [], t. simpl. auto.
  - cbn [app run] in *. destruct (next c st ch) as [x|e|s|]; cbn [rbind] in *; try discriminate.
    destruct (run c (fst x) (r ++ chs2)) as [t'|e|s|] eqn:E; cbn [rbind] in *; try discriminate.
    inversion H; subst t; clear H.
    destruct (IH (fst x) t' E) as [t1 [t2 [-> [E1 Hl]]]].
    exists (x :: t1), t2. rewrite E1. cbn [rbind]. repeat split; simpl; auto.
Qed.

(* Oops: every sequence stays active (field inv_oops of Inv) and the sampler never converges *)
Lemma next_oops_conv c st ch st' oit :
  WF c -> Inv c st -> cMode c = Oops -> st_conv st = false ->
  next c st ch = Ok (st', oit) -> st_conv st' = false /\ oit <> None.
Proof.
  intros Hwf [Hi Hlast Hoops] Hm Hconv. unfold next. rewrite Hconv, Hm.
  destruct (select_holdout c st (ch_z ch)) as [z| | |]; cbn [rbind]; try discriminate.
  destruct (bv_test (st_active st) z) as [a| | |] eqn:Ea; cbn [rbind]; try discriminate.
  apply bv_test_inv in Ea. destruct Ea as [Hza _].
  assert (Hz : (z < length (cData c))%nat) by (rewrite <- (ci_act_len c st Hi); auto).
  destruct (resample c st z (ch_upd ch)) as [[cm st3]| | |] eqn:Er; cbn [rbind]; try discriminate.
  destruct (resample_ok c st z (ch_upd ch) cm st3 Hwf Hi Hz Er) as [_ [_ [[_ [_ Hc3]] _]]].
  cbn [fst snd]. destruct (st_step st3 + 1 <=? usize_max); try discriminate.
  intros H. inversion H; subst. cbn [st_conv]. split; [congruence|discriminate].
Qed.

Lemma run_oops c chs : WF c -> cMode c = Oops -> forall st t,
  Inv c st -> st_conv st = false -> run c st chs = Ok t ->
  Forall (fun x => st_conv (fst x) = false /\ snd x <> None /\
                   forall i, (i < length (cData c))%nat -> nth i (st_active (fst x)) false = true) t.
Proof.
  intros Hwf Hm. induction chs as [|ch r IH]; intros st t Hinv Hconv H.
  - simpl in H. inversion H. constructor.
  - cbn [run] in H. destruct (next c st ch) as [[st' oit]|e|s|] eqn:En; cbn [rbind] in H; try discriminate.
    cbn [fst] in H. destruct (run c st' r) as [t'|e|s|] eqn:E; cbn [rbind] in H; try discriminate.
    inversion H; subst t; clear H.
    destruct (next_inv c st ch st' oit Hwf Hinv En) as [Hinv' _].
    destruct (next_oops_conv c st ch st' oit Hwf Hinv Hm Hconv En) as [Hc' Hsome].
    constructor.
    + cbn [fst snd]. split; [exact Hc'|]. split; [exact Hsome|]. apply (inv_oops c st' Hinv' Hm).
    + apply (IH st'); auto.
Qed.

(* ---------- reading of the recomputation (validation of the specification itself) ---------- *)

Lemma skipn_add {A} (l : list A) a b : skipn b (skipn a l) = skipn (a + b) l.
Proof.
  revert l; induction a as [|a IH]; intros l; [reflexivity|].
  destruct l as [|x l]; simpl; [destruct b; reflexivity|apply IH].
Qed.

Lemma count_sym_app a b k : count_sym (a ++ b) k = count_sym a k + count_sym b k.
Proof. induction a as [|x a IH]; simpl; [reflexivity|]. rewrite IH. lia. Qed.

(* symbol counts minus window counts = counts of the sequence with its window cut out *)
Lemma outside_window W s st k :
  count_sym s k - win_count W s st k = count_sym (firstn st s ++ skipn (st + W) s) k.
Proof.
  unfold win_count.
  rewrite <- (firstn_skipn st s) at 1. rewrite !count_sym_app.
  rewrite <- (firstn_skipn W (skipn st s)) at 1. rewrite count_sym_app.
  rewrite skipn_add. set (b := count_sym (firstn W (skipn st s)) k).
  set (a := count_sym (firstn st s) k). set (d := count_sym (skipn (st + W) s) k).
  clearbody a b d. lia.
Qed.

Lemma spec_bg_outside W data act starts k :
  spec_bg_cell W data act starts k =
  sumN (fun i => if nth i act false
                 then count_sym (firstn (nth i starts O) (nth i data [])
                                 ++ skipn (nth i starts O + W) (nth i data [])) k
                 else 0) (length data).
Proof.
  unfold spec_bg_cell. apply sumN_ext. intros i _. unfold contrib_bg.
  destruct (nth i act false); [apply outside_window|reflexivity].
Qed.

(* every row of the recomputed count matrix sums to the number of active sequences *)
Lemma spec_motif_row_sum K W data act starts j :
  Forall (Forall (fun a => (a < K)%nat)) data ->
  length act = length data ->
  starts_in_range W data starts = true ->
  (j < W)%nat ->
  sumN (spec_motif_cell data act starts j) K = count_true act.
Proof.
  intros Hs Hl Hr Hj. apply starts_in_range_spec in Hr. destruct Hr as [_ Hr].
  unfold spec_motif_cell, count_true.
  change (sumN (fun k => sumN (fun i => contrib_motif data act starts j k i) (length data)) K
          = sumN (fun i => ind (nth i act false)) (length act)).
  rewrite <- (sumN_exchange (fun i k => contrib_motif data act starts j k i) (length data) K).
  rewrite Hl. apply sumN_ext. intros i Hi. unfold contrib_motif.
  destruct (nth i act false); [|apply sumN_zero; auto].
  specialize (Hr i Hi).
  rewrite (sumN_ext _ (fun k => ind (Nat.eqb (nth (nth i starts O + j) (nth i data []) O) k))).
  - rewrite sum_ind_eq.
    assert (Hlt : (nth (nth i starts O + j) (nth i data []) O < K)%nat).
    { apply sym_lt; [|unfold seqt in *; lia]. apply Forall_nth_lt; auto. }
    apply Nat.ltb_lt in Hlt. rewrite Hlt. reflexivity.
  - intros k _. apply win_cell_nth. unfold seqt in *. lia.
Qed.

Lemma motif_row_sum c st j :
  WF c -> CInv c st -> (j < cW c)%nat ->
  sumN (mcell (st_motif st) j) (cK c) = st_count st.
Proof.
  intros Hwf Hi Hj. rewrite (ci_motif c st Hi), (ci_count c st Hi), recompute_motif_mtab.
  rewrite (sumN_ext _ (spec_motif_cell (cData c) (st_active st) (st_starts st) j))
    by (intros k Hk; apply mcell_mtab; auto).
  apply (spec_motif_row_sum (cK c) (cW c)); auto.
  - apply (wf_syms c Hwf).
  - apply (ci_act_len c st Hi).
  - apply (ci_range c st Hi).
Qed.

(* ---------- the accessors active_sequences() / active_starts() ---------- *)

Lemma filter_idx_In a : forall off i,
  In i (filter_idx a off) <-> (off <= i < off + length a)%nat /\ nth (i - off) a false = true.
Proof.
  induction a as [|b a IH]; intros off i; cbn [filter_idx length].
  - split; [contradiction|]. intros [H _]. lia.
  - assert (Hrest : In i (filter_idx a (S off)) <->
                    (S off <= i < off + S (length a))%nat /\ nth (i - off) (b :: a) false = true).
    { rewrite IH. split; intros [H1 H2]; (split; [lia|]).
      - replace (i - off)%nat with (S (i - S off)) by lia. exact H2.
      - replace (i - off)%nat with (S (i - S off)) in H2 by lia. exact H2. }
    destruct b; cbn [In]; rewrite Hrest.
    + split.
      * intros [<-|[H1 H2]]; [split; [lia|]; rewrite Nat.sub_diag; reflexivity|split; [lia|exact H2]].
      * intros [H1 H2]. destruct (Nat.eq_dec off i) as [->|Hne]; [left; reflexivity|right; split; [lia|exact H2]].
    + split.
      * intros [H1 H2]. split; [lia|exact H2].
      * intros [H1 H2]. split; [|exact H2].
        destruct (Nat.eq_dec off i) as [->|Hne]; [rewrite Nat.sub_diag in H2; discriminate|lia].
Qed.

Lemma filter_idx_length a : forall off, N.of_nat (length (filter_idx a off)) = count_true a.
Proof.
  induction a as [|b a IH]; intros off; [reflexivity|].
  unfold count_true. cbn [length]. rewrite sumN_shift. cbn [nth].
  change (sumN (fun i => ind (nth i a false)) (length a)) with (count_true a).
  cbn [filter_idx]. destruct b; cbn [length ind]; rewrite <- (IH (S off)); lia.
Qed.

Theorem accessors_spec c st :
  CInv c st ->
  (forall i, In i (active_sequences st) <->
             (i < length (cData c))%nat /\ nth i (st_active st) false = true) /\
  N.of_nat (length (active_sequences st)) = st_count st /\
  active_starts st = Ok (map (fun i => nth i (st_starts st) O) (active_sequences st)).
Proof.
  intros Hi. unfold active_sequences, active_starts. split; [|split].
  - intros i. rewrite filter_idx_In, Nat.sub_0_r, (ci_act_len c st Hi). split; intros [H1 H2]; (split; [lia|exact H2]).
  - rewrite filter_idx_length. symmetry. apply (ci_count c st Hi).
  - assert (E : forallb (fun i => (i <? length (st_starts st))%nat) (filter_idx (st_active st) 0) = true).
    { apply forallb_forall. intros i Hin. apply filter_idx_In in Hin. destruct Hin as [H1 _].
      apply Nat.ltb_lt. rewrite (ci_starts_len c st Hi), <- (ci_act_len c st Hi). lia. }
    unfold active_sequences. rewrite E. reflexivity.
Qed.

(* ---------- inertia / patience / last_inclusion bookkeeping ---------- *)

Lemma zoops_test_spec c st3 z accept st4 :
  WF c -> CInv c st3 -> (z < length (cData c))%nat ->
  zoops_test c st3 z accept = Ok st4 ->
  st_last st4 = (if accept then st_step st3 else st_last st3) /\
  st_conv st4 = (st_conv st3 || (cPatience c <? st_step st3 - st_last st4))%bool /\
  nth z (st_active st4) false = (if accept then nth z (st_active st3) false else false).
Proof.
  intros Hwf Hi Hz. unfold zoops_test, prepare_pssm.
  destruct (bg_total (st_bg st3)) as [t| | |]; cbn [rbind]; try discriminate.
  destruct accept.
  - cbn [rbind st_step st_last]. unfold sub_usize. rewrite N.leb_refl. cbn [rbind].
    rewrite N.sub_diag. intros H. inversion H; subst; clear H.
    assert (E : (cPatience c <? 0) = false) by (apply N.ltb_ge; lia). rewrite E.
    cbn [st_last st_conv st_active st_step]. rewrite N.sub_diag, E, orb_false_r. auto.
  - destruct (exclude_ok c st3 z Hwf Hi Hz) as [st' [E1 [_ [Ha' [_ [Hc1 [Hc2 Hc3]]]]]]].
    rewrite E1. cbn [rbind]. unfold sub_usize.
    destruct (st_last st' <=? st_step st'); cbn [rbind]; try discriminate.
    intros H. inversion H; subst; clear H. rewrite Hc1, Hc2.
    assert (Hzf : nth z (st_active st') false = false).
    { rewrite Ha'. apply nth_upd_same. rewrite (ci_act_len c st3 Hi). exact Hz. }
    destruct (cPatience c <? st_step st3 - st_last st3) eqn:Ep;
      cbn [st_last st_conv st_active st_step]; rewrite ?Hc1, ?Hc2, ?Hc3, ?Ep, ?orb_true_r, ?orb_false_r; auto.
Qed.

(* the trial of an inactive sequence in Zoops mode *)
Definition zoops_trial (c : cfg) (st : state) (z : nat) : bool :=
  match cMode c with Zoops => negb (nth z (st_active st) false) | Oops => false end.

Theorem next_bookkeeping c st ch st' it :
  WF c -> Inv c st -> next c st ch = Ok (st', Some it) ->
  (* inertia: during the first cInertia steps only seed sequences are held out *)
  (cMode c = Zoops -> st_step st < cInertia c -> In (it_z it) (cSeed c)) /\
  (* the hold-out ends up active unless it was an inactive sequence on trial and was rejected *)
  nth (it_z it) (st_active st') false =
    (if zoops_trial c st (it_z it) then ch_accept ch else true) /\
  (* last_inclusion: the step of the last accepted trial *)
  st_last st' = (if (zoops_trial c st (it_z it) && ch_accept ch)%bool then st_step st else st_last st) /\
  (* convergence: a rejected trial more than cPatience steps after the last inclusion *)
  st_conv st' = (zoops_trial c st (it_z it) && (cPatience c <? st_step st - st_last st'))%bool.
Proof.
  intros Hwf [Hi Hlast Hoops]. unfold next.
  destruct (st_conv st) eqn:Econv; [discriminate|].
  destruct (select_holdout c st (ch_z ch)) as [z| | |] eqn:Esel; cbn [rbind]; try discriminate.
  destruct (bv_test (st_active st) z) as [a| | |] eqn:Ea; cbn [rbind]; try discriminate.
  apply bv_test_inv in Ea. destruct Ea as [Hza Ea].
  assert (Hz : (z < length (cData c))%nat) by (rewrite <- (ci_act_len c st Hi); auto).
  destruct (resample c st z (ch_upd ch)) as [[cm st3]| | |] eqn:Er; cbn [rbind]; try discriminate.
  destruct (resample_ok c st z (ch_upd ch) cm st3 Hwf Hi Hz Er) as [Hi3 [Ha3 [[Hc1 [Hc2 Hc3]] _]]].
  cbn [fst snd].
  assert (Hz3 : nth z (st_active st3) false = true).
  { rewrite Ha3. apply nth_upd_same. exact Hza. }
  assert (Hseed : cMode c = Zoops -> st_step st < cInertia c -> In z (cSeed c)).
  { intros Hm Hlt. revert Esel. unfold select_holdout. cbv zeta. rewrite Hm.
    apply N.ltb_lt in Hlt. rewrite Hlt. destruct (cSeed c) as [|s0 sr] eqn:Es; [discriminate|].
    rewrite <- Es. destruct (existsb (Nat.eqb (ch_z ch)) (cSeed c)) eqn:Ex; [|discriminate].
    intros H. inversion H; subst z. apply existsb_exists in Ex. destruct Ex as [x [Hx Hxe]].
    apply Nat.eqb_eq in Hxe. subst x. exact Hx. }
  unfold zoops_trial.
  destruct (cMode c) eqn:Em.
  - (* Oops *)
    assert (E4 : (if a then Ok st3 else Ok st3) = Ok st3 :> res state) by (destruct a; reflexivity).
    cbv iota. try rewrite E4. destruct a; cbn [rbind];
    (destruct (st_step st3 + 1 <=? usize_max); [|intros H; discriminate H]);
    intros H; inversion H; subst st' it; clear H;
    cbn [it_z st_active st_last st_conv andb]; rewrite Hz3, Hc2, Hc3, Econv;
    (split; [intros Hm; discriminate Hm|]); auto.
  - (* Zoops *)
    destruct a eqn:Eaa.
    + cbn [rbind]. destruct (st_step st3 + 1 <=? usize_max); [|intros H; discriminate H].
      intros H. inversion H; subst st' it; clear H.
      cbn [it_z st_active st_last st_conv andb negb]. rewrite <- Ea. cbn [andb negb].
      rewrite Hz3, Hc2, Hc3, Econv.
      split; [exact Hseed|]. auto.
    + destruct (zoops_test c st3 z (ch_accept ch)) as [st4| | |] eqn:E4; cbn [rbind]; try discriminate.
      destruct (zoops_test_spec c st3 z (ch_accept ch) st4 Hwf Hi3 Hz E4) as [Hl4 [Hv4 Hact4]].
      destruct (st_step st4 + 1 <=? usize_max); [|intros H; discriminate H].
      intros H. inversion H; subst st' it; clear H.
      cbn [it_z st_active st_last st_conv andb negb]. rewrite <- Ea. cbn [andb negb].
      split; [exact Hseed|]. split; [|split].
      * rewrite Hact4, Hz3. destruct (ch_accept ch); reflexivity.
      * rewrite Hl4, Hc1, Hc2. reflexivity.
      * rewrite Hv4, Hc3, Econv, Hc1. reflexivity.
Qed.

(* Zoops: while the step counter has not passed the inertia, only seed sequences are active *)
Definition inertia_inv (c : cfg) (st : state) : Prop :=
  cMode c = Zoops -> st_step st <= cInertia c ->
  forall i, nth i (st_active st) false = true -> In i (cSeed c).

Lemma next_inertia_inv c st ch st' oit :
  WF c -> Inv c st -> inertia_inv c st -> next c st ch = Ok (st', oit) -> inertia_inv c st'.
Proof.
  intros Hwf Hinv HJ En.
  destruct (next_inv c st ch st' oit Hwf Hinv En) as [_ Hpost].
  destruct oit as [it|]; cbn [next_post] in Hpost.
  - destruct Hpost as [_ [_ [_ [Hstep' [_ [_ [_ [Hoth _]]]]]]]].
    destruct (next_bookkeeping c st ch st' it Hwf Hinv En) as [Hseed _].
    intros Hm Hle i Hi. rewrite Hstep' in Hle.
    destruct (Nat.eq_dec i (it_z it)) as [->|Hne].
    + apply Hseed; auto. lia.
    + apply (HJ Hm ltac:(lia)). rewrite <- (proj1 (Hoth i Hne)). exact Hi.
  - destruct Hpost as [-> _]. exact HJ.
Qed.

Lemma run_inertia_inv c chs : WF c -> forall st t,
  Inv c st -> inertia_inv c st -> run c st chs = Ok t ->
  Forall (fun x => inertia_inv c (fst x)) t.
Proof.
  intros Hwf. induction chs as [|ch r IH]; intros st t Hinv HJ H.
  - simpl in H. inversion H. constructor.
  - cbn [run] in H. destruct (next c st ch) as [[st' oit]|e|s|] eqn:En; cbn [rbind] in H; try discriminate.
    cbn [fst] in H. destruct (run c st' r) as [t'|e|s|] eqn:E; cbn [rbind] in H; try discriminate.
    inversion H; subst t; clear H.
    destruct (next_inv c st ch st' oit Hwf Hinv En) as [Hinv' _].
    pose proof (next_inertia_inv c st ch st' oit Hwf Hinv HJ En) as HJ'.
    constructor; [exact HJ'|]. apply (IH st'); auto.
Qed.

(* ---------- statements of C16.v proved here (the property file only holds short proofs) ---------- *)

Lemma run_state_inv :
  forall c st chs t,
    WF c -> seed_ok c -> Inv c st -> run c st chs = Ok t ->
    Forall (fun x =>
      let st' := fst x in
      st_motif st' = recompute_motif (cK c) (cW c) (cData c) (st_active st') (st_starts st') /\
      st_bg st' = recompute_bg (cK c) (cW c) (cData c) (st_active st') (st_starts st') /\
      st_count st' = count_true (st_active st') /\
      starts_in_range (cW c) (cData c) (st_starts st') = true /\
      st_last st' <= st_step st')%N t.
Proof.
  intros c st chs t Hwf Hseed Hinv Hrun.
  pose proof (run_inv c chs Hwf Hseed st Hinv) as H. rewrite Hrun in H. destruct H as [_ Ht].
  eapply Forall_impl; [|apply (trace_ok_states c t st Ht)].
  intros x [[H1 H2 H3 H4 H5] Hl _]. cbv zeta. auto.
Qed.

Lemma new_run_check :
  forall (freq : N -> N -> Z) K W data wraps m initial inertia patience starts0 seeds0 chs c st0 t,
    data_ok K W data ->
    Forall (fun wr => (W <= wr)%nat) wraps ->
    starts_in_range W data starts0 = true ->
    (m = Zoops -> seeds_ok (length data) initial seeds0) ->
    new_ K W data wraps m initial inertia patience starts0 seeds0 = Ok (c, st0) ->
    run c st0 chs = Ok t ->
    check_C16 freq K W data (report_of freq st0) (obs_of_trace freq t) = true.
Proof.
  intros freq K W data wraps m initial inertia patience starts0 seeds0 chs c st0 t Hd Hw Hr Hs En Er.
  destruct (new_run_holds freq K W data wraps m initial inertia patience starts0 seeds0 chs Hd Hw Hr Hs)
    as [c' [st0' [En' H]]].
  rewrite En in En'. inversion En'; subst c' st0'. rewrite Er in H.
  apply check_C16_iff. tauto.
Qed.

Lemma new_run_inertia :
  forall K W data wraps initial inertia patience starts0 seeds0 chs c st0 t,
    data_ok K W data ->
    Forall (fun wr => (W <= wr)%nat) wraps ->
    starts_in_range W data starts0 = true ->
    seeds_ok (length data) initial seeds0 ->
    new_ K W data wraps Zoops initial inertia patience starts0 seeds0 = Ok (c, st0) ->
    run c st0 chs = Ok t ->
    Forall (fun x => (st_step (fst x) <= inertia)%N ->
                     forall i, nth i (st_active (fst x)) false = true -> In i seeds0) t.
Proof.
  intros K W data wraps initial inertia patience starts0 seeds0 chs c st0 t Hd Hw Hr Hs En Er.
  destruct (new_ok K W data wraps Zoops initial inertia patience starts0 seeds0 Hd Hw Hr (fun _ => Hs))
    as [c' [st0' [En' [Hwf [Hinv [Hc [_ [_ [_ Hact]]]]]]]]].
  assert (Heq : c' = c /\ st0' = st0) by (rewrite En in En'; inversion En'; auto).
  destruct Heq as [-> ->]. clear En'.
  assert (HJ : inertia_inv c st0).
  { intros _ _ i Hi. rewrite Hact in Hi. cbn [init_active] in Hi.
    apply existsb_exists in Hi. destruct Hi as [x [Hx Hxe]]. apply Nat.eqb_eq in Hxe. subst x.
    rewrite Hc. exact Hx. }
  pose proof (run_inertia_inv c chs Hwf st0 t Hinv HJ Er) as H.
  eapply Forall_impl; [|exact H]. intros x Hx Hle. unfold inertia_inv in Hx.
  rewrite Hc in Hx. cbn [cMode cInertia cSeed] in Hx. apply Hx; auto.
Qed.

Lemma builder_run_holds :
  forall (freq : N -> N -> Z) K data wraps ops b starts0 seeds0 chs,
    builder_run builder_new ops = Ok b ->
    data_ok K (b_width b) data ->
    Forall (fun wr => (b_width b <= wr)%nat) wraps ->
    starts_in_range (b_width b) data starts0 = true ->
    (b_mode b = Zoops -> seeds_ok (length data) (b_seeds b) seeds0) ->
    exists c st0,
      builder_sample K data wraps b starts0 seeds0 = Ok (c, st0) /\
      cInertia c = match b_inertia b with Some i => i | None => 0%N end /\
      cPatience c = match b_patience b with Some p => p | None => N.of_nat (length data) end /\
      match run c st0 chs with
      | Ok t => length t = length chs /\
                Holds_C16 freq K (b_width b) data (report_of freq st0) (obs_of_trace freq t)
      | r => allowed r
      end.
Proof.
  intros freq K data wraps ops b starts0 seeds0 chs _ Hd Hw Hr Hs. unfold builder_sample.
  destruct (new_ok K (b_width b) data wraps (b_mode b) (b_seeds b)
              (match b_inertia b with Some i => i | None => 0%N end)
              (match b_patience b with Some p => p | None => N.of_nat (length data) end)
              starts0 seeds0 Hd Hw Hr Hs) as [c [st0 [E [_ [_ [Hc _]]]]]].
  destruct (new_run_holds freq K (b_width b) data wraps (b_mode b) (b_seeds b)
              (match b_inertia b with Some i => i | None => 0%N end)
              (match b_patience b with Some p => p | None => N.of_nat (length data) end)
              starts0 seeds0 chs Hd Hw Hr Hs) as [c' [st0' [E' H]]].
  rewrite E in E'. inversion E'; subst c' st0'.
  exists c, st0. split; [exact E|]. rewrite Hc at 1 2. cbn [cInertia cPatience]. auto.
Qed.

Lemma new_run_progress :
  forall K W data wraps m initial inertia patience starts0 seeds0 chs,
    data_ok K W data ->
    Forall (fun s => (W < length s)%nat) data ->
    Forall (fun wr => (W <= wr)%nat) wraps ->
    starts_in_range W data starts0 = true ->
    (m = Zoops -> seeds_ok (length data) initial seeds0) ->
    exists c st0,
      new_ K W data wraps m initial inertia patience starts0 seeds0 = Ok (c, st0) /\
      (choices_ok c st0 chs -> exists t, run c st0 chs = Ok t).
Proof.
  intros K W data wraps m initial inertia patience starts0 seeds0 chs Hd Hs Hw Hr Hseeds.
  destruct (new_ok K W data wraps m initial inertia patience starts0 seeds0 Hd Hw Hr Hseeds)
    as [c [st0 [E [Hwf [Hinv [Hc _]]]]]].
  exists c, st0. split; [exact E|]. apply run_progress; auto.
  unfold strict_len. rewrite Hc. exact Hs.
Qed.
