(* Step-level soundness of the TFM-PVALUE iterators in exact arithmetic: the
   hypothesis [dist_exact] of TfmProofs.lookup_pvalue_sound / TfmScore.lookup_score_sound
   is discharged by TfmDist.distribution_exact. *)
From Coq Require Import ZArith QArith Qround List Bool Lia Lqa Sorted Permutation.
From LMBase Require Import Res ListX.
From LMTfm Require Import TfmNum TfmModel TfmSpec TfmProofs TfmScore TfmDist TfmPerm.
Import ListNotations.
Open Scope Q_scope.

(* the integer matrix after recompute: K-1 non-negative cells per row, row maxima *)
Lemma recompute_cells rows perm (bg : list Q) K g G :
  matrix_ok K rows bg -> recompute NumQ rows perm g = Ok G ->
  Forall (fun r => length r = (K - 1)%nat /\ forall c, In c r -> (0 <= c)%Z) (g_int G) /\
  g_maxr G = map zmax_of (g_int G) /\ length (g_int G) = length perm.
Proof.
  intros [HK [Hlen [Hbgl [Hbg [Hunit Hwild]]]]] Hrec.
  destruct (recompute_Q_geom _ _ _ _ Hrec) as [prow [Hpr [Hgran [Hg1 [Hint [Hoff [Hne [_ [Hmaxr _]]]]]]]]].
  destruct (permuted_rows_spec _ _ _ Hpr) as [Hplen [Hpin Hcells]].
  split; [|split; [exact Hmaxr|]].
  - rewrite Hint. unfold ints_of. rewrite Forall_forall. intros r Hr.
    apply in_map_iff in Hr. destruct Hr as [cs [<- Hcs]]. apply in_map_iff in Hcs. destruct Hcs as [r0 [<- Hr0]].
    split.
    + rewrite map_length. apply cells_length. rewrite Forall_forall in Hlen, Hpin. apply Hlen. apply Hpin. exact Hr0.
    + intros c Hc. apply in_map_iff in Hc. destruct Hc as [x [<- Hx]]. unfold off_of.
      assert (In (qfl g x) (map (qfl g) (cells r0))) by (apply in_map; exact Hx).
      pose proof (zmin_of_le _ _ H). lia.
  - rewrite Hint. unfold ints_of. rewrite !map_length. exact Hplen.
Qed.

Lemma matrix_ok_bg K rows (bg : list Q) : matrix_ok K rows bg -> bg_mass (K - 1) bg /\ (K - 1 <= length bg)%nat.
Proof.
  intros [HK [_ [Hbgl [_ [Hunit Hw]]]]]. split; [|lia]. unfold bg_mass. rewrite Hw. unfold bg_unit in Hunit. lra.
Qed.

(* PvaluesIterator::next: every refinement step brackets the exact tail *)
Theorem pv_next_sound rows perm bg K g score it :
  matrix_ok K rows bg -> (2 <= length rows)%nat -> length perm = length rows -> 0 < g ->
  pv_next NumQ rows perm bg score g = Ok it ->
  let M := inject_Z (Z.of_nat (length rows)) in
  let cs := perm_cells rows perm in
  io_gran it = g /\
  io_start it <= io_end it /\ 0 <= io_start it /\ io_end it <= 1 /\
  tailS cs bg (score + (M + 1) * g) <= io_start it /\
  io_end it <= tailS cs bg (score - (M + 2) * g).
Proof.
  intros Hok HM Hperm Hg H M cs. unfold pv_next in H.
  apply rbind_ok in H. destruct H as [G [Hrec H]].
  apply rbind_ok in H. destruct H as [o [Hlook H]].
  inversion H; subst it; clear H. cbn [io_gran io_start io_end]. split; [reflexivity|].
  destruct (recompute_cells _ _ _ _ _ _ Hok Hrec) as [Hcells [Hmaxr HlenG]].
  destruct (matrix_ok_bg _ _ _ Hok) as [Hunit Hbl].
  assert (Hdist : dist_exact (irows (g_int G) bg) (pv_lo o) (pv_hi o) (last (pv_rows o) [])).
  { (* the table is the one computed by distribution(min, max) *)
    pose proof Hlook as Hl. unfold lookup_pvalue in Hl. cbn [NumQ n_isnan] in Hl.
    apply rbind_ok in Hl. destruct Hl as [osum [_ Hl]].
    apply rbind_ok in Hl. destruct Hl as [rowsq [Hd Hl]].
    destruct (fm_get _ _) as [pmin|]; [|discriminate].
    destruct (walk_down _ _ _) as [kv|]; [|discriminate].
    inversion Hl; subst o; clear Hl. cbn [pv_lo pv_hi pv_rows].
    apply (distribution_exact G bg _ _ rowsq (K - 1)%nat Hd); [lia|exact Hcells|exact Hmaxr|exact Hunit|exact Hbl|].
    (* min <= max + 1 *)
    destruct (recompute_Q_geom _ _ _ _ Hrec) as [prow [Hpr [Hgran [Hg1 [Hint [Hoff [Hne [_ [_ Hem]]]]]]]]].
    destruct (permuted_rows_spec _ _ _ Hpr) as [Hplen [Hpin Hcs]].
    destruct Hok as [_ [_ [_ [_ [_ Hwild]]]]].
    rewrite combine_map_self, tl_map in Hem.
    apply error_max_from_Q in Hem; auto.
    2:{ apply Forall_tl. exact Hne. }
    destruct Hem as [Em0 _]. cbn [NumQ n_floorZ n_add n_sub n_div n_ofZ n_one].
    set (sc := score / g_gran G + inject_Z osum).
    assert (Qfloor (sc - g_emax G - 1) <= Qfloor (sc + g_emax G + 1))%Z by (apply Qfloor_resp_le; lra).
    lia. }
  exact (lookup_pvalue_sound rows perm bg K g G score o Hok Hg Hperm Hrec Hlook Hdist).
Qed.

(* ScoresIterator::next on an adequate window *)
Theorem sc_next_sound rows perm bg K g p win it :
  matrix_ok K rows bg -> (2 <= length rows)%nat -> length perm = length rows -> 0 < g -> 0 < p ->
  (fst win <= snd win + 1)%Z ->
  sc_next NumQ rows perm bg p g win = Ok it ->
  io_total_lt it = false -> (1 < length (last (io_rows it) []))%nat ->
  let M := inject_Z (Z.of_nat (length rows)) in
  let cs := perm_cells rows perm in
  let t := io_score it in
  let d := (M + 2) * g in
  io_gran it = g /\
  tailS cs bg (t + d) <= p /\
  (forall l, attain l (srows cs bg) -> Qsum l < t - d -> p <= tailS cs bg (Qsum l - d)).
Proof.
  intros Hok HM Hperm Hg Hp Hwin H Hw1 Hw2 M cs t d. unfold sc_next in H.
  apply rbind_ok in H. destruct H as [G [Hrec H]].
  apply rbind_ok in H. destruct H as [o [Hlook H]].
  apply rbind_ok in H. destruct H as [osum [Hosum H]].
  destruct (negb _); [discriminate|].
  inversion H; subst it; clear H. cbn [io_gran io_score io_total_lt io_rows] in *. split; [reflexivity|].
  destruct (recompute_cells _ _ _ _ _ _ Hok Hrec) as [Hcells [Hmaxr HlenG]].
  destruct (matrix_ok_bg _ _ _ Hok) as [Hunit Hbl].
  assert (Hrows : distribution NumQ G bg (fst win) (snd win) = Ok (ls_rows o)).
  { pose proof Hlook as Hl. unfold lookup_score in Hl. cbn [NumQ n_isnan] in Hl.
    apply rbind_ok in Hl. destruct Hl as [rowsq [Hd Hl]]. rewrite Hd. f_equal.
    destruct (length (last rowsq [])); [discriminate|].
    apply rbind_ok in Hl. destruct Hl as [[[riter sum] pvs] [_ Hl]].
    apply rbind_ok in Hl. destruct Hl as [[[[a ae] pvs'] exh] [_ Hl]].
    apply rbind_ok in Hl. destruct Hl as [pa [_ Hl]].
    apply rbind_ok in Hl. destruct Hl as [pe [_ Hl]].
    inversion Hl; subst o. reflexivity. }
  assert (Hdist : dist_exact (irows (g_int G) bg) (fst win) (snd win) (last (ls_rows o) [])).
  { apply (distribution_exact G bg _ _ (ls_rows o) (K - 1)%nat Hrows); [lia|exact Hcells|exact Hmaxr|exact Hunit|exact Hbl|exact Hwin]. }
  apply sum_i64_ok in Hosum. rewrite Z.add_0_l in Hosum.
  unfold t. cbn [NumQ n_mul n_ofZ]. rewrite Hosum.
  exact (lookup_score_sound rows perm bg K g G p (fst win) (snd win) o Hok Hg Hperm Hrec Hlook Hdist
           (conj Hw1 Hw2) Hp).
Qed.
