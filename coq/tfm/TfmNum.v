(* Numbers for the TFM-PVALUE model (lightmotif-tfmpvalue/src/lib.rs).

   The model text (TfmModel.v) is written once over a parameterised record of
   operations [NumOps T]; it is instantiated with
     - exact rationals [Q]     (theorems: TfmProofs.v, C12.v, C13.v),
     - IEEE binary64 [F64.t]   (bit-exact replay of the code's f64 computations).
   This file also provides exact dyadic arithmetic [dy] (m * 2^e with integer m, e),
   in which every finite f32 / f64 value is represented exactly; the property
   checkers run in it (no rounding, no normalisation needed).

   Executable definitions only (no proofs): see TfmProofs.v. *)
From Coq Require Import ZArith QArith Qround List Bool.
From Flocq Require Import Core BinarySingleNaN.
From LMBase Require Import IEEE.
Import ListNotations.

Record NumOps (T : Type) : Type := mkNum {
  n_zero : T;                         (* 0.0 *)
  n_one : T;                          (* 1.0 *)
  n_half : T;                         (* 0.5 *)
  n_ten : T;                          (* 10.0 (decay) *)
  n_tenth : T;                        (* 0.1 (initial granularity) *)
  n_add : T -> T -> T;
  n_sub : T -> T -> T;
  n_mul : T -> T -> T;
  n_div : T -> T -> T;
  n_ofZ : Z -> T;                     (* i64 as f64 *)
  n_floorZ : T -> Z;                  (* x.floor() as i64 *)
  n_ceilZ : T -> Z;                   (* x.ceil() as i64 *)
  n_ceil : T -> T;                    (* x.ceil() *)
  n_cmp : T -> T -> option comparison;(* partial_cmp *)
  n_isnan : T -> bool;
}.

Arguments n_zero {T}. Arguments n_one {T}. Arguments n_half {T}. Arguments n_ten {T}.
Arguments n_tenth {T}. Arguments n_add {T}. Arguments n_sub {T}. Arguments n_mul {T}.
Arguments n_div {T}. Arguments n_ofZ {T}. Arguments n_floorZ {T}. Arguments n_ceilZ {T}.
Arguments n_ceil {T}. Arguments n_cmp {T}. Arguments n_isnan {T}.

(* ---------- exact rationals ---------- *)

Definition Qcmp_opt (a b : Q) : option comparison := Some (Qcompare a b).

Definition NumQ : NumOps Q := {|
  n_zero := 0%Q; n_one := 1%Q; n_half := (1#2)%Q; n_ten := 10%Q; n_tenth := (1#10)%Q;
  n_add := Qplus; n_sub := Qminus; n_mul := Qmult; n_div := Qdiv;
  n_ofZ := inject_Z;
  n_floorZ := Qfloor; n_ceilZ := Qceiling;
  n_ceil := fun x => inject_Z (Qceiling x);
  n_cmp := Qcmp_opt;
  n_isnan := fun _ => false;
|}.

(* ---------- IEEE binary64 ---------- *)

Definition f64_tenth : F64.t := F64.of_bits 4591870180066957722.   (* 0.1 = 0x3FB999999999999A *)
Definition f64_half : F64.t := F64.of_bits 4602678819172646912.    (* 0.5 = 0x3FE0000000000000 *)

Definition NumF64 : NumOps F64.t := {|
  n_zero := F64.zero; n_one := F64.of_Z 1; n_half := f64_half; n_ten := F64.of_Z 10;
  n_tenth := f64_tenth;
  n_add := F64.add; n_sub := F64.sub; n_mul := F64.mul; n_div := F64.div;
  n_ofZ := F64.of_Z;
  n_floorZ := fun x => F64.to_i64 (F64.floor x);
  n_ceilZ := fun x => F64.to_i64 (F64.ceil x);
  n_ceil := F64.ceil;
  n_cmp := F64.cmp;
  n_isnan := F64.is_nan;
|}.

(* ---------- exact dyadic numbers ---------- *)

Definition dy : Type := (Z * Z)%type.          (* (m, e) stands for m * 2^e *)

Definition dy0 : dy := (0, 0)%Z.
Definition dy1 : dy := (1, 0)%Z.
Definition dy_ofZ (z : Z) : dy := (z, 0%Z).
Definition dy_pow2 (e : Z) : dy := (1%Z, e).

(* bring two dyadics to their common (smaller) exponent *)
Definition dy_align (a b : dy) : Z * Z :=
  let e := Z.min (snd a) (snd b) in
  (Z.shiftl (fst a) (snd a - e), Z.shiftl (fst b) (snd b - e)).

Definition dy_add (a b : dy) : dy :=
  let '(x, y) := dy_align a b in (x + y, Z.min (snd a) (snd b))%Z.
Definition dy_sub (a b : dy) : dy :=
  let '(x, y) := dy_align a b in (x - y, Z.min (snd a) (snd b))%Z.
Definition dy_mul (a b : dy) : dy := (fst a * fst b, snd a + snd b)%Z.
Definition dy_cmp (a b : dy) : comparison :=
  let '(x, y) := dy_align a b in Z.compare x y.
Definition dy_leb (a b : dy) : bool := match dy_cmp a b with Gt => false | _ => true end.
Definition dy_ltb (a b : dy) : bool := match dy_cmp a b with Lt => true | _ => false end.

Definition dy_toQ (a : dy) : Q :=
  match snd a with
  | Z0 => inject_Z (fst a)
  | Zpos p => inject_Z (fst a * 2 ^ Zpos p)
  | Zneg p => Qmake (fst a) (2 ^ p)%positive
  end.

(* strip trailing zero bits of the mantissa (keeps the numbers small) *)
Fixpoint trim_pos (p : positive) (e : Z) : positive * Z :=
  match p with
  | xO p' => trim_pos p' (e + 1)%Z
  | _ => (p, e)
  end.

Definition dy_of_sme (s : bool) (m : positive) (e : Z) : dy :=
  let '(m', e') := trim_pos m e in ((if s then Zneg m' else Zpos m'), e').

(* exact value of a finite float; None for NaN and infinities *)
Definition f64_to_dy (x : F64.t) : option dy :=
  match x with
  | B754_zero _ => Some dy0
  | B754_finite s m e _ => Some (dy_of_sme s m e)
  | _ => None
  end.

Definition f32_to_dy (x : F32.t) : option dy :=
  match x with
  | B754_zero _ => Some dy0
  | B754_finite s m e _ => Some (dy_of_sme s m e)
  | _ => None
  end.
